(* Lemmas about Model/Overhang.v (OverhangFilter): the layer sweep refines the direction-free specification,
   equivariance under mirrors and axis swaps, the direction parser, bounds of the smooth min / max. *)
From Coq Require Import String Ascii.
From Coq Require Import ZArith QArith Qabs List Bool Lia Permutation Reals Psatz.
From Pymoto Require Import Model.Grid Model.Overhang Proofs.GridP.
Import ListNotations.
Open Scope Z_scope.

Definition valid3 (dl a b : Z) : Prop :=
  (dl = 0 /\ a = 1 /\ b = 2) \/ (dl = 1 /\ a = 2 /\ b = 0) \/ (dl = 1 /\ a = 0 /\ b = 2) \/ (dl = 2 /\ a = 0 /\ b = 1).

Lemma dir_orth_valid g dl : 0 <= dl <= 2 -> valid3 dl (o1 g dl) (o2 g dl).
Proof.
  intros H. unfold valid3, o1, o2, dir_orth.
  assert (dl = 0 \/ dl = 1 \/ dl = 2) as [-> | [-> | ->]] by lia.
  - left. cbn. auto.
  - change ((1 + 1) mod 3) with 2. change ((1 + 2) mod 3) with 0. cbn [Z.eqb Pos.eqb andb].
    destruct (dim g =? 2); cbn; auto 10.
  - change ((2 + 1) mod 3) with 0. change ((2 + 2) mod 3) with 1. cbn. auto 10.
Qed.

Definition inbox3 (g : grid) (dl oa ob L a b : Z) : Prop :=
  0 <= L < zth (size3 g) dl /\ 0 <= a < zth (size3 g) oa /\ 0 <= b < zth (size3 g) ob.

Ltac v3cases V :=
  destruct V as [(-> & -> & ->) | [(-> & -> & ->) | [(-> & -> & ->) | (-> & -> & ->)]]];
  unfold inbox3, elnum, el_of, set3, zth, size3 in *; cbn in *.

Lemma elnum3_range g dl oa ob L a b : wf g -> valid3 dl oa ob -> inbox3 g dl oa ob L a b ->
  0 <= elnum g dl oa ob L a b < nel g.
Proof.
  intros Hwf V Hb. v3cases V; destruct Hb as (HL & Ha & Hb); apply elem_range; auto.
Qed.

Lemma elnum3_inj g dl oa ob L a b L' a' b' : wf g -> valid3 dl oa ob ->
  inbox3 g dl oa ob L a b -> inbox3 g dl oa ob L' a' b' ->
  elnum g dl oa ob L a b = elnum g dl oa ob L' a' b' -> L = L' /\ a = a' /\ b = b'.
Proof.
  intros Hwf V Hb Hb' E. v3cases V; destruct Hb as (HL & Ha & Hb); destruct Hb' as (HL' & Ha' & Hb');
  apply elem_inj in E; auto; lia.
Qed.

Lemma elnum3_surj g dl oa ob e : wf g -> valid3 dl oa ob -> 0 <= e < nel g ->
  exists L a b, inbox3 g dl oa ob L a b /\ elnum g dl oa ob L a b = e.
Proof.
  intros Hwf V He. destruct (elem_num_inv g Hwf e He) as (Hi & Hj & Hk & E).
  v3cases V.
  - exists (elem_i g e), (elem_j g e), (elem_k g e). auto.
  - exists (elem_j g e), (elem_k g e), (elem_i g e). auto.
  - exists (elem_j g e), (elem_i g e), (elem_k g e). auto.
  - exists (elem_k g e), (elem_i g e), (elem_j g e). auto.
Qed.


Lemma in_entire_layer m1 m2 a b : In (a, b) (entire_layer m1 m2) <-> 0 <= a < m1 /\ 0 <= b < m2.
Proof.
  unfold entire_layer. rewrite in_flat_map. split.
  - intros (a' & Ha & Hin). apply in_map_iff in Hin as (b' & E & Hb). inversion E; subst.
    apply in_zrange in Ha. apply in_zrange in Hb. auto.
  - intros (Ha & Hb). exists a. split; [apply in_zrange; auto|]. apply in_map_iff. exists b. split; auto.
    apply in_zrange; auto.
Qed.

Lemma inside_iff m1 m2 p : inside m1 m2 p = true <-> 0 <= fst p < m1 /\ 0 <= snd p < m2.
Proof. unfold inside. rewrite !andb_true_iff, !Z.leb_le, !Z.ltb_lt. tauto. Qed.

Ltac dxsplit H := destruct H as [-> | ->]; [change (1 >=? 0) with true | change (-1 >=? 0) with false]; cbv iota.

Section SweepProofs.
  Context {T : Type}.
  Variable smin : T -> T -> T.
  Variable smax : list T -> T.
  Variable dflt : T.

  Lemma scatter_length {P} (key : P -> Z) (val : P -> T) ps xs :
    length (scatter_by key val ps xs) = length xs.
  Proof.
    unfold scatter_by. revert xs. induction ps as [|q r IH]; intros xs; cbn; auto.
    rewrite IH. apply upd_length.
  Qed.

  Lemma scatter_other {P} (key : P -> Z) (val : P -> T) ps xs k :
    0 <= k -> (forall q, In q ps -> 0 <= key q /\ key q <> k) ->
    getT dflt (scatter_by key val ps xs) k = getT dflt xs k.
  Proof.
    intros Hk. unfold scatter_by, getT. revert xs. induction ps as [|q r IH]; intros xs H; cbn; auto.
    rewrite IH by (intros q' Hq'; apply H; right; auto).
    apply nth_upd_other. destruct (H q (or_introl eq_refl)) as (H0 & Hne). lia.
  Qed.

  Lemma scatter_hit {P} (key : P -> Z) (val : P -> T) ps xs p :
    In p ps ->
    (forall q, In q ps -> 0 <= key q < Z.of_nat (length xs)) ->
    (forall q, In q ps -> key q = key p -> val q = val p) ->
    getT dflt (scatter_by key val ps xs) (key p) = val p.
  Proof.
    revert xs p. induction ps as [|q r IH]; intros xs p Hin Hrange Hval; [destruct Hin|].
    change (scatter_by key val (q :: r) xs) with (scatter_by key val r (upd xs (Z.to_nat (key q)) (val q))).
    destruct (existsb (fun q' => key q' =? key p) r) eqn:Ex.
    - apply existsb_exists in Ex as (q' & Hq' & E). apply Z.eqb_eq in E.
      rewrite <- E, <- (Hval q' (or_intror Hq') E).
      apply IH; auto.
      + intros q0 H0. rewrite upd_length. apply Hrange. right; auto.
      + intros q0 H0 E0. rewrite (Hval q0 (or_intror H0)) by congruence.
        symmetry. apply Hval; [right; auto | auto].
    - assert (Hno : forall q', In q' r -> key q' <> key p).
      { intros q' Hq' E. assert (existsb (fun q' => key q' =? key p) r = true) as C.
        { apply existsb_exists. exists q'. split; auto. apply Z.eqb_eq; auto. }
        congruence. }
      assert (p = q) as -> .
      { destruct Hin as [E | Hr]; auto. exfalso. apply (Hno p Hr). reflexivity. }
      rewrite scatter_other.
      + unfold getT. apply nth_upd_same. pose proof (Hrange q (or_introl eq_refl)). lia.
      + apply Hrange. left; auto.
      + intros q' Hq'. split; [apply Hrange; right; auto | apply Hno; auto].
  Qed.

  Section OneDir.
    Variable g : grid.
    Variable dl dx nsamp : Z.
    Variable x : list T.
    Hypothesis Hwf : wf g.
    Hypothesis Hdl : 0 <= dl <= 2.
    Hypothesis Hdx : dx = 1 \/ dx = -1.
    Hypothesis Hlen : Z.of_nat (length x) = nel g.

    Let O1 := o1 g dl.
    Let O2 := o2 g dl.
    Let NL := nlay g dl.
    Let N1 := n1 g dl.
    Let N2 := n2 g dl.
    Let V : valid3 dl O1 O2 := dir_orth_valid g dl Hdl.

    (* the input field in layered coordinates, and the specification's output *)
    Definition xlay (l : nat) (p : Z * Z) : T := getT dflt x (coord g dl dx (Z.of_nat l) (fst p) (snd p)).
    Definition spec (l : nat) (p : Z * Z) : T := print_spec smin smax N1 N2 (layer_offsets nsamp) xlay l p.

    Definition Inv (t : Z) (xp : list T) : Prop :=
      length xp = length x /\
      forall l a b, 0 <= l < NL -> 0 <= a < N1 -> 0 <= b < N2 ->
        getT dflt xp (coord g dl dx l a b) =
        if l <=? t then spec (Z.to_nat l) (a, b) else getT dflt x (coord g dl dx l a b).

    Lemma NL_pos : 1 <= NL.
    Proof.
      destruct Hwf as (Hx & Hy & Hz). pose proof (nz1_pos g Hwf). subst NL. unfold nlay, zth, size3.
      assert (dl = 0 \/ dl = 1 \/ dl = 2) as [-> | [-> | ->]] by lia; simpl; lia.
    Qed.

    Lemma phys_range l : 0 <= l < NL -> 0 <= phys g dl dx l < NL.
    Proof. intros H. unfold phys. fold NL. dxsplit Hdx; lia. Qed.

    Lemma phys_inj l l' : phys g dl dx l = phys g dl dx l' -> l = l'.
    Proof. unfold phys. destruct (dx >=? 0); lia. Qed.

    Lemma inv_init : Inv 0 x.
    Proof.
      split; auto. intros l a b Hl Ha Hb. destruct (l <=? 0) eqn:E; auto.
      apply Z.leb_le in E. assert (l = 0) as -> by lia. reflexivity.
    Qed.

    Lemma coord_box l a b : 0 <= l < NL -> 0 <= a < N1 -> 0 <= b < N2 ->
      inbox3 g dl O1 O2 (phys g dl dx l) a b.
    Proof. intros Hl Ha Hb. split; [apply phys_range; auto | split; auto]. Qed.

    Lemma inv_step t xp : 1 <= t <= NL - 1 -> Inv (t - 1) xp -> Inv t (layer_step smin smax dflt g dl dx nsamp x xp (phys g dl dx t)).
    Proof.
      intros Ht (HlenI & HI). split.
      { unfold layer_step. rewrite scatter_length. auto. }
      intros l a b Hl Ha Hb. unfold layer_step.
      destruct (Z.eq_dec l t) as [-> | Hne].
      - rewrite Z.leb_refl.
        set (key := fun p : Z * Z => elnum g dl (o1 g dl) (o2 g dl) (phys g dl dx t) (fst p) (snd p)).
        change (coord g dl dx t a b) with (key (a, b)).
        rewrite scatter_hit.
        + (* value *)
          replace (Z.to_nat t) with (S (Z.to_nat (t - 1))) by lia.
          cbn [print_spec spec]. unfold spec. cbn [print_spec]. f_equal.
          * unfold xlay, coord. cbn [fst snd]. f_equal. f_equal. f_equal. lia.
          * f_equal. unfold supports. fold N1 N2. apply map_ext_in. intros o Ho.
            apply filter_In in Ho as (Ho & Hins). apply inside_iff in Hins as (Hia & Hib).
            assert (E : phys g dl dx t - dx = phys g dl dx (t - 1)).
            { unfold phys. dxsplit Hdx; lia. }
            rewrite E. fold (coord g dl dx (t - 1) (fst (padd (a, b) o)) (snd (padd (a, b) o))).
            rewrite HI by (auto; lia). rewrite Z.leb_refl.
            destruct (padd (a, b) o); reflexivity.
        + apply in_entire_layer. auto.
        + intros q Hq. destruct q as (qa, qb). apply in_entire_layer in Hq as (Hqa & Hqb).
          rewrite HlenI, Hlen. apply (elnum3_range g dl O1 O2); auto. apply coord_box; auto; lia.
        + intros q Hq E. destruct q as (qa, qb). apply in_entire_layer in Hq as (Hqa & Hqb).
          unfold key in E. cbn [fst snd] in E.
          apply (elnum3_inj g dl O1 O2) in E as (_ & -> & ->); auto; apply coord_box; auto; lia.
      - rewrite scatter_other.
        + rewrite HI by auto. destruct (l <=? t - 1) eqn:E1, (l <=? t) eqn:E2; auto;
          rewrite ?Z.leb_le, ?Z.leb_gt in *; lia.
        + apply (elnum3_range g dl O1 O2); auto. apply coord_box; auto.
        + intros q Hq. destruct q as (qa, qb). apply in_entire_layer in Hq as (Hqa & Hqb). cbn [fst snd].
          split.
          * apply (elnum3_range g dl O1 O2); auto. apply coord_box; auto; lia.
          * intros E. apply (elnum3_inj g dl O1 O2) in E as (E & _ & _); auto;
              [apply phys_inj in E; lia | apply coord_box; auto; lia | apply coord_box; auto].
    Qed.

    Lemma loop_inv fuel : forall t xp, 1 <= t <= NL -> NL - t <= Z.of_nat fuel -> Inv (t - 1) xp ->
      Inv (NL - 1) (sweep_loop smin smax dflt g dl dx nsamp fuel x xp (phys g dl dx t)).
    Proof.
      induction fuel as [|f IH]; intros t xp Ht Hf HI.
      - cbn. assert (t = NL) as -> by lia. auto.
      - cbn [sweep_loop]. fold NL.
        assert (Etest : ((0 <=? phys g dl dx t) && (phys g dl dx t <? NL)) = (t <=? NL - 1)).
        { unfold phys. fold NL. dxsplit Hdx;
          destruct (t <=? NL - 1) eqn:E; rewrite ?andb_true_iff, ?andb_false_iff, ?Z.leb_le, ?Z.leb_gt, ?Z.ltb_lt, ?Z.ltb_ge in *; lia. }
        rewrite Etest. destruct (t <=? NL - 1) eqn:E.
        + apply Z.leb_le in E.
          assert (Ep : phys g dl dx t + dx = phys g dl dx (t + 1)).
          { unfold phys. dxsplit Hdx; lia. }
          rewrite Ep. apply IH; try lia. replace (t + 1 - 1) with t by lia. apply inv_step; auto; lia.
        + apply Z.leb_gt in E. assert (t = NL) as -> by lia. auto.
    Qed.

    Theorem sweep_refines_spec l a b : 0 <= l < NL -> 0 <= a < N1 -> 0 <= b < N2 ->
      getT dflt (sweep smin smax dflt g dl dx nsamp x) (coord g dl dx l a b) = spec (Z.to_nat l) (a, b).
    Proof.
      intros Hl Ha Hb. unfold sweep.
      assert (Es : ind_start g dl dx = phys g dl dx 1).
      { unfold ind_start, phys. dxsplit Hdx; lia. }
      rewrite Es. pose proof NL_pos as Hp.
      destruct (loop_inv (Z.to_nat (nlay g dl)) 1 x) as (_ & HI); fold NL; try lia.
      { replace (1 - 1) with 0 by lia. apply inv_init. }
      rewrite HI by auto. destruct (l <=? NL - 1) eqn:E; auto. apply Z.leb_gt in E. lia.
    Qed.

    Lemma sweep_length : length (sweep smin smax dflt g dl dx nsamp x) = length x.
    Proof.
      unfold sweep.
      assert (Es : ind_start g dl dx = phys g dl dx 1).
      { unfold ind_start, phys. dxsplit Hdx; lia. }
      rewrite Es. pose proof NL_pos as Hp.
      destruct (loop_inv (Z.to_nat (nlay g dl)) 1 x) as (HL & _); fold NL; try lia.
      { replace (1 - 1) with 0 by lia. apply inv_init. }
      auto.
    Qed.
  End OneDir.
End SweepProofs.


(* ---------------------------------------------------------------------------------------------- *)
(* specification-level lemmas                                                                      *)
Lemma perm_filter {A} (f : A -> bool) l l' : Permutation l l' -> Permutation (filter f l) (filter f l').
Proof.
  induction 1 as [| a l l' _ IH | a b l | l l' l'' _ IH1 _ IH2]; cbn.
  - constructor.
  - destruct (f a); auto.
  - destruct (f a), (f b); auto. constructor.
  - eapply perm_trans; eauto.
Qed.

Lemma filter_map_comm {A B} (h : A -> B) (f : B -> bool) l :
  filter f (map h l) = map h (filter (fun a => f (h a)) l).
Proof. induction l as [|a l IH]; cbn; auto. destruct (f (h a)); cbn; rewrite IH; auto. Qed.

Lemma lsym_inside s m1 m2 p :
  inside (fst (lsym_sizes s m1 m2)) (snd (lsym_sizes s m1 m2)) (lsym_app s m1 m2 p) = inside m1 m2 p.
Proof.
  destruct s as [sw a b], p as (pa, pb). unfold lsym_app, lsym_sizes, inside. cbn.
  destruct sw, a, b; cbn;
  repeat match goal with |- context [?u <=? ?v] => destruct (Z.leb_spec u v) end;
  repeat match goal with |- context [?u <? ?v] => destruct (Z.ltb_spec u v) end; cbn; try reflexivity; lia.
Qed.

Lemma lsym_padd s m1 m2 p o :
  padd (lsym_app s m1 m2 p) (lsym_lin s o) = lsym_app s m1 m2 (padd p o).
Proof.
  destruct s as [sw a b], p as (pa, pb), o as (oa, ob). unfold lsym_app, lsym_lin, lsym_sizes, padd. cbn.
  destruct sw, a, b; cbn; f_equal; lia.
Qed.

Section SpecProofs.
  Context {T : Type}.
  Variable smin : T -> T -> T.
  Variable smax : list T -> T.

  Lemma spec_ext m1 m2 offs (xl xl' : nat -> Z * Z -> T) L :
    (forall l p, (l <= L)%nat -> inside m1 m2 p = true -> xl l p = xl' l p) ->
    forall l p, (l <= L)%nat -> inside m1 m2 p = true ->
      print_spec smin smax m1 m2 offs xl l p = print_spec smin smax m1 m2 offs xl' l p.
  Proof.
    intros H. induction l as [|l IH]; intros p Hl Hp; cbn.
    - apply H; auto.
    - rewrite H by auto. f_equal. f_equal. apply map_ext_in. intros o Ho. apply filter_In in Ho as (_ & Hi).
      apply IH; auto. lia.
  Qed.

  Hypothesis smax_perm : forall l l', Permutation l l' -> smax l = smax l'.

  Lemma spec_sym s m1 m2 offs offs' (xl xl' : nat -> Z * Z -> T) L :
    Permutation (map (lsym_lin s) offs) offs' ->
    (forall l p, (l <= L)%nat -> inside m1 m2 p = true -> xl' l (lsym_app s m1 m2 p) = xl l p) ->
    forall l p, (l <= L)%nat -> inside m1 m2 p = true ->
      print_spec smin smax (fst (lsym_sizes s m1 m2)) (snd (lsym_sizes s m1 m2)) offs' xl' l (lsym_app s m1 m2 p)
      = print_spec smin smax m1 m2 offs xl l p.
  Proof.
    intros Hperm Hx. induction l as [|l IH]; intros p Hl Hp; cbn.
    - apply Hx; auto.
    - rewrite Hx by auto. f_equal.
      set (ins' := fun o => inside (fst (lsym_sizes s m1 m2)) (snd (lsym_sizes s m1 m2)) (padd (lsym_app s m1 m2 p) o)).
      set (F' := fun o => print_spec smin smax (fst (lsym_sizes s m1 m2)) (snd (lsym_sizes s m1 m2)) offs' xl' l
                                     (padd (lsym_app s m1 m2 p) o)).
      transitivity (smax (map F' (filter ins' (map (lsym_lin s) offs)))).
      { apply smax_perm. apply Permutation_map. apply perm_filter. apply Permutation_sym; auto. }
      f_equal. rewrite filter_map_comm, map_map.
      assert (Ef : forall o, ins' (lsym_lin s o) = inside m1 m2 (padd p o)).
      { intros o. unfold ins'. rewrite lsym_padd. apply lsym_inside. }
      rewrite (filter_ext _ _ Ef). apply map_ext_in. intros o Ho. apply filter_In in Ho as (_ & Hi).
      unfold F'. rewrite lsym_padd. apply IH; auto. lia.
  Qed.
End SpecProofs.


(* ---------------------------------------------------------------------------------------------- *)
(* a reflective permutation check for the concrete offset lists                                    *)
Definition zz_eqb (p q : Z * Z) : bool := (fst p =? fst q) && (snd p =? snd q).
Lemma zz_eqb_eq p q : zz_eqb p q = true -> p = q.
Proof. destruct p, q. unfold zz_eqb. cbn. rewrite andb_true_iff, !Z.eqb_eq. intros (-> & ->). reflexivity. Qed.
Fixpoint remove1 (a : Z * Z) (l : list (Z * Z)) : option (list (Z * Z)) :=
  match l with
  | [] => None
  | b :: t => if zz_eqb a b then Some t else match remove1 a t with Some r => Some (b :: r) | None => None end
  end.
Fixpoint perm_check (l l' : list (Z * Z)) : bool :=
  match l with
  | [] => match l' with [] => true | _ => false end
  | a :: t => match remove1 a l' with Some r => perm_check t r | None => false end
  end.
Lemma remove1_perm a l r : remove1 a l = Some r -> Permutation l (a :: r).
Proof.
  revert r. induction l as [|b t IH]; intros r H; cbn in H; [discriminate|].
  destruct (zz_eqb a b) eqn:E.
  - apply zz_eqb_eq in E. inversion H; subst. apply Permutation_refl.
  - destruct (remove1 a t) as [r'|]; [|discriminate]. inversion H; subst.
    eapply perm_trans; [apply perm_skip, IH; reflexivity | apply perm_swap].
Qed.
Lemma perm_check_sound l l' : perm_check l l' = true -> Permutation l l'.
Proof.
  revert l'. induction l as [|a t IH]; intros l' H; cbn in H.
  - destruct l'; [constructor | discriminate].
  - destruct (remove1 a l') as [r|] eqn:E; [|discriminate].
    apply Permutation_sym. eapply perm_trans; [apply remove1_perm; eauto|]. apply perm_skip, Permutation_sym, IH; auto.
Qed.

(* every offset set is invariant under mirroring the in-layer axes; the 3-D sets also under swapping them *)
Lemma offsets_sym s n : (n = 3 \/ n = 5 \/ n = 9) -> (ls_swap s = true -> n <> 3) ->
  Permutation (map (lsym_lin s) (layer_offsets n)) (layer_offsets n).
Proof.
  intros Hn Hs. destruct s as [sw a b]. cbn in Hs.
  destruct Hn as [-> | [-> | ->]]; destruct sw; try (exfalso; apply Hs; reflexivity);
  destruct a, b; apply perm_check_sound; vm_compute; reflexivity.
Qed.

Section Equivariance.
  Context {T : Type}.
  Variable smin : T -> T -> T.
  Variable smax : list T -> T.
  Variable dflt : T.
  Hypothesis smax_perm : forall l l', Permutation l l' -> smax l = smax l'.

  Theorem equiv_layered g dl dx g' dl' dx' s nsamp (x x' : list T) :
    wf g -> wf g' -> 0 <= dl <= 2 -> 0 <= dl' <= 2 -> (dx = 1 \/ dx = -1) -> (dx' = 1 \/ dx' = -1) ->
    Z.of_nat (length x) = nel g -> Z.of_nat (length x') = nel g' ->
    nlay g' dl' = nlay g dl ->
    n1 g' dl' = fst (lsym_sizes s (n1 g dl) (n2 g dl)) ->
    n2 g' dl' = snd (lsym_sizes s (n1 g dl) (n2 g dl)) ->
    Permutation (map (lsym_lin s) (layer_offsets nsamp)) (layer_offsets nsamp) ->
    (forall l a b, 0 <= l < nlay g dl -> 0 <= a < n1 g dl -> 0 <= b < n2 g dl ->
       getT dflt x' (coord g' dl' dx' l (fst (lsym_app s (n1 g dl) (n2 g dl) (a, b))) (snd (lsym_app s (n1 g dl) (n2 g dl) (a, b))))
       = getT dflt x (coord g dl dx l a b)) ->
    forall l a b, 0 <= l < nlay g dl -> 0 <= a < n1 g dl -> 0 <= b < n2 g dl ->
       getT dflt (sweep smin smax dflt g' dl' dx' nsamp x')
            (coord g' dl' dx' l (fst (lsym_app s (n1 g dl) (n2 g dl) (a, b))) (snd (lsym_app s (n1 g dl) (n2 g dl) (a, b))))
       = getT dflt (sweep smin smax dflt g dl dx nsamp x) (coord g dl dx l a b).
  Proof.
    intros Hwf Hwf' Hdl Hdl' Hdx Hdx' Hlen Hlen' ENL EN1 EN2 Hperm Hx l a b Hl Ha Hb.
    assert (Hin : inside (n1 g dl) (n2 g dl) (a, b) = true) by (apply inside_iff; cbn; auto).
    pose proof (lsym_inside s (n1 g dl) (n2 g dl) (a, b)) as Hin'. rewrite Hin, <- EN1, <- EN2 in Hin'.
    apply inside_iff in Hin' as (Ha' & Hb').
    rewrite (sweep_refines_spec smin smax dflt g' dl' dx' nsamp x' Hwf' Hdl' Hdx' Hlen') by (auto; lia).
    rewrite (sweep_refines_spec smin smax dflt g dl dx nsamp x Hwf Hdl Hdx Hlen) by auto.
    rewrite <- surjective_pairing. unfold spec. rewrite EN1, EN2.
    apply (spec_sym smin smax smax_perm s (n1 g dl) (n2 g dl) _ _ _ _ (Z.to_nat l)); auto.
    intros l0 p Hl0 Hp. destruct p as (pa, pb). apply inside_iff in Hp as (Hpa & Hpb). cbn [fst snd] in *.
    unfold xlay. apply Hx; auto. lia.
  Qed.
End Equivariance.


(* ---------------------------------------------------------------------------------------------- *)
(* equivariance in element coordinates                                                             *)
Lemma elnum_el g dl oa ob L a b : elnum g dl oa ob L a b = elemnumber3 g (el_of dl oa ob L a b).
Proof. reflexivity. Qed.

Lemma el_of_decomp g dl oa ob t : valid3 dl oa ob -> in_grid g t ->
  inbox3 g dl oa ob (get3 t dl) (get3 t oa) (get3 t ob) /\
  el_of dl oa ob (get3 t dl) (get3 t oa) (get3 t ob) = t.
Proof.
  intros V H. destruct t as ((i, j), k). cbn in H. destruct H as (Hi & Hj & Hk).
  destruct V as [(-> & -> & ->) | [(-> & -> & ->) | [(-> & -> & ->) | (-> & -> & ->)]]];
  unfold inbox3, el_of, set3, get3, zth, size3; cbn; auto.
Qed.

Lemma el_of_in_grid g dl oa ob L a b : valid3 dl oa ob -> inbox3 g dl oa ob L a b -> in_grid g (el_of dl oa ob L a b).
Proof.
  intros V H. v3cases V; destruct H as (HL & Ha & Hb); auto.
Qed.

Lemma el_of_get dl oa ob L a b : valid3 dl oa ob ->
  get3 (el_of dl oa ob L a b) dl = L /\ get3 (el_of dl oa ob L a b) oa = a /\ get3 (el_of dl oa ob L a b) ob = b.
Proof. intros V. v3cases V; auto. Qed.

Lemma mirror_el_of g dl oa ob L a b axis : valid3 dl oa ob -> 0 <= axis <= 2 ->
  mirror_el g axis (el_of dl oa ob L a b) =
  if axis =? dl then el_of dl oa ob (zth (size3 g) dl - 1 - L) a b
  else if axis =? oa then el_of dl oa ob L (zth (size3 g) oa - 1 - a) b
  else el_of dl oa ob L a (zth (size3 g) ob - 1 - b).
Proof.
  intros V Hax. unfold mirror_el.
  assert (axis = 0 \/ axis = 1 \/ axis = 2) as [-> | [-> | ->]] by lia;
  destruct V as [(-> & -> & ->) | [(-> & -> & ->) | [(-> & -> & ->) | (-> & -> & ->)]]];
  reflexivity.
Qed.


Lemma phys_neg g dl dx l : (dx = 1 \/ dx = -1) -> phys g dl (- dx) l = nlay g dl - 1 - phys g dl dx l.
Proof. intros [-> | ->]; unfold phys; [change (- (1) >=? 0) with false; change (1 >=? 0) with true
                                      | change (- -1 >=? 0) with true; change (-1 >=? 0) with false]; cbv iota; lia. Qed.

Lemma phys_invol g dl dx l : phys g dl dx (phys g dl dx l) = l.
Proof. unfold phys. destruct (dx >=? 0); lia. Qed.

Section MirrorEquivariance.
  Context {T : Type}.
  Variable smin : T -> T -> T.
  Variable smax : list T -> T.
  Variable dflt : T.
  Hypothesis smax_perm : forall l l', Permutation l l' -> smax l = smax l'.

  Theorem mirror_equivariance g dl dx axis nsamp (x x' : list T) :
    wf g -> 0 <= dl <= 2 -> 0 <= axis <= 2 -> (dx = 1 \/ dx = -1) -> (nsamp = 3 \/ nsamp = 5 \/ nsamp = 9) ->
    Z.of_nat (length x) = nel g -> Z.of_nat (length x') = nel g ->
    (forall t, in_grid g t -> getT dflt x' (elemnumber3 g (mirror_el g axis t)) = getT dflt x (elemnumber3 g t)) ->
    forall t, in_grid g t ->
      getT dflt (sweep smin smax dflt g dl (if axis =? dl then - dx else dx) nsamp x') (elemnumber3 g (mirror_el g axis t))
      = getT dflt (sweep smin smax dflt g dl dx nsamp x) (elemnumber3 g t).
  Proof.
    intros Hwf Hdl Hax Hdx Hn Hlen Hlen' Hx t Ht.
    pose proof (dir_orth_valid g dl Hdl) as V.
    set (s := {| ls_swap := false; ls_m1 := negb (axis =? dl) && (axis =? o1 g dl);
                 ls_m2 := negb (axis =? dl) && negb (axis =? o1 g dl) |}).
    set (dx' := if axis =? dl then - dx else dx).
    assert (Hdx' : dx' = 1 \/ dx' = -1) by (unfold dx'; destruct (axis =? dl); lia).
    (* the mirrored element in layered coordinates *)
    assert (Hmir : forall l a b,
      el_of dl (o1 g dl) (o2 g dl) (phys g dl dx' l)
            (fst (lsym_app s (n1 g dl) (n2 g dl) (a, b))) (snd (lsym_app s (n1 g dl) (n2 g dl) (a, b)))
      = mirror_el g axis (el_of dl (o1 g dl) (o2 g dl) (phys g dl dx l) a b)).
    { intros l a b. rewrite (mirror_el_of g _ _ _ _ _ _ axis V Hax). unfold s, dx', lsym_app, lsym_sizes. cbn [ls_swap ls_m1 ls_m2 fst snd].
      destruct (axis =? dl) eqn:Ed; cbn [negb andb].
      - rewrite phys_neg by auto. reflexivity.
      - destruct (axis =? o1 g dl) eqn:E1; cbn [negb]; reflexivity. }
    pose proof (equiv_layered smin smax dflt smax_perm g dl dx g dl dx' s nsamp x x'
                  Hwf Hwf Hdl Hdl Hdx Hdx' Hlen Hlen' eq_refl eq_refl eq_refl
                  (offsets_sym s nsamp Hn ltac:(cbn; discriminate))) as HE.
    destruct (el_of_decomp g dl (o1 g dl) (o2 g dl) t V Ht) as (Hbox & Et).
    destruct Hbox as (HL & Ha & Hb).
    assert (Hlay : forall l a b, 0 <= l < nlay g dl -> 0 <= a < n1 g dl -> 0 <= b < n2 g dl ->
       getT dflt x' (coord g dl dx' l (fst (lsym_app s (n1 g dl) (n2 g dl) (a, b))) (snd (lsym_app s (n1 g dl) (n2 g dl) (a, b))))
       = getT dflt x (coord g dl dx l a b)).
    { intros l a b Hl Ha0 Hb0. unfold coord. rewrite !elnum_el, Hmir. apply Hx.
      apply el_of_in_grid; auto. split; [|split; auto].
      unfold phys. fold (nlay g dl). destruct (dx >=? 0); lia. }
    specialize (HE Hlay (phys g dl dx (get3 t dl)) (get3 t (o1 g dl)) (get3 t (o2 g dl))).
    unfold coord in HE. rewrite !elnum_el, Hmir, phys_invol, Et in HE. apply HE; auto.
    unfold phys. fold (nlay g dl) in HL |- *. destruct (dx >=? 0); lia.
  Qed.
End MirrorEquivariance.


(* ---------------------------------------------------------------------------------------------- *)
(* axis swaps                                                                                      *)
Section ElMapEquivariance.
  Context {T : Type}.
  Variable smin : T -> T -> T.
  Variable smax : list T -> T.
  Variable dflt : T.
  Hypothesis smax_perm : forall l l', Permutation l l' -> smax l = smax l'.

  (* from layered to element coordinates, for an arbitrary map pi of element triples *)
  Lemma equiv_el_map g dl dx g' dl' dx' s nsamp (pi : Z * Z * Z -> Z * Z * Z) (x x' : list T) :
    wf g -> wf g' -> 0 <= dl <= 2 -> 0 <= dl' <= 2 -> (dx = 1 \/ dx = -1) -> (dx' = 1 \/ dx' = -1) ->
    Z.of_nat (length x) = nel g -> Z.of_nat (length x') = nel g' ->
    nlay g' dl' = nlay g dl ->
    n1 g' dl' = fst (lsym_sizes s (n1 g dl) (n2 g dl)) ->
    n2 g' dl' = snd (lsym_sizes s (n1 g dl) (n2 g dl)) ->
    Permutation (map (lsym_lin s) (layer_offsets nsamp)) (layer_offsets nsamp) ->
    (forall L a b,
       el_of dl' (o1 g' dl') (o2 g' dl') (if dx' >=? 0 then (if dx >=? 0 then L else nlay g dl - 1 - L)
                                           else nlay g dl - 1 - (if dx >=? 0 then L else nlay g dl - 1 - L))
             (fst (lsym_app s (n1 g dl) (n2 g dl) (a, b))) (snd (lsym_app s (n1 g dl) (n2 g dl) (a, b)))
       = pi (el_of dl (o1 g dl) (o2 g dl) L a b)) ->
    (forall t, in_grid g t -> getT dflt x' (elemnumber3 g' (pi t)) = getT dflt x (elemnumber3 g t)) ->
    forall t, in_grid g t ->
      getT dflt (sweep smin smax dflt g' dl' dx' nsamp x') (elemnumber3 g' (pi t))
      = getT dflt (sweep smin smax dflt g dl dx nsamp x) (elemnumber3 g t).
  Proof.
    intros Hwf Hwf' Hdl Hdl' Hdx Hdx' Hlen Hlen' ENL EN1 EN2 Hperm Hpi Hx t Ht.
    pose proof (dir_orth_valid g dl Hdl) as V.
    assert (Hmap : forall l a b,
      el_of dl' (o1 g' dl') (o2 g' dl') (phys g' dl' dx' l)
            (fst (lsym_app s (n1 g dl) (n2 g dl) (a, b))) (snd (lsym_app s (n1 g dl) (n2 g dl) (a, b)))
      = pi (el_of dl (o1 g dl) (o2 g dl) (phys g dl dx l) a b)).
    { intros l a b. rewrite <- Hpi. unfold phys. rewrite ENL. f_equal.
      destruct (dx' >=? 0), (dx >=? 0); lia. }
    pose proof (equiv_layered smin smax dflt smax_perm g dl dx g' dl' dx' s nsamp x x'
                  Hwf Hwf' Hdl Hdl' Hdx Hdx' Hlen Hlen' ENL EN1 EN2 Hperm) as HE.
    destruct (el_of_decomp g dl (o1 g dl) (o2 g dl) t V Ht) as (Hbox & Et).
    destruct Hbox as (HL & Ha & Hb).
    assert (Hlay : forall l a b, 0 <= l < nlay g dl -> 0 <= a < n1 g dl -> 0 <= b < n2 g dl ->
       getT dflt x' (coord g' dl' dx' l (fst (lsym_app s (n1 g dl) (n2 g dl) (a, b))) (snd (lsym_app s (n1 g dl) (n2 g dl) (a, b))))
       = getT dflt x (coord g dl dx l a b)).
    { intros l a b Hl Ha0 Hb0. unfold coord. rewrite !elnum_el, Hmap. apply Hx.
      apply el_of_in_grid; auto. split; [|split; auto].
      unfold phys. fold (nlay g dl). destruct (dx >=? 0); lia. }
    specialize (HE Hlay (phys g dl dx (get3 t dl)) (get3 t (o1 g dl)) (get3 t (o2 g dl))).
    unfold coord in HE. rewrite !elnum_el, Hmap, phys_invol, Et in HE. apply HE; auto.
    unfold phys. fold (nlay g dl) in HL |- *. destruct (dx >=? 0); lia.
  Qed.
End ElMapEquivariance.

Lemma dim_3d g : 1 <= nelz g -> dim g = 3.
Proof. intros H. unfold dim. destruct (nelz g =? 0) eqn:E; auto. apply Z.eqb_eq in E. lia. Qed.
Lemma dim_2d g : wf g -> nelz g = 0 -> dim g = 2.
Proof.
  intros (Hx & Hy & Hz) H. unfold dim. rewrite H. cbn. destruct (nely g =? 0) eqn:E; auto. apply Z.eqb_eq in E. lia.
Qed.
Lemma orth_3d g dl : dim g = 3 -> dir_orth g dl = ((dl + 1) mod 3, (dl + 2) mod 3).
Proof. intros H. unfold dir_orth. rewrite H. rewrite Bool.andb_false_r. reflexivity. Qed.
Lemma orth_2d g dl : dim g = 2 -> dir_orth g dl =
  if (dl + 1) mod 3 =? 2 then ((dl + 2) mod 3, (dl + 1) mod 3) else ((dl + 1) mod 3, (dl + 2) mod 3).
Proof. intros H. unfold dir_orth. rewrite H. rewrite Bool.andb_true_r. reflexivity. Qed.

Definition swap_ok (g : grid) (ax1 ax2 : Z) : Prop :=
  (ax1 = 0 /\ ax2 = 1) \/ (1 <= nelz g /\ ((ax1 = 0 /\ ax2 = 2) \/ (ax1 = 1 /\ ax2 = 2))).

Lemma swap_grid_facts g ax1 ax2 : wf g -> swap_ok g ax1 ax2 ->
  wf (swap_grid g ax1 ax2) /\ dim (swap_grid g ax1 ax2) = dim g /\
  size3 (swap_grid g ax1 ax2) =
    (match swap_el ax1 ax2 (nelx g, nely g, nz1 g) with (a, b, c) => [a; b; c] end) /\
  nel (swap_grid g ax1 ax2) = nel g.
Proof.
  intros Hwf Hok. pose proof (nz1_pos g Hwf) as Hz1. destruct Hwf as (Hx & Hy & Hz).
  destruct g as [nx ny nz]. unfold swap_ok in Hok. cbn [nelx nely nelz] in *.
  unfold swap_grid, wf, dim, size3, nel, nz1 in *. cbn [nelx nely nelz] in *.
  destruct Hok as [(-> & ->) | (H3 & [(-> & ->) | (-> & ->)])]; cbn -[Z.max Z.mul];
  destruct (nz =? 0) eqn:E; rewrite ?Z.eqb_eq, ?Z.eqb_neq in E; cbn -[Z.max Z.mul];
  repeat match goal with |- context [?u =? 0] => destruct (Z.eqb_spec u 0) end; try lia;
  repeat split; try lia; try (f_equal; f_equal; try lia; f_equal; lia).
Qed.

Section SwapEquivariance.
  Context {T : Type}.
  Variable smin : T -> T -> T.
  Variable smax : list T -> T.
  Variable dflt : T.
  Hypothesis smax_perm : forall l l', Permutation l l' -> smax l = smax l'.

  Theorem swap_equivariance g dl dx ax1 ax2 nsamp (x x' : list T) :
    wf g -> swap_ok g ax1 ax2 -> 0 <= dl <= 2 -> (dx = 1 \/ dx = -1) ->
    ((nelz g = 0 /\ dl <> 2 /\ nsamp = 3) \/ (1 <= nelz g /\ (nsamp = 5 \/ nsamp = 9))) ->
    Z.of_nat (length x) = nel g -> Z.of_nat (length x') = nel (swap_grid g ax1 ax2) ->
    (forall t, in_grid g t ->
       getT dflt x' (elemnumber3 (swap_grid g ax1 ax2) (swap_el ax1 ax2 t)) = getT dflt x (elemnumber3 g t)) ->
    forall t, in_grid g t ->
      getT dflt (sweep smin smax dflt (swap_grid g ax1 ax2) (swap_axis ax1 ax2 dl) dx nsamp x')
           (elemnumber3 (swap_grid g ax1 ax2) (swap_el ax1 ax2 t))
      = getT dflt (sweep smin smax dflt g dl dx nsamp x) (elemnumber3 g t).
  Proof.
    intros Hwf Hok Hdl Hdx Hcase Hlen Hlen' Hx.
    destruct (swap_grid_facts g ax1 ax2 Hwf Hok) as (Hwf' & Hdim' & Hsize' & Hnel').
    assert (EL : forall L, (if dx >=? 0 then (if dx >=? 0 then L else nlay g dl - 1 - L)
                            else nlay g dl - 1 - (if dx >=? 0 then L else nlay g dl - 1 - L)) = L).
    { intros L. destruct (dx >=? 0); lia. }
    destruct Hcase as [(Hz & Hd2 & ->) | (Hz & Hn)].
    - (* 2-D: only x <-> y, identity in-layer map *)
      assert (D : dim g = 2) by (apply dim_2d; auto).
      assert (D' : dim (swap_grid g ax1 ax2) = 2) by congruence.
      destruct Hok as [(-> & ->) | (H3 & _)]; [|lia].
      assert (Hdc : dl = 0 \/ dl = 1) by lia.
      set (s := {| ls_swap := false; ls_m1 := false; ls_m2 := false |}).
      assert (A1 : 0 <= swap_axis 0 1 dl <= 2).
      { unfold swap_axis. destruct Hdc as [-> | ->]; cbn; lia. }
      assert (A2 : nlay (swap_grid g 0 1) (swap_axis 0 1 dl) = nlay g dl).
      { unfold nlay. rewrite Hsize'. destruct Hdc as [-> | ->]; reflexivity. }
      assert (A3 : n1 (swap_grid g 0 1) (swap_axis 0 1 dl) = fst (lsym_sizes s (n1 g dl) (n2 g dl))).
      { unfold n1, n2, o1, o2. rewrite !orth_2d by auto. rewrite Hsize'. destruct Hdc as [-> | ->]; reflexivity. }
      assert (A4 : n2 (swap_grid g 0 1) (swap_axis 0 1 dl) = snd (lsym_sizes s (n1 g dl) (n2 g dl))).
      { unfold n1, n2, o1, o2. rewrite !orth_2d by auto. rewrite Hsize'. destruct Hdc as [-> | ->]; reflexivity. }
      assert (A5 : Permutation (map (lsym_lin s) (layer_offsets 3)) (layer_offsets 3)).
      { apply offsets_sym; [auto | cbn; discriminate]. }
      apply (equiv_el_map smin smax dflt smax_perm g dl dx (swap_grid g 0 1) (swap_axis 0 1 dl) dx
               s 3 (swap_el 0 1) x x' Hwf Hwf' Hdl A1 Hdx Hdx Hlen Hlen' A2 A3 A4 A5); auto.
      intros L a b. rewrite EL. unfold o1, o2. rewrite !orth_2d by auto.
      destruct Hdc as [-> | ->]; reflexivity.
    - (* 3-D: every transposition, the two in-layer axes are exchanged *)
      assert (D : dim g = 3) by (apply dim_3d; auto).
      assert (D' : dim (swap_grid g ax1 ax2) = 3) by congruence.
      assert (Hn' : nsamp = 3 \/ nsamp = 5 \/ nsamp = 9) by lia.
      assert (Hdc : dl = 0 \/ dl = 1 \/ dl = 2) by lia.
      assert (Hsw : (ax1 = 0 /\ ax2 = 1) \/ (ax1 = 0 /\ ax2 = 2) \/ (ax1 = 1 /\ ax2 = 2)).
      { destruct Hok as [? | (_ & [? | ?])]; auto. }
      set (s := {| ls_swap := true; ls_m1 := false; ls_m2 := false |}).
      assert (A1 : 0 <= swap_axis ax1 ax2 dl <= 2).
      { unfold swap_axis. destruct Hsw as [(-> & ->) | [(-> & ->) | (-> & ->)]];
        destruct Hdc as [-> | [-> | ->]]; cbn; lia. }
      assert (A2 : nlay (swap_grid g ax1 ax2) (swap_axis ax1 ax2 dl) = nlay g dl).
      { unfold nlay. rewrite Hsize'. destruct Hsw as [(-> & ->) | [(-> & ->) | (-> & ->)]];
        destruct Hdc as [-> | [-> | ->]]; reflexivity. }
      assert (A3 : n1 (swap_grid g ax1 ax2) (swap_axis ax1 ax2 dl) = fst (lsym_sizes s (n1 g dl) (n2 g dl))).
      { unfold n1, n2, o1, o2. rewrite !orth_3d by auto. rewrite Hsize'.
        destruct Hsw as [(-> & ->) | [(-> & ->) | (-> & ->)]]; destruct Hdc as [-> | [-> | ->]]; reflexivity. }
      assert (A4 : n2 (swap_grid g ax1 ax2) (swap_axis ax1 ax2 dl) = snd (lsym_sizes s (n1 g dl) (n2 g dl))).
      { unfold n1, n2, o1, o2. rewrite !orth_3d by auto. rewrite Hsize'.
        destruct Hsw as [(-> & ->) | [(-> & ->) | (-> & ->)]]; destruct Hdc as [-> | [-> | ->]]; reflexivity. }
      assert (A5 : Permutation (map (lsym_lin s) (layer_offsets nsamp)) (layer_offsets nsamp)).
      { apply offsets_sym; [auto | cbn; intros _; lia]. }
      apply (equiv_el_map smin smax dflt smax_perm g dl dx (swap_grid g ax1 ax2) (swap_axis ax1 ax2 dl) dx
               s nsamp (swap_el ax1 ax2) x x' Hwf Hwf' Hdl A1 Hdx Hdx Hlen Hlen' A2 A3 A4 A5); auto.
      intros L a b. rewrite EL. unfold o1, o2. rewrite !orth_3d by auto.
      destruct Hsw as [(-> & ->) | [(-> & ->) | (-> & ->)]]; destruct Hdc as [-> | [-> | ->]]; reflexivity.
  Qed.
End SwapEquivariance.

(* ---------------------------------------------------------------------------------------------- *)
(* corollaries                                                                                     *)
Section Corollaries.
  Context {T : Type}.
  Variable smin : T -> T -> T.
  Variable smax : list T -> T.
  Variable dflt : T.

  Lemma base_layer_unchanged g dl dx nsamp (x : list T) a b :
    wf g -> 0 <= dl <= 2 -> (dx = 1 \/ dx = -1) -> Z.of_nat (length x) = nel g ->
    0 <= a < n1 g dl -> 0 <= b < n2 g dl ->
    getT dflt (sweep smin smax dflt g dl dx nsamp x) (coord g dl dx 0 a b) = getT dflt x (coord g dl dx 0 a b).
  Proof.
    intros Hwf Hdl Hdx Hlen Ha Hb.
    rewrite (sweep_refines_spec smin smax dflt g dl dx nsamp x Hwf Hdl Hdx Hlen); auto.
    pose proof (nz1_pos g Hwf). destruct Hwf as (Hx & Hy & Hz). unfold nlay, zth, size3.
    assert (dl = 0 \/ dl = 1 \/ dl = 2) as [-> | [-> | ->]] by lia; simpl; lia.
  Qed.

  (* a domain with a single layer in print direction is returned unchanged *)
  Lemma single_layer_identity g dl dx nsamp (x : list T) e :
    wf g -> 0 <= dl <= 2 -> (dx = 1 \/ dx = -1) -> Z.of_nat (length x) = nel g -> nlay g dl = 1 ->
    0 <= e < nel g -> getT dflt (sweep smin smax dflt g dl dx nsamp x) e = getT dflt x e.
  Proof.
    intros Hwf Hdl Hdx Hlen H1 He.
    destruct (elnum3_surj g dl (o1 g dl) (o2 g dl) e Hwf (dir_orth_valid g dl Hdl) He) as (L & a & b & (HL & Ha & Hb) & E).
    fold (nlay g dl) in HL. assert (L = 0) as -> by lia.
    assert (Ec : coord g dl dx 0 a b = e).
    { unfold coord, phys. rewrite H1. destruct (dx >=? 0); rewrite <- E; reflexivity. }
    rewrite <- Ec. apply base_layer_unchanged; auto.
  Qed.
End Corollaries.

(* ---------------------------------------------------------------------------------------------- *)
(* string directions: the documented reading, independent of the parser's formulation              *)
Fixpoint count_char (c : ascii) (s : string) : nat :=
  match s with EmptyString => O | String d t => ((if Ascii.eqb c d then 1 else 0) + count_char c t)%nat end.
Definition occurs2 (lo up : ascii) (s : string) : bool := negb ((count_char lo s + count_char up s) =? 0)%nat.
Definition documented (s : string) : res (list Q) :=
  let sg := if (count_char "-" s =? 0)%nat then 1%Q else (-1)%Q in
  match occurs2 "x" "X" s, occurs2 "y" "Y" s, occurs2 "z" "Z" s with
  | true, false, false => Ok [sg; 0%Q; 0%Q]
  | false, true, false => Ok [0%Q; sg; 0%Q]
  | false, false, true => Ok [0%Q; 0%Q; sg]
  | _, _, _ => Err ValueError
  end.

Lemma contains_count c s : contains c s = negb (count_char c s =? 0)%nat.
Proof. induction s as [|d t IH]; cbn; auto. destruct (Ascii.eqb c d); cbn; auto. Qed.

Lemma occurs2_contains lo up s : occurs2 lo up s = contains lo s || contains up s.
Proof. unfold occurs2. rewrite !contains_count. destruct (count_char lo s), (count_char up s); reflexivity. Qed.

Lemma lower_is (lo up : ascii) :
  (forall d, Ascii.eqb lo (lower_ascii d) = Ascii.eqb lo d || Ascii.eqb up d) ->
  forall s, contains lo (lower s) = occurs2 lo up s.
Proof.
  intros H s. rewrite occurs2_contains. induction s as [|d t IH]; cbn; auto.
  rewrite H, IH. destruct (Ascii.eqb lo d), (Ascii.eqb up d), (contains lo t), (contains up t); reflexivity.
Qed.

Lemma lower_x d : Ascii.eqb "x" (lower_ascii d) = Ascii.eqb "x" d || Ascii.eqb "X" d.
Proof. destruct d as [[] [] [] [] [] [] [] []]; vm_compute; reflexivity. Qed.
Lemma lower_y d : Ascii.eqb "y" (lower_ascii d) = Ascii.eqb "y" d || Ascii.eqb "Y" d.
Proof. destruct d as [[] [] [] [] [] [] [] []]; vm_compute; reflexivity. Qed.
Lemma lower_z d : Ascii.eqb "z" (lower_ascii d) = Ascii.eqb "z" d || Ascii.eqb "Z" d.
Proof. destruct d as [[] [] [] [] [] [] [] []]; vm_compute; reflexivity. Qed.

Theorem parse_string_documented s : parse_string s = documented s.
Proof.
  unfold parse_string, documented. cbn [map].
  rewrite (lower_is "x" "X" lower_x), (lower_is "y" "Y" lower_y), (lower_is "z" "Z" lower_z), contains_count.
  destruct (occurs2 "x" "X" s), (occurs2 "y" "Y" s), (occurs2 "z" "Z" s), (count_char "-" s =? 0)%nat; reflexivity.
Qed.

(* the finite set of the property statement: all strings of length <= n over the alphabet *)
Definition alphabet : list ascii := ["x"; "y"; "z"; "+"; "-"; "X"; "Y"; "Z"; " "]%char.
Fixpoint strings_upto (n : nat) : list string :=
  match n with
  | O => [EmptyString]
  | S k => EmptyString :: flat_map (fun c => map (String c) (strings_upto k)) alphabet
  end.
Definition ql_eqb (a b : list Q) : bool :=
  (fix eqb (a b : list Q) := match a, b with [], [] => true | x :: a', y :: b' => Qeq_bool x y && eqb a' b' | _, _ => false end) a b.
Definition res_eqb (a b : res (list Q)) : bool :=
  match a, b with
  | Ok u, Ok v => ql_eqb u v
  | Err ValueError, Err ValueError => true
  | _, _ => false
  end.
(* the spellings named by the documentation: optional sign before or after the axis letter *)
Definition canonical_table : list (string * list Q) :=
  flat_map (fun la : ascii * Z =>
    let c := String (fst la) EmptyString in
    let v := fun sg : Q => set_nth [0%Q; 0%Q; 0%Q] (snd la) sg in
    [(c, v 1%Q); (append "+" c, v 1%Q); (append c "+", v 1%Q); (append "-" c, v (-1)%Q); (append c "-", v (-1)%Q)])
    [("x", 0); ("y", 1); ("z", 2); ("X", 0); ("Y", 1); ("Z", 2)]%char.

Lemma parse_strings_finite :
  List.length (strings_upto 3) = 820%nat /\
  forallb (fun s => res_eqb (parse_string s) (documented s)) (strings_upto 3) = true /\
  forallb (fun sv => res_eqb (parse_string (fst sv)) (Ok (snd sv))) canonical_table = true /\
  List.length canonical_table = 30%nat.
Proof. vm_compute. repeat split; reflexivity. Qed.


(* ---------------------------------------------------------------------------------------------- *)
(* vector directions                                                                               *)
Open Scope Q_scope.
Lemma Qabs_sq a : Qabs a * Qabs a == a * a.
Proof. rewrite <- Qabs_Qmult. apply Qabs_pos. nra. Qed.

(* the alignment assertion `abs(direction).sum() >= 1 - 1e-10` can never fail (|d|_1 >= |d|_2):
   every non-zero vector is accepted (in 2-D: every non-zero vector with zero z component) *)
Lemma check_dir_ok dimg a b c : ~ (a * a + b * b + c * c == 0) -> (dimg = 2%Z -> c == 0) ->
  check_dir dimg [a; b; c] = Ok [a; b; c].
Proof.
  intros Hnz Hz. unfold check_dir.
  assert (En : norm2 [a; b; c] == a * a + b * b + c * c) by (unfold norm2, qsum; cbn; ring).
  destruct (Qeq_bool (norm2 [a; b; c]) 0) eqn:E0.
  { apply Qeq_bool_iff in E0. exfalso. apply Hnz. rewrite <- En. exact E0. }
  assert (E2 : ((dimg =? 2)%Z && negb (Qeq_bool (nth 2 [a; b; c] 0) 0)) = false).
  { destruct (dimg =? 2)%Z eqn:Ed; cbn; auto. apply Z.eqb_eq in Ed.
    assert (Qeq_bool c 0 = true) as -> by (apply Qeq_bool_iff; auto). reflexivity. }
  rewrite E2.
  assert (E3 : Qle_bool (align_thr * align_thr * norm2 [a; b; c]) (abs_sum [a; b; c] * abs_sum [a; b; c]) = true).
  { apply Qle_bool_iff. rewrite En.
    assert (Es : abs_sum [a; b; c] == Qabs a + Qabs b + Qabs c) by (unfold abs_sum, qsum; cbn; ring).
    rewrite Es. pose proof (Qabs_nonneg a). pose proof (Qabs_nonneg b). pose proof (Qabs_nonneg c).
    pose proof (Qabs_sq a) as Sa. pose proof (Qabs_sq b) as Sb. pose proof (Qabs_sq c) as Sc.
    set (A := Qabs a) in *. set (B := Qabs b) in *. set (C := Qabs c) in *.
    assert (Hthr : align_thr * align_thr <= 1) by (vm_compute; discriminate).
    assert (0 <= a * a + b * b + c * c) by nra.
    assert (align_thr * align_thr * (a * a + b * b + c * c) <= a * a + b * b + c * c) by nra.
    assert (0 <= A * B) by nra. assert (0 <= A * C) by nra. assert (0 <= B * C) by nra.
    nra. }
  rewrite E3. reflexivity.
Qed.
Close Scope Q_scope.



Lemma qabs_nz_le c : ~ (c == 0)%Q -> Qle_bool (Qabs c) 0 = false.
Proof.
  intros H. destruct (Qle_bool (Qabs c) 0) eqn:E; auto. apply Qle_bool_iff in E.
  exfalso. apply H. apply (proj1 (Qabs_Qle_condition c 0)) in E. lra.
Qed.
Lemma qabs_0_le c : Qle_bool 0 (Qabs c) = true.
Proof. apply Qle_bool_iff. apply Qabs_nonneg. Qed.
Lemma qeqb_nz c : ~ (c == 0)%Q -> Qeq_bool c 0 = false.
Proof. intros H. destruct (Qeq_bool c 0) eqn:E; auto. apply Qeq_bool_iff in E. contradiction. Qed.

Lemma qsign_cases c : ~ (c == 0)%Q -> (qsign c = 1 \/ qsign c = -1) /\ ((0 < c)%Q -> qsign c = 1) /\ ((c < 0)%Q -> qsign c = -1).
Proof.
  destruct c as [n d]. unfold qsign, Qeq, Qlt. cbn. intros H. destruct n; cbn; try lia.
Qed.

Lemma check_dir_2d_z c : ~ (c == 0)%Q -> check_dir 2 [0%Q; 0%Q; c] = Err AssertionError.
Proof.
  intros H. unfold check_dir.
  assert (Qeq_bool (norm2 [0%Q; 0%Q; c]) 0 = false) as ->.
  { destruct (Qeq_bool _ 0) eqn:E; auto. apply Qeq_bool_iff in E. exfalso. apply H.
    assert (E' : (c * c == 0)%Q) by (rewrite <- E; unfold norm2, qsum; cbn; ring).
    apply Qmult_integral in E'. tauto. }
  cbn [nth]. rewrite (qeqb_nz c H). reflexivity.
Qed.

Theorem parse_vectors dimg len axis c :
  (dimg = 2 \/ dimg = 3) -> (len = 2 \/ len = 3)%nat -> 0 <= axis < Z.of_nat len -> ~ (c == 0)%Q ->
  prepare dimg (DVec (axis_vec len axis c)) None =
    (if (dimg =? 2) && (axis =? 2) then Err AssertionError
     else Ok (axis_vec 3 axis c, if dimg =? 2 then 3 else 5)) /\
  unit_dir (axis_vec 3 axis c) = Some (axis_vec 3 axis (inject_Z (qsign c))) /\
  dir_layer_of (axis_vec 3 axis c) = axis /\ dx_layer_of (axis_vec 3 axis c) = qsign c.
Proof.
  intros Hd Hl Hax Hc.
  pose proof (qabs_nz_le c Hc) as A1. pose proof (qabs_0_le c) as A2. pose proof (qeqb_nz c Hc) as A3.
  assert (Hnz : forall a b d : Q, (a == 0)%Q -> (b == 0)%Q -> ~ (d == 0)%Q -> True) by auto.
  assert (Hcc : ~ (c * c == 0)%Q) by (intros E; apply Qmult_integral in E; tauto).
  assert (Hcases : (len = 2%nat /\ (axis = 0 \/ axis = 1)) \/ (len = 3%nat /\ (axis = 0 \/ axis = 1 \/ axis = 2))) by lia.
  assert (K0 : check_dir dimg [c; 0%Q; 0%Q] = Ok [c; 0%Q; 0%Q]).
  { apply check_dir_ok; [intros E; apply Hcc; rewrite <- E; ring | reflexivity]. }
  assert (K1 : check_dir dimg [0%Q; c; 0%Q] = Ok [0%Q; c; 0%Q]).
  { apply check_dir_ok; [intros E; apply Hcc; rewrite <- E; ring | reflexivity]. }
  assert (K2 : dimg = 3 -> check_dir dimg [0%Q; 0%Q; c] = Ok [0%Q; 0%Q; c]).
  { intros ->. apply check_dir_ok; [intros E; apply Hcc; rewrite <- E; ring | discriminate]. }
  assert (Hns : check_nsampling dimg None = Ok (if dimg =? 2 then 3 else 5)).
  { destruct Hd as [-> | ->]; reflexivity. }
  split.
  - unfold prepare.
    destruct Hcases as [(-> & [-> | ->]) | (-> & [-> | [-> | ->]])]; unfold axis_vec; change (Z.to_nat 0) with 0%nat; change (Z.to_nat 1) with 1%nat; change (Z.to_nat 2) with 2%nat;
      cbn [pad3 repeat upd List.length Nat.ltb Nat.leb app Nat.sub firstn];
      rewrite ?Bool.andb_false_r.
    + rewrite K0, Hns. reflexivity.
    + rewrite K1, Hns. reflexivity.
    + rewrite K0, Hns. reflexivity.
    + rewrite K1, Hns. reflexivity.
    + destruct Hd as [-> | ->].
      * rewrite check_dir_2d_z by auto. reflexivity.
      * rewrite K2, Hns by auto. reflexivity.
  - assert (axis = 0 \/ axis = 1 \/ axis = 2) as [-> | [-> | ->]] by lia;
    [change (axis_vec 3 0 c) with [c; 0%Q; 0%Q] | change (axis_vec 3 1 c) with [0%Q; c; 0%Q]
     | change (axis_vec 3 2 c) with [0%Q; 0%Q; c]];
    (split; [unfold unit_dir, nonzero_count; cbn [filter]; rewrite A3; reflexivity |]);
    (assert (E : forall d, d = [c; 0%Q; 0%Q] \/ d = [0%Q; c; 0%Q] \/ d = [0%Q; 0%Q; c] -> True) by auto);
    unfold dx_layer_of, dir_layer_of, argmax_abs, argmax_from;
    change (Qabs 0) with 0%Q; rewrite ?A1, ?A2; cbn [negb]; rewrite ?A1, ?A2; cbn [negb];
    change (Qle_bool 0 0) with true; cbn [negb]; split; reflexivity.
Qed.


(* ============================================================================================== *)
(* real-number part                                                                                *)
Open Scope R_scope.

(* ---------------------------------------------------------------------------------------------- *)
(* smooth minimum                                                                                  *)
Lemma sqrt_sq_eps_ge r eps : 0 <= eps -> Rabs r <= sqrt (r * r + eps).
Proof.
  intros He. rewrite <- sqrt_Rsqr_abs. apply sqrt_le_1_alt. unfold Rsqr. lra.
Qed.

Lemma sqrt_sq_eps_le r eps : 0 <= eps -> sqrt (r * r + eps) <= Rabs r + sqrt eps.
Proof.
  intros He. pose proof (Rabs_pos r) as Hr. pose proof (sqrt_pos eps) as Hs.
  rewrite <- (sqrt_square (Rabs r + sqrt eps)) by lra.
  apply sqrt_le_1_alt.
  assert (E1 : Rabs r * Rabs r = r * r).
  { unfold Rabs. destruct (Rcase_abs r); lra. }
  assert (E2 : sqrt eps * sqrt eps = eps) by (apply sqrt_sqrt; auto).
  nra.
Qed.

Lemma smin_le_l eps a b : 0 <= eps -> smin_R eps a b <= a + sqrt eps / 2.
Proof.
  intros He. unfold smin_R. pose proof (sqrt_sq_eps_ge (a - b) eps He) as H.
  pose proof (Rle_abs (- (a - b))) as H2. rewrite Rabs_Ropp in H2. lra.
Qed.

Lemma smin_le_r eps a b : 0 <= eps -> smin_R eps a b <= b + sqrt eps / 2.
Proof.
  intros He. unfold smin_R. pose proof (sqrt_sq_eps_ge (a - b) eps He) as H.
  pose proof (Rle_abs (a - b)) as H2. lra.
Qed.

Lemma smin_ge_min eps a b : 0 <= eps -> Rmin a b <= smin_R eps a b.
Proof.
  intros He. unfold smin_R. pose proof (sqrt_sq_eps_le (a - b) eps He) as H.
  unfold Rmin. unfold Rabs in H. destruct (Rle_dec a b), (Rcase_abs (a - b)); lra.
Qed.

Lemma smin_le_min eps a b : 0 <= eps -> smin_R eps a b <= Rmin a b + sqrt eps / 2.
Proof.
  intros He. unfold Rmin. destruct (Rle_dec a b); [apply smin_le_l | apply smin_le_r]; auto.
Qed.

Lemma smin_eps0 a b : smin_R 0 a b = Rmin a b.
Proof.
  apply Rle_antisym.
  - pose proof (smin_le_min 0 a b (Rle_refl 0)) as H. rewrite sqrt_0 in H. lra.
  - apply smin_ge_min. lra.
Qed.

(* ---------------------------------------------------------------------------------------------- *)
(* smooth maximum (P-Q mean with shifts)                                                           *)
Lemma rsum_map_nonneg (f : R -> R) l : (forall v, 0 < f v) -> 0 <= rsum (map f l).
Proof.
  intros Hf. induction l as [|w l IH]; [cbn; lra|].
  change (rsum (map f (w :: l))) with (f w + rsum (map f l)). pose proof (Hf w). lra.
Qed.
Lemma rsum_map_ge (f : R -> R) l v : (forall v, 0 < f v) -> In v l -> f v <= rsum (map f l).
Proof.
  intros Hf. induction l as [|w l IH]; intros Hin; [destruct Hin|].
  change (rsum (map f (w :: l))) with (f w + rsum (map f l)).
  pose proof (rsum_map_nonneg f l Hf). pose proof (Hf w).
  destruct Hin as [-> | Hin]; [lra|]. specialize (IH Hin). lra.
Qed.
Lemma rpow_pos shift p v : 0 < Rpower (v + shift) p.
Proof. apply exp_pos. Qed.

Lemma rsum_pow_pos shift p l : l <> [] -> 0 < rsum (map (fun v => Rpower (v + shift) p) l).
Proof.
  destruct l as [|v l]; [congruence|]. intros _.
  pose proof (rsum_map_ge (fun v => Rpower (v + shift) p) (v :: l) v (rpow_pos shift p) (or_introl eq_refl)) as H.
  pose proof (rpow_pos shift p v). cbv beta in H. lra.
Qed.

Lemma rsum_pow_ge shift p l v : In v l -> Rpower (v + shift) p <= rsum (map (fun v => Rpower (v + shift) p) l).
Proof. intros Hin. apply (rsum_map_ge (fun v => Rpower (v + shift) p) l v (rpow_pos shift p) Hin). Qed.

Lemma rsum_pow_le shift p delta l : 0 <= p -> (forall v, In v l -> 0 < v + shift <= delta + shift) ->
  rsum (map (fun v => Rpower (v + shift) p) l) <= INR (length l) * Rpower (delta + shift) p.
Proof.
  intros Hp. induction l as [|w l IH]; intros H.
  - cbn. lra.
  - change (rsum (map (fun v => Rpower (v + shift) p) (w :: l)))
      with (Rpower (w + shift) p + rsum (map (fun v => Rpower (v + shift) p) l)).
    cbn [length]. rewrite S_INR.
    assert (Rpower (w + shift) p <= Rpower (delta + shift) p).
    { apply Rle_Rpower_l; auto. apply H. left; auto. }
    assert (rsum (map (fun v => Rpower (v + shift) p) l) <= INR (length l) * Rpower (delta + shift) p).
    { apply IH. intros v Hv. apply H. right; auto. }
    lra.
Qed.

Section SmaxBounds.
  Variables p q shift backshift : R.
  Hypothesis Hp : 0 < p.
  Hypothesis Hq : 0 < q.

  (* lower bound by any single support *)
  Lemma smax_ge_single l v : In v l -> 0 < v + shift ->
    Rpower (v + shift) (p / q) - backshift <= smax_R p q shift backshift l.
  Proof.
    intros Hin Hv. unfold smax_R.
    assert (Rpower (v + shift) (p / q) <= Rpower (rsum (map (fun v => Rpower (v + shift) p) l)) (1 / q)).
    { replace (p / q) with (p * (1 / q)) by (field; lra). rewrite <- Rpower_mult.
      apply Rle_Rpower_l.
      - apply Rlt_le. apply Rdiv_lt_0_compat; lra.
      - split; [apply exp_pos | apply rsum_pow_ge; auto]. }
    lra.
  Qed.

  (* a solid support keeps the maximum printable density at solid *)
  Lemma smax_solid l : backshift <= Rpower (1 + shift) (p / q) - 1 -> 0 < shift ->
    (exists v, In v l /\ 1 <= v) -> 1 <= smax_R p q shift backshift l.
  Proof.
    intros Hb Hs (v & Hin & Hv).
    pose proof (smax_ge_single l v Hin ltac:(lra)) as H.
    assert (Rpower (1 + shift) (p / q) <= Rpower (v + shift) (p / q)).
    { apply Rle_Rpower_l; [apply Rlt_le, Rdiv_lt_0_compat; lra | lra]. }
    lra.
  Qed.

  (* the maximum printable density is always above -backshift *)
  Lemma smax_gt_mbackshift l : - backshift < smax_R p q shift backshift l.
  Proof. unfold smax_R. pose proof (exp_pos (1 / q * ln (rsum (map (fun v => Rpower (v + shift) p) l)))). unfold Rpower at 1. lra. Qed.

  (* upper bound when every support is at most delta *)
  Lemma smax_le_delta (n : R) delta l : l <> [] -> INR (length l) <= n ->
    (forall v, In v l -> 0 < v + shift <= delta + shift) ->
    smax_R p q shift backshift l <= Rpower n (1 / q) * Rpower (delta + shift) (p / q) - backshift.
  Proof.
    intros Hne Hlen Hv. unfold smax_R.
    assert (Hpos := rsum_pow_pos shift p l Hne).
    assert (Hd : 0 < delta + shift).
    { destruct l as [|w l]; [congruence|]. specialize (Hv w (or_introl eq_refl)). lra. }
    assert (Hn : 0 < n).
    { destruct l as [|w l]; [congruence|]. cbn [length] in Hlen. rewrite S_INR in Hlen. pose proof (pos_INR (length l)). lra. }
    assert (Hsum := rsum_pow_le shift p delta l (Rlt_le _ _ Hp) Hv).
    assert (HK : 0 < Rpower (delta + shift) p) by apply exp_pos.
    assert (H1 : rsum (map (fun v => Rpower (v + shift) p) l) <= n * Rpower (delta + shift) p) by nra.
    assert (H2 : Rpower (rsum (map (fun v => Rpower (v + shift) p) l)) (1 / q) <= Rpower (n * Rpower (delta + shift) p) (1 / q)).
    { apply Rle_Rpower_l; [apply Rlt_le, Rdiv_lt_0_compat; lra | lra]. }
    rewrite <- Rpower_mult_distr in H2 by auto. rewrite Rpower_mult in H2.
    replace (p * (1 / q)) with (p / q) in H2 by (field; lra). lra.
  Qed.
End SmaxBounds.

(* backshift <= shift and q <= p imply the premise of smax_solid (Bernoulli: (1+s)^(p/q) >= 1+s) *)
Lemma solid_premise p q shift backshift : 0 < q <= p -> 0 < shift -> backshift <= shift ->
  backshift <= Rpower (1 + shift) (p / q) - 1.
Proof.
  intros Hq Hs Hb.
  assert (Rpower (1 + shift) 1 <= Rpower (1 + shift) (p / q)).
  { apply Rle_Rpower; [lra|]. apply (Rmult_le_reg_r q); [lra|]. unfold Rdiv. rewrite Rmult_assoc, Rinv_l by lra. lra. }
  rewrite Rpower_1 in H by lra. lra.
Qed.

(* q = p - k when xi_0 = n^(-1/k): the rational instances of the correspondence check *)
Lemma q_of_root p n k : 0 < n -> n <> 1 -> k <> 0 -> q_of p n (Rpower n (- (1 / k))) = p - k.
Proof.
  intros Hn Hn1 Hk. unfold q_of, Rpower. rewrite ln_exp.
  assert (ln n <> 0).
  { intros E. apply Hn1. rewrite <- (exp_ln n Hn), E. apply exp_0. }
  field. auto.
Qed.


(* ---------------------------------------------------------------------------------------------- *)
(* bounds on the specification, for abstract smin / smax with the relevant hypotheses              *)
Lemma filter_len_le {A} (f : A -> bool) l : (length (filter f l) <= length l)%nat.
Proof. induction l as [|a l IH]; cbn; auto. destruct (f a); cbn; lia. Qed.

Section SpecBoundsR.
  Variable smin : R -> R -> R.
  Variable smax : list R -> R.
  Variables m1 m2 : Z.
  Variable offs : list (Z * Z).
  Variable xl : nat -> Z * Z -> R.
  Let y := print_spec smin smax m1 m2 offs xl.

  Lemma spec_no_overshoot d : (forall a b, smin a b <= a + d) -> 0 <= d -> forall l p, y l p <= xl l p + d.
  Proof. intros H Hd l p. destruct l; cbn; [lra | apply H]. Qed.

  Lemma spec_lower lo : (forall a b, Rmin a b <= smin a b) -> (forall l, lo <= smax l) ->
    (forall l p, lo <= xl l p) -> forall l p, lo <= y l p.
  Proof.
    intros Hmin Hsm Hx l p. destruct l; cbn; [apply Hx|].
    eapply Rle_trans; [|apply Hmin]. apply Rmin_glb; auto.
  Qed.

  Lemma spec_solid : (forall a b, Rmin a b <= smin a b) ->
    (forall l, (exists v, In v l /\ 1 <= v) -> 1 <= smax l) ->
    forall l p, supported 1 m1 m2 offs xl l p -> 1 <= y l p.
  Proof.
    intros Hmin Hsm l p H. induction H as [p E | l p o E Ho Hin _ IH]; cbn.
    - rewrite E. lra.
    - eapply Rle_trans; [|apply Hmin]. apply Rmin_glb; [rewrite E; lra|].
      apply Hsm. exists (y l (padd p o)). split; auto.
      apply in_map_iff. exists o. split; auto. apply filter_In. auto.
  Qed.

  Lemma spec_unsupported d lo delta B n :
    (forall a b, smin a b <= b + d) ->
    (forall l, l <> [] -> (length l <= n)%nat -> (forall v, In v l -> lo <= v <= delta) -> smax l <= B) ->
    (length offs <= n)%nat -> In (0, 0)%Z offs ->
    forall l p, inside m1 m2 p = true ->
      (forall o, In o offs -> inside m1 m2 (padd p o) = true -> lo <= y l (padd p o) <= delta) ->
      y (S l) p <= B + d.
  Proof.
    intros Hmin Hsm Hlen H00 l p Hp Hsup. cbn. eapply Rle_trans; [apply Hmin|].
    apply Rplus_le_compat_r. apply Hsm.
    - assert (Hin : In (0, 0)%Z (filter (fun o => inside m1 m2 (padd p o)) offs)).
      { apply filter_In. split; auto. destruct p as (a, b). unfold padd. cbn [fst snd]. rewrite !Z.add_0_r. exact Hp. }
      intros E. apply map_eq_nil in E. rewrite E in Hin. destruct Hin.
    - rewrite map_length. eapply Nat.le_trans; [apply filter_len_le|]. exact Hlen.
    - intros v Hv. apply in_map_iff in Hv as (o & <- & Ho). apply filter_In in Ho as (Ho & Hi). apply Hsup; auto.
  Qed.
End SpecBoundsR.

(* ---------------------------------------------------------------------------------------------- *)
(* the same bounds for the sweep (every element of the flat output)                                *)
Lemma sweep_elem g dl dx e : wf g -> (0 <= dl <= 2)%Z -> (0 <= e < nel g)%Z ->
  exists l a b, (0 <= l < nlay g dl)%Z /\ (0 <= a < n1 g dl)%Z /\ (0 <= b < n2 g dl)%Z /\ coord g dl dx l a b = e.
Proof.
  intros Hwf Hdl He.
  destruct (elnum3_surj g dl (o1 g dl) (o2 g dl) e Hwf (dir_orth_valid g dl Hdl) He) as (L & a & b & (HL & Ha & Hb) & E).
  exists (phys g dl dx L), a, b. unfold coord. rewrite phys_invol. unfold phys, nlay, n1, n2.
  destruct (dx >=? 0)%Z; repeat split; try lia; auto.
Qed.

Lemma getT_nonneg (x : list R) e : Forall (fun v => 0 <= v) x -> 0 <= getT 0 x e.
Proof.
  intros H. unfold getT. destruct (Nat.lt_ge_cases (Z.to_nat e) (length x)) as [Hlt | Hge].
  - rewrite Forall_forall in H. apply H. apply nth_In; auto.
  - rewrite nth_overflow by auto. lra.
Qed.

Section SweepBoundsR.
  Variables (g : grid) (dl dx nsamp : Z) (x : list R) (eps : R).
  Hypothesis Hwf : wf g.
  Hypothesis Hdl : (0 <= dl <= 2)%Z.
  Hypothesis Hdx : dx = 1%Z \/ dx = (-1)%Z.
  Hypothesis Hlen : Z.of_nat (length x) = nel g.
  Hypothesis Heps : 0 <= eps.

  Let xl := layered 0 g dl dx x.

  Lemma sweep_layered smax l a b : (0 <= l < nlay g dl)%Z -> (0 <= a < n1 g dl)%Z -> (0 <= b < n2 g dl)%Z ->
    getT 0 (sweep (smin_R eps) smax 0 g dl dx nsamp x) (coord g dl dx l a b) =
    print_spec (smin_R eps) smax (n1 g dl) (n2 g dl) (layer_offsets nsamp) xl (Z.to_nat l) (a, b).
  Proof. intros. apply (sweep_refines_spec (smin_R eps) smax 0 g dl dx nsamp x Hwf Hdl Hdx Hlen); auto. Qed.

  Lemma xl_coord l a b : (0 <= l)%Z -> xl (Z.to_nat l) (a, b) = getT 0 x (coord g dl dx l a b).
  Proof. intros H. unfold xl, layered. cbn [fst snd]. rewrite Z2Nat.id by auto. reflexivity. Qed.

  (* no element exceeds its input by more than sqrt(eps)/2  (any smooth maximum) *)
  Theorem no_overshoot smax e : (0 <= e < nel g)%Z ->
    getT 0 (sweep (smin_R eps) smax 0 g dl dx nsamp x) e <= getT 0 x e + sqrt eps / 2.
  Proof.
    intros He. destruct (sweep_elem g dl dx e Hwf Hdl He) as (l & a & b & Hl & Ha & Hb & <-).
    rewrite sweep_layered by auto. rewrite <- xl_coord by lia.
    apply spec_no_overshoot; [intros; apply smin_le_l; auto |].
    pose proof (sqrt_pos eps). lra.
  Qed.

  Section WithSmax.
    Variables p q shift backshift : R.
    Hypothesis Hp : 0 < p.
    Hypothesis Hq : 0 < q.
    Hypothesis Hshift : 0 < shift.
    Hypothesis Hbs : 0 <= backshift < shift.
    Let smax := smax_R p q shift backshift.
    Let y := sweep (smin_R eps) smax 0 g dl dx nsamp x.

    (* printed densities stay above -backshift, so every base of a power in the sweep is positive *)
    Theorem sweep_lower e : Forall (fun v => 0 <= v) x -> (0 <= e < nel g)%Z -> - backshift <= getT 0 y e.
    Proof.
      intros Hx He. destruct (sweep_elem g dl dx e Hwf Hdl He) as (l & a & b & Hl & Ha & Hb & <-).
      unfold y. rewrite sweep_layered by auto.
      apply spec_lower.
      - intros; apply smin_ge_min; auto.
      - intros l0. apply Rlt_le. apply smax_gt_mbackshift.
      - intros l0 p0. unfold xl, layered. pose proof (getT_nonneg x (coord g dl dx (Z.of_nat l0) (fst p0) (snd p0)) Hx). lra.
    Qed.

    (* fully supported solid stays solid *)
    Theorem solid_stays_solid l a b : backshift <= Rpower (1 + shift) (p / q) - 1 ->
      (0 <= l < nlay g dl)%Z -> (0 <= a < n1 g dl)%Z -> (0 <= b < n2 g dl)%Z ->
      supported 1 (n1 g dl) (n2 g dl) (layer_offsets nsamp) xl (Z.to_nat l) (a, b) ->
      1 <= getT 0 y (coord g dl dx l a b) <= 1 + sqrt eps / 2.
    Proof.
      intros Hb1 Hl Ha Hb Hs. split.
      - unfold y. rewrite sweep_layered by auto. apply spec_solid; auto.
        + intros; apply smin_ge_min; auto.
        + intros l0 H0. apply smax_solid; auto.
      - assert (E : getT 0 x (coord g dl dx l a b) = 1).
        { rewrite <- xl_coord by lia. inversion Hs; auto. }
        rewrite <- E. apply no_overshoot.
        apply (elnum3_range g dl (o1 g dl) (o2 g dl)); auto; [apply dir_orth_valid; auto|].
        split; [|split; auto]. unfold phys. fold (nlay g dl). destruct (dx >=? 0)%Z; lia.
    Qed.

    (* in particular: a solid column standing on the base plate *)
    Lemma column_supported l a b : (2 <= nsamp)%Z -> (0 <= a < n1 g dl)%Z -> (0 <= b < n2 g dl)%Z ->
      (forall l', (l' <= l)%nat -> xl l' (a, b) = 1) ->
      supported 1 (n1 g dl) (n2 g dl) (layer_offsets nsamp) xl l (a, b).
    Proof.
      intros Hn Ha Hb. induction l as [|l IH]; intros H.
      - apply sup_base. apply H. lia.
      - apply (sup_step 1 _ _ _ _ l (a, b) (0, 0)%Z).
        + apply H. lia.
        + unfold layer_offsets. destruct (Z.to_nat nsamp) as [|[|k]] eqn:E; try lia. cbn. auto.
        + apply inside_iff. unfold padd. cbn [fst snd]. lia.
        + unfold padd. cbn [fst snd]. rewrite !Z.add_0_r. apply IH. intros l' Hl'. apply H. lia.
    Qed.

    (* unsupported material is removed: if the printed densities of all supports are at most delta *)
    Theorem unsupported_removed l a b delta : (nsamp = 3 \/ nsamp = 5 \/ nsamp = 9)%Z ->
      Forall (fun v => 0 <= v) x ->
      (0 <= l)%Z -> (l + 1 < nlay g dl)%Z -> (0 <= a < n1 g dl)%Z -> (0 <= b < n2 g dl)%Z ->
      (forall o, In o (layer_offsets nsamp) -> inside (n1 g dl) (n2 g dl) (padd (a, b) o) = true ->
         getT 0 y (coord g dl dx l (fst (padd (a, b) o)) (snd (padd (a, b) o))) <= delta) ->
      getT 0 y (coord g dl dx (l + 1) a b) <=
        Rpower (IZR nsamp) (1 / q) * Rpower (delta + shift) (p / q) - backshift + sqrt eps / 2.
    Proof.
      intros Hn Hx Hl Hl1 Ha Hb Hsup. unfold y. rewrite sweep_layered by (auto; lia).
      replace (Z.to_nat (l + 1)) with (S (Z.to_nat l)) by lia.
      apply (spec_unsupported (smin_R eps) smax (n1 g dl) (n2 g dl) (layer_offsets nsamp) xl (sqrt eps / 2)
               (- backshift) delta _ (Z.to_nat nsamp)).
      - intros; apply smin_le_r; auto.
      - intros l0 Hne Hlen0 Hv. apply smax_le_delta; auto.
        + rewrite <- (Z2Nat.id nsamp) by lia. rewrite <- INR_IZR_INZ. apply le_INR. auto.
        + intros v Hin. specialize (Hv v Hin). lra.
      - unfold layer_offsets. rewrite firstn_length. lia.
      - destruct Hn as [-> | [-> | ->]]; vm_compute; auto 10.
      - apply inside_iff. unfold padd. cbn [fst snd]. lia.
      - intros o Ho Hi. apply inside_iff in Hi as Hi'. destruct Hi' as (Hia & Hib).
        assert (E : print_spec (smin_R eps) smax (n1 g dl) (n2 g dl) (layer_offsets nsamp) xl (Z.to_nat l) (padd (a, b) o)
                    = getT 0 y (coord g dl dx l (fst (padd (a, b) o)) (snd (padd (a, b) o)))).
        { unfold y. rewrite sweep_layered by (auto; lia). rewrite <- surjective_pairing. reflexivity. }
        rewrite E. split; [|apply Hsup; auto].
        apply sweep_lower; auto.
        apply (elnum3_range g dl (o1 g dl) (o2 g dl)); auto; [apply dir_orth_valid; auto|].
        split; [|split; auto]. unfold phys. fold (nlay g dl). destruct (dx >=? 0)%Z; lia.
    Qed.

    (* ... in particular when there is no material below in the input *)
    Theorem unsupported_input_removed l a b : (nsamp = 3 \/ nsamp = 5 \/ nsamp = 9)%Z ->
      Forall (fun v => 0 <= v) x ->
      (0 <= l)%Z -> (l + 1 < nlay g dl)%Z -> (0 <= a < n1 g dl)%Z -> (0 <= b < n2 g dl)%Z ->
      (forall o, In o (layer_offsets nsamp) -> inside (n1 g dl) (n2 g dl) (padd (a, b) o) = true ->
         getT 0 x (coord g dl dx l (fst (padd (a, b) o)) (snd (padd (a, b) o))) = 0) ->
      getT 0 y (coord g dl dx (l + 1) a b) <=
        Rpower (IZR nsamp) (1 / q) * Rpower (sqrt eps / 2 + shift) (p / q) - backshift + sqrt eps / 2.
    Proof.
      intros Hn Hx Hl Hl1 Ha Hb H0. apply unsupported_removed; auto.
      intros o Ho Hi. apply inside_iff in Hi as Hi'. destruct Hi' as (Hia & Hib).
      unfold y. eapply Rle_trans; [apply no_overshoot|].
      - apply (elnum3_range g dl (o1 g dl) (o2 g dl)); auto; [apply dir_orth_valid; auto|].
        split; [|split; auto]. unfold phys. fold (nlay g dl). destruct (dx >=? 0)%Z; lia.
      - rewrite H0 by auto. lra.
    Qed.
  End WithSmax.
End SweepBoundsR.

(* the default parameters p = 40, xi_0 = 0.5, eps = 1e-4 (float64) satisfy every premise used above: lemma default_params in
   Proofs/OverhangP.v (the only user of the Interval tactic; Proofs/OverhangP.v re-exports this file, so that this file
   and Props/C14.v stay independent of the Interval / Coquelicot / Flocq libraries) *)

(* ---------------------------------------------------------------------------------------------- *)
(* statements in the form used by Props/C14.v                                                      *)
Close Scope R_scope.
Open Scope Z_scope.

Lemma response_axis {T : Type} (smin : T -> T -> T) (smax : list T -> T) (dflt : T) g axis c nsamp (x : list T) :
  0 <= axis <= 2 -> ~ (c == 0)%Q ->
  response smin smax dflt g (axis_vec 3 axis c) nsamp x = sweep smin smax dflt g axis (qsign c) nsamp x.
Proof.
  intros Hax Hc. unfold response.
  destruct (parse_vectors 3 3 axis c (or_intror eq_refl) (or_intror eq_refl) ltac:(lia) Hc) as (_ & _ & -> & ->).
  reflexivity.
Qed.

(* the refinement theorem for a print direction given as an axis-aligned vector of any non-zero length *)
Lemma response_refines_spec {T : Type} (smin : T -> T -> T) (smax : list T -> T) (dflt : T)
      g axis c nsamp (x : list T) l a b :
  wf g -> 0 <= axis <= 2 -> ~ (c == 0)%Q -> Z.of_nat (length x) = nel g ->
  0 <= l < nlay g axis -> 0 <= a < n1 g axis -> 0 <= b < n2 g axis ->
  getT dflt (response smin smax dflt g (axis_vec 3 axis c) nsamp x) (coord g axis (qsign c) l a b) =
  print_spec smin smax (n1 g axis) (n2 g axis) (layer_offsets nsamp) (layered dflt g axis (qsign c) x) (Z.to_nat l) (a, b).
Proof.
  intros Hwf Hax Hc Hlen Hl Ha Hb. rewrite response_axis by auto.
  apply (sweep_refines_spec smin smax dflt g axis (qsign c) nsamp x Hwf Hax (proj1 (qsign_cases c Hc)) Hlen); auto.
Qed.

Open Scope R_scope.
Lemma solid_stays_solid_full g dl dx nsamp (x : list R) eps p q shift backshift l a b :
  wf g -> (0 <= dl <= 2)%Z -> (dx = 1 \/ dx = -1)%Z -> Z.of_nat (length x) = nel g -> 0 <= eps ->
  0 < p -> 0 < q -> 0 <= backshift < shift -> backshift <= Rpower (1 + shift) (p / q) - 1 ->
  Forall (fun v => 0 <= v) x ->
  (0 <= l < nlay g dl)%Z -> (0 <= a < n1 g dl)%Z -> (0 <= b < n2 g dl)%Z ->
  supported 1 (n1 g dl) (n2 g dl) (layer_offsets nsamp) (layered 0 g dl dx x) (Z.to_nat l) (a, b) ->
  1 <= getT 0 (sweep (smin_R eps) (smax_R p q shift backshift) 0 g dl dx nsamp x) (coord g dl dx l a b)
    <= 1 + sqrt eps / 2.
Proof.
  intros Hwf Hdl Hdx Hlen Heps Hp Hq Hbs Hb1 _ Hl Ha Hb Hs.
  apply (solid_stays_solid g dl dx nsamp x eps Hwf Hdl Hdx Hlen Heps p q shift backshift Hp Hq); auto. lra.
Qed.

Lemma solid_column g dl dx nsamp (x : list R) eps p q shift backshift l a b :
  wf g -> (0 <= dl <= 2)%Z -> (dx = 1 \/ dx = -1)%Z -> Z.of_nat (length x) = nel g -> 0 <= eps ->
  0 < p -> 0 < q -> 0 <= backshift < shift -> backshift <= Rpower (1 + shift) (p / q) - 1 ->
  (2 <= nsamp)%Z -> Forall (fun v => 0 <= v) x ->
  (0 <= l < nlay g dl)%Z -> (0 <= a < n1 g dl)%Z -> (0 <= b < n2 g dl)%Z ->
  (forall l', (0 <= l' <= l)%Z -> getT 0 x (coord g dl dx l' a b) = 1) ->
  1 <= getT 0 (sweep (smin_R eps) (smax_R p q shift backshift) 0 g dl dx nsamp x) (coord g dl dx l a b)
    <= 1 + sqrt eps / 2.
Proof.
  intros Hwf Hdl Hdx Hlen Heps Hp Hq Hbs Hb1 Hn Hx Hl Ha Hb Hcol.
  apply solid_stays_solid_full; auto.
  apply column_supported; auto.
  intros l' Hl'. unfold layered. cbn [fst snd]. apply Hcol. lia.
Qed.
