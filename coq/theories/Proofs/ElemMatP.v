(* Element-level identities for Model/ElemMat.v over the reals.
   The kinematic identities hold at EVERY sampling point p (hence for any quadrature rule). *)
From Coq Require Import ZArith List Reals Lra Lia Bool.
From Pymoto Require Import Base.Num Base.SparseLin Base.FEMat Model.Grid Model.Shape Proofs.GridP Proofs.ShapeP Model.ElemMat.
Import ListNotations.
Open Scope R_scope.

Definition RthR : ring_theory (@nzero R _) none_ nadd nmul nsub nopp (@eq R) := num_ring_R.

Ltac elem_unfold :=
  unfold B_at, getB, mvmul, dot, ilv2, ilv3, zeros_like, nodepos;
  shape_unfold.

(* ---- rigid motions of one element: translation t plus infinitesimal rotation about ANY centre c ---- *)
Definition rigid2 (h : list R) (tx ty om cx cy : R) : list R :=
  flat_map (fun n => match nodepos h n with
                     | [x; y; _] => [tx - om * (cy + y); ty + om * (cx + x)]
                     | _ => [] end) (node_numbering 2).

(* u = t + w x (c + r) *)
Definition rigid3 (h : list R) (tx ty tz wx wy wz cx cy cz : R) : list R :=
  flat_map (fun n => match nodepos h n with
                     | [x; y; z] => [tx + wy * (cz + z) - wz * (cy + y);
                                     ty + wz * (cx + x) - wx * (cz + z);
                                     tz + wx * (cy + y) - wy * (cx + x)]
                     | _ => [] end) (node_numbering 3).

Lemma B_rigid2 hx hy hz px py pz tx ty om cx cy : hx <> 0 -> hy <> 0 ->
  mvmul (B_at 2 [hx; hy; hz] [px; py; pz]) (rigid2 [hx; hy; hz] tx ty om cx cy) = [0; 0; 0].
Proof. intros. unfold rigid2. elem_unfold. list_eq ltac:(field; auto). Qed.

Lemma B_rigid3 hx hy hz px py pz tx ty tz wx wy wz cx cy cz : hx <> 0 -> hy <> 0 -> hz <> 0 ->
  mvmul (B_at 3 [hx; hy; hz] [px; py; pz]) (rigid3 [hx; hy; hz] tx ty tz wx wy wz cx cy cz) = [0; 0; 0; 0; 0; 0].
Proof. intros. unfold rigid3. elem_unfold. list_eq ltac:(field; auto). Qed.

Lemma B_shape2 hx hy hz p : Forall (fun r => length r = 8%nat) (B_at 2 [hx; hy; hz] p) /\ length (B_at 2 [hx; hy; hz] p) = 3%nat.
Proof. unfold B_at, getB. cbn. split; [repeat constructor | reflexivity]. Qed.

Lemma B_shape3 hx hy hz p : Forall (fun r => length r = 24%nat) (B_at 3 [hx; hy; hz] p) /\ length (B_at 3 [hx; hy; hz] p) = 6%nat.
Proof. unfold B_at, getB. cbn. split; [repeat constructor | reflexivity]. Qed.

(* ---- the stiffness loop, for any dimension in which B and D have the right shapes ---- *)
Section Stiff.
  Variables (s3 : R) (d : nat) (h : list R) (E nu : R) (mode : Z).
  Let nd := eldofs d.
  Let ns := nstrain d.
  Let D := material_D d h E nu mode.
  Let Bn (n : Z * Z * Z) := B_at d h (gauss_pos s3 h n).
  Hypothesis HB : forall n, In n (node_numbering (Z.of_nat d)) -> Forall (fun r => length r = nd) (Bn n) /\ length (Bn n) = ns.
  Hypothesis HD : Forall (fun r => length r = ns) D.

  Lemma BtDB_shape w B : mshape nd nd (BtDB d w B D).
  Proof.
    unfold BtDB. apply mmul_shape. unfold mmul at 1. rewrite map_length. unfold mscale, mtrans.
    rewrite !map_length, seq_length. reflexivity.
  Qed.

  Lemma stiffness_shape : mshape nd nd (stiffness_element s3 d h E nu mode).
  Proof.
    unfold stiffness_element. apply (fold_madd_shape nd nd (fun n => BtDB d (gauss_w d h) (Bn n) D)).
    - apply mzero_shape.
    - intros n _. apply BtDB_shape.
  Qed.

  (* a vector annihilated by B at every Gauss point is annihilated by K_e *)
  Lemma stiffness_null r :
    (forall n, In n (node_numbering (Z.of_nat d)) -> allz (mvmul (Bn n) r)) ->
    allz (mvmul (stiffness_element s3 d h E nu mode) r).
  Proof.
    intros Hr. unfold stiffness_element.
    apply (fold_madd_null RthR nd nd (fun n => BtDB d (gauss_w d h) (Bn n) D)).
    - apply mzero_shape.
    - intros n _. apply BtDB_shape.
    - rewrite (mvmul_mzero RthR). apply allz_vzero.
    - intros n Hn. unfold BtDB. rewrite (mvmul_mmul RthR nd) by (apply HB; exact Hn).
      apply (mvmul_allz RthR). apply Hr; exact Hn.
  Qed.

  (* u^T K_e v = sum over Gauss points of w * (B u)^T D (B v) *)
  Lemma stiffness_bil u v :
    bil (stiffness_element s3 d h E nu mode) u v =
    nsum (map (fun n => gauss_w d h * bil D (mvmul (Bn n) u) (mvmul (Bn n) v)) (node_numbering (Z.of_nat d))).
  Proof.
    unfold stiffness_element.
    rewrite (fold_madd_bil RthR nd nd (fun n => BtDB d (gauss_w d h) (Bn n) D)).
    - rewrite (bil_mzero RthR). unfold nadd, nzero; cbn [NumR]. rewrite Rplus_0_l.
      apply nsum_map_ext. intros n Hn. unfold BtDB. apply (bil_BtDB RthR); [apply HB; exact Hn | exact HD].
    - apply mzero_shape.
    - intros n _. apply BtDB_shape.
  Qed.

  Lemma stiffness_sym :
    (forall a b, length a = ns -> length b = ns -> bil D a b = bil D b a) ->
    msym (stiffness_element s3 d h E nu mode).
  Proof.
    intros HDs. unfold stiffness_element.
    apply (fold_madd_sym RthR nd (fun n => BtDB d (gauss_w d h) (Bn n) D)).
    - apply mzero_shape.
    - intros n _. apply BtDB_shape.
    - intros i j. change (ment (mzero nd nd) i j = ment (mzero nd nd) j i). rewrite !ment_mzero. reflexivity.
    - intros n Hn i j. change (ment (BtDB d (gauss_w d h) (Bn n) D) i j = ment (BtDB d (gauss_w d h) (Bn n) D) j i).
      destruct (BtDB_shape (gauss_w d h) (Bn n)) as [L1 L2].
      destruct (Nat.lt_ge_cases i nd) as [Hi|Hi]; [destruct (Nat.lt_ge_cases j nd) as [Hj|Hj]|].
      + unfold BtDB. rewrite !(ment_BtDB RthR nd ns) by assumption.
        f_equal. apply HDs; unfold mcol; rewrite map_length; apply HB; exact Hn.
      + rewrite (ment_overflow_col nd) by assumption. rewrite ment_overflow_row by lia. reflexivity.
      + rewrite ment_overflow_row by lia. rewrite (ment_overflow_col nd) by assumption. reflexivity.
  Qed.
End Stiff.

(* ---- the constitutive matrix ---- *)
Ltac D_unfold :=
  unfold material_D, getD, lame_mu, lame_lam, mscale, vscale, bil, quad, mvmul, dot, nth3, two, nsum;
  cbn -[Rmult Rplus Rdiv Rminus IZR Rinv];
  unfold nadd, nmul, ndiv, nsub, none_, nzero, nofZ; cbn -[Rmult Rplus Rdiv Rminus IZR Rinv].

Ltac vec3 a := destruct a as [|?a1 [|?a2 [|?a3 [|? ?]]]]; try discriminate.
Ltac vec6 a := destruct a as [|?a1 [|?a2 [|?a3 [|?a4 [|?a5 [|?a6 [|? ?]]]]]]]; try discriminate.

Lemma D_shape2 h E nu mode : (mode = 0 \/ mode = 1)%Z ->
  Forall (fun r => length r = 3%nat) (material_D 2 h E nu mode).
Proof. intros [-> | ->]; unfold material_D, getD; cbn; repeat constructor. Qed.

Lemma D_shape3 h E nu mode : Forall (fun r => length r = 6%nat) (material_D 3 h E nu mode).
Proof. unfold material_D, getD; cbn; repeat constructor. Qed.

Lemma D_sym2 h E nu mode a b : (mode = 0 \/ mode = 1)%Z -> length a = 3%nat -> length b = 3%nat ->
  bil (material_D 2 h E nu mode) a b = bil (material_D 2 h E nu mode) b a.
Proof. intros [-> | ->] Ha Hb; vec3 a; vec3 b; D_unfold; ring. Qed.

Lemma D_sym3 h E nu mode a b : length a = 6%nat -> length b = 6%nat ->
  bil (material_D 3 h E nu mode) a b = bil (material_D 3 h E nu mode) b a.
Proof. intros Ha Hb; vec6 a; vec6 b; D_unfold; ring. Qed.

Lemma div_nonneg a b : 0 <= a -> 0 < b -> 0 <= a / b.
Proof. intros. unfold Rdiv. apply Rle_mult_inv_pos; assumption. Qed.

Lemma sq_nonneg x : 0 <= x * x.
Proof. apply Rle_0_sqr. Qed.

Ltac nonneg :=
  match goal with
  | |- 0 <= _ + _ => apply Rplus_le_le_0_compat; nonneg
  | |- 0 <= ?x * ?x => apply sq_nonneg
  | |- 0 <= _ * _ => apply Rmult_le_pos; nonneg
  | |- 0 <= _ / _ => apply div_nonneg; nonneg
  | |- 0 < _ * _ => apply Rmult_lt_0_compat; nonneg
  | _ => lra
  end.

(* plane strain: e^T D e = t*( mu (e1-e2)^2 + (mu+lam)(e1+e2)^2 + mu g^2 ),  mu + lam = E/(2(1+nu)(1-2nu)) *)
Lemma D_psd2_strain hx hy hz E nu e : 0 <= hz -> 0 <= E -> -1 < nu < 1/2 -> length e = 3%nat ->
  0 <= quad (material_D 2 [hx; hy; hz] E nu 0) e.
Proof.
  intros Hz HE [N1 N2] He. vec3 e. D_unfold.
  replace (_ + _) with
    (hz * (E / (2 * (1 + nu)) * ((a1 - a2) * (a1 - a2)) + E / (2 * (1 + nu) * (1 - 2 * nu)) * ((a1 + a2) * (a1 + a2))
           + E / (2 * (1 + nu)) * (a3 * a3))) by (field; lra).
  nonneg.
Qed.

(* plane stress: e^T D e = t * E/(1-nu^2) * ( (1+nu)/2 (e1+e2)^2 + (1-nu)/2 (e1-e2)^2 + (1-nu)/2 g^2 ) *)
Lemma D_psd2_stress hx hy hz E nu e : 0 <= hz -> 0 <= E -> -1 < nu < 1 -> length e = 3%nat ->
  0 <= quad (material_D 2 [hx; hy; hz] E nu 1) e.
Proof.
  intros Hz HE [N1 N2] He. vec3 e. D_unfold.
  replace (_ + _) with
    (hz * (E / (1 - nu * nu) * ((1 + nu) / 2 * ((a1 + a2) * (a1 + a2)) + (1 - nu) / 2 * ((a1 - a2) * (a1 - a2))
           + (1 - nu) / 2 * (a3 * a3)))) by (field; nra).
  assert (0 < 1 - nu * nu) by nra. nonneg.
Qed.

(* 3-D: e^T D e = (2mu/3)((e1-e2)^2+(e2-e3)^2+(e1-e3)^2) + (lam+2mu/3)(e1+e2+e3)^2 + mu |gamma|^2,
   lam + 2mu/3 = E/(3(1-2nu)) *)
Lemma D_psd3 h E nu mode e : 0 <= E -> -1 < nu < 1/2 -> length e = 6%nat ->
  0 <= quad (material_D 3 h E nu mode) e.
Proof.
  intros HE [N1 N2] He. vec6 e. D_unfold.
  replace (_ + _) with
    (E / (3 * (1 + nu)) * ((a1 - a2) * (a1 - a2) + (a2 - a3) * (a2 - a3) + (a1 - a3) * (a1 - a3))
     + E / (3 * (1 - 2 * nu)) * ((a1 + a2 + a3) * (a1 + a2 + a3))
     + E / (2 * (1 + nu)) * (a4 * a4 + a5 * a5 + a6 * a6)) by (field; lra).
  nonneg.
Qed.

Lemma nsum_nonneg {A} (f : A -> R) l : (forall a, In a l -> 0 <= f a) -> 0 <= nsum (map f l).
Proof.
  induction l as [|a l IH]; intros Hf; cbn [map]; [cbn; lra|].
  rewrite nsum_cons. unfold nadd; cbn [NumR].
  apply Rplus_le_le_0_compat; [apply Hf; left; reflexivity | apply IH; intros; apply Hf; right; assumption].
Qed.

(* ---- 2-D element stiffness matrix ---- *)
Section Stiff2.
  Variables (s3 hx hy hz E nu : R) (mode : Z).
  Hypothesis Hmode : (mode = 0 \/ mode = 1)%Z.
  Let h := [hx; hy; hz].
  Let Ke := stiffness_element s3 2 h E nu mode.

  Lemma HB2 : forall n, In n (node_numbering (Z.of_nat 2)) ->
    Forall (fun r => length r = eldofs 2) (B_at 2 h (gauss_pos s3 h n)) /\ length (B_at 2 h (gauss_pos s3 h n)) = nstrain 2.
  Proof. intros n _. apply B_shape2. Qed.

  Lemma stiffness2_shape : mshape 8 8 Ke.
  Proof. apply (stiffness_shape s3 2 h E nu mode). Qed.

  Lemma stiffness2_sym : msym Ke.
  Proof.
    apply (stiffness_sym s3 2 h E nu mode HB2 (D_shape2 h E nu mode Hmode)).
    intros a b Ha Hb. apply D_sym2; assumption.
  Qed.

  Lemma stiffness2_rigid_null tx ty om cx cy : hx <> 0 -> hy <> 0 ->
    allz (mvmul Ke (rigid2 h tx ty om cx cy)).
  Proof.
    intros Hx Hy. apply (stiffness_null s3 2 h E nu mode HB2). intros n _.
    unfold gauss_pos; cbn [map seq]. unfold h. rewrite B_rigid2 by assumption. repeat constructor.
  Qed.

  Lemma stiffness2_bil u v :
    bil Ke u v = nsum (map (fun n => gauss_w 2 h * bil (material_D 2 h E nu mode)
                                       (mvmul (B_at 2 h (gauss_pos s3 h n)) u) (mvmul (B_at 2 h (gauss_pos s3 h n)) v))
                           (node_numbering 2)).
  Proof. apply (stiffness_bil s3 2 h E nu mode HB2 (D_shape2 h E nu mode Hmode)). Qed.

  Lemma stiffness2_psd v : 0 <= hx -> 0 <= hy -> 0 <= hz -> 0 <= E ->
    (mode = 0%Z -> -1 < nu < 1/2) -> (mode = 1%Z -> -1 < nu < 1) ->
    0 <= quad Ke v.
  Proof.
    intros Hx Hy Hz HE N0 N1. unfold quad. rewrite stiffness2_bil. apply nsum_nonneg. intros n _.
    apply Rmult_le_pos.
    - unfold gauss_w, h, nprod, two; cbn. unfold Rdiv. nra.
    - assert (L : length (mvmul (B_at 2 h (gauss_pos s3 h n)) v) = 3%nat) by (rewrite mvmul_length; apply B_shape2).
      unfold h in *. destruct Hmode as [-> | ->].
      + apply D_psd2_strain; auto.
      + apply D_psd2_stress; auto.
  Qed.
End Stiff2.

(* ---- 3-D element stiffness matrix ---- *)
Section Stiff3.
  Variables (s3 hx hy hz E nu : R) (mode : Z).
  Let h := [hx; hy; hz].
  Let Ke := stiffness_element s3 3 h E nu mode.

  Lemma HB3 : forall n, In n (node_numbering (Z.of_nat 3)) ->
    Forall (fun r => length r = eldofs 3) (B_at 3 h (gauss_pos s3 h n)) /\ length (B_at 3 h (gauss_pos s3 h n)) = nstrain 3.
  Proof. intros n _. apply B_shape3. Qed.

  Lemma stiffness3_shape : mshape 24 24 Ke.
  Proof. apply (stiffness_shape s3 3 h E nu mode). Qed.

  Lemma stiffness3_sym : msym Ke.
  Proof.
    apply (stiffness_sym s3 3 h E nu mode HB3 (D_shape3 h E nu mode)).
    intros a b Ha Hb. apply D_sym3; assumption.
  Qed.

  Lemma stiffness3_rigid_null tx ty tz wx wy wz cx cy cz : hx <> 0 -> hy <> 0 -> hz <> 0 ->
    allz (mvmul Ke (rigid3 h tx ty tz wx wy wz cx cy cz)).
  Proof.
    intros Hx Hy Hz. apply (stiffness_null s3 3 h E nu mode HB3). intros n _.
    unfold gauss_pos; cbn [map seq]. unfold h. rewrite B_rigid3 by assumption. repeat constructor.
  Qed.

  Lemma stiffness3_bil u v :
    bil Ke u v = nsum (map (fun n => gauss_w 3 h * bil (material_D 3 h E nu mode)
                                       (mvmul (B_at 3 h (gauss_pos s3 h n)) u) (mvmul (B_at 3 h (gauss_pos s3 h n)) v))
                           (node_numbering 3)).
  Proof. apply (stiffness_bil s3 3 h E nu mode HB3 (D_shape3 h E nu mode)). Qed.

  Lemma stiffness3_psd v : 0 <= hx -> 0 <= hy -> 0 <= hz -> 0 <= E -> -1 < nu < 1/2 ->
    0 <= quad Ke v.
  Proof.
    intros Hx Hy Hz HE N0. unfold quad. rewrite stiffness3_bil. apply nsum_nonneg. intros n _.
    apply Rmult_le_pos.
    - unfold gauss_w, h, nprod, two; cbn. unfold Rdiv.
      assert (0 <= hx * / (1 + 1)) by nra. assert (0 <= hy * / (1 + 1)) by nra. assert (0 <= hz * / (1 + 1)) by nra.
      apply Rmult_le_pos; [assumption|]. apply Rmult_le_pos; [assumption|]. nra.
    - apply D_psd3; auto.
  Qed.
End Stiff3.

(* ================================================================== mass matrix *)
Lemma length_flat_map_const {A B} (f : A -> list B) n l : (forall a, length (f a) = n) ->
  length (flat_map f l) = (length l * n)%nat.
Proof. intros Hf. induction l as [|a l IH]; cbn [flat_map length]; [reflexivity|]. rewrite app_length, Hf, IH. lia. Qed.

Lemma Nmat_shape ndof (N : list R) :
  Forall (fun r => length r = (length N * ndof)%nat) (Nmat ndof N) /\ length (Nmat ndof N) = ndof.
Proof.
  unfold Nmat. split; [|rewrite map_length, seq_length; reflexivity].
  apply Forall_forall. intros r Hr. apply in_map_iff in Hr as (i & <- & _).
  apply length_flat_map_const. intros Nd. rewrite map_length, seq_length. reflexivity.
Qed.

Lemma dot_app (a1 a2 b1 b2 : list R) : length a1 = length b1 ->
  dot (a1 ++ a2) (b1 ++ b2) = dot a1 b1 + dot a2 b2.
Proof.
  intros Hl. unfold dot. rewrite combine_app_eq by exact Hl. rewrite map_app, (nsum_app RthR). reflexivity.
Qed.

Lemma dot_map_map {A} (f g : A -> R) l : dot (map f l) (map g l) = nsum (map (fun a => f a * g a) l).
Proof. induction l as [|a l IH]; [reflexivity|]. cbn [map]. rewrite dot_cons, nsum_cons, IH. reflexivity. Qed.

Ltac rnum := try unfold nadd in *; try unfold nmul in *; try unfold nsub in *; try unfold ndiv in *;
             try unfold nzero in *; try unfold none_ in *; cbn [NumR] in *.

Lemma delta_sum (a : nat -> R) n k : (k < n)%nat ->
  nsum (map (fun j => a j * (if Nat.eqb j k then 1 else 0)) (seq 0 n)) = a k.
Proof.
  induction n as [|n IH]; intros Hk; [lia|].
  rewrite seq_S, map_app, (nsum_app RthR). cbn [map Nat.add]. cbn [nsum fold_right]. fold (@nsum R _).
  destruct (Nat.eqb_spec n k) as [->|Hne].
  - assert (Z0 : nsum (map (fun j => a j * (if Nat.eqb j k then 1 else 0)) (seq 0 k)) = 0).
    { transitivity (nsum (map (fun _ : nat => (nzero : R)) (seq 0 k))); [|apply (nsum_map_zero RthR)].
      apply nsum_map_ext. intros j Hj. apply in_seq in Hj. destruct (Nat.eqb_spec j k); [lia|]. rnum. lra. }
    rewrite Z0. rnum. lra.
  - rewrite IH by lia. rnum. lra.
Qed.

(* the nodal vector "1 in direction k at every node" of an element with en nodes *)
Definition unitv (ndof k : nat) : list R := map (fun j => if Nat.eqb j k then 1 else 0) (seq 0 ndof).
Definition dirvec (ndof en k : nat) : list R := concat (repeat (unitv ndof k) en).

Lemma flat_map_const_concat {A B} (c : list B) (l : list A) : flat_map (fun _ => c) l = concat (repeat c (length l)).
Proof. induction l as [|a l IH]; [reflexivity|]. cbn [flat_map length repeat concat]. rewrite IH. reflexivity. Qed.

(* Nmat . 1_k = (sum_a N_a) e_k *)
Lemma Nmat_dir ndof (N : list R) k : (k < ndof)%nat ->
  mvmul (Nmat ndof N) (dirvec ndof (length N) k) = map (fun i => if Nat.eqb i k then nsum N else 0) (seq 0 ndof).
Proof.
  intros Hk. unfold mvmul, Nmat. rewrite map_map. apply map_ext. intros i.
  unfold dirvec. rewrite <- flat_map_const_concat.
  induction N as [|Nd N IH]; [cbn; destruct (Nat.eqb i k); reflexivity|].
  cbn [flat_map]. rewrite dot_app by (unfold unitv; rewrite !map_length; reflexivity).
  rewrite IH. unfold unitv. rewrite dot_map_map.
  rewrite (delta_sum (fun j => (if Nat.eqb i j then none_ else nzero) * Nd)%num ndof k Hk).
  rewrite nsum_cons. unfold nadd, nmul, none_, nzero; cbn [NumR].
  destruct (Nat.eqb i k); lra.
Qed.

Lemma dot_self_nonneg (y : list R) : 0 <= dot y y.
Proof.
  induction y as [|a y IH]; [cbn; lra|]. rewrite dot_cons. unfold nadd, nmul; cbn [NumR].
  pose proof (sq_nonneg a). lra.
Qed.

Section Mass.
  Variables (s3 : R) (d : nat) (h : list R) (mp : R) (ndof : nat).
  Let en := (2 ^ d)%nat.
  Let nn := (en * ndof)%nat.
  Let c := (gauss_w d h * thick_prop d h mp)%num.
  Let Nm (n : Z * Z * Z) := Nmat ndof (shape_fun d h (gauss_pos s3 h n)).
  Hypothesis Hd : length (node_numbering (Z.of_nat d)) = en.

  Lemma Nm_shape n : Forall (fun r => length r = nn) (Nm n) /\ length (Nm n) = ndof.
  Proof.
    unfold Nm. pose proof (Nmat_shape ndof (shape_fun d h (gauss_pos s3 h n))) as [A B].
    assert (Hl : length (shape_fun d h (gauss_pos s3 h n)) = en) by (unfold shape_fun; rewrite map_length; exact Hd).
    rewrite Hl in A. split; assumption.
  Qed.

  Lemma mass_term_shape n : mshape nn nn (mmul nn (mscale c (mtrans nn (Nm n))) (Nm n)).
  Proof. apply mmul_shape. unfold mscale, mtrans. rewrite !map_length, seq_length. reflexivity. Qed.

  Lemma mass_shape : mshape nn nn (mass_element s3 d h mp ndof).
  Proof.
    unfold mass_element. apply (fold_madd_shape nn nn (fun n => mmul nn (mscale c (mtrans nn (Nm n))) (Nm n))).
    - apply mzero_shape.
    - intros n _. apply mass_term_shape.
  Qed.

  Lemma mass_bil u v :
    bil (mass_element s3 d h mp ndof) u v =
    nsum (map (fun n => c * dot (mvmul (Nm n) u) (mvmul (Nm n) v)) (node_numbering (Z.of_nat d))).
  Proof.
    unfold mass_element.
    rewrite (fold_madd_bil RthR nn nn (fun n => mmul nn (mscale c (mtrans nn (Nm n))) (Nm n))).
    - rewrite (bil_mzero RthR). unfold nadd, nzero; cbn [NumR]. rewrite Rplus_0_l.
      apply nsum_map_ext. intros n _. apply (bil_BtB RthR). apply Nm_shape.
    - apply mzero_shape.
    - intros n _. apply mass_term_shape.
  Qed.

  Lemma mass_sym : msym (mass_element s3 d h mp ndof).
  Proof.
    unfold mass_element.
    apply (fold_madd_sym RthR nn (fun n => mmul nn (mscale c (mtrans nn (Nm n))) (Nm n))).
    - apply mzero_shape.
    - intros n _. apply mass_term_shape.
    - intros i j. change (ment (mzero nn nn) i j = ment (mzero nn nn) j i). rewrite !ment_mzero. reflexivity.
    - intros n _ i j.
      change (ment (mmul nn (mscale c (mtrans nn (Nm n))) (Nm n)) i j = ment (mmul nn (mscale c (mtrans nn (Nm n))) (Nm n)) j i).
      destruct (mass_term_shape n) as [L1 L2].
      destruct (Nat.lt_ge_cases i nn) as [Hi|Hi]; [destruct (Nat.lt_ge_cases j nn) as [Hj|Hj]|].
      + rewrite !(ment_BtB RthR nn) by assumption. rewrite (dot_comm RthR). reflexivity.
      + rewrite (ment_overflow_col nn) by assumption. rewrite ment_overflow_row by lia. reflexivity.
      + rewrite ment_overflow_row by lia. rewrite (ment_overflow_col nn) by assumption. reflexivity.
  Qed.

  Lemma mass_psd v : 0 <= c -> 0 <= quad (mass_element s3 d h mp ndof) v.
  Proof.
    intros Hc. unfold quad. rewrite mass_bil. apply nsum_nonneg. intros n _.
    apply Rmult_le_pos; [exact Hc | apply dot_self_nonneg].
  Qed.

  (* 1_k^T M_e 1_k = (number of Gauss points) * w * mp'  when the shape functions sum to one at every Gauss point *)
  Lemma mass_total k : (k < ndof)%nat ->
    (forall n, In n (node_numbering (Z.of_nat d)) -> nsum (shape_fun d h (gauss_pos s3 h n)) = 1) ->
    quad (mass_element s3 d h mp ndof) (dirvec ndof en k) = INR en * c.
  Proof.
    intros Hk Hpou. unfold quad. rewrite mass_bil.
    rewrite (nsum_map_ext _ (fun _ => c)).
    - rewrite <- Hd. generalize (node_numbering (Z.of_nat d)). intros l.
      induction l as [|a l IH]; [cbn; lra|]. cbn [map length]. rewrite nsum_cons, IH, S_INR. unfold nadd; cbn [NumR]. lra.
    - intros n Hn. unfold Nm.
      assert (Hl : length (shape_fun d h (gauss_pos s3 h n)) = en) by (unfold shape_fun; rewrite map_length; exact Hd).
      rewrite <- Hl, Nmat_dir by exact Hk. rewrite (Hpou n Hn).
      rewrite dot_map_map. unfold nmul; cbn [NumR].
      rewrite (delta_sum (fun j => if Nat.eqb j k then 1 else 0) ndof k Hk). rewrite Nat.eqb_refl. lra.
  Qed.
End Mass.

Lemma mass2_total s3 hx hy hz mp ndof k : (k < ndof)%nat -> hx <> 0 -> hy <> 0 ->
  quad (mass_element s3 2 [hx; hy; hz] mp ndof) (dirvec ndof 4 k) = mp * (hx * hy * hz).
Proof.
  intros Hk Hx Hy. change 4%nat with (2 ^ 2)%nat. rewrite (mass_total s3 2 [hx; hy; hz] mp ndof eq_refl k Hk).
  - unfold gauss_w, thick_prop, nprod, two. cbn. rnum. field.
  - intros n _. unfold gauss_pos; cbn [map seq]. apply pou2; assumption.
Qed.

Lemma mass3_total s3 hx hy hz mp ndof k : (k < ndof)%nat -> hx <> 0 -> hy <> 0 -> hz <> 0 ->
  quad (mass_element s3 3 [hx; hy; hz] mp ndof) (dirvec ndof 8 k) = mp * (hx * hy * hz).
Proof.
  intros Hk Hx Hy Hz. change 8%nat with (2 ^ 3)%nat. rewrite (mass_total s3 3 [hx; hy; hz] mp ndof eq_refl k Hk).
  - unfold gauss_w, thick_prop, nprod, two. cbn. rnum. field.
  - intros n _. unfold gauss_pos; cbn [map seq]. apply pou3; assumption.
Qed.

Lemma gauss_coef2_nonneg hx hy hz mp : 0 <= hx -> 0 <= hy -> 0 <= hz -> 0 <= mp ->
  0 <= (gauss_w 2 [hx; hy; hz] * thick_prop 2 [hx; hy; hz] mp)%num.
Proof.
  intros. unfold gauss_w, thick_prop, nprod, two. cbn. rnum. unfold Rdiv.
  assert (0 <= hx * / (1 + 1)) by nra. assert (0 <= hy * / (1 + 1)) by nra.
  apply Rmult_le_pos; [apply Rmult_le_pos; [assumption|nra] | nra].
Qed.

Lemma gauss_coef3_nonneg hx hy hz mp : 0 <= hx -> 0 <= hy -> 0 <= hz -> 0 <= mp ->
  0 <= (gauss_w 3 [hx; hy; hz] * thick_prop 3 [hx; hy; hz] mp)%num.
Proof.
  intros. unfold gauss_w, thick_prop, nprod, two. cbn. rnum. unfold Rdiv.
  assert (0 <= hx * / (1 + 1)) by nra. assert (0 <= hy * / (1 + 1)) by nra. assert (0 <= hz * / (1 + 1)) by nra.
  apply Rmult_le_pos; [|assumption]. apply Rmult_le_pos; [assumption|]. apply Rmult_le_pos; [assumption|nra].
Qed.

(* ================================================================== Poisson matrix *)
Section Poisson.
  Variables (s3 : R) (d : nat) (h : list R) (mp : R).
  Let en := (2 ^ d)%nat.
  Let c := (gauss_w d h * thick_prop d h mp)%num.
  Let Bn (n : Z * Z * Z) := shape_der d h (gauss_pos s3 h n).
  Hypothesis Hd : length (node_numbering (Z.of_nat d)) = en.

  Lemma Bn_shape n : Forall (fun r => length r = en) (Bn n).
  Proof.
    unfold Bn, shape_der. apply Forall_forall. intros r Hr. apply in_map_iff in Hr as (i & <- & _).
    rewrite map_length. exact Hd.
  Qed.

  Lemma poisson_term_shape n : mshape en en (mmul en (mscale c (mtrans en (Bn n))) (Bn n)).
  Proof. apply mmul_shape. unfold mscale, mtrans. rewrite !map_length, seq_length. reflexivity. Qed.

  Lemma poisson_shape : mshape en en (poisson_element s3 d h mp).
  Proof.
    unfold poisson_element. apply (fold_madd_shape en en (fun n => mmul en (mscale c (mtrans en (Bn n))) (Bn n))).
    - apply mzero_shape.
    - intros n _. apply poisson_term_shape.
  Qed.

  Lemma poisson_bil u v :
    bil (poisson_element s3 d h mp) u v =
    nsum (map (fun n => c * dot (mvmul (Bn n) u) (mvmul (Bn n) v)) (node_numbering (Z.of_nat d))).
  Proof.
    unfold poisson_element.
    rewrite (fold_madd_bil RthR en en (fun n => mmul en (mscale c (mtrans en (Bn n))) (Bn n))).
    - rewrite (bil_mzero RthR). unfold nadd, nzero; cbn [NumR]. rewrite Rplus_0_l.
      apply nsum_map_ext. intros n _. apply (bil_BtB RthR). apply Bn_shape.
    - apply mzero_shape.
    - intros n _. apply poisson_term_shape.
  Qed.

  Lemma poisson_sym : msym (poisson_element s3 d h mp).
  Proof.
    unfold poisson_element.
    apply (fold_madd_sym RthR en (fun n => mmul en (mscale c (mtrans en (Bn n))) (Bn n))).
    - apply mzero_shape.
    - intros n _. apply poisson_term_shape.
    - intros i j. change (ment (mzero en en) i j = ment (mzero en en) j i). rewrite !ment_mzero. reflexivity.
    - intros n _ i j.
      change (ment (mmul en (mscale c (mtrans en (Bn n))) (Bn n)) i j = ment (mmul en (mscale c (mtrans en (Bn n))) (Bn n)) j i).
      destruct (poisson_term_shape n) as [L1 L2].
      destruct (Nat.lt_ge_cases i en) as [Hi|Hi]; [destruct (Nat.lt_ge_cases j en) as [Hj|Hj]|].
      + rewrite !(ment_BtB RthR en) by assumption. rewrite (dot_comm RthR). reflexivity.
      + rewrite (ment_overflow_col en) by assumption. rewrite ment_overflow_row by lia. reflexivity.
      + rewrite ment_overflow_row by lia. rewrite (ment_overflow_col en) by assumption. reflexivity.
  Qed.

  Lemma poisson_psd v : 0 <= c -> 0 <= quad (poisson_element s3 d h mp) v.
  Proof.
    intros Hc. unfold quad. rewrite poisson_bil. apply nsum_nonneg. intros n _.
    apply Rmult_le_pos; [exact Hc | apply dot_self_nonneg].
  Qed.

  Lemma poisson_null r :
    (forall n, In n (node_numbering (Z.of_nat d)) -> allz (mvmul (Bn n) r)) ->
    allz (mvmul (poisson_element s3 d h mp) r).
  Proof.
    intros Hr. unfold poisson_element.
    apply (fold_madd_null RthR en en (fun n => mmul en (mscale c (mtrans en (Bn n))) (Bn n))).
    - apply mzero_shape.
    - intros n _. apply poisson_term_shape.
    - rewrite (mvmul_mzero RthR). apply allz_vzero.
    - intros n Hn. rewrite (mvmul_mmul RthR en) by apply Bn_shape.
      apply (mvmul_allz RthR). apply Hr; exact Hn.
  Qed.

  (* energy of a field whose gradient is reproduced as gvec at every Gauss point *)
  Lemma poisson_energy u gvec :
    (forall n, In n (node_numbering (Z.of_nat d)) -> mvmul (Bn n) u = gvec) ->
    quad (poisson_element s3 d h mp) u = INR en * c * dot gvec gvec.
  Proof.
    intros Hg. unfold quad. rewrite poisson_bil.
    rewrite (nsum_map_ext _ (fun _ => c * dot gvec gvec)) by (intros n Hn; rewrite (Hg n Hn); reflexivity).
    rewrite <- Hd. generalize (node_numbering (Z.of_nat d)). intros l.
    induction l as [|a l IH]; [cbn; lra|]. cbn [map length]. rewrite nsum_cons, IH, S_INR. rnum. lra.
  Qed.
End Poisson.

(* the linear nodal field  c0 + g . x  on one element (local coordinates, any offset c0) *)
Definition linfield2 (h : list R) (c0 gx gy : R) : list R :=
  map (fun n => match nodepos h n with [x; y; _] => c0 + gx * x + gy * y | _ => 0 end) (node_numbering 2).
Definition linfield3 (h : list R) (c0 gx gy gz : R) : list R :=
  map (fun n => match nodepos h n with [x; y; z] => c0 + gx * x + gy * y + gz * z | _ => 0 end) (node_numbering 3).

Lemma grad_lin2 hx hy hz px py pz c0 gx gy : hx <> 0 -> hy <> 0 ->
  mvmul (shape_der 2 [hx; hy; hz] [px; py; pz]) (linfield2 [hx; hy; hz] c0 gx gy) = [gx; gy].
Proof. intros. unfold linfield2. elem_unfold. list_eq ltac:(field; auto). Qed.

Lemma grad_lin3 hx hy hz px py pz c0 gx gy gz : hx <> 0 -> hy <> 0 -> hz <> 0 ->
  mvmul (shape_der 3 [hx; hy; hz] [px; py; pz]) (linfield3 [hx; hy; hz] c0 gx gy gz) = [gx; gy; gz].
Proof. intros. unfold linfield3. elem_unfold. list_eq ltac:(field; auto). Qed.

Lemma poisson2_constants s3 hx hy hz mp c0 : hx <> 0 -> hy <> 0 ->
  allz (mvmul (poisson_element s3 2 [hx; hy; hz] mp) (linfield2 [hx; hy; hz] c0 0 0)).
Proof.
  intros Hx Hy. apply (poisson_null s3 2 [hx; hy; hz] mp eq_refl). intros n _.
  unfold gauss_pos; cbn [map seq]. rewrite grad_lin2 by assumption. repeat constructor.
Qed.

Lemma poisson3_constants s3 hx hy hz mp c0 : hx <> 0 -> hy <> 0 -> hz <> 0 ->
  allz (mvmul (poisson_element s3 3 [hx; hy; hz] mp) (linfield3 [hx; hy; hz] c0 0 0 0)).
Proof.
  intros Hx Hy Hz. apply (poisson_null s3 3 [hx; hy; hz] mp eq_refl). intros n _.
  unfold gauss_pos; cbn [map seq]. rewrite grad_lin3 by assumption. repeat constructor.
Qed.

Lemma poisson2_linear_energy s3 hx hy hz mp c0 gx gy : hx <> 0 -> hy <> 0 ->
  quad (poisson_element s3 2 [hx; hy; hz] mp) (linfield2 [hx; hy; hz] c0 gx gy) = mp * (hx * hy * hz) * (gx * gx + gy * gy).
Proof.
  intros Hx Hy. rewrite (poisson_energy s3 2 [hx; hy; hz] mp eq_refl _ [gx; gy]).
  - unfold gauss_w, thick_prop, nprod, two, dot, nsum. cbn. rnum. field.
  - intros n _. unfold gauss_pos; cbn [map seq]. apply grad_lin2; assumption.
Qed.

Lemma poisson3_linear_energy s3 hx hy hz mp c0 gx gy gz : hx <> 0 -> hy <> 0 -> hz <> 0 ->
  quad (poisson_element s3 3 [hx; hy; hz] mp) (linfield3 [hx; hy; hz] c0 gx gy gz)
  = mp * (hx * hy * hz) * (gx * gx + gy * gy + gz * gz).
Proof.
  intros Hx Hy Hz. rewrite (poisson_energy s3 3 [hx; hy; hz] mp eq_refl _ [gx; gy; gz]).
  - unfold gauss_w, thick_prop, nprod, two, dot, nsum. cbn. rnum. field.
  - intros n _. unfold gauss_pos; cbn [map seq]. apply grad_lin3; assumption.
Qed.

(* ---- mass / Poisson element matrices, 2-D and 3-D: symmetric and PSD ---- *)
Lemma mass_elem_sym (s3 : R) d h mp ndof : (d = 2 \/ d = 3)%nat -> msym (mass_element s3 d h mp ndof).
Proof. intros [-> | ->]; apply mass_sym; reflexivity. Qed.

Lemma poisson_elem_sym (s3 : R) d h mp : (d = 2 \/ d = 3)%nat -> msym (poisson_element s3 d h mp).
Proof. intros [-> | ->]; apply poisson_sym; reflexivity. Qed.

Lemma mass_elem_psd (s3 : R) d hx hy hz mp ndof v : (d = 2 \/ d = 3)%nat ->
  0 <= hx -> 0 <= hy -> 0 <= hz -> 0 <= mp -> 0 <= quad (mass_element s3 d [hx; hy; hz] mp ndof) v.
Proof.
  intros [-> | ->] Hx Hy Hz Hm; apply mass_psd; try reflexivity;
    [apply gauss_coef2_nonneg | apply gauss_coef3_nonneg]; assumption.
Qed.

Lemma poisson_elem_psd (s3 : R) d hx hy hz mp v : (d = 2 \/ d = 3)%nat ->
  0 <= hx -> 0 <= hy -> 0 <= hz -> 0 <= mp -> 0 <= quad (poisson_element s3 d [hx; hy; hz] mp) v.
Proof.
  intros [-> | ->] Hx Hy Hz Hm; apply poisson_psd; try reflexivity;
    [apply gauss_coef2_nonneg | apply gauss_coef3_nonneg]; assumption.
Qed.
