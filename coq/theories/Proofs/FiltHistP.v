(* Proofs about Model/FiltHist.v: what a response returns after any history of option-changing calls / in any
   population of filter modules. *)
From Coq Require Import ZArith List Bool Lia.
From Pymoto Require Import Base.Num Base.SparseLin Model.Grid Model.Pad Model.Conv Model.DensFilt Model.FiltHist.
Import ListNotations.
Open Scope Z_scope.

Section FcHistP.
  Context {K : Type} `{Num K}.

  Definition fc_final (f : @fconv K) (ops : list (fop K)) : @fconv K :=
    fold_left (fun s op => fst (fstep s op)) ops f.

  Lemma frun_app f (ops1 ops2 : list (fop K)) :
    frun f (ops1 ++ ops2) = frun f ops1 ++ frun (fc_final f ops1) ops2.
  Proof.
    revert f. induction ops1 as [|op t IH]; intros f; [reflexivity|].
    cbn [app frun fc_final fold_left]. destruct (snd (fstep f op)); cbn [app]; rewrite IH; reflexivity.
  Qed.

  Lemma fc_at_nil (f : @fconv K) : fc_at f [] = f.
  Proof. destruct f as [c w u]. unfold fc_at. cbn. rewrite app_nil_r. reflexivity. Qed.

  Lemma fc_at_step (f : @fconv K) op ops : fc_at (fst (fstep f op)) ops = fc_at f (op :: ops).
  Proof.
    destruct f as [c w u]. unfold fc_at.
    destruct op as [pts v|pts v|w'|x|x]; cbn [fstep fst with_uov fc_pad fc_w fc_uov hist_kernel hist_overrides flat_map fold_left].
    - rewrite <- app_assoc. reflexivity.
    - destruct pts as [|p pts]; cbn [fc_pad fc_w fc_uov with_uov app]; [reflexivity|]. rewrite <- app_assoc. reflexivity.
    - reflexivity.
    - reflexivity.
    - reflexivity.
  Qed.

  (* the state of the module after a history: construction-time padding, the LAST kernel, ALL overrides in call order *)
  Theorem fc_final_at f (ops : list (fop K)) : fc_final f ops = fc_at f ops.
  Proof.
    revert f. induction ops as [|op t IH]; intros f; [symmetry; apply fc_at_nil|].
    cbn [fc_final fold_left]. fold (fc_final (fst (fstep f op)) t). rewrite IH. apply fc_at_step.
  Qed.

  Theorem fc_history_response f (ops : list (fop K)) x :
    frun f (ops ++ [FResp x]) = frun f ops ++ [ObsY (fc_response (fc_at f ops) x)].
  Proof. rewrite frun_app, fc_final_at. reflexivity. Qed.

  Theorem fc_history_padded f (ops : list (fop K)) x :
    frun f (ops ++ [FPadded x]) =
    frun f ops ++ [ObsPad (xpad_arr (fc_pad f) (fc_uov f ++ hist_overrides (fc_pad f) ops) x)].
  Proof. rewrite frun_app, fc_final_at. reflexivity. Qed.
End FcHistP.

Lemma combine_map_same {A B C} (f : A -> B) (g : A -> C) (l : list A) :
  combine (map f l) (map g l) = map (fun a => (f a, g a)) l.
Proof. induction l as [|a l IH]; cbn; [reflexivity | rewrite IH; reflexivity]. Qed.

Lemma combine_id_map {A B} (g : A -> B) (l : list A) : combine l (map g l) = map (fun a => (a, g a)) l.
Proof. induction l as [|a l IH]; cbn; [reflexivity | rewrite IH; reflexivity]. Qed.

Section DensHistP.
  Context {K : Type} `{Num K}.
  Variable kmax : K -> K -> K.

  (* the two-phase module (_prepare stores H and Hs, _response reads them) is the defining function of Model/DensFilt.v *)
  Lemma dens_respond_prepare (o : dopts K) x : dens_respond (dens_prepare kmax o) x = dens_spec kmax o x.
  Proof.
    destruct o as [g de wt np]. unfold dens_respond, dens_prepare, dens_spec, dens_response.
    cbn [do_g do_delem do_wtab do_nonpad dp_rows dp_Hs].
    rewrite (map_map (h_row g de wt) (fun r => nsum (map snd r))).
    change (map (fun x0 => nsum (map snd (h_row g de wt x0))) (zrange (nel g))) with (map (rowsum g de wt) (zrange (nel g))).
    destruct np as [l|].
    - rewrite combine_id_map, map_map. cbn [fst snd].
      rewrite combine_map_same, map_map. cbn [fst snd].
      apply map_ext. intros el. unfold dens_Hx, dens_Hs_of, max_rowsum. reflexivity.
    - rewrite combine_map_same, map_map. cbn [fst snd].
      apply map_ext. intros el. reflexivity.
  Qed.

  Definition dfinal (st : list (dprep K)) (ops : list (dop K)) : list (dprep K) :=
    fold_left (fun s op => fst (dstep kmax s op)) ops st.

  Lemma drun_app st (ops1 ops2 : list (dop K)) :
    drun kmax st (ops1 ++ ops2) = drun kmax st ops1 ++ drun kmax (dfinal st ops1) ops2.
  Proof.
    revert st. induction ops1 as [|op t IH]; intros st; [reflexivity|].
    cbn [app drun dfinal fold_left]. destruct (snd (dstep kmax st op)); cbn [app]; rewrite IH; reflexivity.
  Qed.

  Lemma dfinal_opts st (ops : list (dop K)) :
    dfinal st ops = st ++ map (dens_prepare kmax) (dhist_opts ops).
  Proof.
    revert st. induction ops as [|op t IH]; intros st; cbn [dfinal fold_left dhist_opts flat_map map].
    - rewrite app_nil_r. reflexivity.
    - fold (dfinal (fst (dstep kmax st op)) t). rewrite IH. destruct op as [o|i x]; cbn [dstep fst app map].
      + rewrite <- app_assoc. reflexivity.
      + reflexivity.
  Qed.

  (* every response of every history: the normalised cone average of the filter's OWN options *)
  Theorem dens_history_response (ops : list (dop K)) i x :
    drun kmax [] (ops ++ [DResp i x]) =
    drun kmax [] ops ++ [option_map (fun o => dens_spec kmax o x) (nth_error (dhist_opts ops) i)].
  Proof.
    rewrite drun_app, dfinal_opts. cbn [app drun dstep snd fst]. f_equal. f_equal.
    rewrite nth_error_map. destruct (nth_error (dhist_opts ops) i) as [o|]; [|reflexivity].
    cbn [option_map]. rewrite dens_respond_prepare. reflexivity.
  Qed.

  Lemma dhist_opts_app (ops1 ops2 : list (dop K)) : dhist_opts (ops1 ++ ops2) = dhist_opts ops1 ++ dhist_opts ops2.
  Proof. unfold dhist_opts. apply flat_map_app. Qed.

  (* later constructions (e.g. of a filter with nonpadding) do not change an existing filter *)
  Theorem dens_history_stable (ops1 ops2 : list (dop K)) i o :
    nth_error (dhist_opts ops1) i = Some o -> nth_error (dhist_opts (ops1 ++ ops2)) i = Some o.
  Proof.
    intros Hi. rewrite dhist_opts_app, nth_error_app1; [exact Hi|]. apply nth_error_Some. rewrite Hi. discriminate.
  Qed.
End DensHistP.
