(* Proofs about Model/LdaGlue.v (the LDAWrapper that LinSolve builds around its solver). *)
From Coq Require Import QArith ZArith List Bool Lia Lqa.
From Pymoto Require Import Model.LdaGlue.
Import ListNotations.
Open Scope Q_scope.

Lemma wrap_needed_spec is_lda use_lda : wrap_needed is_lda use_lda = true <-> is_lda = false /\ use_lda = true.
Proof. destruct is_lda, use_lda; cbn; intuition discriminate. Qed.

Lemma needs_inner_false tol res : needs_inner tol res = false <-> res <= tol.
Proof.
  unfold needs_inner. rewrite negb_false_iff. apply Qle_bool_iff.
Qed.

Lemma needs_inner_true tol res : needs_inner tol res = true <-> tol < res.
Proof.
  unfold needs_inner. rewrite negb_true_iff. split.
  - intros E. apply Qnot_le_lt. intros L. apply Qle_bool_iff in L. congruence.
  - intros L. destruct (Qle_bool res tol) eqn:E; [|reflexivity]. apply Qle_bool_iff in E. lra.
Qed.

Lemma wrapper_tol_iterative t : linsolve_wrapper_tol (Some t) == 5 * t.
Proof. unfold linsolve_wrapper_tol. ring. Qed.

Lemma wrapper_tol_direct : linsolve_wrapper_tol None == 1 # 10000000.
Proof. reflexivity. Qed.

Lemma wrapper_tol_pos it : (forall t, it = Some t -> 0 < t) -> 0 < linsolve_wrapper_tol it.
Proof.
  intros H. destruct it as [t|]; cbn [linsolve_wrapper_tol].
  - specialize (H t eq_refl). lra.
  - reflexivity.
Qed.

(* a solution the wrapped iterative solver accepts (relative residual <= its own tolerance) passes the acceptance
   test of the wrapper LinSolve built: it is recognised as solved, never handed to the inner solver again *)
Lemma inner_solution_recognised t res : 0 <= res -> res <= t -> needs_inner (linsolve_wrapper_tol (Some t)) res = false.
Proof.
  intros H0 H1. apply needs_inner_false. rewrite wrapper_tol_iterative. lra.
Qed.

(* ... with a margin of a factor 5: (the residual of the reconstruction of c * b from the stored pair is at most the
   residual of the stored solution, so every multiple of a solved right-hand side is answered from the database) *)
Lemma inner_solution_margin t res : 0 <= t -> res <= 5 * t -> needs_inner (linsolve_wrapper_tol (Some t)) res = false.
Proof.
  intros H0 H1. apply needs_inner_false. rewrite wrapper_tol_iterative. exact H1.
Qed.

(* whatever the wrapper answers from its database satisfies the tolerance the property names: 5 x the tolerance of
   the wrapped solver, 1e-7 for a solver without tolerance; anything worse goes to the inner solver *)
Lemma database_answer_within_tol it res :
  needs_inner (linsolve_wrapper_tol it) res = false ->
  res <= match it with Some t => 5 * t | None => 1 # 10000000 end.
Proof.
  intros H. apply needs_inner_false in H. destruct it as [t|].
  - rewrite wrapper_tol_iterative in H. exact H.
  - exact H.
Qed.

Lemma worse_than_tol_is_solved it res :
  match it with Some t => 5 * t | None => 1 # 10000000 end < res -> needs_inner (linsolve_wrapper_tol it) res = true.
Proof.
  intros H. apply needs_inner_true. destruct it as [t|].
  - rewrite wrapper_tol_iterative. exact H.
  - exact H.
Qed.

(* the variant "build the wrapper first, then test hasattr on self.solver" (which by then is the wrapper, whose tol is
   the default) gives 5 x default for EVERY solver: it differs from the model for every inner tolerance other than
   the default and for every solver without tolerance *)
Definition wrapper_tol_test_after (inner_tol : option Q) : Q := lda_default_tol * 5.
Lemma test_after_differs_iterative t : ~ t == lda_default_tol -> ~ linsolve_wrapper_tol (Some t) == wrapper_tol_test_after (Some t).
Proof. unfold wrapper_tol_test_after, lda_default_tol. cbn [linsolve_wrapper_tol]. intros H E. apply H. lra. Qed.
Lemma test_after_differs_direct : ~ linsolve_wrapper_tol None == wrapper_tol_test_after None.
Proof. intros E. vm_compute in E. discriminate. Qed.

(* ---- the storage test of a freshly solved column refers to the column's OWN norm ---- *)
Lemma stored_true tol bnrm bnrm0 : stored tol bnrm bnrm0 = true <-> tol * bnrm0 < bnrm.
Proof.
  unfold stored. rewrite negb_true_iff. split.
  - intros H. apply Qnot_le_lt. intros Hle. apply Qle_bool_iff in Hle. congruence.
  - intros H. destruct (Qle_bool bnrm (tol * bnrm0)) eqn:E; [|reflexivity].
    apply Qle_bool_iff in E. exfalso. apply (Qlt_not_le _ _ H E).
Qed.

Lemma stored_false tol bnrm bnrm0 : stored tol bnrm bnrm0 = false <-> bnrm <= tol * bnrm0.
Proof. unfold stored. rewrite negb_false_iff. apply Qle_bool_iff. Qed.

(* the decision does not depend on the magnitude (the units) of the column: scaling the column scales both norms *)
Lemma stored_scale tol s bnrm bnrm0 : 0 < s -> stored tol (s * bnrm) (s * bnrm0) = stored tol bnrm bnrm0.
Proof.
  intros Hs. destruct (stored tol bnrm bnrm0) eqn:E.
  - apply stored_true in E. apply stored_true. nra.
  - apply stored_false in E. apply stored_false. nra.
Qed.

(* a column from which the orthogonalisation removes nothing (empty database, or orthogonal to everything stored) is
   stored whatever its magnitude *)
Lemma stored_nothing_removed tol bnrm0 : tol < 1 -> 0 < bnrm0 -> stored tol bnrm0 bnrm0 = true.
Proof. intros Ht Hb. apply stored_true. nra. Qed.

(* more generally: if a fraction c > tol of the column survives the orthogonalisation it is stored *)
Lemma stored_fraction tol c bnrm0 : tol < c -> 0 < bnrm0 -> stored tol (c * bnrm0) bnrm0 = true.
Proof. intros Ht Hb. apply stored_true. nra. Qed.

(* any reference that is 1/tol times larger than what survives drops the column: with a norm of the whole block as
   reference, a column 1/tol times smaller than the largest one of its block would never be stored *)
Lemma stored_large_reference tol bnrm ref : bnrm <= tol * ref -> stored tol bnrm ref = false.
Proof. apply stored_false. Qed.

Lemma stored_reference_matters :
  exists tol bnrm bnrm0 ref, 0 < tol /\ tol < 1 /\ 0 < bnrm0 /\ bnrm0 <= ref /\
    stored tol bnrm bnrm0 = true /\ stored tol bnrm ref = false.
Proof.
  exists (1 # 10000000), 1, 1, 1000000000. repeat split; try reflexivity; try (unfold Qlt, Qle; cbn; lia).
Qed.
