(* Lemmas about Model/Dyad.v and Model/DyadSpec.v : every public DyadCarrier operation refines the dense
   specification (C15).  Foundations: sums over dyads, the invariant wf, todense in table form, add_dyad. *)
From Coq Require Import ZArith List Bool Lia Ring.
From Pymoto Require Import Base.Gauss Base.Mat Model.Dyad Model.DyadSpec.
Import ListNotations.
Local Open Scope Z_scope.

Ltac splits := repeat match goal with |- _ /\ _ => split end.

(* ------------------------------------------------------------------ sums over the stored dyads *)
Definition psumf (F : vec -> vec -> C) (ul vl : list vec) : C :=
  csum (map (fun p => F (fst p) (snd p)) (combine ul vl)).
Definition ent (i j : nat) (u v : vec) : C := (vget (vd u) i * vget (vd v) j)%C.
Definition psum (ul vl : list vec) (i j : nat) : C := psumf (ent i j) ul vl.
Arguments psumf : simpl never.

Lemma combine_app {A B} (a a' : list A) (b b' : list B) :
  length a = length b -> combine (a ++ a') (b ++ b') = combine a b ++ combine a' b'.
Proof.
  revert b. induction a as [|x a IH]; intros [|y b] L; cbn in *; try discriminate; [reflexivity|].
  f_equal. apply IH. lia.
Qed.

Lemma psumf_nil F vl : psumf F [] vl = c0.
Proof. reflexivity. Qed.

Lemma psumf_nil_r F ul : psumf F ul [] = c0.
Proof. unfold psumf. rewrite combine_nil. reflexivity. Qed.

Lemma psumf_cons F u ul v vl : psumf F (u :: ul) (v :: vl) = (F u v + psumf F ul vl)%C.
Proof. reflexivity. Qed.

Lemma psumf_app F ul ul' vl vl' : length ul = length vl ->
  psumf F (ul ++ ul') (vl ++ vl') = (psumf F ul vl + psumf F ul' vl')%C.
Proof. intros L. unfold psumf. rewrite combine_app by exact L. rewrite map_app, csum_app. reflexivity. Qed.

Lemma psumf_map F f g ul vl : psumf F (map f ul) (map g vl) = psumf (fun u v => F (f u) (g v)) ul vl.
Proof.
  revert vl. induction ul as [|u ul IH]; intros [|v vl]; cbn; try reflexivity.
  rewrite !psumf_cons, IH. reflexivity.
Qed.

Lemma psumf_map_l F f ul vl : psumf F (map f ul) vl = psumf (fun u v => F (f u) v) ul vl.
Proof. rewrite <- (map_id vl) at 1. apply psumf_map. Qed.

Lemma psumf_map_r F g ul vl : psumf F ul (map g vl) = psumf (fun u v => F u (g v)) ul vl.
Proof. rewrite <- (map_id ul) at 1. apply psumf_map. Qed.

Lemma psumf_ext F G ul vl : (forall u v, In u ul -> In v vl -> F u v = G u v) -> psumf F ul vl = psumf G ul vl.
Proof.
  intros H. unfold psumf. apply csum_map_ext. intros [u v] Hin. cbn.
  apply H; [eapply in_combine_l | eapply in_combine_r]; exact Hin.
Qed.

Lemma psumf_add F G ul vl : psumf (fun u v => F u v + G u v)%C ul vl = (psumf F ul vl + psumf G ul vl)%C.
Proof. unfold psumf. apply (csum_map_add (fun p => F (fst p) (snd p)) (fun p => G (fst p) (snd p))). Qed.

Lemma psumf_mul_l a F ul vl : psumf (fun u v => a * F u v)%C ul vl = (a * psumf F ul vl)%C.
Proof. unfold psumf. apply (csum_map_mul_l a (fun p => F (fst p) (snd p))). Qed.

Lemma psumf_mul_r a F ul vl : psumf (fun u v => F u v * a)%C ul vl = (psumf F ul vl * a)%C.
Proof. unfold psumf. apply (csum_map_mul_r a (fun p => F (fst p) (snd p))). Qed.

Lemma psumf_hom h F ul vl : h c0 = c0 -> (forall a b, h (a + b)%C = (h a + h b)%C) ->
  psumf (fun u v => h (F u v)) ul vl = h (psumf F ul vl).
Proof. intros H0 Ha. unfold psumf. apply (csum_map_hom h (fun p => F (fst p) (snd p))); assumption. Qed.

Lemma psumf_swap F ul vl : psumf F ul vl = psumf (fun v u => F u v) vl ul.
Proof.
  revert vl. induction ul as [|u ul IH]; intros [|v vl]; cbn; try reflexivity.
  rewrite !psumf_cons, IH. reflexivity.
Qed.

Lemma psumf_isum n (F : nat -> vec -> vec -> C) ul vl :
  psumf (fun u v => isum n (fun l => F l u v)) ul vl = isum n (fun l => psumf (F l) ul vl).
Proof.
  unfold psumf, isum.
  apply (csum_swap (fun (p : vec * vec) (l : nat) => F l (fst p) (snd p)) (combine ul vl) (seq 0 n)).
Qed.

Lemma psumf_filter F (p : vec * vec -> bool) ul vl :
  (forall u v, p (u, v) = false -> F u v = c0) ->
  csum (map (fun q => F (fst q) (snd q)) (filter p (combine ul vl))) = psumf F ul vl.
Proof.
  intros H. unfold psumf. apply csum_filter_0. intros [u v] _ E. apply H. exact E.
Qed.

(* ------------------------------------------------------------------ the invariant *)
Definition vlens (n : Z) (l : list vec) : Prop := Forall (fun v => zlen (vd v) = n) l.

Record wf (c : carrier) : Prop := mkwf {
  wf_len : length (us c) = length (vs c);
  wf_u : vlens (ulen c) (us c);
  wf_v : vlens (vlen c) (vs c);
  wf_f : forall v, In v (us c) \/ In v (vs c) -> vf v = true -> cplx c = true
}.

Lemma zlen_nat {A} (l : list A) n : zlen l = n -> length l = Z.to_nat n.
Proof. unfold zlen. intros <-. rewrite Nat2Z.id. reflexivity. Qed.

Lemma zlen_nonneg {A} (l : list A) : 0 <= zlen l.
Proof. unfold zlen. lia. Qed.

Lemma vlens_neg n l : n < 0 -> vlens n l -> l = [].
Proof.
  intros Hn F. destruct l as [|v l]; [reflexivity|]. inversion F as [|? ? E _]; subst.
  pose proof (zlen_nonneg (vd v)). lia.
Qed.

Lemma wf_empty r c : wf (empty r c).
Proof. constructor; cbn; try constructor. intros v [[]|[]]. Qed.

Lemma wf_unknown_nodyads c : wf c -> ulen c < 0 \/ vlen c < 0 -> us c = [] /\ vs c = [].
Proof.
  intros W [H|H].
  - pose proof (vlens_neg _ _ H (wf_u _ W)) as E. split; [exact E|].
    pose proof (wf_len _ W) as L. rewrite E in L. destruct (vs c); [reflexivity | discriminate].
  - pose proof (vlens_neg _ _ H (wf_v _ W)) as E. split; [|exact E].
    pose proof (wf_len _ W) as L. rewrite E in L. destruct (us c); [reflexivity | discriminate].
Qed.

(* ------------------------------------------------------------------ todense in table form *)
Lemma fold_outer_tab r cn (l : list (vec * vec)) g :
  Forall (fun p => length (vd (fst p)) = r /\ length (vd (snd p)) = cn) l ->
  fold_left (fun M p => madd M (outer (vd (fst p)) (vd (snd p)))) l (mtab r cn g) =
  mtab r cn (fun i j => g i j + csum (map (fun p => ent i j (fst p) (snd p)) l))%C.
Proof.
  revert g. induction l as [|[u v] l IH]; intros g F; cbn [fold_left].
  - apply mtab_ext. intros i j _ _. cbn. ring.
  - apply Forall_cons_iff in F as [[Lu Lv] F']. cbn [fst snd] in *.
    rewrite outer_tab, Lu, Lv, madd_tab. rewrite IH by exact F'.
    apply mtab_ext. intros i j _ _. cbn [map csum fst snd]. unfold ent. ring.
Qed.

Lemma wf_pairs c : wf c ->
  Forall (fun p => length (vd (fst p)) = Z.to_nat (ulen c) /\ length (vd (snd p)) = Z.to_nat (vlen c))
         (combine (us c) (vs c)).
Proof.
  intros W. apply Forall_forall. intros [u v] Hin. cbn [fst snd].
  pose proof (wf_u _ W) as Fu. pose proof (wf_v _ W) as Fv. unfold vlens in *. rewrite Forall_forall in Fu, Fv.
  split; apply zlen_nat; [apply Fu; eapply in_combine_l | apply Fv; eapply in_combine_r]; exact Hin.
Qed.

Lemma todense_tab c : wf c ->
  todense c = mtab (Z.to_nat (ulen c)) (Z.to_nat (vlen c)) (psum (us c) (vs c)).
Proof.
  intros W. unfold todense. rewrite mzeros_tab. rewrite fold_outer_tab by (apply wf_pairs; exact W).
  apply mtab_ext. intros i j _ _. unfold psum, psumf. ring.
Qed.

Lemma todense_wfm c : wf c -> wfm (Z.to_nat (ulen c)) (Z.to_nat (vlen c)) (todense c).
Proof. intros W. rewrite todense_tab by exact W. apply wfm_mtab. Qed.

(* ------------------------------------------------------------------ add_dyad *)
Definition facC (fac : option Z) : C := match fac with None => c1 | Some f => cofZ f end.
Definition conf (r cn : Z) (l : list (inarr * inarr)) : Prop :=
  Forall (fun p => zlen (vd (in_vec (fst p))) = r /\ zlen (vd (in_vec (snd p))) = cn) l.
Definition lent (fac : option Z) (i j : nat) (p : inarr * inarr) : C :=
  (facC fac * (vget (vd (in_vec (fst p))) i * vget (vd (in_vec (snd p))) j))%C.
Definition lsum (fac : option Z) (l : list (inarr * inarr)) (i j : nat) : C := csum (map (lent fac i j) l).
Definition lflag (l : list (inarr * inarr)) : bool := existsb (fun p => vf (in_vec (fst p)) || vf (in_vec (snd p))) l.

Lemma vget_vscaleZ fac v i : vget (vd (vscaleZ fac v)) i = (facC fac * vget (vd v) i)%C.
Proof.
  destruct fac as [f|]; cbn [vscaleZ facC vd].
  - rewrite vget_map by (apply cmul_0_r). reflexivity.
  - ring.
Qed.

Lemma length_vscaleZ fac v : length (vd (vscaleZ fac v)) = length (vd v).
Proof. destruct fac; cbn; [apply map_length | reflexivity]. Qed.

Lemma vf_vscaleZ fac v : vf (vscaleZ fac v) = vf v.
Proof. destruct fac; reflexivity. Qed.

Lemma psum_snoc ul vl u v i j : length ul = length vl ->
  psum (ul ++ [u]) (vl ++ [v]) i j = (psum ul vl i j + ent i j u v)%C.
Proof. intros L. unfold psum. rewrite psumf_app by exact L. rewrite psumf_cons, psumf_nil. ring. Qed.

Lemma add_loop_known l fac : forall c, wf c -> 0 <= ulen c -> 0 <= vlen c -> conf (ulen c) (vlen c) l ->
  exists c', add_loop c l fac = (c', None) /\ wf c' /\ ulen c' = ulen c /\ vlen c' = vlen c /\
    (forall i j, psum (us c') (vs c') i j = (psum (us c) (vs c) i j + lsum fac l i j)%C) /\
    (cplx c' = true -> cplx c = true \/ lflag l = true) /\ (cplx c = true -> cplx c' = true).
Proof.
  induction l as [|[a b] l IH]; intros c W Hu Hv F.
  - exists c. cbn. splits; auto. intros i j. unfold lsum. cbn. ring.
  - apply Forall_cons_iff in F as [[Lu Lv] F]. cbn [fst snd] in Lu, Lv.
    cbn [add_loop].
    assert (E1 : ulen c <? 0 = false) by (apply Z.ltb_ge; exact Hu).
    assert (E2 : vlen c <? 0 = false) by (apply Z.ltb_ge; exact Hv).
    rewrite E1, E2. rewrite Lu, Lv, !Z.eqb_refl. cbn [negb].
    destruct (vis0 (vd (in_vec a)) || vis0 (vd (in_vec b))) eqn:Ez.
    + destruct (IH c W Hu Hv F) as [c' [E [W' [Eu [Ev [Ps [Fl1 Fl2]]]]]]].
      exists c'. splits; auto.
      * intros i j. rewrite Ps. unfold lsum. cbn [map csum]. unfold lent at 2. cbn [fst snd].
        apply orb_true_iff in Ez as [Ez|Ez]; rewrite (vis0_get _ _ Ez); ring.
      * intros H. destruct (Fl1 H) as [H1|H1]; [left; exact H1 | right]. cbn [lflag existsb]. fold (lflag l).
        rewrite H1. apply orb_true_r.
    + set (c3 := mkcar (us c ++ [vscaleZ fac (in_vec a)]) (vs c ++ [in_vec b]) (ulen c) (vlen c)
                       (cplx c || vf (in_vec a) || vf (in_vec b))).
      assert (W3 : wf c3).
      { constructor; cbn [us vs ulen vlen cplx c3].
        - rewrite !app_length. cbn. rewrite (wf_len _ W). reflexivity.
        - apply Forall_app. split; [apply (wf_u _ W)|]. constructor; [|constructor].
          unfold zlen. rewrite length_vscaleZ. exact Lu.
        - apply Forall_app. split; [apply (wf_v _ W)|]. constructor; [|constructor]. exact Lv.
        - intros v [Hin|Hin] Hf; apply in_app_or in Hin as [Hin|Hin].
          + rewrite (wf_f _ W v (or_introl Hin) Hf). reflexivity.
          + destruct Hin as [<-|[]]. rewrite vf_vscaleZ in Hf. rewrite Hf. rewrite orb_true_r. reflexivity.
          + rewrite (wf_f _ W v (or_intror Hin) Hf). reflexivity.
          + destruct Hin as [<-|[]]. rewrite Hf. apply orb_true_r. }
      destruct (IH c3 W3 Hu Hv F) as [c' [E [W' [Eu [Ev [Ps [Fl1 Fl2]]]]]]].
      exists c'. splits; auto.
      * intros i j. rewrite Ps. cbn [us vs c3]. rewrite psum_snoc by (apply (wf_len _ W)).
        unfold lsum. cbn [map csum]. unfold lent at 2, ent. cbn [fst snd]. rewrite vget_vscaleZ. ring.
      * intros H. destruct (Fl1 H) as [H1|H1].
        -- cbn [cplx c3] in H1. apply orb_true_iff in H1 as [H1|H1].
           ++ apply orb_true_iff in H1 as [H1|H1]; [left; exact H1 | right].
              cbn [lflag existsb fst snd]. rewrite H1. reflexivity.
           ++ right. cbn [lflag existsb fst snd]. rewrite H1. rewrite orb_true_r. reflexivity.
        -- right. cbn [lflag existsb]. fold (lflag l). rewrite H1. apply orb_true_r.
      * intros H. apply Fl2. cbn [cplx c3]. rewrite H. reflexivity.
Qed.

(* shapes still unknown (negative) are fixed by the first pair, also when that pair is dropped *)
Definition eff_u (c : carrier) (l : list (inarr * inarr)) : Z :=
  if ulen c <? 0 then match l with [] => ulen c | p :: _ => zlen (vd (in_vec (fst p))) end else ulen c.
Definition eff_v (c : carrier) (l : list (inarr * inarr)) : Z :=
  if vlen c <? 0 then match l with [] => vlen c | p :: _ => zlen (vd (in_vec (snd p))) end else vlen c.

Lemma zlen_ltb0 {A} (l : list A) : zlen l <? 0 = false.
Proof. apply Z.ltb_ge. apply zlen_nonneg. Qed.

Definition setdims (c : carrier) (a b : inarr) : carrier :=
  let c1 := if ulen c <? 0 then mkcar (us c) (vs c) (zlen (vd (in_vec a))) (vlen c) (cplx c) else c in
  if vlen c1 <? 0 then mkcar (us c1) (vs c1) (ulen c1) (zlen (vd (in_vec b))) (cplx c1) else c1.

Lemma add_loop_cons c a b l fac :
  add_loop c ((a, b) :: l) fac =
  let ui := in_vec a in
  let vi := in_vec b in
  let c2 := setdims c a b in
  if negb (zlen (vd ui) =? ulen c2) then (c2, Some TypeE)
  else if negb (zlen (vd vi) =? vlen c2) then (c2, Some TypeE)
  else if vis0 (vd ui) || vis0 (vd vi) then add_loop c2 l fac
  else add_loop (mkcar (us c2 ++ [vscaleZ fac ui]) (vs c2 ++ [vi]) (ulen c2) (vlen c2)
                       (cplx c2 || vf ui || vf vi)) l fac.
Proof. reflexivity. Qed.

Lemma setdims_eq c a b l :
  setdims c a b = mkcar (us c) (vs c) (eff_u c ((a, b) :: l)) (eff_v c ((a, b) :: l)) (cplx c).
Proof.
  destruct c as [cu cv cul cvl cf]. unfold setdims, eff_u, eff_v. cbn [us vs ulen vlen cplx fst snd].
  destruct (cul <? 0); cbn [us vs ulen vlen cplx]; destruct (cvl <? 0); reflexivity.
Qed.

Lemma add_loop_spec l fac c : wf c -> conf (eff_u c l) (eff_v c l) l ->
  exists c', add_loop c l fac = (c', None) /\ wf c' /\ ulen c' = eff_u c l /\ vlen c' = eff_v c l /\
    (forall i j, psum (us c') (vs c') i j = (psum (us c) (vs c) i j + lsum fac l i j)%C) /\
    (cplx c' = true -> cplx c = true \/ lflag l = true) /\ (cplx c = true -> cplx c' = true).
Proof.
  intros W F. destruct l as [|[a b] l].
  - exists c. unfold eff_u, eff_v. destruct (ulen c <? 0), (vlen c <? 0); splits; auto; intros i j; unfold lsum; cbn; ring.
  - set (r := eff_u c ((a, b) :: l)) in *. set (cn := eff_v c ((a, b) :: l)) in *.
    set (c2 := mkcar (us c) (vs c) r cn (cplx c)).
    assert (Hr : 0 <= r).
    { unfold r, eff_u. destruct (ulen c <? 0) eqn:E; [apply zlen_nonneg | apply Z.ltb_ge; exact E]. }
    assert (Hc : 0 <= cn).
    { unfold cn, eff_v. destruct (vlen c <? 0) eqn:E; [apply zlen_nonneg | apply Z.ltb_ge; exact E]. }
    assert (W2 : wf c2).
    { constructor; cbn [us vs ulen vlen cplx c2].
      - apply (wf_len _ W).
      - unfold r, eff_u. destruct (ulen c <? 0) eqn:E; [|apply (wf_u _ W)].
        apply Z.ltb_lt in E. destruct (wf_unknown_nodyads c W (or_introl E)) as [-> _]. constructor.
      - unfold cn, eff_v. destruct (vlen c <? 0) eqn:E; [|apply (wf_v _ W)].
        apply Z.ltb_lt in E. destruct (wf_unknown_nodyads c W (or_intror E)) as [_ ->]. constructor.
      - apply (wf_f _ W). }
    assert (E : add_loop c ((a, b) :: l) fac = add_loop c2 ((a, b) :: l) fac).
    { rewrite !add_loop_cons. rewrite (setdims_eq c a b l). fold r cn. fold c2.
      rewrite (setdims_eq c2 a b l). unfold eff_u, eff_v. cbn [us vs ulen vlen cplx c2].
      replace (r <? 0) with false by (symmetry; apply Z.ltb_ge; exact Hr).
      replace (cn <? 0) with false by (symmetry; apply Z.ltb_ge; exact Hc). reflexivity. }
    rewrite E.
    destruct (add_loop_known ((a, b) :: l) fac c2 W2 Hr Hc F) as [c' [E' [W' [Eu [Ev [Ps [Fl1 Fl2]]]]]]].
    exists c'. splits; auto.
Qed.

(* ------------------------------------------------------------------ DyadCarrier(list of vectors, list of vectors, shape) *)
Definition ivec (v : vec) : inarr := IVec (vd v) (vf v).
Definition vpairs (ul vl : list vec) : list (inarr * inarr) := combine (map ivec ul) (map ivec vl).

Lemma in_vec_ivec v : in_vec (ivec v) = v.
Proof. destruct v; reflexivity. Qed.

Lemma lsum_vpairs fac ul vl i j : lsum fac (vpairs ul vl) i j = (facC fac * psum ul vl i j)%C.
Proof.
  revert vl. induction ul as [|u ul IH]; intros [|v vl]; unfold lsum, vpairs, psum in *; cbn [map combine csum];
    rewrite ?psumf_nil, ?psumf_nil_r; try ring.
  rewrite psumf_cons. rewrite IH. unfold lent, ent. cbn [fst snd]. rewrite !in_vec_ivec. ring.
Qed.

Lemma lflag_vpairs ul vl : lflag (vpairs ul vl) = true -> existsb vf ul || existsb vf vl = true.
Proof.
  revert vl. induction ul as [|u ul IH]; intros [|v vl]; unfold lflag, vpairs in *; cbn [map combine existsb fst snd];
    try discriminate.
  rewrite !in_vec_ivec. intros H. apply orb_true_iff in H as [H|H].
  - apply orb_true_iff in H as [H|H]; rewrite H; rewrite ?orb_true_r; reflexivity.
  - apply IH in H. apply orb_true_iff in H as [H|H]; rewrite H; rewrite ?orb_true_r; reflexivity.
Qed.

Lemma conf_vpairs r cn ul vl : vlens r ul -> vlens cn vl -> conf r cn (vpairs ul vl).
Proof.
  intros Fu Fv. unfold conf, vpairs. apply Forall_forall. intros [a b] Hin. cbn [fst snd].
  pose proof (in_combine_l _ _ _ _ Hin) as Ha. pose proof (in_combine_r _ _ _ _ Hin) as Hb.
  apply in_map_iff in Ha as [u [<- Hu]]. apply in_map_iff in Hb as [v [<- Hv]]. rewrite !in_vec_ivec.
  unfold vlens in *. rewrite Forall_forall in Fu, Fv. split; [apply Fu | apply Fv]; assumption.
Qed.

Lemma eff_vpairs r cn ul vl : vlens r ul -> vlens cn vl -> length ul = length vl ->
  eff_u (empty r cn) (vpairs ul vl) = r /\ eff_v (empty r cn) (vpairs ul vl) = cn.
Proof.
  intros Fu Fv L. unfold eff_u, eff_v. cbn [ulen vlen empty]. split.
  - destruct (r <? 0) eqn:E; [|reflexivity]. apply Z.ltb_lt in E. rewrite (vlens_neg _ _ E Fu). reflexivity.
  - destruct (cn <? 0) eqn:E; [|reflexivity]. apply Z.ltb_lt in E. rewrite (vlens_neg _ _ E Fv).
    destruct ul; reflexivity.
Qed.

Lemma add_dyad_vecs c ul vl fac : length ul = length vl ->
  add_dyad c (vecs_arg ul) (vecs_arg vl) fac = add_loop c (vpairs ul vl) fac.
Proof.
  intros L. unfold add_dyad, vecs_arg. cbn [parse_to_list]. fold ivec. rewrite !map_length, L, Nat.eqb_refl. reflexivity.
Qed.

Lemma mk_spec ul vl r cn : length ul = length vl -> vlens r ul -> vlens cn vl ->
  exists c', mk ul vl r cn = Ok c' /\ wf c' /\ ulen c' = r /\ vlen c' = cn /\
    (forall i j, psum (us c') (vs c') i j = psum ul vl i j) /\
    (cplx c' = true -> existsb vf ul || existsb vf vl = true).
Proof.
  intros L Fu Fv. unfold mk, new. rewrite add_dyad_vecs by exact L.
  destruct (eff_vpairs r cn ul vl Fu Fv L) as [Er Ec].
  destruct (add_loop_spec (vpairs ul vl) None (empty r cn) (wf_empty r cn)) as [c' [E [W [Eu [Ev [Ps [Fl _]]]]]]].
  { rewrite Er, Ec. apply conf_vpairs; assumption. }
  exists c'. rewrite E. cbn [to_res snd fst]. splits; auto; try congruence.
  - intros i j. rewrite Ps, lsum_vpairs. cbn [empty us vs facC]. unfold psum at 1. rewrite psumf_nil. ring.
  - intros H. destruct (Fl H) as [H1|H1]; [discriminate H1 | apply lflag_vpairs; exact H1].
Qed.

(* ------------------------------------------------------------------ the refinement relation *)
Definition R (c : carrier) (d : dm) : Prop :=
  ulen c = dr d /\ vlen c = dc d /\ todense c = dmat d /\ (cplx c = true -> dflag d = true).

Lemma R_dmat c d : wf c -> R c d -> dmat d = mtab (nrow d) (ncol d) (psum (us c) (vs c)).
Proof. intros W [Eu [Ev [Em _]]]. unfold nrow, ncol. rewrite <- Em, <- Eu, <- Ev. apply todense_tab. exact W. Qed.

Lemma R_intro c d f : wf c -> ulen c = dr d -> vlen c = dc d -> dmat d = mtab (nrow d) (ncol d) f ->
  (forall i j, (i < nrow d)%nat -> (j < ncol d)%nat -> psum (us c) (vs c) i j = f i j) ->
  (cplx c = true -> dflag d = true) -> R c d.
Proof.
  intros W Eu Ev Em Ps Fl. unfold R. splits; auto. rewrite todense_tab by exact W. rewrite Em, Eu, Ev.
  apply mtab_ext. exact Ps.
Qed.

Lemma wf_flag_bound c : wf c -> existsb vf (us c) || existsb vf (vs c) = true -> cplx c = true.
Proof.
  intros W H. apply orb_true_iff in H as [H|H]; apply existsb_exists in H as [v [Hin Hf]];
    apply (wf_f _ W v); auto.
Qed.

Lemma mk_R ul vl r cn d f : length ul = length vl -> vlens r ul -> vlens cn vl ->
  dr d = r -> dc d = cn -> dmat d = mtab (nrow d) (ncol d) f ->
  (forall i j, (i < nrow d)%nat -> (j < ncol d)%nat -> psum ul vl i j = f i j) ->
  (existsb vf ul || existsb vf vl = true -> dflag d = true) ->
  exists c', mk ul vl r cn = Ok c' /\ wf c' /\ R c' d.
Proof.
  intros L Fu Fv Er Ec Em Ps Fl.
  destruct (mk_spec ul vl r cn L Fu Fv) as [c' [E [W [Eu [Ev [Ps' Fl']]]]]].
  exists c'. splits; auto. apply (R_intro c' d f); auto; try congruence.
  intros i j Hi Hj. rewrite Ps'. apply Ps; assumption.
Qed.

(* ---- vectors under entrywise maps *)
Lemma vlens_map n (f : vec -> vec) l : (forall v, length (vd (f v)) = length (vd v)) -> vlens n l -> vlens n (map f l).
Proof.
  intros H F. unfold vlens in *. apply Forall_map. eapply Forall_impl; [|exact F].
  intros v E. cbn. unfold zlen in *. rewrite H. exact E.
Qed.

Lemma existsb_vf_map (f : vec -> vec) l : (forall v, vf (f v) = vf v) -> existsb vf (map f l) = existsb vf l.
Proof. intros H. induction l as [|v l IH]; cbn; [reflexivity | rewrite H, IH; reflexivity]. Qed.

Lemma existsb_vf_false (f : vec -> vec) l : (forall v, vf (f v) = false) -> existsb vf (map f l) = false.
Proof. intros H. induction l as [|v l IH]; cbn; [reflexivity | rewrite H, IH; reflexivity]. Qed.

Lemma vget_vmapv h v i : h c0 = c0 -> vget (vd (vmapv h v)) i = h (vget (vd v) i).
Proof. intros H. cbn. apply vget_map. exact H. Qed.

Lemma vget_vmapr h v i : h c0 = c0 -> vget (vd (vmapr h v)) i = h (vget (vd v) i).
Proof. intros H. cbn. apply vget_map. exact H. Qed.

(* ------------------------------------------------------------------ unary operators *)
Lemma un_refines k c d : wf c -> R c d -> exists c', un_apply k c = Ok c' /\ wf c' /\ R c' (dun k d).
Proof.
  intros W Rc. pose proof (R_dmat c d W Rc) as Em. destruct Rc as [Eu [Ev [_ Fl]]].
  pose proof (wf_len _ W) as L. pose proof (wf_u _ W) as Fu. pose proof (wf_v _ W) as Fv.
  assert (FB := wf_flag_bound c W).
  destruct k; cbn [un_apply dun]; unfold copy, pos, neg, transpose, conj, real, imag.
  - (* copy *) apply (mk_R _ _ _ _ d (psum (us c) (vs c))); auto.
  - (* pos *) apply (mk_R _ _ _ _ d (psum (us c) (vs c))); auto.
  - (* neg *)
    apply (mk_R _ _ _ _ _ (fun i j => copp (psum (us c) (vs c) i j))); cbn [dr dc dmat dflag]; auto.
    + rewrite map_length. exact L.
    + apply vlens_map; [intros v; cbn; apply map_length | exact Fu].
    + rewrite Em. unfold nrow, ncol. cbn [dr dc]. apply mmap_tab.
    + intros i j _ _. unfold psum. rewrite psumf_map_l. rewrite <- (psumf_hom copp) by (intros; ring).
      apply psumf_ext. intros u v _ _. unfold ent. rewrite vget_vmapv by reflexivity. ring.
    + rewrite existsb_vf_map by reflexivity. auto.
  - (* transpose *)
    apply (mk_R _ _ _ _ _ (fun i j => psum (us c) (vs c) j i)); cbn [dr dc dmat dflag]; auto.
    + rewrite Em. unfold nrow, ncol. cbn [dr dc]. apply mT_tab.
    + intros i j _ _. unfold psum. rewrite psumf_swap. apply psumf_ext. intros u v _ _. unfold ent. ring.
    + rewrite orb_comm. auto.
  - (* conj *)
    apply (mk_R _ _ _ _ _ (fun i j => cconj (psum (us c) (vs c) i j))); cbn [dr dc dmat dflag]; auto.
    + rewrite !map_length. exact L.
    + apply vlens_map; [intros v; cbn; apply map_length | exact Fu].
    + apply vlens_map; [intros v; cbn; apply map_length | exact Fv].
    + rewrite Em. unfold nrow, ncol. cbn [dr dc]. apply mmap_tab.
    + intros i j _ _. unfold psum. rewrite psumf_map. rewrite <- (psumf_hom cconj) by (auto using cconj_add).
      apply psumf_ext. intros u v _ _. unfold ent. rewrite !vget_vmapv by reflexivity. rewrite cconj_mul. reflexivity.
    + rewrite !existsb_vf_map by reflexivity. auto.
  - (* real *)
    apply (mk_R _ _ _ _ _ (fun i j => cre (psum (us c) (vs c) i j))); cbn [dr dc dmat dflag]; auto.
    + rewrite !app_length, !map_length. lia.
    + apply Forall_app; split; (apply vlens_map; [intros v; cbn; apply map_length | exact Fu]).
    + apply Forall_app; split; (apply vlens_map; [intros v; cbn; apply map_length | exact Fv]).
    + rewrite Em. unfold nrow, ncol. cbn [dr dc]. apply mmap_tab.
    + intros i j _ _. unfold psum. rewrite psumf_app by (rewrite !map_length; exact L). rewrite !psumf_map.
      rewrite <- psumf_add. rewrite <- (psumf_hom cre) by (auto using cre_add).
      apply psumf_ext. intros u v _ _. unfold ent. rewrite !vget_vmapr by reflexivity. rewrite cre_mul. reflexivity.
    + rewrite !existsb_app. rewrite !existsb_vf_false by reflexivity. discriminate.
  - (* imag *)
    apply (mk_R _ _ _ _ _ (fun i j => cim (psum (us c) (vs c) i j))); cbn [dr dc dmat dflag]; auto.
    + rewrite !app_length, !map_length. lia.
    + apply Forall_app; split; (apply vlens_map; [intros v; cbn; apply map_length | exact Fu]).
    + apply Forall_app; split; (apply vlens_map; [intros v; cbn; apply map_length | exact Fv]).
    + rewrite Em. unfold nrow, ncol. cbn [dr dc]. apply mmap_tab.
    + intros i j _ _. unfold psum. rewrite psumf_app by (rewrite !map_length; exact L). rewrite !psumf_map.
      rewrite <- psumf_add. rewrite <- (psumf_hom cim) by (auto using cim_add).
      apply psumf_ext. intros u v _ _. unfold ent. rewrite !vget_vmapr by reflexivity. rewrite cim_mul. reflexivity.
    + rewrite !existsb_app. rewrite !existsb_vf_false by reflexivity. discriminate.
Qed.

(* ------------------------------------------------------------------ scalar multiplication *)
Lemma existsb_vf_or f (g : vec -> vect) l :
  existsb vf (map (fun v => mkvec (g v) (vf v || f)) l) = true -> existsb vf l = true \/ f = true.
Proof.
  induction l as [|v l IH]; cbn; [discriminate|]. intros H. apply orb_true_iff in H as [H|H].
  - apply orb_true_iff in H as [H|H]; [left; rewrite H; reflexivity | right; exact H].
  - destruct (IH H) as [H1|H1]; [left; rewrite H1; apply orb_true_r | right; exact H1].
Qed.

Lemma vlens_mkvec n (g : vec -> vect) (fl : vec -> bool) l :
  (forall v, zlen (vd v) = n -> zlen (g v) = n) -> vlens n l -> vlens n (map (fun v => mkvec (g v) (fl v)) l).
Proof.
  intros H F. unfold vlens in *. apply Forall_map. eapply Forall_impl; [|exact F]. intros v E. cbn. apply H. exact E.
Qed.

Lemma vlens_mkvec_all n (g : vec -> vect) (fl : vec -> bool) l :
  (forall v, zlen (g v) = n) -> vlens n (map (fun v => mkvec (g v) (fl v)) l).
Proof. intros H. unfold vlens. apply Forall_map. apply Forall_forall. intros v _. cbn. apply H. Qed.

Lemma mul_refines c d x f : wf c -> R c d -> exists c', mul c x f = Ok c' /\ wf c' /\ R c' (dmul d x f).
Proof.
  intros W Rc. pose proof (R_dmat c d W Rc) as Em. destruct Rc as [Eu [Ev [_ Fl]]].
  pose proof (wf_len _ W) as L. pose proof (wf_u _ W) as Fu. pose proof (wf_v _ W) as Fv.
  assert (FB := wf_flag_bound c W). unfold mul.
  apply (mk_R _ _ _ _ _ (fun i j => (psum (us c) (vs c) i j * x)%C)); cbn [dr dc dmat dflag dmul]; auto.
  - rewrite map_length. exact L.
  - apply vlens_mkvec; [|exact Fv]. intros v E. unfold zlen in *. rewrite map_length. exact E.
  - rewrite Em. unfold nrow, ncol. cbn [dr dc]. apply (mmap_tab (fun a => (a * x)%C)).
  - intros i j _ _. unfold psum. rewrite psumf_map_r. rewrite <- psumf_mul_r.
    apply psumf_ext. intros u v _ _. unfold ent. cbn [vd]. rewrite vget_map by (apply cmul_0_l). ring.
  - intros H. apply orb_true_iff in H as [H|H].
    + rewrite Fl; [reflexivity | apply FB; rewrite H; reflexivity].
    + apply existsb_vf_or in H as [H|H]; [rewrite Fl; [reflexivity | apply FB; rewrite H; apply orb_true_r] | rewrite H; apply orb_true_r].
Qed.

Lemma rmul_refines c d x f : wf c -> R c d -> exists c', rmul c x f = Ok c' /\ wf c' /\ R c' (dmul d x f).
Proof.
  intros W Rc. pose proof (R_dmat c d W Rc) as Em. destruct Rc as [Eu [Ev [_ Fl]]].
  pose proof (wf_len _ W) as L. pose proof (wf_u _ W) as Fu. pose proof (wf_v _ W) as Fv.
  assert (FB := wf_flag_bound c W). unfold rmul.
  apply (mk_R _ _ _ _ _ (fun i j => (psum (us c) (vs c) i j * x)%C)); cbn [dr dc dmat dflag dmul]; auto.
  - rewrite map_length. exact L.
  - apply vlens_mkvec; [|exact Fu]. intros v E. unfold zlen in *. rewrite map_length. exact E.
  - rewrite Em. unfold nrow, ncol. cbn [dr dc]. apply (mmap_tab (fun a => (a * x)%C)).
  - intros i j _ _. unfold psum. rewrite psumf_map_l. rewrite <- psumf_mul_r.
    apply psumf_ext. intros u v _ _. unfold ent. cbn [vd]. rewrite vget_map by (apply cmul_0_r). ring.
  - intros H. apply orb_true_iff in H as [H|H].
    + apply existsb_vf_or in H as [H|H]; [rewrite Fl; [reflexivity | apply FB; rewrite H; reflexivity] | rewrite H; apply orb_true_r].
    + rewrite Fl; [reflexivity | apply FB; rewrite H; apply orb_true_r].
Qed.

(* ------------------------------------------------------------------ += and -= *)
Lemma msub_tab r c f g : msub r c (mtab r c f) (mtab r c g) = mtab r c (fun i j => f i j - g i j)%C.
Proof. unfold msub. apply mtab_ext. intros i j Hi Hj. rewrite !mget_mtab by assumption. reflexivity. Qed.

Lemma iadd_refines (minus : bool) c o d od d' : wf c -> wf o -> R c d -> R o od -> diadd minus d od = Some d' ->
  exists c', (if minus then isub c o else iadd c o) = (c', None) /\ wf c' /\ R c' d'.
Proof.
  intros W Wo Rc Ro. pose proof (R_dmat c d W Rc) as Em. pose proof (R_dmat o od Wo Ro) as Emo.
  destruct Rc as [Eu [Ev [Ed Fl]]]. destruct Ro as [Euo [Evo [_ Flo]]].
  unfold diadd. destruct ((dr od <? 0) || (dc od <? 0)) eqn:Eneg.
  - (* the other carrier has no shape: nothing is added *)
    intros H. injection H as <-.
    assert (N : ulen o < 0 \/ vlen o < 0).
    { apply orb_true_iff in Eneg as [H|H]; apply Z.ltb_lt in H; [left | right]; congruence. }
    destruct (wf_unknown_nodyads o Wo N) as [E1 E2].
    exists c. split; [|split; [exact W | unfold R; auto]].
    destruct minus; unfold isub, iadd; rewrite E1, E2; reflexivity.
  - destruct ((dr d =? dr od) && (dc d =? dc od)) eqn:Eeq; [|discriminate].
    apply andb_true_iff in Eeq as [E1 E2]. apply Z.eqb_eq in E1, E2.
    apply orb_false_iff in Eneg as [N1 N2]. apply Z.ltb_ge in N1, N2.
    intros H. injection H as <-.
    set (fac := if minus then Some (-1) else None).
    assert (EA : (if minus then isub c o else iadd c o) = add_loop c (vpairs (us o) (vs o)) fac).
    { destruct minus; unfold isub, iadd, fac; apply add_dyad_vecs; apply (wf_len _ Wo). }
    rewrite EA.
    destruct (add_loop_known (vpairs (us o) (vs o)) fac c W) as [c' [E [W' [Eu' [Ev' [Ps [Fl1 _]]]]]]]; try lia.
    { apply conf_vpairs; [rewrite Eu, E1, <- Euo; apply (wf_u _ Wo) | rewrite Ev, E2, <- Evo; apply (wf_v _ Wo)]. }
    exists c'. splits; auto.
    apply (R_intro c' _ (fun i j => if minus then (psum (us c) (vs c) i j - psum (us o) (vs o) i j)%C
                                     else (psum (us c) (vs c) i j + psum (us o) (vs o) i j)%C));
      cbn [dr dc dmat dflag]; auto; try congruence.
    + unfold nrow, ncol in *. cbn [dr dc]. rewrite Em, Emo. rewrite <- E1, <- E2.
      destruct minus; [rewrite msub_tab | rewrite madd_tab]; reflexivity.
    + intros i j _ _. rewrite Ps, lsum_vpairs. unfold fac. destruct minus; cbn [facC]; [|ring].
      change (cofZ (-1)) with (copp c1). ring.
    + intros H. destruct (Fl1 H) as [H1|H1]; [rewrite (Fl H1); reflexivity|].
      apply lflag_vpairs in H1. rewrite Flo; [apply orb_true_r | apply (wf_flag_bound o Wo H1)].
Qed.

(* ------------------------------------------------------------------ relations on operands and results *)
Definition Rarg (x : operand) (dx : darg) : Prop :=
  match x, dx with
  | PScal s f, DScal s' f' => s = s' /\ f = f'
  | PVec v f, DVec v' f' => v = v' /\ f = f'
  | PMat nr nc m f, DMat nr' nc' m' f' => nr = nr' /\ nc = nc' /\ m = m' /\ f = f'
  | PDyad o, DDm od => wf o /\ R o od
  | _, _ => False
  end.

Definition fle (f g : bool) : Prop := f = true -> g = true.

(* plain values: same data, same shape, complex flag bounded by numpy's promotion *)
Definition out_le (a b : out) : Prop :=
  match a, b with
  | OScal x f, OScal y g => x = y /\ fle f g
  | OVec x f, OVec y g => x = y /\ fle f g
  | OMat r c x f, OMat r' c' y g => r = r' /\ c = c' /\ x = y /\ fle f g
  | OBatch bs x f, OBatch bs' y g => bs = bs' /\ x = y /\ fle f g
  | ONone, ONone => True
  | _, _ => False
  end.

Definition Rout (a : out) (b : dout) : Prop :=
  match a, b with
  | ODyad c, DDyad d => wf c /\ R c d
  | _, DVal o => out_le a o
  | _, _ => False
  end.

Definition Rres (a : res out) (b : res dout) : Prop :=
  match a, b with
  | Ok x, Ok y => Rout x y
  | Er e, Er e' => e = e'
  | _, _ => False
  end.

Lemma fle_refl f : fle f f.
Proof. intros H; exact H. Qed.

Lemma fle_or f g f' g' : fle f f' -> fle g g' -> fle (f || g) (f' || g').
Proof.
  unfold fle. intros H1 H2 H. apply orb_true_iff in H as [H|H]; [rewrite (H1 H) | rewrite (H2 H), orb_true_r]; reflexivity.
Qed.

Lemma map_res_ok {A B} (f : A -> res B) (g : A -> B) l : (forall x, In x l -> f x = Ok (g x)) -> map_res f l = Ok (map g l).
Proof.
  induction l as [|x l IH]; intros H; cbn; [reflexivity|].
  rewrite H by (left; reflexivity). rewrite IH by (intros; apply H; right; assumption). reflexivity.
Qed.

Lemma cis0_opp s : cis0 (copp s) = cis0 s.
Proof.
  destruct s as [a b]. unfold cis0, ceqb, copp, c0. cbn [fst snd].
  destruct (Z.eqb_spec a 0), (Z.eqb_spec b 0), (Z.eqb_spec (- a) 0), (Z.eqb_spec (- b) 0); cbn; try reflexivity; lia.
Qed.

Lemma mget_mmap h M i j : h c0 = c0 -> mget (mmap h M) i j = h (mget M i j).
Proof.
  intros H0. unfold mget, mmap. change (@nil C) with (map h []) at 1. rewrite map_nth. apply vget_map. exact H0.
Qed.

Lemma size_dsize c d : ulen c = dr d -> vlen c = dc d -> size c = dsize d.
Proof. intros E1 E2. unfold size, dsize. rewrite E1, E2. reflexivity. Qed.

(* ------------------------------------------------------------------ carrier (+|-) carrier *)
Lemma lift_to_res p : lift (to_res p) = match snd p with None => Ok (ODyad (fst p)) | Some e => Er e end.
Proof. destruct p as [c [e|]]; reflexivity. Qed.

Lemma add_carrier_refines c o d od : wf c -> wf o -> R c d -> R o od ->
  forall r, (if negb ((dr od =? dr d) && (dc od =? dc d)) && ((dsize d >? 0) && (dsize od >? 0)) then Some (Er ValueE)
             else match diadd false d od with Some d' => Some (Ok (DDyad d')) | None => None end) = Some r ->
  Rres (add c (PDyad o)) r.
Proof.
  intros W Wo Rc Ro r. cbn [add]. unfold shape_eqb.
  pose proof Rc as [Eu [Ev _]]. pose proof Ro as [Euo [Evo _]].
  rewrite Eu, Ev, Euo, Evo. rewrite (size_dsize c d Eu Ev), (size_dsize o od Euo Evo).
  destruct (negb ((dr od =? dr d) && (dc od =? dc d)) && ((dsize d >? 0) && (dsize od >? 0))).
  - intros H. injection H as <-. reflexivity.
  - destruct (diadd false d od) as [d'|] eqn:Ed; [|discriminate]. intros H. injection H as <-.
    destruct (un_refines UCopy c d W Rc) as [c1 [E1 [W1 R1]]]. cbn [un_apply dun] in E1, R1. rewrite E1.
    destruct (iadd_refines false c1 o d od d' W1 Wo R1 Ro Ed) as [c' [E' [W' R']]]. cbn beta iota in E'.
    rewrite lift_to_res, E'. cbn. split; assumption.
Qed.

Lemma diadd_neg d od f g : dmat d = mtab (nrow d) (ncol d) f -> dmat od = mtab (nrow od) (ncol od) g ->
  diadd false d (dun UNeg od) = diadd true d od.
Proof.
  intros Em Emo. unfold diadd. cbn [dun dr dc dmat dflag].
  destruct ((dr od <? 0) || (dc od <? 0)); [reflexivity|].
  destruct ((dr d =? dr od) && (dc d =? dc od)) eqn:E; [|reflexivity].
  apply andb_true_iff in E as [E1 E2]. apply Z.eqb_eq in E1, E2. do 2 f_equal.
  rewrite Em, Emo. unfold nrow, ncol. rewrite <- E1, <- E2. rewrite mmap_tab, madd_tab, msub_tab.
  apply mtab_ext. intros i j _ _. ring.
Qed.

Lemma sub_carrier_refines c o d od : wf c -> wf o -> R c d -> R o od ->
  forall r, (if negb ((dr od =? dr d) && (dc od =? dc d)) && ((dsize d >? 0) && (dsize od >? 0)) then Some (Er ValueE)
             else match diadd true d od with Some d' => Some (Ok (DDyad d')) | None => None end) = Some r ->
  Rres (sub c (PDyad o)) r.
Proof.
  intros W Wo Rc Ro r H. unfold sub. cbn [neg_operand].
  destruct (un_refines UNeg o od Wo Ro) as [o' [E1 [W1 R1]]]. cbn [un_apply] in E1. rewrite E1.
  apply (add_carrier_refines c o' d (dun UNeg od) W W1 Rc R1).
  rewrite (diadd_neg d od _ _ (R_dmat c d W Rc) (R_dmat o od Wo Ro)). exact H.
Qed.

(* ------------------------------------------------------------------ carrier (+|-) dense array *)
Lemma broadcast_tab x r cn B f : broadcast_to x r cn = Ok (B, f) ->
  exists g, B = mtab (Z.to_nat r) (Z.to_nat cn) g.
Proof.
  unfold broadcast_to. destruct ((r <? 0) || (cn <? 0)); [discriminate|].
  destruct x as [s fs|v fv|nr nc m fm|o]; try discriminate.
  - destruct ((zlen v =? cn) || (zlen v =? 1)); [|discriminate]. intros H. injection H as <- _. eexists. reflexivity.
  - destruct (((nr =? r) || (nr =? 1)) && ((nc =? cn) || (nc =? 1))); [|discriminate].
    intros H. injection H as <- _. eexists. reflexivity.
Qed.

Lemma broadcast_neg_vec v fv r cn :
  broadcast_to (PVec (map copp v) fv) r cn =
  match broadcast_to (PVec v fv) r cn with Ok (B, f) => Ok (mmap copp B, f) | Er e => Er e end.
Proof.
  unfold broadcast_to. destruct ((r <? 0) || (cn <? 0)); [reflexivity|].
  unfold zlen. rewrite map_length. destruct ((Z.of_nat (length v) =? cn) || (Z.of_nat (length v) =? 1)); [|reflexivity].
  rewrite mmap_tab. do 2 f_equal. apply mtab_ext. intros i j _ _. apply vget_map. reflexivity.
Qed.

Lemma broadcast_neg_mat nr nc m fm r cn :
  broadcast_to (PMat nr nc (mmap copp m) fm) r cn =
  match broadcast_to (PMat nr nc m fm) r cn with Ok (B, f) => Ok (mmap copp B, f) | Er e => Er e end.
Proof.
  unfold broadcast_to. destruct ((r <? 0) || (cn <? 0)); [reflexivity|].
  destruct (((nr =? r) || (nr =? 1)) && ((nc =? cn) || (nc =? 1))); [|reflexivity].
  rewrite mmap_tab. do 2 f_equal. apply mtab_ext. intros i j _ _. apply mget_mmap. reflexivity.
Qed.

Lemma dense_bin_refines k c d x : wf c -> R c d ->
  (match x with PVec _ _ | PMat _ _ _ _ => True | _ => False end) ->
  (match k with BAdd | BRadd | BSub | BRsub => True | _ => False end) ->
  forall B f, broadcast_to x (dr d) (dc d) = Ok (B, f) ->
  Rres (bin_apply k c x)
       (Ok (DVal (OMat (dr d) (dc d)
                       (match k with
                        | BSub => msub (nrow d) (ncol d) (dmat d) B
                        | BRsub => msub (nrow d) (ncol d) B (dmat d)
                        | _ => madd B (dmat d)
                        end) (f || dflag d)))).
Proof.
  intros W Rc Hx Hk B f EB. pose proof (R_dmat c d W Rc) as Em. destruct Rc as [Eu [Ev [Ed Fl]]].
  destruct (broadcast_tab _ _ _ _ _ EB) as [g ->]. fold (nrow d) (ncol d) in *.
  assert (Ff : fle (f || cplx c) (f || dflag d)) by (apply fle_or; [apply fle_refl | exact Fl]).
  destruct k; try contradiction; cbn [bin_apply].
  - (* add *) destruct x; try contradiction; cbn [add]; rewrite Eu, Ev, EB, Ed; cbn; auto.
  - (* radd *) destruct x; try contradiction; cbn [add]; rewrite Eu, Ev, EB, Ed; cbn; auto.
  - (* sub *)
    unfold sub. destruct x as [| v fv | nr nc m fm |]; try contradiction; cbn [neg_operand add]; rewrite Eu, Ev.
    + rewrite broadcast_neg_vec, EB, Ed. cbn. splits; auto. rewrite Em, mmap_tab, madd_tab, msub_tab.
      apply mtab_ext. intros i j _ _. ring.
    + rewrite broadcast_neg_mat, EB, Ed. cbn. splits; auto. rewrite Em, mmap_tab, madd_tab, msub_tab.
      apply mtab_ext. intros i j _ _. ring.
  - (* rsub *)
    destruct x; try contradiction; cbn [rsub]; rewrite Eu, Ev, EB, Ed; cbn; splits; auto;
      rewrite Em, mmap_tab, madd_tab, msub_tab; apply mtab_ext; intros i j _ _; ring.
Qed.

(* ------------------------------------------------------------------ products with dense vectors and matrices *)
Lemma isum_mul_l a n f : (a * isum n f)%C = isum n (fun l => a * f l)%C.
Proof. unfold isum. symmetry. apply csum_map_mul_l. Qed.

Lemma isum_mul_r a n f : (isum n f * a)%C = isum n (fun l => f l * a)%C.
Proof. unfold isum. symmetry. apply csum_map_mul_r. Qed.

Lemma fold_vadd_tab r (terms : list vect) g : Forall (fun t => length t = r) terms ->
  fold_left vadd terms (vtab r g) = vtab r (fun i => g i + csum (map (fun t => vget t i) terms))%C.
Proof.
  revert g. induction terms as [|t terms IH]; intros g F; cbn [fold_left].
  - apply vtab_ext. intros i _. cbn. ring.
  - apply Forall_cons_iff in F as [Lt F]. unfold vadd at 2. rewrite (vmap2_tab cadd _ _ r) by (auto using length_vtab).
    rewrite IH by exact F. apply vtab_ext. intros i Hi. rewrite vget_vtab by exact Hi. cbn [map csum]. ring.
Qed.

Lemma wfmb_wfm nr nc m : wfmb nr nc m = true -> wfm (Z.to_nat nr) (Z.to_nat nc) m /\ 0 <= nr /\ 0 <= nc.
Proof.
  unfold wfmb. intros H. apply andb_true_iff in H as [H H4]. apply andb_true_iff in H as [H H3].
  apply andb_true_iff in H as [H1 H2]. apply Z.leb_le in H1, H2. apply Z.eqb_eq in H3.
  unfold wfm. splits; auto.
  - apply zlen_nat. exact H3.
  - rewrite forallb_forall in H4. apply Forall_forall. intros row Hin. apply zlen_nat. apply Z.eqb_eq. apply H4. exact Hin.
Qed.

Lemma in_vlens n l v : vlens n l -> In v l -> length (vd v) = Z.to_nat n.
Proof. intros F Hin. unfold vlens in F. rewrite Forall_forall in F. apply zlen_nat. apply F. exact Hin. Qed.

Lemma matmul_mat_refines c d nr nc m f : wf c -> R c d -> wfmb nr nc m = true -> dc d = nr ->
  Rres (matmul c (PMat nr nc m f))
       (Ok (DDyad (mkdm (dr d) nc (mmul (nrow d) (Z.to_nat nr) (Z.to_nat nc) (dmat d) m) (dflag d || f)))).
Proof.
  intros W Rc Hm Edc. pose proof (R_dmat c d W Rc) as Em. destruct Rc as [Eu [Ev [_ Fl]]].
  destruct (wfmb_wfm _ _ _ Hm) as [Wm [Hnr Hnc]].
  pose proof (wf_len _ W) as L. pose proof (wf_u _ W) as Fu. pose proof (wf_v _ W) as Fv.
  assert (FB := wf_flag_bound c W).
  cbn [matmul].
  rewrite (map_res_ok _ (fun v => mkvec (vecmat (vd v) m (Z.to_nat nc)) (vf v || f))).
  2:{ intros v Hin. unfold vlens in Fv. rewrite Forall_forall in Fv. rewrite (Fv v Hin), Ev, Edc, Z.eqb_refl. reflexivity. }
  destruct (mk_R (us c) (map (fun v => mkvec (vecmat (vd v) m (Z.to_nat nc)) (vf v || f)) (vs c)) (ulen c) nc
                 (mkdm (dr d) nc (mmul (nrow d) (Z.to_nat nr) (Z.to_nat nc) (dmat d) m) (dflag d || f))
                 (fun i j => isum (Z.to_nat nr) (fun l => psum (us c) (vs c) i l * mget m l j)%C))
    as [c' [E [W' R']]]; cbn [dr dc dmat dflag]; auto.
  - rewrite map_length. exact L.
  - apply vlens_mkvec_all. intros v. unfold zlen. rewrite length_vecmat. lia.
  - unfold nrow, ncol. cbn [dr dc]. rewrite Em. unfold ncol. rewrite Edc.
    rewrite <- (mtab_id _ _ m Wm) at 1. apply mmul_tab.
  - intros i j _ Hj. unfold ncol in Hj. cbn [dc] in Hj. unfold psum at 1. rewrite psumf_map_r.
    rewrite <- (psumf_ext (fun u v => isum (Z.to_nat nr) (fun l => ent i l u v * mget m l j)%C)).
    + rewrite psumf_isum. apply isum_ext. intros l _. apply psumf_mul_r.
    + intros u v _ Hv. unfold ent. cbn [vd]. unfold vecmat. rewrite vget_vtab by exact Hj.
      rewrite (in_vlens _ _ _ Fv Hv), Ev, Edc. rewrite isum_mul_l. apply isum_ext. intros l _. ring.
  - intros H. apply orb_true_iff in H as [H|H].
    + rewrite Fl; [reflexivity | apply FB; rewrite H; reflexivity].
    + apply existsb_vf_or in H as [H|H]; [rewrite Fl; [reflexivity | apply FB; rewrite H; apply orb_true_r] | rewrite H; apply orb_true_r].
  - rewrite E. cbn. split; assumption.
Qed.

Lemma rmatmul_mat_refines c d nr nc m f : wf c -> R c d -> wfmb nr nc m = true -> dr d = nc ->
  Rres (rmatmul c (PMat nr nc m f))
       (Ok (DDyad (mkdm nr (dc d) (mmul (Z.to_nat nr) (Z.to_nat nc) (ncol d) m (dmat d)) (dflag d || f)))).
Proof.
  intros W Rc Hm Edr. pose proof (R_dmat c d W Rc) as Em. destruct Rc as [Eu [Ev [_ Fl]]].
  destruct (wfmb_wfm _ _ _ Hm) as [Wm [Hnr Hnc]].
  pose proof (wf_len _ W) as L. pose proof (wf_u _ W) as Fu. pose proof (wf_v _ W) as Fv.
  assert (FB := wf_flag_bound c W).
  cbn [rmatmul].
  rewrite (map_res_ok _ (fun u => mkvec (matvec m (vd u)) (vf u || f))).
  2:{ intros u Hin. unfold vlens in Fu. rewrite Forall_forall in Fu. rewrite (Fu u Hin), Eu, Edr, Z.eqb_refl. reflexivity. }
  destruct (mk_R (map (fun u => mkvec (matvec m (vd u)) (vf u || f)) (us c)) (vs c) nr (vlen c)
                 (mkdm nr (dc d) (mmul (Z.to_nat nr) (Z.to_nat nc) (ncol d) m (dmat d)) (dflag d || f))
                 (fun i j => isum (Z.to_nat nc) (fun l => mget m i l * psum (us c) (vs c) l j)%C))
    as [c' [E [W' R']]]; cbn [dr dc dmat dflag]; auto.
  - rewrite map_length. exact L.
  - apply vlens_mkvec_all. intros v. unfold zlen. rewrite length_matvec. destruct Wm as [Lm _]. lia.
  - unfold nrow, ncol. cbn [dr dc]. rewrite Em. unfold nrow. rewrite Edr.
    rewrite <- (mtab_id _ _ m Wm) at 1. apply mmul_tab.
  - intros i j Hi _. unfold nrow in Hi. cbn [dr] in Hi. unfold psum at 1. rewrite psumf_map_l.
    rewrite <- (psumf_ext (fun u v => isum (Z.to_nat nc) (fun l => mget m i l * ent l j u v)%C)).
    + rewrite psumf_isum. apply isum_ext. intros l _. apply psumf_mul_l.
    + intros u v Hu _. unfold ent. cbn [vd].
      replace (matvec m (vd u)) with (matvec (mtab (Z.to_nat nr) (Z.to_nat nc) (mget m)) (vd u))
        by (rewrite (mtab_id _ _ m Wm); reflexivity).
      rewrite (matvec_tab _ (Z.to_nat nc)) by (rewrite (in_vlens _ _ _ Fu Hu), Eu, Edr; reflexivity).
      rewrite vget_vtab by exact Hi. rewrite isum_mul_r. apply isum_ext. intros l _. ring.
  - intros H. apply orb_true_iff in H as [H|H].
    + apply existsb_vf_or in H as [H|H]; [rewrite Fl; [reflexivity | apply FB; rewrite H; reflexivity] | rewrite H; apply orb_true_r].
    + rewrite Fl; [reflexivity | apply FB; rewrite H; apply orb_true_r].
  - rewrite E. cbn. split; assumption.
Qed.

Lemma matmul_vec_refines c d x f : wf c -> R c d -> dc d = zlen x ->
  Rres (matmul c (PVec x f)) (Ok (DVal (OVec (matvec (dmat d) x) (dflag d || f)))).
Proof.
  intros W Rc Edc. pose proof (R_dmat c d W Rc) as Em. destruct Rc as [Eu [Ev [_ Fl]]].
  pose proof (wf_u _ W) as Fu. pose proof (wf_v _ W) as Fv.
  assert (Lx : length x = ncol d) by (unfold ncol; rewrite Edc; unfold zlen; rewrite Nat2Z.id; reflexivity).
  cbn [matmul]. unfold dot_vec.
  rewrite (map_res_ok _ (fun p => map (fun a => cmul a (vdot (vd (snd p)) x)) (vd (fst p)))).
  2:{ intros [u v] Hin. cbn [fst snd]. apply in_combine_r in Hin. unfold vlens in Fv. rewrite Forall_forall in Fv.
      rewrite (Fv v Hin), Ev, Edc, Z.eqb_refl. reflexivity. }
  cbn. split; [|apply fle_or; [exact Fl | apply fle_refl]].
  rewrite vzeros_tab. rewrite fold_vadd_tab.
  2:{ apply Forall_map. apply Forall_forall. intros [u v] Hin. cbn [fst snd]. rewrite map_length.
      apply in_combine_l in Hin. apply (in_vlens _ _ _ Fu Hin). }
  rewrite Em. rewrite (matvec_tab _ _ _ _ Lx). unfold nrow. rewrite <- Eu.
  apply vtab_ext. intros i _. rewrite map_map.
  change (csum (map (fun p => vget (map (fun a => cmul a (vdot (vd (snd p)) x)) (vd (fst p))) i) (combine (us c) (vs c))))
    with (psumf (fun u v => vget (map (fun a => cmul a (vdot (vd v) x)) (vd u)) i) (us c) (vs c)).
  rewrite (psumf_ext _ (fun u v => isum (ncol d) (fun l => ent i l u v * vget x l)%C)).
  - rewrite psumf_isum. rewrite cadd_0_l. apply isum_ext. intros l _. apply psumf_mul_r.
  - intros u v _ Hv. rewrite vget_map by (apply cmul_0_l). unfold vdot. rewrite (in_vlens _ _ _ Fv Hv), Ev.
    fold (ncol d). rewrite isum_mul_l. apply isum_ext. intros l _. unfold ent. ring.
Qed.

Lemma rmatmul_vec_refines c d x f : wf c -> R c d -> dr d = zlen x ->
  Rres (rmatmul c (PVec x f)) (Ok (DVal (OVec (vecmat x (dmat d) (ncol d)) (dflag d || f)))).
Proof.
  intros W Rc Edr. pose proof (R_dmat c d W Rc) as Em. destruct Rc as [Eu [Ev [_ Fl]]].
  pose proof (wf_u _ W) as Fu. pose proof (wf_v _ W) as Fv.
  assert (Lx : length x = nrow d) by (unfold nrow; rewrite Edr; unfold zlen; rewrite Nat2Z.id; reflexivity).
  cbn [rmatmul]. unfold rdot_vec.
  rewrite (map_res_ok _ (fun p => map (fun a => cmul a (vdot x (vd (fst p)))) (vd (snd p)))).
  2:{ intros [u v] Hin. cbn [fst snd]. apply in_combine_l in Hin. unfold vlens in Fu. rewrite Forall_forall in Fu.
      rewrite (Fu u Hin), Eu, Edr, Z.eqb_refl. reflexivity. }
  cbn. split; [|apply fle_or; [exact Fl | apply fle_refl]].
  rewrite vzeros_tab. rewrite fold_vadd_tab.
  2:{ apply Forall_map. apply Forall_forall. intros [u v] Hin. cbn [fst snd]. rewrite map_length.
      apply in_combine_r in Hin. apply (in_vlens _ _ _ Fv Hin). }
  unfold vecmat. unfold ncol. rewrite <- Ev.
  apply vtab_ext. intros j Hj. rewrite map_map.
  change (csum (map (fun p => vget (map (fun a => cmul a (vdot x (vd (fst p)))) (vd (snd p))) j) (combine (us c) (vs c))))
    with (psumf (fun u v => vget (map (fun a => cmul a (vdot x (vd u))) (vd v)) j) (us c) (vs c)).
  rewrite (psumf_ext _ (fun u v => isum (length x) (fun l => vget x l * ent l j u v)%C)).
  - rewrite psumf_isum. rewrite cadd_0_l. apply isum_ext. intros l Hl. rewrite psumf_mul_l.
    rewrite Em. rewrite mget_mtab; [reflexivity | lia | unfold ncol; rewrite <- Ev; exact Hj].
  - intros u v _ _. rewrite vget_map by (apply cmul_0_l). unfold vdot.
    rewrite isum_mul_l. apply isum_ext. intros l _. unfold ent. ring.
Qed.

(* ------------------------------------------------------------------ all binary operators *)
Lemma bin_refines k c d x dx r : wf c -> R c d -> Rarg x dx -> dbin k d dx = Some r -> Rres (bin_apply k c x) r.
Proof.
  intros W Rc Ra. unfold dbin. destruct (darg_wf dx) eqn:Ewf; cbn [negb]; [|discriminate].
  destruct dx as [s' f'|v' f'|nr' nc' m' f'|od]; destruct x as [s f|v f|nr nc m f|o]; cbn [Rarg] in Ra; try contradiction.
  - (* scalar *)
    destruct Ra as [<- <-].
    destruct k; try discriminate; cbn [bin_apply add sub rsub neg_operand]; rewrite ?cis0_opp;
      (destruct (cis0 s); intros H; injection H as <-; [|reflexivity]).
    + destruct (un_refines UCopy c d W Rc) as [c' [E [W' R']]]. cbn [un_apply dun] in E, R'. rewrite E. cbn. auto.
    + destruct (un_refines UCopy c d W Rc) as [c' [E [W' R']]]. cbn [un_apply dun] in E, R'. rewrite E. cbn. auto.
    + destruct (un_refines UCopy c d W Rc) as [c' [E [W' R']]]. cbn [un_apply dun] in E, R'. rewrite E. cbn. auto.
    + destruct (un_refines UCopy c d W Rc) as [c' [E [W' R']]]. cbn [un_apply dun] in E, R'. rewrite E.
      destruct (un_refines UNeg c' d W' R') as [c'' [E' [W'' R'']]]. cbn [un_apply] in E'. rewrite E'. cbn. auto.
  - (* vector *)
    destruct Ra as [<- <-].
    destruct k; cbn [operand_of].
    1-4: destruct (broadcast_to (PVec v f) (dr d) (dc d)) as [[B fb]|e] eqn:EB; [|discriminate];
         intros H; injection H as <-;
         match goal with |- Rres (bin_apply ?k _ _) _ => apply (dense_bin_refines k c d (PVec v f) W Rc I I B fb EB) end.
    + destruct (dc d =? zlen v) eqn:E; [|discriminate]. apply Z.eqb_eq in E. intros H. injection H as <-.
      apply matmul_vec_refines; assumption.
    + destruct (dr d =? zlen v) eqn:E; [|discriminate]. apply Z.eqb_eq in E. intros H. injection H as <-.
      apply rmatmul_vec_refines; assumption.
    + destruct (dc d =? zlen v) eqn:E; [|discriminate]. apply Z.eqb_eq in E. intros H. injection H as <-.
      apply matmul_vec_refines; assumption.
  - (* matrix *)
    destruct Ra as [<- [<- [<- <-]]]. cbn [darg_wf] in Ewf.
    destruct k; cbn [operand_of].
    1-4: destruct (broadcast_to (PMat nr nc m f) (dr d) (dc d)) as [[B fb]|e] eqn:EB; [|discriminate];
         intros H; injection H as <-;
         match goal with |- Rres (bin_apply ?k _ _) _ => apply (dense_bin_refines k c d (PMat nr nc m f) W Rc I I B fb EB) end.
    + destruct (dc d =? nr) eqn:E; [|discriminate]. apply Z.eqb_eq in E. intros H. injection H as <-.
      apply matmul_mat_refines; assumption.
    + destruct (dr d =? nc) eqn:E; [|discriminate]. apply Z.eqb_eq in E. intros H. injection H as <-.
      apply rmatmul_mat_refines; assumption.
    + destruct (dc d =? nr) eqn:E; [|discriminate]. apply Z.eqb_eq in E. intros H. injection H as <-.
      apply matmul_mat_refines; assumption.
  - (* carrier *)
    destruct Ra as [Wo Ro].
    destruct k; try discriminate; cbn [bin_apply]; intros H.
    + apply (add_carrier_refines c o d od W Wo Rc Ro r H).
    + apply (add_carrier_refines c o d od W Wo Rc Ro r H).
    + apply (sub_carrier_refines c o d od W Wo Rc Ro r H).
Qed.

(* ------------------------------------------------------------------ add_dyad / constructor against the dense loop *)
Lemma wf_snoc c u v : wf c -> zlen (vd u) = ulen c -> zlen (vd v) = vlen c ->
  wf (mkcar (us c ++ [u]) (vs c ++ [v]) (ulen c) (vlen c) (cplx c || vf u || vf v)).
Proof.
  intros W Lu Lv. constructor; cbn [us vs ulen vlen cplx].
  - rewrite !app_length. cbn. rewrite (wf_len _ W). reflexivity.
  - apply Forall_app. split; [apply (wf_u _ W)|]. constructor; [exact Lu | constructor].
  - apply Forall_app. split; [apply (wf_v _ W)|]. constructor; [exact Lv | constructor].
  - intros w [Hin|Hin] Hf; apply in_app_or in Hin as [Hin|Hin].
    + rewrite (wf_f _ W w (or_introl Hin) Hf). reflexivity.
    + destruct Hin as [<-|[]]. rewrite Hf. rewrite orb_true_r. reflexivity.
    + rewrite (wf_f _ W w (or_intror Hin) Hf). reflexivity.
    + destruct Hin as [<-|[]]. rewrite Hf. apply orb_true_r.
Qed.

Lemma wf_setdims c a b l : wf c ->
  wf (mkcar (us c) (vs c) (eff_u c ((a, b) :: l)) (eff_v c ((a, b) :: l)) (cplx c)).
Proof.
  intros W. constructor; cbn [us vs ulen vlen cplx].
  - apply (wf_len _ W).
  - unfold eff_u. destruct (ulen c <? 0) eqn:E; [|apply (wf_u _ W)].
    apply Z.ltb_lt in E. destruct (wf_unknown_nodyads c W (or_introl E)) as [-> _]. constructor.
  - unfold eff_v. destruct (vlen c <? 0) eqn:E; [|apply (wf_v _ W)].
    apply Z.ltb_lt in E. destruct (wf_unknown_nodyads c W (or_intror E)) as [_ ->]. constructor.
  - apply (wf_f _ W).
Qed.

Lemma add_loop_sim l fac : forall c d d', wf c -> R c d -> dadd_loop d l fac = Some d' ->
  exists c', add_loop c l fac = (c', None) /\ wf c' /\ R c' d'.
Proof.
  induction l as [|[a b] l IH]; intros c d d' W Rc H.
  - cbn in H. injection H as <-. exists c. cbn. auto.
  - rewrite add_loop_cons. cbn zeta. rewrite (setdims_eq c a b l).
    cbn [dadd_loop] in H. cbn zeta in H.
    destruct Rc as [Eu [Ev [Ed Fl]]].
    set (r := eff_u c ((a, b) :: l)) in *. set (cn := eff_v c ((a, b) :: l)) in *.
    assert (Er : (if dr d <? 0 then zlen (vd (in_vec a)) else dr d) = r) by (unfold r, eff_u; cbn [fst]; rewrite Eu; reflexivity).
    assert (Ec : (if dc d <? 0 then zlen (vd (in_vec b)) else dc d) = cn) by (unfold cn, eff_v; cbn [snd]; rewrite Ev; reflexivity).
    rewrite Er, Ec in H.
    set (c2 := mkcar (us c) (vs c) r cn (cplx c)) in *.
    assert (W2 : wf c2) by (apply wf_setdims; exact W).
    destruct ((zlen (vd (in_vec a)) =? r) && (zlen (vd (in_vec b)) =? cn)) eqn:Echk; [|discriminate].
    apply andb_true_iff in Echk as [E1 E2]. cbn [ulen vlen c2]. rewrite E1, E2. cbn [negb].
    apply Z.eqb_eq in E1, E2.
    set (base := if (dr d <? 0) || (dc d <? 0) then mzeros (Z.to_nat r) (Z.to_nat cn) else dmat d) in *.
    assert (Eb : todense c2 = base).
    { unfold base. destruct ((dr d <? 0) || (dc d <? 0)) eqn:En.
      - assert (N : ulen c < 0 \/ vlen c < 0).
        { apply orb_true_iff in En as [N|N]; apply Z.ltb_lt in N; [left | right]; congruence. }
        destruct (wf_unknown_nodyads c W N) as [Eus Evs]. unfold todense, c2. cbn [us vs ulen vlen]. rewrite Eus. reflexivity.
      - apply orb_false_iff in En as [N1 N2].
        assert (r = ulen c) as -> by (unfold r, eff_u; rewrite Eu, N1; reflexivity).
        assert (cn = vlen c) as -> by (unfold cn, eff_v; rewrite Ev, N2; reflexivity).
        rewrite <- Ed. reflexivity. }
    assert (Tb : base = mtab (Z.to_nat r) (Z.to_nat cn) (psum (us c) (vs c))).
    { rewrite <- Eb. apply (todense_tab c2 W2). }
    assert (To : outer (vd (vscaleZ fac (in_vec a))) (vd (in_vec b)) =
                 mtab (Z.to_nat r) (Z.to_nat cn) (fun i j => ent i j (vscaleZ fac (in_vec a)) (in_vec b))).
    { rewrite outer_tab. rewrite length_vscaleZ. rewrite (zlen_nat _ _ E1), (zlen_nat _ _ E2). reflexivity. }
    destruct (vis0 (vd (in_vec a)) || vis0 (vd (in_vec b))) eqn:Ez.
    + refine (IH c2 _ d' W2 _ H). unfold R. cbn [ulen vlen cplx c2 dr dc dmat dflag]. splits; auto.
      * rewrite Eb, To, Tb, madd_tab. apply mtab_ext. intros i j _ _. unfold ent. rewrite vget_vscaleZ.
        apply orb_true_iff in Ez as [Ez|Ez]; rewrite (vis0_get _ _ Ez); ring.
      * intros Hc. rewrite (Fl Hc). reflexivity.
    + assert (Lu : zlen (vd (vscaleZ fac (in_vec a))) = ulen c2) by (unfold zlen; rewrite length_vscaleZ; exact E1).
      pose proof (wf_snoc c2 (vscaleZ fac (in_vec a)) (in_vec b) W2 Lu E2) as W3.
      cbn [us vs ulen vlen cplx c2] in W3. rewrite vf_vscaleZ in W3.
      refine (IH _ _ d' W3 _ H). apply (R_intro _ _ (fun i j => (psum (us c) (vs c) i j + ent i j (vscaleZ fac (in_vec a)) (in_vec b))%C));
        cbn [us vs ulen vlen cplx dr dc dmat dflag]; auto.
      * unfold nrow, ncol. cbn [dr dc]. rewrite To, Tb, madd_tab. reflexivity.
      * intros i j _ _. apply psum_snoc. apply (wf_len _ W).
      * intros Hc. apply orb_true_iff in Hc as [Hc|Hc]; [|rewrite Hc; apply orb_true_r].
        apply orb_true_iff in Hc as [Hc|Hc]; [rewrite (Fl Hc); reflexivity | rewrite Hc, orb_true_r; reflexivity].
Qed.

Lemma add_dyad_refines c d u v fac d' : wf c -> R c d -> dadd_dyad d u v fac = Some d' ->
  exists c', add_dyad c u v fac = (c', None) /\ wf c' /\ R c' d'.
Proof.
  intros W Rc. unfold dadd_dyad, add_dyad.
  destruct (Nat.eqb (length (parse_to_list u)) (length match v with UNone => parse_to_list u | _ => parse_to_list v end));
    [|discriminate].
  cbn [negb]. apply add_loop_sim; assumption.
Qed.

Lemma R_dzero r cn : R (empty r cn) (dzero r cn).
Proof. unfold R, empty, dzero, todense. cbn. splits; auto. Qed.

Lemma new_refines u v r cn d' : dadd_dyad (dzero r cn) u v None = Some d' ->
  exists c', new u v r cn = Ok c' /\ wf c' /\ R c' d'.
Proof.
  intros H. destruct (add_dyad_refines (empty r cn) (dzero r cn) u v None d' (wf_empty r cn) (R_dzero r cn) H) as [c' [E [W Rc]]].
  exists c'. unfold new. rewrite E. cbn. auto.
Qed.

(* ------------------------------------------------------------------ entries of the dense image, also outside the matrix *)
Lemma mget_mtab_over r c f i j : ~ ((i < r)%nat /\ (j < c)%nat) -> mget (mtab r c f) i j = c0.
Proof.
  intros H. unfold mget. destruct (Nat.lt_ge_cases i r) as [Hi|Hi].
  - rewrite nth_mtab by exact Hi. apply vget_over. rewrite length_vtab. lia.
  - rewrite nth_overflow by (rewrite length_mtab; lia). apply vget_over. cbn. lia.
Qed.

Lemma psum_over c i j : wf c -> ~ ((i < Z.to_nat (ulen c))%nat /\ (j < Z.to_nat (vlen c))%nat) ->
  psum (us c) (vs c) i j = c0.
Proof.
  intros W H. unfold psum. rewrite (psumf_ext _ (fun _ _ => c0)).
  - unfold psumf. apply csum_map_0.
  - intros u v Hu Hv. unfold ent.
    pose proof (in_vlens _ _ _ (wf_u _ W) Hu) as Lu. pose proof (in_vlens _ _ _ (wf_v _ W) Hv) as Lv.
    destruct (Nat.lt_ge_cases i (Z.to_nat (ulen c))) as [Hi|Hi].
    + rewrite (vget_over (vd v) j) by lia. ring.
    + rewrite (vget_over (vd u) i) by lia. ring.
Qed.

Lemma mget_dense c i j : wf c ->
  mget (mtab (Z.to_nat (ulen c)) (Z.to_nat (vlen c)) (psum (us c) (vs c))) i j = psum (us c) (vs c) i j.
Proof.
  intros W. destruct (Nat.lt_ge_cases i (Z.to_nat (ulen c))) as [Hi|Hi]; destruct (Nat.lt_ge_cases j (Z.to_nat (vlen c))) as [Hj|Hj].
  - apply mget_mtab; assumption.
  - rewrite mget_mtab_over by lia. rewrite psum_over by (auto; lia). reflexivity.
  - rewrite mget_mtab_over by lia. rewrite psum_over by (auto; lia). reflexivity.
  - rewrite mget_mtab_over by lia. rewrite psum_over by (auto; lia). reflexivity.
Qed.

Lemma R_mget c d i j : wf c -> R c d -> mget (dmat d) i j = psum (us c) (vs c) i j.
Proof. intros W [Eu [Ev [Ed _]]]. rewrite <- Ed, todense_tab by exact W. apply mget_dense. exact W. Qed.

Lemma fold_left_map_fn {A B S} (op : S -> B -> S) (F : A -> B) l a :
  fold_left (fun acc p => op acc (F p)) l a = fold_left op (map F l) a.
Proof. revert a. induction l as [|x l IH]; intros a; cbn; [reflexivity | apply IH]. Qed.

(* ------------------------------------------------------------------ diagonal(k) *)
Lemma diag_refines c d k : wf c -> R c d -> out_le (diagonal c k) (ddiag d k).
Proof.
  intros W Rc. pose proof Rc as [Eu [Ev [_ Fl]]]. unfold diagonal, ddiag. rewrite <- Eu, <- Ev.
  set (ustart := Z.max 0 (- k)). set (vstart := Z.max 0 k).
  destruct ((ulen c =? 0) || (vlen c =? 0)) eqn:E0.
  - cbn. split; [|exact Fl].
    assert (Hn : Z.to_nat (Z.min (Z.max 0 (ulen c) - ustart) (Z.max 0 (vlen c) - vstart)) = 0%nat).
    { apply orb_true_iff in E0 as [E|E]; apply Z.eqb_eq in E; lia. }
    rewrite Hn. reflexivity.
  - apply orb_false_iff in E0 as [E1 E2]. apply Z.eqb_neq in E1, E2.
    destruct (Z.min (ulen c - ustart) (vlen c - vstart) <? 0) eqn:En.
    + apply Z.ltb_lt in En. cbn. split; [|exact Fl].
      assert (Hn : Z.to_nat (Z.min (Z.max 0 (ulen c) - ustart) (Z.max 0 (vlen c) - vstart)) = 0%nat) by lia.
      rewrite Hn. reflexivity.
    + apply Z.ltb_ge in En. cbn. split; [|exact Fl].
      assert (Hn : Z.min (Z.max 0 (ulen c) - ustart) (Z.max 0 (vlen c) - vstart) = Z.min (ulen c - ustart) (vlen c - vstart)) by lia.
      rewrite Hn. set (n := Z.min (ulen c - ustart) (vlen c - vstart)) in *.
      rewrite (fold_left_map_fn vadd (fun p => vmul (vslice (vd (fst p)) ustart n) (vslice (vd (snd p)) vstart n))).
      rewrite vzeros_tab. rewrite fold_vadd_tab.
      2:{ apply Forall_map. apply Forall_forall. intros p _. unfold vmul, vslice. rewrite length_vmap2, !length_vtab. lia. }
      apply vtab_ext. intros t Ht. rewrite (R_mget c d _ _ W Rc). rewrite map_map. rewrite cadd_0_l.
      unfold psum, psumf. apply csum_map_ext. intros [u v] _. cbn [fst snd]. unfold vmul, vslice.
      rewrite vget_vmap2 by (rewrite length_vtab; exact Ht). rewrite !vget_vtab by exact Ht. reflexivity.
Qed.

(* ------------------------------------------------------------------ __getitem__ *)
Lemma length_vtake u ps : length (vtake u ps) = length ps.
Proof. apply map_length. Qed.

Lemma nth_map_lt {A B} (F : A -> B) l t dA dB : (t < length l)%nat -> nth t (map F l) dB = F (nth t l dA).
Proof. intros H. rewrite nth_indep with (d' := F dA) by (rewrite map_length; exact H). apply map_nth. Qed.

Lemma vget_vtake u ps t : (t < length ps)%nat -> vget (vtake u ps) t = vget u (Z.to_nat (nth t ps 0)).
Proof. intros H. unfold vtake, vget at 1. apply (nth_map_lt (fun k => vget u (Z.to_nat k)) ps t 0 c0 H). Qed.

Lemma combine_map {A B A' B'} (f : A -> A') (g : B -> B') la lb :
  combine (map f la) (map g lb) = map (fun p => (f (fst p), g (snd p))) (combine la lb).
Proof. revert lb. induction la as [|a la IH]; intros [|b lb]; cbn; try reflexivity. rewrite IH. reflexivity. Qed.

Lemma map_as_vtab {A} (F : A -> C) l d : map F l = vtab (length l) (fun t => F (nth t l d)).
Proof.
  apply list_ext_nth; [rewrite map_length, length_vtab; reflexivity|].
  intros t Ht. rewrite map_length in Ht. rewrite vget_vtab by exact Ht. unfold vget. apply nth_map_lt. exact Ht.
Qed.

Lemma fold_or_flags {A} (F G : A -> bool) l a :
  fold_left (fun acc p => acc || F p || G p) l a = a || existsb (fun p => F p || G p) l.
Proof.
  revert a. induction l as [|x l IH]; intros a; cbn; [rewrite orb_false_r; reflexivity|].
  rewrite IH. rewrite <- !orb_assoc. reflexivity.
Qed.

Lemma existsb_map_fn {A B} (F : B -> bool) (g : A -> B) l : existsb F (map g l) = existsb (fun x => F (g x)) l.
Proof. induction l as [|x l IH]; cbn; [reflexivity | rewrite IH; reflexivity]. Qed.

Definition subu (pu : list Z) (u : vec) : vec := mkvec (vtake (vd u) pu) (vf u).

Lemma get_flag c pu pv : wf c ->
  fle (fold_left (fun acc p => acc || vf (fst p) || vf (snd p)) (combine (map (subu pu) (us c)) (map (subu pv) (vs c))) (cplx c))
      (cplx c).
Proof.
  intros W H.
  rewrite fold_or_flags in H. apply orb_true_iff in H as [H|H]; [exact H|].
  rewrite combine_map, existsb_map_fn in H. cbn [fst snd subu vf] in H.
  apply existsb_exists in H as [[u v] [Hin Hf]]. cbn [fst snd] in Hf.
  apply orb_true_iff in Hf as [Hf|Hf].
  - apply (wf_f _ W u); [left; eapply in_combine_l; exact Hin | exact Hf].
  - apply (wf_f _ W v); [right; eapply in_combine_r; exact Hin | exact Hf].
Qed.

Lemma slice_sum c pu pv si sj n : wf c ->
  (forall u v, length (slice_prod si sj (vtake u pu) (vtake v pv)) = n) ->
  fold_left (fun acc p => vadd acc (slice_prod si sj (vd (fst p)) (vd (snd p))))
            (combine (map (subu pu) (us c)) (map (subu pv) (vs c))) (vzeros n)
  = vtab n (fun t => psumf (fun u v => vget (slice_prod si sj (vtake (vd u) pu) (vtake (vd v) pv)) t) (us c) (vs c)).
Proof.
  intros W Hl. rewrite (fold_left_map_fn vadd (fun p => slice_prod si sj (vd (fst p)) (vd (snd p)))).
  rewrite combine_map, map_map. cbn [fst snd subu vd]. rewrite vzeros_tab, fold_vadd_tab.
  2:{ apply Forall_map. apply Forall_forall. intros p _. apply Hl. }
  apply vtab_ext. intros t _. rewrite map_map. rewrite cadd_0_l. reflexivity.
Qed.

Lemma map_map_mtab {A B} (F : A -> B -> C) la lb da db :
  map (fun p => map (fun q => F p q) lb) la = mtab (length la) (length lb) (fun i j => F (nth i la da) (nth j lb db)).
Proof.
  apply mat_ext_nth; [rewrite map_length, length_mtab; reflexivity|].
  intros i Hi. rewrite map_length in Hi. rewrite nth_mtab by exact Hi.
  rewrite (nth_map_lt (fun p => map (fun q => F p q) lb) la i da []) by exact Hi.
  apply (map_as_vtab (fun q => F (nth i la da) q) lb db).
Qed.

Lemma get_row c d p pv sj : wf c -> R c d ->
  fold_left (fun acc q => vadd acc (slice_prod true sj (vd (fst q)) (vd (snd q))))
            (combine (map (subu [p]) (us c)) (map (subu pv) (vs c))) (vzeros (length pv))
  = map (fun q => mget (dmat d) (Z.to_nat p) (Z.to_nat q)) pv.
Proof.
  intros W Rc. rewrite (slice_sum c [p] pv true sj (length pv) W).
  2:{ intros u v. cbn [slice_prod]. rewrite map_length. apply length_vtake. }
  rewrite (map_as_vtab _ pv 0). apply vtab_ext. intros t Ht. rewrite (R_mget c d _ _ W Rc).
  unfold psum. apply psumf_ext. intros u v _ _. cbn [slice_prod]. rewrite vget_map by (apply cmul_0_r).
  rewrite !vget_vtake by (cbn; lia). reflexivity.
Qed.

Lemma get_col c d pu q : wf c -> R c d ->
  fold_left (fun acc p => vadd acc (slice_prod false true (vd (fst p)) (vd (snd p))))
            (combine (map (subu pu) (us c)) (map (subu [q]) (vs c))) (vzeros (length pu))
  = map (fun p => mget (dmat d) (Z.to_nat p) (Z.to_nat q)) pu.
Proof.
  intros W Rc. rewrite (slice_sum c pu [q] false true (length pu) W).
  2:{ intros u v. cbn [slice_prod]. rewrite map_length. apply length_vtake. }
  rewrite (map_as_vtab _ pu 0). apply vtab_ext. intros t Ht. rewrite (R_mget c d _ _ W Rc).
  unfold psum. apply psumf_ext. intros u v _ _. cbn [slice_prod]. rewrite vget_map by (apply cmul_0_l).
  rewrite !vget_vtake by (cbn; lia). reflexivity.
Qed.

Lemma get_pairs c d pu pv : wf c -> R c d -> length pu = length pv ->
  fold_left (fun acc p => vadd acc (slice_prod false false (vd (fst p)) (vd (snd p))))
            (combine (map (subu pu) (us c)) (map (subu pv) (vs c))) (vzeros (length pu))
  = map (fun pq => mget (dmat d) (Z.to_nat (fst pq)) (Z.to_nat (snd pq))) (combine pu pv).
Proof.
  intros W Rc L. rewrite (slice_sum c pu pv false false (length pu) W).
  2:{ intros u v. cbn [slice_prod]. unfold vmul. rewrite length_vmap2, !length_vtake. lia. }
  rewrite (map_as_vtab _ (combine pu pv) (0, 0)). rewrite combine_length, <- L, Nat.min_id.
  apply vtab_ext. intros t Ht. rewrite combine_nth by exact L. cbn [fst snd]. rewrite (R_mget c d _ _ W Rc).
  unfold psum. apply psumf_ext. intros u v _ _. cbn [slice_prod]. unfold vmul.
  rewrite vget_vmap2 by (rewrite length_vtake; lia). rewrite !vget_vtake by lia. reflexivity.
Qed.

Lemma get_outer c d pu pv : wf c -> R c d ->
  Rres (lift (mk (map (subu pu) (us c)) (map (subu pv) (vs c)) (zlen pu) (zlen pv)))
       (Ok (DDyad (mkdm (zlen pu) (zlen pv)
                        (map (fun p => map (fun q => mget (dmat d) (Z.to_nat p) (Z.to_nat q)) pv) pu) (dflag d)))).
Proof.
  intros W Rc. pose proof Rc as [Eu [Ev [_ Fl]]].
  destruct (mk_R (map (subu pu) (us c)) (map (subu pv) (vs c)) (zlen pu) (zlen pv)
                 (mkdm (zlen pu) (zlen pv) (map (fun p => map (fun q => mget (dmat d) (Z.to_nat p) (Z.to_nat q)) pv) pu) (dflag d))
                 (fun i j => mget (dmat d) (Z.to_nat (nth i pu 0)) (Z.to_nat (nth j pv 0))))
    as [c' [E [W' R']]]; cbn [dr dc dmat dflag]; auto.
  - rewrite !map_length. apply (wf_len _ W).
  - unfold subu. apply vlens_mkvec_all. intros v. unfold zlen. rewrite length_vtake. reflexivity.
  - unfold subu. apply vlens_mkvec_all. intros v. unfold zlen. rewrite length_vtake. reflexivity.
  - unfold nrow, ncol, zlen. cbn [dr dc]. rewrite !Nat2Z.id. apply (map_map_mtab (fun p q => mget (dmat d) (Z.to_nat p) (Z.to_nat q))).
  - unfold nrow, ncol, zlen. cbn [dr dc]. rewrite !Nat2Z.id. intros i j Hi Hj. rewrite (R_mget c d _ _ W Rc).
    unfold psum. rewrite psumf_map. apply psumf_ext. intros u v _ _. unfold ent, subu. cbn [vd].
    rewrite !vget_vtake by assumption. reflexivity.
  - rewrite !existsb_vf_map by reflexivity. intros H. apply Fl. apply (wf_flag_bound c W H).
  - rewrite E. cbn. auto.
Qed.

Lemma get_refines c d i j r : wf c -> R c d -> dget d i j = Some r -> Rres (getitem c i j) r.
Proof.
  intros W Rc. pose proof Rc as [Eu [Ev [Ed Fl]]]. unfold dget, getitem. rewrite Eu, Ev.
  destruct (dr d <? 0) eqn:N1; [cbn; discriminate|].
  destruct (dc d <? 0) eqn:N2; [cbn; discriminate|]. cbn [orb andb].
  destruct (idx_pos (dr d) i) as [pu|e] eqn:Ei; [|discriminate].
  destruct (idx_pos (dc d) j) as [pv|e] eqn:Ej; [|discriminate].
  change (map (fun u => mkvec (vtake (vd u) pu) (vf u)) (us c)) with (map (subu pu) (us c)).
  change (map (fun v => mkvec (vtake (vd v) pv) (vf v)) (vs c)) with (map (subu pv) (vs c)).
  pose proof (get_flag c pu pv W) as FL.
  assert (FL' : fle (fold_left (fun acc p => acc || vf (fst p) || vf (snd p))
                               (combine (map (subu pu) (us c)) (map (subu pv) (vs c))) (cplx c)) (dflag d))
    by (intros H; apply Fl; apply FL; exact H).
  destruct i as [a|a1 a2 a3|la]; destruct j as [b|b1 b2 b3|lb]; cbn [idx_scalar idx_arr orb andb negb];
    intros H.
  - (* int, int *) injection H as <-.
    cbn [idx_pos] in Ei, Ej. destruct (norm_index (dr d) a) as [p|] eqn:Ea; [|discriminate]. injection Ei as <-.
    destruct (norm_index (dc d) b) as [q|] eqn:Eb; [|discriminate]. injection Ej as <-.
    rewrite (get_row c d p [q] true W Rc). cbn. auto.
  - (* int, slice *) injection H as <-.
    cbn [idx_pos] in Ei. destruct (norm_index (dr d) a) as [p|] eqn:Ea; [|discriminate]. injection Ei as <-.
    rewrite (get_row c d p pv false W Rc). cbn. auto.
  - (* int, array *) injection H as <-.
    cbn [idx_pos] in Ei. destruct (norm_index (dr d) a) as [p|] eqn:Ea; [|discriminate]. injection Ei as <-.
    rewrite (get_row c d p pv false W Rc). cbn. auto.
  - (* slice, int *) injection H as <-.
    cbn [idx_pos] in Ej. destruct (norm_index (dc d) b) as [q|] eqn:Eb; [|discriminate]. injection Ej as <-.
    rewrite (get_col c d pu q W Rc). cbn. auto.
  - (* slice, slice *) injection H as <-. apply get_outer; assumption.
  - (* slice, array *) injection H as <-. apply get_outer; assumption.
  - (* array, int *) injection H as <-.
    cbn [idx_pos] in Ej. destruct (norm_index (dc d) b) as [q|] eqn:Eb; [|discriminate]. injection Ej as <-.
    rewrite (get_col c d pu q W Rc). cbn. auto.
  - (* array, slice *) injection H as <-. apply get_outer; assumption.
  - (* array, array *)
    destruct (Nat.eqb (length pu) (length pv)) eqn:EL; cbn [negb]; injection H as <-; [|reflexivity].
    apply Nat.eqb_eq in EL. rewrite (get_pairs c d pu pv W Rc EL). cbn. auto.
Qed.

(* ------------------------------------------------------------------ __setitem__ *)
Definition set0v (ps : list Z) (u : vec) : vec := mkvec (vset0 (vd u) ps) (vf u).

Lemma length_vset0 u ps : length (vset0 u ps) = length u.
Proof. apply length_vtab. Qed.

Lemma vget_vset0 u ps a : (a < length u)%nat ->
  vget (vset0 u ps) a = if existsb (Z.eqb (Z.of_nat a)) ps then c0 else vget u a.
Proof. intros H. unfold vset0. rewrite vget_vtab by exact H. reflexivity. Qed.

Definition nullslice : idx := ISlice None None None.

Lemma idx_null_eq ix : idx_null ix = true -> ix = nullslice.
Proof. destruct ix as [|[|] [|] [|]|]; cbn; try discriminate. reflexivity. Qed.

Lemma set_loop_rows i ps n ul vl : idx_null i = false -> idx_pos n i = Ok ps -> vlens n ul -> length ul = length vl ->
  set_loop i nullslice ul vl = (map (set0v ps) ul, vl, None).
Proof.
  intros Hn Ei. revert vl. induction ul as [|u ul IH]; intros [|v vl] F L; cbn in L; try discriminate; [reflexivity|].
  apply Forall_cons_iff in F as [Lu F]. cbn [set_loop]. unfold vec_set0 at 1. rewrite Hn, Lu, Ei.
  cbn [vec_set0 idx_null nullslice]. rewrite IH by (auto; lia). reflexivity.
Qed.

Lemma set_loop_cols j ps n ul vl : idx_null j = false -> idx_pos n j = Ok ps -> vlens n vl -> length ul = length vl ->
  set_loop nullslice j ul vl = (ul, map (set0v ps) vl, None).
Proof.
  intros Hn Ej. revert vl. induction ul as [|u ul IH]; intros [|v vl] F L; cbn in L; try discriminate; [reflexivity|].
  apply Forall_cons_iff in F as [Lv F]. cbn [set_loop]. cbn [vec_set0 idx_null nullslice]. unfold vec_set0. rewrite Hn, Lv, Ej.
  rewrite IH by (auto; lia). reflexivity.
Qed.

Lemma psumf_const0 ul vl : psumf (fun _ _ => c0) ul vl = c0.
Proof. unfold psumf. apply csum_map_0. Qed.

Lemma set_refines c d i j v d' e : wf c -> R c d -> dset d i j v = Some (d', e) ->
  exists c', setitem c i j v = (c', e) /\ wf c' /\ R c' d'.
Proof.
  intros W Rc. pose proof Rc as [Eu [Ev [Ed Fl]]]. unfold dset, setitem.
  destruct (cis0 v); cbn [negb].
  2:{ intros H. injection H as H1 H2. subst d' e. exists c. auto. }
  destruct (idx_null i) eqn:Ni; destruct (idx_null j) eqn:Nj; cbn [negb andb].
  - (* [:, :] = 0 *)
    intros H. injection H as H1 H2. subst d' e. eexists. split; [reflexivity|]. split.
    + constructor; cbn; auto; try constructor. intros w [[]|[]].
    + unfold R, todense. cbn [us vs ulen vlen cplx dr dc dmat dflag combine fold_left]. unfold nrow, ncol. rewrite Eu, Ev. auto.
  - (* [:, j] = 0 *)
    destruct (idx_pos (dc d) j) as [ps|] eqn:Ej; [|discriminate]. intros H. injection H as H1 H2. subst d' e.
    rewrite (idx_null_eq i Ni). rewrite (set_loop_cols j ps (vlen c) (us c) (vs c) Nj); auto.
    2:{ rewrite Ev; exact Ej. } 2:{ apply (wf_v _ W). } 2:{ apply (wf_len _ W). }
    eexists. split; [reflexivity|].
    assert (W' : wf (mkcar (us c) (map (set0v ps) (vs c)) (ulen c) (vlen c) (cplx c))).
    { constructor; cbn [us vs ulen vlen cplx].
      - rewrite map_length. apply (wf_len _ W).
      - apply (wf_u _ W).
      - unfold set0v. apply vlens_mkvec; [|apply (wf_v _ W)]. intros w E. unfold zlen in *. rewrite length_vset0. exact E.
      - intros w [Hin|Hin] Hf; [apply (wf_f _ W w (or_introl Hin) Hf)|].
        apply in_map_iff in Hin as [w0 [<- Hin]]. apply (wf_f _ W w0 (or_intror Hin) Hf). }
    split; [exact W'|].
    apply (R_intro _ _ (fun a b => if existsb (Z.eqb (Z.of_nat b)) ps then c0 else mget (dmat d) a b));
      cbn [us vs ulen vlen cplx dr dc dmat dflag]; auto.
    intros a b Ha Hb. unfold ncol in Hb. cbn [dc] in Hb. unfold psum. rewrite psumf_map_r.
    rewrite (psumf_ext _ (fun u w => if existsb (Z.eqb (Z.of_nat b)) ps then c0 else ent a b u w)).
    + destruct (existsb (Z.eqb (Z.of_nat b)) ps); [apply psumf_const0 | symmetry; apply (R_mget c d _ _ W Rc)].
    + intros u w _ Hw. unfold ent, set0v. cbn [vd].
      rewrite vget_vset0 by (rewrite (in_vlens _ _ _ (wf_v _ W) Hw), Ev; exact Hb).
      destruct (existsb (Z.eqb (Z.of_nat b)) ps); [ring | reflexivity].
  - (* [i, :] = 0 *)
    destruct (idx_pos (dr d) i) as [ps|] eqn:Ei; [|discriminate]. intros H. injection H as H1 H2. subst d' e.
    rewrite (idx_null_eq j Nj). rewrite (set_loop_rows i ps (ulen c) (us c) (vs c) Ni); auto.
    2:{ rewrite Eu; exact Ei. } 2:{ apply (wf_u _ W). } 2:{ apply (wf_len _ W). }
    eexists. split; [reflexivity|].
    assert (W' : wf (mkcar (map (set0v ps) (us c)) (vs c) (ulen c) (vlen c) (cplx c))).
    { constructor; cbn [us vs ulen vlen cplx].
      - rewrite map_length. apply (wf_len _ W).
      - unfold set0v. apply vlens_mkvec; [|apply (wf_u _ W)]. intros w E. unfold zlen in *. rewrite length_vset0. exact E.
      - apply (wf_v _ W).
      - intros w [Hin|Hin] Hf; [|apply (wf_f _ W w (or_intror Hin) Hf)].
        apply in_map_iff in Hin as [w0 [<- Hin]]. apply (wf_f _ W w0 (or_introl Hin) Hf). }
    split; [exact W'|].
    apply (R_intro _ _ (fun a b => if existsb (Z.eqb (Z.of_nat a)) ps then c0 else mget (dmat d) a b));
      cbn [us vs ulen vlen cplx dr dc dmat dflag]; auto.
    intros a b Ha Hb. unfold nrow in Ha. cbn [dr] in Ha. unfold psum. rewrite psumf_map_l.
    rewrite (psumf_ext _ (fun u w => if existsb (Z.eqb (Z.of_nat a)) ps then c0 else ent a b u w)).
    + destruct (existsb (Z.eqb (Z.of_nat a)) ps); [apply psumf_const0 | symmetry; apply (R_mget c d _ _ W Rc)].
    + intros u w Hu _. unfold ent, set0v. cbn [vd].
      rewrite vget_vset0 by (rewrite (in_vlens _ _ _ (wf_u _ W) Hu), Eu; exact Ha).
      destruct (existsb (Z.eqb (Z.of_nat a)) ps); [ring | reflexivity].
  - (* neither subscript is the null slice *)
    intros H. injection H as H1 H2. subst d' e. exists c. auto.
Qed.

(* ------------------------------------------------------------------ contract *)
Lemma isum_swap n m (f : nat -> nat -> C) :
  isum n (fun a => isum m (fun b => f a b)) = isum m (fun b => isum n (fun a => f a b)).
Proof. unfold isum. apply (csum_swap f (seq 0 n) (seq 0 m)). Qed.

Lemma map_res_map {A B D} (F : B -> res D) (h : A -> B) l : map_res F (map h l) = map_res (fun x => F (h x)) l.
Proof. induction l as [|x l IH]; cbn; [reflexivity|]. destruct (F (h x)); [rewrite IH|]; reflexivity. Qed.

Lemma combine3_map {A B D} (f : A -> B) (g : A -> D) l :
  combine (combine (map f l) (map g l)) l = map (fun p => ((f p, g p), p)) l.
Proof. induction l as [|x l IH]; cbn; [reflexivity | rewrite IH; reflexivity]. Qed.

Lemma map_opt_some {A B} (f : A -> option B) l r (dflt : B) : map_opt f l = Some r ->
  r = map (fun x => match f x with Some y => y | None => dflt end) l /\ (forall x, In x l -> f x <> None).
Proof.
  revert r. induction l as [|x l IH]; intros r H; cbn in H.
  - injection H as <-. split; [reflexivity | intros x []].
  - destruct (f x) as [y|] eqn:E; [|discriminate]. destruct (map_opt f l) as [r'|]; [|discriminate]. injection H as <-.
    destruct (IH r' eq_refl) as [-> Hn]. split; [cbn; rewrite E; reflexivity|].
    intros x' [<-|Hin]; [rewrite E; discriminate | apply Hn; exact Hin].
Qed.

Lemma forallb_nth {A} (F : A -> bool) (l : list A) t d : forallb F l = true -> F d = true -> F (nth t l d) = true.
Proof.
  intros H Hd. destruct (Nat.lt_ge_cases t (length l)) as [L|L].
  - rewrite forallb_forall in H. apply H. apply nth_In. exact L.
  - rewrite nth_overflow by lia. exact Hd.
Qed.

Lemma norm_index_ok n k : in_rangeb n k = true -> norm_index n k = Ok (if k <? 0 then k + n else k).
Proof. unfold norm_index, in_rangeb. intros ->. reflexivity. Qed.

Lemma sel_idx_ok ix p u n P : zlen u = n -> cidx_ok n P ix = true ->
  sel_idx ix p u = Ok (map (vget u) (sel_pos ix p n)).
Proof.
  intros Ln Hok. unfold sel_idx, sel_pos. destruct ix as [i|].
  - cbn [cidx_ok] in Hok. apply andb_true_iff in Hok as [Hok _].
    set (t := match ci_bs i with None => 0%nat | Some _ => p end).
    assert (Et : match ci_bs i with None => nth 0%nat (ci_rows i) [] | Some _ => nth p (ci_rows i) [] end = nth t (ci_rows i) [])
      by (unfold t; destruct (ci_bs i); reflexivity).
    rewrite Et. pose proof (forallb_nth (fun l => forallb (in_rangeb n) l) (ci_rows i) t [] Hok eq_refl) as Hl.
    rewrite Ln. rewrite (map_res_ok _ (fun k => if k <? 0 then k + n else k)).
    + unfold vtake. rewrite !map_map. reflexivity.
    + intros k Hk. apply norm_index_ok. rewrite forallb_forall in Hl. apply Hl. exact Hk.
  - f_equal. rewrite <- (vtab_id u) at 1. unfold vtab. rewrite (zlen_nat _ _ Ln). reflexivity.
Qed.

(* the contribution of one dyad to batch item p, in closed form *)
Definition fval (mat : option cmat) (rows cols : option cidx) (ul vl : Z) (u v : vec) (p : nat) : C :=
  let ua := map (vget (vd u)) (sel_pos rows p ul) in
  let va := map (vget (vd v)) (sel_pos cols p vl) in
  match mat with
  | None => vdot ua va
  | Some m => vdot (vecmat ua (sel_mat m p) (Z.to_nat (cm_nc m))) va
  end.

Lemma dyad_forms_ok d mat rows cols P u v vals :
  zlen (vd u) = dr d -> zlen (vd v) = dc d ->
  cidx_ok (dr d) P rows = true -> cidx_ok (dc d) P cols = true ->
  map_opt (dform d mat rows cols) (seq 0 P) = Some vals ->
  dyad_forms mat rows cols P u v = Ok (map (fval mat rows cols (dr d) (dc d) u v) (seq 0 P)).
Proof.
  intros Lu Lv Hr Hc Hv. unfold dyad_forms.
  rewrite (map_res_ok _ (fun p => map (vget (vd u)) (sel_pos rows p (dr d)))) by (intros p _; apply (sel_idx_ok rows p (vd u) (dr d) P Lu Hr)).
  rewrite (map_res_ok _ (fun p => map (vget (vd v)) (sel_pos cols p (dc d)))) by (intros p _; apply (sel_idx_ok cols p (vd v) (dc d) P Lv Hc)).
  rewrite combine3_map, map_res_map. cbn [fst snd].
  apply map_res_ok. intros p Hp. destruct (map_opt_some _ _ _ c0 Hv) as [_ Hn]. specialize (Hn p Hp).
  unfold form1, fval, dform in *. destruct mat as [m|].
  - unfold zlen in *. rewrite !map_length.
    destruct ((Z.of_nat (length (sel_pos rows p (dr d))) =? cm_nr m) && (Z.of_nat (length (sel_pos cols p (dc d))) =? cm_nc m)) eqn:E;
      [|contradiction Hn; reflexivity].
    apply andb_true_iff in E as [E1 E2]. rewrite E1. apply Z.eqb_eq in E2. rewrite <- E2, Z.eqb_refl. reflexivity.
  - unfold zlen. rewrite !map_length.
    destruct (Nat.eqb (length (sel_pos rows p (dr d))) (length (sel_pos cols p (dc d)))) eqn:E; [|contradiction Hn; reflexivity].
    apply Nat.eqb_eq in E. rewrite E, Z.eqb_refl. reflexivity.
Qed.

Lemma vget_map_pos (u : vect) (ra : list nat) a : (a < length ra)%nat -> vget (map (vget u) ra) a = vget u (nth a ra 0%nat).
Proof. intros H. unfold vget at 1. apply (nth_map_lt (vget u) ra a 0%nat c0 H). Qed.

Lemma fval_sum c d mat rows cols p x : wf c -> R c d -> dform d mat rows cols p = Some x ->
  psumf (fun u v => fval mat rows cols (dr d) (dc d) u v p) (us c) (vs c) = x.
Proof.
  intros W Rc. unfold dform, fval.
  set (ra := sel_pos rows p (dr d)). set (cb := sel_pos cols p (dc d)).
  destruct mat as [m|].
  - destruct ((zlen ra =? cm_nr m) && (zlen cb =? cm_nc m)) eqn:E; [|discriminate]. intros H. injection H as <-.
    apply andb_true_iff in E as [E1 E2]. apply Z.eqb_eq in E1, E2.
    assert (Enc : Z.to_nat (cm_nc m) = length cb) by (rewrite <- E2; unfold zlen; apply Nat2Z.id).
    rewrite (psumf_ext _ (fun u v => isum (length cb) (fun b => isum (length ra) (fun a =>
               ent (nth a ra 0%nat) (nth b cb 0%nat) u v * mget (sel_mat m p) a b)%C))).
    + rewrite psumf_isum. rewrite isum_swap. apply isum_ext. intros b _. rewrite psumf_isum. apply isum_ext. intros a _.
      rewrite psumf_mul_r. rewrite (R_mget c d _ _ W Rc). reflexivity.
    + intros u v _ _. unfold vdot. rewrite length_vecmat, Enc. apply isum_ext. intros b Hb.
      unfold vecmat. rewrite vget_vtab by exact Hb. rewrite map_length. rewrite isum_mul_r.
      apply isum_ext. intros a Ha. rewrite !vget_map_pos by assumption. unfold ent. ring.
  - destruct (Nat.eqb (length ra) (length cb)) eqn:E; [|discriminate]. intros H. injection H as <-.
    apply Nat.eqb_eq in E.
    rewrite (psumf_ext _ (fun u v => isum (length ra) (fun a => ent (nth a ra 0%nat) (nth a cb 0%nat) u v))).
    + rewrite psumf_isum. apply isum_ext. intros a _. symmetry. apply (R_mget c d _ _ W Rc).
    + intros u v _ _. unfold vdot. rewrite map_length. apply isum_ext. intros a Ha.
      rewrite !vget_map_pos by lia. reflexivity.
Qed.

Lemma contract_flag c fmat : wf c ->
  fle (existsb (fun q => vf (fst q) || vf (snd q) || fmat) (combine (us c) (vs c))) (fmat || cplx c).
Proof.
  intros W H. apply existsb_exists in H as [[u v] [Hin Hf]]. cbn [fst snd] in Hf.
  apply orb_true_iff in Hf as [Hf|Hf]; [|rewrite Hf; reflexivity].
  apply orb_true_iff in Hf as [Hf|Hf].
  - rewrite (wf_f _ W u (or_introl (in_combine_l _ _ _ _ Hin)) Hf). apply orb_true_r.
  - rewrite (wf_f _ W v (or_intror (in_combine_r _ _ _ _ Hin)) Hf). apply orb_true_r.
Qed.

Lemma contract_refines c d mat rows cols r : wf c -> R c d -> dcontract d mat rows cols = Some r ->
  Rres (contract c mat rows cols) r.
Proof.
  intros W Rc. pose proof Rc as [Eu [Ev [_ Fl]]]. unfold dcontract, contract.
  destruct ((dr d <? 0) || (dc d <? 0)); [discriminate|].
  destruct (batch_shape mat rows cols) as [bso|e]; [|intros H; injection H as <-; reflexivity].
  set (fmat := match mat with Some m => cm_f m | None => false end).
  set (P := match bso with None => 1%nat | Some bs => Z.to_nat (zprod bs) end).
  destruct (cidx_ok (dr d) P rows && cidx_ok (dc d) P cols && cmat_ok P mat) eqn:Eok; [|discriminate].
  apply andb_true_iff in Eok as [Eok _]. apply andb_true_iff in Eok as [Hr Hc].
  destruct (map_opt (dform d mat rows cols) (seq 0 P)) as [vals|] eqn:Ev'; [|discriminate].
  intros H. injection H as <-.
  assert (T : map_res (fun q => dyad_forms mat rows cols P (fst q) (snd q)) (combine (us c) (vs c)) =
              Ok (map (fun q => map (fval mat rows cols (dr d) (dc d) (fst q) (snd q)) (seq 0 P)) (combine (us c) (vs c)))).
  { apply map_res_ok. intros [u v] Hin. cbn [fst snd].
    apply (dyad_forms_ok d mat rows cols P u v vals); auto.
    - rewrite <- Eu. pose proof (wf_u _ W) as F. unfold vlens in F. rewrite Forall_forall in F. apply F. eapply in_combine_l; exact Hin.
    - rewrite <- Ev. pose proof (wf_v _ W) as F. unfold vlens in F. rewrite Forall_forall in F. apply F. eapply in_combine_r; exact Hin. }
  destruct (map_opt_some _ _ _ c0 Ev') as [Evals Hsome].
  assert (V : forall p, (p < P)%nat -> vget vals p = psumf (fun u v => fval mat rows cols (dr d) (dc d) u v p) (us c) (vs c)).
  { intros p Hp. rewrite Evals. change (map ?f (seq 0 P)) with (vtab P f). rewrite vget_vtab by exact Hp.
    destruct (dform d mat rows cols p) as [x|] eqn:Ex.
    - symmetry. apply (fval_sum c d mat rows cols p x W Rc Ex).
    - exfalso. apply (Hsome p); [apply in_seq; lia | exact Ex]. }
  destruct bso as [bs|]; unfold P in *.
  - (* batch *)
    rewrite T. cbn [Rres Rout out_le]. splits; auto.
    + rewrite vzeros_tab, fold_vadd_tab.
      2:{ apply Forall_map. apply Forall_forall. intros q _. rewrite map_length, seq_length. reflexivity. }
      assert (Lv : length vals = Z.to_nat (zprod bs)) by (rewrite Evals, map_length, seq_length; reflexivity).
      rewrite <- (vtab_id' _ vals Lv). apply vtab_ext. intros p Hp. rewrite (V p Hp). rewrite map_map, cadd_0_l.
      unfold psumf. apply csum_map_ext. intros q _.
      change (map ?f (seq 0 (Z.to_nat (zprod bs)))) with (vtab (Z.to_nat (zprod bs)) f). rewrite vget_vtab by exact Hp. reflexivity.
    + apply fle_or; [apply fle_refl | exact Fl].
  - (* plain *)
    rewrite T. cbn [Rres Rout out_le]. split.
    + rewrite (V 0%nat) by lia. rewrite map_map. unfold psumf. apply csum_map_ext. intros q _.
      change (map ?f (seq 0 1)) with (vtab 1 f). rewrite vget_vtab by lia. reflexivity.
    + intros H. apply (contract_flag c fmat W) in H. revert H. apply fle_or; [apply fle_refl | exact Fl].
Qed.

(* ------------------------------------------------------------------ contract_multi *)
Lemma combine3_map3 {A B D E} (f : A -> B) (g : A -> D) (h : A -> E) l :
  combine (combine (map f l) (map g l)) (map h l) = map (fun e => ((f e, g e), h e)) l.
Proof. induction l as [|x l IH]; cbn; [reflexivity | rewrite IH; reflexivity]. Qed.

Lemma map_const_zeros {A} (l : list A) : map (fun _ => c0) l = vzeros (length l).
Proof. induction l as [|x l IH]; cbn; [reflexivity | rewrite IH; reflexivity]. Qed.

Lemma contract_scalar c d m x f : wf c -> R c d -> dcontract d (Some m) None None = Some (Ok (DVal (OScal x f))) ->
  exists f', contract c (Some m) None None = Ok (OScal x f').
Proof.
  intros W Rc H. pose proof (contract_refines c d (Some m) None None _ W Rc H) as Hr.
  destruct (contract c (Some m) None None) as [o|e]; cbn [Rres] in Hr; [|contradiction].
  destruct o; cbn [Rout out_le] in Hr; try contradiction. destruct Hr as [-> _]. eexists. reflexivity.
Qed.

Lemma multi1_refines c d m x : wf c -> R c d -> dmulti1 d m = Some x ->
  match m with
  | MNone => Ok c0
  | MSp tr _ =>
    match map_res (fun e => norm_index (ulen c) (fst (fst e))) tr with
    | Er e => Er e
    | Ok rs =>
      match map_res (fun e => norm_index (vlen c) (snd (fst e))) tr with
      | Er e => Er e
      | Ok cs => Ok (csum (map (fun t => csum (map (fun q => cmul (cmul (vget (vd (fst q)) (Z.to_nat (fst (fst t)))) (snd t))
                                                                 (vget (vd (snd q)) (Z.to_nat (snd (fst t)))))
                                                  (combine (us c) (vs c))))
                              (combine (combine rs cs) (map snd tr))))
      end
    end
  | MDense m => match contract c (Some m) None None with
                | Ok (OScal x _) => Ok x
                | Ok _ => Er ValueE
                | Er e => Er e
                end
  end = Ok x.
Proof.
  intros W Rc. pose proof Rc as [Eu [Ev _]]. destruct m as [|tr f|m]; cbn [dmulti1].
  - intros H. injection H as <-. reflexivity.
  - destruct (forallb (fun e => in_rangeb (dr d) (fst (fst e)) && in_rangeb (dc d) (snd (fst e))) tr) eqn:Ef; [|discriminate].
    intros H. injection H as <-. rewrite forallb_forall in Ef.
    rewrite (map_res_ok _ (fun e => if fst (fst e) <? 0 then fst (fst e) + dr d else fst (fst e))).
    2:{ intros e He. rewrite Eu. apply norm_index_ok. specialize (Ef e He). apply andb_true_iff in Ef as [Ef _]. exact Ef. }
    rewrite (map_res_ok _ (fun e => if snd (fst e) <? 0 then snd (fst e) + dc d else snd (fst e))).
    2:{ intros e He. rewrite Ev. apply norm_index_ok. specialize (Ef e He). apply andb_true_iff in Ef as [_ Ef]. exact Ef. }
    rewrite combine3_map3, map_map. f_equal. apply csum_map_ext. intros e _. cbn [fst snd].
    rewrite (R_mget c d _ _ W Rc). fold (pos_of (dr d) (fst (fst e))) (pos_of (dc d) (snd (fst e))).
    unfold psum. rewrite <- psumf_mul_l. unfold psumf. apply csum_map_ext. intros q _. unfold ent. ring.
  - destruct (dcontract d (Some m) None None) as [[[dd|[| y fy | | | |]]|]|] eqn:E; try discriminate.
    intros H. injection H as <-. destruct (contract_scalar c d m y fy W Rc E) as [f' ->]. reflexivity.
Qed.

Lemma multi1_nodyads c d m x : wf c -> R c d -> us c = [] -> dmulti1 d m = Some x -> x = c0.
Proof.
  intros W Rc Eus H. pose proof (multi1_refines c d m x W Rc H) as G.
  assert (Evs : vs c = []) by (pose proof (wf_len _ W) as L; rewrite Eus in L; destruct (vs c); [reflexivity | discriminate]).
  destruct m as [|tr f|m].
  - injection G as <-. reflexivity.
  - destruct (map_res (fun e => norm_index (ulen c) (fst (fst e))) tr) as [rs|]; [|discriminate].
    destruct (map_res (fun e => norm_index (vlen c) (snd (fst e))) tr) as [cs|]; [|discriminate].
    injection G as <-. rewrite Eus. cbn [combine map csum]. apply csum_map_0.
  - unfold contract in G. destruct (batch_shape (Some m) None None) as [[bs|]|]; try discriminate.
    + rewrite Eus in G. cbn in G. discriminate.
    + rewrite Eus in G. cbn in G. injection G as <-. reflexivity.
Qed.

Lemma multi_refines c d mats r : wf c -> R c d -> dcontract_multi d mats = Some r -> Rres (contract_multi c mats) r.
Proof.
  intros W Rc. pose proof Rc as [Eu [Ev [_ Fl]]]. unfold dcontract_multi, contract_multi.
  destruct ((dr d <? 0) || (dc d <? 0)); [discriminate|].
  destruct (map_opt (dmulti1 d) mats) as [vals|] eqn:Ev'; [|discriminate]. intros H. injection H as <-.
  destruct (map_opt_some _ _ _ c0 Ev') as [Evals Hsome].
  assert (FL : fle (cplx c || existsb mmat_flag mats) (dflag d || existsb mmat_flag mats)) by (apply fle_or; [exact Fl | apply fle_refl]).
  destruct (Nat.eqb (length (us c)) 0 || Nat.eqb (length (vs c)) 0) eqn:E0.
  - assert (Eus : us c = []).
    { apply orb_true_iff in E0 as [E|E]; apply Nat.eqb_eq in E; [|rewrite <- (wf_len _ W) in E]; destruct (us c); auto; discriminate. }
    cbn [Rres Rout out_le]. split; [|exact FL]. rewrite Evals. rewrite <- map_const_zeros. apply map_ext_in. intros m Hm.
    destruct (dmulti1 d m) as [x|] eqn:Ex; [|reflexivity]. symmetry. apply (multi1_nodyads c d m x W Rc Eus Ex).
  - rewrite (map_res_ok _ (fun m => match dmulti1 d m with Some y => y | None => c0 end)).
    + cbn [Rres Rout out_le]. split; [symmetry; exact Evals | exact FL].
    + intros m Hm. destruct (dmulti1 d m) as [x|] eqn:Ex; [|exfalso; apply (Hsome m Hm Ex)].
      apply (multi1_refines c d m x W Rc Ex).
Qed.

(* ------------------------------------------------------------------ accumulating into a carrier without dyads
   (the `DyadCarrier()` / `DyadCarrier(shape=...)` accumulator pattern): unknown dimensions are taken from the other
   carrier as soon as it has at least one dyad.  The result depends on the other carrier having dyads, which is not a
   function of its dense image: stated on the model, outside the dense program semantics. *)
Lemma iadd_into_empty_refines (minus : bool) c o od : wf c -> wf o -> R o od ->
  us c = [] -> us o <> [] -> (ulen c < 0 \/ ulen c = ulen o) -> (vlen c < 0 \/ vlen c = vlen o) ->
  exists c', (if minus then isub c o else iadd c o) = (c', None) /\ wf c' /\
             R c' (mkdm (dr od) (dc od) (if minus then mmap copp (dmat od) else dmat od) (dflag od || cplx c)).
Proof.
  intros W Wo Ro Eus Hne Hu Hv. pose proof (R_dmat o od Wo Ro) as Emo. destruct Ro as [Euo [Evo [_ Flo]]].
  set (fac := if minus then Some (-1) else None).
  assert (EA : (if minus then isub c o else iadd c o) = add_loop c (vpairs (us o) (vs o)) fac).
  { destruct minus; unfold isub, iadd, fac; apply add_dyad_vecs; apply (wf_len _ Wo). }
  rewrite EA.
  assert (Evs : vs c = []) by (pose proof (wf_len _ W) as L; rewrite Eus in L; destruct (vs c); [reflexivity | discriminate]).
  assert (Hl : exists u0 v0 ul vl, us o = u0 :: ul /\ vs o = v0 :: vl).
  { pose proof (wf_len _ Wo) as L. destruct (us o) as [|u0 ul]; [contradiction|]. destruct (vs o) as [|v0 vl]; [discriminate|].
    eexists _, _, _, _. split; reflexivity. }
  destruct Hl as [u0 [v0 [ul [vl [Euso Evso]]]]].
  assert (Lu0 : zlen (vd u0) = ulen o) by (pose proof (wf_u _ Wo) as F; rewrite Euso in F; apply Forall_cons_iff in F as [F _]; exact F).
  assert (Lv0 : zlen (vd v0) = vlen o) by (pose proof (wf_v _ Wo) as F; rewrite Evso in F; apply Forall_cons_iff in F as [F _]; exact F).
  assert (Eeu : eff_u c (vpairs (us o) (vs o)) = ulen o).
  { unfold eff_u. rewrite Euso, Evso. unfold vpairs. cbn [map combine fst]. rewrite in_vec_ivec.
    destruct (ulen c <? 0) eqn:E; [exact Lu0|]. apply Z.ltb_ge in E. destruct Hu; [lia | assumption]. }
  assert (Eev : eff_v c (vpairs (us o) (vs o)) = vlen o).
  { unfold eff_v. rewrite Euso, Evso. unfold vpairs. cbn [map combine snd]. rewrite in_vec_ivec.
    destruct (vlen c <? 0) eqn:E; [exact Lv0|]. apply Z.ltb_ge in E. destruct Hv; [lia | assumption]. }
  destruct (add_loop_spec (vpairs (us o) (vs o)) fac c W) as [c' [E [W' [Eu' [Ev' [Ps [Fl1 _]]]]]]].
  { rewrite Eeu, Eev. apply conf_vpairs; [apply (wf_u _ Wo) | apply (wf_v _ Wo)]. }
  exists c'. splits; auto.
  apply (R_intro c' _ (fun i j => if minus then copp (psum (us o) (vs o) i j) else psum (us o) (vs o) i j));
    cbn [dr dc dmat dflag]; auto; try congruence.
  - unfold nrow, ncol in *. cbn [dr dc]. rewrite Emo. destruct minus; [apply mmap_tab | reflexivity].
  - intros i j _ _. rewrite Ps, lsum_vpairs, Eus. unfold psum at 1. rewrite psumf_nil. unfold fac.
    destruct minus; cbn [facC]; [change (cofZ (-1)) with (copp c1)|]; ring.
  - intros H. destruct (Fl1 H) as [H1|H1]; [rewrite H1; apply orb_true_r|].
    apply lflag_vpairs in H1. rewrite Flo; [reflexivity | apply (wf_flag_bound o Wo H1)].
Qed.

(* ------------------------------------------------------------------ stores, steps, programs *)
Definition wfs (s : store) : Prop := Forall wf s.
Definition Rs (s : store) (ds : dstore) : Prop := Forall2 R s ds.

Lemma Rs_nth s ds n d : Rs s ds -> wfs s -> nth_error ds n = Some d ->
  exists c, get_slot s n = Ok c /\ wf c /\ R c d.
Proof.
  intros HR. revert n. induction HR as [|c0' d0 s ds R0 HR IH]; intros n HW H.
  - destruct n; discriminate.
  - apply Forall_cons_iff in HW as [W0 HW]. destruct n as [|n]; cbn in H.
    + injection H as <-. exists c0'. unfold get_slot. cbn. auto.
    + destruct (IH n HW H) as [c [E [W Rc]]]. exists c. unfold get_slot in *. cbn. auto.
Qed.

Lemma set_slot_Rs s ds n c d : Rs s ds -> R c d -> Rs (set_slot s n c) (dset_slot ds n d).
Proof.
  intros HR Rc. revert n. induction HR as [|c0' d0 s ds R0 HR IH]; intros n.
  - cbn. destruct n; constructor; auto; constructor.
  - destruct n as [|n]; cbn; constructor; auto. apply IH.
Qed.

Lemma set_slot_wfs s n c : wfs s -> wf c -> wfs (set_slot s n c).
Proof.
  intros HW W. revert n. induction HW as [|c0' s W0 HW IH]; intros n.
  - cbn. destruct n; constructor; auto; constructor.
  - destruct n as [|n]; cbn; constructor; auto. apply IH.
Qed.

Lemma bind_refines s ds dst r r' : wfs s -> Rs s ds -> Rres r r' ->
  wfs (fst (bind_out s dst r)) /\ Rs (fst (bind_out s dst r)) (fst (dbind ds dst r')) /\
  Rres (snd (bind_out s dst r)) (snd (dbind ds dst r')).
Proof.
  intros HW HR Hr. destruct r as [o|e], r' as [o'|e']; cbn [Rres] in Hr; try contradiction.
  - destruct o' as [dd|o']; destruct o as [cc|? ?|? ?|? ? ? ?|? ? ?|]; cbn [Rout out_le] in Hr; try contradiction; cbn [bind_out dbind fst snd];
      try (splits; auto; fail).
    destruct Hr as [W Rc]. splits; [apply set_slot_wfs | apply set_slot_Rs | cbn]; auto.
  - subst. cbn. auto.
Qed.

Lemma arg_refines s ds b x : wfs s -> Rs s ds -> darg_of ds b = Some x ->
  exists x', arg_operand s b = Ok x' /\ Rarg x' x.
Proof.
  intros HW HR. destruct b as [sx f|v f|nr nc m f|n]; cbn [darg_of arg_operand].
  - intros H. injection H as <-. eexists. split; [reflexivity | cbn; auto].
  - intros H. injection H as <-. eexists. split; [reflexivity | cbn; auto].
  - intros H. injection H as <-. eexists. split; [reflexivity | cbn; auto].
  - destruct (nth_error ds n) as [od|] eqn:E; [|discriminate]. intros H. injection H as <-.
    destruct (Rs_nth s ds n od HR HW E) as [o [Eo [Wo Ro]]]. rewrite Eo. eexists. split; [reflexivity | cbn; auto].
Qed.

Ltac use_bind HW HR Hr dst :=
  let B := fresh "B" in
  pose proof (bind_refines _ _ dst _ _ HW HR Hr) as B;
  match type of B with
  | wfs (fst ?p) /\ Rs (fst ?p) (fst ?q) /\ Rres (snd ?p) (snd ?q) =>
    destruct p as [s1 r1]; destruct q as [ds1 r1']; cbn [fst snd] in B; destruct B as [B1 [B2 B3]]
  end.

Lemma step_refines o s ds ds' r' : wfs s -> Rs s ds -> dstep o ds = Some (ds', r') ->
  exists s' r, step o s = (s', r) /\ wfs s' /\ Rs s' ds' /\ Rres r r'.
Proof.
  intros HW HR. destruct o as [dst u v r cn|tgt u v fac|k dst src|tgt src|tgt src|k dst a b|dst a x f|dst a x f|a|a k|dst a i j|tgt i j v|a mat rows cols|a mats];
    cbn [dstep step].
  - (* new *)
    destruct (dadd_dyad (dzero r cn) u v None) as [d|] eqn:E; [|discriminate]. intros H. injection H as <- <-.
    destruct (new_refines u v r cn d E) as [c' [E' [W' R']]]. rewrite E'. cbn [lift bind_out].
    eexists _, _. split; [reflexivity|]. splits; [apply set_slot_wfs | apply set_slot_Rs | cbn]; auto.
  - (* add_dyad *)
    destruct (nth_error ds tgt) as [d|] eqn:En; [|discriminate].
    destruct (dadd_dyad d u v fac) as [d'|] eqn:E; [|discriminate]. intros H. injection H as <- <-.
    destruct (Rs_nth s ds tgt d HR HW En) as [c [Ec [W Rc]]]. rewrite Ec.
    destruct (add_dyad_refines c d u v fac d' W Rc E) as [c' [E' [W' R']]]. rewrite E'. unfold bind_inplace. cbn [fst snd].
    eexists _, _. split; [reflexivity|]. splits; [apply set_slot_wfs | apply set_slot_Rs | cbn]; auto.
  - (* unary *)
    destruct (nth_error ds src) as [d|] eqn:En; [|discriminate]. intros H. injection H as <- <-.
    destruct (Rs_nth s ds src d HR HW En) as [c [Ec [W Rc]]]. rewrite Ec.
    destruct (un_refines k c d W Rc) as [c' [E' [W' R']]]. rewrite E'. cbn [lift bind_out].
    eexists _, _. split; [reflexivity|]. splits; [apply set_slot_wfs | apply set_slot_Rs | cbn]; auto.
  - (* += *)
    destruct (nth_error ds tgt) as [d|] eqn:En; [|discriminate]. destruct (nth_error ds src) as [od|] eqn:Eo; [|discriminate].
    destruct (diadd false d od) as [d'|] eqn:E; [|discriminate]. intros H. injection H as <- <-.
    destruct (Rs_nth s ds tgt d HR HW En) as [c [Ec [W Rc]]]. destruct (Rs_nth s ds src od HR HW Eo) as [o [Eco [Wo Ro]]].
    rewrite Ec, Eco.
    destruct (iadd_refines false c o d od d' W Wo Rc Ro E) as [c' [E' [W' R']]]. cbn beta iota in E'. rewrite E'.
    unfold bind_inplace. cbn [fst snd].
    eexists _, _. split; [reflexivity|]. splits; [apply set_slot_wfs | apply set_slot_Rs | cbn]; auto.
  - (* -= *)
    destruct (nth_error ds tgt) as [d|] eqn:En; [|discriminate]. destruct (nth_error ds src) as [od|] eqn:Eo; [|discriminate].
    destruct (diadd true d od) as [d'|] eqn:E; [|discriminate]. intros H. injection H as <- <-.
    destruct (Rs_nth s ds tgt d HR HW En) as [c [Ec [W Rc]]]. destruct (Rs_nth s ds src od HR HW Eo) as [o [Eco [Wo Ro]]].
    rewrite Ec, Eco.
    destruct (iadd_refines true c o d od d' W Wo Rc Ro E) as [c' [E' [W' R']]]. cbn beta iota in E'. rewrite E'.
    unfold bind_inplace. cbn [fst snd].
    eexists _, _. split; [reflexivity|]. splits; [apply set_slot_wfs | apply set_slot_Rs | cbn]; auto.
  - (* binary *)
    destruct (nth_error ds a) as [d|] eqn:En; [|discriminate]. destruct (darg_of ds b) as [x|] eqn:Ex; [|discriminate].
    destruct (dbin k d x) as [rb|] eqn:E; [|discriminate]. intros H. injection H as H.
    destruct (Rs_nth s ds a d HR HW En) as [c [Ec [W Rc]]]. rewrite Ec.
    destruct (arg_refines s ds b x HW HR Ex) as [x' [Ex' Ra]]. rewrite Ex'.
    pose proof (bin_refines k c d x' x rb W Rc Ra E) as Hr.
    pose proof (bind_refines s ds dst _ _ HW HR Hr) as [B1 [B2 B3]]. rewrite H in B2, B3.
    eexists _, _. split; [apply surjective_pairing|]. cbn [fst snd] in *. auto.
  - (* mul *)
    destruct (nth_error ds a) as [d|] eqn:En; [|discriminate]. intros H. injection H as <- <-.
    destruct (Rs_nth s ds a d HR HW En) as [c [Ec [W Rc]]]. rewrite Ec.
    destruct (mul_refines c d x f W Rc) as [c' [E' [W' R']]]. rewrite E'. cbn [lift bind_out].
    eexists _, _. split; [reflexivity|]. splits; [apply set_slot_wfs | apply set_slot_Rs | cbn]; auto.
  - (* rmul *)
    destruct (nth_error ds a) as [d|] eqn:En; [|discriminate]. intros H. injection H as <- <-.
    destruct (Rs_nth s ds a d HR HW En) as [c [Ec [W Rc]]]. rewrite Ec.
    destruct (rmul_refines c d x f W Rc) as [c' [E' [W' R']]]. rewrite E'. cbn [lift bind_out].
    eexists _, _. split; [reflexivity|]. splits; [apply set_slot_wfs | apply set_slot_Rs | cbn]; auto.
  - (* todense *)
    destruct (nth_error ds a) as [d|] eqn:En; [|discriminate]. intros H. injection H as <- <-.
    destruct (Rs_nth s ds a d HR HW En) as [c [Ec [W Rc]]]. rewrite Ec. destruct Rc as [Eu [Ev [Ed Fl]]].
    eexists _, _. split; [reflexivity|]. splits; auto. cbn. rewrite Eu, Ev, Ed. auto.
  - (* diagonal *)
    destruct (nth_error ds a) as [d|] eqn:En; [|discriminate]. intros H. injection H as <- <-.
    destruct (Rs_nth s ds a d HR HW En) as [c [Ec [W Rc]]]. rewrite Ec.
    eexists _, _. split; [reflexivity|]. splits; auto. cbn [Rres Rout].
    pose proof (diag_refines c d k W Rc) as Hd. destruct (diagonal c k); cbn in Hd |- *; auto; contradiction.
  - (* getitem *)
    destruct (nth_error ds a) as [d|] eqn:En; [|discriminate].
    destruct (dget d i j) as [rb|] eqn:E; [|discriminate]. intros H. injection H as H.
    destruct (Rs_nth s ds a d HR HW En) as [c [Ec [W Rc]]]. rewrite Ec.
    pose proof (get_refines c d i j rb W Rc E) as Hr.
    pose proof (bind_refines s ds dst _ _ HW HR Hr) as [B1 [B2 B3]]. rewrite H in B2, B3.
    eexists _, _. split; [apply surjective_pairing|]. cbn [fst snd] in *. auto.
  - (* setitem *)
    destruct (nth_error ds tgt) as [d|] eqn:En; [|discriminate].
    destruct (dset d i j v) as [[d' e]|] eqn:E; [|discriminate].
    destruct (Rs_nth s ds tgt d HR HW En) as [c [Ec [W Rc]]]. rewrite Ec.
    destruct (set_refines c d i j v d' e W Rc E) as [c' [E' [W' R']]]. rewrite E'. unfold bind_inplace. cbn [fst snd].
    destruct e as [e|]; intros H; injection H as <- <-;
      (eexists _, _; split; [reflexivity|]; splits; [apply set_slot_wfs | apply set_slot_Rs | cbn]; auto).
  - (* contract *)
    destruct (nth_error ds a) as [d|] eqn:En; [|discriminate].
    destruct (dcontract d mat rows cols) as [rb|] eqn:E; [|discriminate]. intros H. injection H as <- <-.
    destruct (Rs_nth s ds a d HR HW En) as [c [Ec [W Rc]]]. rewrite Ec.
    eexists _, _. split; [reflexivity|]. splits; auto. apply (contract_refines c d mat rows cols rb W Rc E).
  - (* contract_multi *)
    destruct (nth_error ds a) as [d|] eqn:En; [|discriminate].
    destruct (dcontract_multi d mats) as [rb|] eqn:E; [|discriminate]. intros H. injection H as <- <-.
    destruct (Rs_nth s ds a d HR HW En) as [c [Ec [W Rc]]]. rewrite Ec.
    eexists _, _. split; [reflexivity|]. splits; auto. apply (multi_refines c d mats rb W Rc E).
Qed.

Theorem program_refines p : forall s ds ds' rs', wfs s -> Rs s ds -> drun p ds = Some (ds', rs') ->
  exists s' rs, run p s = (s', rs) /\ wfs s' /\ Rs s' ds' /\ Forall2 Rres rs rs'.
Proof.
  induction p as [|o p IH]; intros s ds ds' rs' HW HR H; cbn [drun run] in *.
  - injection H as <- <-. eexists _, _. split; [reflexivity|]. splits; auto.
  - destruct (dstep o ds) as [[ds1 r1']|] eqn:E1; [|discriminate].
    destruct (drun p ds1) as [[ds2 rs2']|] eqn:E2; [|discriminate]. injection H as <- <-.
    destruct (step_refines o s ds ds1 r1' HW HR E1) as [s1 [r1 [Es [W1 [R1 Hr1]]]]].
    destruct (IH s1 ds1 ds2 rs2' W1 R1 E2) as [s2 [rs2 [Er [W2 [R2 Hrs]]]]].
    rewrite Es, Er. eexists _, _. split; [reflexivity|]. splits; auto.
Qed.

(* ------------------------------------------------------------------ value semantics of the model *)
Definition writes (o : op) : option nat :=
  match o with
  | ONew dst _ _ _ _ | OUn _ dst _ | OBin _ dst _ _ | OMul dst _ _ _ | ORmul dst _ _ _ | OGet dst _ _ _ => Some dst
  | OAddDyad tgt _ _ _ | OIadd tgt _ | OIsub tgt _ | OSet tgt _ _ _ => Some tgt
  | OTodense _ | ODiag _ _ | OContract _ _ _ _ | OContractMulti _ _ => None
  end.

Lemma set_slot_other s m c n : n <> m -> (n < length s)%nat -> nth_error (set_slot s m c) n = nth_error s n.
Proof.
  revert m n. induction s as [|x s IH]; intros m n Hne Hl; cbn in Hl; [lia|].
  destruct m as [|m], n as [|n]; cbn; try reflexivity; try lia. apply IH; lia.
Qed.

Lemma bind_out_other s dst r n : n <> dst -> (n < length s)%nat -> nth_error (fst (bind_out s dst r)) n = nth_error s n.
Proof.
  intros Hne Hl. destruct r as [[c| | | | |]|e]; cbn [bind_out fst]; try reflexivity. apply set_slot_other; assumption.
Qed.

Lemma step_frame o s n : writes o <> Some n -> (n < length s)%nat -> nth_error (fst (step o s)) n = nth_error s n.
Proof.
  intros Hw Hl.
  destruct o as [dst u v r cn|tgt u v fac|k dst src|tgt src|tgt src|k dst a b|dst a x f|dst a x f|a|a k|dst a i j|tgt i j v|a mat rows cols|a mats];
    cbn [writes] in Hw; cbn [step];
    repeat match goal with
           | |- context [match get_slot ?s ?k with _ => _ end] => destruct (get_slot s k)
           | |- context [match arg_operand ?s ?k with _ => _ end] => destruct (arg_operand s k)
           end; cbn [fst]; try reflexivity;
    try (apply bind_out_other; [congruence | assumption]);
    try (unfold bind_inplace; cbn [fst]; apply set_slot_other; [congruence | assumption]).
Qed.


(* ------------------------------------------------------------------ the real / complex type is sound:
   a vector typed float64 holds real data, hence a carrier that reports iscomplex() = False represents a real matrix *)
Definition vreal (v : vec) : Prop := vf v = false -> Forall creal (vd v).
Definition wr (c : carrier) : Prop := forall v, In v (us c) \/ In v (vs c) -> vreal v.
Definition inreal (a : inarr) : Prop := vreal (in_vec a).
Definition wrs (s : store) : Prop := Forall wr s.

Lemma vget_real d i : Forall creal d -> creal (vget d i).
Proof.
  intros F. unfold vget. destruct (Nat.lt_ge_cases i (length d)) as [L|L].
  - rewrite Forall_forall in F. apply F. apply nth_In. exact L.
  - rewrite nth_overflow by lia. reflexivity.
Qed.

Lemma mget_real M i j : Forall (Forall creal) M -> creal (mget M i j).
Proof.
  intros F. unfold mget. apply vget_real. destruct (Nat.lt_ge_cases i (length M)) as [L|L].
  - rewrite Forall_forall in F. apply F. apply nth_In. exact L.
  - rewrite nth_overflow by lia. constructor.
Qed.

Lemma isum_real n f : (forall l, creal (f l)) -> creal (isum n f).
Proof. intros H. unfold isum. apply csum_real. apply Forall_map. apply Forall_forall. intros l _. apply H. Qed.

Lemma vtab_real n f : (forall i, creal (f i)) -> Forall creal (vtab n f).
Proof. intros H. unfold vtab. apply Forall_map. apply Forall_forall. intros i _. apply H. Qed.

Lemma mtab_real r c f : (forall i j, creal (f i j)) -> Forall (Forall creal) (mtab r c f).
Proof. intros H. unfold mtab. apply Forall_map. apply Forall_forall. intros i _. apply vtab_real. apply H. Qed.

Lemma map_real h d : (forall a, creal a -> creal (h a)) -> Forall creal d -> Forall creal (map h d).
Proof. intros H F. apply Forall_map. eapply Forall_impl; [|exact F]. exact H. Qed.

Lemma wr_empty r c : wr (empty r c).
Proof. intros v [[]|[]]. Qed.

Lemma setdims_us c a b : us (setdims c a b) = us c /\ vs (setdims c a b) = vs c.
Proof.
  destruct c as [cu cv cul cvl cf]. unfold setdims. cbn [us vs ulen vlen cplx].
  destruct (cul <? 0); cbn [us vs ulen vlen cplx]; destruct (cvl <? 0); split; reflexivity.
Qed.

Lemma vreal_vscaleZ fac v : vreal v -> vreal (vscaleZ fac v).
Proof.
  intros H. destruct fac as [f|]; [|exact H]. intros Hf. cbn [vscaleZ vd vf] in *.
  apply map_real; [|apply H; exact Hf]. intros a Ha. apply creal_mul; [reflexivity | exact Ha].
Qed.

Lemma add_loop_wr l fac : forall c, wr c -> Forall (fun p => inreal (fst p) /\ inreal (snd p)) l ->
  wr (fst (add_loop c l fac)).
Proof.
  induction l as [|[a b] l IH]; intros c Hc F; [exact Hc|].
  apply Forall_cons_iff in F as [[Ha Hb] F]. cbn [fst snd] in Ha, Hb. rewrite add_loop_cons. cbn zeta.
  destruct (setdims_us c a b) as [E1 E2].
  assert (H2 : wr (setdims c a b)) by (intros v Hv; rewrite E1, E2 in Hv; apply Hc; exact Hv).
  destruct (negb (zlen (vd (in_vec a)) =? ulen (setdims c a b))); [exact H2|].
  destruct (negb (zlen (vd (in_vec b)) =? vlen (setdims c a b))); [exact H2|].
  destruct (vis0 (vd (in_vec a)) || vis0 (vd (in_vec b))); [apply IH; assumption|].
  apply IH; [|exact F]. intros v Hv. cbn [us vs] in Hv. destruct Hv as [Hv|Hv]; apply in_app_or in Hv as [Hv|Hv].
  - apply H2. left. exact Hv.
  - destruct Hv as [<-|[]]. apply vreal_vscaleZ. exact Ha.
  - apply H2. right. exact Hv.
  - destruct Hv as [<-|[]]. exact Hb.
Qed.

Definition uarg_real (u : uarg) : Prop := Forall inreal (parse_to_list u).

Lemma add_dyad_wr c u v fac : wr c -> uarg_real u -> uarg_real v -> wr (fst (add_dyad c u v fac)).
Proof.
  intros Hc Hu Hv. unfold add_dyad.
  destruct (negb (Nat.eqb (length (parse_to_list u)) (length match v with UNone => parse_to_list u | _ => parse_to_list v end)));
    [exact Hc|].
  apply add_loop_wr; [exact Hc|]. apply Forall_forall. intros [a b] Hin. cbn [fst snd].
  unfold uarg_real in *. rewrite Forall_forall in Hu, Hv. split.
  - apply Hu. eapply in_combine_l. exact Hin.
  - apply in_combine_r in Hin. destruct v; [apply Hu | apply Hv | apply Hv]; exact Hin.
Qed.

Lemma vecs_arg_real l : (forall v, In v l -> vreal v) -> uarg_real (vecs_arg l).
Proof.
  intros H. unfold uarg_real, vecs_arg. cbn [parse_to_list]. apply Forall_map. apply Forall_forall.
  intros v Hv. unfold inreal. cbn [in_vec]. intros Hf. cbn [vd vf] in *. apply (H v Hv). exact Hf.
Qed.

Lemma to_res_fst p c' : to_res p = Ok c' -> fst p = c'.
Proof. destruct p as [c [e|]]; cbn; [discriminate | intros H; injection H as <-; reflexivity]. Qed.

Lemma mk_wr ul vl r cn c' : (forall v, In v ul -> vreal v) -> (forall v, In v vl -> vreal v) -> mk ul vl r cn = Ok c' -> wr c'.
Proof.
  intros Hu Hv H. unfold mk, new in H. apply to_res_fst in H. rewrite <- H.
  apply add_dyad_wr; [apply wr_empty | apply vecs_arg_real; exact Hu | apply vecs_arg_real; exact Hv].
Qed.

Lemma in_map_vreal (f : vec -> vec) l : (forall v, In v l -> vreal v) -> (forall v, vreal v -> vreal (f v)) ->
  forall v, In v (map f l) -> vreal v.
Proof. intros H Hf v Hv. apply in_map_iff in Hv as [w [<- Hw]]. apply Hf. apply H. exact Hw. Qed.

Lemma vreal_vmapv h v : (forall a, creal a -> creal (h a)) -> vreal v -> vreal (vmapv h v).
Proof. intros H Hv Hf. cbn [vmapv vd vf] in *. apply map_real; [exact H | apply Hv; exact Hf]. Qed.

Lemma vreal_vmapr h v : (forall a, creal (h a)) -> vreal (vmapr h v).
Proof. intros H _. cbn [vmapr vd]. apply Forall_map. apply Forall_forall. intros a _. apply H. Qed.

Lemma un_wr k c c' : wr c -> un_apply k c = Ok c' -> wr c'.
Proof.
  intros Hc. assert (Hu : forall v, In v (us c) -> vreal v) by (intros v Hv; apply Hc; left; exact Hv).
  assert (Hv : forall v, In v (vs c) -> vreal v) by (intros v Hv; apply Hc; right; exact Hv).
  destruct k; cbn [un_apply]; unfold copy, pos, neg, transpose, conj, real, imag; intros H; apply mk_wr in H; auto.
  - apply in_map_vreal; [exact Hu|]. intros v. apply vreal_vmapv. apply creal_opp.
  - apply in_map_vreal; [exact Hu|]. intros v. apply vreal_vmapv. intros a Ha. rewrite creal_conj by exact Ha. exact Ha.
  - apply in_map_vreal; [exact Hv|]. intros v. apply vreal_vmapv. intros a Ha. rewrite creal_conj by exact Ha. exact Ha.
  - intros v Hin. apply in_app_or in Hin as [Hin|Hin]; apply in_map_iff in Hin as [w [<- _]]; apply vreal_vmapr; intros a;
      [apply creal_re | apply creal_opp; apply creal_im].
  - intros v Hin. apply in_app_or in Hin as [Hin|Hin]; apply in_map_iff in Hin as [w [<- _]]; apply vreal_vmapr; intros a;
      [apply creal_re | apply creal_im].
  - intros v Hin. apply in_app_or in Hin as [Hin|Hin]; apply in_map_iff in Hin as [w [<- _]]; apply vreal_vmapr; intros a;
      [apply creal_re | apply creal_im].
  - intros v Hin. apply in_app_or in Hin as [Hin|Hin]; apply in_map_iff in Hin as [w [<- _]]; apply vreal_vmapr; intros a;
      [apply creal_im | apply creal_re].
Qed.

Lemma vreal_scaled (g : C -> C) f v : (f = false -> forall a, creal a -> creal (g a)) -> vreal v ->
  vreal (mkvec (map g (vd v)) (vf v || f)).
Proof.
  intros Hg Hv Hf. cbn [vd vf] in *. apply orb_false_iff in Hf as [Hf1 Hf2]. apply map_real; [apply Hg; exact Hf2 | apply Hv; exact Hf1].
Qed.

Lemma mul_wr c x f c' : wr c -> (f = false -> creal x) -> mul c x f = Ok c' -> wr c'.
Proof.
  intros Hc Hx H. unfold mul in H. refine (mk_wr _ _ _ _ c' _ _ H).
  - intros v Hv. apply Hc. left. exact Hv.
  - intros v Hin. apply in_map_iff in Hin as [w [<- Hw]]. apply (vreal_scaled (fun a => cmul a x)).
    + intros Hf a Ha. apply creal_mul; [exact Ha | apply Hx; exact Hf].
    + apply Hc. right. exact Hw.
Qed.

Lemma rmul_wr c x f c' : wr c -> (f = false -> creal x) -> rmul c x f = Ok c' -> wr c'.
Proof.
  intros Hc Hx H. unfold rmul in H. refine (mk_wr _ _ _ _ c' _ _ H).
  - intros v Hin. apply in_map_iff in Hin as [w [<- Hw]]. apply (vreal_scaled (cmul x)).
    + intros Hf a Ha. apply creal_mul; [apply Hx; exact Hf | exact Ha].
    + apply Hc. left. exact Hw.
  - intros v Hv. apply Hc. right. exact Hv.
Qed.

Lemma iadd_wr (minus : bool) c o : wr c -> wr o -> wr (fst (if minus then isub c o else iadd c o)).
Proof.
  intros Hc Ho. destruct minus; unfold isub, iadd; apply add_dyad_wr; auto; apply vecs_arg_real; intros v Hv; apply Ho; auto.
Qed.

Lemma map_res_in {A B} (f : A -> res B) l r : map_res f l = Ok r -> forall y, In y r -> exists x, In x l /\ f x = Ok y.
Proof.
  revert r. induction l as [|x l IH]; intros r H y Hy; cbn in H.
  - injection H as <-. destruct Hy.
  - destruct (f x) as [y0|] eqn:E; [|discriminate]. destruct (map_res f l) as [r'|]; [|discriminate]. injection H as <-.
    destruct Hy as [<-|Hy]; [exists x; split; [left; reflexivity | exact E]|].
    destruct (IH r' eq_refl y Hy) as [x' [Hx' E']]. exists x'. split; [right; exact Hx' | exact E'].
Qed.

Definition mreal (f : bool) (m : matr) : Prop := f = false -> Forall (Forall creal) m.

Lemma bin_wr k c x c' : wr c ->
  match x with PDyad o => wr o | PMat _ _ m f => mreal f m | _ => True end ->
  bin_apply k c x = Ok (ODyad c') -> wr c'.
Proof.
  intros Hc Hx.
  assert (Hu : forall v, In v (us c) -> vreal v) by (intros v Hv; apply Hc; left; exact Hv).
  assert (Hv : forall v, In v (vs c) -> vreal v) by (intros v Hv; apply Hc; right; exact Hv).
  assert (ADD : forall o, wr o -> add c (PDyad o) = Ok (ODyad c') -> wr c').
  { intros o Ho H. cbn [add] in H. destruct (negb (shape_eqb o c) && ((size c >? 0) && (size o >? 0))); [discriminate|].
    destruct (copy c) as [c1|] eqn:E1; [|discriminate]. apply (un_wr UCopy c c1 Hc) in E1.
    rewrite lift_to_res in H. pose proof (iadd_wr false c1 o E1 Ho) as Hw. cbn beta iota in Hw.
    destruct (snd (iadd c1 o)); [discriminate|]. injection H as <-. exact Hw. }
  assert (COPY : forall s f, add c (PScal s f) = Ok (ODyad c') -> wr c').
  { intros s f H. cbn [add] in H. destruct (cis0 s); [|discriminate]. destruct (copy c) as [c1|] eqn:E1; [|discriminate].
    cbn in H. injection H as <-. apply (un_wr UCopy c c1 Hc E1). }
  assert (DENSE : forall y, match y with PVec _ _ | PMat _ _ _ _ => True | _ => False end -> add c y <> Ok (ODyad c')).
  { intros y Hy H. destruct y; try contradiction; cbn [add] in H;
      destruct (broadcast_to _ (ulen c) (vlen c)) as [[B fb]|]; discriminate. }
  assert (MM : matmul c x = Ok (ODyad c') -> wr c').
  { destruct x as [s f|d f|nr nc m f|o]; cbn [matmul]; try discriminate.
    - unfold dot_vec. destruct (map_res _ _); discriminate.
    - destruct (map_res _ (vs c)) as [vl|] eqn:E; [|discriminate]. intros H.
      destruct (mk (us c) vl (ulen c) nc) as [c1|] eqn:E1; [|discriminate]. cbn in H. injection H as <-.
      apply mk_wr in E1; auto. intros v Hin. destruct (map_res_in _ _ _ E v Hin) as [w [Hw Ew]].
      destruct (zlen (vd w) =? nr); [|discriminate]. injection Ew as <-. intros Hf. cbn [vd vf] in *.
      apply orb_false_iff in Hf as [Hf1 Hf2]. unfold vecmat. apply vtab_real. intros j. apply isum_real. intros l.
      apply creal_mul; [apply vget_real; apply (Hv w Hw Hf1) | apply mget_real; apply Hx; exact Hf2]. }
  destruct k; cbn [bin_apply]; auto.
  - (* add *) destruct x as [s f|d f|nr nc m f|o]; [apply (COPY s f) | intros H; exfalso; apply (DENSE (PVec d f) I H) | intros H; exfalso; apply (DENSE (PMat nr nc m f) I H) | apply ADD; exact Hx].
  - (* radd *) destruct x as [s f|d f|nr nc m f|o]; [apply (COPY s f) | intros H; exfalso; apply (DENSE (PVec d f) I H) | intros H; exfalso; apply (DENSE (PMat nr nc m f) I H) | apply ADD; exact Hx].
  - (* sub *)
    unfold sub. destruct x as [s f|d f|nr nc m f|o]; cbn [neg_operand].
    + apply (COPY (copp s) f).
    + intros H; exfalso; apply (DENSE (PVec (map copp d) f) I H).
    + intros H; exfalso; apply (DENSE (PMat nr nc (mmap copp m) f) I H).
    + destruct (neg o) as [o'|] eqn:E; [|discriminate]. apply ADD. apply (un_wr UNeg o o' Hx E).
  - (* rsub *)
    destruct x as [s f|d f|nr nc m f|o]; cbn [rsub]; try discriminate.
    + destruct (cis0 s); [|discriminate]. destruct (copy c) as [c1|] eqn:E1; [|discriminate].
      destruct (neg c1) as [c2|] eqn:E2; [|discriminate]. cbn. intros H. injection H as <-.
      apply (un_wr UNeg c1 c2 (un_wr UCopy c c1 Hc E1) E2).
    + destruct (broadcast_to _ (ulen c) (vlen c)) as [[B fb]|]; discriminate.
    + destruct (broadcast_to _ (ulen c) (vlen c)) as [[B fb]|]; discriminate.
  - (* rmatmul *)
    destruct x as [s f|d f|nr nc m f|o]; cbn [rmatmul]; try discriminate.
    + unfold rdot_vec. destruct (map_res _ _); discriminate.
    + destruct (map_res _ (us c)) as [ul|] eqn:E; [|discriminate]. intros H.
      destruct (mk ul (vs c) nr (vlen c)) as [c1|] eqn:E1; [|discriminate]. cbn in H. injection H as <-.
      apply mk_wr in E1; auto. intros v Hin. destruct (map_res_in _ _ _ E v Hin) as [w [Hw Ew]].
      destruct (nc =? zlen (vd w)); [|discriminate]. injection Ew as <-. intros Hf. cbn [vd vf] in *.
      apply orb_false_iff in Hf as [Hf1 Hf2]. unfold matvec. apply Forall_map. apply Forall_forall. intros row Hrow.
      unfold vdot. apply isum_real. intros l. apply creal_mul; [|apply vget_real; apply (Hu w Hw Hf1)].
      apply vget_real. specialize (Hx Hf2). rewrite Forall_forall in Hx. apply Hx. exact Hrow.
Qed.

Lemma vreal_subu ps v : vreal v -> vreal (subu ps v).
Proof.
  intros Hv Hf. cbn [subu vd vf] in *. unfold vtake. apply Forall_map. apply Forall_forall. intros k _.
  apply vget_real. apply Hv. exact Hf.
Qed.

Lemma get_wr c i j c' : wr c -> getitem c i j = Ok (ODyad c') -> wr c'.
Proof.
  intros Hc. unfold getitem.
  destruct ((ulen c <? 0) && (vlen c <? 0)); [intros H; injection H as <-; apply wr_empty|].
  destruct (ulen c <? 0); [discriminate|]. destruct (idx_pos (ulen c) i) as [pu|]; [|discriminate].
  destruct (vlen c <? 0); [discriminate|]. destruct (idx_pos (vlen c) j) as [pv|]; [|discriminate].
  destruct (idx_arr i && idx_arr j && negb (Nat.eqb (length pu) (length pv))); [discriminate|].
  destruct (idx_scalar i || idx_scalar j || idx_arr i && idx_arr j).
  - destruct (idx_scalar i && idx_scalar j); discriminate.
  - change (map (fun u => mkvec (vtake (vd u) pu) (vf u)) (us c)) with (map (subu pu) (us c)).
    change (map (fun v => mkvec (vtake (vd v) pv) (vf v)) (vs c)) with (map (subu pv) (vs c)).
    destruct (mk (map (subu pu) (us c)) (map (subu pv) (vs c)) (zlen pu) (zlen pv)) as [c1|] eqn:E; [|discriminate].
    cbn. intros H. injection H as <-. refine (mk_wr _ _ _ _ c1 _ _ E).
    + apply in_map_vreal; [intros v Hv; apply Hc; left; exact Hv | intros v; apply vreal_subu].
    + apply in_map_vreal; [intros v Hv; apply Hc; right; exact Hv | intros v; apply vreal_subu].
Qed.

Lemma vec_set0_real ix v v' : vreal v -> vec_set0 ix v = Ok v' -> vreal v'.
Proof.
  intros Hv. unfold vec_set0. destruct (idx_null ix); [intros H; injection H as <-; exact Hv|].
  destruct (idx_pos (zlen (vd v)) ix) as [ps|]; [|discriminate]. intros H. injection H as <-.
  intros Hf. cbn [vd vf] in *. unfold vset0. apply vtab_real. intros k.
  destruct (existsb (Z.eqb (Z.of_nat k)) ps); [reflexivity | apply vget_real; apply Hv; exact Hf].
Qed.

Lemma set_loop_wr i j : forall ul vl, (forall v, In v ul -> vreal v) -> (forall v, In v vl -> vreal v) ->
  (forall v, In v (fst (fst (set_loop i j ul vl))) -> vreal v) /\ (forall v, In v (snd (fst (set_loop i j ul vl))) -> vreal v).
Proof.
  induction ul as [|u ul IH]; intros vl Hu Hv; [cbn; auto|]. destruct vl as [|v vl]; [cbn; auto|]. cbn [set_loop].
  destruct (vec_set0 i u) as [u'|] eqn:Eu; [|cbn; auto].
  pose proof (vec_set0_real i u u' (Hu u (or_introl eq_refl)) Eu) as Hu'.
  destruct (vec_set0 j v) as [v'|] eqn:Ev.
  - pose proof (vec_set0_real j v v' (Hv v (or_introl eq_refl)) Ev) as Hv'.
    destruct (IH vl (fun w Hw => Hu w (or_intror Hw)) (fun w Hw => Hv w (or_intror Hw))) as [I1 I2].
    destruct (set_loop i j ul vl) as [[a b] e]. cbn [fst snd] in *. split; intros w [<-|Hw]; auto.
  - cbn [fst snd]. split; [intros w [<-|Hw]; auto | exact Hv]. apply Hu. right. exact Hw.
Qed.

Lemma set_wr c i j v : wr c -> wr (fst (setitem c i j v)).
Proof.
  intros Hc. unfold setitem. destruct (negb (cis0 v)); [exact Hc|].
  destruct (negb (idx_null i) && negb (idx_null j)); [exact Hc|].
  destruct (idx_null i && idx_null j); [intros w [[]|[]]|].
  destruct (set_loop_wr i j (us c) (vs c) (fun w Hw => Hc w (or_introl Hw)) (fun w Hw => Hc w (or_intror Hw))) as [I1 I2].
  destruct (set_loop i j (us c) (vs c)) as [[a b] e]. cbn [fst snd us vs] in *. intros w [Hw|Hw]; auto.
Qed.

Definition op_real (o : op) : Prop :=
  match o with
  | ONew _ u v _ _ | OAddDyad _ u v _ => uarg_real u /\ uarg_real v
  | OMul _ _ x f | ORmul _ _ x f => f = false -> creal x
  | OBin _ _ _ (AMat _ _ m f) => mreal f m
  | _ => True
  end.

Lemma set_slot_wrs s n c : wrs s -> wr c -> wrs (set_slot s n c).
Proof.
  intros HW W. revert n. induction HW as [|c0' s W0 HW IH]; intros n.
  - cbn. destruct n; constructor; auto; constructor.
  - destruct n as [|n]; cbn; constructor; auto. apply IH.
Qed.

Lemma get_slot_wr s n c : wrs s -> get_slot s n = Ok c -> wr c.
Proof.
  intros HW H. unfold get_slot in H. destruct (nth_error s n) as [c1|] eqn:E; [|discriminate]. injection H as <-.
  unfold wrs in HW. rewrite Forall_forall in HW. apply HW. eapply nth_error_In. exact E.
Qed.

Lemma bind_out_wrs s dst r : wrs s -> (forall c', r = Ok (ODyad c') -> wr c') -> wrs (fst (bind_out s dst r)).
Proof.
  intros HW H. destruct r as [[c'| | | | |]|e]; cbn [bind_out fst]; auto. apply set_slot_wrs; [exact HW | apply H; reflexivity].
Qed.

Lemma lift_ok r c' : lift r = Ok (ODyad c') -> r = Ok c'.
Proof. destruct r; cbn; [intros H; injection H as <-; reflexivity | discriminate]. Qed.

Lemma step_wr o s : wrs s -> op_real o -> wrs (fst (step o s)).
Proof.
  intros HW Ho.
  destruct o as [dst u v r cn|tgt u v fac|k dst src|tgt src|tgt src|k dst a b|dst a x f|dst a x f|a|a k|dst a i j|tgt i j v|a mat rows cols|a mats];
    cbn [step op_real] in *.
  - apply bind_out_wrs; [exact HW|]. intros c' H. apply lift_ok in H. unfold new in H. apply to_res_fst in H. rewrite <- H.
    destruct Ho as [H1 H2]. apply add_dyad_wr; [apply wr_empty | exact H1 | exact H2].
  - destruct (get_slot s tgt) as [c|] eqn:E; [|exact HW]. unfold bind_inplace. cbn [fst]. apply set_slot_wrs; [exact HW|].
    destruct Ho as [H1 H2]. apply add_dyad_wr; [apply (get_slot_wr s tgt c HW E) | exact H1 | exact H2].
  - destruct (get_slot s src) as [c|] eqn:E; [|exact HW]. apply bind_out_wrs; [exact HW|]. intros c' H. apply lift_ok in H.
    apply (un_wr k c c' (get_slot_wr s src c HW E) H).
  - destruct (get_slot s tgt) as [c|] eqn:E; [|exact HW]. destruct (get_slot s src) as [o|] eqn:Eo; [|exact HW].
    unfold bind_inplace. cbn [fst]. apply set_slot_wrs; [exact HW|].
    apply (iadd_wr false c o (get_slot_wr s tgt c HW E) (get_slot_wr s src o HW Eo)).
  - destruct (get_slot s tgt) as [c|] eqn:E; [|exact HW]. destruct (get_slot s src) as [o|] eqn:Eo; [|exact HW].
    unfold bind_inplace. cbn [fst]. apply set_slot_wrs; [exact HW|].
    apply (iadd_wr true c o (get_slot_wr s tgt c HW E) (get_slot_wr s src o HW Eo)).
  - destruct (get_slot s a) as [c|] eqn:E; [|exact HW]. destruct (arg_operand s b) as [x|] eqn:Ex; [|exact HW].
    apply bind_out_wrs; [exact HW|]. intros c' H. apply (bin_wr k c x c' (get_slot_wr s a c HW E)); [|exact H].
    destruct b as [sx f|d f|nr nc m f|n]; cbn [arg_operand] in Ex.
    + injection Ex as <-. exact I.
    + injection Ex as <-. exact I.
    + injection Ex as <-. exact Ho.
    + destruct (get_slot s n) as [o|] eqn:Eo; [|discriminate]. injection Ex as <-. apply (get_slot_wr s n o HW Eo).
  - destruct (get_slot s a) as [c|] eqn:E; [|exact HW]. apply bind_out_wrs; [exact HW|]. intros c' H. apply lift_ok in H.
    apply (mul_wr c x f c' (get_slot_wr s a c HW E) Ho H).
  - destruct (get_slot s a) as [c|] eqn:E; [|exact HW]. apply bind_out_wrs; [exact HW|]. intros c' H. apply lift_ok in H.
    apply (rmul_wr c x f c' (get_slot_wr s a c HW E) Ho H).
  - destruct (get_slot s a); exact HW.
  - destruct (get_slot s a); exact HW.
  - destruct (get_slot s a) as [c|] eqn:E; [|exact HW]. apply bind_out_wrs; [exact HW|]. intros c' H.
    apply (get_wr c i j c' (get_slot_wr s a c HW E) H).
  - destruct (get_slot s tgt) as [c|] eqn:E; [|exact HW]. unfold bind_inplace. cbn [fst]. apply set_slot_wrs; [exact HW|].
    apply set_wr. apply (get_slot_wr s tgt c HW E).
  - destruct (get_slot s a); exact HW.
  - destruct (get_slot s a); exact HW.
Qed.

Lemma run_wr p : forall s, wrs s -> Forall op_real p -> wrs (fst (run p s)).
Proof.
  induction p as [|o p IH]; intros s HW F; [exact HW|]. apply Forall_cons_iff in F as [Ho F]. cbn [run].
  pose proof (step_wr o s HW Ho) as H1. destruct (step o s) as [s1 r]. cbn [fst] in H1.
  pose proof (IH s1 H1 F) as H2. destruct (run p s1) as [s2 rs]. exact H2.
Qed.

(* a carrier that is not complex represents a real matrix *)
Lemma real_type c : wf c -> wr c -> cplx c = false -> Forall (Forall creal) (todense c).
Proof.
  intros W Hr Hc. rewrite todense_tab by exact W. apply mtab_real. intros i j. unfold psum, psumf. apply csum_real.
  apply Forall_map. apply Forall_forall. intros [u v] Hin. cbn [fst snd]. unfold ent.
  assert (Fu : vf u = false).
  { destruct (vf u) eqn:E; [|reflexivity]. rewrite (wf_f _ W u (or_introl (in_combine_l _ _ _ _ Hin)) E) in Hc. discriminate. }
  assert (Fv : vf v = false).
  { destruct (vf v) eqn:E; [|reflexivity]. rewrite (wf_f _ W v (or_intror (in_combine_r _ _ _ _ Hin)) E) in Hc. discriminate. }
  apply creal_mul; apply vget_real; [apply (Hr u (or_introl (in_combine_l _ _ _ _ Hin)) Fu) | apply (Hr v (or_intror (in_combine_r _ _ _ _ Hin)) Fv)].
Qed.

Theorem program_real_type p s ds ds' rs' : wfs s -> wrs s -> Rs s ds -> Forall op_real p -> drun p ds = Some (ds', rs') ->
  forall c, In c (fst (run p s)) -> cplx c = false -> Forall (Forall creal) (todense c).
Proof.
  intros HW Hr HR Ho Hd c Hin Hc.
  destruct (program_refines p s ds ds' rs' HW HR Hd) as [s' [rs [Er [W' _]]]].
  pose proof (run_wr p s Hr Ho) as Hr'. rewrite Er in Hin, Hr'. cbn [fst] in *.
  unfold wfs, wrs in *. rewrite Forall_forall in W', Hr'. apply real_type; auto.
Qed.

(* ------------------------------------------------------------------ no hidden state: what an operation returns is a
   function of the matrices the carriers currently represent, whatever sequence of operations produced them.
   (Consequences of step_refines / program_refines; stated separately because a cache that survives an in-place
   operation is exactly a violation of these statements.) *)

(* the pure reads leave the whole store as it is *)
Lemma read_keeps_store o s : writes o = None -> fst (step o s) = s.
Proof.
  intros Hw.
  destruct o as [dst u v r cn|tgt u v fac|k dst src|tgt src|tgt src|k dst a b|dst a x f|dst a x f|a|a k|dst a i j|tgt i j v|a mat rows cols|a mats];
    cbn [writes] in Hw; try discriminate; cbn [step]; destruct (get_slot s a); reflexivity.
Qed.

(* two results that have the same dense image: same value and shape (carriers: same represented matrix), same error *)
Definition same_value (a b : res out) : Prop :=
  match a, b with
  | Ok (ODyad c1), Ok (ODyad c2) => ulen c1 = ulen c2 /\ vlen c1 = vlen c2 /\ todense c1 = todense c2
  | Ok (OScal x _), Ok (OScal y _) => x = y
  | Ok (OVec x _), Ok (OVec y _) => x = y
  | Ok (OMat r c x _), Ok (OMat r' c' y _) => r = r' /\ c = c' /\ x = y
  | Ok (OBatch bs x _), Ok (OBatch bs' y _) => bs = bs' /\ x = y
  | Ok ONone, Ok ONone => True
  | Er e, Er e' => e = e'
  | _, _ => False
  end.

Lemma Rres_same_value a b r : Rres a r -> Rres b r -> same_value a b.
Proof.
  destruct a as [x|e], b as [y|e'], r as [z|e'']; cbn [Rres]; try contradiction.
  - destruct z as [d|o].
    + destruct x as [c1| | | | |], y as [c2| | | | |]; cbn [Rout out_le]; try contradiction.
      intros [_ [U1 [V1 [M1 _]]]] [_ [U2 [V2 [M2 _]]]]. cbn [same_value]. repeat split; congruence.
    + destruct x as [c1|x1 f1|x1 f1|r1 n1 x1 f1|b1 x1 f1|], o as [c3|x3 f3|x3 f3|r3 n3 x3 f3|b3 x3 f3|];
        cbn [Rout out_le]; try contradiction;
        destruct y as [c2|x2 f2|x2 f2|r2 n2 x2 f2|b2 x2 f2|]; cbn [Rout out_le]; try contradiction; cbn [same_value].
      * intros [E1 _] [E2 _]. congruence.
      * intros [E1 _] [E2 _]. congruence.
      * intros [A1 [B1 [E1 _]]] [A2 [B2 [E2 _]]]. repeat split; congruence.
      * intros [A1 [E1 _]] [A2 [E2 _]]. repeat split; congruence.
      * intros _ _. exact I.
  - intros E1 E2. cbn [same_value]. congruence.
Qed.

(* one operation applied to two stores with the same dense image *)
Theorem step_no_hidden_state o s1 s2 ds ds' r' : wfs s1 -> wfs s2 -> Rs s1 ds -> Rs s2 ds -> dstep o ds = Some (ds', r') ->
  same_value (snd (step o s1)) (snd (step o s2)) /\ Rs (fst (step o s1)) ds' /\ Rs (fst (step o s2)) ds'.
Proof.
  intros W1 W2 R1 R2 H.
  destruct (step_refines o s1 ds ds' r' W1 R1 H) as [s1' [r1 [E1 [_ [Rs1 Rr1]]]]].
  destruct (step_refines o s2 ds ds' r' W2 R2 H) as [s2' [r2 [E2 [_ [Rs2 Rr2]]]]].
  rewrite E1, E2. cbn [fst snd]. split; [exact (Rres_same_value _ _ _ Rr1 Rr2) | split; assumption].
Qed.

(* the same after two arbitrary histories (programs from the empty store) that lead to the same matrices: every
   further operation (a read in particular) returns the same value after both *)
Theorem history_independence p1 p2 ds rs1 rs2 o ds' r' :
  drun p1 [] = Some (ds, rs1) -> drun p2 [] = Some (ds, rs2) -> dstep o ds = Some (ds', r') ->
  same_value (snd (step o (fst (run p1 [])))) (snd (step o (fst (run p2 [])))) /\
  Rres (snd (step o (fst (run p1 [])))) r'.
Proof.
  intros H1 H2 H.
  destruct (program_refines p1 [] [] ds rs1 (Forall_nil _) (Forall2_nil _) H1) as [s1 [o1 [E1 [W1 [R1 _]]]]].
  destruct (program_refines p2 [] [] ds rs2 (Forall_nil _) (Forall2_nil _) H2) as [s2 [o2 [E2 [W2 [R2 _]]]]].
  rewrite E1, E2. cbn [fst].
  destruct (step_refines o s1 ds ds' r' W1 R1 H) as [s1' [r1 [F1 [_ [_ Rr1]]]]].
  destruct (step_refines o s2 ds ds' r' W2 R2 H) as [s2' [r2 [F2 [_ [_ Rr2]]]]].
  rewrite F1, F2. cbn [snd]. split; [exact (Rres_same_value _ _ _ Rr1 Rr2) | exact Rr1].
Qed.
