(* Lemmas about Model/Pad.v : numpy.pad index semantics, the per-axis padding sequence of
   FilterConv._process_padding, its lift to the 3-D index array and the value overrides. *)
From Coq Require Import ZArith List Lia Bool.
From Pymoto Require Import Base.Num Model.Grid Model.Pad Proofs.GridP.
Import ListNotations.
Open Scope Z_scope.

(* ------------------------------------------------------------------ zrange / nth *)
Lemma nth_map_zrange {A} (f : Z -> A) n i d : 0 <= i < n -> nth (Z.to_nat i) (map f (zrange n)) d = f i.
Proof.
  intros Hi. unfold zrange. rewrite map_map.
  rewrite nth_indep with (d' := f (Z.of_nat 0)) by (rewrite map_length, seq_length; lia).
  rewrite map_nth with (f := fun k => f (Z.of_nat k)) (d := 0%nat).
  rewrite seq_nth by lia. f_equal. lia.
Qed.

Lemma map_zrange_length {A} (f : Z -> A) n : length (map f (zrange n)) = Z.to_nat n.
Proof. rewrite map_length. apply zrange_length. Qed.

Lemma map_zrange_ext {A} (f h : Z -> A) n : (forall i, 0 <= i < n -> f i = h i) -> map f (zrange n) = map h (zrange n).
Proof. intros E. apply map_ext_in. intros i Hi. apply in_zrange in Hi. auto. Qed.

Lemma nth_repeat_same {A} (x : A) m k : nth k (repeat x m) x = x.
Proof. revert k; induction m as [|m IH]; intros [|k]; cbn; auto. Qed.

(* ------------------------------------------------------------------ the periodic mirror index *)
Lemma sym_idx_range n i : 0 < n -> 0 <= sym_idx n i < n.
Proof.
  intros Hn. unfold sym_idx. pose proof (Z.mod_pos_bound i (2 * n) ltac:(lia)) as B.
  destruct (Z.ltb_spec (i mod (2 * n)) n); lia.
Qed.

Lemma sym_idx_in n i : 0 <= i < n -> sym_idx n i = i.
Proof.
  intros Hi. unfold sym_idx. rewrite Z.mod_small by lia. destruct (Z.ltb_spec i n); lia.
Qed.

Lemma sym_idx_hi n i : n <= i < 2 * n -> sym_idx n i = 2 * n - 1 - i.
Proof.
  intros Hi. unfold sym_idx. rewrite Z.mod_small by lia. destruct (Z.ltb_spec i n); lia.
Qed.

Lemma sym_idx_period n i : 0 < n -> sym_idx n (i + 2 * n) = sym_idx n i.
Proof.
  intros Hn. unfold sym_idx. replace (i + 2 * n) with (i + 1 * (2 * n)) by lia.
  rewrite Z.mod_add by lia. reflexivity.
Qed.

Lemma sym_idx_lo n i : - n <= i < 0 -> sym_idx n i = - 1 - i.
Proof.
  intros Hi. assert (Hn : 0 < n) by lia.
  rewrite <- sym_idx_period by lia. rewrite sym_idx_hi by lia. lia.
Qed.

(* mirror symmetry of the periodic extension about the boundary face *)
Lemma sym_idx_reflect n i : 0 < n -> sym_idx n (- 1 - i) = sym_idx n i.
Proof.
  intros Hn. unfold sym_idx.
  pose proof (Z.mod_pos_bound i (2 * n) ltac:(lia)) as B.
  pose proof (Z.div_mod i (2 * n) ltac:(lia)) as D.
  assert (E : (- 1 - i) mod (2 * n) = 2 * n - 1 - i mod (2 * n)).
  { symmetry. apply Z.mod_unique with (q := - (i / (2 * n)) - 1); lia. }
  rewrite E.
  destruct (Z.ltb_spec (i mod (2 * n)) n); destruct (Z.ltb_spec (2 * n - 1 - i mod (2 * n)) n); lia.
Qed.

(* ------------------------------------------------------------------ numpy.pad along one axis *)
Lemma np_src_range md n j t : 1 <= n -> np_src md n j = Some t -> 0 <= t < n.
Proof.
  intros Hn. unfold np_src.
  destruct (Z.leb_spec 0 j); destruct (Z.ltb_spec j n); cbn [andb]; try (intros E; inversion E; subst; lia).
  all: destruct md; intros E; inversion E; subst;
    try (apply sym_idx_range; lia); try (apply Z.mod_pos_bound; lia);
    try (destruct (Z.ltb_spec j 0); lia).
Qed.

Lemma np_pad_length {A} md (c : A) pl pr l :
  length (np_pad md c pl pr l) = Z.to_nat (Z.of_nat (length l) + pl + pr).
Proof. unfold np_pad. apply map_zrange_length. Qed.

Lemma np_pad_nth {A} md (c d : A) pl pr l i : 0 <= i < Z.of_nat (length l) + pl + pr ->
  nth (Z.to_nat i) (np_pad md c pl pr l) d =
  match np_src md (Z.of_nat (length l)) (i - pl) with Some t => nth (Z.to_nat t) l c | None => c end.
Proof. intros Hi. unfold np_pad. rewrite nth_map_zrange by lia. reflexivity. Qed.

(* a list that reads the entries of l through an index function *)
Definition via {A} (c : A) (l : list A) (f : Z -> option Z) (len : Z) : list A :=
  map (fun i => match f i with Some t => nth (Z.to_nat t) l c | None => c end) (zrange len).

Lemma via_length {A} (c : A) l f len : 0 <= len -> Z.of_nat (length (via c l f len)) = len.
Proof. intros. unfold via. rewrite map_zrange_length. lia. Qed.

Lemma via_id {A} (c : A) l : l = via c l Some (Z.of_nat (length l)).
Proof.
  apply nth_ext with (d := c) (d' := c).
  - unfold via. rewrite map_zrange_length. lia.
  - intros k Hk. unfold via.
    replace k with (Z.to_nat (Z.of_nat k)) at 2 by lia.
    rewrite nth_map_zrange by lia. f_equal. lia.
Qed.

Definition stage (md : npmode) (len pl : Z) (f : Z -> option Z) : Z -> option Z :=
  fun i => match np_src md len (i - pl) with Some t => f t | None => None end.

Lemma np_pad_via {A} md (c : A) pl pr l f len : 1 <= len -> 0 <= pl -> 0 <= pr ->
  np_pad md c pl pr (via c l f len) = via c l (stage md len pl f) (len + pl + pr).
Proof.
  intros Hlen Hpl Hpr. unfold np_pad. rewrite via_length by lia.
  unfold via at 2. apply map_zrange_ext. intros i Hi. unfold stage.
  destruct (np_src md len (i - pl)) as [t|] eqn:E; [|reflexivity].
  apply np_src_range in E; [|lia].
  unfold via. rewrite nth_map_zrange by lia. reflexivity.
Qed.

(* ------------------------------------------------------------------ the per-axis sequence as an index function *)
Definition npmode_of {K} (m : bmode K) : npmode :=
  match m with BSym => NpSym | BEdge => NpEdge | BWrap => NpWrap | BConst _ => NpConst end.

Definition axis_srcf {K} (m0 m1 : bmode K) (n p : Z) : Z -> option Z :=
  let wl := if is_wrap m0 then p else 0 in
  let wr := if is_wrap m1 then p else 0 in
  let fa := if is_wrap m0 || is_wrap m1 then stage NpWrap n wl Some else Some in
  let la := if is_wrap m0 || is_wrap m1 then n + wl + wr else n in
  let fb := if is_wrap m1 then fa else stage (npmode_of m1) la 0 fa in
  let lb := if is_wrap m1 then la else la + 0 + p in
  if is_wrap m0 then fb else stage (npmode_of m0) lb p fb.

Lemma axis_pad_via {K A} (c : A) (m0 m1 : bmode K) p l :
  1 <= Z.of_nat (length l) -> 0 <= p ->
  axis_pad c m0 m1 p l = via c l (axis_srcf m0 m1 (Z.of_nat (length l)) p) (Z.of_nat (length l) + 2 * p).
Proof.
  intros Hn Hp. set (n := Z.of_nat (length l)) in *.
  assert (E : l = via c l Some n) by apply via_id.
  rewrite E at 1. clear E.
  unfold axis_pad, axis_srcf. cbv zeta.
  destruct m0, m1; cbn [is_wrap orb npmode_of];
    repeat (rewrite np_pad_via by lia); f_equal; lia.
Qed.

Definition opt_of_src {K} (s : src K) : option Z := match s with SIdx t => Some t | SConst _ => None end.

Definition out_rule (md : npmode) (n j : Z) : option Z :=
  match md with
  | NpSym => Some (sym_idx n j)
  | NpEdge => Some (if j <? 0 then 0 else n - 1)
  | NpWrap => Some (j mod n)
  | NpConst => None
  end.

Lemma np_src_in md n j : 0 <= j < n -> np_src md n j = Some j.
Proof.
  intros Hj. unfold np_src.
  destruct (Z.leb_spec 0 j); destruct (Z.ltb_spec j n); cbn [andb]; try lia; reflexivity.
Qed.

Lemma np_src_out md n j : j < 0 \/ n <= j -> np_src md n j = out_rule md n j.
Proof.
  intros Hj. unfold np_src.
  destruct (Z.leb_spec 0 j); destruct (Z.ltb_spec j n); cbn [andb]; try lia; reflexivity.
Qed.

Ltac src_step :=
  match goal with
  | |- context [np_src ?md ?n ?j] =>
      first [ rewrite (np_src_in md n j) by lia
            | rewrite (np_src_out md n j) by lia; cbn [out_rule] ]
  end.
Ltac sym_step :=
  match goal with
  | |- context [sym_idx ?n ?j] =>
      first [ rewrite (sym_idx_lo n j) by lia | rewrite (sym_idx_hi n j) by lia | rewrite (sym_idx_in n j) by lia ]
  end.
Ltac ltb_step :=
  match goal with
  | |- context [Z.ltb ?a ?b] => destruct (Z.ltb_spec a b); try lia
  | |- context [Z.leb ?a ?b] => destruct (Z.leb_spec a b); try lia
  end.

(* the faithful sequence reads, at every position of the padded axis, what the per-side rule says *)
Lemma axis_srcf_ext1 {K} (m0 m1 : bmode K) n p i :
  1 <= n -> 0 <= p -> (p <= n \/ modes_compatible m0 m1 = true) -> 0 <= i < n + 2 * p ->
  axis_srcf m0 m1 n p i = opt_of_src (ext1 m0 m1 n (i - p)).
Proof.
  intros Hn Hp Hc Hi.
  assert (Hc' : modes_compatible m0 m1 = false -> p <= n).
  { intros E. destruct Hc as [Hc|Hc]; [exact Hc|congruence]. }
  clear Hc.
  remember (i - p) as j eqn:Ej.
  assert (Hj : - p <= j < n + p) by lia.
  unfold axis_srcf, stage, ext1.
  destruct m0, m1; cbn [is_wrap orb npmode_of modes_compatible] in *;
    rewrite ?Z.sub_0_r, ?Z.add_0_r, <- ?Ej;
    first [specialize (Hc' eq_refl) | clear Hc'].
  all: destruct (Z_lt_le_dec j 0) as [J0|J0]; [|destruct (Z_lt_le_dec j n) as [Jn|Jn]].
  all: repeat ltb_step; repeat src_step; cbn [opt_of_src].
  all: rewrite ?Z.sub_0_r, ?Z.add_0_r.
  all: try reflexivity.
  all: try (subst j; reflexivity).
  all: repeat sym_step; repeat ltb_step; repeat src_step; repeat sym_step; cbn [opt_of_src].
  all: try reflexivity.
  all: try (f_equal; lia).
  (* sym, sym with the left mirror reaching beyond one period *)
  destruct (Z_lt_le_dec (- 1 - j) n) as [Jm|Jm].
  - src_step. sym_step. reflexivity.
  - src_step. rewrite sym_idx_reflect by lia. reflexivity.
Qed.

(* main 1-D statement: entry i of the padded axis reads what the ideal extension prescribes *)
Definition reads {K A} (c : A) (l : list A) (s : src K) : A :=
  match s with SIdx t => nth (Z.to_nat t) l c | SConst _ => c end.

Theorem axis_pad_nth {K A} (c d : A) (m0 m1 : bmode K) p l i :
  1 <= Z.of_nat (length l) -> 0 <= p -> (p <= Z.of_nat (length l) \/ modes_compatible m0 m1 = true) ->
  0 <= i < Z.of_nat (length l) + 2 * p ->
  nth (Z.to_nat i) (axis_pad c m0 m1 p l) d = reads c l (ext1 m0 m1 (Z.of_nat (length l)) (i - p)).
Proof.
  intros Hn Hp Hc Hi. set (n := Z.of_nat (length l)) in *. rewrite axis_pad_via by assumption. fold n.
  unfold via. rewrite nth_map_zrange by lia.
  rewrite axis_srcf_ext1 by assumption.
  destruct (ext1 m0 m1 n (i - p)); reflexivity.
Qed.

Lemma axis_pad_length {K A} (c : A) (m0 m1 : bmode K) p l :
  1 <= Z.of_nat (length l) -> 0 <= p ->
  length (axis_pad c m0 m1 p l) = Z.to_nat (Z.of_nat (length l) + 2 * p).
Proof. intros Hn Hp. rewrite axis_pad_via by assumption. unfold via. apply map_zrange_length. Qed.

(* within one period beyond either boundary the periodic rules are the elementary ones *)
Lemma ext1_simple_eq {K} (m0 m1 : bmode K) n i : 1 <= n -> - n <= i < 2 * n -> ext1 m0 m1 n i = ext1_simple m0 m1 n i.
Proof.
  intros Hn Hi. unfold ext1, ext1_simple.
  destruct (Z.ltb_spec i 0); [|destruct (Z.leb_spec n i)]; try reflexivity.
  - destruct m0; try reflexivity.
    + rewrite sym_idx_lo by lia. reflexivity.
    + f_equal. symmetry. apply Z.mod_unique with (q := -1); lia.
  - destruct m1; try reflexivity.
    + rewrite sym_idx_hi by lia. reflexivity.
    + f_equal. symmetry. apply Z.mod_unique with (q := 1); lia.
Qed.

Lemma ext1_idx_range {K} (m0 m1 : bmode K) n i t : 1 <= n -> ext1 m0 m1 n i = SIdx t -> 0 <= t < n.
Proof.
  intros Hn. unfold ext1.
  destruct (Z.ltb_spec i 0); [|destruct (Z.leb_spec n i)].
  - destruct m0; intros E; inversion E; subst; try lia; try (apply sym_idx_range; lia); apply Z.mod_pos_bound; lia.
  - destruct m1; intros E; inversion E; subst; try lia; try (apply sym_idx_range; lia); apply Z.mod_pos_bound; lia.
  - intros E; inversion E; subst; lia.
Qed.

Lemma ext1_inside {K} (m0 m1 : bmode K) n i : 0 <= i < n -> ext1 m0 m1 n i = SIdx i.
Proof. intros Hi. unfold ext1. destruct (Z.ltb_spec i 0); [lia|]. destruct (Z.leb_spec n i); [lia|]. reflexivity. Qed.

(* the four incompatible mode pairs really differ from the periodic per-side rule once pad > n *)
Lemma axis_pad_mixed_large_differs :
  let l := [10; 11; 12] in
  let ideal (m0 m1 : bmode Z) := map (fun i => reads 0 l (ext1 m0 m1 3 (i - 5))) (zrange 13) in
  axis_pad 0 (@BSym Z) BEdge 5 l <> ideal BSym BEdge /\
  axis_pad 0 (@BSym Z) BWrap 5 l <> ideal BSym BWrap /\
  axis_pad 0 BSym (BConst 7) 5 l <> ideal BSym (BConst 7) /\
  axis_pad 0 (@BWrap Z) BSym 5 l <> ideal BWrap BSym.
Proof. repeat split; vm_compute; discriminate. Qed.

(* ------------------------------------------------------------------ exact description of the oversize mixed cases *)
(* away from the mirrored side the faithful sequence is the per-side rule for EVERY pad size and mode pair *)
Lemma axis_srcf_right_part {K} (m0 m1 : bmode K) n p i :
  1 <= n -> 0 <= p -> p <= i < n + 2 * p -> is_wrap m0 = false ->
  axis_srcf m0 m1 n p i = opt_of_src (ext1 m0 m1 n (i - p)).
Proof.
  intros Hn Hp Hi Hw.
  remember (i - p) as j eqn:Ej.
  assert (Hj : 0 <= j < n + p) by lia.
  unfold axis_srcf, stage, ext1.
  destruct m0, m1; cbn [is_wrap orb npmode_of] in *; try discriminate;
    rewrite ?Z.sub_0_r, ?Z.add_0_r, <- ?Ej.
  all: destruct (Z_lt_le_dec j n) as [Jn|Jn].
  all: repeat ltb_step; repeat src_step; cbn [opt_of_src].
  all: rewrite ?Z.sub_0_r, ?Z.add_0_r.
  all: try reflexivity.
  all: repeat sym_step; repeat ltb_step; repeat src_step; repeat sym_step; cbn [opt_of_src].
  all: try reflexivity.
  all: try (f_equal; lia).
Qed.

(* symmetric on the left: the left pad mirrors the ALREADY RIGHT-EXTENDED array about the left boundary face *)
Lemma stage_sym_mirror lb p (fb : Z -> option Z) i : 0 <= p <= lb -> 0 <= i < p ->
  stage NpSym lb p fb i = stage NpSym lb p fb (2 * p - 1 - i).
Proof.
  intros Hl Hi. unfold stage.
  rewrite (np_src_out NpSym lb (i - p)) by lia. cbn [out_rule].
  rewrite sym_idx_lo by lia.
  rewrite (np_src_in NpSym lb (2 * p - 1 - i - p)) by lia.
  replace (-1 - (i - p)) with (2 * p - 1 - i - p) by lia. reflexivity.
Qed.

Lemma axis_srcf_sym_left_mirror {K} (m1 : bmode K) n p i :
  1 <= n -> 0 <= p -> 0 <= i < p ->
  axis_srcf (@BSym K) m1 n p i = axis_srcf (@BSym K) m1 n p (2 * p - 1 - i).
Proof.
  intros Hn Hp Hi. unfold axis_srcf. cbn [is_wrap orb npmode_of].
  apply stage_sym_mirror; [|exact Hi]. destruct (is_wrap m1); lia.
Qed.

Theorem axis_pad_sym_left_oversize {K A} (c d : A) (m1 : bmode K) p l :
  1 <= Z.of_nat (length l) -> 0 <= p ->
  (forall i, 0 <= i < p ->
     nth (Z.to_nat i) (axis_pad c (@BSym K) m1 p l) d = nth (Z.to_nat (2 * p - 1 - i)) (axis_pad c (@BSym K) m1 p l) d) /\
  (forall i, p <= i < Z.of_nat (length l) + 2 * p ->
     nth (Z.to_nat i) (axis_pad c (@BSym K) m1 p l) d = reads c l (ext1 (@BSym K) m1 (Z.of_nat (length l)) (i - p))).
Proof.
  intros Hn Hp. set (n := Z.of_nat (length l)) in *. rewrite axis_pad_via by assumption. fold n. unfold via. split.
  - intros i Hi. rewrite !nth_map_zrange by lia. rewrite axis_srcf_sym_left_mirror by lia. reflexivity.
  - intros i Hi. rewrite nth_map_zrange by lia. rewrite axis_srcf_right_part by (try reflexivity; lia).
    destruct (ext1 BSym m1 n (i - p)); reflexivity.
Qed.

(* wrap on the left, symmetric on the right: the right pad mirrors the ALREADY LEFT-WRAPPED array *)
Lemma axis_srcf_wrap_sym {K} n p i : 1 <= n -> 0 <= p -> 0 <= i < n + 2 * p ->
  axis_srcf (@BWrap K) BSym n p i =
  if i <? n + p then opt_of_src (ext1 (@BWrap K) BSym n (i - p))
  else axis_srcf (@BWrap K) BSym n p (2 * (n + p) - 1 - i).
Proof.
  intros Hn Hp Hi. unfold axis_srcf. cbn [is_wrap orb npmode_of]. unfold stage, ext1.
  rewrite ?Z.sub_0_r, ?Z.add_0_r.
  destruct (Z.ltb_spec i (n + p)) as [Hlt|Hge].
  - rewrite (np_src_in NpSym (n + p) i) by lia.
    destruct (Z_lt_le_dec (i - p) 0) as [J0|J0].
    + rewrite (np_src_out NpWrap n (i - p)) by lia. cbn [out_rule].
      destruct (Z.ltb_spec (i - p) 0); [|lia]. reflexivity.
    + rewrite (np_src_in NpWrap n (i - p)) by lia.
      destruct (Z.ltb_spec (i - p) 0); [lia|]. destruct (Z.leb_spec n (i - p)); [lia|]. reflexivity.
  - rewrite (np_src_out NpSym (n + p) i) by lia. cbn [out_rule].
    rewrite sym_idx_hi by lia.
    rewrite (np_src_in NpSym (n + p) (2 * (n + p) - 1 - i)) by lia. reflexivity.
Qed.

Theorem axis_pad_wrap_sym_oversize {A} (c d : A) p l :
  1 <= Z.of_nat (length l) -> 0 <= p ->
  let n := Z.of_nat (length l) in
  (forall i, 0 <= i < n + p ->
     nth (Z.to_nat i) (axis_pad c (@BWrap Z) BSym p l) d = reads c l (ext1 (@BWrap Z) BSym n (i - p))) /\
  (forall i, n + p <= i < n + 2 * p ->
     nth (Z.to_nat i) (axis_pad c (@BWrap Z) BSym p l) d =
     nth (Z.to_nat (2 * (n + p) - 1 - i)) (axis_pad c (@BWrap Z) BSym p l) d).
Proof.
  intros Hn Hp n. rewrite axis_pad_via by assumption. fold n. unfold via. split.
  - intros i Hi. rewrite nth_map_zrange by lia. rewrite axis_srcf_wrap_sym by lia.
    destruct (Z.ltb_spec i (n + p)); [|lia]. destruct (ext1 BWrap BSym n (i - p)); reflexivity.
  - intros i Hi. rewrite !nth_map_zrange by lia. rewrite axis_srcf_wrap_sym by lia.
    destruct (Z.ltb_spec i (n + p)); [lia|]. reflexivity.
Qed.

(* ------------------------------------------------------------------ lift to the 3-D index array *)
Lemma nth_map_in {A B} (f : A -> B) l k d d' : (k < length l)%nat -> nth k (map f l) d = f (nth k l d').
Proof.
  intros Hk. rewrite nth_indep with (d' := f d') by (rewrite map_length; exact Hk). apply map_nth.
Qed.

Lemma tab3_nth3 {A} nx ny nz (f : Z -> Z -> Z -> A) i j k d :
  0 <= i < nx -> 0 <= j < ny -> 0 <= k < nz -> nth3 (tab3 nx ny nz f) i j k d = f i j k.
Proof.
  intros Hi Hj Hk. unfold nth3, tab3.
  rewrite nth_map_zrange by lia. rewrite nth_map_zrange by lia. rewrite nth_map_zrange by lia. reflexivity.
Qed.

Definition pads_nonneg {K} (c : padcfg K) : Prop := 0 <= ppx c /\ 0 <= ppy c /\ 0 <= ppz c.
Definition axis_ok {K} (m0 m1 : bmode K) (p n : Z) : Prop := p <= n \/ modes_compatible m0 m1 = true.
(* on every axis: pad size at most the axis length, or a mode pair whose repeated rule is the per-side rule *)
Definition pad_ok {K} (c : padcfg K) : Prop :=
  axis_ok (mx0 c) (mx1 c) (ppx c) (sx1 c) /\ axis_ok (my0 c) (my1 c) (ppy c) (sy1 c) /\
  axis_ok (mz0 c) (mz1 c) (ppz c) (sz1 c).

Section Lift.
  Context {K : Type}.
  Variable c : padcfg K.
  Hypothesis Hp : pads_nonneg c.
  Hypothesis Hok : pad_ok c.

  Let zrow : list Z := repeat 0 (Z.to_nat (sz1 c)).
  Let zslab : list (list Z) := repeat zrow (Z.to_nat (sy1 c)).

  Lemma sx1_pos : 1 <= sx1 c. Proof. unfold sx1; lia. Qed.
  Lemma sy1_pos : 1 <= sy1 c. Proof. unfold sy1; lia. Qed.
  Lemma sz1_pos : 1 <= sz1 c. Proof. unfold sz1; lia. Qed.

  (* what row (a', b') of the x/y-extended array contains *)
  Definition row_of (sx sy : src K) : list Z :=
    match sy with
    | SConst _ => zrow
    | SIdx b => match sx with
                | SConst _ => zrow
                | SIdx a => map (fun k => elemnumber (pg c) a b k) (zrange (sz1 c))
                end
    end.
  Definition slab_of (sx : src K) : list (list Z) :=
    match sx with
    | SConst _ => zslab
    | SIdx a => map (fun j => map (fun k => elemnumber (pg c) a j k) (zrange (sz1 c))) (zrange (sy1 c))
    end.

  Lemma slab_of_length s : length (slab_of s) = Z.to_nat (sy1 c).
  Proof. destruct s; cbn [slab_of]; [apply map_zrange_length | apply repeat_length]. Qed.

  Lemma slab_of_nth s b : 0 <= b < sy1 c -> nth (Z.to_nat b) (slab_of s) zrow = row_of s (SIdx b).
  Proof.
    intros Hb. destruct s; cbn [slab_of row_of].
    - rewrite nth_map_zrange by lia. reflexivity.
    - apply nth_repeat_same.
  Qed.

  Lemma row_of_length sx sy : length (row_of sx sy) = Z.to_nat (sz1 c).
  Proof. destruct sy, sx; cbn [row_of]; try apply map_zrange_length; apply repeat_length. Qed.

  Lemma orig_length : length (el3d_orig c) = Z.to_nat (sx1 c).
  Proof. unfold el3d_orig, tab3. apply map_zrange_length. Qed.

  Lemma padx_nth i : 0 <= i < sx1 c + 2 * ppx c ->
    nth (Z.to_nat i) (el3d_padx c) zslab = slab_of (ext1 (mx0 c) (mx1 c) (sx1 c) (i - ppx c)).
  Proof.
    intros Hi. pose proof sx1_pos as Hx. destruct Hp as (Hpx & _ & _). destruct Hok as (Hox & _ & _).
    unfold el3d_padx. fold zrow. fold zslab.
    rewrite axis_pad_nth; rewrite ?orig_length; rewrite ?Z2Nat.id by lia; try assumption; try lia.
    destruct (ext1 (mx0 c) (mx1 c) (sx1 c) (i - ppx c)) as [a|v] eqn:E; cbn [reads slab_of]; [|reflexivity].
    apply ext1_idx_range in E; [|lia].
    unfold el3d_orig, tab3. rewrite nth_map_zrange by lia. reflexivity.
  Qed.

  Lemma padx_length : length (el3d_padx c) = Z.to_nat (sx1 c + 2 * ppx c).
  Proof.
    pose proof sx1_pos. destruct Hp as (Hpx & _ & _).
    unfold el3d_padx. rewrite axis_pad_length; rewrite ?orig_length; rewrite ?Z2Nat.id by lia; try lia; try reflexivity.
  Qed.

  Lemma pady_nth i j : 0 <= i < sx1 c + 2 * ppx c -> 0 <= j < sy1 c + 2 * ppy c ->
    nth (Z.to_nat j) (nth (Z.to_nat i) (el3d_pady c) []) zrow =
    row_of (ext1 (mx0 c) (mx1 c) (sx1 c) (i - ppx c)) (ext1 (my0 c) (my1 c) (sy1 c) (j - ppy c)).
  Proof.
    intros Hi Hj. pose proof sy1_pos as Hy. destruct Hp as (_ & Hpy & _). destruct Hok as (_ & Hoy & _).
    unfold el3d_pady. fold zrow.
    rewrite nth_map_in with (d' := zslab) by (rewrite padx_length; lia).
    rewrite padx_nth by assumption.
    rewrite axis_pad_nth; rewrite ?slab_of_length; rewrite ?Z2Nat.id by lia; try assumption; try lia.
    destruct (ext1 (my0 c) (my1 c) (sy1 c) (j - ppy c)) as [b|v] eqn:E; cbn [reads].
    - apply ext1_idx_range in E; [|lia]. apply slab_of_nth. lia.
    - destruct (ext1 (mx0 c) (mx1 c) (sx1 c) (i - ppx c)); reflexivity.
  Qed.

  Lemma pady_length : length (el3d_pady c) = Z.to_nat (sx1 c + 2 * ppx c).
  Proof. unfold el3d_pady. rewrite map_length. apply padx_length. Qed.

  Lemma pady_slab_length i : 0 <= i < sx1 c + 2 * ppx c ->
    length (nth (Z.to_nat i) (el3d_pady c) []) = Z.to_nat (sy1 c + 2 * ppy c).
  Proof.
    intros Hi. pose proof sy1_pos as Hy. destruct Hp as (_ & Hpy & _).
    unfold el3d_pady. fold zrow.
    rewrite nth_map_in with (d' := zslab) by (rewrite padx_length; lia).
    rewrite padx_nth by assumption.
    rewrite axis_pad_length; rewrite ?slab_of_length; rewrite ?Z2Nat.id by lia; try lia; try reflexivity.
  Qed.

  Lemma row_of_nth sx sy k : 0 <= k < sz1 c ->
    nth (Z.to_nat k) (row_of sx sy) 0 =
    match sy with SConst _ => 0 | SIdx b => match sx with SConst _ => 0 | SIdx a => elemnumber (pg c) a b k end end.
  Proof.
    intros Hk. destruct sy, sx; cbn [row_of]; try (apply nth_repeat_same).
    rewrite nth_map_zrange by lia. reflexivity.
  Qed.

  (* the index array built by the three _process_padding calls is the ideal per-axis extension *)
  Theorem el3d_pad_nth3 i j k :
    0 <= i < sx1 c + 2 * ppx c -> 0 <= j < sy1 c + 2 * ppy c -> 0 <= k < sz1 c + 2 * ppz c ->
    nth3 (el3d_pad c) i j k 0 = ext3_idx c (i - ppx c) (j - ppy c) (k - ppz c).
  Proof.
    intros Hi Hj Hk. pose proof sz1_pos as Hz. destruct Hp as (_ & _ & Hpz). destruct Hok as (_ & _ & Hoz).
    unfold nth3, el3d_pad.
    rewrite nth_map_in with (d' := []) by (rewrite pady_length; lia).
    rewrite nth_map_in with (d' := zrow) by (rewrite pady_slab_length by assumption; lia).
    rewrite pady_nth by assumption.
    rewrite axis_pad_nth; rewrite ?row_of_length; rewrite ?Z2Nat.id by lia; try assumption; try lia.
    unfold ext3_idx.
    destruct (ext1 (mz0 c) (mz1 c) (sz1 c) (k - ppz c)) as [d|v] eqn:E; cbn [reads]; [|reflexivity].
    apply ext1_idx_range in E; [|lia]. apply row_of_nth. lia.
  Qed.

  Lemma el3d_pad_shape :
    length (el3d_pad c) = Z.to_nat (sx1 c + 2 * ppx c) /\
    (forall i, 0 <= i < sx1 c + 2 * ppx c ->
       length (nth (Z.to_nat i) (el3d_pad c) []) = Z.to_nat (sy1 c + 2 * ppy c) /\
       forall j, 0 <= j < sy1 c + 2 * ppy c ->
         length (nth (Z.to_nat j) (nth (Z.to_nat i) (el3d_pad c) []) []) = Z.to_nat (sz1 c + 2 * ppz c)).
  Proof.
    pose proof sz1_pos as Hz. destruct Hp as (_ & _ & Hpz).
    split; [unfold el3d_pad; rewrite map_length; apply pady_length|].
    intros i Hi. unfold el3d_pad.
    rewrite nth_map_in with (d' := []) by (rewrite pady_length; lia).
    split; [rewrite map_length; apply pady_slab_length; assumption|].
    intros j Hj.
    rewrite nth_map_in with (d' := zrow) by (rewrite pady_slab_length by assumption; lia).
    rewrite pady_nth by assumption.
    rewrite axis_pad_length; rewrite ?row_of_length; rewrite ?Z2Nat.id by lia; try lia; try reflexivity.
  Qed.
End Lift.

(* ------------------------------------------------------------------ value overrides *)
Lemma zmem_spec i l : zmem i l = true <-> In i l.
Proof.
  unfold zmem. rewrite existsb_exists. split.
  - intros (x & Hx & E). apply Z.eqb_eq in E. subst. exact Hx.
  - intros Hi. exists i. split; [exact Hi | apply Z.eqb_refl].
Qed.

Lemma zmem_zrange i n : zmem i (zrange n) = (0 <=? i) && (i <? n).
Proof.
  apply eq_true_iff_eq. rewrite zmem_spec, in_zrange, andb_true_iff, Z.leb_le, Z.ltb_lt. reflexivity.
Qed.

Lemma zmem_shift i a p : zmem i (map (fun t => a + t) (zrange p)) = (a <=? i) && (i <? a + p).
Proof.
  apply eq_true_iff_eq. rewrite zmem_spec, in_map_iff, andb_true_iff, Z.leb_le, Z.ltb_lt. split.
  - intros (t & E & Ht). apply in_zrange in Ht. lia.
  - intros Hi. exists (i - a). split; [lia | apply in_zrange; lia].
Qed.

Lemma apply_ovs_app {K} (o1 o2 : list (override K)) i j k base :
  apply_ovs (o1 ++ o2) i j k base = apply_ovs o2 i j k (apply_ovs o1 i j k base).
Proof. unfold apply_ovs. apply fold_left_app. Qed.

(* the code's domain_sizes / padded_sizes describe the actual arrays: nelx, nely >= 1 and either a 3-D domain or a
   2-D domain with a kernel that is one layer thick *)
Definition dims_ok {K} (c : padcfg K) : Prop :=
  1 <= nelx (pg c) /\ 1 <= nely (pg c) /\ (1 <= nelz (pg c) \/ (nelz (pg c) = 0 /\ ppz c = 0)).

Section Overrides.
  Context {K : Type} `{Num K}.
  Variable c : padcfg K.
  Hypothesis Hp : pads_nonneg c.
  Hypothesis Hd : dims_ok c.

  Definition coord (dir : nat) (i j k : Z) : Z := match dir with O => i | S O => j | _ => k end.
  Definition size1 (dir : nat) : Z := match dir with O => sx1 c | S O => sy1 c | _ => sz1 c end.

  Lemma padded_full dir : (dir < 3)%nat -> Z.max 1 (padded_size c dir) = size1 dir + 2 * pad_size c dir.
  Proof.
    destruct Hp as (Hx & Hy & Hz). destruct Hd as (Dx & Dy & Dz). intros Hdir.
    destruct dir as [|[|[|dir]]]; try lia;
      unfold padded_size, dom_size, pad_size, size1, sx1, sy1, sz1; lia.
  Qed.

  Lemma mk_pad_override_hit dir r v i j k base : (dir < 3)%nat ->
    0 <= i < sx1 c + 2 * ppx c -> 0 <= j < sy1 c + 2 * ppy c -> 0 <= k < sz1 c + 2 * ppz c ->
    apply_ovs (mk_pad_override c dir r v) i j k base = if zmem (coord dir i j k) r then v else base.
  Proof.
    intros Hdir Hi Hj Hk.
    assert (Fx : zmem i (zrange (Z.max 1 (padded_size c 0))) = true).
    { rewrite (padded_full 0) by lia. rewrite zmem_zrange. cbn [size1 pad_size].
      apply andb_true_iff. rewrite Z.leb_le, Z.ltb_lt. lia. }
    assert (Fy : zmem j (zrange (Z.max 1 (padded_size c 1))) = true).
    { rewrite (padded_full 1) by lia. rewrite zmem_zrange. cbn [size1 pad_size].
      apply andb_true_iff. rewrite Z.leb_le, Z.ltb_lt. lia. }
    assert (Fz : zmem k (zrange (Z.max 1 (padded_size c 2))) = true).
    { rewrite (padded_full 2) by lia. rewrite zmem_zrange. cbn [size1 pad_size].
      apply andb_true_iff. rewrite Z.leb_le, Z.ltb_lt. lia. }
    assert (Lpos : forall d, 1 <= Z.of_nat (length (zrange (Z.max 1 (padded_size c d))))).
    { intros d. rewrite zrange_length. lia. }
    unfold mk_pad_override.
    destruct dir as [|[|[|dir]]]; try lia; cbn [n_range Nat.eqb coord].
    - destruct (Z.eqb_spec (Z.of_nat (length r) * Z.of_nat (length (zrange (Z.max 1 (padded_size c 1)))) *
                            Z.of_nat (length (zrange (Z.max 1 (padded_size c 2))))) 0) as [E|E].
      + pose proof (Lpos 1%nat). pose proof (Lpos 2%nat).
        assert (length r = 0%nat) by nia. destruct r; [reflexivity | discriminate].
      + cbn [apply_ovs fold_left ov_hit]. rewrite Fy, Fz, !andb_true_r. destruct (zmem i r); reflexivity.
    - destruct (Z.eqb_spec (Z.of_nat (length (zrange (Z.max 1 (padded_size c 0)))) * Z.of_nat (length r) *
                            Z.of_nat (length (zrange (Z.max 1 (padded_size c 2))))) 0) as [E|E].
      + pose proof (Lpos 0%nat). pose proof (Lpos 2%nat).
        assert (length r = 0%nat) by nia. destruct r; [reflexivity | discriminate].
      + cbn [apply_ovs fold_left ov_hit]. rewrite Fx, Fz, !andb_true_r. cbn [andb]. destruct (zmem j r); reflexivity.
    - destruct (Z.eqb_spec (Z.of_nat (length (zrange (Z.max 1 (padded_size c 0)))) *
                            Z.of_nat (length (zrange (Z.max 1 (padded_size c 1)))) * Z.of_nat (length r)) 0) as [E|E].
      + pose proof (Lpos 0%nat). pose proof (Lpos 1%nat).
        assert (length r = 0%nat) by nia. destruct r; [reflexivity | discriminate].
      + cbn [apply_ovs fold_left ov_hit]. rewrite Fx, Fy. cbn [andb]. destruct (zmem k r); reflexivity.
  Qed.

  Lemma dom_size1 dir : (dir < 3)%nat -> dom_size c dir = size1 dir \/ pad_size c dir = 0.
  Proof.
    destruct Hd as (Dx & Dy & Dz). intros Hdir.
    destruct dir as [|[|[|dir]]]; try lia; unfold dom_size, pad_size, size1, sx1, sy1, sz1; lia.
  Qed.

  (* the overrides stored by one _process_padding call put exactly the constants of the ideal extension *)
  Lemma axis_overrides_hit dir (m0 m1 : bmode K) i j k base : (dir < 3)%nat ->
    0 <= i < sx1 c + 2 * ppx c -> 0 <= j < sy1 c + 2 * ppy c -> 0 <= k < sz1 c + 2 * ppz c ->
    apply_ovs (axis_overrides c dir m0 m1) i j k base =
    match ext1 m0 m1 (size1 dir) (coord dir i j k - pad_size c dir) with SConst v => v | SIdx _ => base end.
  Proof.
    intros Hdir Hi Hj Hk.
    assert (Ht : 0 <= coord dir i j k < size1 dir + 2 * pad_size c dir).
    { destruct dir as [|[|[|dir]]]; try lia; cbn [coord size1 pad_size]; assumption. }
    assert (Hpp : 0 <= pad_size c dir).
    { destruct Hp as (Hx & Hy & Hz). destruct dir as [|[|[|dir]]]; try lia; cbn [pad_size]; assumption. }
    pose proof (dom_size1 dir Hdir) as Hdom.
    assert (Hn : 1 <= size1 dir).
    { destruct dir as [|[|[|dir]]]; try lia; cbn [size1]; unfold sx1, sy1, sz1; lia. }
    set (t := coord dir i j k) in *. set (p := pad_size c dir) in *. set (n := size1 dir) in *.
    unfold axis_overrides. fold p. rewrite apply_ovs_app.
    unfold ext1.
    destruct m1 as [| | |v1], m0 as [| | |v0];
      cbn [apply_ovs fold_left]; rewrite ?mk_pad_override_hit by assumption; fold t;
      rewrite ?zmem_shift, ?zmem_zrange;
      destruct (Z.ltb_spec (t - p) 0); destruct (Z.leb_spec n (t - p)); try lia; try reflexivity;
      repeat match goal with
      | |- context [Z.ltb ?a ?b] => destruct (Z.ltb_spec a b); try lia
      | |- context [Z.leb ?a ?b] => destruct (Z.leb_spec a b); try lia
      end; cbn [andb]; try reflexivity; try lia.
  Qed.

  Hypothesis Hok : pad_ok c.

  (* get_padded_vector = the ideal extension of the field (no user overrides) *)
  Theorem xpad_at_ext3 (x : list K) i j k :
    0 <= i < sx1 c + 2 * ppx c -> 0 <= j < sy1 c + 2 * ppy c -> 0 <= k < sz1 c + 2 * ppz c ->
    xpad_at c [] x i j k = ext3 c x (i - ppx c) (j - ppy c) (k - ppz c).
  Proof.
    intros Hi Hj Hk. unfold xpad_at. rewrite app_nil_r.
    rewrite el3d_pad_nth3 by assumption.
    unfold pad_overrides. rewrite !apply_ovs_app.
    rewrite (axis_overrides_hit 2) by (assumption || lia).
    rewrite (axis_overrides_hit 1) by (assumption || lia).
    rewrite (axis_overrides_hit 0) by (assumption || lia).
    cbn [size1 coord pad_size]. unfold ext3, ext3_idx.
    destruct (ext1 (mz0 c) (mz1 c) (sz1 c) (k - ppz c)); [|reflexivity].
    destruct (ext1 (my0 c) (my1 c) (sy1 c) (j - ppy c)); [|reflexivity].
    destruct (ext1 (mx0 c) (mx1 c) (sx1 c) (i - ppx c)); reflexivity.
  Qed.

  (* with overrides added through override_values: they are applied on top of the extended field *)
  Theorem xpad_at_ext3_user (uov : list (override K)) (x : list K) i j k :
    0 <= i < sx1 c + 2 * ppx c -> 0 <= j < sy1 c + 2 * ppy c -> 0 <= k < sz1 c + 2 * ppz c ->
    xpad_at c uov x i j k = apply_ovs uov i j k (ext3 c x (i - ppx c) (j - ppy c) (k - ppz c)).
  Proof.
    intros Hi Hj Hk. rewrite <- xpad_at_ext3 by assumption.
    unfold xpad_at. rewrite app_nil_r. apply apply_ovs_app.
  Qed.
End Overrides.

(* ------------------------------------------------------------------ the materialised padded array *)
Lemma hd_nth0 {A} (d : A) l : hd d l = nth 0 l d.
Proof. destruct l; reflexivity. Qed.

Section XpadArr.
  Context {K : Type} `{Num K}.
  Variable c : padcfg K.
  Hypothesis Hp : pads_nonneg c.
  Hypothesis Hok : pad_ok c.

  Lemma el3d_pad_shape3 : shape3 (el3d_pad c) = (sx1 c + 2 * ppx c, sy1 c + 2 * ppy c, sz1 c + 2 * ppz c).
  Proof.
    pose proof (el3d_pad_shape c Hp Hok) as (L1 & L2).
    pose proof (sx1_pos c). pose proof (sy1_pos c). pose proof (sz1_pos c). destruct Hp as (Hx & Hy & Hz).
    specialize (L2 0 ltac:(lia)). destruct L2 as (L2 & L3). specialize (L3 0 ltac:(lia)).
    unfold shape3. rewrite !hd_nth0. change (Z.to_nat 0) with 0%nat in *.
    rewrite L1, L2, L3. f_equal; [f_equal|]; lia.
  Qed.

  Lemma xpad_arr_nth3 uov (x : list K) i j k :
    0 <= i < sx1 c + 2 * ppx c -> 0 <= j < sy1 c + 2 * ppy c -> 0 <= k < sz1 c + 2 * ppz c ->
    nth3 (xpad_arr c uov x) i j k nzero = xpad_at c uov x i j k.
  Proof.
    intros Hi Hj Hk. unfold xpad_arr. cbv zeta. rewrite el3d_pad_shape3.
    rewrite tab3_nth3 by assumption. reflexivity.
  Qed.
End XpadArr.
