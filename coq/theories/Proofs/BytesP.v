(* Lemmas about Base/Bytes.v: decimal text round trip, zero padding, join/split. *)
From Coq Require Import ZArith List Lia Bool DecimalZ DecimalPos.
From Pymoto Require Import Base.Bytes.
Import ListNotations.
Open Scope Z_scope.

(* ---- decimal digits ---- *)
Definition is_digit (c : Z) : Prop := 48 <= c <= 57.

Lemma codes_uint_codes u : codes_uint (uint_codes u) = Some u.
Proof. induction u as [|u IH|u IH|u IH|u IH|u IH|u IH|u IH|u IH|u IH|u IH]; cbn; try rewrite IH; reflexivity. Qed.

Lemma uint_codes_digits u : Forall is_digit (uint_codes u).
Proof.
  induction u as [|u IH|u IH|u IH|u IH|u IH|u IH|u IH|u IH|u IH|u IH]; cbn; constructor; auto; unfold is_digit; lia.
Qed.

Lemma uint_codes_nonnil u : u <> Decimal.Nil -> uint_codes u <> [].
Proof. destruct u; cbn; congruence. Qed.

(* int(format(n, 'd')) = n for n >= 0 *)
Lemma dec_nonneg n : 0 <= n -> exists u, Z.to_int n = Decimal.Pos u /\ u <> Decimal.Nil /\ Z.of_uint u = n.
Proof.
  intros Hn. pose proof (DecimalZ.of_to n) as E. destruct n as [|p|p]; try lia.
  - exists (Decimal.D0 Decimal.Nil). repeat split; congruence.
  - exists (Pos.to_uint p). cbn in *. repeat split; auto. apply Unsigned.to_uint_nonnil.
Qed.

Theorem parse_dec_dec n : 0 <= n -> parse_dec (dec n) = Some n.
Proof.
  intros Hn. destruct (dec_nonneg n Hn) as (u & E & Hnn & Hv). unfold dec. rewrite E.
  unfold parse_dec. pose proof (uint_codes_nonnil u Hnn) as Hne.
  destruct (uint_codes u) as [|c t] eqn:Ec; [congruence|].
  rewrite <- Ec, codes_uint_codes. cbn. now rewrite Hv.
Qed.

Lemma dec_digits n : 0 <= n -> Forall is_digit (dec n).
Proof.
  intros Hn. destruct (dec_nonneg n Hn) as (u & E & _ & _). unfold dec. rewrite E. apply uint_codes_digits.
Qed.

Lemma dec_nonempty n : 0 <= n -> dec n <> [].
Proof.
  intros Hn. destruct (dec_nonneg n Hn) as (u & E & Hnn & _). unfold dec. rewrite E. now apply uint_codes_nonnil.
Qed.

Lemma dec_inj n m : 0 <= n -> 0 <= m -> dec n = dec m -> n = m.
Proof.
  intros Hn Hm E. apply (f_equal parse_dec) in E. rewrite !parse_dec_dec in E by assumption. now inversion E.
Qed.

(* leading zeros do not change the value *)
Lemma codes_uint_zeros_app k s :
  codes_uint (repeat 48 k ++ s) = option_map (fun u => Nat.iter k Decimal.D0 u) (codes_uint s).
Proof.
  induction k as [|k IH].
  - cbn. now destruct (codes_uint s).
  - cbn [repeat app codes_uint]. rewrite IH. destruct (codes_uint s) as [u|]; reflexivity.
Qed.

Lemma of_uint_zeros k u : Z.of_uint (Nat.iter k Decimal.D0 u) = Z.of_uint u.
Proof.
  induction k as [|k IH]; [reflexivity|].
  change (Nat.iter (S k) Decimal.D0 u) with (Decimal.D0 (Nat.iter k Decimal.D0 u)).
  unfold Z.of_uint in *. cbn [N.of_uint Pos.of_uint]. exact IH.
Qed.

Theorem parse_dec_zpad w n : 0 <= n -> parse_dec (zpad w (dec n)) = Some n.
Proof.
  intros Hn. destruct (dec_nonneg n Hn) as (u & E & Hnn & Hv). unfold dec, zpad. rewrite E.
  set (k := (w - length (uint_codes u))%nat).
  pose proof (uint_codes_nonnil u Hnn) as Hne.
  unfold parse_dec.
  destruct (repeat 48 k ++ uint_codes u) as [|c t] eqn:Ec.
  { apply app_eq_nil in Ec. tauto. }
  rewrite <- Ec. rewrite codes_uint_zeros_app, codes_uint_codes.
  cbn [option_map]. now rewrite of_uint_zeros, Hv.
Qed.

Lemma zpad_inj w n m : 0 <= n -> 0 <= m -> zpad w (dec n) = zpad w (dec m) -> n = m.
Proof.
  intros Hn Hm E. apply (f_equal parse_dec) in E. rewrite !parse_dec_zpad in E by assumption. now inversion E.
Qed.

Lemma zpad_digits w n : 0 <= n -> Forall is_digit (zpad w (dec n)).
Proof.
  intros Hn. unfold zpad. apply Forall_app. split; [|now apply dec_digits].
  apply Forall_forall. intros x Hx. apply repeat_spec in Hx. subst. unfold is_digit. lia.
Qed.

Lemma zpad_length_ge w s : (w <= length (zpad w s))%nat.
Proof. unfold zpad. rewrite app_length, repeat_length. lia. Qed.

(* ---- join / split on a single separator character ---- *)
Lemma split_on_nonnil c s : split_on c s <> [].
Proof.
  induction s as [|x t IH]; cbn; [discriminate|].
  destruct (split_on c t); [congruence|]. destruct (x =? c); discriminate.
Qed.

Lemma split_on_free c s : Forall (fun x => x <> c) s -> split_on c s = [s].
Proof.
  induction 1 as [|x t Hx _ IH]; [reflexivity|].
  cbn. rewrite IH. destruct (Z.eqb_spec x c); [contradiction|reflexivity].
Qed.

Lemma split_on_app c a b : Forall (fun x => x <> c) a -> split_on c (a ++ c :: b) = a :: split_on c b.
Proof.
  induction 1 as [|x t Hx _ IH].
  - cbn. destruct (split_on c b) eqn:E; [now apply split_on_nonnil in E|]. now rewrite Z.eqb_refl.
  - cbn [app split_on]. rewrite IH. destruct (Z.eqb_spec x c); [contradiction|reflexivity].
Qed.

(* the columns of a row are recovered by splitting at the separator, provided no column contains it *)
Theorem split_join c cols :
  cols <> [] -> Forall (Forall (fun x => x <> c)) cols -> split_on c (join [c] cols) = cols.
Proof.
  intros Hne Hfree. induction Hfree as [|x t Hx Ht IH]; [congruence|].
  destruct t as [|y t'].
  - cbn [join]. now apply split_on_free.
  - change (join [c] (x :: y :: t')) with (x ++ [c] ++ join [c] (y :: t')).
    cbn [app]. rewrite split_on_app by exact Hx. f_equal. apply IH. discriminate.
Qed.

Lemma unlines_app a b : unlines (a ++ b) = unlines a ++ unlines b.
Proof. unfold unlines. apply flat_map_app. Qed.

(* lines without "\n" are recovered from the file text (text.split("\n") drops the final empty piece) *)
Theorem split_unlines ls :
  Forall (Forall (fun x => x <> 10)) ls -> split_on 10 (unlines ls) = ls ++ [[]].
Proof.
  induction 1 as [|l t Hl _ IH]; [reflexivity|].
  cbn [unlines flat_map]. rewrite <- app_assoc. cbn [app].
  rewrite split_on_app by exact Hl. fold (unlines t). now rewrite IH.
Qed.

(* ---- os.path.splitext: an extension is empty or starts with a dot ---- *)
Lemma rfind_from_some c s : forall i acc d,
  rfind_from c s i acc = Some d -> acc = Some d \/ (i <= d /\ nth_error s (d - i) = Some c)%nat.
Proof.
  induction s as [|x t IH]; intros i acc d H; cbn in H.
  - now left.
  - apply IH in H. destruct H as [H|[H1 H2]].
    + destruct (Z.eqb_spec x c) as [->|_]; [|now left].
      inversion H; subst. right. split; [lia|]. now rewrite Nat.sub_diag.
    + right. split; [lia|]. replace (d - i)%nat with (S (d - S i)) by lia. exact H2.
Qed.

Lemma splitext_ext p : snd (splitext p) = [] \/ exists t, snd (splitext p) = 46 :: t.
Proof.
  unfold splitext. destruct (rfind 46 p) as [d|] eqn:E; [|now left].
  match goal with |- context [if ?b then _ else _] => destruct b end; [|now left].
  right. cbn [snd]. unfold rfind in E. apply rfind_from_some in E. destruct E as [E|[_ E]]; [discriminate|].
  rewrite Nat.sub_0_r in E. revert d E. induction p as [|x t IH]; intros [|d] E; cbn in E; try discriminate.
  - inversion E; subst. now exists t.
  - cbn [skipn]. now apply IH.
Qed.

Lemma splitext_join p : fst (splitext p) ++ snd (splitext p) = p.
Proof.
  unfold splitext. destruct (rfind 46 p) as [d|]; [|now rewrite app_nil_r].
  match goal with |- context [if ?b then _ else _] => destruct b end; cbn [fst snd].
  - apply firstn_skipn.
  - now rewrite app_nil_r.
Qed.
