(* The solver chosen by auto_determine_solver documents a class that contains the matrix. *)
From Coq Require Import Bool.
From Pymoto Require Import Model.AutoSolver.

(* the positive-definiteness override, when given as True, is true *)
Definition pd_truthful (o : option bool) (m : mclass) : bool :=
  match o with Some true => m_def m | _ => true end.

(* the heuristic of the sparse branch: "Hermitian with one-signed diagonal" is taken to mean definite *)
Definition pd_heuristic_right (m : mclass) (dpos dneg : bool) : bool :=
  negb (m_herm m && (dpos || dneg)) || m_def m.

Ltac dbool :=
  repeat match goal with
         | b : bool |- _ => destruct b; cbn in *; try discriminate; try reflexivity
         | o : option bool |- _ => destruct o as [[|]|]; cbn in *; try discriminate; try reflexivity
         end.

Theorem auto_class_sound (m : mclass) (dpos dneg hp hs hc : bool) (o_diag o_herm o_sym o_pd : option bool) :
  m_square m = true -> mclass_consistent m = true ->
  truthful o_diag (m_diag m) = true -> truthful o_herm (m_herm m) = true -> truthful o_sym (m_sym m) = true ->
  pd_truthful o_pd m = true ->
  (hs || hc) && negb (pd_heuristic_right m dpos dneg) = false ->
  admissible (auto_solver (m_sparse m) (m_square m) (m_diag m) (m_complex m) (m_herm m) (m_sym m) dpos dneg
                          hp hs hc o_diag o_herm o_sym o_pd) m = true.
Proof.
  destruct m as [sp sq dg cx he sy df]; unfold mclass_consistent, pd_truthful, pd_heuristic_right; cbn.
  intros -> Hc Hd Hh Hs Hp Hheur.
  unfold auto_solver, resolve_herm_sym.
  destruct cx, he, sy; cbn in Hc; try discriminate;
  destruct dg; cbn in Hc; try discriminate;
  destruct o_diag as [[|]|]; cbn in Hd; try discriminate; cbn; try reflexivity;
  destruct o_herm as [[|]|]; cbn in Hh; try discriminate;
  destruct o_sym as [[|]|]; cbn in Hs; try discriminate; cbn;
  destruct sp; cbn; try reflexivity;
  destruct hp; cbn; try reflexivity;
  destruct dpos, dneg; cbn; try reflexivity;
  destruct o_pd as [[|]|]; cbn in *; try reflexivity;
  destruct df; cbn in *; try discriminate; try reflexivity;
  destruct hs; cbn in *; try discriminate; try reflexivity;
  destruct hc; cbn in *; try discriminate; reflexivity.
Qed.

(* the configuration of this installation: no optional package *)
Corollary auto_class_sound_nopkg (m : mclass) (dpos dneg : bool) (o_diag o_herm o_sym o_pd : option bool) :
  m_square m = true -> mclass_consistent m = true ->
  truthful o_diag (m_diag m) = true -> truthful o_herm (m_herm m) = true -> truthful o_sym (m_sym m) = true ->
  admissible (auto_solver (m_sparse m) (m_square m) (m_diag m) (m_complex m) (m_herm m) (m_sym m) dpos dneg
                          false false false o_diag o_herm o_sym o_pd) m = true.
Proof.
  destruct m as [sp sq dg cx he sy df]; unfold mclass_consistent; cbn.
  intros -> Hc Hd Hh Hs.
  unfold auto_solver, resolve_herm_sym.
  destruct cx, he, sy; cbn in Hc; try discriminate;
  destruct dg; cbn in Hc; try discriminate;
  destruct o_diag as [[|]|]; cbn in Hd; try discriminate; cbn; try reflexivity;
  destruct o_herm as [[|]|]; cbn in Hh; try discriminate;
  destruct o_sym as [[|]|]; cbn in Hs; try discriminate; cbn;
  destruct sp; cbn; try reflexivity;
  destruct dpos, dneg; cbn; try reflexivity;
  destruct o_pd as [[|]|]; reflexivity.
Qed.

(* the heuristic is NOT implied by the flags: a Hermitian indefinite matrix with positive diagonal
   (e.g. [[1,2],[2,1]]) is sent to a sparse Cholesky solver when such a package is installed *)
Theorem auto_sparse_cholesky_heuristic_refuted :
  exists m dpos dneg,
    m_square m = true /\ mclass_consistent m = true /\
    admissible (auto_solver (m_sparse m) (m_square m) (m_diag m) (m_complex m) (m_herm m) (m_sym m) dpos dneg
                            false true false None None None None) m = false.
Proof.
  exists {| m_sparse := true; m_square := true; m_diag := false; m_complex := false; m_herm := true;
            m_sym := true; m_def := false |}, true, false.
  repeat split.
Qed.

(* no path is left without a return, and the assertion cannot fail on truthful overrides (part of the above,
   stated separately) *)
Theorem auto_total f_sparse f_square f_diag f_complex f_herm f_sym f_dpos f_dneg hp hs hc o_diag o_herm o_sym o_pd :
  auto_solver f_sparse f_square f_diag f_complex f_herm f_sym f_dpos f_dneg hp hs hc o_diag o_herm o_sym o_pd
  <> KNoReturn.
Proof.
  unfold auto_solver, resolve_herm_sym.
  destruct f_square; cbn; [|discriminate].
  destruct (otrue (odefault o_diag f_diag)); [discriminate|].
  destruct f_complex, o_herm as [[|]|], o_sym as [[|]|]; cbn; try discriminate;
  destruct f_sparse; cbn;
  repeat match goal with |- context [if ?c then _ else _] => destruct c; cbn; try discriminate end;
  discriminate.
Qed.
