(* Lemmas about Model/OverhangHist.v: an OverhangFilter instance driven through ANY call history (input replaced by a
   fresh array, overwritten in place, single entries changed, sensitivity()/reset() calls in between, other instances
   with other configurations on the same domain and possibly the same input signal evaluated in between) returns, at
   every response(), the layer sweep of Model/Overhang.v applied to the CURRENT contents of its input signal.     *)
From Coq Require Import ZArith QArith List Bool Lia.
From Pymoto Require Import Model.Grid Model.Overhang Model.OverhangHist Proofs.GridP Proofs.OverhangCoreP.
Import ListNotations.
Open Scope Z_scope.

Section HistProofs.
  Context {T : Type}.
  Variable dflt : T.

  (* the stored array self.smax does not feed back into the printed field *)
  Lemma fst_sweep_mem_loop g (c : config T) fuel : forall x st ind,
    fst (sweep_mem_loop dflt g c fuel x st ind) =
    sweep_loop (c_smin c) (c_smax c) dflt g (c_dl c) (c_dx c) (c_ns c) fuel x (fst st) ind.
  Proof.
    induction fuel as [|f IH]; intros x st ind; cbn [sweep_mem_loop sweep_loop]; auto.
    destruct ((0 <=? ind) && (ind <? nlay g (c_dl c))); auto. rewrite IH. reflexivity.
  Qed.

  Lemma fst_sweep_mem g (c : config T) x : fst (sweep_mem dflt g c x) = sweep_of dflt g c x.
  Proof. unfold sweep_mem, sweep_of, sweep. apply fst_sweep_mem_loop. Qed.

  Context {S : Type}.
  Variable aux_step : grid -> list (config T) -> event T -> sys T S -> S.

  (* one call: the input signals change exactly as the caller's event says *)
  Lemma step_sigs g cfgs (st : sys T S) e : s_sigs (fst (step dflt aux_step g cfgs st e)) = sig_step (s_sigs st) e.
  Proof.
    destruct e; cbn [step sig_step fst s_sigs]; auto.
    destruct (nth_error cfgs j); reflexivity.
  Qed.

  (* THE HISTORY THEOREM: for every history and every starting state (whatever the instances remember), the
     observed responses are the memory-free specification evaluated on the contents of the input signals *)
  Theorem run_responses g cfgs h : forall st : sys T S,
    fst (run dflt aux_step g cfgs h st) = responses_spec dflt g cfgs h (s_sigs st).
  Proof.
    induction h as [|e h IH]; intros st; [reflexivity|].
    cbn [run fst snd]. rewrite IH, step_sigs.
    destruct e; cbn [step responses_spec snd sig_step]; auto.
    destruct (nth_error cfgs j) as [c|]; cbn [snd]; auto.
    rewrite fst_sweep_mem. reflexivity.
  Qed.

  (* the filter never writes an input signal: after any history they hold what the caller's events put there *)
  Theorem run_signals g cfgs h : forall st : sys T S,
    s_sigs (snd (run dflt aux_step g cfgs h st)) = fold_left sig_step h (s_sigs st).
  Proof.
    induction h as [|e h IH]; intros st; [reflexivity|].
    cbn [run fst snd fold_left]. rewrite IH, step_sigs. reflexivity.
  Qed.

  (* hence the responses do not depend on what any instance remembers, nor on the sensitivity attributes: two
     states with the same input signals give the same responses (in particular a used instance and a fresh one) *)
  Corollary run_memory_independent g cfgs h (st st' : sys T S) :
    s_sigs st = s_sigs st' -> fst (run dflt aux_step g cfgs h st) = fst (run dflt aux_step g cfgs h st').
  Proof. intros E. rewrite !run_responses, E. reflexivity. Qed.

  (* Seed / Sens / Reset calls can be deleted from a history without changing any response *)
  Lemma spec_quiet g cfgs noise : forall h sigs, forallb quiet noise = true ->
    responses_spec dflt g cfgs (noise ++ h) sigs = responses_spec dflt g cfgs h sigs.
  Proof.
    induction noise as [|e n IH]; intros h sigs Hq; [reflexivity|].
    cbn [forallb] in Hq. apply andb_prop in Hq as (He & Hn).
    destruct e; try discriminate He; cbn [app responses_spec sig_step]; apply IH; auto.
  Qed.

  Theorem run_without_quiet g cfgs h (st : sys T S) :
    fst (run dflt aux_step g cfgs h st) =
    fst (run dflt aux_step g cfgs (filter (fun e => negb (quiet e)) h) st).
  Proof.
    rewrite !run_responses. generalize (s_sigs st). induction h as [|e h IH]; intros sigs; [reflexivity|].
    destruct e; cbn [filter quiet negb responses_spec sig_step]; auto.
    destruct (nth_error cfgs j); [f_equal|]; auto.
  Qed.

  Lemma nth_upd_same {A} (l : list A) n a d : (n < length l)%nat -> nth n (upd l n a) d = a.
  Proof. revert n. induction l as [|x l IH]; intros [|n] Hn; cbn in *; try lia; auto. apply IH. lia. Qed.
  Lemma upd_length {A} (l : list A) n a : length (upd l n a) = length l.
  Proof. revert n. induction l as [|x l IH]; intros [|n]; cbn; auto. Qed.

  (* the "map" form for one instance on signal 0: a sequence of iterations (new design as a fresh array or written in
     place, any Seed / Sens / Reset calls, response()) returns the map of the sweep over the designs *)
  Theorem single_instance_history g (c : config T) (its : list (bool * list T * list (event T))) (st : sys T S) :
    c_src c = 0%nat -> s_sigs st <> [] ->
    (forall it, In it its -> forallb quiet (snd it) = true) ->
    fst (run dflt aux_step g [c] (flat_map iteration its) st) =
    map (fun it => (0%nat, sweep_of dflt g c (snd (fst it)))) its.
  Proof.
    intros Hsrc Hne Hq. rewrite run_responses.
    assert (Hlen : (0 < length (s_sigs st))%nat) by (destruct (s_sigs st); [congruence | cbn; lia]).
    clear Hne. revert Hlen. generalize (s_sigs st). induction its as [|[[inpl x] noise] its IH]; intros sigs Hlen; [reflexivity|].
    cbn [flat_map iteration map fst snd].
    assert (Hn : forallb quiet noise = true) by (apply (Hq (inpl, x, noise)); left; reflexivity).
    assert (E : forall e, e = WriteAll 0 x \/ e = SetSig 0 x ->
                responses_spec dflt g [c] ((e :: noise ++ [Respond 0]) ++ flat_map iteration its) sigs =
                (0%nat, sweep_of dflt g c x) :: map (fun it => (0%nat, sweep_of dflt g c (snd (fst it)))) its).
    { intros e He. rewrite <- app_comm_cons, <- app_assoc.
      assert (Es : responses_spec dflt g [c] (e :: noise ++ [Respond 0] ++ flat_map iteration its) sigs =
                   responses_spec dflt g [c] (noise ++ [Respond 0] ++ flat_map iteration its) (upd sigs 0 x)).
      { destruct He as [-> | ->]; reflexivity. }
      rewrite Es, spec_quiet by auto. cbn [app responses_spec nth_error]. rewrite Hsrc.
      unfold sig_of at 1. rewrite nth_upd_same by auto. f_equal.
      apply IH; [intros it Hit; apply Hq; right; auto | rewrite upd_length; auto]. }
    destruct inpl; apply E; auto.
  Qed.
End HistProofs.
