(* Bounds of the aggregation functions (Model/Agg.v) over R, for every vector length n >= 1, and the
   AggScaling state machine for every call sequence.
   The extreme is characterised, not computed: M is "the" maximum of x when  In M x /\ forall v in x, v <= M
   (so the theorems hold for whatever np.max returns), likewise the minimum. *)
From Coq Require Import Reals List Lra Lia ZArith.
From Pymoto Require Import Base.Num Model.Agg.
Import ListNotations.
Open Scope R_scope.

Definition is_max (M : R) (x : list R) : Prop := In M x /\ forall v, In v x -> v <= M.
Definition is_min (m : R) (x : list R) : Prop := In m x /\ forall v, In v x -> m <= v.
Definition all_pos (x : list R) : Prop := forall v, In v x -> 0 < v.
Definition mean (x : list R) : R := rsum x / INR (length x).

(* ------------------------------------------------------------------ sums *)
Lemma rsum_cons a l : rsum (a :: l) = a + rsum l.
Proof. reflexivity. Qed.
Lemma rsum_nil : rsum [] = 0.
Proof. reflexivity. Qed.

Lemma rsum_nonneg l : (forall t, In t l -> 0 <= t) -> 0 <= rsum l.
Proof.
  induction l as [|a l IH]; intros H; [rewrite rsum_nil; lra | rewrite rsum_cons].
  assert (0 <= a) by (apply H; left; reflexivity).
  assert (0 <= rsum l) by (apply IH; intros t Ht; apply H; right; exact Ht). lra.
Qed.

Lemma rsum_ge_term l t : (forall u, In u l -> 0 <= u) -> In t l -> t <= rsum l.
Proof.
  induction l as [|a l IH]; intros H Hin; [contradiction|]. rewrite rsum_cons.
  assert (Ha : 0 <= a) by (apply H; left; reflexivity).
  assert (Hl : forall u, In u l -> 0 <= u) by (intros u Hu; apply H; right; exact Hu).
  destruct Hin as [-> | Hin].
  - pose proof (rsum_nonneg l Hl). lra.
  - specialize (IH Hl Hin). lra.
Qed.

Lemma rsum_le_bound l B : (forall u, In u l -> u <= B) -> rsum l <= INR (length l) * B.
Proof.
  induction l as [|a l IH]; intros H.
  - cbn. lra.
  - rewrite rsum_cons. cbn [length]. rewrite S_INR.
    assert (a <= B) by (apply H; left; reflexivity).
    assert (rsum l <= INR (length l) * B) by (apply IH; intros u Hu; apply H; right; exact Hu).
    lra.
Qed.

Lemma rsum_ge_bound l B : (forall u, In u l -> B <= u) -> INR (length l) * B <= rsum l.
Proof.
  induction l as [|a l IH]; intros H.
  - cbn. lra.
  - rewrite rsum_cons. cbn [length]. rewrite S_INR.
    assert (B <= a) by (apply H; left; reflexivity).
    assert (INR (length l) * B <= rsum l) by (apply IH; intros u Hu; apply H; right; exact Hu).
    lra.
Qed.

Lemma rsum_map_le {A} (f g : A -> R) l : (forall a, In a l -> f a <= g a) -> rsum (map f l) <= rsum (map g l).
Proof.
  induction l as [|a l IH]; intros H; cbn [map]; [lra|]. rewrite !rsum_cons.
  assert (f a <= g a) by (apply H; left; reflexivity).
  assert (rsum (map f l) <= rsum (map g l)) by (apply IH; intros b Hb; apply H; right; exact Hb).
  lra.
Qed.

Lemma rsum_map_scale {A} (f : A -> R) c l : rsum (map (fun a => c * f a) l) = c * rsum (map f l).
Proof. induction l as [|a l IH]; cbn [map]; [rewrite rsum_nil; lra|]. rewrite !rsum_cons, IH. lra. Qed.

Lemma INR_length_pos {A} (l : list A) : l <> [] -> 0 < INR (length l).
Proof. destruct l; [congruence|]. intros _. apply lt_0_INR. cbn. lia. Qed.

Lemma is_max_nonempty M x : is_max M x -> x <> [].
Proof. intros [H _]. destruct x; [contradiction | congruence]. Qed.
Lemma is_min_nonempty m x : is_min m x -> x <> [].
Proof. intros [H _]. destruct x; [contradiction | congruence]. Qed.

(* ------------------------------------------------------------------ real powers *)
Lemma Rpower_pos a b : 0 < Rpower a b.
Proof. unfold Rpower. apply exp_pos. Qed.

Lemma ln_le_mono a b : 0 < a -> a <= b -> ln a <= ln b.
Proof. intros Ha [Hlt | ->]; [left; apply ln_increasing; assumption | lra]. Qed.

(* negative exponent: the power is decreasing in the base *)
Lemma Rpower_le_neg a b c : c <= 0 -> 0 < a <= b -> Rpower b c <= Rpower a c.
Proof.
  intros Hc [Ha Hab]. unfold Rpower.
  assert (ln a <= ln b) by (apply ln_le_mono; assumption).
  assert (c * ln b <= c * ln a) by nra.
  destruct H0 as [Hlt | ->]; [left; apply exp_increasing; exact Hlt | lra].
Qed.

Lemma Rpower_inv_exp x p : 0 < x -> p <> 0 -> Rpower (Rpower x p) (1 / p) = x.
Proof.
  intros Hx Hp. rewrite Rpower_mult. replace (p * (1 / p)) with 1 by (field; exact Hp).
  apply Rpower_1. exact Hx.
Qed.

Lemma pnorm_terms p x : all_pos x ->
  map (fun v => Rpower v p) (map Rabs x) = map (fun v => Rpower v p) x.
Proof.
  intros Hpos. rewrite map_map. apply map_ext_in. intros a Ha.
  rewrite Rabs_right; [reflexivity | left; apply Hpos; exact Ha].
Qed.

(* ------------------------------------------------------------------ P-norm *)
(* p > 0:   max <= ||x||_p <= n^(1/p) * max *)
Theorem pnorm_bounds_pos p x M : 0 < p -> all_pos x -> is_max M x ->
  M <= pnorm p x <= Rpower (INR (length x)) (1 / p) * M.
Proof.
  intros Hp Hpos [HMin HM]. assert (HM0 : 0 < M) by (apply Hpos; exact HMin).
  assert (Hn : 0 < INR (length x)) by (apply INR_length_pos; destruct x; [contradiction | congruence]).
  unfold pnorm. rewrite (pnorm_terms p x Hpos).
  set (S := rsum (map (fun v => Rpower v p) x)).
  assert (Hlow : Rpower M p <= S).
  { apply rsum_ge_term.
    - intros u Hu. apply in_map_iff in Hu as [v [<- _]]. left. apply Rpower_pos.
    - apply in_map_iff. exists M. split; [reflexivity | exact HMin]. }
  assert (Hup : S <= INR (length x) * Rpower M p).
  { unfold S. replace (length x) with (length (map (fun v => Rpower v p) x)) by apply map_length.
    apply rsum_le_bound. intros u Hu. apply in_map_iff in Hu as [v [<- Hv]].
    apply Rle_Rpower_l; [lra | split; [apply Hpos; exact Hv | apply HM; exact Hv]]. }
  assert (Hq : 0 <= 1 / p) by (left; apply Rdiv_lt_0_compat; lra).
  split.
  - rewrite <- (Rpower_inv_exp M p HM0) at 1 by lra.
    apply Rle_Rpower_l; [exact Hq | split; [apply Rpower_pos | exact Hlow]].
  - rewrite <- (Rpower_inv_exp M p HM0) at 1 by lra.
    rewrite Rpower_mult_distr by (try exact Hn; apply Rpower_pos).
    apply Rle_Rpower_l; [exact Hq | split; [|exact Hup]].
    apply Rlt_le_trans with (Rpower M p); [apply Rpower_pos | exact Hlow].
Qed.

(* p < 0:   n^(1/p) * min <= ||x||_p <= min *)
Theorem pnorm_bounds_neg p x m : p < 0 -> all_pos x -> is_min m x ->
  Rpower (INR (length x)) (1 / p) * m <= pnorm p x <= m.
Proof.
  intros Hp Hpos [Hmin Hm]. assert (Hm0 : 0 < m) by (apply Hpos; exact Hmin).
  assert (Hn : 0 < INR (length x)) by (apply INR_length_pos; destruct x; [contradiction | congruence]).
  unfold pnorm. rewrite (pnorm_terms p x Hpos).
  set (S := rsum (map (fun v => Rpower v p) x)).
  assert (Hlow : Rpower m p <= S).
  { apply rsum_ge_term.
    - intros u Hu. apply in_map_iff in Hu as [v [<- _]]. left. apply Rpower_pos.
    - apply in_map_iff. exists m. split; [reflexivity | exact Hmin]. }
  assert (Hup : S <= INR (length x) * Rpower m p).
  { unfold S. replace (length x) with (length (map (fun v => Rpower v p) x)) by apply map_length.
    apply rsum_le_bound. intros u Hu. apply in_map_iff in Hu as [v [<- Hv]].
    apply Rpower_le_neg; [lra | split; [exact Hm0 | apply Hm; exact Hv]]. }
  assert (Hq : 1 / p <= 0).
  { left. unfold Rdiv. rewrite Rmult_1_l. apply Rinv_lt_0_compat. exact Hp. }
  assert (HS0 : 0 < S) by (apply Rlt_le_trans with (Rpower m p); [apply Rpower_pos | exact Hlow]).
  split.
  - rewrite <- (Rpower_inv_exp m p Hm0) at 1 by lra.
    rewrite Rpower_mult_distr by (try exact Hn; apply Rpower_pos).
    apply Rpower_le_neg; [exact Hq | split; [exact HS0 | exact Hup]].
  - rewrite <- (Rpower_inv_exp m p Hm0) at 1 by lra.
    apply Rpower_le_neg; [exact Hq | split; [apply Rpower_pos | exact Hlow]].
Qed.

(* ------------------------------------------------------------------ KS function *)
Lemma ks_sum_pos rho x : x <> [] -> 0 < rsum (map exp (rscale rho x)).
Proof.
  destruct x as [|a x]; [congruence|]. intros _. cbn [rscale map]. rewrite rsum_cons.
  assert (0 <= rsum (map exp (rscale rho x))).
  { apply rsum_nonneg. intros t Ht. apply in_map_iff in Ht as [v [<- _]]. left. apply exp_pos. }
  pose proof (exp_pos (rho * a)). unfold rscale in *. lra.
Qed.

Lemma exp_le_mono a b : a <= b -> exp a <= exp b.
Proof. intros [H | ->]; [left; apply exp_increasing; exact H | lra]. Qed.

(* rho > 0:   max <= KS <= max + ln(n)/rho   (no sign condition on the data) *)
Theorem ks_bounds_pos rho x M : 0 < rho -> is_max M x ->
  M <= ks rho x <= M + ln (INR (length x)) / rho.
Proof.
  intros Hr HMx. pose proof (is_max_nonempty _ _ HMx) as Hx. destruct HMx as [HMin HM].
  assert (Hn : 0 < INR (length x)) by (apply INR_length_pos; exact Hx).
  unfold ks. set (S := rsum (map exp (rscale rho x))).
  assert (HS : 0 < S) by (apply ks_sum_pos; exact Hx).
  assert (Hlow : exp (rho * M) <= S).
  { apply rsum_ge_term.
    - intros u Hu. apply in_map_iff in Hu as [v [<- _]]. left. apply exp_pos.
    - apply in_map_iff. exists (rho * M). split; [reflexivity|]. unfold rscale. apply in_map_iff.
      exists M. split; [reflexivity | exact HMin]. }
  assert (Hup : S <= INR (length x) * exp (rho * M)).
  { unfold S. replace (length x) with (length (map exp (rscale rho x))) by (unfold rscale; rewrite !map_length; reflexivity).
    apply rsum_le_bound. intros u Hu. apply in_map_iff in Hu as [w [<- Hw]].
    unfold rscale in Hw. apply in_map_iff in Hw as [v [<- Hv]].
    apply exp_le_mono. apply Rmult_le_compat_l; [lra | apply HM; exact Hv]. }
  assert (L1 : rho * M <= ln S).
  { rewrite <- (ln_exp (rho * M)). apply ln_le_mono; [apply exp_pos | exact Hlow]. }
  assert (L2 : ln S <= ln (INR (length x)) + rho * M).
  { rewrite <- (ln_exp (rho * M)) at 1. rewrite <- ln_mult by (try exact Hn; apply exp_pos).
    apply ln_le_mono; [exact HS | exact Hup]. }
  assert (Hi : 0 < / rho) by (apply Rinv_0_lt_compat; exact Hr).
  unfold Rdiv. rewrite Rmult_1_l. split.
  - apply Rmult_le_reg_l with rho; [exact Hr|]. rewrite <- Rmult_assoc, Rinv_r by lra. lra.
  - apply Rmult_le_reg_l with rho; [exact Hr|]. rewrite <- Rmult_assoc, Rinv_r by lra.
    rewrite Rmult_plus_distr_l. rewrite (Rmult_comm (ln (INR (length x)))), <- Rmult_assoc, Rinv_r by lra. lra.
Qed.

(* rho < 0:   min + ln(n)/rho <= KS <= min *)
Theorem ks_bounds_neg rho x m : rho < 0 -> is_min m x ->
  m + ln (INR (length x)) / rho <= ks rho x <= m.
Proof.
  intros Hr Hmx. pose proof (is_min_nonempty _ _ Hmx) as Hx. destruct Hmx as [Hmin Hm].
  assert (Hn : 0 < INR (length x)) by (apply INR_length_pos; exact Hx).
  unfold ks. set (S := rsum (map exp (rscale rho x))).
  assert (HS : 0 < S) by (apply ks_sum_pos; exact Hx).
  assert (Hlow : exp (rho * m) <= S).
  { apply rsum_ge_term.
    - intros u Hu. apply in_map_iff in Hu as [v [<- _]]. left. apply exp_pos.
    - apply in_map_iff. exists (rho * m). split; [reflexivity|]. unfold rscale. apply in_map_iff.
      exists m. split; [reflexivity | exact Hmin]. }
  assert (Hup : S <= INR (length x) * exp (rho * m)).
  { unfold S. replace (length x) with (length (map exp (rscale rho x))) by (unfold rscale; rewrite !map_length; reflexivity).
    apply rsum_le_bound. intros u Hu. apply in_map_iff in Hu as [w [<- Hw]].
    unfold rscale in Hw. apply in_map_iff in Hw as [v [<- Hv]].
    apply exp_le_mono. specialize (Hm v Hv). nra. }
  assert (L1 : rho * m <= ln S).
  { rewrite <- (ln_exp (rho * m)). apply ln_le_mono; [apply exp_pos | exact Hlow]. }
  assert (L2 : ln S <= ln (INR (length x)) + rho * m).
  { rewrite <- (ln_exp (rho * m)) at 1. rewrite <- ln_mult by (try exact Hn; apply exp_pos).
    apply ln_le_mono; [exact HS | exact Hup]. }
  assert (Hi : / rho < 0) by (apply Rinv_lt_0_compat; exact Hr).
  assert (Hri : rho * / rho = 1) by (apply Rinv_r; lra).
  unfold Rdiv. rewrite Rmult_1_l.
  assert (E1 : m = / rho * (rho * m)) by (rewrite <- Rmult_assoc, (Rmult_comm (/ rho)), Hri; lra).
  split.
  - replace (m + ln (INR (length x)) * / rho) with (/ rho * (ln (INR (length x)) + rho * m)).
    + apply Rmult_le_compat_neg_l; [lra | exact L2].
    + rewrite Rmult_plus_distr_l, <- E1. lra.
  - rewrite E1 at 1. apply Rmult_le_compat_neg_l; [lra | exact L1].
Qed.

(* ------------------------------------------------------------------ soft max / min *)
(* S_alpha(x) = (sum x_i e_i) / (sum e_i),  e_i = exp(alpha x_i) *)
Lemma softminmax_quot alpha x : x <> [] ->
  softminmax alpha x = rsum (map (fun v => v * exp (alpha * v)) x) / rsum (map (fun v => exp (alpha * v)) x).
Proof.
  intros Hx. unfold softminmax, softmax, rscale. rewrite !map_map.
  set (E := rsum (map (fun v => exp (alpha * v)) x)).
  assert (HE : 0 < E).
  { unfold E. pose proof (ks_sum_pos alpha x Hx) as H. unfold rscale in H. rewrite map_map in H. exact H. }
  assert (G : forall l, rsum (rmul l (map (fun v => exp (alpha * v) / E) l)) = rsum (map (fun v => v * exp (alpha * v)) l) / E).
  { induction l as [|a l IH]; cbn.
    - unfold Rdiv. lra.
    - unfold rmul, rsum in IH. unfold rsum. rewrite IH. field. lra. }
  apply G.
Qed.

Lemma exp_sum_pos alpha x : x <> [] -> 0 < rsum (map (fun v => exp (alpha * v)) x).
Proof. intros Hx. pose proof (ks_sum_pos alpha x Hx) as H. unfold rscale in H. rewrite map_map in H. exact H. Qed.

(* weighted average with positive weights lies between min and max: any alpha *)
Theorem softminmax_le_max alpha x M : is_max M x -> softminmax alpha x <= M.
Proof.
  intros HMx. pose proof (is_max_nonempty _ _ HMx) as Hx. destruct HMx as [_ HM].
  rewrite softminmax_quot by exact Hx. pose proof (exp_sum_pos alpha x Hx) as HE.
  set (E := rsum (map (fun v => exp (alpha * v)) x)) in *.
  assert (H1 : rsum (map (fun v => v * exp (alpha * v)) x) <= M * E).
  { unfold E. rewrite <- rsum_map_scale. apply rsum_map_le. intros a Ha.
    apply Rmult_le_compat_r; [left; apply exp_pos | apply HM; exact Ha]. }
  apply Rmult_le_reg_r with E; [exact HE|]. unfold Rdiv. rewrite Rmult_assoc, Rinv_l by lra. lra.
Qed.

Theorem softminmax_ge_min alpha x m : is_min m x -> m <= softminmax alpha x.
Proof.
  intros Hmx. pose proof (is_min_nonempty _ _ Hmx) as Hx. destruct Hmx as [_ Hm].
  rewrite softminmax_quot by exact Hx. pose proof (exp_sum_pos alpha x Hx) as HE.
  set (E := rsum (map (fun v => exp (alpha * v)) x)) in *.
  assert (H2 : m * E <= rsum (map (fun v => v * exp (alpha * v)) x)).
  { unfold E. rewrite <- rsum_map_scale. apply rsum_map_le. intros a Ha.
    apply Rmult_le_compat_r; [left; apply exp_pos | apply Hm; exact Ha]. }
  apply Rmult_le_reg_r with E; [exact HE|]. unfold Rdiv. rewrite Rmult_assoc, Rinv_l by lra. lra.
Qed.

(* Chebyshev's sum inequality for similarly ordered sequences (f monotone):
     n * sum a_i f(a_i) >= (sum a_i) (sum f(a_i)) *)
Lemma cross_sum f a (l : list R) :
  rsum (map (fun v => (a - v) * (f a - f v)) l) =
  INR (length l) * (a * f a) + rsum (map (fun v => v * f v) l) - a * rsum (map f l) - f a * rsum l.
Proof.
  induction l as [|b l IH].
  - cbn. lra.
  - cbn [map length]. rewrite !rsum_cons, S_INR, IH. ring.
Qed.

Lemma chebyshev_similar f (l : list R) : (forall a b, (a - b) * (f a - f b) >= 0) ->
  rsum l * rsum (map f l) <= INR (length l) * rsum (map (fun v => v * f v) l).
Proof.
  intros Hf. induction l as [|a l IH].
  - cbn. lra.
  - cbn [map length]. rewrite !rsum_cons, S_INR.
    assert (Hc : 0 <= rsum (map (fun v => (a - v) * (f a - f v)) l)).
    { apply rsum_nonneg. intros t Ht. apply in_map_iff in Ht as [v [<- _]]. specialize (Hf a v). lra. }
    rewrite cross_sum in Hc. nra.
Qed.

Lemma chebyshev_opposite f (l : list R) : (forall a b, (a - b) * (f a - f b) <= 0) ->
  INR (length l) * rsum (map (fun v => v * f v) l) <= rsum l * rsum (map f l).
Proof.
  intros Hf. induction l as [|a l IH].
  - cbn. lra.
  - cbn [map length]. rewrite !rsum_cons, S_INR.
    assert (Hc : 0 <= rsum (map (fun v => - ((a - v) * (f a - f v))) l)).
    { apply rsum_nonneg. intros t Ht. apply in_map_iff in Ht as [v [<- _]]. specialize (Hf a v). lra. }
    replace (map (fun v => - ((a - v) * (f a - f v))) l) with (map (fun v => -1 * ((a - v) * (f a - f v))) l) in Hc
      by (apply map_ext; intros; ring).
    rewrite rsum_map_scale, cross_sum in Hc. nra.
Qed.

Lemma exp_similar alpha a b : 0 <= alpha -> (a - b) * (exp (alpha * a) - exp (alpha * b)) >= 0.
Proof.
  intros Ha. destruct (Rle_lt_dec a b) as [Hab | Hab].
  - assert (exp (alpha * a) <= exp (alpha * b)) by (apply exp_le_mono; nra). nra.
  - assert (exp (alpha * b) <= exp (alpha * a)) by (apply exp_le_mono; nra). nra.
Qed.

Lemma exp_opposite alpha a b : alpha <= 0 -> (a - b) * (exp (alpha * a) - exp (alpha * b)) <= 0.
Proof.
  intros Ha. destruct (Rle_lt_dec a b) as [Hab | Hab].
  - assert (exp (alpha * b) <= exp (alpha * a)) by (apply exp_le_mono; nra). nra.
  - assert (exp (alpha * a) <= exp (alpha * b)) by (apply exp_le_mono; nra). nra.
Qed.

(* alpha > 0:   mean <= S_alpha <= max *)
Theorem softmax_bounds_pos alpha x M : 0 < alpha -> is_max M x -> mean x <= softminmax alpha x <= M.
Proof.
  intros Ha HMx. pose proof (is_max_nonempty _ _ HMx) as Hx. split.
  - rewrite softminmax_quot by exact Hx. pose proof (exp_sum_pos alpha x Hx) as HE.
    pose proof (INR_length_pos x Hx) as Hn. unfold mean.
    pose proof (chebyshev_similar (fun v => exp (alpha * v)) x (fun a b => exp_similar alpha a b (Rlt_le _ _ Ha))) as C.
    set (E := rsum (map (fun v => exp (alpha * v)) x)) in *.
    set (P := rsum (map (fun v => v * exp (alpha * v)) x)) in *.
    apply Rmult_le_reg_r with (INR (length x) * E); [apply Rmult_lt_0_compat; assumption|].
    replace (rsum x / INR (length x) * (INR (length x) * E)) with (rsum x * E) by (field; lra).
    replace (P / E * (INR (length x) * E)) with (INR (length x) * P) by (field; lra). exact C.
  - apply softminmax_le_max. exact HMx.
Qed.

(* alpha < 0:   min <= S_alpha <= mean *)
Theorem softmax_bounds_neg alpha x m : alpha < 0 -> is_min m x -> m <= softminmax alpha x <= mean x.
Proof.
  intros Ha Hmx. pose proof (is_min_nonempty _ _ Hmx) as Hx. split.
  - apply softminmax_ge_min. exact Hmx.
  - rewrite softminmax_quot by exact Hx. pose proof (exp_sum_pos alpha x Hx) as HE.
    pose proof (INR_length_pos x Hx) as Hn. unfold mean.
    pose proof (chebyshev_opposite (fun v => exp (alpha * v)) x (fun a b => exp_opposite alpha a b (Rlt_le _ _ Ha))) as C.
    set (E := rsum (map (fun v => exp (alpha * v)) x)) in *.
    set (P := rsum (map (fun v => v * exp (alpha * v)) x)) in *.
    apply Rmult_le_reg_r with (INR (length x) * E); [apply Rmult_lt_0_compat; assumption|].
    replace (rsum x / INR (length x) * (INR (length x) * E)) with (rsum x * E) by (field; lra).
    replace (P / E * (INR (length x) * E)) with (INR (length x) * P) by (field; lra). exact C.
Qed.

(* exact when all entries are equal (any alpha) *)
Theorem softminmax_all_equal alpha x c : x <> [] -> (forall v, In v x -> v = c) -> softminmax alpha x = c.
Proof.
  intros Hx Hall.
  assert (Hc : In c x) by (destruct x as [|h t]; [congruence | rewrite <- (Hall h (or_introl eq_refl)); left; reflexivity]).
  assert (Hmin : is_min c x) by (split; [exact Hc | intros v Hv; rewrite (Hall v Hv); lra]).
  assert (Hmax : is_max c x) by (split; [exact Hc | intros v Hv; rewrite (Hall v Hv); lra]).
  pose proof (softminmax_le_max alpha x c Hmax). pose proof (softminmax_ge_min alpha x c Hmin). lra.
Qed.

(* ------------------------------------------------------------------ AggScaling *)
(* the first call, and every call when undamped, makes  sf * approx = true value  exactly *)
Theorem scaling_first_call (d t a : R) : a <> 0 -> scaling_step d None t a * a = t.
Proof. intros Ha. cbn. field. exact Ha. Qed.

Theorem scaling_undamped (sf : option R) (t a : R) : a <> 0 -> scaling_step 0 sf t a * a = t.
Proof. intros Ha. destruct sf as [s|]; cbn; field; exact Ha. Qed.

(* Aggregation._response with an undamped scaling object returns the true extreme of the selected
   entries, at every call of every history (whatever the register holds) *)
Theorem response_undamped (agg ext : list R -> R) (sf : option R) (xs : list R) :
  agg xs <> 0 -> fst (response agg ext (Some 0) sf xs) = ext xs.
Proof. intros Ha. unfold response. cbn [fst]. apply scaling_undamped. exact Ha. Qed.

Theorem response_run_undamped (agg ext : list R -> R) (hist : list (list R)) : forall sf,
  (forall xs, In xs hist -> agg xs <> 0) ->
  response_run agg ext (Some 0) sf hist = map ext hist.
Proof.
  induction hist as [|xs r IH]; intros sf H; [reflexivity|].
  cbn [response_run map]. f_equal.
  - apply response_undamped. apply H. left. reflexivity.
  - apply IH. intros ys Hy. apply H. right. exact Hy.
Qed.

(* ---- histories in which the aggregation parameter is re-assigned between response() calls *)
(* a history with a constant parameter is the special case *)
Theorem response_run_is_par (agg ext : list R -> R) (damp : option R) (hist : list (list R)) : forall sf,
  response_run agg ext damp sf hist = response_run_par ext damp sf (map (fun xs => (agg, xs)) hist).
Proof.
  induction hist as [|xs r IH]; intros sf; [reflexivity|].
  cbn [response_run response_run_par map]. f_equal. apply IH.
Qed.

(* the supplied-value history used by the correspondence check is the parameter-changing history with constant
   aggregation functions *)
Theorem response_run_obs_is_par (is_max : bool) (damp : option QArith_base.Q)
        (hist : list (list QArith_base.Q * QArith_base.Q)) : forall sf,
  response_run_obs is_max damp sf hist =
  response_run_par (qext is_max) damp sf (map (fun q => ((fun _ : list QArith_base.Q => snd q), fst q)) hist).
Proof.
  induction hist as [|[xs a] r IH]; intros sf; [reflexivity|].
  cbn [response_run_obs response_run_par map fst snd]. f_equal. apply IH.
Qed.

(* undamped scaling: the true extreme of the selected entries at every call, whatever the parameter of that call is
   and whatever it was before *)
Theorem response_run_par_undamped (ext : list R -> R) (hist : list ((list R -> R) * list R)) : forall sf,
  (forall agg xs, In (agg, xs) hist -> agg xs <> 0) ->
  response_run_par ext (Some 0) sf hist = map (fun q => ext (snd q)) hist.
Proof.
  induction hist as [|[agg xs] r IH]; intros sf Hn; [reflexivity|].
  cbn [response_run_par map snd]. f_equal.
  - apply response_undamped. apply Hn. left. reflexivity.
  - apply IH. intros a ys Hy. apply (Hn a ys). right. exact Hy.
Qed.

(* without a scaling object the output of call k is the aggregation value for the parameter of call k: nothing of an
   earlier parameter survives *)
Theorem response_run_par_unscaled (ext : list R -> R) (hist : list ((list R -> R) * list R)) : forall sf,
  response_run_par ext None sf hist = map (fun q => fst q (snd q)) hist.
Proof.
  induction hist as [|[agg xs] r IH]; intros sf; [reflexivity|].
  cbn [response_run_par map fst snd response]. f_equal; [cbn; ring | apply IH].
Qed.

(* hence the bounds of the property text hold at every call for the CURRENT parameter (p-norm, positive parameters;
   the other five bound theorems combine in the same way) *)
Theorem pnorm_continuation_bounds (ext : list R -> R) (hist : list (R * list R)) (sf : option R) :
  forall k p x M, nth_error hist k = Some (p, x) -> 0 < p -> all_pos x -> is_max M x ->
  exists y, nth_error (response_run_par ext None sf (map (fun q => (pnorm (fst q), snd q)) hist)) k = Some y /\
            M <= y <= Rpower (INR (length x)) (1 / p) * M.
Proof.
  intros k p x M Hk Hp Hx HM. rewrite response_run_par_unscaled. rewrite map_map. cbn [fst snd].
  exists (pnorm p x). split.
  - rewrite nth_error_map, Hk. reflexivity.
  - exact (pnorm_bounds_pos p x M Hp Hx HM).
Qed.

(* the recurrence  s_0 = t_0/a_0,  s_k = d*s_(k-1) + (1-d)*t_k/a_k  for every call sequence *)
Theorem scaling_recurrence (d : R) (calls : list (R * R)) :
  let s := scaling_run d None calls in
  length s = length calls /\
  (forall t a, nth_error calls 0 = Some (t, a) -> nth_error s 0 = Some (t / a)) /\
  (forall k t a sp, nth_error calls (S k) = Some (t, a) -> nth_error s k = Some sp ->
                    nth_error s (S k) = Some (d * sp + (1 - d) * (t / a))).
Proof.
  cbn zeta.
  assert (G : forall calls sf,
    length (scaling_run d sf calls) = length calls /\
    (forall t a, nth_error calls 0 = Some (t, a) -> nth_error (scaling_run d sf calls) 0 = Some (scaling_step d sf t a)) /\
    (forall k t a sp, nth_error calls (S k) = Some (t, a) -> nth_error (scaling_run d sf calls) k = Some sp ->
                      nth_error (scaling_run d sf calls) (S k) = Some (d * sp + (1 - d) * (t / a)))).
  { clear calls. induction calls as [|[t0 a0] r IH]; intros sf.
    - cbn. repeat split; intros; discriminate.
    - cbn [scaling_run length]. destruct (IH (Some (scaling_step d sf t0 a0))) as [L [F Rc]].
      repeat split.
      + rewrite L. reflexivity.
      + intros t a E. cbn in E. injection E as <- <-. reflexivity.
      + intros k t a sp E Es. cbn [nth_error] in E. destruct k as [|k].
        * cbn [nth_error] in Es. injection Es as Es. subst sp.
          change (nth_error (scaling_run d (Some (scaling_step d sf t0 a0)) r) 0 = Some (d * scaling_step d sf t0 a0 + (1 - d) * (t / a))).
          rewrite (F t a E). reflexivity.
        * cbn [nth_error] in *. apply (Rc k t a sp E Es). }
  destruct (G calls None) as [L [F Rc]]. repeat split; assumption.
Qed.
