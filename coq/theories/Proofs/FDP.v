(* C19 — lemmas about Model/FD.v *)
From Coq Require Import ZArith QArith Qcanon List Bool Lia Arith.
From Pymoto Require Import Model.FD.
Import ListNotations.
Local Open Scope Qc_scope.

(* ------------------------------------------------------------------ complex rationals *)
Lemma k_eq (a b : K) : fst a = fst b -> snd a = snd b -> a = b.
Proof. destruct a, b; cbn; intros; subst; reflexivity. Qed.

Definition kscalei (d : Qc) (j : K) : K := (- (d * snd j), d * fst j).       (* (i d) * j *)

Lemma diff_affine_pt f d j : ksub (kadd f (kscale d j)) f = kscale d j.
Proof. apply k_eq; cbn; ring. Qed.
Lemma diff_affine_pt_i f d j : ksub (kadd f (kscalei d j)) f = kscalei d j.
Proof. apply k_eq; cbn; ring. Qed.
Lemma div_scale d j : d <> 0 -> kdivr (kscale d j) d = j.
Proof. intros H. apply k_eq; cbn; field; exact H. Qed.
Lemma divi_scalei d j : d <> 0 -> kdivi (kscalei d j) d = j.
Proof. intros H. apply k_eq; cbn; field; exact H. Qed.
Lemma div_quad d j h : d <> 0 -> kdivr (kadd (kscale d j) (kscale (d * d) h)) d = kadd j (kscale d h).
Proof. intros H. apply k_eq; cbn; field; exact H. Qed.

Lemma kadd_0_l a : kadd k0 a = a. Proof. apply k_eq; cbn; ring. Qed.
Lemma kadd_0_r a : kadd a k0 = a. Proof. apply k_eq; cbn; ring. Qed.
Lemma kadd_assoc a b c : kadd a (kadd b c) = kadd (kadd a b) c. Proof. apply k_eq; cbn; ring. Qed.
Lemma kadd_comm a b : kadd a b = kadd b a. Proof. apply k_eq; cbn; ring. Qed.
Lemma kmul_add_l a b w : kmul (kadd a b) w = kadd (kmul a w) (kmul b w). Proof. apply k_eq; cbn; ring. Qed.
Lemma kmul_scale_l d a w : kmul (kscale d a) w = kscale d (kmul a w). Proof. apply k_eq; cbn; ring. Qed.
Lemma kscale_add d a b : kscale d (kadd a b) = kadd (kscale d a) (kscale d b). Proof. apply k_eq; cbn; ring. Qed.
Lemma kscale_0 d : kscale d k0 = k0. Proof. apply k_eq; cbn; ring. Qed.
Lemma kre_add a b : kre (kadd a b) = kre a + kre b. Proof. reflexivity. Qed.
Lemma kim_add a b : kim (kadd a b) = kim a + kim b. Proof. reflexivity. Qed.
Lemma kre_scale d a : kre (kscale d a) = d * kre a. Proof. reflexivity. Qed.
Lemma kim_scale d a : kim (kscale d a) = d * kim a. Proof. reflexivity. Qed.

(* ------------------------------------------------------------------ lists *)
Lemma upd_length {A} (l : list A) i x : length (upd l i x) = length l.
Proof. revert i; induction l as [|h t IH]; intros [|i]; cbn; auto. Qed.
Lemma nth_upd_eq {A} (l : list A) i x d : (i < length l)%nat -> nth i (upd l i x) d = x.
Proof. revert i; induction l as [|h t IH]; intros [|i] Hi; cbn in *; try lia; auto. apply IH; lia. Qed.
Lemma nth_upd_neq {A} (l : list A) i j x d : i <> j -> nth j (upd l i x) d = nth j l d.
Proof.
  revert i j; induction l as [|h t IH]; intros [|i] [|j] Hij; cbn; auto; try congruence.
  all: try (apply IH; congruence).
Qed.
Lemma upd_same {A} (l : list A) i d : upd l i (nth i l d) = l.
Proof. revert i; induction l as [|h t IH]; intros [|i]; cbn; auto. f_equal. apply IH. Qed.
Lemma upd_oob {A} (l : list A) i x : (length l <= i)%nat -> upd l i x = l.
Proof. revert i; induction l as [|h t IH]; intros [|i] Hi; cbn in *; auto; try lia. f_equal. apply IH; lia. Qed.

Lemma map2_map_l {A A' B D} (g : A' -> A) (f : A -> B -> D) a b : map2 f (map g a) b = map2 (fun x y => f (g x) y) a b.
Proof. revert b; induction a as [|x a IH]; intros [|y b]; cbn; auto. f_equal. apply IH. Qed.

Lemma diff_affine (d : Qc) f0 J : length J = length f0 ->
  map2 ksub (map2 (fun f j => kadd f (kscale d j)) f0 J) f0 = map (kscale d) J.
Proof.
  revert J; induction f0 as [|f f0 IH]; intros [|j J] H; cbn in *; try discriminate; auto.
  rewrite diff_affine_pt. f_equal. apply IH. lia.
Qed.
Lemma diff_affine_i (d : Qc) f0 J : length J = length f0 ->
  map2 ksub (map2 (fun f j => kadd f (kscalei d j)) f0 J) f0 = map (kscalei d) J.
Proof.
  revert J; induction f0 as [|f f0 IH]; intros [|j J] H; cbn in *; try discriminate; auto.
  rewrite diff_affine_pt_i. f_equal. apply IH. lia.
Qed.
Lemma diff_quad (d : Qc) f0 J Hs : length J = length f0 -> length Hs = length f0 ->
  map2 ksub (map2 (fun f jh => kadd f (kadd (kscale d (fst jh)) (kscale (d * d) (snd jh)))) f0 (combine J Hs)) f0
  = map (fun jh => kadd (kscale d (fst jh)) (kscale (d * d) (snd jh))) (combine J Hs).
Proof.
  revert J Hs; induction f0 as [|f f0 IH]; intros [|j J] [|h Hs] H1 H2; cbn in *; try discriminate; auto.
  f_equal; [apply k_eq; cbn; ring|]. apply IH; lia.
Qed.

Lemma map_div_scale d J : d <> 0 -> map (fun a => kdivr a d) (map (kscale d) J) = J.
Proof. intros H. rewrite map_map. rewrite <- (map_id J) at 2. apply map_ext. intros a. apply div_scale; exact H. Qed.
Lemma map_divi_scalei d J : d <> 0 -> map (fun a => kdivi a d) (map (kscalei d) J) = J.
Proof. intros H. rewrite map_map. rewrite <- (map_id J) at 2. apply map_ext. intros a. apply divi_scalei; exact H. Qed.

Lemma ksum_cons x l : ksum (x :: l) = kadd x (ksum l).
Proof. reflexivity. Qed.

(* dot is linear in its first argument (the second one is broadcast according to the length of the first) *)
Lemma ksum_app a b : ksum (a ++ b) = kadd (ksum a) (ksum b).
Proof. unfold ksum. induction a as [|x a IH]; cbn; [symmetry; apply kadd_0_l|]. rewrite IH. apply kadd_assoc. Qed.

Lemma dot_lin_aux (d : Qc) : forall (a b w : list K), length a = length b ->
  ksum (map2 kmul (map2 (fun x y => kadd x (kscale d y)) a b) w) =
  kadd (ksum (map2 kmul a w)) (kscale d (ksum (map2 kmul b w))).
Proof.
  induction a as [|x a IH]; intros [|y b] [|z w] H; cbn [map2 length] in *; try discriminate;
    try (change (ksum []) with k0; rewrite kscale_0; symmetry; apply kadd_0_l).
  rewrite !ksum_cons. rewrite IH by lia. rewrite kmul_add_l, kmul_scale_l, kscale_add.
  generalize (ksum (map2 kmul a w)) (ksum (map2 kmul b w)) (kmul x z) (kmul y z). intros A B C D.
  apply k_eq; cbn; ring.
Qed.

Lemma map2_length {A B D} (f : A -> B -> D) a b : length b = length a -> length (map2 f a b) = length a.
Proof. revert b; induction a as [|x a IH]; intros [|y b] H; cbn in *; try discriminate; auto. Qed.

Lemma dot_lin (d : Qc) a b w : length a = length b ->
  dot (map2 (fun x y => kadd x (kscale d y)) a b) w = kadd (dot a w) (kscale d (dot b w)).
Proof.
  intros H. unfold dot. rewrite map2_length by (symmetry; exact H). rewrite <- H. apply dot_lin_aux; exact H.
Qed.

(* ------------------------------------------------------------------ reports of one perturbed state *)
Record outinfo := { o_ref : sref; o_f0 : val; o_w : val; o_dx : list (option val) }.

Definition mk_report (imag : bool) (x0 : K) (c : fdcfg) (iin k : nat) (o : outinfo) (g : K) : report :=
  let an := an_entry (nth iin (o_dx o) None) k in
  {| r_x0 := x0; r_dx := c_dx c; r_an := if imag then kim an else kre an; r_fd := if imag then kim g else kre g |}.

(* characterisation: one tuple per output of interest, in order; the analytical value is the stored entry of the
   backpropagated sensitivity, the numerical value the seed-weighted difference quotient *)
Lemma collect_spec imag x0 c sf iin k s : forall (os : list outinfo) (fps : list val),
  Forall2 (fun o fp => get_state (o_ref o) s = Some fp) os fps ->
  collect imag x0 c sf iin k (map o_ref os) (map (fun o => Some (o_f0 o)) os) (map (fun o => Some (o_w o)) os)
          (map o_dx os) s
  = map (fun ofp =>
           let d := map2 ksub (v_dat (snd ofp)) (v_dat (o_f0 (fst ofp))) in
           let dfv := if imag then map (fun a => kdivi a (c_dx c * sf)) d else map (fun a => kdivr a (c_dx c * sf)) d in
           mk_report imag x0 c iin k (fst ofp) (dot dfv (v_dat (o_w (fst ofp)))))
        (combine os fps).
Proof.
  induction os as [|o os IH]; intros fps H; inversion H as [|? fp ? fps' Hg Hrest]; subst; [reflexivity|].
  cbn [map collect combine]. rewrite Hg. rewrite (IH fps' Hrest). reflexivity.
Qed.

(* response affine along the perturbed entry: out(x + d e_k) = out(x) + d J  (J: column k of the Jacobian) *)
Definition affine_re (d : Qc) (s : store) (o : outinfo) (J : list K) : Prop :=
  exists fp, get_state (o_ref o) s = Some fp /\ length J = length (v_dat (o_f0 o)) /\
             v_dat fp = map2 (fun f j => kadd f (kscale d j)) (v_dat (o_f0 o)) J.
(* holomorphic: out(x + i d e_k) = out(x) + i d J *)
Definition affine_im (d : Qc) (s : store) (o : outinfo) (J : list K) : Prop :=
  exists fp, get_state (o_ref o) s = Some fp /\ length J = length (v_dat (o_f0 o)) /\
             v_dat fp = map2 (fun f j => kadd f (kscalei d j)) (v_dat (o_f0 o)) J.
(* degree 2: out(x + d e_k) = out(x) + d J + d^2 H *)
Definition quadratic_re (d : Qc) (s : store) (o : outinfo) (J H : list K) : Prop :=
  exists fp, get_state (o_ref o) s = Some fp /\ length J = length (v_dat (o_f0 o)) /\ length H = length (v_dat (o_f0 o)) /\
             v_dat fp = map2 (fun f jh => kadd f (kadd (kscale d (fst jh)) (kscale (d * d) (snd jh))))
                             (v_dat (o_f0 o)) (combine J H).

Theorem collect_linear_exact x0 c sf iin k s : forall (os : list outinfo) (Js : list (list K)),
  c_dx c * sf <> 0 ->
  Forall2 (affine_re (c_dx c * sf) s) os Js ->
  collect false x0 c sf iin k (map o_ref os) (map (fun o => Some (o_f0 o)) os) (map (fun o => Some (o_w o)) os)
          (map o_dx os) s
  = map (fun oj => mk_report false x0 c iin k (fst oj) (dot (snd oj) (v_dat (o_w (fst oj))))) (combine os Js).
Proof.
  intros os Js Hd. revert Js. induction os as [|o os IH]; intros Js H; inversion H as [|? J ? Js' Ha Hrest]; subst; [reflexivity|].
  destruct Ha as (fp & Hg & Hl & Hv).
  cbn [map collect combine]. rewrite Hg. rewrite (IH Js' Hrest). f_equal.
  unfold mk_report. cbn [fst snd]. rewrite Hv, (diff_affine _ _ _ Hl), (map_div_scale _ _ Hd). reflexivity.
Qed.

Theorem collect_linear_exact_imag x0 c sf iin k s : forall (os : list outinfo) (Js : list (list K)),
  c_dx c * sf <> 0 ->
  Forall2 (affine_im (c_dx c * sf) s) os Js ->
  collect true x0 c sf iin k (map o_ref os) (map (fun o => Some (o_f0 o)) os) (map (fun o => Some (o_w o)) os)
          (map o_dx os) s
  = map (fun oj => mk_report true x0 c iin k (fst oj) (dot (snd oj) (v_dat (o_w (fst oj))))) (combine os Js).
Proof.
  intros os Js Hd. revert Js. induction os as [|o os IH]; intros Js H; inversion H as [|? J ? Js' Ha Hrest]; subst; [reflexivity|].
  destruct Ha as (fp & Hg & Hl & Hv).
  cbn [map collect combine]. rewrite Hg. rewrite (IH Js' Hrest). f_equal.
  unfold mk_report. cbn [fst snd]. rewrite Hv, (diff_affine_i _ _ _ Hl), (map_divi_scalei _ _ Hd). reflexivity.
Qed.

Lemma map_div_quad d J Hs : d <> 0 -> length J = length Hs ->
  map (fun a => kdivr a d) (map (fun jh => kadd (kscale d (fst jh)) (kscale (d * d) (snd jh))) (combine J Hs))
  = map2 (fun j h => kadd j (kscale d h)) J Hs.
Proof.
  intros Hd. revert Hs; induction J as [|j J IH]; intros [|h Hs] Hl; cbn in *; try discriminate; auto.
  rewrite div_quad by exact Hd. f_equal. apply IH. lia.
Qed.

(* degree-2 responses: the numerical value is the exact derivative plus dx*sf times the second-order term *)
Theorem collect_quadratic_error x0 c sf iin k s : forall (os : list outinfo) (JHs : list (list K * list K)),
  c_dx c * sf <> 0 ->
  Forall2 (fun o jh => quadratic_re (c_dx c * sf) s o (fst jh) (snd jh)) os JHs ->
  collect false x0 c sf iin k (map o_ref os) (map (fun o => Some (o_f0 o)) os) (map (fun o => Some (o_w o)) os)
          (map o_dx os) s
  = map (fun oj =>
           let w := v_dat (o_w (fst oj)) in
           mk_report false x0 c iin k (fst oj)
                     (kadd (dot (fst (snd oj)) w) (kscale (c_dx c * sf) (dot (snd (snd oj)) w))))
        (combine os JHs).
Proof.
  intros os JHs Hd. revert JHs. induction os as [|o os IH]; intros JHs H;
    inversion H as [|? [J Hq] ? JHs' Ha Hrest]; subst; [reflexivity|].
  destruct Ha as (fp & Hg & Hl1 & Hl2 & Hv). cbn [fst snd] in *.
  cbn [map collect combine]. rewrite Hg. rewrite (IH JHs' Hrest). f_equal.
  unfold mk_report. cbn [fst snd]. rewrite Hv, (diff_quad _ _ _ _ Hl1 Hl2), (map_div_quad _ _ _ Hd) by congruence.
  rewrite dot_lin by congruence. reflexivity.
Qed.

(* a tuple matches exactly when the claimed sensitivity entry equals the true one *)
Corollary report_match_iff imag x0 c iin k o (truth : K) :
  let r := mk_report imag x0 c iin k o truth in
  r_an r = r_fd r <->
  (if imag then kim (an_entry (nth iin (o_dx o) None) k) = kim truth
   else kre (an_entry (nth iin (o_dx o) None) k) = kre truth).
Proof. destruct imag; cbn; tauto. Qed.
