From Coq Require Import ZArith QArith Qcanon List Bool Lia.
From Pymoto Require Import Model.FD.
Import ListNotations.
