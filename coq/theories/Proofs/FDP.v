(* C19 — lemmas about Model/FD.v *)
From Coq Require Import ZArith QArith Qcanon List Bool Lia Arith.
From Pymoto Require Import Model.FD.
Import ListNotations.
Local Open Scope Qc_scope.

(* ------------------------------------------------------------------ complex rationals *)
Lemma k_eq (a b : K) : fst a = fst b -> snd a = snd b -> a = b.
Proof. destruct a, b; cbn; intros; subst; reflexivity. Qed.

Definition kscalei (d : Qc) (j : K) : K := (- (d * snd j), d * fst j).       (* (i d) * j *)

Lemma diff_affine_pt f d j : ksub (kadd f (kscale d j)) f = kscale d j.
Proof. apply k_eq; cbn; ring. Qed.
Lemma diff_affine_pt_i f d j : ksub (kadd f (kscalei d j)) f = kscalei d j.
Proof. apply k_eq; cbn; ring. Qed.
Lemma div_scale d j : d <> 0 -> kdivr (kscale d j) d = j.
Proof. intros H. apply k_eq; cbn; field; exact H. Qed.
Lemma divi_scalei d j : d <> 0 -> kdivi (kscalei d j) d = j.
Proof. intros H. apply k_eq; cbn; field; exact H. Qed.
Lemma div_quad d j h : d <> 0 -> kdivr (kadd (kscale d j) (kscale (d * d) h)) d = kadd j (kscale d h).
Proof. intros H. apply k_eq; cbn; field; exact H. Qed.

Lemma kadd_0_l a : kadd k0 a = a. Proof. apply k_eq; cbn; ring. Qed.
Lemma kadd_0_r a : kadd a k0 = a. Proof. apply k_eq; cbn; ring. Qed.
Lemma kadd_assoc a b c : kadd a (kadd b c) = kadd (kadd a b) c. Proof. apply k_eq; cbn; ring. Qed.
Lemma kadd_comm a b : kadd a b = kadd b a. Proof. apply k_eq; cbn; ring. Qed.
Lemma kmul_add_l a b w : kmul (kadd a b) w = kadd (kmul a w) (kmul b w). Proof. apply k_eq; cbn; ring. Qed.
Lemma kmul_scale_l d a w : kmul (kscale d a) w = kscale d (kmul a w). Proof. apply k_eq; cbn; ring. Qed.
Lemma kscale_add d a b : kscale d (kadd a b) = kadd (kscale d a) (kscale d b). Proof. apply k_eq; cbn; ring. Qed.
Lemma kscale_0 d : kscale d k0 = k0. Proof. apply k_eq; cbn; ring. Qed.
Lemma kre_add a b : kre (kadd a b) = kre a + kre b. Proof. reflexivity. Qed.
Lemma kim_add a b : kim (kadd a b) = kim a + kim b. Proof. reflexivity. Qed.
Lemma kre_scale d a : kre (kscale d a) = d * kre a. Proof. reflexivity. Qed.
Lemma kim_scale d a : kim (kscale d a) = d * kim a. Proof. reflexivity. Qed.

(* ------------------------------------------------------------------ lists *)
Lemma upd_length {A} (l : list A) i x : length (upd l i x) = length l.
Proof. revert i; induction l as [|h t IH]; intros [|i]; cbn; auto. Qed.
Lemma nth_upd_eq {A} (l : list A) i x d : (i < length l)%nat -> nth i (upd l i x) d = x.
Proof. revert i; induction l as [|h t IH]; intros [|i] Hi; cbn in *; try lia; auto. apply IH; lia. Qed.
Lemma nth_upd_neq {A} (l : list A) i j x d : i <> j -> nth j (upd l i x) d = nth j l d.
Proof.
  revert i j; induction l as [|h t IH]; intros [|i] [|j] Hij; cbn; auto; try congruence.
  all: try (apply IH; congruence).
Qed.
Lemma upd_same {A} (l : list A) i d : upd l i (nth i l d) = l.
Proof. revert i; induction l as [|h t IH]; intros [|i]; cbn; auto. f_equal. apply IH. Qed.
Lemma upd_oob {A} (l : list A) i x : (length l <= i)%nat -> upd l i x = l.
Proof. revert i; induction l as [|h t IH]; intros [|i] Hi; cbn in *; auto; try lia. f_equal. apply IH; lia. Qed.

Lemma map2_map_l {A A' B D} (g : A' -> A) (f : A -> B -> D) a b : map2 f (map g a) b = map2 (fun x y => f (g x) y) a b.
Proof. revert b; induction a as [|x a IH]; intros [|y b]; cbn; auto. f_equal. apply IH. Qed.

Lemma diff_affine (d : Qc) f0 J : length J = length f0 ->
  map2 ksub (map2 (fun f j => kadd f (kscale d j)) f0 J) f0 = map (kscale d) J.
Proof.
  revert J; induction f0 as [|f f0 IH]; intros [|j J] H; cbn in *; try discriminate; auto.
  rewrite diff_affine_pt. f_equal. apply IH. lia.
Qed.
Lemma diff_affine_i (d : Qc) f0 J : length J = length f0 ->
  map2 ksub (map2 (fun f j => kadd f (kscalei d j)) f0 J) f0 = map (kscalei d) J.
Proof.
  revert J; induction f0 as [|f f0 IH]; intros [|j J] H; cbn in *; try discriminate; auto.
  rewrite diff_affine_pt_i. f_equal. apply IH. lia.
Qed.
Lemma diff_quad (d : Qc) f0 J Hs : length J = length f0 -> length Hs = length f0 ->
  map2 ksub (map2 (fun f jh => kadd f (kadd (kscale d (fst jh)) (kscale (d * d) (snd jh)))) f0 (combine J Hs)) f0
  = map (fun jh => kadd (kscale d (fst jh)) (kscale (d * d) (snd jh))) (combine J Hs).
Proof.
  revert J Hs; induction f0 as [|f f0 IH]; intros [|j J] [|h Hs] H1 H2; cbn in *; try discriminate; auto.
  f_equal; [apply k_eq; cbn; ring|]. apply IH; lia.
Qed.

Lemma map_div_scale d J : d <> 0 -> map (fun a => kdivr a d) (map (kscale d) J) = J.
Proof. intros H. rewrite map_map. rewrite <- (map_id J) at 2. apply map_ext. intros a. apply div_scale; exact H. Qed.
Lemma map_divi_scalei d J : d <> 0 -> map (fun a => kdivi a d) (map (kscalei d) J) = J.
Proof. intros H. rewrite map_map. rewrite <- (map_id J) at 2. apply map_ext. intros a. apply divi_scalei; exact H. Qed.

Lemma ksum_cons x l : ksum (x :: l) = kadd x (ksum l).
Proof. reflexivity. Qed.

(* dot is linear in its first argument (the second one is broadcast according to the length of the first) *)
Lemma ksum_app a b : ksum (a ++ b) = kadd (ksum a) (ksum b).
Proof. unfold ksum. induction a as [|x a IH]; cbn; [symmetry; apply kadd_0_l|]. rewrite IH. apply kadd_assoc. Qed.

Lemma dot_lin_aux (d : Qc) : forall (a b w : list K), length a = length b ->
  ksum (map2 kmul (map2 (fun x y => kadd x (kscale d y)) a b) w) =
  kadd (ksum (map2 kmul a w)) (kscale d (ksum (map2 kmul b w))).
Proof.
  induction a as [|x a IH]; intros [|y b] [|z w] H; cbn [map2 length] in *; try discriminate;
    try (change (ksum []) with k0; rewrite kscale_0; symmetry; apply kadd_0_l).
  rewrite !ksum_cons. rewrite IH by lia. rewrite kmul_add_l, kmul_scale_l, kscale_add.
  generalize (ksum (map2 kmul a w)) (ksum (map2 kmul b w)) (kmul x z) (kmul y z). intros A B C D.
  apply k_eq; cbn; ring.
Qed.

Lemma map2_length {A B D} (f : A -> B -> D) a b : length b = length a -> length (map2 f a b) = length a.
Proof. revert b; induction a as [|x a IH]; intros [|y b] H; cbn in *; try discriminate; auto. Qed.

Lemma dot_lin (d : Qc) a b w : length a = length b ->
  dot (map2 (fun x y => kadd x (kscale d y)) a b) w = kadd (dot a w) (kscale d (dot b w)).
Proof.
  intros H. unfold dot. rewrite map2_length by (symmetry; exact H). rewrite <- H. apply dot_lin_aux; exact H.
Qed.

(* ------------------------------------------------------------------ reports of one perturbed state *)
Record outinfo := { o_ref : sref; o_f0 : val; o_w : val; o_dx : list (option val) }.

Definition mk_report (imag : bool) (x0 : K) (c : fdcfg) (iin k : nat) (o : outinfo) (g : K) : report :=
  let an := an_entry (nth iin (o_dx o) None) k in
  {| r_x0 := x0; r_dx := c_dx c; r_an := if imag then kim an else kre an; r_fd := if imag then kim g else kre g |}.

(* characterisation: one tuple per output of interest, in order; the analytical value is the stored entry of the
   backpropagated sensitivity, the numerical value the seed-weighted difference quotient *)
Lemma collect_spec imag x0 c sf iin k s : forall (os : list outinfo) (fps : list val),
  Forall2 (fun o fp => get_state (o_ref o) s = Some fp) os fps ->
  collect imag x0 c sf iin k (map o_ref os) (map (fun o => Some (o_f0 o)) os) (map (fun o => Some (o_w o)) os)
          (map o_dx os) s
  = map (fun ofp =>
           let d := map2 ksub (v_dat (snd ofp)) (v_dat (o_f0 (fst ofp))) in
           let dfv := if imag then map (fun a => kdivi a (c_dx c * sf)) d else map (fun a => kdivr a (c_dx c * sf)) d in
           mk_report imag x0 c iin k (fst ofp) (dot dfv (v_dat (o_w (fst ofp)))))
        (combine os fps).
Proof.
  induction os as [|o os IH]; intros fps H; inversion H as [|? fp ? fps' Hg Hrest]; subst; [reflexivity|].
  cbn [map collect combine]. rewrite Hg. rewrite (IH fps' Hrest). reflexivity.
Qed.

(* response affine along the perturbed entry: out(x + d e_k) = out(x) + d J  (J: column k of the Jacobian) *)
Definition affine_re (d : Qc) (s : store) (o : outinfo) (J : list K) : Prop :=
  exists fp, get_state (o_ref o) s = Some fp /\ length J = length (v_dat (o_f0 o)) /\
             v_dat fp = map2 (fun f j => kadd f (kscale d j)) (v_dat (o_f0 o)) J.
(* holomorphic: out(x + i d e_k) = out(x) + i d J *)
Definition affine_im (d : Qc) (s : store) (o : outinfo) (J : list K) : Prop :=
  exists fp, get_state (o_ref o) s = Some fp /\ length J = length (v_dat (o_f0 o)) /\
             v_dat fp = map2 (fun f j => kadd f (kscalei d j)) (v_dat (o_f0 o)) J.
(* degree 2: out(x + d e_k) = out(x) + d J + d^2 H *)
Definition quadratic_re (d : Qc) (s : store) (o : outinfo) (J H : list K) : Prop :=
  exists fp, get_state (o_ref o) s = Some fp /\ length J = length (v_dat (o_f0 o)) /\ length H = length (v_dat (o_f0 o)) /\
             v_dat fp = map2 (fun f jh => kadd f (kadd (kscale d (fst jh)) (kscale (d * d) (snd jh))))
                             (v_dat (o_f0 o)) (combine J H).

Theorem collect_linear_exact x0 c sf iin k s : forall (os : list outinfo) (Js : list (list K)),
  c_dx c * sf <> 0 ->
  Forall2 (affine_re (c_dx c * sf) s) os Js ->
  collect false x0 c sf iin k (map o_ref os) (map (fun o => Some (o_f0 o)) os) (map (fun o => Some (o_w o)) os)
          (map o_dx os) s
  = map (fun oj => mk_report false x0 c iin k (fst oj) (dot (snd oj) (v_dat (o_w (fst oj))))) (combine os Js).
Proof.
  intros os Js Hd. revert Js. induction os as [|o os IH]; intros Js H; inversion H as [|? J ? Js' Ha Hrest]; subst; [reflexivity|].
  destruct Ha as (fp & Hg & Hl & Hv).
  cbn [map collect combine]. rewrite Hg. rewrite (IH Js' Hrest). f_equal.
  unfold mk_report. cbn [fst snd]. rewrite Hv, (diff_affine _ _ _ Hl), (map_div_scale _ _ Hd). reflexivity.
Qed.

Theorem collect_linear_exact_imag x0 c sf iin k s : forall (os : list outinfo) (Js : list (list K)),
  c_dx c * sf <> 0 ->
  Forall2 (affine_im (c_dx c * sf) s) os Js ->
  collect true x0 c sf iin k (map o_ref os) (map (fun o => Some (o_f0 o)) os) (map (fun o => Some (o_w o)) os)
          (map o_dx os) s
  = map (fun oj => mk_report true x0 c iin k (fst oj) (dot (snd oj) (v_dat (o_w (fst oj))))) (combine os Js).
Proof.
  intros os Js Hd. revert Js. induction os as [|o os IH]; intros Js H; inversion H as [|? J ? Js' Ha Hrest]; subst; [reflexivity|].
  destruct Ha as (fp & Hg & Hl & Hv).
  cbn [map collect combine]. rewrite Hg. rewrite (IH Js' Hrest). f_equal.
  unfold mk_report. cbn [fst snd]. rewrite Hv, (diff_affine_i _ _ _ Hl), (map_divi_scalei _ _ Hd). reflexivity.
Qed.

Lemma map_div_quad d J Hs : d <> 0 -> length J = length Hs ->
  map (fun a => kdivr a d) (map (fun jh => kadd (kscale d (fst jh)) (kscale (d * d) (snd jh))) (combine J Hs))
  = map2 (fun j h => kadd j (kscale d h)) J Hs.
Proof.
  intros Hd. revert Hs; induction J as [|j J IH]; intros [|h Hs] Hl; cbn in *; try discriminate; auto.
  rewrite div_quad by exact Hd. f_equal. apply IH. lia.
Qed.

(* degree-2 responses: the numerical value is the exact derivative plus dx*sf times the second-order term *)
Theorem collect_quadratic_error x0 c sf iin k s : forall (os : list outinfo) (JHs : list (list K * list K)),
  c_dx c * sf <> 0 ->
  Forall2 (fun o jh => quadratic_re (c_dx c * sf) s o (fst jh) (snd jh)) os JHs ->
  collect false x0 c sf iin k (map o_ref os) (map (fun o => Some (o_f0 o)) os) (map (fun o => Some (o_w o)) os)
          (map o_dx os) s
  = map (fun oj =>
           let w := v_dat (o_w (fst oj)) in
           mk_report false x0 c iin k (fst oj)
                     (kadd (dot (fst (snd oj)) w) (kscale (c_dx c * sf) (dot (snd (snd oj)) w))))
        (combine os JHs).
Proof.
  intros os JHs Hd. revert JHs. induction os as [|o os IH]; intros JHs H;
    inversion H as [|? [J Hq] ? JHs' Ha Hrest]; subst; [reflexivity|].
  destruct Ha as (fp & Hg & Hl1 & Hl2 & Hv). cbn [fst snd] in *.
  cbn [map collect combine]. rewrite Hg. rewrite (IH JHs' Hrest). f_equal.
  unfold mk_report. cbn [fst snd]. rewrite Hv, (diff_quad _ _ _ _ Hl1 Hl2), (map_div_quad _ _ _ Hd) by congruence.
  rewrite dot_lin by congruence. reflexivity.
Qed.

(* a tuple matches exactly when the claimed sensitivity entry equals the true one *)
Corollary report_match_iff imag x0 c iin k o (truth : K) :
  let r := mk_report imag x0 c iin k o truth in
  r_an r = r_fd r <->
  (if imag then kim (an_entry (nth iin (o_dx o) None) k) = kim truth
   else kre (an_entry (nth iin (o_dx o) None) k) = kre truth).
Proof. destruct imag; cbn; tauto. Qed.

(* ------------------------------------------------------------------ stores: frames *)
Lemma getsig_upd_eq (s : store) i g : (i < length s)%nat -> getsig (upd s i g) i = g.
Proof. intros H. unfold getsig. apply nth_upd_eq; exact H. Qed.
Lemma getsig_upd_neq (s : store) i j g : i <> j -> getsig (upd s i g) j = getsig s j.
Proof. intros H. unfold getsig. apply nth_upd_neq; exact H. Qed.

Lemma put_st_length i v s : length (put_st i v s) = length s.
Proof. apply upd_length. Qed.
Lemma put_st_se i v s j : se (getsig (put_st i v s) j) = se (getsig s j).
Proof.
  unfold put_st. destruct (Nat.eq_dec i j) as [<-|Hne]; [|rewrite getsig_upd_neq by exact Hne; reflexivity].
  destruct (Nat.lt_ge_cases i (length s)) as [Hlt|Hge]; [rewrite getsig_upd_eq by exact Hlt; reflexivity|].
  rewrite upd_oob by exact Hge. reflexivity.
Qed.
Lemma put_st_keep i v s j : keep (getsig (put_st i v s) j) = keep (getsig s j).
Proof.
  unfold put_st. destruct (Nat.eq_dec i j) as [<-|Hne]; [|rewrite getsig_upd_neq by exact Hne; reflexivity].
  destruct (Nat.lt_ge_cases i (length s)) as [Hlt|Hge]; [rewrite getsig_upd_eq by exact Hlt; reflexivity|].
  rewrite upd_oob by exact Hge. reflexivity.
Qed.
Lemma put_st_other i v s j : i <> j -> st (getsig (put_st i v s) j) = st (getsig s j).
Proof. intros H. unfold put_st. rewrite getsig_upd_neq by exact H. reflexivity. Qed.
Lemma put_st_same i v s : (i < length s)%nat -> st (getsig (put_st i v s) i) = v.
Proof. intros H. unfold put_st. rewrite getsig_upd_eq by exact H. reflexivity. Qed.

(* set_state writes only the state of its root *)
Lemma set_state_length r x s : length (set_state r x s) = length s.
Proof.
  unfold set_state. destruct (s_slice r) as [[ix shp]|]; [|apply put_st_length].
  destruct (st (getsig s (s_root r))); [apply put_st_length|reflexivity].
Qed.
Lemma set_state_se r x s j : se (getsig (set_state r x s) j) = se (getsig s j).
Proof.
  unfold set_state. destruct (s_slice r) as [[ix shp]|]; [|apply put_st_se].
  destruct (st (getsig s (s_root r))); [apply put_st_se|reflexivity].
Qed.
Lemma set_state_keep r x s j : keep (getsig (set_state r x s) j) = keep (getsig s j).
Proof.
  unfold set_state. destruct (s_slice r) as [[ix shp]|]; [|apply put_st_keep].
  destruct (st (getsig s (s_root r))); [apply put_st_keep|reflexivity].
Qed.
Lemma set_state_other r x s j : s_root r <> j -> st (getsig (set_state r x s) j) = st (getsig s j).
Proof.
  intros H. unfold set_state. destruct (s_slice r) as [[ix shp]|]; [|apply put_st_other; exact H].
  destruct (st (getsig s (s_root r))); [apply put_st_other; exact H|reflexivity].
Qed.

(* a predicate on stores that every step of the perturbation phase preserves *)
Definition sens_same (s s' : store) : Prop :=
  length s' = length s /\ forall j, se (getsig s' j) = se (getsig s j) /\ keep (getsig s' j) = keep (getsig s j).
Lemma sens_same_refl s : sens_same s s. Proof. split; auto. Qed.
Lemma sens_same_trans a b c : sens_same a b -> sens_same b c -> sens_same a c.
Proof.
  intros [L1 F1] [L2 F2]. split; [congruence|]. intros j. destruct (F1 j), (F2 j). split; congruence.
Qed.
Lemma set_state_sens_same r x s : sens_same s (set_state r x s).
Proof. split; [apply set_state_length|]. intros j. split; [apply set_state_se|apply set_state_keep]. Qed.
Lemma put_st_sens_same i v s : sens_same s (put_st i v s).
Proof. split; [apply put_st_length|]. intros j. split; [apply put_st_se|apply put_st_keep]. Qed.

Lemma set_states_sens_same rs : forall vs s, sens_same s (set_states rs vs s).
Proof.
  induction rs as [|r rs IH]; intros [|[v|] vs] s; cbn; try apply sens_same_refl.
  - eapply sens_same_trans; [apply set_state_sens_same|apply IH].
  - eapply sens_same_trans; [|apply IH]. destruct (s_slice r); [apply sens_same_refl|apply put_st_sens_same].
Qed.
Lemma m_response_sens_same m s : sens_same s (m_response m s).
Proof. apply set_states_sens_same. Qed.
Lemma n_response_sens_same n : forall s, sens_same s (n_response n s).
Proof.
  unfold n_response. induction n as [|m n IH]; intros s; cbn; [apply sens_same_refl|].
  eapply sens_same_trans; [apply m_response_sens_same|apply IH].
Qed.

(* the whole perturbation phase leaves every sensitivity (and allocation flag) untouched *)
Lemma perturb_entries_sens_same c blk si iin outps f0 df dxan x : forall ks s,
  sens_same s (fst (perturb_entries c blk si iin outps f0 df dxan x ks s)).
Proof.
  induction ks as [|k ks IH]; intros s; cbn [perturb_entries]; [apply sens_same_refl|].
  destruct (kzero (nth k (v_dat x) k0) && c_keepzero c && is_arr x); [apply IH|].
  set (sf := if c_rel c && negb (Qc_eqb (kabs (nth k (v_dat x) k0)) 0) then kabs (nth k (v_dat x) k0) else 1).
  set (s1 := set_state si _ s). set (s2 := n_response blk s1). set (s3 := set_state si _ s2).
  assert (H3 : sens_same s s3).
  { eapply sens_same_trans; [apply set_state_sens_same|]. eapply sens_same_trans; [apply n_response_sens_same|].
    apply set_state_sens_same. }
  destruct (v_cx x).
  - set (s4 := set_state si _ s3). set (s5 := n_response blk s4). set (s6 := set_state si _ s5).
    assert (H6 : sens_same s s6).
    { eapply sens_same_trans; [exact H3|]. eapply sens_same_trans; [apply set_state_sens_same|].
      eapply sens_same_trans; [apply n_response_sens_same|]. apply set_state_sens_same. }
    specialize (IH s6). destruct (perturb_entries c blk si iin outps f0 df dxan x ks s6) as [s7 rest]. cbn [fst] in *.
    eapply sens_same_trans; eauto.
  - specialize (IH s3). destruct (perturb_entries c blk si iin outps f0 df dxan x ks s3) as [s7 rest]. cbn [fst] in *.
    eapply sens_same_trans; eauto.
Qed.

Lemma perturb_inputs_sens_same c blk outps f0 df dxan : forall inps iin s,
  sens_same s (fst (perturb_inputs c blk inps iin outps f0 df dxan s)).
Proof.
  induction inps as [|si inps IH]; intros iin s; cbn [perturb_inputs]; [apply sens_same_refl|].
  destruct (get_state si s) as [x|]; [|apply IH].
  pose proof (perturb_entries_sens_same c blk si iin outps f0 df dxan x
                (if is_arr x then nth iin (c_order c) [] else [0%nat]) s) as H1.
  destruct (perturb_entries c blk si iin outps f0 df dxan x _ s) as [s1 rep]. cbn [fst] in H1.
  specialize (IH (S iin) s1). destruct (perturb_inputs c blk inps (S iin) outps f0 df dxan s1) as [s2 rest].
  cbn [fst] in *. eapply sens_same_trans; eauto.
Qed.

(* ------------------------------------------------------------------ restoration of the input states *)
Lemma upd_upd_same {A} (l : list A) i u v : upd (upd l i u) i v = upd l i v.
Proof. revert i; induction l as [|h t IH]; intros [|i]; cbn; auto. f_equal. apply IH. Qed.
Lemma upd_upd_comm {A} (l : list A) i j u v : i <> j -> upd (upd l i u) j v = upd (upd l j v) i u.
Proof.
  revert i j; induction l as [|h t IH]; intros [|i] [|j] H; cbn; auto; try congruence. f_equal. apply IH. congruence.
Qed.
Lemma upd_scatter_comm ix : forall d us i v, ~ In i ix -> upd (scatter d ix us) i v = scatter (upd d i v) ix us.
Proof.
  induction ix as [|j ix IH]; intros d [|u us] i v H; cbn; auto.
  rewrite IH by (intro; apply H; right; assumption).
  rewrite upd_upd_comm; [reflexivity|]. intro; apply H; left; congruence.
Qed.
Lemma scatter_scatter ix : forall d us vs, NoDup ix -> length us = length ix -> length vs = length ix ->
  scatter (scatter d ix us) ix vs = scatter d ix vs.
Proof.
  induction ix as [|i ix IH]; intros d [|u us] [|v vs] Hnd Hu Hv; cbn in *; try discriminate; auto.
  inversion Hnd as [|? ? Hni Hnd']; subst.
  rewrite upd_scatter_comm by exact Hni. rewrite upd_upd_same. apply IH; auto.
Qed.
Lemma scatter_gather d : forall ix, scatter d ix (gather d ix) = d.
Proof.
  induction ix as [|i ix IH]; cbn; auto. rewrite upd_same. exact IH.
Qed.
Lemma bcast_len n d : length d = n -> bcast n d = d.
Proof.
  intros H. destruct d as [|x [|y d]]; cbn; auto. cbn in H. subst. reflexivity.
Qed.
Lemma gather_length d ix : length (gather d ix) = length ix.
Proof. apply map_length. Qed.

Lemma with_entry_same x k : with_entry x k (nth k (v_dat x) k0) = x.
Proof. unfold with_entry. rewrite upd_same. destruct x; reflexivity. Qed.

(* the value FD reads for an input reference whose root holds b *)
Definition xval (si : sref) (b : val) : val :=
  match s_slice si with None => b | Some (ix, shp) => slice_of b ix shp end.
Definition ref_wf (si : sref) : Prop :=
  match s_slice si with None => True | Some (ix, _) => NoDup ix end.
(* the sub-network does not write the state of root j *)
Definition resp_pres (blk : net) (j : nat) : Prop := forall s, st (getsig (n_response blk s) j) = st (getsig s j).

Lemma n_response_length n s : length (n_response n s) = length s.
Proof. apply n_response_sens_same. Qed.

(* perturb one entry (by anything), evaluate, write the original entry back: the root holds exactly b again *)
Lemma entry_roundtrip blk si s b k a :
  ref_wf si -> (s_root si < length s)%nat -> st (getsig s (s_root si)) = Some b -> resp_pres blk (s_root si) ->
  let x := xval si b in
  let s2 := n_response blk (set_state si (with_entry x k a) s) in
  let s3 := set_state si (with_entry x k (nth k (v_dat x) k0)) s2 in
  st (getsig s3 (s_root si)) = Some b /\ length s3 = length s /\
  (forall j, j <> s_root si -> st (getsig s3 j) = st (getsig s2 j)).
Proof.
  intros Hwf Hlt Hst Hpres x s2 s3.
  assert (Hlen2 : length s2 = length s) by (unfold s2; rewrite n_response_length, set_state_length; reflexivity).
  split; [|split; [unfold s3; rewrite set_state_length; exact Hlen2|intros j Hj; apply set_state_other; congruence]].
  unfold s3. rewrite with_entry_same.
  unfold xval, ref_wf in *. unfold set_state at 1. destruct (s_slice si) as [[ix shp]|] eqn:Esl.
  - (* through a slice *)
    assert (Hst2 : st (getsig s2 (s_root si)) = Some (assign_into b ix (with_entry (slice_of b ix shp) k a))).
    { unfold s2. rewrite Hpres. unfold set_state. rewrite Esl, Hst. apply put_st_same; exact Hlt. }
    rewrite Hst2. rewrite put_st_same by lia. f_equal.
    unfold assign_into, with_entry, slice_of; cbn [v_dat v_kind v_cx].
    rewrite (bcast_len (length ix) (upd (gather (v_dat b) ix) k a)) by (rewrite upd_length; apply gather_length).
    change (v_dat x) with (gather (v_dat b) ix).
    rewrite (bcast_len (length ix) (gather (v_dat b) ix)) by apply gather_length.
    rewrite scatter_scatter; [|exact Hwf|rewrite upd_length; apply gather_length|apply gather_length].
    rewrite scatter_gather. destruct b; reflexivity.
  - rewrite put_st_same by lia. reflexivity.
Qed.

Theorem perturb_entries_restores c blk si iin outps f0 df dxan b : forall ks s,
  ref_wf si -> (s_root si < length s)%nat -> st (getsig s (s_root si)) = Some b -> resp_pres blk (s_root si) ->
  let s' := fst (perturb_entries c blk si iin outps f0 df dxan (xval si b) ks s) in
  st (getsig s' (s_root si)) = Some b /\ length s' = length s.
Proof.
  induction ks as [|k ks IH]; intros s Hwf Hlt Hst Hpres; cbn [perturb_entries]; [cbn; auto|].
  set (x := xval si b) in *.
  destruct (kzero (nth k (v_dat x) k0) && c_keepzero c && is_arr x); [apply IH; assumption|].
  set (sf := if c_rel c && negb (Qc_eqb (kabs (nth k (v_dat x) k0)) 0) then kabs (nth k (v_dat x) k0) else 1).
  destruct (entry_roundtrip blk si s b k (kaddr (nth k (v_dat x) k0) (c_dx c * sf)) Hwf Hlt Hst Hpres) as (A1 & A2 & _).
  fold x in A1, A2.
  set (s3 := set_state si (with_entry x k (nth k (v_dat x) k0))
                       (n_response blk (set_state si (with_entry x k (kaddr (nth k (v_dat x) k0) (c_dx c * sf))) s))) in *.
  destruct (v_cx x).
  - assert (Hlt3 : (s_root si < length s3)%nat) by lia.
    destruct (entry_roundtrip blk si s3 b k (kaddi (nth k (v_dat x) k0) (c_dx c * sf)) Hwf Hlt3 A1 Hpres) as (B1 & B2 & _).
    fold x in B1, B2.
    set (s6 := set_state si (with_entry x k (nth k (v_dat x) k0))
                         (n_response blk (set_state si (with_entry x k (kaddi (nth k (v_dat x) k0) (c_dx c * sf))) s3))) in *.
    assert (Hlt6 : (s_root si < length s6)%nat) by lia.
    specialize (IH s6 Hwf Hlt6 B1 Hpres). cbn zeta in IH.
    destruct (perturb_entries c blk si iin outps f0 df dxan x ks s6) as [s7 rest]. cbn [fst] in *.
    destruct IH as [I1 I2]. split; [exact I1|lia].
  - assert (Hlt3 : (s_root si < length s3)%nat) by lia.
    specialize (IH s3 Hwf Hlt3 A1 Hpres). cbn zeta in IH.
    destruct (perturb_entries c blk si iin outps f0 df dxan x ks s3) as [s7 rest]. cbn [fst] in *.
    destruct IH as [I1 I2]. split; [exact I1|lia].
Qed.

(* ... and perturbing through one reference does not disturb the state of any OTHER root the sub-network does not write *)
Lemma perturb_entries_other c blk si iin outps f0 df dxan x j : forall ks s,
  s_root si <> j -> resp_pres blk j ->
  st (getsig (fst (perturb_entries c blk si iin outps f0 df dxan x ks s)) j) = st (getsig s j).
Proof.
  induction ks as [|k ks IH]; intros s Hne Hpres; cbn [perturb_entries]; [reflexivity|].
  destruct (kzero (nth k (v_dat x) k0) && c_keepzero c && is_arr x); [apply IH; assumption|].
  set (sf := if c_rel c && negb (Qc_eqb (kabs (nth k (v_dat x) k0)) 0) then kabs (nth k (v_dat x) k0) else 1).
  set (s1 := set_state si _ s). set (s2 := n_response blk s1). set (s3 := set_state si _ s2).
  assert (H3 : st (getsig s3 j) = st (getsig s j)).
  { unfold s3. rewrite set_state_other by exact Hne. unfold s2. rewrite Hpres. unfold s1. apply set_state_other; exact Hne. }
  destruct (v_cx x).
  - set (s4 := set_state si _ s3). set (s5 := n_response blk s4). set (s6 := set_state si _ s5).
    assert (H6 : st (getsig s6 j) = st (getsig s j)).
    { unfold s6. rewrite set_state_other by exact Hne. unfold s5. rewrite Hpres. unfold s4.
      rewrite set_state_other by exact Hne. exact H3. }
    specialize (IH s6 Hne Hpres). destruct (perturb_entries c blk si iin outps f0 df dxan x ks s6) as [s7 rest].
    cbn [fst] in *. congruence.
  - specialize (IH s3 Hne Hpres). destruct (perturb_entries c blk si iin outps f0 df dxan x ks s3) as [s7 rest].
    cbn [fst] in *. congruence.
Qed.

(* after the whole perturbation phase every root the sub-network does not write holds its original state exactly *)
Theorem perturb_inputs_restores c blk outps f0 df dxan j : forall inps iin s,
  Forall ref_wf inps -> Forall (fun si => (s_root si < length s)%nat) inps -> resp_pres blk j ->
  st (getsig (fst (perturb_inputs c blk inps iin outps f0 df dxan s)) j) = st (getsig s j).
Proof.
  induction inps as [|si inps IH]; intros iin s Hwf Hlt Hpres; cbn [perturb_inputs]; [reflexivity|].
  inversion Hwf as [|? ? Hwf1 Hwf']; subst. inversion Hlt as [|? ? Hlt1 Hlt']; subst.
  destruct (get_state si s) as [x|] eqn:Eg; [|apply IH; assumption].
  set (ks := if is_arr x then nth iin (c_order c) [] else [0%nat]).
  assert (Hs1 : st (getsig (fst (perturb_entries c blk si iin outps f0 df dxan x ks s)) j) = st (getsig s j) /\
                length (fst (perturb_entries c blk si iin outps f0 df dxan x ks s)) = length s).
  { split; [|apply perturb_entries_sens_same].
    destruct (Nat.eq_dec (s_root si) j) as [<-|Hne]; [|apply perturb_entries_other; assumption].
    unfold get_state in Eg. destruct (st (getsig s (s_root si))) as [b|] eqn:Eb; [|discriminate].
    assert (Hx : x = xval si b).
    { unfold xval. destruct (s_slice si) as [[ix shp]|]; inversion Eg; reflexivity. }
    subst x. apply (perturb_entries_restores c blk si iin outps f0 df dxan b ks s Hwf1 Hlt1 Eb Hpres). }
  destruct (perturb_entries c blk si iin outps f0 df dxan x ks s) as [s1 rep]. cbn [fst] in Hs1. destruct Hs1 as [Hs1 Hl1].
  specialize (IH (S iin) s1 Hwf'). 
  assert (Hlt1' : Forall (fun si0 => (s_root si0 < length s1)%nat) inps) by (rewrite Hl1; exact Hlt').
  specialize (IH Hlt1' Hpres).
  destruct (perturb_inputs c blk inps (S iin) outps f0 df dxan s1) as [s2 rest]. cbn [fst] in *. congruence.
Qed.

(* ------------------------------------------------------------------ sensitivities are clean after reset *)
Definition clean (o : option val) : Prop :=
  match o with None => True | Some v => Forall (fun a => a = k0) (v_dat v) end.

Lemma put_se_same i v s : (i < length s)%nat -> se (getsig (put_se i v s) i) = v.
Proof. intros H. unfold put_se. rewrite getsig_upd_eq by exact H. reflexivity. Qed.
Lemma put_se_other i v s j : i <> j -> getsig (put_se i v s) j = getsig s j.
Proof. intros H. unfold put_se. apply getsig_upd_neq; exact H. Qed.
Lemma getsig_oob (s : store) i : (length s <= i)%nat -> getsig s i = sig0.
Proof. intros H. unfold getsig. apply nth_overflow; exact H. Qed.

Lemma se_in_range (s : store) i v : se (getsig s i) = Some v -> (i < length s)%nat.
Proof.
  intros H. destruct (Nat.lt_ge_cases i (length s)) as [Hlt|Hge]; [exact Hlt|].
  rewrite getsig_oob in H by exact Hge. discriminate.
Qed.

Lemma zeros_clean v : clean (Some (zeros_like v)).
Proof. cbn. apply Forall_forall. intros a Ha. apply in_map_iff in Ha as (x & Hx & _). auto. Qed.

Lemma scatter_zeros_clean ix : forall d n, Forall (fun a => a = k0) d -> Forall (fun a => a = k0) (scatter d ix (repeat k0 n)).
Proof.
  induction ix as [|i ix IH]; intros d [|n] H; cbn; auto. apply IH.
  clear IH. revert i. induction H as [|x d Hx Hd IHd]; intros [|i]; cbn; constructor; auto.
Qed.

(* reset of a Signal leaves it clean; no reset ever makes a clean sensitivity dirty *)
Lemma reset_sig_clean_root r s : s_slice r = None -> clean (se (getsig (reset_sig r s) (s_root r))).
Proof.
  intros Hs. unfold reset_sig. rewrite Hs. destruct (se (getsig s (s_root r))) as [c|] eqn:E; [|rewrite E; exact I].
  pose proof (se_in_range _ _ _ E) as Hlt.
  destruct (keep (getsig s (s_root r))); rewrite put_se_same by exact Hlt; [apply zeros_clean|exact I].
Qed.

Lemma reset_sig_clean_pres r s j : clean (se (getsig s j)) -> clean (se (getsig (reset_sig r s) j)).
Proof.
  intros Hc. unfold reset_sig.
  destruct (Nat.eq_dec (s_root r) j) as [Heq|Hne].
  2:{ destruct (s_slice r) as [[ix shp]|]; destruct (se (getsig s (s_root r))); try exact Hc;
      try (destruct (keep (getsig s (s_root r)))); rewrite put_se_other by exact Hne; exact Hc. }
  subst j. destruct (se (getsig s (s_root r))) as [c|] eqn:E.
  2:{ destruct (s_slice r) as [[ix shp]|]; rewrite E; exact I. }
  pose proof (se_in_range _ _ _ E) as Hlt.
  destruct (s_slice r) as [[ix shp]|].
  - rewrite put_se_same by exact Hlt. cbn. cbn in Hc. apply scatter_zeros_clean. exact Hc.
  - destruct (keep (getsig s (s_root r))); rewrite put_se_same by exact Hlt; [apply zeros_clean|exact I].
Qed.

Definition resets (L : list sref) (s : store) : store := fold_left (fun s r => reset_sig r s) L s.

Lemma resets_clean_pres L : forall s j, clean (se (getsig s j)) -> clean (se (getsig (resets L s) j)).
Proof.
  unfold resets. induction L as [|r L IH]; intros s j H; cbn; [exact H|]. apply IH. apply reset_sig_clean_pres; exact H.
Qed.

Lemma resets_clean L : forall s r, In r L -> s_slice r = None -> clean (se (getsig (resets L s) (s_root r))).
Proof.
  unfold resets. induction L as [|r0 L IH]; intros s r Hin Hs; [destruct Hin|]. cbn.
  destruct Hin as [->|Hin]; [|apply IH; assumption].
  apply (resets_clean_pres L). apply reset_sig_clean_root; exact Hs.
Qed.

Definition reset_refs (n : net) : list sref := flat_map (fun m => m_out m ++ m_in m) (rev n).

Lemma n_reset_resets n s : n_reset n s = resets (reset_refs n) s.
Proof.
  unfold n_reset, reset_refs, resets. generalize (rev n) as l. intros l. revert s.
  induction l as [|m l IH]; intros s; cbn; [reflexivity|].
  rewrite fold_left_app. rewrite <- IH. unfold m_reset. rewrite fold_left_app. reflexivity.
Qed.

(* every Signal that is (directly) an input or output of a module of the sub-network is clean after blk.reset() *)
Definition direct_sig (n : net) (j : nat) : Prop :=
  exists m r, In m n /\ In r (m_out m ++ m_in m) /\ s_root r = j /\ s_slice r = None.

Lemma n_reset_clean n s j : direct_sig n j -> clean (se (getsig (n_reset n s) j)).
Proof.
  intros (m & r & Hm & Hr & <- & Hs). rewrite n_reset_resets. apply resets_clean; [|exact Hs].
  unfold reset_refs. apply in_flat_map. exists m. split; [|exact Hr]. apply in_rev in Hm. exact Hm.
Qed.

Lemma n_reset_clean_pres n s j : clean (se (getsig s j)) -> clean (se (getsig (n_reset n s) j)).
Proof. intros H. rewrite n_reset_resets. apply resets_clean_pres; exact H. Qed.

(* the analytical pass ends every iteration with blk.reset(); Sout.reset() *)
Lemma analytical_clean c blk inps j : direct_sig blk j -> forall outps iout rand s,
  clean (se (getsig s j)) -> clean (se (getsig (a_store (analytical c blk inps outps iout rand s)) j)).
Proof.
  intros Hd. induction outps as [|so outps IH]; intros iout rand s Hc; cbn [analytical]; [exact Hc|].
  destruct (get_state so s) as [output|]; [|cbn [a_store]; apply IH; exact Hc].
  destruct (make_seed c iout output rand) as [df rand']. cbn [a_store]. apply IH.
  apply reset_sig_clean_pres. apply n_reset_clean; exact Hd.
Qed.

(* ------------------------------------------------------------------ position-wise bookkeeping: which entries of the
   sensitivity of root j can be written by an operation through a reference, and which are zeroed by its reset *)
Definition zat (o : option val) (p : nat) : Prop :=
  match o with None => True | Some v => nth p (v_dat v) k0 = k0 end.

Lemma all_zero_nth (l : list K) : Forall (fun a => a = k0) l <-> forall p, nth p l k0 = k0.
Proof.
  split.
  - intros H. induction H as [|x l Hx Hl IH]; intros [|p]; cbn; auto.
  - induction l as [|x l IH]; intros H; constructor; [exact (H 0%nat)|]. apply IH. intros p. exact (H (S p)).
Qed.
Lemma clean_zat o : clean o <-> forall p, zat o p.
Proof. destruct o as [v|]; cbn; [apply all_zero_nth|]. split; auto. Qed.

(* entry p of the sensitivity of root j is addressed by reference r *)
Definition cov1b (r : sref) (j p : nat) : bool :=
  Nat.eqb (s_root r) j && match s_slice r with None => true | Some (ix, _) => existsb (Nat.eqb p) ix end.
Definition covb (L : list sref) (j p : nat) : bool := existsb (fun r => cov1b r j p) L.

Lemma existsb_eqb_in p ix : existsb (Nat.eqb p) ix = true <-> In p ix.
Proof.
  rewrite existsb_exists. split.
  - intros (x & Hx & He). apply Nat.eqb_eq in He. subst. exact Hx.
  - intros H. exists p. split; [exact H|apply Nat.eqb_refl].
Qed.
Lemma existsb_eqb_notin p ix : existsb (Nat.eqb p) ix = false -> ~ In p ix.
Proof. intros H Hin. apply existsb_eqb_in in Hin. congruence. Qed.

Lemma covb_app a b j p : covb (a ++ b) j p = covb a j p || covb b j p.
Proof. apply existsb_app. Qed.
Lemma covb_false_in L j p : covb L j p = false -> forall r, In r L -> cov1b r j p = false.
Proof.
  intros H r Hr. destruct (cov1b r j p) eqn:E; [|reflexivity].
  assert (Ht : covb L j p = true) by (apply existsb_exists; exists r; auto). congruence.
Qed.
Lemma covb_false_of L j p : (forall r, In r L -> cov1b r j p = false) -> covb L j p = false.
Proof.
  intros H. destruct (covb L j p) eqn:E; [|reflexivity].
  apply existsb_exists in E as (r & Hr & Hc). rewrite (H r Hr) in Hc. discriminate.
Qed.

Lemma nth_scatter_notin ix : forall (d vs : list K) p, ~ In p ix -> nth p (scatter d ix vs) k0 = nth p d k0.
Proof.
  induction ix as [|i ix IH]; intros d [|v vs] p H; cbn; auto.
  rewrite IH by (intro; apply H; right; assumption). apply nth_upd_neq. intro; apply H; left; assumption.
Qed.
Lemma nth_upd_zero (d : list K) i p : nth p d k0 = k0 -> nth p (upd d i k0) k0 = k0.
Proof.
  intros H. destruct (Nat.eq_dec i p) as [->|Hne]; [|rewrite nth_upd_neq by exact Hne; exact H].
  destruct (Nat.lt_ge_cases p (length d)) as [Hlt|Hge]; [apply nth_upd_eq; exact Hlt|].
  rewrite upd_oob by exact Hge. exact H.
Qed.
Lemma scatter_zeros_zat ix : forall (d : list K) n p, nth p d k0 = k0 -> nth p (scatter d ix (repeat k0 n)) k0 = k0.
Proof.
  induction ix as [|i ix IH]; intros d [|n] p H; cbn; auto. apply IH. apply nth_upd_zero; exact H.
Qed.
Lemma scatter_zeros_cov ix : forall (d : list K) n p, In p ix -> (length ix <= n)%nat ->
  nth p (scatter d ix (repeat k0 n)) k0 = k0.
Proof.
  induction ix as [|i ix IH]; intros d n p Hin Hn; [destruct Hin|].
  destruct n as [|n]; cbn in Hn; [lia|]. cbn.
  destruct (Nat.eq_dec i p) as [->|Hne].
  - apply scatter_zeros_zat. destruct (Nat.lt_ge_cases p (length d)) as [Hlt|Hge]; [apply nth_upd_eq; exact Hlt|].
    rewrite upd_oob by exact Hge. apply nth_overflow; exact Hge.
  - destruct Hin as [->|Hin]; [congruence|]. apply IH; [exact Hin|lia].
Qed.
Lemma nth_map_zero {A} (l : list A) p : nth p (map (fun _ => k0) l) k0 = k0.
Proof. revert p; induction l as [|x l IH]; intros [|p]; cbn; auto. Qed.

Lemma st_in_range (s : store) i v : st (getsig s i) = Some v -> (i < length s)%nat.
Proof.
  intros H. destruct (Nat.lt_ge_cases i (length s)) as [Hlt|Hge]; [exact Hlt|].
  rewrite getsig_oob in H by exact Hge. discriminate.
Qed.

(* a reset never makes a zero entry non-zero, and zeroes every entry its reference addresses *)
Lemma reset_sig_zat_pres r s j p : zat (se (getsig s j)) p -> zat (se (getsig (reset_sig r s) j)) p.
Proof.
  intros Hc. unfold reset_sig.
  destruct (Nat.eq_dec (s_root r) j) as [Heq|Hne].
  2:{ destruct (s_slice r) as [[ix shp]|]; destruct (se (getsig s (s_root r))); try exact Hc;
      try (destruct (keep (getsig s (s_root r)))); rewrite put_se_other by exact Hne; exact Hc. }
  subst j. destruct (se (getsig s (s_root r))) as [c|] eqn:E.
  2:{ destruct (s_slice r) as [[ix shp]|]; rewrite E; exact I. }
  pose proof (se_in_range _ _ _ E) as Hlt.
  destruct (s_slice r) as [[ix shp]|].
  - rewrite put_se_same by exact Hlt. cbn. cbn in Hc. apply scatter_zeros_zat. exact Hc.
  - destruct (keep (getsig s (s_root r))); rewrite put_se_same by exact Hlt; [cbn; apply nth_map_zero|exact I].
Qed.
Lemma reset_sig_zat_cov r s j p : cov1b r j p = true -> zat (se (getsig (reset_sig r s) j)) p.
Proof.
  unfold cov1b. intros H. apply andb_true_iff in H as [H1 H2]. apply Nat.eqb_eq in H1. subst j.
  unfold reset_sig. destruct (se (getsig s (s_root r))) as [c|] eqn:E.
  2:{ destruct (s_slice r) as [[ix shp]|]; rewrite E; exact I. }
  pose proof (se_in_range _ _ _ E) as Hlt.
  destruct (s_slice r) as [[ix shp]|].
  - rewrite put_se_same by exact Hlt. cbn. apply scatter_zeros_cov; [apply existsb_eqb_in; exact H2|lia].
  - destruct (keep (getsig s (s_root r))); rewrite put_se_same by exact Hlt; [cbn; apply nth_map_zero|exact I].
Qed.

(* writing through a reference leaves every entry it does not address as it was *)
Lemma add_sens_zat r d s j p : cov1b r j p = false -> zat (se (getsig s j)) p -> zat (se (getsig (add_sens r d s) j)) p.
Proof.
  intros Hcov Hz. unfold add_sens. destruct d as [d|]; [|exact Hz].
  destruct (Nat.eq_dec (s_root r) j) as [Heq|Hne].
  2:{ destruct (s_slice r) as [[ix shp]|];
        [destruct (base_sens_or_zero (getsig s (s_root r)))|destruct (se (getsig s (s_root r)))];
        try rewrite put_se_other by exact Hne; exact Hz. }
  subst j. unfold cov1b in Hcov. rewrite Nat.eqb_refl in Hcov. cbn [andb] in Hcov.
  destruct (s_slice r) as [[ix shp]|]; [|discriminate]. apply existsb_eqb_notin in Hcov.
  unfold base_sens_or_zero. destruct (se (getsig s (s_root r))) as [b|] eqn:E.
  - pose proof (se_in_range _ _ _ E) as Hlt. rewrite put_se_same by exact Hlt. cbn.
    rewrite nth_scatter_notin by exact Hcov. exact Hz.
  - destruct (st (getsig s (s_root r))) as [v|] eqn:Est; [|rewrite E; exact I].
    pose proof (st_in_range _ _ _ Est) as Hlt. rewrite put_se_same by exact Hlt. cbn.
    rewrite nth_scatter_notin by exact Hcov. apply nth_map_zero.
Qed.
Lemma set_sens_zat r x s j p : cov1b r j p = false -> zat (se (getsig s j)) p -> zat (se (getsig (set_sens r x s) j)) p.
Proof.
  intros Hcov Hz. unfold set_sens.
  destruct (Nat.eq_dec (s_root r) j) as [Heq|Hne].
  2:{ destruct (s_slice r) as [[ix shp]|]; [|rewrite put_se_other by exact Hne; exact Hz].
      destruct (se (getsig s (s_root r))), x; try exact Hz;
        destruct (base_sens_or_zero (getsig s (s_root r))); try exact Hz; rewrite put_se_other by exact Hne; exact Hz. }
  subst j. unfold cov1b in Hcov. rewrite Nat.eqb_refl in Hcov. cbn [andb] in Hcov.
  destruct (s_slice r) as [[ix shp]|]; [|discriminate]. apply existsb_eqb_notin in Hcov.
  assert (P : forall xv, zat (se (getsig match base_sens_or_zero (getsig s (s_root r)) with
                                         | Some b => put_se (s_root r) (Some (assign_into b ix xv)) s
                                         | None => s end (s_root r))) p).
  { intros xv. unfold base_sens_or_zero. destruct (se (getsig s (s_root r))) as [b|] eqn:E.
    - pose proof (se_in_range _ _ _ E) as Hlt. rewrite put_se_same by exact Hlt. cbn.
      rewrite nth_scatter_notin by exact Hcov. exact Hz.
    - destruct (st (getsig s (s_root r))) as [v|] eqn:Est; [|rewrite E; exact I].
      pose proof (st_in_range _ _ _ Est) as Hlt. rewrite put_se_same by exact Hlt. cbn.
      rewrite nth_scatter_notin by exact Hcov. apply nth_map_zero. }
  destruct (se (getsig s (s_root r))) as [b|] eqn:E; destruct x as [xv|]; try apply P. rewrite E. exact I.
Qed.

Lemma add_all_zat rs j p : forall ds s, covb rs j p = false -> zat (se (getsig s j)) p ->
  zat (se (getsig (add_all rs ds s) j)) p.
Proof.
  induction rs as [|r rs IH]; intros [|d ds] s Hc Hz; cbn [add_all]; try exact Hz.
  cbn in Hc. apply orb_false_iff in Hc as [Hc1 Hc2]. apply IH; [exact Hc2|]. apply add_sens_zat; assumption.
Qed.
Lemma m_sensitivity_zat m s j p : covb (m_in m) j p = false -> zat (se (getsig s j)) p ->
  zat (se (getsig (m_sensitivity m s) j)) p.
Proof. intros Hc Hz. unfold m_sensitivity. destruct (_ && _); [exact Hz|]. apply add_all_zat; assumption. Qed.
Lemma n_sensitivity_zat n j p : (forall m, In m n -> covb (m_in m) j p = false) -> forall s,
  zat (se (getsig s j)) p -> zat (se (getsig (n_sensitivity n s) j)) p.
Proof.
  intros H. unfold n_sensitivity.
  assert (H' : forall m, In m (rev n) -> covb (m_in m) j p = false) by (intros m Hm; apply H; apply in_rev; exact Hm).
  clear H. induction (rev n) as [|m l IH]; intros s Hz; cbn [fold_left]; [exact Hz|].
  apply IH; [intros m' Hm'; apply H'; right; exact Hm'|]. apply m_sensitivity_zat; [apply H'; left; reflexivity|exact Hz].
Qed.

Lemma resets_zat_pres L j p : forall s, zat (se (getsig s j)) p -> zat (se (getsig (resets L s) j)) p.
Proof.
  unfold resets. induction L as [|r L IH]; intros s H; cbn; [exact H|]. apply IH. apply reset_sig_zat_pres; exact H.
Qed.
Lemma resets_zat_cov L j p : forall s, covb L j p = true -> zat (se (getsig (resets L s) j)) p.
Proof.
  induction L as [|r L IH]; intros s H; [discriminate|]. cbn in H. apply orb_true_iff in H as [H|H].
  - change (resets (r :: L) s) with (resets L (reset_sig r s)). apply resets_zat_pres. apply reset_sig_zat_cov; exact H.
  - change (resets (r :: L) s) with (resets L (reset_sig r s)). apply IH; exact H.
Qed.

Lemma covb_reset_refs_false n j p : covb (reset_refs n) j p = false -> forall m, In m n -> covb (m_in m) j p = false.
Proof.
  intros H m Hm. apply covb_false_of. intros r Hr. apply (covb_false_in _ _ _ H).
  unfold reset_refs. apply in_flat_map. exists m. split; [apply in_rev in Hm; exact Hm|]. apply in_or_app. right. exact Hr.
Qed.

(* one iteration of the analytical pass: seed the output, backpropagate, blk.reset(), Sout.reset().
   An entry that was zero (or a sensitivity that was None) before is zero (None) afterwards — for EVERY signal *)
Lemma iteration_zat blk so df s j p : zat (se (getsig s j)) p ->
  zat (se (getsig (reset_sig so (n_reset blk (n_sensitivity blk (set_sens so (Some df) s)))) j)) p.
Proof.
  intros Hz. rewrite n_reset_resets.
  set (X := n_sensitivity blk (set_sens so (Some df) s)).
  replace (reset_sig so (resets (reset_refs blk) X)) with (resets (reset_refs blk ++ [so]) X)
    by (unfold resets; rewrite fold_left_app; reflexivity).
  destruct (covb (reset_refs blk ++ [so]) j p) eqn:E; [apply resets_zat_cov; exact E|].
  apply resets_zat_pres. rewrite covb_app in E. apply orb_false_iff in E as [E1 E2].
  cbn in E2. rewrite orb_false_r in E2.
  unfold X. apply n_sensitivity_zat; [apply covb_reset_refs_false; exact E1|]. apply set_sens_zat; assumption.
Qed.

Lemma analytical_zat_pres c blk inps j p : forall outps iout rand s,
  zat (se (getsig s j)) p -> zat (se (getsig (a_store (analytical c blk inps outps iout rand s)) j)) p.
Proof.
  induction outps as [|so outps IH]; intros iout rand s Hz; cbn [analytical]; [exact Hz|].
  destruct (get_state so s) as [output|]; [|cbn [a_store]; apply IH; exact Hz].
  destruct (make_seed c iout output rand) as [df rand']. cbn [a_store]. apply IH. apply iteration_zat; exact Hz.
Qed.

(* the analytical pass creates no sensitivity anywhere *)
Lemma analytical_clean_pres c blk inps j outps iout rand s :
  clean (se (getsig s j)) -> clean (se (getsig (a_store (analytical c blk inps outps iout rand s)) j)).
Proof. rewrite !clean_zat. intros H p. apply analytical_zat_pres. apply H. Qed.

(* ------------------------------------------------------------------ sub-network selection *)
Definition mod0 : module := {| m_in := []; m_out := []; m_f := fun _ => []; m_vjp := fun _ _ => [] |}.

Lemma find_first_spec inps : forall n i0 i1, find_first inps n i0 = Some i1 ->
  (i0 <= i1 < i0 + length n)%nat /\ overlap inps (m_in (nth (i1 - i0) n mod0)) = true /\
  forall j, (j < i1 - i0)%nat -> overlap inps (m_in (nth j n mod0)) = false.
Proof.
  induction n as [|m n IH]; intros i0 i1 H; cbn in H; [discriminate|].
  destruct (overlap inps (m_in m)) eqn:E.
  - inversion H; subst. rewrite Nat.sub_diag. cbn. split; [lia|split; [exact E|]]. intros j Hj; lia.
  - apply IH in H as (A & B & D). cbn [length]. split; [lia|].
    replace (i1 - i0)%nat with (S (i1 - S i0)) by lia. cbn [nth]. split; [exact B|].
    intros [|j] Hj; [exact E|]. apply D. lia.
Qed.

Lemma find_last_spec outps : forall n i0 acc i2, find_last outps n i0 acc = Some i2 ->
  (acc = Some i2 /\ forall j, (j < length n)%nat -> overlap outps (m_out (nth j n mod0)) = false) \/
  ((i0 <= i2 < i0 + length n)%nat /\ overlap outps (m_out (nth (i2 - i0) n mod0)) = true /\
   forall j, (i2 - i0 < j < length n)%nat -> overlap outps (m_out (nth j n mod0)) = false).
Proof.
  induction n as [|m n IH]; intros i0 acc i2 H; cbn in H.
  - left. split; [exact H|]. intros j Hj; cbn in Hj; lia.
  - apply IH in H as [[A B]|(A & B & D)].
    + destruct (overlap outps (m_out m)) eqn:E.
      * right. inversion A; subst. rewrite Nat.sub_diag. cbn. split; [lia|split; [exact E|]].
        intros [|j] Hj; [lia|]. apply B. lia.
      * left. split; [exact A|]. intros [|j] Hj; [exact E|]. apply B. cbn in Hj. lia.
    + right. cbn [length]. split; [lia|]. replace (i2 - i0)%nat with (S (i2 - S i0)) by lia. cbn [nth].
      split; [exact B|]. intros [|j] Hj; [lia|]. apply D. lia.
Qed.

(* finite_difference on a Network = finite_difference on the selected sub-network, started from the store in which
   the modules before it have been evaluated once *)
Theorem fd_network_selection c mods inps outps s i1 i2 :
  find_first inps mods 0 = Some i1 -> find_last outps mods 0 None = Some i2 ->
  finite_difference c true mods inps outps s =
  finite_difference c false (firstn (S i2 - i1) (skipn i1 mods)) inps outps (n_response (firstn i1 mods) s).
Proof. intros H1 H2. unfold finite_difference. rewrite H1, H2. reflexivity. Qed.

Theorem fd_network_errors c mods inps outps s :
  (find_first inps mods 0 = None -> finite_difference c true mods inps outps s = inl ENoInput) /\
  (forall i1, find_first inps mods 0 = Some i1 -> find_last outps mods 0 None = None ->
              finite_difference c true mods inps outps s = inl ENoOutput).
Proof.
  split; [intros H|intros i1 H1 H2]; unfold finite_difference; [rewrite H|rewrite H1, H2]; reflexivity.
Qed.

Lemma nth_firstn_below {A} (l : list A) n j d : (j < n)%nat -> nth j (firstn n l) d = nth j l d.
Proof.
  revert l j; induction n as [|n IH]; intros [|x l] [|j] H; cbn; auto; try lia. apply IH. lia.
Qed.

Lemma nth_selected {A} (l : list A) i1 n j d : (j < n)%nat -> (i1 + j < length l)%nat ->
  nth j (firstn n (skipn i1 l)) d = nth (i1 + j) l d.
Proof.
  intros Hj Hl. rewrite nth_firstn_below by exact Hj.
  revert l Hl. induction i1 as [|i1 IH]; intros l Hl; [reflexivity|].
  destruct l as [|x l]; cbn in *; [lia|]. apply IH. lia.
Qed.

(* ------------------------------------------------------------------ the routine as a whole (single module or the
   selected sub-network) *)
(* the store in which blk.response() and the analytical pass start: blk.reset(); [s.reset() for s in inps] *)
Definition start_store (blk : net) (inps : list sref) (s : store) : store := resets inps (n_reset blk s).

Theorem fd_result c blk inps outps s res :
  finite_difference c false blk inps outps s = inr res ->
  let s1 := n_response blk (start_store blk inps s) in
  let a := analytical c blk inps outps 0 (c_rand c) s1 in
  res = {| f_reports := snd (perturb_inputs c blk inps 0 outps (a_f0 a) (a_df a) (a_dx a) (a_store a));
           f_store := fst (perturb_inputs c blk inps 0 outps (a_f0 a) (a_df a) (a_dx a) (a_store a));
           f_seeds := a_df a |}.
Proof.
  intros H. cbn zeta. unfold finite_difference in H. cbn [n_response fold_left] in H.
  unfold start_store, resets.
  match type of H with context [perturb_inputs ?a ?b ?c0 ?d ?e ?f ?g ?h ?i] =>
    destruct (perturb_inputs a b c0 d e f g h i) as [s2 reps] end.
  inversion H; subst. reflexivity.
Qed.

(* a Network request reduces to the request on the selected modules *)
Lemma fd_reduce c isnet mods inps outps s res :
  finite_difference c isnet mods inps outps s = inr res ->
  exists pre blk, finite_difference c false blk inps outps (n_response pre s) = inr res.
Proof.
  destruct isnet; [|intros H; exists [], mods; exact H].
  intros H. destruct (find_first inps mods 0) as [i1|] eqn:E1.
  2:{ unfold finite_difference in H. rewrite E1 in H. discriminate. }
  destruct (find_last outps mods 0 None) as [i2|] eqn:E2.
  2:{ unfold finite_difference in H. rewrite E1, E2 in H. discriminate. }
  rewrite (fd_network_selection c mods inps outps s i1 i2 E1 E2) in H. eauto.
Qed.

(* the states: every root the sub-network does not write is restored to what it held after the initial response,
   which for such a root is what it held before the call *)
Lemma set_sens_st r x s j : st (getsig (set_sens r x s) j) = st (getsig s j).
Proof.
  assert (P : forall i v s0, st (getsig (put_se i v s0) j) = st (getsig s0 j)).
  { intros i v s0. unfold put_se. destruct (Nat.eq_dec i j) as [<-|Hne]; [|rewrite getsig_upd_neq by exact Hne; reflexivity].
    destruct (Nat.lt_ge_cases i (length s0)) as [Hlt|Hge]; [rewrite getsig_upd_eq by exact Hlt; reflexivity|].
    rewrite upd_oob by exact Hge. reflexivity. }
  unfold set_sens. destruct (s_slice r) as [[ix shp]|]; [|apply P].
  destruct (se (getsig s (s_root r))), x; try reflexivity;
    destruct (base_sens_or_zero (getsig s (s_root r))); try reflexivity; apply P.
Qed.

(* sensitivity operations never touch a state *)
Definition st_same (s s' : store) : Prop := length s' = length s /\ forall j, st (getsig s' j) = st (getsig s j).
Lemma st_same_refl s : st_same s s. Proof. split; auto. Qed.
Lemma st_same_trans a b c : st_same a b -> st_same b c -> st_same a c.
Proof. intros [L1 F1] [L2 F2]. split; [congruence|]. intros j. rewrite F2. apply F1. Qed.

Lemma put_se_st_same i v s : st_same s (put_se i v s).
Proof.
  split; [apply upd_length|]. intros j. unfold put_se.
  destruct (Nat.eq_dec i j) as [<-|Hne]; [|rewrite getsig_upd_neq by exact Hne; reflexivity].
  destruct (Nat.lt_ge_cases i (length s)) as [Hlt|Hge]; [rewrite getsig_upd_eq by exact Hlt; reflexivity|].
  rewrite upd_oob by exact Hge. reflexivity.
Qed.
Lemma set_sens_st_same r x s : st_same s (set_sens r x s).
Proof.
  unfold set_sens. destruct (s_slice r) as [[ix shp]|]; [|apply put_se_st_same].
  destruct (se (getsig s (s_root r))), x; try apply st_same_refl;
    destruct (base_sens_or_zero (getsig s (s_root r))); try apply st_same_refl; apply put_se_st_same.
Qed.
Lemma add_sens_st_same r d s : st_same s (add_sens r d s).
Proof.
  unfold add_sens. destruct d as [d|]; [|apply st_same_refl].
  destruct (s_slice r) as [[ix shp]|].
  - destruct (base_sens_or_zero (getsig s (s_root r))); [apply put_se_st_same|apply st_same_refl].
  - destruct (se (getsig s (s_root r))); apply put_se_st_same.
Qed.
Lemma add_all_st_same rs : forall ds s, st_same s (add_all rs ds s).
Proof.
  induction rs as [|r rs IH]; intros [|d ds] s; cbn; try apply st_same_refl.
  eapply st_same_trans; [apply add_sens_st_same|apply IH].
Qed.
Lemma m_sensitivity_st_same m s : st_same s (m_sensitivity m s).
Proof. unfold m_sensitivity. destruct (_ && _); [apply st_same_refl|apply add_all_st_same]. Qed.
Lemma fold_st_same {A} (f : store -> A -> store) (Hf : forall s a, st_same s (f s a)) l : forall s, st_same s (fold_left f l s).
Proof. induction l as [|a l IH]; intros s; cbn; [apply st_same_refl|]. eapply st_same_trans; [apply Hf|apply IH]. Qed.
Lemma n_sensitivity_st_same n s : st_same s (n_sensitivity n s).
Proof. unfold n_sensitivity. apply fold_st_same. intros; apply m_sensitivity_st_same. Qed.
Lemma reset_sig_st_same r s : st_same s (reset_sig r s).
Proof.
  unfold reset_sig. destruct (s_slice r) as [[ix shp]|]; destruct (se (getsig s (s_root r))); try apply st_same_refl;
    try (destruct (keep (getsig s (s_root r)))); apply put_se_st_same.
Qed.
Lemma resets_st_same L s : st_same s (resets L s).
Proof. unfold resets. apply (fold_st_same (fun s2 r => reset_sig r s2)). intros; apply reset_sig_st_same. Qed.
Lemma n_reset_st_same n s : st_same s (n_reset n s).
Proof.
  unfold n_reset. apply fold_st_same. intros s0 m. unfold m_reset.
  assert (R : forall L s1, st_same s1 (fold_left (fun s2 r => reset_sig r s2) L s1)).
  { intros L s1. apply (fold_st_same (fun s2 r => reset_sig r s2)). intros; apply reset_sig_st_same. }
  eapply st_same_trans; apply R.
Qed.
Lemma analytical_st_same c blk inps : forall outps iout rand s,
  st_same s (a_store (analytical c blk inps outps iout rand s)).
Proof.
  induction outps as [|so outps IH]; intros iout rand s; cbn [analytical]; [apply st_same_refl|].
  destruct (get_state so s) as [output|]; [|cbn [a_store]; apply IH].
  destruct (make_seed c iout output rand) as [df rand']. cbn [a_store].
  eapply st_same_trans; [|apply IH].
  eapply st_same_trans; [apply set_sens_st_same|]. eapply st_same_trans; [apply n_sensitivity_st_same|].
  eapply st_same_trans; [apply n_reset_st_same|apply reset_sig_st_same].
Qed.

(* an output of interest that has a value is clean after its own iteration (Sout.reset()) and stays clean *)
Lemma analytical_out_clean c blk inps so0 : s_slice so0 = None -> forall outps iout rand s,
  In so0 outps -> st (getsig s (s_root so0)) <> None ->
  clean (se (getsig (a_store (analytical c blk inps outps iout rand s)) (s_root so0))).
Proof.
  intros Hsl. induction outps as [|so outps IH]; intros iout rand s Hin Hst; [destruct Hin|].
  cbn [analytical]. destruct (get_state so s) as [output|] eqn:Eg.
  - destruct (make_seed c iout output rand) as [df rand']. cbn [a_store].
    set (s3 := reset_sig so (n_reset blk (n_sensitivity blk (set_sens so (Some df) s)))).
    destruct Hin as [->|Hin].
    + apply analytical_clean_pres. unfold s3. apply reset_sig_clean_root; exact Hsl.
    + apply IH; [exact Hin|].
      assert (Hs : st_same s s3).
      { unfold s3. eapply st_same_trans; [apply set_sens_st_same|]. eapply st_same_trans; [apply n_sensitivity_st_same|].
        eapply st_same_trans; [apply n_reset_st_same|apply reset_sig_st_same]. }
      destruct Hs as [_ Hs]. rewrite Hs. exact Hst.
  - cbn [a_store]. destruct Hin as [->|Hin]; [|apply IH; assumption].
    exfalso. apply Hst. unfold get_state in Eg. rewrite Hsl in Eg.
    destruct (st (getsig s (s_root so0))); [discriminate|reflexivity].
Qed.

(* no sensitivity is left set: every Signal of the sub-network AND every output of interest that has a value (also
   one that is not a signal of any executed module) holds None or zeros after the call *)
Definition out_sig (blk : net) (inps outps : list sref) (s : store) (j : nat) : Prop :=
  exists so, In so outps /\ s_root so = j /\ s_slice so = None /\
             st (getsig (n_response blk (start_store blk inps s)) j) <> None.

Lemma start_store_clean_pres blk inps s j : clean (se (getsig s j)) -> clean (se (getsig (start_store blk inps s) j)).
Proof. intros H. unfold start_store. apply resets_clean_pres. apply n_reset_clean_pres. exact H. Qed.
Lemma start_store_clean blk inps s j : direct_sig blk j -> clean (se (getsig (start_store blk inps s) j)).
Proof. intros H. unfold start_store. apply resets_clean_pres. apply n_reset_clean. exact H. Qed.

Theorem fd_leaves_clean c blk inps outps s res j :
  finite_difference c false blk inps outps s = inr res -> direct_sig blk j \/ out_sig blk inps outps s j ->
  clean (se (getsig (f_store res) j)).
Proof.
  intros H Hd. rewrite (fd_result _ _ _ _ _ _ H). cbn [f_store].
  set (s1 := n_response blk (start_store blk inps s)). set (a := analytical c blk inps outps 0 (c_rand c) s1).
  destruct (perturb_inputs_sens_same c blk outps (a_f0 a) (a_df a) (a_dx a) inps 0%nat (a_store a)) as [_ F].
  destruct (F j) as [F1 _]. rewrite F1.
  destruct Hd as [Hd|(so & Hin & <- & Hsl & Hst)].
  - unfold a. apply analytical_clean; [exact Hd|].
    unfold s1. destruct (n_response_sens_same blk (start_store blk inps s)) as [_ G]. destruct (G j) as [G1 _]. rewrite G1.
    apply start_store_clean; exact Hd.
  - unfold a. apply analytical_out_clean; assumption.
Qed.

(* ... and none is created: a Signal (ANY Signal: of the sub-network, upstream, downstream, unrelated) that was clean
   before the call is clean after it *)
Theorem fd_keeps_clean c blk inps outps s res j :
  finite_difference c false blk inps outps s = inr res -> clean (se (getsig s j)) ->
  clean (se (getsig (f_store res) j)).
Proof.
  intros H Hc. rewrite (fd_result _ _ _ _ _ _ H). cbn [f_store].
  set (s1 := n_response blk (start_store blk inps s)). set (a := analytical c blk inps outps 0 (c_rand c) s1).
  destruct (perturb_inputs_sens_same c blk outps (a_f0 a) (a_df a) (a_dx a) inps 0%nat (a_store a)) as [_ F].
  destruct (F j) as [F1 _]. rewrite F1.
  unfold a. apply analytical_clean_pres.
  unfold s1. destruct (n_response_sens_same blk (start_store blk inps s)) as [_ G]. destruct (G j) as [G1 _]. rewrite G1.
  apply start_store_clean_pres; exact Hc.
Qed.

(* the same for a Network: the modules before the first user of an input are only evaluated *)
Theorem fd_network_leaves_clean c mods inps outps s res i1 i2 j :
  find_first inps mods 0 = Some i1 -> find_last outps mods 0 None = Some i2 ->
  finite_difference c true mods inps outps s = inr res ->
  let blk := firstn (S i2 - i1) (skipn i1 mods) in
  direct_sig blk j \/ out_sig blk inps outps (n_response (firstn i1 mods) s) j \/ clean (se (getsig s j)) ->
  clean (se (getsig (f_store res) j)).
Proof.
  intros H1 H2 H blk Hd. rewrite (fd_network_selection c mods inps outps s i1 i2 H1 H2) in H. fold blk in H.
  destruct Hd as [Hd|[Hd|Hc]].
  - apply (fd_leaves_clean _ _ _ _ _ _ _ H). left; exact Hd.
  - apply (fd_leaves_clean _ _ _ _ _ _ _ H). right; exact Hd.
  - apply (fd_keeps_clean _ _ _ _ _ _ _ H).
    destruct (n_response_sens_same (firstn i1 mods) s) as [_ G]. destruct (G j) as [G1 _]. rewrite G1. exact Hc.
Qed.

(* ------------------------------------------------------------------ the inputs of interest (fixed finding F27):
   whatever sensitivity the caller left on them, they are clean when the analytical pass starts, at the start of every
   iteration of it, and after the call — on a Signal the whole sensitivity, through a slice the addressed entries *)
Lemma clean_get_sens si s :
  clean (get_sens si s) <-> forall p, cov1b si (s_root si) p = true -> zat (se (getsig s (s_root si))) p.
Proof.
  unfold get_sens, cov1b. rewrite Nat.eqb_refl. cbn [andb].
  destruct (se (getsig s (s_root si))) as [b|]; [|split; intros; exact I].
  destruct (s_slice si) as [[ix shp]|]; cbn.
  - unfold gather. rewrite Forall_forall. split.
    + intros H p Hp. apply H. apply in_map_iff. exists p. split; [reflexivity|apply existsb_eqb_in; exact Hp].
    + intros H a Ha. apply in_map_iff in Ha as (p & <- & Hp). apply H. apply existsb_eqb_in; exact Hp.
  - rewrite all_zero_nth. split; auto.
Qed.

Theorem start_store_inputs_clean blk inps s si : In si inps -> clean (get_sens si (start_store blk inps s)).
Proof.
  intros Hin. apply clean_get_sens. intros p Hp. unfold start_store. apply resets_zat_cov.
  apply existsb_exists. exists si. split; assumption.
Qed.

Theorem iteration_inputs_clean blk so df s si :
  clean (get_sens si s) ->
  clean (get_sens si (reset_sig so (n_reset blk (n_sensitivity blk (set_sens so (Some df) s))))).
Proof. rewrite !clean_get_sens. intros H p Hp. apply iteration_zat. apply H; exact Hp. Qed.

Theorem fd_inputs_left_clean c isnet mods inps outps s res si :
  finite_difference c isnet mods inps outps s = inr res -> In si inps -> clean (get_sens si (f_store res)).
Proof.
  intros H Hin. apply fd_reduce in H as (pre & blk & H). rewrite (fd_result _ _ _ _ _ _ H). cbn [f_store].
  set (s0 := n_response pre s). set (s1 := n_response blk (start_store blk inps s0)).
  set (a := analytical c blk inps outps 0 (c_rand c) s1).
  apply clean_get_sens. intros p Hp.
  destruct (perturb_inputs_sens_same c blk outps (a_f0 a) (a_df a) (a_dx a) inps 0%nat (a_store a)) as [_ F].
  destruct (F (s_root si)) as [F1 _]. rewrite F1.
  unfold a. apply analytical_zat_pres.
  unfold s1. destruct (n_response_sens_same blk (start_store blk inps s0)) as [_ G]. destruct (G (s_root si)) as [G1 _].
  rewrite G1. revert p Hp. apply clean_get_sens. apply start_store_inputs_clean; exact Hin.
Qed.

(* ------------------------------------------------------------------ independence: the whole result (tuples, final
   store, seeds) is the same for two stores that differ only in the sensitivity the caller left on Signals that are
   inputs of interest and keep no allocation *)
Definition reset_rec (r : sref) (g : sigrec) : sigrec :=
  match se g with
  | None => g
  | Some c =>
      match s_slice r with
      | None => {| st := st g; se := (if keep g then Some (zeros_like c) else None); keep := keep g |}
      | Some (ix, _) =>
          {| st := st g; se := Some (assign_into c ix {| v_dat := [k0]; v_kind := KScal; v_cx := false |}); keep := keep g |}
      end
  end.

Lemma getsig_reset_sig r s j :
  getsig (reset_sig r s) j = if Nat.eqb (s_root r) j then reset_rec r (getsig s j) else getsig s j.
Proof.
  destruct (Nat.eqb (s_root r) j) eqn:E.
  - apply Nat.eqb_eq in E. subst j. unfold reset_sig, reset_rec.
    destruct (se (getsig s (s_root r))) as [c|] eqn:Ec.
    2:{ destruct (s_slice r) as [[ix shp]|]; reflexivity. }
    pose proof (se_in_range _ _ _ Ec) as Hlt. unfold put_se. cbv zeta.
    destruct (s_slice r) as [[ix shp]|]; [|destruct (keep (getsig s (s_root r)))];
      rewrite getsig_upd_eq by exact Hlt; reflexivity.
  - apply Nat.eqb_neq in E. unfold reset_sig.
    destruct (s_slice r) as [[ix shp]|]; destruct (se (getsig s (s_root r))); try reflexivity;
      try (destruct (keep (getsig s (s_root r)))); apply put_se_other; exact E.
Qed.

Definition recs (L : list sref) (j : nat) (g : sigrec) : sigrec :=
  fold_left (fun g r => if Nat.eqb (s_root r) j then reset_rec r g else g) L g.
Lemma getsig_resets L j : forall s, getsig (resets L s) j = recs L j (getsig s j).
Proof.
  unfold resets, recs. induction L as [|r L IH]; intros s; cbn [fold_left]; [reflexivity|].
  rewrite IH, getsig_reset_sig. reflexivity.
Qed.
Lemma resets_length L : forall s, length (resets L s) = length s.
Proof. intros s. apply (resets_st_same L s). Qed.

(* two records that agree except for the sensitivity *)
Definition rec_sim (g g' : sigrec) : Prop := st g' = st g /\ keep g' = keep g.
Lemma reset_rec_sim r g g' : rec_sim g g' -> rec_sim (reset_rec r g) (reset_rec r g').
Proof.
  intros [H1 H2]. unfold reset_rec, rec_sim.
  destruct (se g), (se g'); destruct (s_slice r) as [[ix shp]|]; cbn; auto.
Qed.
Lemma reset_rec_forget r g g' : rec_sim g g' -> s_slice r = None -> keep g = false -> reset_rec r g' = reset_rec r g.
Proof.
  intros [H1 H2] Hs Hk. unfold reset_rec. rewrite Hs, H2, Hk.
  destruct g as [a b k], g' as [a' b' k']; cbn in *; subst. destruct b, b'; reflexivity.
Qed.
Lemma reset_rec_keep r g : keep (reset_rec r g) = keep g.
Proof. unfold reset_rec. destruct (se g); [destruct (s_slice r) as [[ix shp]|]|]; reflexivity. Qed.

Lemma recs_forget L j : forall g g', rec_sim g g' -> keep g = false ->
  (exists r, In r L /\ s_root r = j /\ s_slice r = None) -> recs L j g' = recs L j g.
Proof.
  unfold recs. induction L as [|r L IH]; intros g g' Hsim Hk (r0 & Hin & Hr & Hs); [destruct Hin|].
  cbn [fold_left]. destruct (Nat.eqb (s_root r) j) eqn:E.
  - destruct (s_slice r) as [[ix shp]|] eqn:Es.
    + destruct Hin as [->|Hin]; [congruence|].
      apply IH; [apply reset_rec_sim; exact Hsim|rewrite reset_rec_keep; exact Hk|eauto].
    + rewrite (reset_rec_forget r g g' Hsim Es Hk). reflexivity.
  - destruct Hin as [->|Hin]; [apply Nat.eqb_neq in E; congruence|]. apply IH; eauto.
Qed.

Definition se_free (inps : list sref) (s s' : store) : Prop :=
  length s' = length s /\
  forall j, getsig s' j = getsig s j \/
            (rec_sim (getsig s j) (getsig s' j) /\ keep (getsig s j) = false /\
             exists si, In si inps /\ s_root si = j /\ s_slice si = None).

Lemma store_ext (s s' : store) : length s' = length s -> (forall j, getsig s' j = getsig s j) -> s' = s.
Proof. intros Hl H. apply (nth_ext s' s sig0 sig0 Hl). intros n _. apply H. Qed.

Lemma resets_app L1 L2 s : resets (L1 ++ L2) s = resets L2 (resets L1 s).
Proof. unfold resets. apply fold_left_app. Qed.

Lemma start_store_forget blk inps s s' : se_free inps s s' -> start_store blk inps s' = start_store blk inps s.
Proof.
  intros [Hl H]. unfold start_store. rewrite !n_reset_resets, <- !resets_app.
  apply store_ext; [rewrite !resets_length; exact Hl|]. intros j. rewrite !getsig_resets.
  destruct (H j) as [->|(Hsim & Hk & si & Hin & Hr & Hs)]; [reflexivity|].
  apply recs_forget; [exact Hsim|exact Hk|]. exists si. split; [apply in_or_app; right; exact Hin|auto].
Qed.

(* evaluating modules reads and writes states only: it carries the relation along *)
Lemma get_state_sim r s s' : (forall j, st (getsig s' j) = st (getsig s j)) -> get_state r s' = get_state r s.
Proof. intros H. unfold get_state. rewrite H. reflexivity. Qed.
Lemma getsig_put_st i v s j :
  getsig (put_st i v s) j =
  if Nat.eqb i j && Nat.ltb j (length s) then {| st := v; se := se (getsig s j); keep := keep (getsig s j) |} else getsig s j.
Proof.
  unfold put_st. destruct (Nat.eqb i j) eqn:E; cbn [andb].
  - apply Nat.eqb_eq in E. subst j. destruct (Nat.ltb i (length s)) eqn:El.
    + apply Nat.ltb_lt in El. apply getsig_upd_eq; exact El.
    + apply Nat.ltb_ge in El. rewrite upd_oob by exact El. reflexivity.
  - apply Nat.eqb_neq in E. apply getsig_upd_neq; exact E.
Qed.
Lemma put_st_se_free inps i v s s' : se_free inps s s' -> se_free inps (put_st i v s) (put_st i v s').
Proof.
  intros [Hl H]. split; [rewrite !put_st_length; exact Hl|]. intros j. rewrite !getsig_put_st, Hl.
  destruct (Nat.eqb i j && Nat.ltb j (length s)); [|apply H].
  destruct (H j) as [->|((H1 & H2) & Hk & Hex)]; [left; reflexivity|].
  right. split; [split; cbn; auto|]. split; [exact Hk|exact Hex].
Qed.
Lemma se_free_st inps s s' : se_free inps s s' -> forall j, st (getsig s' j) = st (getsig s j).
Proof. intros [_ H] j. destruct (H j) as [->|((H1 & _) & _)]; [reflexivity|exact H1]. Qed.
Lemma set_state_se_free inps r x s s' : se_free inps s s' -> se_free inps (set_state r x s) (set_state r x s').
Proof.
  intros H. unfold set_state. destruct (s_slice r) as [[ix shp]|]; [|apply put_st_se_free; exact H].
  rewrite (se_free_st _ _ _ H). destruct (st (getsig s (s_root r))); [apply put_st_se_free|]; exact H.
Qed.
Lemma set_states_se_free inps rs : forall vs s s', se_free inps s s' -> se_free inps (set_states rs vs s) (set_states rs vs s').
Proof.
  induction rs as [|r rs IH]; intros [|[v|] vs] s s' H; cbn [set_states]; try exact H.
  - apply IH. apply set_state_se_free; exact H.
  - apply IH. destruct (s_slice r); [exact H|apply put_st_se_free; exact H].
Qed.
Lemma n_response_se_free inps n : forall s s', se_free inps s s' -> se_free inps (n_response n s) (n_response n s').
Proof.
  unfold n_response. induction n as [|m n IH]; intros s s' H; cbn [fold_left]; [exact H|].
  apply IH. unfold m_response.
  replace (map (fun r => get_state r s') (m_in m)) with (map (fun r => get_state r s) (m_in m))
    by (apply map_ext; intros r; symmetry; apply get_state_sim; apply (se_free_st _ _ _ H)).
  apply set_states_se_free; exact H.
Qed.

Theorem fd_independent_of_input_sensitivities c isnet mods inps outps s s' :
  se_free inps s s' ->
  finite_difference c isnet mods inps outps s' = finite_difference c isnet mods inps outps s.
Proof.
  intros H. unfold finite_difference.
  match goal with |- match ?sel with _ => _ end = _ => destruct sel as [e|[pre blk]] end; [reflexivity|].
  cbv zeta.
  change (fold_left (fun s0 r => reset_sig r s0) inps (n_reset blk (n_response pre s')))
    with (start_store blk inps (n_response pre s')).
  change (fold_left (fun s0 r => reset_sig r s0) inps (n_reset blk (n_response pre s)))
    with (start_store blk inps (n_response pre s)).
  rewrite (start_store_forget blk inps _ _ (n_response_se_free inps pre s s' H)). reflexivity.
Qed.

(* after the call every input state (every root the sub-network does not write) equals its initial value exactly *)
Theorem fd_restores c blk inps outps s res j :
  finite_difference c false blk inps outps s = inr res ->
  Forall ref_wf inps -> Forall (fun si => (s_root si < length s)%nat) inps -> resp_pres blk j ->
  st (getsig (f_store res) j) = st (getsig s j).
Proof.
  intros H Hwf Hlt Hpres. rewrite (fd_result _ _ _ _ _ _ H). cbn [f_store].
  set (s1 := n_response blk (start_store blk inps s)). set (a := analytical c blk inps outps 0 (c_rand c) s1).
  destruct (analytical_st_same c blk inps outps 0%nat (c_rand c) s1) as [La Fa]. fold a in La, Fa.
  assert (Hst : st_same s (start_store blk inps s)).
  { unfold start_store. eapply st_same_trans; [apply n_reset_st_same|apply resets_st_same]. }
  destruct Hst as [Lr Fr].
  assert (L1 : length s1 = length s) by (unfold s1; rewrite n_response_length; exact Lr).
  rewrite perturb_inputs_restores; [|exact Hwf| |exact Hpres].
  - rewrite Fa. unfold s1. rewrite Hpres. apply Fr.
  - rewrite La, L1. exact Hlt.
Qed.

(* one iteration of the analytical pass, completely: the recorded value, the recorded input sensitivities (obtained by
   backpropagating the seed), the recorded seed — which IS the seed that was backpropagated — and the rest of the pass,
   which starts from the store after blk.reset(); Sout.reset() with the remaining random stream *)
Lemma analytical_head c blk inps so outps iout rand s output :
  get_state so s = Some output ->
  let df := fst (make_seed c iout output rand) in
  let s2 := n_sensitivity blk (set_sens so (Some df) s) in
  let a := analytical c blk inps (so :: outps) iout rand s in
  let a' := analytical c blk inps outps (S iout) (snd (make_seed c iout output rand)) (reset_sig so (n_reset blk s2)) in
  (hd None (a_f0 a) = Some output /\
   hd [] (a_dx a) = map (fun si => get_sens si s2) inps /\
   hd None (a_df a) = Some df) /\
  a_f0 a = Some output :: a_f0 a' /\ a_dx a = map (fun si => get_sens si s2) inps :: a_dx a' /\
  a_df a = Some df :: a_df a' /\ a_store a = a_store a'.
Proof.
  intros Hg. cbn zeta. cbn [analytical]. rewrite Hg. destruct (make_seed c iout output rand) as [df rand'] eqn:E.
  cbn [fst snd a_f0 a_dx a_df a_store hd]. repeat split; reflexivity.
Qed.

(* an output whose state is None is skipped: nothing is recorded for it and no sensitivity is touched *)
Lemma analytical_skip c blk inps so outps iout rand s :
  get_state so s = None ->
  let a := analytical c blk inps (so :: outps) iout rand s in
  let a' := analytical c blk inps outps (S iout) rand s in
  a_f0 a = None :: a_f0 a' /\ a_dx a = map (fun _ => None) inps :: a_dx a' /\ a_df a = None :: a_df a' /\
  a_store a = a_store a'.
Proof. intros Hg. cbn zeta. cbn [analytical]. rewrite Hg. cbn [a_f0 a_dx a_df a_store]. repeat split; reflexivity. Qed.

(* a root that is not an output of any module of the sub-network is not written by its response *)
Lemma set_states_other rs : forall vs s j, Forall (fun r => s_root r <> j) rs ->
  st (getsig (set_states rs vs s) j) = st (getsig s j).
Proof.
  induction rs as [|r rs IH]; intros vs s j H; [destruct vs; reflexivity|].
  inversion H as [|? ? Hr Hrs]; subst. destruct vs as [|[v|] vs]; cbn [set_states]; [reflexivity| |].
  - rewrite (IH vs _ j Hrs). apply set_state_other; exact Hr.
  - rewrite (IH vs _ j Hrs). destruct (s_slice r); [reflexivity|apply put_st_other; exact Hr].
Qed.

Theorem resp_pres_not_output blk j :
  Forall (fun m => Forall (fun r => s_root r <> j) (m_out m)) blk -> resp_pres blk j.
Proof.
  intros H s. revert s. unfold n_response. induction H as [|m blk Hm Hblk IH]; intros s; cbn [fold_left]; [reflexivity|].
  rewrite IH. unfold m_response. apply set_states_other; exact Hm.
Qed.

(* ------------------------------------------------------------------ decidable equality on data (for examples) *)
Definition k_eqb (a b : K) : bool := Qc_eqb (fst a) (fst b) && Qc_eqb (snd a) (snd b).
Lemma Qc_eqb_sound a b : Qc_eqb a b = true -> a = b.
Proof. unfold Qc_eqb. intros H. apply Qc_is_canon. apply Qeq_bool_eq. exact H. Qed.
Lemma k_eqb_sound a b : k_eqb a b = true -> a = b.
Proof.
  unfold k_eqb. intros H. apply andb_true_iff in H as [H1 H2]. apply k_eq; apply Qc_eqb_sound; assumption.
Qed.
Fixpoint kl_eqb (a b : list K) : bool :=
  match a, b with
  | [], [] => true
  | x :: a', y :: b' => k_eqb x y && kl_eqb a' b'
  | _, _ => false
  end.
Lemma kl_eqb_sound a : forall b, kl_eqb a b = true -> a = b.
Proof.
  induction a as [|x a IH]; intros [|y b] H; cbn in H; try discriminate; auto.
  apply andb_true_iff in H as [H1 H2]. f_equal; [apply k_eqb_sound; exact H1|apply IH; exact H2].
Qed.

(* ------------------------------------------------------------------ which entries are perturbed, and in which order *)
Lemma perturb_entries_skip c blk si iin outps f0 df dxan x k ks s :
  kzero (nth k (v_dat x) k0) && c_keepzero c && is_arr x = true ->
  perturb_entries c blk si iin outps f0 df dxan x (k :: ks) s = perturb_entries c blk si iin outps f0 df dxan x ks s.
Proof. intros H. cbn [perturb_entries]. rewrite H. reflexivity. Qed.

Lemma perturb_entries_step c blk si iin outps f0 df dxan x k ks s :
  kzero (nth k (v_dat x) k0) && c_keepzero c && is_arr x = false ->
  let x0 := nth k (v_dat x) k0 in
  let sf := if c_rel c && negb (Qc_eqb (kabs x0) 0) then kabs x0 else 1 in
  let s2 := n_response blk (set_state si (with_entry x k (kaddr x0 (c_dx c * sf))) s) in
  let s3 := set_state si (with_entry x k x0) s2 in
  let s5 := n_response blk (set_state si (with_entry x k (kaddi x0 (c_dx c * sf))) s3) in
  let s6 := if v_cx x then set_state si (with_entry x k x0) s5 else s3 in
  snd (perturb_entries c blk si iin outps f0 df dxan x (k :: ks) s) =
    collect false x0 c sf iin k outps f0 df dxan s2 ++
    (if v_cx x then collect true x0 c sf iin k outps f0 df dxan s5 else []) ++
    snd (perturb_entries c blk si iin outps f0 df dxan x ks s6) /\
  fst (perturb_entries c blk si iin outps f0 df dxan x (k :: ks) s) =
    fst (perturb_entries c blk si iin outps f0 df dxan x ks s6).
Proof.
  intros H. cbn zeta. cbn [perturb_entries]. rewrite H.
  destruct (v_cx x);
    match goal with |- context [perturb_entries ?a ?b ?c0 ?d ?e ?f ?g ?h ?i ks ?j] =>
      destruct (perturb_entries a b c0 d e f g h i ks j) as [s7 rest] end; cbn [fst snd]; split; reflexivity.
Qed.
