(* Theorems about Model/Concat.v: concatenation / split round trip and the write-back ranges. *)
From Coq Require Import ZArith List Bool Lia.
From Pymoto Require Import Model.Concat.
Import ListNotations.

(* running cumulative lengths *)
Fixpoint cumlens {A} (base : nat) (ls : list (list A)) : list Z :=
  match ls with
  | [] => []
  | l :: r => Z.of_nat (base + length l) :: cumlens (base + length l) r
  end.

Lemma py_slice_middle {A} (pre l post : list A) :
  py_slice (pre ++ l ++ post) (Z.of_nat (length pre)) (Z.of_nat (length pre + length l)) = l.
Proof.
  unfold py_slice, py_idx. rewrite !app_length.
  destruct (Z.ltb_spec (Z.of_nat (length pre)) 0); [lia|].
  destruct (Z.ltb_spec (Z.of_nat (length pre + length l)) 0); [lia|].
  replace (Z.to_nat (Z.min (Z.of_nat (length pre)) (Z.of_nat (length pre + (length l + length post))))) with (length pre) by lia.
  replace (Z.to_nat (Z.min (Z.of_nat (length pre + length l)) (Z.of_nat (length pre + (length l + length post))) -
                     Z.min (Z.of_nat (length pre)) (Z.of_nat (length pre + (length l + length post))))) with (length l) by lia.
  rewrite skipn_app, skipn_all, Nat.sub_diag. cbn [skipn app].
  rewrite firstn_app, firstn_all, Nat.sub_diag. cbn. apply app_nil_r.
Qed.

Section ConcatP.
  Context {K : Type}.
  Implicit Types (vars : list (pstate K)).

  Definition no_none vars : bool := forallb (fun v => negb (is_none v)) vars.

  Lemma concat_loop_spec vars : forall values cr,
    concat_loop vars values cr =
      if no_none vars
      then Some (values ++ concat (map pflat vars), rev cr ++ cumlens (length values) (map pflat vars))
      else None.
  Proof.
    induction vars as [|v r IH]; intros values cr.
    - cbn. rewrite !app_nil_r. reflexivity.
    - cbn [concat_loop no_none forallb]. destruct (is_none v) eqn:E; cbn [negb andb]; [reflexivity|].
      rewrite IH. fold (no_none r). destruct (no_none r); [|reflexivity].
      cbn [map concat cumlens rev]. rewrite !app_length, <- !app_assoc. reflexivity.
  Qed.

  (* _concatenate_to_array: ValueError iff some state is None; otherwise the flattened values in order and
     the cumulative indices 0, len(v0), len(v0)+len(v1), ... *)
  Theorem concatenate_spec vars :
    concatenate_to_array vars =
      if no_none vars then Some (concat (map pflat vars), 0%Z :: cumlens 0 (map pflat vars)) else None.
  Proof. unfold concatenate_to_array. rewrite concat_loop_spec. reflexivity. Qed.

  Lemma split_loop_cumlens (ls : list (list K)) : forall pre post,
    split_loop (pre ++ concat ls ++ post) (Z.of_nat (length pre) :: cumlens (length pre) ls) = ls.
  Proof.
    induction ls as [|l r IH]; intros pre post.
    - reflexivity.
    - cbn [cumlens concat split_loop]. f_equal.
      + rewrite <- app_assoc. apply py_slice_middle.
      + specialize (IH (pre ++ l) post). rewrite app_length in IH.
        rewrite <- IH at 2. f_equal. rewrite <- !app_assoc. reflexivity.
  Qed.

  Lemma last_cumlens (ls : list (list K)) : forall base d,
    last (Z.of_nat base :: cumlens base ls) d = Z.of_nat (base + length (concat ls)).
  Proof.
    induction ls as [|l r IH]; intros base d.
    - cbn. f_equal. lia.
    - cbn [cumlens concat]. rewrite app_length.
      change (last (Z.of_nat base :: Z.of_nat (base + length l) :: cumlens (base + length l) r) d)
        with (last (Z.of_nat (base + length l) :: cumlens (base + length l) r) d).
      rewrite IH. f_equal. lia.
  Qed.

  (* split(concat(vs)) = vs (flattened) *)
  Theorem split_concat vars vals cum :
    concatenate_to_array vars = Some (vals, cum) -> split_from_array vals cum = Some (map pflat vars).
  Proof.
    rewrite concatenate_spec. destruct (no_none vars); [|discriminate]. intros E. injection E as <- <-.
    unfold split_from_array. change 0%Z with (Z.of_nat 0). rewrite last_cumlens. cbn [Nat.add].
    rewrite Z.eqb_refl. f_equal.
    pose proof (split_loop_cumlens (map pflat vars) [] []) as H. cbn [app length] in H.
    rewrite app_nil_r in H. exact H.
  Qed.

  (* the write-back ranges [cum_i, cum_(i+1)) partition [0, n): they start at 0, are consecutive, have the
     lengths of the variables, and end at n *)
  Lemma cumlens_length {A} (ls : list (list A)) base : length (cumlens base ls) = length ls.
  Proof. revert base. induction ls as [|l r IH]; intros base; cbn; [reflexivity | rewrite IH; reflexivity]. Qed.

  Lemma cumlens_step (ls : list (list K)) : forall base i, (i < length ls)%nat ->
    (nth (S i) (Z.of_nat base :: cumlens base ls) 0 - nth i (Z.of_nat base :: cumlens base ls) 0)%Z
      = Z.of_nat (length (nth i ls [])).
  Proof.
    induction ls as [|l r IH]; intros base i Hi; cbn in Hi; [lia|].
    destruct i as [|i].
    - cbn. lia.
    - cbn [cumlens]. change (nth (S (S i)) (Z.of_nat base :: Z.of_nat (base + length l) :: cumlens (base + length l) r) 0%Z)
        with (nth (S i) (Z.of_nat (base + length l) :: cumlens (base + length l) r) 0%Z).
      change (nth (S i) (Z.of_nat base :: Z.of_nat (base + length l) :: cumlens (base + length l) r) 0%Z)
        with (nth i (Z.of_nat (base + length l) :: cumlens (base + length l) r) 0%Z).
      rewrite IH by lia. reflexivity.
  Qed.

  Lemma cumlens_nonneg {A} (ls : list (list A)) base i : (0 <= nth i (Z.of_nat base :: cumlens base ls) 0)%Z.
  Proof.
    revert base i. induction ls as [|l r IH]; intros base i.
    - destruct i as [|[|i]]; cbn; lia.
    - destruct i as [|i]; [cbn; lia|]. cbn [cumlens].
      change (nth (S i) (Z.of_nat base :: Z.of_nat (base + length l) :: cumlens (base + length l) r) 0%Z)
        with (nth i (Z.of_nat (base + length l) :: cumlens (base + length l) r) 0%Z). apply IH.
  Qed.

  Theorem ranges_partition vars vals cum : concatenate_to_array vars = Some (vals, cum) ->
    length cum = S (length vars) /\ nth 0 cum 0%Z = 0%Z /\ last cum 0%Z = Z.of_nat (length vals) /\
    forall i, (i < length vars)%nat ->
      (nth (S i) cum 0 - nth i cum 0)%Z = Z.of_nat (length (pflat (nth i vars PNone))) /\
      (0 <= nth i cum 0 <= nth (S i) cum 0)%Z.
  Proof.
    rewrite concatenate_spec. destruct (no_none vars); [|discriminate]. intros E. injection E as <- <-.
    split; [|split; [|split]].
    - cbn [length]. rewrite cumlens_length, map_length. reflexivity.
    - reflexivity.
    - change (0%Z :: cumlens 0 (map pflat vars)) with (Z.of_nat 0 :: cumlens 0 (map pflat vars)).
      rewrite last_cumlens. reflexivity.
    - intros i Hi.
      pose proof (cumlens_step (map pflat vars) 0 i) as S1. rewrite map_length in S1. specialize (S1 Hi).
      pose proof (cumlens_nonneg (map pflat vars) 0 i) as S2.
      change (Z.of_nat 0) with 0%Z in S1, S2.
      assert (E : nth i (map pflat vars) [] = pflat (nth i vars PNone)).
      { change (@nil K) with (pflat (@PNone K)). apply map_nth. }
      rewrite E in S1. split; [exact S1 | lia].
  Qed.

  (* writing a new flat design back gives every variable its own consecutive piece; flattened and
     concatenated again the pieces are the new design: the right values reach the right signals *)
  Lemma split_loop_pieces (ls : list (list K)) : forall pre (xnew : list K) (pieces : list (list K)),
    map (@length K) pieces = map (@length K) ls ->
    split_loop (pre ++ concat pieces) (Z.of_nat (length pre) :: cumlens (length pre) ls) = pieces.
  Proof.
    intros pre xnew pieces Hl.
    assert (E : cumlens (length pre) ls = cumlens (length pre) pieces).
    { clear xnew. revert pieces Hl. generalize (length pre) as base. induction ls as [|l r IH]; intros base [|p ps] Hl; try discriminate; [reflexivity|].
      cbn in Hl. injection Hl as H1 H2. cbn [cumlens]. rewrite H1. f_equal. apply IH. exact H2. }
    rewrite E. pose proof (split_loop_cumlens pieces pre []) as H. rewrite app_nil_r in H. exact H.
  Qed.

  Lemma write_back_split nv (xnew : list K) cum : length cum = S nv ->
    map pflat (write_back nv xnew cum) = split_loop xnew cum.
  Proof.
    unfold write_back. rewrite map_map. cbn [pflat]. revert cum.
    assert (G : forall nv cum, length cum = S nv ->
              map (fun i => py_slice xnew (nth i cum 0%Z) (nth (S i) cum 0%Z)) (seq 0 nv) = split_loop xnew cum).
    { clear. induction nv as [|nv IH]; intros cum Hl.
      - destruct cum as [|a [|b t]]; cbn in Hl; try lia. reflexivity.
      - destruct cum as [|a [|b t]]; cbn in Hl; try lia.
        change (split_loop xnew (a :: b :: t)) with (py_slice xnew a b :: split_loop xnew (b :: t)).
        cbn [seq map]. f_equal. rewrite <- seq_shift, map_map.
        rewrite <- (IH (b :: t)) by (cbn; lia). apply map_ext. intros i. reflexivity. }
    intros cum Hl. apply G. exact Hl.
  Qed.

  Theorem write_back_correct vars vals cum (xnew : list K) (pieces : list (list K)) :
    concatenate_to_array vars = Some (vals, cum) ->
    xnew = concat pieces -> map (@length K) pieces = map (fun v => length (pflat v)) vars ->
    map pflat (write_back (length vars) xnew cum) = pieces.
  Proof.
    intros E -> Hl. pose proof (ranges_partition vars vals cum E) as [Hlen _].
    rewrite write_back_split by exact Hlen.
    rewrite concatenate_spec in E. destruct (no_none vars); [|discriminate]. injection E as <- <-.
    pose proof (split_loop_pieces (map pflat vars) [] (concat pieces) pieces) as H. cbn [app length] in H.
    apply H. rewrite Hl, map_map. reflexivity.
  Qed.

  (* any flat vector of the right length splits into pieces of the variables' lengths *)
  Lemma pieces_exist (lens : list nat) : forall (x : list K), length x = fold_right Nat.add 0%nat lens ->
    exists pieces, x = concat pieces /\ map (@length K) pieces = lens.
  Proof.
    induction lens as [|n r IH]; intros x Hx; cbn in Hx.
    - exists []. destruct x; [split; reflexivity | discriminate].
    - destruct (IH (skipn n x)) as [ps [E L]]; [rewrite skipn_length; lia|].
      exists (firstn n x :: ps). split.
      + cbn [concat]. rewrite <- E. symmetry. apply firstn_skipn.
      + cbn [map]. rewrite firstn_length, L. f_equal. lia.
  Qed.

  Lemma length_concat (ls : list (list K)) : length (concat ls) = fold_right Nat.add 0%nat (map (@length K) ls).
  Proof. induction ls as [|l r IH]; cbn; [reflexivity | rewrite app_length, IH; reflexivity]. Qed.

  (* the form used by the OC run: a new design of the same length as the concatenated variables *)
  Theorem write_back_roundtrip vars vals cum (xnew : list K) :
    concatenate_to_array vars = Some (vals, cum) -> length xnew = length vals ->
    concat (map pflat (write_back (length vars) xnew cum)) = xnew /\
    map (fun s => length (pflat s)) (write_back (length vars) xnew cum) = map (fun v => length (pflat v)) vars.
  Proof.
    intros E Hl.
    assert (Hv : vals = concat (map pflat vars)).
    { rewrite concatenate_spec in E. destruct (no_none vars); [|discriminate]. injection E as <- _. reflexivity. }
    destruct (pieces_exist (map (fun v => length (pflat v)) vars) xnew) as [ps [Ex Lp]].
    { rewrite Hl, Hv, length_concat, map_map. reflexivity. }
    rewrite (write_back_correct vars vals cum xnew ps E Ex Lp). split; [symmetry; exact Ex|].
    rewrite <- Lp.
    assert (H : map (fun s => length (pflat s)) (write_back (length vars) xnew cum) = map (@length K) (map pflat (write_back (length vars) xnew cum))) by (rewrite map_map; reflexivity).
    rewrite H, (write_back_correct vars vals cum xnew ps E Ex Lp). reflexivity.
  Qed.

  (* _parse_to_list *)
  Theorem parse_to_list1_spec {A} (v : pyarg A) :
    parse_to_list1 v = match v with ArgNone => [] | ArgOne a => [a] | ArgList l => l | ArgTuple l => l end.
  Proof. reflexivity. Qed.
End ConcatP.
