(* Lemmas about Model/Assembly.v : the matrix denoted by the assembled triples. *)
From Coq Require Import ZArith List Lia Ring Bool.
From Pymoto Require Import Base.Num Base.SparseLin Base.FEMat Model.Grid Proofs.GridP Model.Assembly.
Import ListNotations.

(* ------------------------------------------------------------------ list plumbing (no arithmetic) *)
Lemma select_nil_r {A} (k : list bool) : select k (@nil A) = [].
Proof. destruct k; reflexivity. Qed.

Lemma select_combine {A B} (k : list bool) (a : list A) (b : list B) :
  select k (combine a b) = combine (select k a) (select k b).
Proof.
  revert a b; induction k as [|k0 k IH]; intros a b; [reflexivity|].
  destruct a as [|x a]; [cbn; reflexivity|].
  destruct b as [|y b]; [cbn [combine]; rewrite !select_nil_r; destruct (select (k0 :: k) (x :: a)); reflexivity|].
  cbn [combine select]. destruct k0; cbn [combine]; rewrite IH; reflexivity.
Qed.

Lemma select_length_eq {A B} (k : list bool) (a : list A) (b : list B) :
  length a = length b -> length (select k a) = length (select k b).
Proof.
  revert a b; induction k as [|k0 k IH]; intros [|x a] [|y b] E; cbn in E; try discriminate; try reflexivity.
  cbn [select]. destruct k0; cbn [length]; rewrite (IH a b) by lia; reflexivity.
Qed.

Lemma select_map_filter {A V} (f : A -> bool) (a : list A) (v : list V) :
  select (map f a) (combine a v) = filter (fun t => f (fst t)) (combine a v).
Proof.
  revert v; induction a as [|x a IH]; intros [|y v]; cbn [map combine select filter fst]; try reflexivity.
  destruct (f x); rewrite IH; reflexivity.
Qed.

Lemma combine_flat_map {A B C D} (f : A -> list C) (g : B -> list D) (la : list A) (lb : list B) :
  (forall a b, In a la -> In b lb -> length (f a) = length (g b)) ->
  combine (flat_map f la) (flat_map g lb) = flat_map (fun p => combine (f (fst p)) (g (snd p))) (combine la lb).
Proof.
  revert lb; induction la as [|a la IH]; intros [|b lb] Hl; cbn [flat_map combine]; try reflexivity.
  - destruct (f a ++ flat_map f la); reflexivity.
  - rewrite combine_app_eq by (apply Hl; left; reflexivity). cbn [fst snd]. f_equal.
    apply IH. intros; apply Hl; right; assumption.
Qed.

Lemma combine_repeat_l {A B} (v : A) (l : list B) :
  combine (repeat v (length l)) l = map (fun b => (v, b)) l.
Proof. induction l as [|b l IH]; cbn; [reflexivity|]. f_equal. exact IH. Qed.

Lemma combine_map_r {A B C} (f : B -> C) (a : list A) (b : list B) :
  combine a (map f b) = map (fun p => (fst p, f (snd p))) (combine a b).
Proof. revert b; induction a as [|x a IH]; intros [|y b]; cbn; try reflexivity. f_equal. apply IH. Qed.

Lemma combine_map_l {A B C} (f : A -> C) (a : list A) (b : list B) :
  combine (map f a) b = map (fun p => (f (fst p), snd p)) (combine a b).
Proof. revert b; induction a as [|x a IH]; intros [|y b]; cbn; try reflexivity. f_equal. apply IH. Qed.

Lemma combine_seq {A B} (a : list A) (b : list B) da db n : length a = n -> length b = n ->
  combine a b = map (fun k => (nth k a da, nth k b db)) (seq 0 n).
Proof.
  revert b n; induction a as [|x a IH]; intros [|y b] n Ha Hb; cbn in Ha, Hb; subst n; try discriminate; [reflexivity|].
  cbn [length seq map combine nth]. f_equal. rewrite <- seq_shift, map_map. apply IH; [reflexivity|lia].
Qed.

Lemma length_concat_const {A} n (L : list (list A)) :
  Forall (fun r => length r = n) L -> length (concat L) = (length L * n)%nat.
Proof.
  induction 1 as [|r L Hr HL IH]; [reflexivity|]. cbn [concat length]. rewrite app_length, IH, Hr. lia.
Qed.

Lemma combine_flat_map_same {A C D} (f : A -> list C) (g : A -> list D) (l : list A) :
  (forall a, In a l -> length (f a) = length (g a)) ->
  combine (flat_map f l) (flat_map g l) = flat_map (fun a => combine (f a) (g a)) l.
Proof.
  induction l as [|a l IH]; intros Hl; cbn [flat_map]; [reflexivity|].
  rewrite combine_app_eq by (apply Hl; left; reflexivity). f_equal.
  apply IH. intros; apply Hl; right; assumption.
Qed.

Lemma flat_map_ext_In {A B} (f g : A -> list B) (l : list A) :
  (forall a, In a l -> f a = g a) -> flat_map f l = flat_map g l.
Proof.
  induction l as [|a l IH]; intros E; cbn [flat_map]; [reflexivity|].
  rewrite E by (left; reflexivity). f_equal. apply IH. intros; apply E; right; assumption.
Qed.

(* ------------------------------------------------------------------ the triples of one element *)
Section Elem.
  Context {K : Type} `{Num K}.
  Local Open Scope num_scope.

  (* (dc[a], dc[b], K[a][b] * xe) in the order a-major, as lists *)
  Definition elem_ztriples (elmat : list (list K)) (dce : list Z) (xe : K) : list (@ztriple K) :=
    flat_map (fun p => map (fun q => (fst p, fst q, snd q * xe)) (combine dce (snd p))) (combine dce elmat).

  Lemma zip3_row (v : Z) (dce : list Z) (krow : list K) xe : length krow = length dce ->
    zip3 (repeat v (length dce)) dce (map (fun k => k * xe) krow) =
    map (fun q => (v, fst q, snd q * xe)) (combine dce krow).
  Proof.
    intros Hl. unfold zip3. rewrite combine_repeat_l, combine_map_r, combine_map_l, map_map.
    apply map_ext. intros [c k]. reflexivity.
  Qed.

  Lemma zip3_elem_gen (dce rs : list Z) (M : list (list K)) xe :
    length rs = length M -> Forall (fun r => length r = length dce) M ->
    zip3 (flat_map (fun v => repeat v (length dce)) rs) (concat (repeat dce (length rs)))
         (map (fun k => k * xe) (concat M)) =
    flat_map (fun p => map (fun q => (fst p, fst q, snd q * xe)) (combine dce (snd p))) (combine rs M).
  Proof.
    revert M; induction rs as [|v rs IH]; intros [|krow M] Hl HM; cbn in Hl; try discriminate; [reflexivity|].
    inversion HM as [|? ? Hk HM']; subst.
    cbn [flat_map length repeat concat combine fst snd]. rewrite map_app. unfold zip3 in *.
    rewrite combine_app_eq by (rewrite repeat_length; reflexivity).
    rewrite combine_app_eq by (rewrite combine_length, repeat_length, map_length, Hk; lia).
    f_equal.
    - apply zip3_row. exact Hk.
    - apply IH; [lia|exact HM'].
  Qed.

  Lemma zip3_elem m (dce : list Z) (elmat : list (list K)) xe : length dce = m -> mshape m m elmat ->
    zip3 (flat_map (fun v => repeat v m) dce) (concat (repeat dce m)) (map (fun k => k * xe) (concat elmat)) =
    elem_ztriples elmat dce xe.
  Proof.
    intros Hd [Hm HM]. unfold elem_ztriples. subst m.
    rewrite <- (zip3_elem_gen dce dce elmat xe); [reflexivity | lia | exact HM].
  Qed.

  Lemma zip3_all m (dc : list (list Z)) (elmat : list (list K)) (x : list K) :
    Forall (fun row => length row = m) dc -> mshape m m elmat ->
    zip3 (kron_rows m dc) (kron_cols m dc) (scaled_el elmat x) =
    flat_map (fun p => elem_ztriples elmat (fst p) (snd p)) (combine dc x).
  Proof.
    intros Hdc Hsh. unfold zip3, kron_rows, kron_cols, scaled_el.
    assert (Hlen : forall row, In row dc -> length row = m) by (apply Forall_forall; exact Hdc).
    assert (Hflat : length (concat elmat) = (m * m)%nat).
    { destruct Hsh as [Hm HM]. rewrite (length_concat_const m) by exact HM. rewrite Hm. reflexivity. }
    assert (HR : forall row, In row dc -> length (flat_map (fun v => repeat v m) row) = (m * m)%nat).
    { intros row Hr. rewrite flat_map_concat_map, (length_concat_const m).
      - rewrite map_length, (Hlen row Hr). reflexivity.
      - apply Forall_forall. intros r Hin. apply in_map_iff in Hin as (v & <- & _). apply repeat_length. }
    assert (HC : forall row, In row dc -> length (concat (repeat row m)) = (m * m)%nat).
    { intros row Hr. rewrite (length_concat_const m).
      - rewrite repeat_length. reflexivity.
      - apply Forall_forall. intros r Hin. apply repeat_spec in Hin. subst r. apply Hlen; exact Hr. }
    rewrite (combine_flat_map_same (fun row => flat_map (fun v => repeat v m) row) (fun row => concat (repeat row m)) dc)
      by (intros a Ha; rewrite HR, HC by exact Ha; reflexivity).
    rewrite (combine_flat_map _ (fun xe => map (fun k => k * xe) (concat elmat)) dc x).
    2:{ intros a b Ha Hb. rewrite map_length, Hflat, combine_length, HR, HC by exact Ha. lia. }
    apply flat_map_ext_In. intros [row xe] Hin. cbn [fst snd].
    apply (zip3_elem m row elmat xe); [apply Hlen; eapply in_combine_l; exact Hin | exact Hsh].
  Qed.
End Elem.

(* ------------------------------------------------------------------ entries of the denoted matrix *)
Section Entry.
  Context {K : Type} `{Num K}.
  Hypothesis Rth : ring_theory (@nzero K _) none_ nadd nmul nsub nopp (@eq K).
  Add Ring KringA : Rth.
  Local Open Scope num_scope.

  Lemma zentry_nil i j : zentry (@nil (@ztriple K)) i j = nzero.
  Proof. reflexivity. Qed.

  Lemma zentry_cons r c v (T : list (@ztriple K)) i j :
    zentry ((r, c, v) :: T) i j = (if Z.eqb r i && Z.eqb c j then v else nzero) + zentry T i j.
  Proof. unfold zentry. cbn [fold_right]. destruct (Z.eqb r i && Z.eqb c j); [reflexivity | ring]. Qed.

  Lemma zentry_app (T1 T2 : list (@ztriple K)) i j : zentry (T1 ++ T2) i j = zentry T1 i j + zentry T2 i j.
  Proof.
    induction T1 as [|[[r c] v] T1 IH]; cbn [app]; [rewrite zentry_nil; ring|].
    rewrite !zentry_cons, IH. ring.
  Qed.

  Lemma zentry_flat_map {A} (f : A -> list (@ztriple K)) l i j :
    zentry (flat_map f l) i j = nsum (map (fun a => zentry (f a) i j) l).
  Proof.
    induction l as [|a l IH]; cbn [flat_map map]; [reflexivity|].
    rewrite zentry_app, IH. reflexivity.
  Qed.

  Lemma zentry_map {A} (f : A -> @ztriple K) l i j :
    zentry (map f l) i j =
    nsum (map (fun a => if Z.eqb (fst (fst (f a))) i && Z.eqb (snd (fst (f a))) j then snd (f a) else nzero) l).
  Proof.
    induction l as [|a l IH]; cbn [map]; [reflexivity|].
    destruct (f a) as [[r c] v] eqn:E. rewrite zentry_cons, IH. cbn [fst snd]. reflexivity.
  Qed.

  (* scatter(K_e, dc_e)[i][j] = sum_{a<m} sum_{b<m} [dc_e[a] = i][dc_e[b] = j] K_e[a][b] *)
  Definition scat_entry (m : nat) (elmat : list (list K)) (dce : list Z) (i j : Z) : K :=
    nsum (map (fun a => nsum (map (fun b =>
      if Z.eqb (nth a dce 0%Z) i && Z.eqb (nth b dce 0%Z) j then nth b (nth a elmat []) nzero else nzero)
      (seq 0 m))) (seq 0 m)).

  Lemma zentry_elem m elmat dce xe i j : length dce = m -> mshape m m elmat ->
    zentry (elem_ztriples elmat dce xe) i j = xe * scat_entry m elmat dce i j.
  Proof.
    intros Hd [Hm HM]. unfold elem_ztriples, scat_entry.
    rewrite zentry_flat_map.
    rewrite (combine_seq dce elmat 0%Z [] m Hd Hm), map_map. cbn [fst snd].
    rewrite <- nsum_map_scale by exact Rth. apply nsum_map_ext. intros a Ha. apply in_seq in Ha.
    assert (Hrow : length (nth a elmat []) = m).
    { rewrite Forall_forall in HM. apply HM. apply nth_In. lia. }
    rewrite zentry_map. rewrite (combine_seq dce (nth a elmat []) 0%Z nzero m Hd Hrow), map_map. cbn [fst snd].
    rewrite <- nsum_map_scale by exact Rth. apply nsum_map_ext. intros b Hb.
    destruct (Z.eqb (nth a dce 0%Z) i && Z.eqb (nth b dce 0%Z) j); ring.
  Qed.

  (* rows/columns of constrained dofs are removed *)
  Lemma zentry_filter_bc (bc : list Z) (T : list (@ztriple K)) i j :
    zentry (filter (fun t : @ztriple K => negb (isin (fst (fst t)) bc || isin (snd (fst t)) bc)) T) i j =
    if isin i bc || isin j bc then nzero else zentry T i j.
  Proof.
    induction T as [|[[r c] v] T IH]; cbn [filter fst snd].
    - rewrite zentry_nil. destruct (isin i bc || isin j bc); reflexivity.
    - destruct (Z.eqb r i && Z.eqb c j) eqn:E.
      + apply andb_true_iff in E as [Er Ec]. apply Z.eqb_eq in Er, Ec. subst r c.
        destruct (isin i bc || isin j bc) eqn:B; cbn [negb].
        * exact IH.
        * rewrite !zentry_cons, IH, !Z.eqb_refl. reflexivity.
      + destruct (negb (isin r bc || isin c bc)).
        * rewrite !zentry_cons, IH, E. destruct (isin i bc || isin j bc); ring.
        * rewrite zentry_cons, IH, E. destruct (isin i bc || isin j bc); ring.
  Qed.

  (* number of occurrences of i in bc, as a ring element *)
  Definition bc_count (bc : list Z) (i : Z) : K :=
    nsum (map (fun b => if Z.eqb b i then none_ else nzero) bc).

  Lemma zentry_bcdiag (bc : list Z) (d : K) i j :
    zentry (zip3 bc bc (map (fun _ => d * none_) bc)) i j = if Z.eqb i j then d * bc_count bc i else nzero.
  Proof.
    unfold zip3, bc_count. induction bc as [|b bc IH]; cbn [map combine].
    - rewrite zentry_nil. destruct (Z.eqb i j); cbn; ring.
    - rewrite zentry_cons, IH. rewrite nsum_cons.
      destruct (Z.eqb i j) eqn:E.
      + apply Z.eqb_eq in E. subst j. rewrite andb_diag. destruct (Z.eqb b i); ring.
      + replace (Z.eqb b i && Z.eqb b j) with false; [ring|].
        symmetry. apply andb_false_iff. destruct (Z.eqb_spec b i) as [->|]; [right|left; reflexivity].
        rewrite Z.eqb_neq in *. exact E.
  Qed.

  Lemma bc_count_nodup (bc : list Z) i : NoDup bc -> bc_count bc i = if isin i bc then none_ else nzero.
  Proof.
    unfold bc_count, isin. induction 1 as [|b bc Hb Hnd IH]; cbn [map existsb]; [reflexivity|].
    rewrite nsum_cons, IH. rewrite (Z.eqb_sym i b). destruct (Z.eqb_spec b i) as [->|Hne]; cbn [orb].
    - replace (existsb (Z.eqb i) bc) with false; [ring|].
      symmetry. apply not_true_is_false. intros E. apply existsb_exists in E as (y & Hy & Ey).
      apply Z.eqb_eq in Ey. subst y. contradiction.
    - ring.
  Qed.

  (* ---- the reading of the property: entry (i, j) of the assembled matrix ---- *)
  Definition asm_spec (g : grid) (elmat : list (list K)) (bc : option (list Z)) (bcdiagval : K)
             (cst : list (@ztriple K)) (x : list K) (i j : Z) : K :=
    let ndof := asm_ndof g elmat in
    let m := Z.to_nat (elemnodes g * ndof) in
    let S := nsum (map (fun p => snd p * scat_entry m elmat (fst p) i j) (combine (dofconn_all g ndof) x)) in
    (match bc with
     | None => S
     | Some bcl => (if isin i bcl || isin j bcl then nzero else S)
                   + (if Z.eqb i j then bcdiagval * bc_count bcl i else nzero)
     end) + zentry cst i j.

  Theorem asm_entry_formula g elmat bc bcdiagval cst x i j :
    let ndof := asm_ndof g elmat in
    let m := Z.to_nat (elemnodes g * ndof) in
    mshape m m elmat ->
    Forall (fun row => length row = m) (dofconn_all g ndof) ->
    length x = length (dofconn_all g ndof) ->
    zentry (asm_matrix g elmat bc bcdiagval cst x) i j = asm_spec g elmat bc bcdiagval cst x i j.
  Proof.
    intros ndof m Hsh Hdc Hx. unfold asm_matrix, asm_spec. fold ndof. fold m.
    rewrite zentry_app. f_equal.
    assert (Hfree : zentry (zip3 (kron_rows m (dofconn_all g ndof)) (kron_cols m (dofconn_all g ndof)) (scaled_el elmat x)) i j
                    = nsum (map (fun p => snd p * scat_entry m elmat (fst p) i j) (combine (dofconn_all g ndof) x))).
    { rewrite (zip3_all m) by assumption. rewrite zentry_flat_map. apply nsum_map_ext. intros [row xe] Hin.
      cbn [fst snd]. apply zentry_elem; [|exact Hsh].
      rewrite Forall_forall in Hdc. apply Hdc. eapply in_combine_l; exact Hin. }
    unfold asm_ztriples. fold ndof. fold m. destruct bc as [bcl|]; [|exact Hfree].
    set (rows := kron_rows m (dofconn_all g ndof)) in *. set (cols := kron_cols m (dofconn_all g ndof)) in *.
    set (vals := scaled_el elmat x) in *.
    assert (Hrows : length rows = (length (dofconn_all g ndof) * (m * m))%nat).
    { unfold rows, kron_rows. rewrite flat_map_concat_map, (length_concat_const (m * m)).
      - rewrite map_length. reflexivity.
      - apply Forall_forall. intros r Hr. apply in_map_iff in Hr as (row & <- & Hin).
        rewrite Forall_forall in Hdc. rewrite flat_map_concat_map, (length_concat_const m).
        + rewrite map_length, (Hdc row Hin). reflexivity.
        + apply Forall_forall. intros r Hr. apply in_map_iff in Hr as (v & <- & _). apply repeat_length. }
    assert (Hcols : length cols = (length (dofconn_all g ndof) * (m * m))%nat).
    { unfold cols, kron_cols. rewrite flat_map_concat_map, (length_concat_const (m * m)).
      - rewrite map_length. reflexivity.
      - apply Forall_forall. intros r Hr. apply in_map_iff in Hr as (row & <- & Hin).
        rewrite Forall_forall in Hdc. rewrite (length_concat_const m).
        + rewrite repeat_length. reflexivity.
        + apply Forall_forall. intros r Hr. apply repeat_spec in Hr. subst r. apply Hdc; exact Hin. }
    assert (Hvals : length vals = (length (dofconn_all g ndof) * (m * m))%nat).
    { unfold vals, scaled_el. rewrite flat_map_concat_map, (length_concat_const (m * m)).
      - rewrite map_length, Hx. reflexivity.
      - apply Forall_forall. intros r Hr. apply in_map_iff in Hr as (xe & <- & _).
        rewrite map_length. destruct Hsh as [Hm HM]. rewrite (length_concat_const m) by exact HM. rewrite Hm. reflexivity. }
    set (keep := bc_keep bcl rows cols).
    assert (L1 : length (select keep rows) = length (select keep cols)) by (apply select_length_eq; lia).
    assert (L2 : length (combine (select keep rows) (select keep cols)) = length (select keep vals)).
    { rewrite <- select_combine. apply select_length_eq. rewrite combine_length. lia. }
    unfold zip3 at 1.
    rewrite combine_app_eq by exact L1.
    rewrite combine_app_eq by exact L2.
    rewrite zentry_app. f_equal.
    - rewrite <- !select_combine. unfold keep, bc_keep. rewrite select_map_filter.
      rewrite zentry_filter_bc. fold (zip3 rows cols vals). rewrite Hfree. reflexivity.
    - apply zentry_bcdiag.
  Qed.
End Entry.

(* ------------------------------------------------------------------ shape and range of the dof connectivity *)
Open Scope Z_scope.

Lemma dim_wf g : wf g -> dim g = if nelz g =? 0 then 2 else 3.
Proof.
  intros (Hx & Hy & Hz). unfold dim. destruct (nelz g =? 0); [|reflexivity].
  destruct (nely g =? 0) eqn:E; [apply Z.eqb_eq in E; lia | reflexivity].
Qed.

Lemma conn_length g e : wf g -> length (conn g e) = Z.to_nat (elemnodes g).
Proof.
  intros Hwf. unfold conn, elemconn, elemnodes. rewrite map_length, (dim_wf g Hwf).
  destruct (nelz g =? 0); reflexivity.
Qed.

Lemma dofconn_all_length g ndof : length (dofconn_all g ndof) = Z.to_nat (nel g).
Proof. unfold dofconn_all. rewrite map_length. apply zrange_length. Qed.

Lemma dofconn_all_shape g ndof : wf g -> 0 <= ndof ->
  Forall (fun row => length row = Z.to_nat (elemnodes g * ndof)) (dofconn_all g ndof).
Proof.
  intros Hwf Hn. apply Forall_forall. intros row Hin. unfold dofconn_all in Hin.
  apply in_map_iff in Hin as (e & <- & _). unfold dofconn.
  rewrite dofconn_row_length by exact Hn. rewrite conn_length by exact Hwf.
  assert (0 <= elemnodes g) by (unfold elemnodes; apply Z.pow_nonneg; lia). nia.
Qed.

Lemma conn_range g e n : wf g -> 0 <= e < nel g -> In n (conn g e) -> 0 <= n < nnodes g.
Proof.
  intros Hwf He Hin.
  destruct (elem_num_inv g Hwf e He) as (Hi & Hj & Hk & _).
  unfold conn in Hin. rewrite elemconn_corners in Hin by exact Hwf.
  apply in_map_iff in Hin as ([[a b] c] & <- & Hc).
  assert (Hz : nz1 g = if nelz g =? 0 then 1 else nelz g).
  { unfold nz1. destruct (Z.eqb_spec (nelz g) 0) as [->|]; [reflexivity|]. destruct Hwf as (_ & _ & ?). lia. }
  apply (node_range g); destruct (nelz g =? 0) eqn:Ez; unfold corners3, corners2 in Hc; cbn [app In] in Hc;
    try apply Z.eqb_eq in Ez;
    repeat (destruct Hc as [Hc|Hc]; [inversion Hc; subst; lia|]); try contradiction.
Qed.

Lemma dofconn_range g ndof e v : wf g -> 0 <= ndof -> 0 <= e < nel g ->
  In v (dofconn g ndof e) -> 0 <= v < asm_n g ndof.
Proof.
  intros Hwf Hn He Hin. unfold dofconn in Hin. rewrite dofconn_row_flat in Hin.
  apply in_flat_map in Hin as (n & Hn' & Hv). apply in_map_iff in Hv as (d & <- & Hd).
  apply in_zrange in Hd. pose proof (conn_range g e n Hwf He Hn') as Hr. unfold asm_n. nia.
Qed.

Lemma dofconn_all_range g ndof : wf g -> 0 <= ndof ->
  Forall (fun row => Forall (fun v => 0 <= v < asm_n g ndof) row) (dofconn_all g ndof).
Proof.
  intros Hwf Hn. apply Forall_forall. intros row Hin. unfold dofconn_all in Hin.
  apply in_map_iff in Hin as (e & <- & He). apply in_zrange in He.
  apply Forall_forall. intros v Hv. eapply dofconn_range; eauto.
Qed.
Close Scope Z_scope.

(* ------------------------------------------------------------------ link with SparseLin, symmetry, quadratic form *)
Lemma map_flat_map {A B C} (g : B -> C) (f : A -> list B) (l : list A) :
  map g (flat_map f l) = flat_map (fun a => map g (f a)) l.
Proof. induction l as [|a l IH]; cbn [flat_map]; [reflexivity|]. rewrite map_app, IH. reflexivity. Qed.

Lemma nth_map_seq {A} (f : nat -> A) m i d : (i < m)%nat -> nth i (map f (seq 0 m)) d = f i.
Proof.
  intros Hi. rewrite (nth_indep _ d (f 0%nat)) by (rewrite map_length, seq_length; exact Hi).
  rewrite map_nth, seq_nth by exact Hi. reflexivity.
Qed.

Lemma In_select {A} (k : list bool) (l : list A) a : In a (select k l) -> In a l.
Proof.
  revert l; induction k as [|k0 k IH]; intros [|x l] Hin; cbn [select] in Hin; try contradiction.
  destruct k0; [destruct Hin as [->|Hin]; [left; reflexivity|right; apply IH; exact Hin] | right; apply IH; exact Hin].
Qed.

Section Link.
  Context {K : Type} `{Num K}.
  Hypothesis Rth : ring_theory (@nzero K _) none_ nadd nmul nsub nopp (@eq K).
  Add Ring KringL : Rth.
  Local Open Scope num_scope.

  (* entry (i, j) of SparseLin.dense *)
  Definition tentry (T : list (@triple K)) (i j : nat) : K :=
    fold_right (fun (t : @triple K) acc => match t with (d, s, c) =>
                  if Nat.eqb d i && Nat.eqb s j then c + acc else acc end) nzero T.

  Lemma dense_nth (T : list (@triple K)) m n i j : (i < m)%nat -> (j < n)%nat ->
    nth j (nth i (dense T m n) []) nzero = tentry T i j.
  Proof.
    intros Hi Hj. unfold dense.
    rewrite (nth_map_seq (fun i => map (fun j => _) (seq 0 n)) m i [] Hi).
    rewrite (nth_map_seq _ n j nzero Hj). reflexivity.
  Qed.

  Definition zbounded (n : Z) (T : list (@ztriple K)) : Prop :=
    Forall (fun t : @ztriple K => (0 <= fst (fst t) < n)%Z /\ (0 <= snd (fst t) < n)%Z) T.

  Lemma tentry_zentry (T : list (@ztriple K)) n i j : zbounded n T -> (0 <= i)%Z -> (0 <= j)%Z ->
    tentry (to_triples T) (Z.to_nat i) (Z.to_nat j) = zentry T i j.
  Proof.
    intros HT Hi Hj. induction HT as [|[[r c] v] T [Hr Hc] HT IH]; [reflexivity|].
    cbn [fst snd] in Hr, Hc. unfold to_triples; cbn [map]. fold (to_triples T).
    unfold tentry, zentry; cbn [fold_right]. fold (tentry (to_triples T) (Z.to_nat i) (Z.to_nat j)). fold (zentry T i j).
    rewrite IH.
    replace (Nat.eqb (Z.to_nat r) (Z.to_nat i)) with (Z.eqb r i)
      by (destruct (Z.eqb_spec r i) as [->|Hne]; [symmetry; apply Nat.eqb_refl | symmetry; apply Nat.eqb_neq; lia]).
    replace (Nat.eqb (Z.to_nat c) (Z.to_nat j)) with (Z.eqb c j)
      by (destruct (Z.eqb_spec c j) as [->|Hne]; [symmetry; apply Nat.eqb_refl | symmetry; apply Nat.eqb_neq; lia]).
    reflexivity.
  Qed.

  Lemma zbounded_tbounded n (T : list (@ztriple K)) : zbounded n T ->
    tbounded (Z.to_nat n) (Z.to_nat n) (to_triples T).
  Proof.
    intros HT. unfold tbounded, to_triples. apply Forall_forall. intros t Hin.
    apply in_map_iff in Hin as ([[r c] v] & <- & Hin). unfold zbounded in HT. rewrite Forall_forall in HT.
    specialize (HT _ Hin). cbn [fst snd] in HT. lia.
  Qed.

  Lemma zbounded_app n (T1 T2 : list (@ztriple K)) : zbounded n T1 -> zbounded n T2 -> zbounded n (T1 ++ T2).
  Proof. intros; apply Forall_app; split; assumption. Qed.

  (* every index produced by the assembly lies in [0, n) *)
  Lemma asm_zbounded g elmat bc bcdiagval cst x :
    let ndof := asm_ndof g elmat in
    wf g -> (0 <= ndof)%Z ->
    match bc with None => True | Some bcl => Forall (fun b => (0 <= b < asm_n g ndof)%Z) bcl end ->
    zbounded (asm_n g ndof) cst ->
    zbounded (asm_n g ndof) (asm_matrix g elmat bc bcdiagval cst x).
  Proof.
    intros ndof Hwf Hn Hbc Hcst. unfold asm_matrix. apply zbounded_app; [|exact Hcst].
    unfold asm_ztriples. fold ndof. set (m := Z.to_nat (elemnodes g * ndof)).
    pose proof (dofconn_all_range g ndof Hwf Hn) as Hrange.
    assert (Hrows : forall r, In r (kron_rows m (dofconn_all g ndof)) -> (0 <= r < asm_n g ndof)%Z).
    { intros r Hr. unfold kron_rows in Hr. apply in_flat_map in Hr as (row & Hrow & Hr).
      apply in_flat_map in Hr as (v & Hv & Hr). apply repeat_spec in Hr. subst r.
      rewrite Forall_forall in Hrange. specialize (Hrange row Hrow). rewrite Forall_forall in Hrange. apply Hrange; exact Hv. }
    assert (Hcols : forall c, In c (kron_cols m (dofconn_all g ndof)) -> (0 <= c < asm_n g ndof)%Z).
    { intros c Hc. unfold kron_cols in Hc. apply in_flat_map in Hc as (row & Hrow & Hc).
      apply in_concat in Hc as (r' & Hr' & Hc). apply repeat_spec in Hr'. subst r'.
      rewrite Forall_forall in Hrange. specialize (Hrange row Hrow). rewrite Forall_forall in Hrange. apply Hrange; exact Hc. }
    destruct bc as [bcl|].
    - unfold zbounded, zip3. apply Forall_forall. intros [[r c] v] Hin. cbn [fst snd].
      pose proof (in_combine_l _ _ _ _ Hin) as Hrc.
      pose proof (in_combine_l _ _ _ _ Hrc) as Hr. pose proof (in_combine_r _ _ _ _ Hrc) as Hc.
      rewrite Forall_forall in Hbc. split.
      + apply in_app_or in Hr as [Hr|Hr]; [apply Hrows; eapply In_select; exact Hr | apply Hbc; exact Hr].
      + apply in_app_or in Hc as [Hc|Hc]; [apply Hcols; eapply In_select; exact Hc | apply Hbc; exact Hc].
    - unfold zbounded, zip3. apply Forall_forall. intros [[r c] v] Hin. cbn [fst snd].
      pose proof (in_combine_l _ _ _ _ Hin) as Hrc.
      split; [apply Hrows; eapply in_combine_l; exact Hrc | apply Hcols; eapply in_combine_r; exact Hrc].
  Qed.

  (* ---- symmetry ---- *)
  Lemma scat_entry_sym m (elmat : list (list K)) dce i j : msym elmat ->
    scat_entry m elmat dce i j = scat_entry m elmat dce j i.
  Proof.
    intros Hs. unfold scat_entry. rewrite nsum_swap by exact Rth.
    apply nsum_map_ext. intros a _. apply nsum_map_ext. intros b _.
    rewrite andb_comm. rewrite (Hs b a). reflexivity.
  Qed.

  Lemma asm_spec_sym g elmat bc bcdiagval cst x i j :
    msym elmat -> (forall p q, zentry cst p q = zentry cst q p) ->
    asm_spec g elmat bc bcdiagval cst x i j = asm_spec g elmat bc bcdiagval cst x j i.
  Proof.
    intros Hs Hc. unfold asm_spec. rewrite (Hc i j). f_equal.
    assert (HS : forall dc, nsum (map (fun p : list Z * K => snd p * scat_entry (Z.to_nat (elemnodes g * asm_ndof g elmat)) elmat (fst p) i j) dc)
                 = nsum (map (fun p : list Z * K => snd p * scat_entry (Z.to_nat (elemnodes g * asm_ndof g elmat)) elmat (fst p) j i) dc)).
    { intros dc. apply nsum_map_ext. intros p _. rewrite (scat_entry_sym _ elmat (fst p) i j Hs). reflexivity. }
    destruct bc as [bcl|]; [|apply HS].
    rewrite HS, (orb_comm (isin i bcl)). f_equal.
    destruct (Z.eqb_spec i j) as [->|Hne]; [rewrite Z.eqb_refl; reflexivity|].
    replace (Z.eqb j i) with false by (symmetry; apply Z.eqb_neq; lia). reflexivity.
  Qed.

  Lemma to_triples_app (T1 T2 : list (@ztriple K)) : to_triples (T1 ++ T2) = to_triples T1 ++ to_triples T2.
  Proof. unfold to_triples. apply map_app. Qed.

  Lemma to_triples_flat_map {A} (f : A -> list (@ztriple K)) l :
    to_triples (flat_map f l) = flat_map (fun a => to_triples (f a)) l.
  Proof. unfold to_triples. apply map_flat_map. Qed.

  (* ---- bilinear form: w^T A u = sum_e x_e * w_e^T K_e u_e ---- *)
  Lemma tsum_app (T1 T2 : list (@triple K)) w u : tsum (T1 ++ T2) w u = tsum T1 w u + tsum T2 w u.
  Proof.
    induction T1 as [|[[d s] c] T1 IH]; cbn [app]; [rewrite tsum_nil; ring|].
    rewrite !tsum_cons, IH. ring.
  Qed.

  Lemma tsum_flat_map {A} (f : A -> list (@triple K)) l w u :
    tsum (flat_map f l) w u = nsum (map (fun a => tsum (f a) w u) l).
  Proof.
    induction l as [|a l IH]; cbn [flat_map map]; [reflexivity|]. rewrite tsum_app, IH. reflexivity.
  Qed.

  Lemma tsum_elem_row (ra : Z) (dce : list Z) (krow : list K) xe w u :
    tsum (to_triples (map (fun q => (ra, fst q, snd q * xe)) (combine dce krow))) w u =
    vget w (Z.to_nat ra) * xe * dot krow (gatherZ u dce).
  Proof.
    revert krow; induction dce as [|cb dce IH]; intros [|k krow]; cbn [combine map to_triples gatherZ];
      rewrite ?tsum_nil, ?dot_nil_l, ?dot_nil_r; try ring.
    unfold to_triples in *. cbn [fst snd]. rewrite tsum_cons, IH. unfold gatherZ. rewrite dot_cons. ring.
  Qed.

  Lemma tsum_elem (elmat : list (list K)) dce xe w u :
    tsum (to_triples (elem_ztriples elmat dce xe)) w u = xe * bil elmat (gatherZ w dce) (gatherZ u dce).
  Proof.
    unfold elem_ztriples, bil. set (gu := gatherZ u dce).
    assert (Hgen : forall rs M,
      tsum (to_triples (flat_map (fun p => map (fun q => (fst p, fst q, snd q * xe)) (combine dce (snd p))) (combine rs M))) w u
      = xe * dot (gatherZ w rs) (mvmul M gu)).
    { induction rs as [|ra rs IH]; intros [|krow M]; cbn [combine flat_map gatherZ map mvmul];
        rewrite ?dot_nil_l, ?dot_nil_r; try (cbn; ring).
      rewrite to_triples_app, tsum_app. cbn [fst snd].
      fold (mvmul M gu). fold (gatherZ w rs). rewrite dot_cons.
      rewrite tsum_elem_row, IH. fold gu. ring. }
    apply Hgen.
  Qed.

  Theorem asm_bilinear g elmat bcdiagval x w u :
    let ndof := asm_ndof g elmat in
    let m := Z.to_nat (elemnodes g * ndof) in
    let N := Z.to_nat (asm_n g ndof) in
    wf g -> (0 <= ndof)%Z -> mshape m m elmat -> length x = Z.to_nat (nel g) ->
    length w = N -> length u = N ->
    dot w (apply (to_triples (asm_ztriples g elmat None bcdiagval x)) N u) =
    nsum (map (fun p => snd p * bil elmat (gatherZ w (fst p)) (gatherZ u (fst p))) (combine (dofconn_all g ndof) x)).
  Proof.
    intros ndof m N Hwf Hn Hsh Hx Hw Hu.
    pose proof (asm_zbounded g elmat None bcdiagval [] x Hwf Hn I (Forall_nil _)) as Hb.
    unfold asm_matrix in Hb. rewrite app_nil_r in Hb. apply zbounded_tbounded in Hb. fold ndof in Hb. fold N in Hb.
    unfold apply. rewrite (dot_fold_r Rth _ N N) by (auto; apply repeat_length).
    rewrite (dot_vzero_r Rth).
    unfold asm_ztriples. fold ndof. fold m.
    rewrite (zip3_all m) by (auto; apply dofconn_all_shape; assumption).
    rewrite to_triples_flat_map, tsum_flat_map.
    rewrite (nsum_map_ext _ (fun p => snd p * bil elmat (gatherZ w (fst p)) (gatherZ u (fst p)))).
    - ring.
    - intros [row xe] _. cbn [fst snd]. apply tsum_elem.
  Qed.

  (* ---- row sums:  (A u)[i] = sum over triples with destination i ---- *)
  Definition trow (T : list (@triple K)) (x : list K) (i : nat) : K :=
    fold_right (fun (t : @triple K) acc => match t with (d, s, c) =>
                  if Nat.eqb d i then c * vget x s + acc else acc end) nzero T.

  Lemma vget_vaddat (y : list K) d c i : (i < length y)%nat ->
    vget (vaddat y d c) i = if Nat.eqb d i then vget y i + c else vget y i.
  Proof.
    revert d i; induction y as [|h t IH]; intros d i Hi; cbn in Hi; [lia|].
    destruct d as [|d], i as [|i]; cbn [vaddat Nat.eqb]; unfold vget in *; cbn [nth]; try reflexivity.
    apply IH. lia.
  Qed.

  Lemma vget_fold_step (T : list (@triple K)) x y i : (i < length y)%nat ->
    vget (fold_left (step x) T y) i = vget y i + trow T x i.
  Proof.
    revert y; induction T as [|[[d s] c] T IH]; intros y Hi; cbn [fold_left trow fold_right].
    - ring.
    - rewrite IH by (unfold step; rewrite vaddat_length; exact Hi).
      unfold step. rewrite vget_vaddat by exact Hi. fold (trow T x i).
      destruct (Nat.eqb d i); ring.
  Qed.

  Lemma vget_vzero n i : vget (@vzero K _ n) i = nzero.
  Proof. unfold vget, vzero. revert i; induction n as [|n IH]; intros [|i]; cbn; auto. Qed.

  Lemma apply_vget (T : list (@triple K)) m x i : (i < m)%nat -> vget (apply T m x) i = trow T x i.
  Proof.
    intros Hi. unfold apply. rewrite vget_fold_step by (unfold vzero; rewrite repeat_length; exact Hi).
    rewrite vget_vzero. ring.
  Qed.

  Lemma trow_app (T1 T2 : list (@triple K)) x i : trow (T1 ++ T2) x i = trow T1 x i + trow T2 x i.
  Proof.
    induction T1 as [|[[d s] c] T1 IH]; cbn [app]; [cbn; ring|].
    cbn [trow fold_right]. fold (trow (T1 ++ T2) x i). fold (trow T1 x i). rewrite IH.
    destruct (Nat.eqb d i); ring.
  Qed.

  Lemma trow_elem_row (ra : Z) (dce : list Z) (krow : list K) xe u i :
    trow (to_triples (map (fun q => (ra, fst q, snd q * xe)) (combine dce krow))) u i =
    if Nat.eqb (Z.to_nat ra) i then xe * dot krow (gatherZ u dce) else nzero.
  Proof.
    revert krow; induction dce as [|cb dce IH]; intros [|k krow]; cbn [combine map to_triples gatherZ];
      rewrite ?dot_nil_l, ?dot_nil_r; try (cbn; destruct (Nat.eqb (Z.to_nat ra) i); ring).
    unfold to_triples in *. cbn [fst snd trow fold_right].
    fold (trow (map (fun t : @ztriple K => let '(r, c, v) := t in (Z.to_nat r, Z.to_nat c, v))
                    (map (fun q : Z * K => (ra, fst q, snd q * xe)) (combine dce krow))) u i).
    rewrite IH. unfold gatherZ. rewrite dot_cons. destruct (Nat.eqb (Z.to_nat ra) i); ring.
  Qed.

  (* an element whose matrix annihilates the gathered field contributes nothing *)
  Lemma trow_elem_null (elmat : list (list K)) dce xe u i :
    Forall (fun k => k = nzero) (mvmul elmat (gatherZ u dce)) ->
    trow (to_triples (elem_ztriples elmat dce xe)) u i = nzero.
  Proof.
    unfold elem_ztriples. set (gu := gatherZ u dce). intros Hnull.
    assert (Hgen : forall rs M, Forall (fun k => k = nzero) (mvmul M gu) ->
      trow (to_triples (flat_map (fun p => map (fun q => (fst p, fst q, snd q * xe)) (combine dce (snd p))) (combine rs M))) u i = nzero).
    { induction rs as [|ra rs IH]; intros [|krow M] HM; cbn [combine flat_map]; try reflexivity.
      rewrite to_triples_app, trow_app. cbn [fst snd]. rewrite trow_elem_row.
      cbn [mvmul map] in HM. inversion HM as [|? ? H0 HM']; subst. fold gu. rewrite H0.
      rewrite IH by exact HM'. destruct (Nat.eqb (Z.to_nat ra) i); ring. }
    apply Hgen. exact Hnull.
  Qed.

  (* lifting: if K_e annihilates the field gathered on every element, the assembled matrix annihilates the field *)
  Theorem asm_apply_null g elmat bcdiagval x u :
    let ndof := asm_ndof g elmat in
    let m := Z.to_nat (elemnodes g * ndof) in
    let N := Z.to_nat (asm_n g ndof) in
    wf g -> (0 <= ndof)%Z -> mshape m m elmat ->
    (forall row, In row (dofconn_all g ndof) -> Forall (fun k => k = nzero) (mvmul elmat (gatherZ u row))) ->
    apply (to_triples (asm_ztriples g elmat None bcdiagval x)) N u = vzero N.
  Proof.
    intros ndof m N Hwf Hn Hsh Hnull.
    apply (nth_ext _ _ nzero nzero); [rewrite apply_length; unfold vzero; rewrite repeat_length; reflexivity|].
    intros i Hi. rewrite apply_length in Hi.
    change (vget (apply (to_triples (asm_ztriples g elmat None bcdiagval x)) N u) i = vget (vzero N) i).
    rewrite apply_vget by exact Hi. rewrite vget_vzero.
    unfold asm_ztriples. fold ndof. fold m.
    rewrite (zip3_all m) by (auto; apply dofconn_all_shape; assumption).
    generalize (combine (dofconn_all g ndof) x) (fun p => in_combine_l (dofconn_all g ndof) x (fst p) (snd p)).
    intros l Hl. induction l as [|[row xe] l IH]; [reflexivity|].
    cbn [flat_map]. rewrite to_triples_app, trow_app. cbn [fst snd]. rewrite trow_elem_null.
    - rewrite IH; [ring|]. intros p Hp. apply Hl. right. exact Hp.
    - apply Hnull. apply (Hl (row, xe)). left. reflexivity.
  Qed.
End Link.
