(* Lemmas about Model/Assembly.v : the matrix denoted by the assembled triples. *)
From Coq Require Import ZArith List Lia Ring Bool.
From Pymoto Require Import Base.Num Base.SparseLin Base.FEMat Model.Grid Proofs.GridP Model.Assembly.
Import ListNotations.

(* ------------------------------------------------------------------ list plumbing (no arithmetic) *)
Lemma select_nil_r {A} (k : list bool) : select k (@nil A) = [].
Proof. destruct k; reflexivity. Qed.

Lemma select_combine {A B} (k : list bool) (a : list A) (b : list B) :
  select k (combine a b) = combine (select k a) (select k b).
Proof.
  revert a b; induction k as [|k0 k IH]; intros a b; [reflexivity|].
  destruct a as [|x a]; [cbn; reflexivity|].
  destruct b as [|y b]; [cbn [combine]; rewrite !select_nil_r; destruct (select (k0 :: k) (x :: a)); reflexivity|].
  cbn [combine select]. destruct k0; cbn [combine]; rewrite IH; reflexivity.
Qed.

Lemma select_length_eq {A B} (k : list bool) (a : list A) (b : list B) :
  length a = length b -> length (select k a) = length (select k b).
Proof.
  revert a b; induction k as [|k0 k IH]; intros [|x a] [|y b] E; cbn in E; try discriminate; try reflexivity.
  cbn [select]. destruct k0; cbn [length]; rewrite (IH a b) by lia; reflexivity.
Qed.

Lemma select_map_filter {A V} (f : A -> bool) (a : list A) (v : list V) :
  select (map f a) (combine a v) = filter (fun t => f (fst t)) (combine a v).
Proof.
  revert v; induction a as [|x a IH]; intros [|y v]; cbn [map combine select filter fst]; try reflexivity.
  destruct (f x); rewrite IH; reflexivity.
Qed.

Lemma combine_flat_map {A B C D} (f : A -> list C) (g : B -> list D) (la : list A) (lb : list B) :
  (forall a b, In a la -> In b lb -> length (f a) = length (g b)) ->
  combine (flat_map f la) (flat_map g lb) = flat_map (fun p => combine (f (fst p)) (g (snd p))) (combine la lb).
Proof.
  revert lb; induction la as [|a la IH]; intros [|b lb] Hl; cbn [flat_map combine]; try reflexivity.
  - destruct (f a ++ flat_map f la); reflexivity.
  - rewrite combine_app_eq by (apply Hl; left; reflexivity). cbn [fst snd]. f_equal.
    apply IH. intros; apply Hl; right; assumption.
Qed.

Lemma combine_repeat_l {A B} (v : A) (l : list B) :
  combine (repeat v (length l)) l = map (fun b => (v, b)) l.
Proof. induction l as [|b l IH]; cbn; [reflexivity|]. f_equal. exact IH. Qed.

Lemma combine_map_r {A B C} (f : B -> C) (a : list A) (b : list B) :
  combine a (map f b) = map (fun p => (fst p, f (snd p))) (combine a b).
Proof. revert b; induction a as [|x a IH]; intros [|y b]; cbn; try reflexivity. f_equal. apply IH. Qed.

Lemma combine_map_l {A B C} (f : A -> C) (a : list A) (b : list B) :
  combine (map f a) b = map (fun p => (f (fst p), snd p)) (combine a b).
Proof. revert b; induction a as [|x a IH]; intros [|y b]; cbn; try reflexivity. f_equal. apply IH. Qed.

Lemma combine_seq {A B} (a : list A) (b : list B) da db n : length a = n -> length b = n ->
  combine a b = map (fun k => (nth k a da, nth k b db)) (seq 0 n).
Proof.
  revert b n; induction a as [|x a IH]; intros [|y b] n Ha Hb; cbn in Ha, Hb; subst n; try discriminate; [reflexivity|].
  cbn [length seq map combine nth]. f_equal. rewrite <- seq_shift, map_map. apply IH; [reflexivity|lia].
Qed.

Lemma length_concat_const {A} n (L : list (list A)) :
  Forall (fun r => length r = n) L -> length (concat L) = (length L * n)%nat.
Proof.
  induction 1 as [|r L Hr HL IH]; [reflexivity|]. cbn [concat length]. rewrite app_length, IH, Hr. lia.
Qed.

Lemma combine_flat_map_same {A C D} (f : A -> list C) (g : A -> list D) (l : list A) :
  (forall a, In a l -> length (f a) = length (g a)) ->
  combine (flat_map f l) (flat_map g l) = flat_map (fun a => combine (f a) (g a)) l.
Proof.
  induction l as [|a l IH]; intros Hl; cbn [flat_map]; [reflexivity|].
  rewrite combine_app_eq by (apply Hl; left; reflexivity). f_equal.
  apply IH. intros; apply Hl; right; assumption.
Qed.

Lemma flat_map_ext_In {A B} (f g : A -> list B) (l : list A) :
  (forall a, In a l -> f a = g a) -> flat_map f l = flat_map g l.
Proof.
  induction l as [|a l IH]; intros E; cbn [flat_map]; [reflexivity|].
  rewrite E by (left; reflexivity). f_equal. apply IH. intros; apply E; right; assumption.
Qed.

(* ------------------------------------------------------------------ the triples of one element *)
Section Elem.
  Context {K : Type} `{Num K}.
  Local Open Scope num_scope.

  (* (dc[a], dc[b], K[a][b] * xe) in the order a-major, as lists *)
  Definition elem_ztriples (elmat : list (list K)) (dce : list Z) (xe : K) : list (@ztriple K) :=
    flat_map (fun p => map (fun q => (fst p, fst q, snd q * xe)) (combine dce (snd p))) (combine dce elmat).

  Lemma zip3_row (v : Z) (dce : list Z) (krow : list K) xe : length krow = length dce ->
    zip3 (repeat v (length dce)) dce (map (fun k => k * xe) krow) =
    map (fun q => (v, fst q, snd q * xe)) (combine dce krow).
  Proof.
    intros Hl. unfold zip3. rewrite combine_repeat_l, combine_map_r, combine_map_l, map_map.
    apply map_ext. intros [c k]. reflexivity.
  Qed.

  Lemma zip3_elem_gen (dce rs : list Z) (M : list (list K)) xe :
    length rs = length M -> Forall (fun r => length r = length dce) M ->
    zip3 (flat_map (fun v => repeat v (length dce)) rs) (concat (repeat dce (length rs)))
         (map (fun k => k * xe) (concat M)) =
    flat_map (fun p => map (fun q => (fst p, fst q, snd q * xe)) (combine dce (snd p))) (combine rs M).
  Proof.
    revert M; induction rs as [|v rs IH]; intros [|krow M] Hl HM; cbn in Hl; try discriminate; [reflexivity|].
    inversion HM as [|? ? Hk HM']; subst.
    cbn [flat_map length repeat concat combine fst snd]. rewrite map_app. unfold zip3 in *.
    rewrite combine_app_eq by (rewrite repeat_length; reflexivity).
    rewrite combine_app_eq by (rewrite combine_length, repeat_length, map_length, Hk; lia).
    f_equal.
    - apply zip3_row. exact Hk.
    - apply IH; [lia|exact HM'].
  Qed.

  Lemma zip3_elem m (dce : list Z) (elmat : list (list K)) xe : length dce = m -> mshape m m elmat ->
    zip3 (flat_map (fun v => repeat v m) dce) (concat (repeat dce m)) (map (fun k => k * xe) (concat elmat)) =
    elem_ztriples elmat dce xe.
  Proof.
    intros Hd [Hm HM]. unfold elem_ztriples. subst m.
    rewrite <- (zip3_elem_gen dce dce elmat xe); [reflexivity | lia | exact HM].
  Qed.

  Lemma zip3_all m (dc : list (list Z)) (elmat : list (list K)) (x : list K) :
    Forall (fun row => length row = m) dc -> mshape m m elmat ->
    zip3 (kron_rows m dc) (kron_cols m dc) (scaled_el elmat x) =
    flat_map (fun p => elem_ztriples elmat (fst p) (snd p)) (combine dc x).
  Proof.
    intros Hdc Hsh. unfold zip3, kron_rows, kron_cols, scaled_el.
    assert (Hlen : forall row, In row dc -> length row = m) by (apply Forall_forall; exact Hdc).
    assert (Hflat : length (concat elmat) = (m * m)%nat).
    { destruct Hsh as [Hm HM]. rewrite (length_concat_const m) by exact HM. rewrite Hm. reflexivity. }
    assert (HR : forall row, In row dc -> length (flat_map (fun v => repeat v m) row) = (m * m)%nat).
    { intros row Hr. rewrite flat_map_concat_map, (length_concat_const m).
      - rewrite map_length, (Hlen row Hr). reflexivity.
      - apply Forall_forall. intros r Hin. apply in_map_iff in Hin as (v & <- & _). apply repeat_length. }
    assert (HC : forall row, In row dc -> length (concat (repeat row m)) = (m * m)%nat).
    { intros row Hr. rewrite (length_concat_const m).
      - rewrite repeat_length. reflexivity.
      - apply Forall_forall. intros r Hin. apply repeat_spec in Hin. subst r. apply Hlen; exact Hr. }
    rewrite (combine_flat_map_same (fun row => flat_map (fun v => repeat v m) row) (fun row => concat (repeat row m)) dc)
      by (intros a Ha; rewrite HR, HC by exact Ha; reflexivity).
    rewrite (combine_flat_map _ (fun xe => map (fun k => k * xe) (concat elmat)) dc x).
    2:{ intros a b Ha Hb. rewrite map_length, Hflat, combine_length, HR, HC by exact Ha. lia. }
    apply flat_map_ext_In. intros [row xe] Hin. cbn [fst snd].
    apply (zip3_elem m row elmat xe); [apply Hlen; eapply in_combine_l; exact Hin | exact Hsh].
  Qed.
End Elem.

(* ------------------------------------------------------------------ entries of the denoted matrix *)
Section Entry.
  Context {K : Type} `{Num K}.
  Hypothesis Rth : ring_theory (@nzero K _) none_ nadd nmul nsub nopp (@eq K).
  Add Ring KringA : Rth.
  Local Open Scope num_scope.

  Lemma zentry_nil i j : zentry (@nil (@ztriple K)) i j = nzero.
  Proof. reflexivity. Qed.

  Lemma zentry_cons r c v (T : list (@ztriple K)) i j :
    zentry ((r, c, v) :: T) i j = (if Z.eqb r i && Z.eqb c j then v else nzero) + zentry T i j.
  Proof. unfold zentry. cbn [fold_right]. destruct (Z.eqb r i && Z.eqb c j); [reflexivity | ring]. Qed.

  Lemma zentry_app (T1 T2 : list (@ztriple K)) i j : zentry (T1 ++ T2) i j = zentry T1 i j + zentry T2 i j.
  Proof.
    induction T1 as [|[[r c] v] T1 IH]; cbn [app]; [rewrite zentry_nil; ring|].
    rewrite !zentry_cons, IH. ring.
  Qed.

  Lemma zentry_flat_map {A} (f : A -> list (@ztriple K)) l i j :
    zentry (flat_map f l) i j = nsum (map (fun a => zentry (f a) i j) l).
  Proof.
    induction l as [|a l IH]; cbn [flat_map map]; [reflexivity|].
    rewrite zentry_app, IH. reflexivity.
  Qed.

  Lemma zentry_map {A} (f : A -> @ztriple K) l i j :
    zentry (map f l) i j =
    nsum (map (fun a => if Z.eqb (fst (fst (f a))) i && Z.eqb (snd (fst (f a))) j then snd (f a) else nzero) l).
  Proof.
    induction l as [|a l IH]; cbn [map]; [reflexivity|].
    destruct (f a) as [[r c] v] eqn:E. rewrite zentry_cons, IH. cbn [fst snd]. reflexivity.
  Qed.

  (* scatter(K_e, dc_e)[i][j] = sum_{a<m} sum_{b<m} [dc_e[a] = i][dc_e[b] = j] K_e[a][b] *)
  Definition scat_entry (m : nat) (elmat : list (list K)) (dce : list Z) (i j : Z) : K :=
    nsum (map (fun a => nsum (map (fun b =>
      if Z.eqb (nth a dce 0%Z) i && Z.eqb (nth b dce 0%Z) j then nth b (nth a elmat []) nzero else nzero)
      (seq 0 m))) (seq 0 m)).

  Lemma zentry_elem m elmat dce xe i j : length dce = m -> mshape m m elmat ->
    zentry (elem_ztriples elmat dce xe) i j = xe * scat_entry m elmat dce i j.
  Proof.
    intros Hd [Hm HM]. unfold elem_ztriples, scat_entry.
    rewrite zentry_flat_map.
    rewrite (combine_seq dce elmat 0%Z [] m Hd Hm), map_map. cbn [fst snd].
    rewrite <- nsum_map_scale by exact Rth. apply nsum_map_ext. intros a Ha. apply in_seq in Ha.
    assert (Hrow : length (nth a elmat []) = m).
    { rewrite Forall_forall in HM. apply HM. apply nth_In. lia. }
    rewrite zentry_map. rewrite (combine_seq dce (nth a elmat []) 0%Z nzero m Hd Hrow), map_map. cbn [fst snd].
    rewrite <- nsum_map_scale by exact Rth. apply nsum_map_ext. intros b Hb.
    destruct (Z.eqb (nth a dce 0%Z) i && Z.eqb (nth b dce 0%Z) j); ring.
  Qed.

  (* rows/columns of constrained dofs are removed *)
  Lemma zentry_filter_bc (bc : list Z) (T : list (@ztriple K)) i j :
    zentry (filter (fun t : @ztriple K => negb (isin (fst (fst t)) bc || isin (snd (fst t)) bc)) T) i j =
    if isin i bc || isin j bc then nzero else zentry T i j.
  Proof.
    induction T as [|[[r c] v] T IH]; cbn [filter fst snd].
    - rewrite zentry_nil. destruct (isin i bc || isin j bc); reflexivity.
    - destruct (Z.eqb r i && Z.eqb c j) eqn:E.
      + apply andb_true_iff in E as [Er Ec]. apply Z.eqb_eq in Er, Ec. subst r c.
        destruct (isin i bc || isin j bc) eqn:B; cbn [negb].
        * exact IH.
        * rewrite !zentry_cons, IH, !Z.eqb_refl. reflexivity.
      + destruct (negb (isin r bc || isin c bc)).
        * rewrite !zentry_cons, IH, E. destruct (isin i bc || isin j bc); ring.
        * rewrite zentry_cons, IH, E. destruct (isin i bc || isin j bc); ring.
  Qed.

  (* number of occurrences of i in bc, as a ring element *)
  Definition bc_count (bc : list Z) (i : Z) : K :=
    nsum (map (fun b => if Z.eqb b i then none_ else nzero) bc).

  Lemma zentry_bcdiag (bc : list Z) (d : K) i j :
    zentry (zip3 bc bc (map (fun _ => d * none_) bc)) i j = if Z.eqb i j then d * bc_count bc i else nzero.
  Proof.
    unfold zip3, bc_count. induction bc as [|b bc IH]; cbn [map combine].
    - rewrite zentry_nil. destruct (Z.eqb i j); cbn; ring.
    - rewrite zentry_cons, IH. rewrite nsum_cons.
      destruct (Z.eqb i j) eqn:E.
      + apply Z.eqb_eq in E. subst j. rewrite andb_diag. destruct (Z.eqb b i); ring.
      + replace (Z.eqb b i && Z.eqb b j) with false; [ring|].
        symmetry. apply andb_false_iff. destruct (Z.eqb_spec b i) as [->|]; [right|left; reflexivity].
        rewrite Z.eqb_neq in *. exact E.
  Qed.

  Lemma bc_count_nodup (bc : list Z) i : NoDup bc -> bc_count bc i = if isin i bc then none_ else nzero.
  Proof.
    unfold bc_count, isin. induction 1 as [|b bc Hb Hnd IH]; cbn [map existsb]; [reflexivity|].
    rewrite nsum_cons, IH. rewrite (Z.eqb_sym i b). destruct (Z.eqb_spec b i) as [->|Hne]; cbn [orb].
    - replace (existsb (Z.eqb i) bc) with false; [ring|].
      symmetry. apply not_true_is_false. intros E. apply existsb_exists in E as (y & Hy & Ey).
      apply Z.eqb_eq in Ey. subst y. contradiction.
    - ring.
  Qed.

  (* ---- the reading of the property: entry (i, j) of the assembled matrix ---- *)
  Definition asm_spec (g : grid) (elmat : list (list K)) (bc : option (list Z)) (bcdiagval : K)
             (cst : list (@ztriple K)) (x : list K) (i j : Z) : K :=
    let ndof := asm_ndof g elmat in
    let m := Z.to_nat (elemnodes g * ndof) in
    let S := nsum (map (fun p => snd p * scat_entry m elmat (fst p) i j) (combine (dofconn_all g ndof) x)) in
    (match bc with
     | None => S
     | Some bcl => (if isin i bcl || isin j bcl then nzero else S)
                   + (if Z.eqb i j then bcdiagval * bc_count bcl i else nzero)
     end) + zentry cst i j.

  Theorem asm_entry_formula g elmat bc bcdiagval cst x i j :
    let ndof := asm_ndof g elmat in
    let m := Z.to_nat (elemnodes g * ndof) in
    mshape m m elmat ->
    Forall (fun row => length row = m) (dofconn_all g ndof) ->
    length x = length (dofconn_all g ndof) ->
    zentry (asm_matrix g elmat bc bcdiagval cst x) i j = asm_spec g elmat bc bcdiagval cst x i j.
  Proof.
    intros ndof m Hsh Hdc Hx. unfold asm_matrix, asm_spec. fold ndof. fold m.
    rewrite zentry_app. f_equal.
    assert (Hfree : zentry (zip3 (kron_rows m (dofconn_all g ndof)) (kron_cols m (dofconn_all g ndof)) (scaled_el elmat x)) i j
                    = nsum (map (fun p => snd p * scat_entry m elmat (fst p) i j) (combine (dofconn_all g ndof) x))).
    { rewrite (zip3_all m) by assumption. rewrite zentry_flat_map. apply nsum_map_ext. intros [row xe] Hin.
      cbn [fst snd]. apply zentry_elem; [|exact Hsh].
      rewrite Forall_forall in Hdc. apply Hdc. eapply in_combine_l; exact Hin. }
    unfold asm_ztriples. fold ndof. fold m. destruct bc as [bcl|]; [|exact Hfree].
    set (rows := kron_rows m (dofconn_all g ndof)) in *. set (cols := kron_cols m (dofconn_all g ndof)) in *.
    set (vals := scaled_el elmat x) in *.
    assert (Hrows : length rows = (length (dofconn_all g ndof) * (m * m))%nat).
    { unfold rows, kron_rows. rewrite flat_map_concat_map, (length_concat_const (m * m)).
      - rewrite map_length. reflexivity.
      - apply Forall_forall. intros r Hr. apply in_map_iff in Hr as (row & <- & Hin).
        rewrite Forall_forall in Hdc. rewrite flat_map_concat_map, (length_concat_const m).
        + rewrite map_length, (Hdc row Hin). reflexivity.
        + apply Forall_forall. intros r Hr. apply in_map_iff in Hr as (v & <- & _). apply repeat_length. }
    assert (Hcols : length cols = (length (dofconn_all g ndof) * (m * m))%nat).
    { unfold cols, kron_cols. rewrite flat_map_concat_map, (length_concat_const (m * m)).
      - rewrite map_length. reflexivity.
      - apply Forall_forall. intros r Hr. apply in_map_iff in Hr as (row & <- & Hin).
        rewrite Forall_forall in Hdc. rewrite (length_concat_const m).
        + rewrite repeat_length. reflexivity.
        + apply Forall_forall. intros r Hr. apply repeat_spec in Hr. subst r. apply Hdc; exact Hin. }
    assert (Hvals : length vals = (length (dofconn_all g ndof) * (m * m))%nat).
    { unfold vals, scaled_el. rewrite flat_map_concat_map, (length_concat_const (m * m)).
      - rewrite map_length, Hx. reflexivity.
      - apply Forall_forall. intros r Hr. apply in_map_iff in Hr as (xe & <- & _).
        rewrite map_length. destruct Hsh as [Hm HM]. rewrite (length_concat_const m) by exact HM. rewrite Hm. reflexivity. }
    set (keep := bc_keep bcl rows cols).
    assert (L1 : length (select keep rows) = length (select keep cols)) by (apply select_length_eq; lia).
    assert (L2 : length (combine (select keep rows) (select keep cols)) = length (select keep vals)).
    { rewrite <- select_combine. apply select_length_eq. rewrite combine_length. lia. }
    unfold zip3 at 1.
    rewrite combine_app_eq by exact L1.
    rewrite combine_app_eq by exact L2.
    rewrite zentry_app. f_equal.
    - rewrite <- !select_combine. unfold keep, bc_keep. rewrite select_map_filter.
      rewrite zentry_filter_bc. fold (zip3 rows cols vals). rewrite Hfree. reflexivity.
    - apply zentry_bcdiag.
  Qed.
End Entry.

(* ------------------------------------------------------------------ shape and range of the dof connectivity *)
Open Scope Z_scope.

Lemma dim_wf g : wf g -> dim g = if nelz g =? 0 then 2 else 3.
Proof.
  intros (Hx & Hy & Hz). unfold dim. destruct (nelz g =? 0); [|reflexivity].
  destruct (nely g =? 0) eqn:E; [apply Z.eqb_eq in E; lia | reflexivity].
Qed.

Lemma conn_length g e : wf g -> length (conn g e) = Z.to_nat (elemnodes g).
Proof.
  intros Hwf. unfold conn, elemconn, elemnodes. rewrite map_length, (dim_wf g Hwf).
  destruct (nelz g =? 0); reflexivity.
Qed.

Lemma dofconn_all_length g ndof : length (dofconn_all g ndof) = Z.to_nat (nel g).
Proof. unfold dofconn_all. rewrite map_length. apply zrange_length. Qed.

Lemma dofconn_all_shape g ndof : wf g -> 0 <= ndof ->
  Forall (fun row => length row = Z.to_nat (elemnodes g * ndof)) (dofconn_all g ndof).
Proof.
  intros Hwf Hn. apply Forall_forall. intros row Hin. unfold dofconn_all in Hin.
  apply in_map_iff in Hin as (e & <- & _). unfold dofconn.
  rewrite dofconn_row_length by exact Hn. rewrite conn_length by exact Hwf.
  assert (0 <= elemnodes g) by (unfold elemnodes; apply Z.pow_nonneg; lia). nia.
Qed.

Lemma conn_range g e n : wf g -> 0 <= e < nel g -> In n (conn g e) -> 0 <= n < nnodes g.
Proof.
  intros Hwf He Hin.
  destruct (elem_num_inv g Hwf e He) as (Hi & Hj & Hk & _).
  unfold conn in Hin. rewrite elemconn_corners in Hin by exact Hwf.
  apply in_map_iff in Hin as ([[a b] c] & <- & Hc).
  assert (Hz : nz1 g = if nelz g =? 0 then 1 else nelz g).
  { unfold nz1. destruct (Z.eqb_spec (nelz g) 0) as [->|]; [reflexivity|]. destruct Hwf as (_ & _ & ?). lia. }
  apply (node_range g); destruct (nelz g =? 0) eqn:Ez; unfold corners3, corners2 in Hc; cbn [app In] in Hc;
    try apply Z.eqb_eq in Ez;
    repeat (destruct Hc as [Hc|Hc]; [inversion Hc; subst; lia|]); try contradiction.
Qed.

Lemma dofconn_range g ndof e v : wf g -> 0 <= ndof -> 0 <= e < nel g ->
  In v (dofconn g ndof e) -> 0 <= v < asm_n g ndof.
Proof.
  intros Hwf Hn He Hin. unfold dofconn in Hin. rewrite dofconn_row_flat in Hin.
  apply in_flat_map in Hin as (n & Hn' & Hv). apply in_map_iff in Hv as (d & <- & Hd).
  apply in_zrange in Hd. pose proof (conn_range g e n Hwf He Hn') as Hr. unfold asm_n. nia.
Qed.

Lemma dofconn_all_range g ndof : wf g -> 0 <= ndof ->
  Forall (fun row => Forall (fun v => 0 <= v < asm_n g ndof) row) (dofconn_all g ndof).
Proof.
  intros Hwf Hn. apply Forall_forall. intros row Hin. unfold dofconn_all in Hin.
  apply in_map_iff in Hin as (e & <- & He). apply in_zrange in He.
  apply Forall_forall. intros v Hv. eapply dofconn_range; eauto.
Qed.
Close Scope Z_scope.

(* ------------------------------------------------------------------ link with SparseLin, symmetry, quadratic form *)
Lemma map_flat_map {A B C} (g : B -> C) (f : A -> list B) (l : list A) :
  map g (flat_map f l) = flat_map (fun a => map g (f a)) l.
Proof. induction l as [|a l IH]; cbn [flat_map]; [reflexivity|]. rewrite map_app, IH. reflexivity. Qed.

Lemma nth_map_seq {A} (f : nat -> A) m i d : (i < m)%nat -> nth i (map f (seq 0 m)) d = f i.
Proof.
  intros Hi. rewrite (nth_indep _ d (f 0%nat)) by (rewrite map_length, seq_length; exact Hi).
  rewrite map_nth, seq_nth by exact Hi. reflexivity.
Qed.

Lemma In_select {A} (k : list bool) (l : list A) a : In a (select k l) -> In a l.
Proof.
  revert l; induction k as [|k0 k IH]; intros [|x l] Hin; cbn [select] in Hin; try contradiction.
  destruct k0; [destruct Hin as [->|Hin]; [left; reflexivity|right; apply IH; exact Hin] | right; apply IH; exact Hin].
Qed.

Section Link.
  Context {K : Type} `{Num K}.
  Hypothesis Rth : ring_theory (@nzero K _) none_ nadd nmul nsub nopp (@eq K).
  Add Ring KringL : Rth.
  Local Open Scope num_scope.

  (* entry (i, j) of SparseLin.dense *)
  Definition tentry (T : list (@triple K)) (i j : nat) : K :=
    fold_right (fun (t : @triple K) acc => match t with (d, s, c) =>
                  if Nat.eqb d i && Nat.eqb s j then c + acc else acc end) nzero T.

  Lemma dense_nth (T : list (@triple K)) m n i j : (i < m)%nat -> (j < n)%nat ->
    nth j (nth i (dense T m n) []) nzero = tentry T i j.
  Proof.
    intros Hi Hj. unfold dense.
    rewrite (nth_map_seq (fun i => map (fun j => _) (seq 0 n)) m i [] Hi).
    rewrite (nth_map_seq _ n j nzero Hj). reflexivity.
  Qed.

  Definition zbounded (n : Z) (T : list (@ztriple K)) : Prop :=
    Forall (fun t : @ztriple K => (0 <= fst (fst t) < n)%Z /\ (0 <= snd (fst t) < n)%Z) T.

  Lemma tentry_zentry (T : list (@ztriple K)) n i j : zbounded n T -> (0 <= i)%Z -> (0 <= j)%Z ->
    tentry (to_triples T) (Z.to_nat i) (Z.to_nat j) = zentry T i j.
  Proof.
    intros HT Hi Hj. induction HT as [|[[r c] v] T [Hr Hc] HT IH]; [reflexivity|].
    cbn [fst snd] in Hr, Hc. unfold to_triples; cbn [map]. fold (to_triples T).
    unfold tentry, zentry; cbn [fold_right]. fold (tentry (to_triples T) (Z.to_nat i) (Z.to_nat j)). fold (zentry T i j).
    rewrite IH.
    replace (Nat.eqb (Z.to_nat r) (Z.to_nat i)) with (Z.eqb r i)
      by (destruct (Z.eqb_spec r i) as [->|Hne]; [symmetry; apply Nat.eqb_refl | symmetry; apply Nat.eqb_neq; lia]).
    replace (Nat.eqb (Z.to_nat c) (Z.to_nat j)) with (Z.eqb c j)
      by (destruct (Z.eqb_spec c j) as [->|Hne]; [symmetry; apply Nat.eqb_refl | symmetry; apply Nat.eqb_neq; lia]).
    reflexivity.
  Qed.

  Lemma zbounded_tbounded n (T : list (@ztriple K)) : zbounded n T ->
    tbounded (Z.to_nat n) (Z.to_nat n) (to_triples T).
  Proof.
    intros HT. unfold tbounded, to_triples. apply Forall_forall. intros t Hin.
    apply in_map_iff in Hin as ([[r c] v] & <- & Hin). unfold zbounded in HT. rewrite Forall_forall in HT.
    specialize (HT _ Hin). cbn [fst snd] in HT. lia.
  Qed.

  Lemma zbounded_app n (T1 T2 : list (@ztriple K)) : zbounded n T1 -> zbounded n T2 -> zbounded n (T1 ++ T2).
  Proof. intros; apply Forall_app; split; assumption. Qed.

  (* every index produced by the assembly lies in [0, n) *)
  Lemma asm_zbounded g elmat bc bcdiagval cst x :
    let ndof := asm_ndof g elmat in
    wf g -> (0 <= ndof)%Z ->
    match bc with None => True | Some bcl => Forall (fun b => (0 <= b < asm_n g ndof)%Z) bcl end ->
    zbounded (asm_n g ndof) cst ->
    zbounded (asm_n g ndof) (asm_matrix g elmat bc bcdiagval cst x).
  Proof.
    intros ndof Hwf Hn Hbc Hcst. unfold asm_matrix. apply zbounded_app; [|exact Hcst].
    unfold asm_ztriples. fold ndof. set (m := Z.to_nat (elemnodes g * ndof)).
    pose proof (dofconn_all_range g ndof Hwf Hn) as Hrange.
    assert (Hrows : forall r, In r (kron_rows m (dofconn_all g ndof)) -> (0 <= r < asm_n g ndof)%Z).
    { intros r Hr. unfold kron_rows in Hr. apply in_flat_map in Hr as (row & Hrow & Hr).
      apply in_flat_map in Hr as (v & Hv & Hr). apply repeat_spec in Hr. subst r.
      rewrite Forall_forall in Hrange. specialize (Hrange row Hrow). rewrite Forall_forall in Hrange. apply Hrange; exact Hv. }
    assert (Hcols : forall c, In c (kron_cols m (dofconn_all g ndof)) -> (0 <= c < asm_n g ndof)%Z).
    { intros c Hc. unfold kron_cols in Hc. apply in_flat_map in Hc as (row & Hrow & Hc).
      apply in_concat in Hc as (r' & Hr' & Hc). apply repeat_spec in Hr'. subst r'.
      rewrite Forall_forall in Hrange. specialize (Hrange row Hrow). rewrite Forall_forall in Hrange. apply Hrange; exact Hc. }
    destruct bc as [bcl|].
    - unfold zbounded, zip3. apply Forall_forall. intros [[r c] v] Hin. cbn [fst snd].
      pose proof (in_combine_l _ _ _ _ Hin) as Hrc.
      pose proof (in_combine_l _ _ _ _ Hrc) as Hr. pose proof (in_combine_r _ _ _ _ Hrc) as Hc.
      rewrite Forall_forall in Hbc. split.
      + apply in_app_or in Hr as [Hr|Hr]; [apply Hrows; eapply In_select; exact Hr | apply Hbc; exact Hr].
      + apply in_app_or in Hc as [Hc|Hc]; [apply Hcols; eapply In_select; exact Hc | apply Hbc; exact Hc].
    - unfold zbounded, zip3. apply Forall_forall. intros [[r c] v] Hin. cbn [fst snd].
      pose proof (in_combine_l _ _ _ _ Hin) as Hrc.
      split; [apply Hrows; eapply in_combine_l; exact Hrc | apply Hcols; eapply in_combine_r; exact Hrc].
  Qed.

  (* ---- symmetry ---- *)
  Lemma scat_entry_sym m (elmat : list (list K)) dce i j : msym elmat ->
    scat_entry m elmat dce i j = scat_entry m elmat dce j i.
  Proof.
    intros Hs. unfold scat_entry. rewrite nsum_swap by exact Rth.
    apply nsum_map_ext. intros a _. apply nsum_map_ext. intros b _.
    rewrite andb_comm. rewrite (Hs b a). reflexivity.
  Qed.

  Lemma asm_spec_sym g elmat bc bcdiagval cst x i j :
    msym elmat -> (forall p q, zentry cst p q = zentry cst q p) ->
    asm_spec g elmat bc bcdiagval cst x i j = asm_spec g elmat bc bcdiagval cst x j i.
  Proof.
    intros Hs Hc. unfold asm_spec. rewrite (Hc i j). f_equal.
    assert (HS : forall dc, nsum (map (fun p : list Z * K => snd p * scat_entry (Z.to_nat (elemnodes g * asm_ndof g elmat)) elmat (fst p) i j) dc)
                 = nsum (map (fun p : list Z * K => snd p * scat_entry (Z.to_nat (elemnodes g * asm_ndof g elmat)) elmat (fst p) j i) dc)).
    { intros dc. apply nsum_map_ext. intros p _. rewrite (scat_entry_sym _ elmat (fst p) i j Hs). reflexivity. }
    destruct bc as [bcl|]; [|apply HS].
    rewrite HS, (orb_comm (isin i bcl)). f_equal.
    destruct (Z.eqb_spec i j) as [->|Hne]; [rewrite Z.eqb_refl; reflexivity|].
    replace (Z.eqb j i) with false by (symmetry; apply Z.eqb_neq; lia). reflexivity.
  Qed.

  Lemma to_triples_app (T1 T2 : list (@ztriple K)) : to_triples (T1 ++ T2) = to_triples T1 ++ to_triples T2.
  Proof. unfold to_triples. apply map_app. Qed.

  Lemma to_triples_flat_map {A} (f : A -> list (@ztriple K)) l :
    to_triples (flat_map f l) = flat_map (fun a => to_triples (f a)) l.
  Proof. unfold to_triples. apply map_flat_map. Qed.

  (* ---- bilinear form: w^T A u = sum_e x_e * w_e^T K_e u_e ---- *)
  Lemma tsum_app (T1 T2 : list (@triple K)) w u : tsum (T1 ++ T2) w u = tsum T1 w u + tsum T2 w u.
  Proof.
    induction T1 as [|[[d s] c] T1 IH]; cbn [app]; [rewrite tsum_nil; ring|].
    rewrite !tsum_cons, IH. ring.
  Qed.

  Lemma tsum_flat_map {A} (f : A -> list (@triple K)) l w u :
    tsum (flat_map f l) w u = nsum (map (fun a => tsum (f a) w u) l).
  Proof.
    induction l as [|a l IH]; cbn [flat_map map]; [reflexivity|]. rewrite tsum_app, IH. reflexivity.
  Qed.

  Lemma tsum_elem_row (ra : Z) (dce : list Z) (krow : list K) xe w u :
    tsum (to_triples (map (fun q => (ra, fst q, snd q * xe)) (combine dce krow))) w u =
    vget w (Z.to_nat ra) * xe * dot krow (gatherZ u dce).
  Proof.
    revert krow; induction dce as [|cb dce IH]; intros [|k krow]; cbn [combine map to_triples gatherZ];
      rewrite ?tsum_nil, ?dot_nil_l, ?dot_nil_r; try ring.
    unfold to_triples in *. cbn [fst snd]. rewrite tsum_cons, IH. unfold gatherZ. rewrite dot_cons. ring.
  Qed.

  Lemma tsum_elem (elmat : list (list K)) dce xe w u :
    tsum (to_triples (elem_ztriples elmat dce xe)) w u = xe * bil elmat (gatherZ w dce) (gatherZ u dce).
  Proof.
    unfold elem_ztriples, bil. set (gu := gatherZ u dce).
    assert (Hgen : forall rs M,
      tsum (to_triples (flat_map (fun p => map (fun q => (fst p, fst q, snd q * xe)) (combine dce (snd p))) (combine rs M))) w u
      = xe * dot (gatherZ w rs) (mvmul M gu)).
    { induction rs as [|ra rs IH]; intros [|krow M]; cbn [combine flat_map gatherZ map mvmul];
        rewrite ?dot_nil_l, ?dot_nil_r; try (cbn; ring).
      rewrite to_triples_app, tsum_app. cbn [fst snd].
      fold (mvmul M gu). fold (gatherZ w rs). rewrite dot_cons.
      rewrite tsum_elem_row, IH. fold gu. ring. }
    apply Hgen.
  Qed.

  Theorem asm_bilinear g elmat bcdiagval x w u :
    let ndof := asm_ndof g elmat in
    let m := Z.to_nat (elemnodes g * ndof) in
    let N := Z.to_nat (asm_n g ndof) in
    wf g -> (0 <= ndof)%Z -> mshape m m elmat -> length x = Z.to_nat (nel g) ->
    length w = N -> length u = N ->
    dot w (apply (to_triples (asm_ztriples g elmat None bcdiagval x)) N u) =
    nsum (map (fun p => snd p * bil elmat (gatherZ w (fst p)) (gatherZ u (fst p))) (combine (dofconn_all g ndof) x)).
  Proof.
    intros ndof m N Hwf Hn Hsh Hx Hw Hu.
    pose proof (asm_zbounded g elmat None bcdiagval [] x Hwf Hn I (Forall_nil _)) as Hb.
    unfold asm_matrix in Hb. rewrite app_nil_r in Hb. apply zbounded_tbounded in Hb. fold ndof in Hb. fold N in Hb.
    unfold apply. rewrite (dot_fold_r Rth _ N N) by (auto; apply repeat_length).
    rewrite (dot_vzero_r Rth).
    unfold asm_ztriples. fold ndof. fold m.
    rewrite (zip3_all m) by (auto; apply dofconn_all_shape; assumption).
    rewrite to_triples_flat_map, tsum_flat_map.
    rewrite (nsum_map_ext _ (fun p => snd p * bil elmat (gatherZ w (fst p)) (gatherZ u (fst p)))).
    - ring.
    - intros [row xe] _. cbn [fst snd]. apply tsum_elem.
  Qed.

  (* ---- row sums:  (A u)[i] = sum over triples with destination i ---- *)
  Definition trow (T : list (@triple K)) (x : list K) (i : nat) : K :=
    fold_right (fun (t : @triple K) acc => match t with (d, s, c) =>
                  if Nat.eqb d i then c * vget x s + acc else acc end) nzero T.

  Lemma vget_vaddat (y : list K) d c i : (i < length y)%nat ->
    vget (vaddat y d c) i = if Nat.eqb d i then vget y i + c else vget y i.
  Proof.
    revert d i; induction y as [|h t IH]; intros d i Hi; cbn in Hi; [lia|].
    destruct d as [|d], i as [|i]; cbn [vaddat Nat.eqb]; unfold vget in *; cbn [nth]; try reflexivity.
    apply IH. lia.
  Qed.

  Lemma vget_fold_step (T : list (@triple K)) x y i : (i < length y)%nat ->
    vget (fold_left (step x) T y) i = vget y i + trow T x i.
  Proof.
    revert y; induction T as [|[[d s] c] T IH]; intros y Hi; cbn [fold_left trow fold_right].
    - ring.
    - rewrite IH by (unfold step; rewrite vaddat_length; exact Hi).
      unfold step. rewrite vget_vaddat by exact Hi. fold (trow T x i).
      destruct (Nat.eqb d i); ring.
  Qed.

  Lemma vget_vzero n i : vget (@vzero K _ n) i = nzero.
  Proof. unfold vget, vzero. revert i; induction n as [|n IH]; intros [|i]; cbn; auto. Qed.

  Lemma apply_vget (T : list (@triple K)) m x i : (i < m)%nat -> vget (apply T m x) i = trow T x i.
  Proof.
    intros Hi. unfold apply. rewrite vget_fold_step by (unfold vzero; rewrite repeat_length; exact Hi).
    rewrite vget_vzero. ring.
  Qed.

  Lemma trow_app (T1 T2 : list (@triple K)) x i : trow (T1 ++ T2) x i = trow T1 x i + trow T2 x i.
  Proof.
    induction T1 as [|[[d s] c] T1 IH]; cbn [app]; [cbn; ring|].
    cbn [trow fold_right]. fold (trow (T1 ++ T2) x i). fold (trow T1 x i). rewrite IH.
    destruct (Nat.eqb d i); ring.
  Qed.

  Lemma trow_elem_row (ra : Z) (dce : list Z) (krow : list K) xe u i :
    trow (to_triples (map (fun q => (ra, fst q, snd q * xe)) (combine dce krow))) u i =
    if Nat.eqb (Z.to_nat ra) i then xe * dot krow (gatherZ u dce) else nzero.
  Proof.
    revert krow; induction dce as [|cb dce IH]; intros [|k krow]; cbn [combine map to_triples gatherZ];
      rewrite ?dot_nil_l, ?dot_nil_r; try (cbn; destruct (Nat.eqb (Z.to_nat ra) i); ring).
    unfold to_triples in *. cbn [fst snd trow fold_right].
    fold (trow (map (fun t : @ztriple K => let '(r, c, v) := t in (Z.to_nat r, Z.to_nat c, v))
                    (map (fun q : Z * K => (ra, fst q, snd q * xe)) (combine dce krow))) u i).
    rewrite IH. unfold gatherZ. rewrite dot_cons. destruct (Nat.eqb (Z.to_nat ra) i); ring.
  Qed.

  (* an element whose matrix annihilates the gathered field contributes nothing *)
  Lemma trow_elem_null (elmat : list (list K)) dce xe u i :
    Forall (fun k => k = nzero) (mvmul elmat (gatherZ u dce)) ->
    trow (to_triples (elem_ztriples elmat dce xe)) u i = nzero.
  Proof.
    unfold elem_ztriples. set (gu := gatherZ u dce). intros Hnull.
    assert (Hgen : forall rs M, Forall (fun k => k = nzero) (mvmul M gu) ->
      trow (to_triples (flat_map (fun p => map (fun q => (fst p, fst q, snd q * xe)) (combine dce (snd p))) (combine rs M))) u i = nzero).
    { induction rs as [|ra rs IH]; intros [|krow M] HM; cbn [combine flat_map]; try reflexivity.
      rewrite to_triples_app, trow_app. cbn [fst snd]. rewrite trow_elem_row.
      cbn [mvmul map] in HM. inversion HM as [|? ? H0 HM']; subst. fold gu. rewrite H0.
      rewrite IH by exact HM'. destruct (Nat.eqb (Z.to_nat ra) i); ring. }
    apply Hgen. exact Hnull.
  Qed.

  (* lifting: if K_e annihilates the field gathered on every element, the assembled matrix annihilates the field *)
  Theorem asm_apply_null g elmat bcdiagval x u :
    let ndof := asm_ndof g elmat in
    let m := Z.to_nat (elemnodes g * ndof) in
    let N := Z.to_nat (asm_n g ndof) in
    wf g -> (0 <= ndof)%Z -> mshape m m elmat ->
    (forall row, In row (dofconn_all g ndof) -> Forall (fun k => k = nzero) (mvmul elmat (gatherZ u row))) ->
    apply (to_triples (asm_ztriples g elmat None bcdiagval x)) N u = vzero N.
  Proof.
    intros ndof m N Hwf Hn Hsh Hnull.
    apply (nth_ext _ _ nzero nzero); [rewrite apply_length; unfold vzero; rewrite repeat_length; reflexivity|].
    intros i Hi. rewrite apply_length in Hi.
    change (vget (apply (to_triples (asm_ztriples g elmat None bcdiagval x)) N u) i = vget (vzero N) i).
    rewrite apply_vget by exact Hi. rewrite vget_vzero.
    unfold asm_ztriples. fold ndof. fold m.
    rewrite (zip3_all m) by (auto; apply dofconn_all_shape; assumption).
    generalize (combine (dofconn_all g ndof) x) (fun p => in_combine_l (dofconn_all g ndof) x (fst p) (snd p)).
    intros l Hl. induction l as [|[row xe] l IH]; [reflexivity|].
    cbn [flat_map]. rewrite to_triples_app, trow_app. cbn [fst snd]. rewrite trow_elem_null.
    - rewrite IH; [ring|]. intros p Hp. apply Hl. right. exact Hp.
    - apply Hnull. apply (Hl (row, xe)). left. reflexivity.
  Qed.
End Link.

(* ================================================================== global nodal fields and their element restrictions *)
From Coq Require Import Reals Lra.
From Pymoto Require Import Model.Shape Model.ElemMat Proofs.ShapeP Proofs.ElemMatP.

Section NodalField.
  Context {K : Type} `{Num K}.

  (* a nodal vector given by its value at (node, local dof) *)
  Definition nodal_field (g : grid) (ndof : Z) (f : Z -> Z -> K) : list K :=
    flat_map (fun n => map (f n) (zrange ndof)) (zrange (nnodes g)).

  Lemma nth_flat_map_block {A B} (F : A -> list B) k l a b dA dB :
    (forall x, length (F x) = k) -> (a < length l)%nat -> (b < k)%nat ->
    nth (a * k + b) (flat_map F l) dB = nth b (F (nth a l dA)) dB.
  Proof.
    intros HF. revert a. induction l as [|x l IH]; intros a Ha Hb; cbn [length] in Ha; [lia|].
    cbn [flat_map]. destruct a as [|a].
    - cbn [Nat.mul Nat.add nth]. apply app_nth1. rewrite HF. exact Hb.
    - rewrite app_nth2 by (rewrite HF; lia). rewrite HF.
      replace (S a * k + b - k)%nat with (a * k + b)%nat by lia. cbn [nth]. apply IH; lia.
  Qed.

  Lemma nodal_field_length g ndof f : (0 <= ndof)%Z -> (0 <= nnodes g)%Z ->
    length (nodal_field g ndof f) = Z.to_nat (asm_n g ndof).
  Proof.
    intros Hn Hg. unfold nodal_field.
    rewrite (length_flat_map_const _ (Z.to_nat ndof)) by (intros; rewrite map_length, zrange_length; reflexivity).
    rewrite zrange_length. unfold asm_n. rewrite Z2Nat.inj_mul by assumption. lia.
  Qed.

  Lemma vget_nodal_field g ndof f n d : (0 <= n < nnodes g)%Z -> (0 <= d < ndof)%Z ->
    vget (nodal_field g ndof f) (Z.to_nat (n * ndof + d)) = f n d.
  Proof.
    intros Hn Hd. unfold vget, nodal_field.
    replace (Z.to_nat (n * ndof + d)) with (Z.to_nat n * Z.to_nat ndof + Z.to_nat d)%nat
      by (rewrite Z2Nat.inj_add, Z2Nat.inj_mul by nia; reflexivity).
    rewrite (nth_flat_map_block _ (Z.to_nat ndof) _ _ _ 0%Z)
      by (try (intros; rewrite map_length, zrange_length; reflexivity); rewrite ?zrange_length; lia).
    rewrite nth_zrange by exact Hn.
    rewrite (nth_indep _ nzero (f n 0%Z)) by (rewrite map_length, zrange_length; lia).
    rewrite map_nth, nth_zrange by exact Hd. reflexivity.
  Qed.

  Lemma gather_nodal_field g ndof f e : wf g -> (0 <= ndof)%Z -> (0 <= e < nel g)%Z ->
    gatherZ (nodal_field g ndof f) (dofconn g ndof e) = flat_map (fun n => map (f n) (zrange ndof)) (conn g e).
  Proof.
    intros Hwf Hn He. unfold dofconn. rewrite dofconn_row_flat. unfold gatherZ. rewrite map_flat_map.
    apply flat_map_ext_In. intros n Hin. rewrite map_map. apply map_ext_in. intros d Hd.
    apply vget_nodal_field; [eapply conn_range; eauto | apply in_zrange; exact Hd].
  Qed.

  (* values of a function of the Cartesian node indices at the corners of element e *)
  Lemma conn_map_ijk {A} g e (phi : Z -> Z -> Z -> A) : wf g -> (0 <= e < nel g)%Z ->
    map (fun n => phi (node_i g n) (node_j g n) (node_k g n)) (conn g e) =
    map (fun c : Z * Z * Z => match c with (a, b, c) => phi (elem_i g e + a) (elem_j g e + b) (elem_k g e + c) end)%Z
        (if Z.eqb (nelz g) 0 then corners2 else corners3).
  Proof.
    intros Hwf He. destruct (elem_num_inv g Hwf e He) as (Hi & Hj & Hk & _).
    unfold conn. rewrite elemconn_corners by exact Hwf. rewrite map_map. apply map_ext_in. intros [[a b] c] Hc.
    assert (Hab : (0 <= a <= 1 /\ 0 <= b <= 1)%Z).
    { destruct (Z.eqb (nelz g) 0); unfold corners3, corners2 in Hc; cbn [app In] in Hc;
        repeat (destruct Hc as [Hc|Hc]; [inversion Hc; subst; lia|]); contradiction. }
    rewrite (node_i_num g), (node_j_num g), (node_k_num g Hwf) by lia. reflexivity.
  Qed.
End NodalField.

Lemma hd_length {A} m n (M : list (list A)) : length M = S m -> Forall (fun r => length r = n) M -> length (hd [] M) = n.
Proof. intros Hm HM. destruct M as [|r M]; [discriminate|]. inversion HM; subst. reflexivity. Qed.

Lemma elemnodes_2d g : wf g -> nelz g = 0%Z -> elemnodes g = 4%Z.
Proof. intros Hwf Hz. unfold elemnodes. rewrite (dim_wf g Hwf), Hz. reflexivity. Qed.

Lemma elemnodes_3d g : wf g -> nelz g <> 0%Z -> elemnodes g = 8%Z.
Proof.
  intros Hwf Hz. unfold elemnodes. rewrite (dim_wf g Hwf). apply Z.eqb_neq in Hz. rewrite Hz. reflexivity.
Qed.

Lemma elem_k_2d g e : wf g -> nelz g = 0%Z -> (0 <= e < nel g)%Z -> elem_k g e = 0%Z.
Proof.
  intros Hwf Hz He. destruct (elem_num_inv g Hwf e He) as (_ & _ & Hk & _).
  unfold nz1 in Hk. rewrite Hz in Hk. cbn in Hk. lia.
Qed.

Lemma nsum_combine_const {A} (l1 : list A) (x : list R) (c : R) : length l1 = length x ->
  nsum (map (fun p : A * R => (snd p * c)%R) (combine l1 x)) = (c * nsum x)%R.
Proof.
  revert x; induction l1 as [|a l1 IH]; intros [|xe x] Hl; cbn in Hl; try discriminate; [cbn; lra|].
  cbn [combine map snd]. rewrite !nsum_cons, IH by lia. unfold nadd; cbn [NumR]. lra.
Qed.

Open Scope R_scope.

(* ================================================================== global theorems, 2-D *)
Section Global2.
  Variables (g : grid) (s3 hx hy hz : R).
  Hypothesis Hwf : wf g.
  Hypothesis H2d : nelz g = 0%Z.
  Hypothesis Hx : hx <> 0.
  Hypothesis Hy : hy <> 0.
  Let h := [hx; hy; hz].

  (* centre of element e *)
  Let cx (e : Z) := hx * (IZR (elem_i g e) + 1 / 2).
  Let cy (e : Z) := hy * (IZR (elem_j g e) + 1 / 2).

  (* rigid motion of the whole mesh: u(n) = t + om * (-y_n, x_n) with (x_n, y_n) = get_node_position(n) *)
  Definition rigid_field2 (tx ty om : R) (n d : Z) : R :=
    if Z.eqb d 0 then tx - om * (hy * IZR (node_j g n)) else ty + om * (hx * IZR (node_i g n)).

  Lemma gather_rigid2 tx ty om e : (0 <= e < nel g)%Z ->
    gatherZ (nodal_field g 2 (rigid_field2 tx ty om)) (dofconn g 2 e) = rigid2 h tx ty om (cx e) (cy e).
  Proof.
    intros He. rewrite gather_nodal_field by (auto; lia).
    rewrite flat_map_concat_map. unfold rigid_field2. change (zrange 2) with [0%Z; 1%Z].
    rewrite (conn_map_ijk g e (fun i j k => map (fun d => if Z.eqb d 0 then tx - om * (hy * IZR j) else ty + om * (hx * IZR i)) [0%Z; 1%Z]) Hwf He).
    rewrite H2d. unfold rigid2, h, nodepos, cx, cy.
    cbn -[Rmult Rplus Rdiv Rminus IZR Rinv Ropp elem_i elem_j elem_k Z.add].
    rewrite !plus_IZR. repeat (apply (f_equal2 (@cons R)); [field|]). reflexivity.
  Qed.

  Theorem stiffness2_global_rigid_null E nu mode bcd x tx ty om : (mode = 0 \/ mode = 1)%Z ->
    let Ke := stiffness_element s3 2 h E nu mode in
    let N := Z.to_nat (asm_n g 2) in
    apply (to_triples (asm_ztriples g Ke None bcd x)) N (nodal_field g 2 (rigid_field2 tx ty om)) = vzero N.
  Proof.
    intros Hmode Ke N.
    pose proof (stiffness2_shape s3 hx hy hz E nu mode) as Hsh. fold h in Hsh. fold Ke in Hsh.
    assert (Hndof : asm_ndof g Ke = 2%Z).
    { unfold asm_ndof. destruct Hsh as [L1 L2]. rewrite (hd_length 7 8 Ke L1 L2), (elemnodes_2d g Hwf H2d). reflexivity. }
    pose proof (asm_apply_null RthR g Ke bcd x (nodal_field g 2 (rigid_field2 tx ty om))) as Hnull.
    rewrite Hndof, (elemnodes_2d g Hwf H2d) in Hnull. apply Hnull; auto; try lia.
    intros row Hrow. unfold dofconn_all in Hrow. apply in_map_iff in Hrow as (e & <- & He). apply in_zrange in He.
    rewrite gather_rigid2 by exact He. apply stiffness2_rigid_null; assumption.
  Qed.

  (* ---- mass ---- *)
  Definition dir_field (k : Z) (n d : Z) : R := if Z.eqb d k then 1 else 0.

  Lemma unitv_zrange nd k : (0 <= k)%Z ->
    map (fun d => if Z.eqb d k then 1 else 0) (zrange (Z.of_nat nd)) = unitv nd (Z.to_nat k).
  Proof.
    intros Hk. unfold zrange, unitv. rewrite Nat2Z.id, map_map. apply map_ext. intros j.
    destruct (Z.eqb_spec (Z.of_nat j) k) as [E|E], (Nat.eqb_spec j (Z.to_nat k)) as [F|F]; try reflexivity; lia.
  Qed.

  Lemma gather_dir nd k e : (0 <= k)%Z -> (0 <= e < nel g)%Z ->
    gatherZ (nodal_field g (Z.of_nat nd) (dir_field k)) (dofconn g (Z.of_nat nd) e) = dirvec nd 4 (Z.to_nat k).
  Proof.
    intros Hk He. rewrite gather_nodal_field by (auto; lia).
    unfold dir_field. rewrite (flat_map_ext _ (fun _ => unitv nd (Z.to_nat k))) by (intros; apply unitv_zrange; exact Hk).
    rewrite flat_map_const_concat, conn_length by exact Hwf. rewrite (elemnodes_2d g Hwf H2d). reflexivity.
  Qed.

  Theorem mass2_global_total mp nd k bcd x : (1 <= nd)%nat -> (k < nd)%nat -> length x = Z.to_nat (nel g) ->
    let Me := mass_element s3 2 h mp nd in
    let N := Z.to_nat (asm_n g (Z.of_nat nd)) in
    let one_k := nodal_field g (Z.of_nat nd) (dir_field (Z.of_nat k)) in
    dot one_k (apply (to_triples (asm_ztriples g Me None bcd x)) N one_k) = mp * (hx * hy * hz) * nsum x.
  Proof.
    intros Hnd Hk Hxl Me N one_k.
    assert (Hsh : mshape (4 * nd) (4 * nd) Me) by exact (mass_shape s3 2 h mp nd).
    assert (Hndof : asm_ndof g Me = Z.of_nat nd).
    { unfold asm_ndof. destruct Hsh as [L1 L2].
      rewrite (hd_length (4 * nd - 1) (4 * nd) Me) by (try exact L2; rewrite L1; lia).
      rewrite (elemnodes_2d g Hwf H2d). rewrite Nat2Z.inj_mul, Z.mul_comm. apply Z.div_mul. lia. }
    assert (Hnn : (0 <= nnodes g)%Z) by (destruct Hwf as (?&?&?); unfold nnodes; nia).
    pose proof (asm_bilinear RthR g Me bcd x one_k one_k) as Hbil.
    rewrite Hndof, (elemnodes_2d g Hwf H2d) in Hbil.
    replace (Z.to_nat (4 * Z.of_nat nd)) with (4 * nd)%nat in Hbil by lia.
    unfold N. rewrite Hbil; auto; try lia; try (apply nodal_field_length; lia);
      try (replace (Z.to_nat (4 * Z.of_nat nd)) with (4 * nd)%nat by lia; exact Hsh).
    rewrite (nsum_map_ext _ (fun p => snd p * (mp * (hx * hy * hz)))).
    - rewrite nsum_combine_const by (rewrite dofconn_all_length; symmetry; exact Hxl). ring.
    - intros [row xe] Hin. cbn [fst snd]. apply in_combine_l in Hin. unfold dofconn_all in Hin.
      apply in_map_iff in Hin as (e & <- & He). apply in_zrange in He.
      unfold one_k. rewrite gather_dir by (auto; lia). rewrite Nat2Z.id.
      fold (quad Me (dirvec nd 4 k)). unfold Me, h. rewrite mass2_total by assumption. reflexivity.
  Qed.

  (* ---- Poisson ---- *)
  Definition lin_field2 (c0 gx gy : R) (n d : Z) : R := c0 + gx * (hx * IZR (node_i g n)) + gy * (hy * IZR (node_j g n)).

  Lemma gather_lin2 c0 gx gy e : (0 <= e < nel g)%Z ->
    gatherZ (nodal_field g 1 (lin_field2 c0 gx gy)) (dofconn g 1 e) = linfield2 h (c0 + gx * cx e + gy * cy e) gx gy.
  Proof.
    intros He. rewrite gather_nodal_field by (auto; lia).
    rewrite flat_map_concat_map. unfold lin_field2. change (zrange 1) with [0%Z].
    rewrite (conn_map_ijk g e (fun i j k => map (fun d : Z => c0 + gx * (hx * IZR i) + gy * (hy * IZR j)) [0%Z]) Hwf He).
    rewrite H2d. unfold linfield2, h, nodepos, cx, cy.
    cbn -[Rmult Rplus Rdiv Rminus IZR Rinv Ropp elem_i elem_j elem_k Z.add].
    rewrite !plus_IZR. repeat (apply (f_equal2 (@cons R)); [field|]). reflexivity.
  Qed.

  Lemma poisson2_ndof mp : asm_ndof g (poisson_element s3 2 h mp) = 1%Z.
  Proof.
    pose proof (poisson_shape s3 2 h mp) as [L1 L2]. unfold asm_ndof.
    rewrite (hd_length 3 _ _ L1 L2), (elemnodes_2d g Hwf H2d). reflexivity.
  Qed.

  Theorem poisson2_global_constants mp bcd x c0 :
    let Pe := poisson_element s3 2 h mp in
    let N := Z.to_nat (asm_n g 1) in
    apply (to_triples (asm_ztriples g Pe None bcd x)) N (nodal_field g 1 (lin_field2 c0 0 0)) = vzero N.
  Proof.
    intros Pe N.
    pose proof (asm_apply_null RthR g Pe bcd x (nodal_field g 1 (lin_field2 c0 0 0))) as Hnull.
    unfold Pe in Hnull. rewrite poisson2_ndof, (elemnodes_2d g Hwf H2d) in Hnull. apply Hnull; auto; try lia.
    - apply (poisson_shape s3 2 h mp).
    - intros row Hrow. unfold dofconn_all in Hrow. apply in_map_iff in Hrow as (e & <- & He). apply in_zrange in He.
      rewrite gather_lin2 by exact He. apply poisson2_constants; assumption.
  Qed.

  Theorem poisson2_global_linear_energy mp bcd x c0 gx gy : length x = Z.to_nat (nel g) ->
    let Pe := poisson_element s3 2 h mp in
    let N := Z.to_nat (asm_n g 1) in
    let u := nodal_field g 1 (lin_field2 c0 gx gy) in
    dot u (apply (to_triples (asm_ztriples g Pe None bcd x)) N u) = mp * (hx * hy * hz) * (gx * gx + gy * gy) * nsum x.
  Proof.
    intros Hxl Pe N u.
    assert (Hnn : (0 <= nnodes g)%Z) by (destruct Hwf as (?&?&?); unfold nnodes; nia).
    pose proof (asm_bilinear RthR g Pe bcd x u u) as Hbil.
    unfold Pe in Hbil. rewrite poisson2_ndof, (elemnodes_2d g Hwf H2d) in Hbil. fold Pe in Hbil. unfold N.
    rewrite Hbil; auto; try lia; try (apply nodal_field_length; lia); try (apply (poisson_shape s3 2 h mp)).
    rewrite (nsum_map_ext _ (fun p => snd p * (mp * (hx * hy * hz) * (gx * gx + gy * gy)))).
    - rewrite nsum_combine_const by (rewrite dofconn_all_length; symmetry; exact Hxl). ring.
    - intros [row xe] Hin. cbn [fst snd]. apply in_combine_l in Hin. unfold dofconn_all in Hin.
      apply in_map_iff in Hin as (e & <- & He). apply in_zrange in He.
      unfold u. rewrite gather_lin2 by exact He.
      fold (quad Pe (linfield2 h (c0 + gx * cx e + gy * cy e) gx gy)). unfold Pe, h.
      rewrite poisson2_linear_energy by assumption. reflexivity.
  Qed.
End Global2.

(* ================================================================== global theorems, 3-D *)
Section Global3.
  Variables (g : grid) (s3 hx hy hz : R).
  Hypothesis Hwf : wf g.
  Hypothesis H3d : nelz g <> 0%Z.
  Hypothesis Hx : hx <> 0.
  Hypothesis Hy : hy <> 0.
  Hypothesis Hz : hz <> 0.
  Let h := [hx; hy; hz].
  Let cx (e : Z) := hx * (IZR (elem_i g e) + 1 / 2).
  Let cy (e : Z) := hy * (IZR (elem_j g e) + 1 / 2).
  Let cz (e : Z) := hz * (IZR (elem_k g e) + 1 / 2).

  Lemma nelz_eqb : Z.eqb (nelz g) 0 = false.
  Proof. apply Z.eqb_neq. exact H3d. Qed.

  (* u(n) = t + w x pos(n) *)
  Definition rigid_field3 (tx ty tz wx wy wz : R) (n d : Z) : R :=
    let x := hx * IZR (node_i g n) in let y := hy * IZR (node_j g n) in let z := hz * IZR (node_k g n) in
    if Z.eqb d 0 then tx + wy * z - wz * y else if Z.eqb d 1 then ty + wz * x - wx * z else tz + wx * y - wy * x.

  Lemma gather_rigid3 tx ty tz wx wy wz e : (0 <= e < nel g)%Z ->
    gatherZ (nodal_field g 3 (rigid_field3 tx ty tz wx wy wz)) (dofconn g 3 e)
    = rigid3 h tx ty tz wx wy wz (cx e) (cy e) (cz e).
  Proof.
    intros He. rewrite gather_nodal_field by (auto; lia).
    rewrite flat_map_concat_map. unfold rigid_field3. change (zrange 3) with [0%Z; 1%Z; 2%Z].
    rewrite (conn_map_ijk g e (fun i j k => map (fun d =>
       if Z.eqb d 0 then tx + wy * (hz * IZR k) - wz * (hy * IZR j)
       else if Z.eqb d 1 then ty + wz * (hx * IZR i) - wx * (hz * IZR k)
       else tz + wx * (hy * IZR j) - wy * (hx * IZR i)) [0%Z; 1%Z; 2%Z]) Hwf He).
    rewrite nelz_eqb. unfold rigid3, h, nodepos, cx, cy, cz.
    cbn -[Rmult Rplus Rdiv Rminus IZR Rinv Ropp elem_i elem_j elem_k Z.add].
    rewrite !plus_IZR. repeat (apply (f_equal2 (@cons R)); [field|]). reflexivity.
  Qed.

  Theorem stiffness3_global_rigid_null E nu mode bcd x tx ty tz wx wy wz :
    let Ke := stiffness_element s3 3 h E nu mode in
    let N := Z.to_nat (asm_n g 3) in
    apply (to_triples (asm_ztriples g Ke None bcd x)) N (nodal_field g 3 (rigid_field3 tx ty tz wx wy wz)) = vzero N.
  Proof.
    intros Ke N.
    pose proof (stiffness3_shape s3 hx hy hz E nu mode) as Hsh. fold h in Hsh. fold Ke in Hsh.
    assert (Hndof : asm_ndof g Ke = 3%Z).
    { unfold asm_ndof. destruct Hsh as [L1 L2]. rewrite (hd_length 23 24 Ke L1 L2), (elemnodes_3d g Hwf H3d). reflexivity. }
    pose proof (asm_apply_null RthR g Ke bcd x (nodal_field g 3 (rigid_field3 tx ty tz wx wy wz))) as Hnull.
    rewrite Hndof, (elemnodes_3d g Hwf H3d) in Hnull. apply Hnull; auto; try lia.
    intros row Hrow. unfold dofconn_all in Hrow. apply in_map_iff in Hrow as (e & <- & He). apply in_zrange in He.
    rewrite gather_rigid3 by exact He. apply stiffness3_rigid_null; assumption.
  Qed.

  Lemma gather_dir3 nd k e : (0 <= k)%Z -> (0 <= e < nel g)%Z ->
    gatherZ (nodal_field g (Z.of_nat nd) (dir_field k)) (dofconn g (Z.of_nat nd) e) = dirvec nd 8 (Z.to_nat k).
  Proof.
    intros Hk He. rewrite gather_nodal_field by (auto; lia).
    unfold dir_field. rewrite (flat_map_ext _ (fun _ => unitv nd (Z.to_nat k))) by (intros; apply unitv_zrange; exact Hk).
    rewrite flat_map_const_concat, conn_length by exact Hwf. rewrite (elemnodes_3d g Hwf H3d). reflexivity.
  Qed.

  Theorem mass3_global_total mp nd k bcd x : (1 <= nd)%nat -> (k < nd)%nat -> length x = Z.to_nat (nel g) ->
    let Me := mass_element s3 3 h mp nd in
    let N := Z.to_nat (asm_n g (Z.of_nat nd)) in
    let one_k := nodal_field g (Z.of_nat nd) (dir_field (Z.of_nat k)) in
    dot one_k (apply (to_triples (asm_ztriples g Me None bcd x)) N one_k) = mp * (hx * hy * hz) * nsum x.
  Proof.
    intros Hnd Hk Hxl Me N one_k.
    assert (Hsh : mshape (8 * nd) (8 * nd) Me) by exact (mass_shape s3 3 h mp nd).
    assert (Hndof : asm_ndof g Me = Z.of_nat nd).
    { unfold asm_ndof. destruct Hsh as [L1 L2].
      rewrite (hd_length (8 * nd - 1) (8 * nd) Me) by (try exact L2; rewrite L1; lia).
      rewrite (elemnodes_3d g Hwf H3d). rewrite Nat2Z.inj_mul, Z.mul_comm. apply Z.div_mul. lia. }
    assert (Hnn : (0 <= nnodes g)%Z) by (destruct Hwf as (?&?&?); unfold nnodes; nia).
    pose proof (asm_bilinear RthR g Me bcd x one_k one_k) as Hbil.
    rewrite Hndof, (elemnodes_3d g Hwf H3d) in Hbil.
    replace (Z.to_nat (8 * Z.of_nat nd)) with (8 * nd)%nat in Hbil by lia.
    unfold N. rewrite Hbil; auto; try lia; try (apply nodal_field_length; lia);
      try (replace (Z.to_nat (8 * Z.of_nat nd)) with (8 * nd)%nat by lia; exact Hsh).
    rewrite (nsum_map_ext _ (fun p => snd p * (mp * (hx * hy * hz)))).
    - rewrite nsum_combine_const by (rewrite dofconn_all_length; symmetry; exact Hxl). ring.
    - intros [row xe] Hin. cbn [fst snd]. apply in_combine_l in Hin. unfold dofconn_all in Hin.
      apply in_map_iff in Hin as (e & <- & He). apply in_zrange in He.
      unfold one_k. rewrite gather_dir3 by (auto; lia). rewrite Nat2Z.id.
      fold (quad Me (dirvec nd 8 k)). unfold Me, h. rewrite mass3_total by assumption. reflexivity.
  Qed.

  Definition lin_field3 (c0 gx gy gz : R) (n d : Z) : R :=
    c0 + gx * (hx * IZR (node_i g n)) + gy * (hy * IZR (node_j g n)) + gz * (hz * IZR (node_k g n)).

  Lemma gather_lin3 c0 gx gy gz e : (0 <= e < nel g)%Z ->
    gatherZ (nodal_field g 1 (lin_field3 c0 gx gy gz)) (dofconn g 1 e)
    = linfield3 h (c0 + gx * cx e + gy * cy e + gz * cz e) gx gy gz.
  Proof.
    intros He. rewrite gather_nodal_field by (auto; lia).
    rewrite flat_map_concat_map. unfold lin_field3. change (zrange 1) with [0%Z].
    rewrite (conn_map_ijk g e (fun i j k => map (fun d : Z => c0 + gx * (hx * IZR i) + gy * (hy * IZR j) + gz * (hz * IZR k)) [0%Z]) Hwf He).
    rewrite nelz_eqb. unfold linfield3, h, nodepos, cx, cy, cz.
    cbn -[Rmult Rplus Rdiv Rminus IZR Rinv Ropp elem_i elem_j elem_k Z.add].
    rewrite !plus_IZR. repeat (apply (f_equal2 (@cons R)); [field|]). reflexivity.
  Qed.

  Lemma poisson3_ndof mp : asm_ndof g (poisson_element s3 3 h mp) = 1%Z.
  Proof.
    pose proof (poisson_shape s3 3 h mp) as [L1 L2]. unfold asm_ndof.
    rewrite (hd_length 7 _ _ L1 L2), (elemnodes_3d g Hwf H3d). reflexivity.
  Qed.

  Theorem poisson3_global_constants mp bcd x c0 :
    let Pe := poisson_element s3 3 h mp in
    let N := Z.to_nat (asm_n g 1) in
    apply (to_triples (asm_ztriples g Pe None bcd x)) N (nodal_field g 1 (lin_field3 c0 0 0 0)) = vzero N.
  Proof.
    intros Pe N.
    pose proof (asm_apply_null RthR g Pe bcd x (nodal_field g 1 (lin_field3 c0 0 0 0))) as Hnull.
    unfold Pe in Hnull. rewrite poisson3_ndof, (elemnodes_3d g Hwf H3d) in Hnull. apply Hnull; auto; try lia.
    - apply (poisson_shape s3 3 h mp).
    - intros row Hrow. unfold dofconn_all in Hrow. apply in_map_iff in Hrow as (e & <- & He). apply in_zrange in He.
      rewrite gather_lin3 by exact He. apply poisson3_constants; assumption.
  Qed.

  Theorem poisson3_global_linear_energy mp bcd x c0 gx gy gz : length x = Z.to_nat (nel g) ->
    let Pe := poisson_element s3 3 h mp in
    let N := Z.to_nat (asm_n g 1) in
    let u := nodal_field g 1 (lin_field3 c0 gx gy gz) in
    dot u (apply (to_triples (asm_ztriples g Pe None bcd x)) N u)
    = mp * (hx * hy * hz) * (gx * gx + gy * gy + gz * gz) * nsum x.
  Proof.
    intros Hxl Pe N u.
    assert (Hnn : (0 <= nnodes g)%Z) by (destruct Hwf as (?&?&?); unfold nnodes; nia).
    pose proof (asm_bilinear RthR g Pe bcd x u u) as Hbil.
    unfold Pe in Hbil. rewrite poisson3_ndof, (elemnodes_3d g Hwf H3d) in Hbil. fold Pe in Hbil. unfold N.
    rewrite Hbil; auto; try lia; try (apply nodal_field_length; lia); try (apply (poisson_shape s3 3 h mp)).
    rewrite (nsum_map_ext _ (fun p => snd p * (mp * (hx * hy * hz) * (gx * gx + gy * gy + gz * gz)))).
    - rewrite nsum_combine_const by (rewrite dofconn_all_length; symmetry; exact Hxl). ring.
    - intros [row xe] Hin. cbn [fst snd]. apply in_combine_l in Hin. unfold dofconn_all in Hin.
      apply in_map_iff in Hin as (e & <- & He). apply in_zrange in He.
      unfold u. rewrite gather_lin3 by exact He.
      fold (quad Pe (linfield3 h (c0 + gx * cx e + gy * cy e + gz * cz e) gx gy gz)). unfold Pe, h.
      rewrite poisson3_linear_energy by assumption. reflexivity.
  Qed.
End Global3.

(* ================================================================== summary theorems *)
Close Scope R_scope.
Section Summary.
  Context {K : Type} `{Num K}.
  Hypothesis Rth : ring_theory (@nzero K _) none_ nadd nmul nsub nopp (@eq K).
  Local Open Scope num_scope.

  (* the well-formedness conditions under which the module constructs a matrix (cf. asm_status) *)
  Definition asm_wf (g : grid) (elmat : list (list K)) (bc : option (list Z)) (cst : list (@ztriple K)) (x : list K) : Prop :=
    let ndof := asm_ndof g elmat in
    let m := Z.to_nat (elemnodes g * ndof) in
    wf g /\ (0 <= ndof)%Z /\ mshape m m elmat /\ length x = Z.to_nat (nel g) /\
    match bc with None => True | Some bcl => Forall (fun b => (0 <= b < asm_n g ndof)%Z) bcl end /\
    zbounded (asm_n g ndof) cst.

  (* entry formula, stated on the dense matrix SparseLin gives to the triple list *)
  Theorem asm_dense_entry g elmat bc bcdiagval cst x i j :
    let ndof := asm_ndof g elmat in
    let N := Z.to_nat (asm_n g ndof) in
    asm_wf g elmat bc cst x -> (0 <= i < asm_n g ndof)%Z -> (0 <= j < asm_n g ndof)%Z ->
    nth (Z.to_nat j) (nth (Z.to_nat i) (dense (to_triples (asm_matrix g elmat bc bcdiagval cst x)) N N) []) nzero
    = asm_spec g elmat bc bcdiagval cst x i j.
  Proof.
    intros ndof N (Hwf & Hn & Hsh & Hx & Hbc & Hcst) Hi Hj.
    rewrite dense_nth by (unfold N; lia).
    rewrite (tentry_zentry _ (asm_n g ndof)) by (try lia; apply asm_zbounded; assumption).
    apply (asm_entry_formula Rth); [exact Hsh | apply dofconn_all_shape; assumption | rewrite dofconn_all_length; exact Hx].
  Qed.

  Theorem asm_symmetric g elmat bc bcdiagval cst x i j :
    asm_wf g elmat bc cst x -> msym elmat -> (forall p q, zentry cst p q = zentry cst q p) ->
    zentry (asm_matrix g elmat bc bcdiagval cst x) i j = zentry (asm_matrix g elmat bc bcdiagval cst x) j i.
  Proof.
    intros (Hwf & Hn & Hsh & Hx & Hbc & Hcst) Hs Hc.
    rewrite !(asm_entry_formula Rth) by (try exact Hsh; try (apply dofconn_all_shape; assumption); rewrite dofconn_all_length; exact Hx).
    apply (asm_spec_sym Rth); assumption.
  Qed.
End Summary.

Open Scope R_scope.
Theorem asm_psd g (elmat : list (list R)) bcd x u :
  let ndof := asm_ndof g elmat in
  let N := Z.to_nat (asm_n g ndof) in
  asm_wf g elmat None [] x -> length u = N ->
  (forall v, 0 <= quad elmat v) -> Forall (fun xe => 0 <= xe) x ->
  0 <= dot u (apply (to_triples (asm_ztriples g elmat None bcd x)) N u).
Proof.
  intros ndof N (Hwf & Hn & Hsh & Hx & _ & _) Hu Hq Hpos.
  unfold N, ndof. rewrite (asm_bilinear RthR) by assumption.
  apply nsum_nonneg. intros [row xe] Hin. cbn [fst snd]. unfold nmul; cbn [NumR].
  apply Rmult_le_pos; [|apply Hq].
  rewrite Forall_forall in Hpos. apply Hpos. eapply in_combine_r; exact Hin.
Qed.

(* constrained / free dofs, for boundary-condition lists without repetition *)
Lemma asm_spec_constrained g (elmat : list (list R)) bcl bcdiagval cst x i j : NoDup bcl -> isin i bcl = true ->
  asm_spec g elmat (Some bcl) bcdiagval cst x i j = (if Z.eqb i j then bcdiagval else 0) + zentry cst i j.
Proof.
  intros Hnd Hi. unfold asm_spec. rewrite Hi. cbn [orb]. rewrite (bc_count_nodup RthR) by exact Hnd. rewrite Hi.
  rnum. destruct (Z.eqb i j); lra.
Qed.

Lemma asm_spec_constrained_col g (elmat : list (list R)) bcl bcdiagval cst x i j : NoDup bcl -> isin j bcl = true ->
  asm_spec g elmat (Some bcl) bcdiagval cst x i j = (if Z.eqb i j then bcdiagval else 0) + zentry cst i j.
Proof.
  intros Hnd Hj. unfold asm_spec. rewrite Hj, orb_true_r. rewrite (bc_count_nodup RthR) by exact Hnd.
  destruct (Z.eqb_spec i j) as [->|Hne]; [rewrite Hj; rnum; lra | rnum; lra].
Qed.

Lemma asm_spec_free g (elmat : list (list R)) bcl bcdiagval cst x i j : NoDup bcl ->
  isin i bcl = false -> isin j bcl = false ->
  asm_spec g elmat (Some bcl) bcdiagval cst x i j = asm_spec g elmat None bcdiagval cst x i j.
Proof.
  intros Hnd Hi Hj. unfold asm_spec. rewrite Hi, Hj. cbn [orb]. rewrite (bc_count_nodup RthR) by exact Hnd. rewrite Hi.
  rnum. destruct (Z.eqb i j); lra.
Qed.

(* ---- the three FE matrices satisfy the well-formedness conditions of the assembly ---- *)
Definition bc_ok (g : grid) (ndof : Z) (bc : option (list Z)) : Prop :=
  match bc with None => True | Some bcl => Forall (fun b => (0 <= b < asm_n g ndof)%Z) bcl end.

Lemma stiffness2_asm_wf g (s3 hx hy hz E nu : R) mode bc cst x : wf g -> nelz g = 0%Z -> (mode = 0 \/ mode = 1)%Z ->
  length x = Z.to_nat (nel g) -> bc_ok g 2 bc -> zbounded (asm_n g 2) cst ->
  asm_wf g (stiffness_element s3 2 [hx; hy; hz] E nu mode) bc cst x /\
  asm_ndof g (stiffness_element s3 2 [hx; hy; hz] E nu mode) = 2%Z.
Proof.
  intros Hwf H2d Hmode Hx Hbc Hcst.
  pose proof (stiffness2_shape s3 hx hy hz E nu mode) as Hsh.
  assert (Hndof : asm_ndof g (stiffness_element s3 2 [hx; hy; hz] E nu mode) = 2%Z).
  { unfold asm_ndof. destruct Hsh as [L1 L2]. rewrite (hd_length 7 8 _ L1 L2), (elemnodes_2d g Hwf H2d). reflexivity. }
  split; [|exact Hndof]. unfold asm_wf. rewrite Hndof, (elemnodes_2d g Hwf H2d).
  refine (conj Hwf (conj _ (conj _ (conj Hx (conj Hbc Hcst))))); [lia | exact Hsh].
Qed.

Lemma stiffness3_asm_wf g (s3 hx hy hz E nu : R) mode bc cst x : wf g -> nelz g <> 0%Z ->
  length x = Z.to_nat (nel g) -> bc_ok g 3 bc -> zbounded (asm_n g 3) cst ->
  asm_wf g (stiffness_element s3 3 [hx; hy; hz] E nu mode) bc cst x /\
  asm_ndof g (stiffness_element s3 3 [hx; hy; hz] E nu mode) = 3%Z.
Proof.
  intros Hwf H3d Hx Hbc Hcst.
  pose proof (stiffness3_shape s3 hx hy hz E nu mode) as Hsh.
  assert (Hndof : asm_ndof g (stiffness_element s3 3 [hx; hy; hz] E nu mode) = 3%Z).
  { unfold asm_ndof. destruct Hsh as [L1 L2]. rewrite (hd_length 23 24 _ L1 L2), (elemnodes_3d g Hwf H3d). reflexivity. }
  split; [|exact Hndof]. unfold asm_wf. rewrite Hndof, (elemnodes_3d g Hwf H3d).
  refine (conj Hwf (conj _ (conj _ (conj Hx (conj Hbc Hcst))))); [lia | exact Hsh].
Qed.

(* K symmetric (any bc list, any symmetric constant), 2-D and 3-D *)
Theorem stiffness2_global_symmetric g (s3 hx hy hz E nu : R) mode bc (bcd : R) cst x i j :
  wf g -> nelz g = 0%Z -> (mode = 0 \/ mode = 1)%Z -> length x = Z.to_nat (nel g) -> bc_ok g 2 bc ->
  zbounded (asm_n g 2) cst -> (forall p q, zentry cst p q = zentry cst q p) ->
  let A := asm_matrix g (stiffness_element s3 2 [hx; hy; hz] E nu mode) bc bcd cst x in
  zentry A i j = zentry A j i.
Proof.
  intros Hwf H2d Hmode Hx Hbc Hcst Hsym A.
  apply (asm_symmetric RthR); [apply stiffness2_asm_wf; assumption | apply stiffness2_sym; exact Hmode | exact Hsym].
Qed.

Theorem stiffness3_global_symmetric g (s3 hx hy hz E nu : R) mode bc (bcd : R) cst x i j :
  wf g -> nelz g <> 0%Z -> length x = Z.to_nat (nel g) -> bc_ok g 3 bc ->
  zbounded (asm_n g 3) cst -> (forall p q, zentry cst p q = zentry cst q p) ->
  let A := asm_matrix g (stiffness_element s3 3 [hx; hy; hz] E nu mode) bc bcd cst x in
  zentry A i j = zentry A j i.
Proof.
  intros Hwf H3d Hx Hbc Hcst Hsym A.
  apply (asm_symmetric RthR); [apply stiffness3_asm_wf; assumption | apply stiffness3_sym | exact Hsym].
Qed.

(* u^T K u >= 0 for x >= 0 *)
Theorem stiffness2_global_psd g (s3 hx hy hz E nu : R) mode (bcd : R) x u :
  wf g -> nelz g = 0%Z -> (mode = 0 \/ mode = 1)%Z -> length x = Z.to_nat (nel g) ->
  0 <= hx -> 0 <= hy -> 0 <= hz -> 0 <= E -> (mode = 0%Z -> -1 < nu < 1/2) -> (mode = 1%Z -> -1 < nu < 1) ->
  Forall (fun xe => 0 <= xe) x -> length u = Z.to_nat (asm_n g 2) ->
  0 <= dot u (apply (to_triples (asm_ztriples g (stiffness_element s3 2 [hx; hy; hz] E nu mode) None bcd x))
                    (Z.to_nat (asm_n g 2)) u).
Proof.
  intros Hwf H2d Hmode Hx Px Py Pz PE N0 N1 Hpos Hu.
  destruct (stiffness2_asm_wf g s3 hx hy hz E nu mode None [] x Hwf H2d Hmode Hx I (Forall_nil _)) as [W Hndof].
  pose proof (asm_psd g (stiffness_element s3 2 [hx; hy; hz] E nu mode) bcd x u) as P.
  rewrite Hndof in P. apply P; auto. intros v. apply stiffness2_psd; assumption.
Qed.

Theorem stiffness3_global_psd g (s3 hx hy hz E nu : R) mode (bcd : R) x u :
  wf g -> nelz g <> 0%Z -> length x = Z.to_nat (nel g) ->
  0 <= hx -> 0 <= hy -> 0 <= hz -> 0 <= E -> -1 < nu < 1/2 ->
  Forall (fun xe => 0 <= xe) x -> length u = Z.to_nat (asm_n g 3) ->
  0 <= dot u (apply (to_triples (asm_ztriples g (stiffness_element s3 3 [hx; hy; hz] E nu mode) None bcd x))
                    (Z.to_nat (asm_n g 3)) u).
Proof.
  intros Hwf H3d Hx Px Py Pz PE N0 Hpos Hu.
  destruct (stiffness3_asm_wf g s3 hx hy hz E nu mode None [] x Hwf H3d Hx I (Forall_nil _)) as [W Hndof].
  pose proof (asm_psd g (stiffness_element s3 3 [hx; hy; hz] E nu mode) bcd x u) as P.
  rewrite Hndof in P. apply P; auto. intros v. apply stiffness3_psd; assumption.
Qed.
