(* Lemmas about Model/GridHist.v: queries on the domain object are pure and return fresh arrays, for every history. *)
From Coq Require Import ZArith QArith List Bool Lia.
From Pymoto Require Import Base.Num Base.Cmp Model.Grid Model.Shape Model.GridHist Proofs.GridP.
Import ListNotations.
Open Scope Z_scope.

(* ---- lists / heaps ---- *)
Lemma nth_error_app_len {A} (a l : list A) k : nth_error (a ++ l) (k + length a) = nth_error l k.
Proof.
  rewrite nth_error_app2 by lia. f_equal. lia.
Qed.

Lemma heap_upd_length hp r f : length (heap_upd hp r f) = length hp.
Proof.
  revert r. induction hp as [|a t IH]; intros [|m]; cbn; try reflexivity. now rewrite IH.
Qed.

Lemma heap_upd_app_ge (a b : heap) r f :
  (length a <= r)%nat -> heap_upd (a ++ b) r f = a ++ heap_upd b (r - length a) f.
Proof.
  revert r. induction a as [|x t IH]; intros r Hr; cbn.
  - now rewrite Nat.sub_0_r.
  - destruct r as [|m]; cbn in Hr; [lia|]. cbn. f_equal. apply IH. lia.
Qed.

Lemma combine_firstn_l {A B} (n : nat) (h : list A) (l : list B) :
  (length l <= n)%nat -> combine (firstn n h) l = combine h l.
Proof.
  revert h l. induction n as [|n IH]; intros h l Hl.
  - destruct l; cbn in Hl; [|lia]. destruct h; reflexivity.
  - destruct h as [|x h]; [reflexivity|]. destruct l as [|y l]; [reflexivity|].
    cbn. f_equal. apply IH. cbn in Hl. lia.
Qed.

Lemma existsb_eqb_In r l : existsb (Nat.eqb r) l = true -> In r l.
Proof.
  intros Hx. apply existsb_exists in Hx. destruct Hx as [x [Hin Heq]].
  apply Nat.eqb_eq in Heq. now subst.
Qed.

(* ---- a query allocates: the result is a NEW array behind everything that exists, nothing else changes ---- *)
Lemma step_query_fresh s o a :
  query_result (s_hp s) (s_dom s) o = Some a ->
  step s o = ({| s_hp := s_hp s ++ [a]; s_dom := s_dom s; s_owned := length (s_hp s) :: s_owned s |}, ObArr a).
Proof. intros Hq. unfold step. now rewrite Hq. Qed.

(* no operation changes the domain record *)
Lemma step_dom s o : s_dom (fst (step s o)) = s_dom s.
Proof.
  unfold step. destruct (query_result (s_hp s) (s_dom s) o); [reflexivity|].
  destruct o; try reflexivity. cbn. destruct (existsb (Nat.eqb r) (s_owned s)); reflexivity.
Qed.

(* arrays the caller was not handed are never touched, and no array disappears *)
Lemma step_untouched s o r :
  ~ In r (s_owned s) -> (r < length (s_hp s))%nat ->
  nth_error (s_hp (fst (step s o))) r = nth_error (s_hp s) r.
Proof.
  intros Hn Hr. unfold step. destruct (query_result (s_hp s) (s_dom s) o).
  - cbn. now rewrite nth_error_app1.
  - destruct o; try reflexivity. cbn.
    destruct (existsb (Nat.eqb r0) (s_owned s)) eqn:He; [|reflexivity]. cbn.
    apply existsb_eqb_In in He.
    assert (Hne : r0 <> r) by (intros ->; contradiction).
    clear - Hne. revert r r0 Hne. induction (s_hp s) as [|a t IH]; intros r r0 Hne; destruct r0, r; cbn; try reflexivity.
    + congruence.
    + apply IH. congruence.
Qed.

(* ---- the invariant of every history on a domain built by dom_new ---- *)
Section History.
  Variable hp0 : heap.
  Variable g : grid.
  Variable h : list Q.

  Let s0 := new_st hp0 g h.
  Let own := [AQ [h]; AQ [[0; 0; 0]%Q]; AZ (conn_table g); AZ (concat (elements_tab g)); AZ (concat (nodes_tab g))].

  Definition hinv (s : st) : Prop :=
    s_dom s = s_dom s0 /\
    (exists ext, s_hp s = s_hp s0 ++ ext) /\
    Forall (fun r => (length (s_hp s0) <= r < length (s_hp s))%nat) (s_owned s).

  Lemma hinv_init : hinv s0.
  Proof. repeat split. - exists []. now rewrite app_nil_r. - constructor. Qed.

  Lemma hinv_step s o : hinv s -> hinv (fst (step s o)).
  Proof.
    intros [Hd [[ext He] Ho]]. unfold step.
    destruct (query_result (s_hp s) (s_dom s) o) as [a|].
    - cbn [fst s_hp s_dom s_owned]. repeat split; [exact Hd | exists (ext ++ [a]); now rewrite He, app_assoc |].
      constructor.
      + cbn [s_hp]. rewrite app_length, He, app_length. cbn [length]. lia.
      + eapply Forall_impl; [|exact Ho]. cbn beta. intros r Hr. cbn [s_hp]. rewrite app_length. cbn [length]. lia.
    - destruct o; try (repeat split; [exact Hd | exists ext; exact He | exact Ho]).
      cbn [fst]. destruct (existsb (Nat.eqb r) (s_owned s)) eqn:Hx; [|repeat split; [exact Hd | exists ext; exact He | exact Ho]].
      cbn [fst s_hp s_dom s_owned]. apply existsb_eqb_In in Hx.
      rewrite Forall_forall in Ho. pose proof (Ho _ Hx) as Hr.
      repeat split; [exact Hd | |].
      + exists (heap_upd ext (r - length (s_hp s0)) (fill_arr v)). rewrite He. apply heap_upd_app_ge. lia.
      + apply Forall_forall. intros x Hin. cbn [s_hp]. rewrite heap_upd_length. now apply Ho.
  Qed.

  Lemma hinv_run s ops : hinv s -> hinv (run s ops).
  Proof. revert s. induction ops as [|o t IH]; intros s Hs; cbn; [exact Hs|]. apply IH. now apply hinv_step. Qed.

  (* what the object reads when the heap extends the one left by the constructor *)
  Lemma s0_hp : s_hp s0 = hp0 ++ own.
  Proof. reflexivity. Qed.

  Lemma read_own ext k : (k < 5)%nat -> nth_error ((hp0 ++ own) ++ ext) (k + length hp0) = nth_error own k.
  Proof.
    intros Hk. rewrite <- app_assoc, nth_error_app_len. rewrite nth_error_app1 by (cbn; lia). reflexivity.
  Qed.

  Lemma read_esize ext : m_esize ((hp0 ++ own) ++ ext) (s_dom s0) = h.
  Proof.
    unfold m_esize, hp_Q. cbn [s_dom s0 new_st dom_new snd r_esize].
    change (length hp0) with (0 + length hp0)%nat. now rewrite read_own by lia.
  Qed.

  Lemma read_conn ext : hp_Z ((hp0 ++ own) ++ ext) (r_conn (s_dom s0)) = conn_table g.
  Proof.
    unfold hp_Z. cbn [s_dom s0 new_st dom_new snd r_conn].
    change (S (S (length hp0))) with (2 + length hp0)%nat. now rewrite read_own by lia.
  Qed.

  Lemma read_snapshot ext : snapshot ((hp0 ++ own) ++ ext) (s_dom s0) = pure_obs g h OSnap.
  Proof.
    unfold snapshot, hp_Z, hp_Q. cbn [s_dom s0 new_st dom_new snd r_esize r_origin r_conn r_elements r_nodes
      d_nelx d_nely d_nelz d_dim d_nel d_nnodes d_elemnodes d_unit d_numbering].
    change (S (S (S (S (length hp0))))) with (4 + length hp0)%nat.
    change (S (S (S (length hp0)))) with (3 + length hp0)%nat.
    change (S (S (length hp0))) with (2 + length hp0)%nat.
    change (S (length hp0)) with (1 + length hp0)%nat.
    rewrite !read_own by lia.
    change (length hp0) with (0 + length hp0)%nat.
    rewrite !read_own by lia. reflexivity.
  Qed.

  Lemma dim_cases : wf g -> dim g = 2 \/ dim g = 3.
  Proof.
    intros [_ [Hy _]]. unfold dim. destruct (nelz g =? 0); [|now right].
    destruct (nely g =? 0) eqn:E; [apply Z.eqb_eq in E; lia | now left].
  Qed.

  Lemma node_indices_len n : wf g -> (length (node_indices g n) <= Z.to_nat (dim g))%nat.
  Proof.
    intros Hwf. unfold node_indices. destruct (dim_cases Hwf) as [E|E]; rewrite E; cbn; lia.
  Qed.

  (* every observation made on a state satisfying the invariant is the one of the pristine functional model *)
  Lemma obs_pure s o : wf g -> hinv s -> snd (step s o) = pure_obs g h o.
  Proof.
    intros Hwf [Hd [[ext He] _]]. unfold step. rewrite Hd, He, s0_hp.
    destruct o; cbn [query_result snd pure_obs].
    - reflexivity.
    - reflexivity.
    - reflexivity.
    - do 2 f_equal. apply map_ext. intros n. unfold m_node_position, node_position.
      rewrite read_esize. cbn [s_dom s0 new_st dom_new snd m_dimn d_dim].
      change (m_node_indices _ n) with (node_indices g n).
      rewrite combine_firstn_l by (apply node_indices_len; exact Hwf). reflexivity.
    - reflexivity.
    - unfold m_dofconn. now rewrite read_conn.
    - unfold m_shape, shape_fun. rewrite read_esize. cbn [s_dom s0 new_st dom_new snd m_dimn d_dim d_numbering].
      rewrite Z2Nat.id by (destruct (dim_cases Hwf) as [E|E]; rewrite E; lia). reflexivity.
    - unfold m_shape_der, shape_der. rewrite read_esize. cbn [s_dom s0 new_st dom_new snd m_dimn d_dim d_numbering].
      rewrite Z2Nat.id by (destruct (dim_cases Hwf) as [E|E]; rewrite E; lia). reflexivity.
    - unfold m_vti_spacing, m_vti_origin. now rewrite read_esize.
    - reflexivity.
    - destruct (existsb (Nat.eqb r) (s_owned s)); reflexivity.
    - apply read_snapshot.
  Qed.

  (* ---- the statements used by Props/C13.v ---- *)
  (* after ANY history (queries in any order, the caller overwriting any array it was handed, files written) the
     domain record and the arrays the object owns are what the constructor left, and the next observation is the
     one of the pristine functional model *)
  Lemma history_pure ops o : wf g ->
    let s := run s0 ops in
    s_dom s = s_dom s0 /\
    firstn (length (s_hp s0)) (s_hp s) = s_hp s0 /\
    snd (step s o) = pure_obs g h o.
  Proof.
    intros Hwf s. pose proof (hinv_run s0 ops hinv_init) as Hi. fold s in Hi.
    destruct Hi as [Hd [[ext He] Ho]]. repeat split.
    - exact Hd.
    - rewrite He. rewrite firstn_app, Nat.sub_diag, firstn_all. cbn. now rewrite app_nil_r.
    - apply obs_pure; [exact Hwf|]. repeat split; [exact Hd | exists ext; exact He | exact Ho].
  Qed.

  Lemma history_obs ops : wf g -> run_obs s0 ops = map (pure_obs g h) ops.
  Proof.
    intros Hwf. assert (Hgen : forall s, hinv s -> run_obs s ops = map (pure_obs g h) ops).
    { induction ops as [|o t IH]; intros s Hs; cbn; [reflexivity|].
      rewrite (obs_pure s o Hwf Hs). f_equal. apply IH. now apply hinv_step. }
    apply Hgen, hinv_init.
  Qed.

  (* every array handed to the caller lies behind the constructor's heap: it is none of the object's own arrays
     (and none of the arrays that existed before the object was built) *)
  Lemma history_handed_fresh ops : Forall (fun r => (length (s_hp s0) <= r)%nat) (s_owned (run s0 ops)).
  Proof.
    destruct (hinv_run s0 ops hinv_init) as [_ [_ Ho]].
    eapply Forall_impl; [|exact Ho]. cbn. intros r Hr. lia.
  Qed.
End History.
