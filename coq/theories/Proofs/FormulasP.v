(* F2: the hand-written derivatives of the formula modules are the derivatives of their responses
   (Coquelicot is_derive along an arbitrary direction v, vectors of any length). *)
From Coq Require Import Reals List Lra.
From Coquelicot Require Import Coquelicot.
From Pymoto Require Import Model.Formulas.
Import ListNotations.
Open Scope R_scope.

(* sum over a line: derivative term by term *)
Fixpoint lsum (phi : R -> R) (l : list (R * R)) (t : R) : R :=
  match l with [] => 0 | p :: l' => phi (fst p + t * snd p) + lsum phi l' t end.
Fixpoint dsum (dphi : R -> R) (l : list (R * R)) : R :=
  match l with [] => 0 | p :: l' => dphi (fst p) * snd p + dsum dphi l' end.

Lemma sumf_line phi xs vs t : sumf phi (line xs vs t) = lsum phi (combine xs vs) t.
Proof. unfold line. induction (combine xs vs) as [|p l IH]; cbn; [reflexivity|]. rewrite <- IH. reflexivity. Qed.

Lemma lsum_0 phi l : lsum phi l 0 = sumf phi (map fst l).
Proof. induction l as [|p l IH]; cbn; [reflexivity|]. rewrite IH, Rmult_0_l, Rplus_0_r. reflexivity. Qed.

Lemma is_derive_affine (x v : R) : is_derive (fun t : R => x + t * v) 0 v.
Proof. auto_derive; [exact I | ring]. Qed.

Lemma is_derive_line (phi : R -> R) (x v d : R) :
  is_derive phi x d -> is_derive (fun t : R => phi (x + t * v)) 0 (d * v).
Proof.
  intros Hp.
  assert (Hp' : is_derive phi (x + 0 * v) d) by (replace (x + 0 * v) with x by ring; exact Hp).
  pose proof (is_derive_comp phi (fun t => x + t * v) 0 d v Hp' (is_derive_affine x v)) as Hd.
  unfold scal in Hd; cbn in Hd. unfold mult in Hd; cbn in Hd.
  replace (d * v) with (v * d) by ring. exact Hd.
Qed.

Lemma is_derive_lsum (phi dphi : R -> R) (l : list (R * R)) :
  (forall p, In p l -> is_derive phi (fst p) (dphi (fst p))) ->
  is_derive (lsum phi l) 0 (dsum dphi l).
Proof.
  induction l as [|[x v] l IH]; intros H.
  - apply (is_derive_ext (fun _ : R => 0)); [reflexivity|]. cbn [dsum].
    apply (@is_derive_const R_AbsRing R_NormedModule 0 0).
  - apply (is_derive_ext (fun t => phi (x + t * v) + lsum phi l t)); [reflexivity|]. cbn [dsum fst snd].
    apply (@is_derive_plus R_AbsRing R_NormedModule (fun t => phi (x + t * v)) (lsum phi l)).
    + apply is_derive_line. apply (H (x, v)). left; reflexivity.
    + apply IH. intros p Hp. apply H. right; exact Hp.
Qed.

Lemma dsum_dot dphi xs vs : length xs = length vs ->
  dsum dphi (combine xs vs) = rdot (map dphi xs) vs.
Proof.
  revert vs; induction xs as [|x xs IH]; intros [|v vs] Hl; cbn in *; try discriminate; [reflexivity|].
  unfold rdot in *. cbn. rewrite IH by (injection Hl; auto). reflexivity.
Qed.

Lemma map_fst_combine {A B} (xs : list A) (vs : list B) : length xs = length vs -> map fst (combine xs vs) = xs.
Proof. revert vs; induction xs as [|x xs IH]; intros [|v vs] Hl; cbn in *; try discriminate; [reflexivity|]. f_equal. apply IH. injection Hl; auto. Qed.

Lemma sumf_pos phi xs : xs <> [] -> (forall x, 0 < phi x) -> 0 < sumf phi xs.
Proof.
  intros Hne Hp. destruct xs as [|x xs]; [contradiction|]. cbn.
  assert (0 <= sumf phi xs).
  { clear Hne. induction xs as [|y ys IH]; cbn; [lra|]. specialize (Hp y). lra. }
  specialize (Hp x). lra.
Qed.

Lemma rdot_map_scale c (g vs : list R) : rdot (map (fun d => c * d) g) vs = c * rdot g vs.
Proof.
  unfold rdot. revert vs; induction g as [|d g IH]; intros [|v vs]; cbn; try ring. rewrite IH. ring.
Qed.

(* ------------------------------------------------------------------ KS function *)
Theorem ks_derive rho xs vs : rho <> 0 -> xs <> [] -> length xs = length vs ->
  is_derive (fun t => ks rho (line xs vs t)) 0 (rdot (ks_grad rho xs) vs).
Proof.
  intros Hr Hne Hl. unfold ks.
  set (S := sumf (fun y => exp (rho * y)) xs).
  assert (HS : 0 < S) by (apply sumf_pos; [exact Hne | intros; apply exp_pos]).
  apply (is_derive_ext (fun t => / rho * ln (lsum (fun x => exp (rho * x)) (combine xs vs) t))).
  { intros t. rewrite sumf_line. reflexivity. }
  assert (Hs : is_derive (lsum (fun x => exp (rho * x)) (combine xs vs)) 0
                 (dsum (fun x => rho * exp (rho * x)) (combine xs vs))).
  { apply is_derive_lsum. intros p _. auto_derive; [exact I | ring]. }
  assert (H0 : lsum (fun x => exp (rho * x)) (combine xs vs) 0 = S).
  { rewrite lsum_0, map_fst_combine by exact Hl. reflexivity. }
  assert (Hln : is_derive (fun t => ln (lsum (fun x => exp (rho * x)) (combine xs vs) t)) 0
                  (dsum (fun x => rho * exp (rho * x)) (combine xs vs) * / S)).
  { pose proof (is_derive_comp ln (lsum (fun x => exp (rho * x)) (combine xs vs)) 0 (/ S) _
                  ltac:(rewrite H0; apply is_derive_Reals, derivable_pt_lim_ln; exact HS) Hs) as Hd.
    unfold scal in Hd; cbn in Hd; unfold mult in Hd; cbn in Hd. exact Hd. }
  pose proof (is_derive_scal _ 0 (/ rho) _ Hln) as Hd.
  unfold scal in Hd; cbn in Hd; unfold mult in Hd; cbn in Hd.
  replace (rdot (ks_grad rho xs) vs) with (/ rho * (dsum (fun x => rho * exp (rho * x)) (combine xs vs) * / S)); [exact Hd|].
  rewrite dsum_dot by exact Hl. unfold ks_grad. fold S.
  replace (map (fun x => rho * exp (rho * x)) xs) with (map (fun d => rho * d) (map (fun x => exp (rho * x)) xs))
    by (rewrite map_map; reflexivity).
  replace (map (fun x => exp (rho * x) / S) xs) with (map (fun d => / S * d) (map (fun x => exp (rho * x)) xs))
    by (rewrite map_map; apply map_ext; intros; unfold Rdiv; ring).
  rewrite !rdot_map_scale. field. split; [lra | exact Hr].
Qed.
