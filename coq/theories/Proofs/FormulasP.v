(* F2: the hand-written derivatives of the formula modules are the derivatives of their responses
   (Coquelicot is_derive along an arbitrary direction v, vectors of any length). *)
From Coq Require Import Reals List Lra.
From Coquelicot Require Import Coquelicot.
From Pymoto Require Import Model.Formulas.
Import ListNotations.
Open Scope R_scope.

(* sum over a line: derivative term by term *)
Fixpoint lsum (phi : R -> R) (l : list (R * R)) (t : R) : R :=
  match l with [] => 0 | p :: l' => phi (fst p + t * snd p) + lsum phi l' t end.
Fixpoint dsum (dphi : R -> R) (l : list (R * R)) : R :=
  match l with [] => 0 | p :: l' => dphi (fst p) * snd p + dsum dphi l' end.

Lemma sumf_line phi xs vs t : sumf phi (line xs vs t) = lsum phi (combine xs vs) t.
Proof. unfold line. induction (combine xs vs) as [|p l IH]; cbn; [reflexivity|]. rewrite <- IH. reflexivity. Qed.

Lemma lsum_0 phi l : lsum phi l 0 = sumf phi (map fst l).
Proof. induction l as [|p l IH]; cbn; [reflexivity|]. rewrite IH, Rmult_0_l, Rplus_0_r. reflexivity. Qed.

Lemma is_derive_affine (x v : R) : is_derive (fun t : R => x + t * v) 0 v.
Proof. auto_derive; [exact I | ring]. Qed.

Lemma is_derive_line (phi : R -> R) (x v d : R) :
  is_derive phi x d -> is_derive (fun t : R => phi (x + t * v)) 0 (d * v).
Proof.
  intros Hp.
  assert (Hp' : is_derive phi (x + 0 * v) d) by (replace (x + 0 * v) with x by ring; exact Hp).
  pose proof (is_derive_comp phi (fun t => x + t * v) 0 d v Hp' (is_derive_affine x v)) as Hd.
  unfold scal in Hd; cbn in Hd. unfold mult in Hd; cbn in Hd.
  replace (d * v) with (v * d) by ring. exact Hd.
Qed.

Lemma is_derive_lsum (phi dphi : R -> R) (l : list (R * R)) :
  (forall p, In p l -> is_derive phi (fst p) (dphi (fst p))) ->
  is_derive (lsum phi l) 0 (dsum dphi l).
Proof.
  induction l as [|[x v] l IH]; intros H.
  - apply (is_derive_ext (fun _ : R => 0)); [reflexivity|]. cbn [dsum].
    apply (@is_derive_const R_AbsRing R_NormedModule 0 0).
  - apply (is_derive_ext (fun t => phi (x + t * v) + lsum phi l t)); [reflexivity|]. cbn [dsum fst snd].
    apply (@is_derive_plus R_AbsRing R_NormedModule (fun t => phi (x + t * v)) (lsum phi l)).
    + apply is_derive_line. apply (H (x, v)). left; reflexivity.
    + apply IH. intros p Hp. apply H. right; exact Hp.
Qed.

Lemma dsum_dot dphi xs vs : length xs = length vs ->
  dsum dphi (combine xs vs) = rdot (map dphi xs) vs.
Proof.
  revert vs; induction xs as [|x xs IH]; intros [|v vs] Hl; cbn in *; try discriminate; [reflexivity|].
  unfold rdot in *. cbn. rewrite IH by (injection Hl; auto). reflexivity.
Qed.

Lemma map_fst_combine {A B} (xs : list A) (vs : list B) : length xs = length vs -> map fst (combine xs vs) = xs.
Proof. revert vs; induction xs as [|x xs IH]; intros [|v vs] Hl; cbn in *; try discriminate; [reflexivity|]. f_equal. apply IH. injection Hl; auto. Qed.

Lemma sumf_pos phi xs : xs <> [] -> (forall x, 0 < phi x) -> 0 < sumf phi xs.
Proof.
  intros Hne Hp. destruct xs as [|x xs]; [contradiction|].
  change (0 < phi x + sumf phi xs).
  assert (0 <= sumf phi xs).
  { clear Hne. induction xs as [|y ys IH]; [cbn; lra|].
    change (0 <= phi y + sumf phi ys). pose proof (Hp y). lra. }
  pose proof (Hp x). lra.
Qed.

Lemma rdot_map_scale c (g vs : list R) : rdot (map (fun d => c * d) g) vs = c * rdot g vs.
Proof.
  unfold rdot. revert vs; induction g as [|d g IH]; intros [|v vs]; cbn; try ring. rewrite IH. ring.
Qed.

(* ------------------------------------------------------------------ KS function *)
Theorem ks_derive rho xs vs : rho <> 0 -> xs <> [] -> length xs = length vs ->
  is_derive (fun t => ks rho (line xs vs t)) 0 (rdot (ks_grad rho xs) vs).
Proof.
  intros Hr Hne Hl. unfold ks.
  set (S := sumf (fun y => exp (rho * y)) xs).
  assert (HS : 0 < S) by (apply sumf_pos; [exact Hne | intros; apply exp_pos]).
  apply (is_derive_ext (fun t => / rho * ln (lsum (fun x => exp (rho * x)) (combine xs vs) t))).
  { intros t. rewrite sumf_line. reflexivity. }
  assert (Hs : is_derive (lsum (fun x => exp (rho * x)) (combine xs vs)) 0
                 (dsum (fun x => rho * exp (rho * x)) (combine xs vs))).
  { apply is_derive_lsum. intros p _. auto_derive; [exact I | ring]. }
  assert (H0 : lsum (fun x => exp (rho * x)) (combine xs vs) 0 = S).
  { rewrite lsum_0, map_fst_combine by exact Hl. reflexivity. }
  assert (Hln : is_derive (fun t => ln (lsum (fun x => exp (rho * x)) (combine xs vs) t)) 0
                  (dsum (fun x => rho * exp (rho * x)) (combine xs vs) * / S)).
  { pose proof (is_derive_comp ln (lsum (fun x => exp (rho * x)) (combine xs vs)) 0 (/ S) _
                  ltac:(rewrite H0; apply is_derive_Reals, derivable_pt_lim_ln; exact HS) Hs) as Hd.
    unfold scal in Hd; cbn in Hd; unfold mult in Hd; cbn in Hd. exact Hd. }
  pose proof (is_derive_scal _ 0 (/ rho) _ Hln) as Hd.
  unfold scal in Hd; cbn in Hd; unfold mult in Hd; cbn in Hd.
  replace (rdot (ks_grad rho xs) vs) with (/ rho * (dsum (fun x => rho * exp (rho * x)) (combine xs vs) * / S)); [exact Hd|].
  rewrite dsum_dot by exact Hl. unfold ks_grad. fold S.
  replace (map (fun x => rho * exp (rho * x)) xs) with (map (fun d => rho * d) (map (fun x => exp (rho * x)) xs))
    by (rewrite map_map; reflexivity).
  replace (map (fun x => exp (rho * x) / S) xs) with (map (fun d => / S * d) (map (fun x => exp (rho * x)) xs))
    by (rewrite map_map; apply map_ext; intros; unfold Rdiv; ring).
  rewrite !rdot_map_scale. field. split; [lra | exact Hr].
Qed.

(* ------------------------------------------------------------------ P-norm (positive data) *)
Lemma rpow_minus1 x p : 0 < x -> rpow x (p - 1) = rpow x p / x.
Proof.
  intros Hx. unfold rpow. replace ((p - 1) * ln x) with (p * ln x + - ln x) by ring.
  rewrite exp_plus, exp_Ropp, exp_ln by exact Hx. reflexivity.
Qed.

Lemma rpow_derive x p : 0 < x -> is_derive (fun y => rpow y p) x (p * rpow x (p - 1)).
Proof.
  intros Hx. rewrite rpow_minus1 by exact Hx. unfold rpow.
  auto_derive; [exact Hx | field; lra].
Qed.

Lemma rpow_pos x p : 0 < rpow x p.
Proof. apply exp_pos. Qed.

Theorem pnorm_derive p xs vs : p <> 0 -> xs <> [] -> length xs = length vs -> List.Forall (fun x => 0 < x) xs ->
  is_derive (fun t => pnorm p (line xs vs t)) 0 (rdot (pnorm_grad p xs) vs).
Proof.
  intros Hp Hne Hl Hpos. unfold pnorm.
  set (S := sumf (fun y => rpow y p) xs).
  assert (HS : 0 < S) by (apply sumf_pos; [exact Hne | intros; apply rpow_pos]).
  apply (is_derive_ext (fun t => rpow (lsum (fun x => rpow x p) (combine xs vs) t) (/ p))).
  { intros t. rewrite sumf_line. reflexivity. }
  assert (Hs : is_derive (lsum (fun x => rpow x p) (combine xs vs)) 0
                 (dsum (fun x => p * rpow x (p - 1)) (combine xs vs))).
  { apply is_derive_lsum. intros [x v] Hin. cbn [fst]. apply rpow_derive.
    apply in_combine_l in Hin. rewrite Forall_forall in Hpos. apply Hpos. exact Hin. }
  assert (H0 : lsum (fun x => rpow x p) (combine xs vs) 0 = S).
  { rewrite lsum_0, map_fst_combine by exact Hl. reflexivity. }
  pose proof (is_derive_comp (fun y => rpow y (/ p)) (lsum (fun x => rpow x p) (combine xs vs)) 0
                (/ p * rpow S (/ p - 1)) _
                ltac:(rewrite H0; apply rpow_derive; exact HS) Hs) as Hd.
  unfold scal in Hd; cbn in Hd; unfold mult in Hd; cbn in Hd.
  replace (rdot (pnorm_grad p xs) vs)
    with (dsum (fun x => p * rpow x (p - 1)) (combine xs vs) * (/ p * rpow S (/ p - 1))); [exact Hd|].
  rewrite dsum_dot by exact Hl. unfold pnorm_grad. fold S.
  replace (map (fun x => p * rpow x (p - 1)) xs) with (map (fun d => p * d) (map (fun x => rpow x (p - 1)) xs))
    by (rewrite map_map; reflexivity).
  replace (map (fun x => rpow S (/ p - 1) * rpow x (p - 1)) xs)
    with (map (fun d => rpow S (/ p - 1) * d) (map (fun x => rpow x (p - 1)) xs))
    by (rewrite map_map; reflexivity).
  rewrite !rdot_map_scale. field. exact Hp.
Qed.

(* ------------------------------------------------------------------ soft min/max *)
Lemma rdot_soft (D c alpha : R) xs vs : length xs = length vs -> D <> 0 ->
  rdot (map (fun x => exp (alpha * x) / D * (1 + alpha * (x - c))) xs) vs
  = / D * ((1 - alpha * c) * rdot (map (fun x => exp (alpha * x)) xs) vs
           + alpha * rdot (map (fun x => x * exp (alpha * x)) xs) vs).
Proof.
  intros Hl HD. unfold rdot. revert vs Hl.
  induction xs as [|x xs IH]; intros [|v vs] Hl; cbn in *; try discriminate; [field; exact HD|].
  rewrite IH by (injection Hl; auto). field. exact HD.
Qed.

Theorem softmm_derive alpha xs vs : xs <> [] -> length xs = length vs ->
  is_derive (fun t => softmm alpha (line xs vs t)) 0 (rdot (softmm_grad alpha xs) vs).
Proof.
  intros Hne Hl. unfold softmm.
  set (N := sumf (fun x => x * exp (alpha * x)) xs).
  set (D := sumf (fun x => exp (alpha * x)) xs).
  assert (HD : 0 < D) by (apply sumf_pos; [exact Hne | intros; apply exp_pos]).
  apply (is_derive_ext (fun t => lsum (fun x => x * exp (alpha * x)) (combine xs vs) t
                                 / lsum (fun x => exp (alpha * x)) (combine xs vs) t)).
  { intros t. rewrite !sumf_line. reflexivity. }
  assert (HN' : is_derive (lsum (fun x => x * exp (alpha * x)) (combine xs vs)) 0
                 (dsum (fun x => exp (alpha * x) + x * (alpha * exp (alpha * x))) (combine xs vs))).
  { apply is_derive_lsum. intros p _. auto_derive; [exact I | ring]. }
  assert (HD' : is_derive (lsum (fun x => exp (alpha * x)) (combine xs vs)) 0
                 (dsum (fun x => alpha * exp (alpha * x)) (combine xs vs))).
  { apply is_derive_lsum. intros p _. auto_derive; [exact I | ring]. }
  assert (N0 : lsum (fun x => x * exp (alpha * x)) (combine xs vs) 0 = N)
    by (rewrite lsum_0, map_fst_combine by exact Hl; reflexivity).
  assert (D0 : lsum (fun x => exp (alpha * x)) (combine xs vs) 0 = D)
    by (rewrite lsum_0, map_fst_combine by exact Hl; reflexivity).
  pose proof (is_derive_div _ _ 0 _ _ HN' HD' ltac:(rewrite D0; lra)) as Hd.
  rewrite N0, D0 in Hd.
  replace (rdot (softmm_grad alpha xs) vs)
    with ((dsum (fun x => exp (alpha * x) + x * (alpha * exp (alpha * x))) (combine xs vs) * D
           - N * dsum (fun x => alpha * exp (alpha * x)) (combine xs vs)) / (D * D)).
  { replace (D * D) with (D ^ 2) by ring. exact Hd. }
  rewrite !dsum_dot by exact Hl. unfold softmm_grad, softmm. fold N. fold D.
  (* linear algebra on the three weighted sums  A = sum e_i v_i,  B = sum x_i e_i v_i *)
  set (e := map (fun x => exp (alpha * x)) xs).
  set (xe := map (fun x => x * exp (alpha * x)) xs).
  assert (E1 : rdot (map (fun x => exp (alpha * x) + x * (alpha * exp (alpha * x))) xs) vs
               = rdot e vs + alpha * rdot xe vs).
  { unfold e, xe, rdot. clear -Hl. revert vs Hl. induction xs as [|x xs IH]; intros [|v vs] Hl; cbn in *; try discriminate; [ring|].
    rewrite IH by (injection Hl; auto). ring. }
  assert (E2 : rdot (map (fun x => alpha * exp (alpha * x)) xs) vs = alpha * rdot e vs).
  { unfold e, rdot. clear -Hl. revert vs Hl. induction xs as [|x xs IH]; intros [|v vs] Hl; cbn in *; try discriminate; [ring|].
    rewrite IH by (injection Hl; auto). ring. }
  assert (E3 : rdot (map (fun x => exp (alpha * x) / D * (1 + alpha * (x - N / D))) xs) vs
               = / D * ((1 - alpha * (N / D)) * rdot e vs + alpha * rdot xe vs)).
  { unfold e, xe. apply rdot_soft; [exact Hl | lra]. }
  rewrite E1, E2, E3. field. lra.
Qed.

(* ------------------------------------------------------------------ the Aggregation wrapper *)
(* response sf * f(x), sensitivity sf * dfdy * grad f: the seeded derivative along any direction *)
Theorem agg_wrapper_derive sf dfdy (f : list R -> R) (g : list R) xs vs :
  is_derive (fun t => f (line xs vs t)) 0 (rdot g vs) ->
  is_derive (fun t => dfdy * agg_resp sf f (line xs vs t)) 0 (rdot (agg_sens sf dfdy g) vs).
Proof.
  intros H. unfold agg_resp, agg_sens.
  pose proof (is_derive_scal _ 0 (dfdy * sf) _ H) as Hd.
  rewrite rdot_map_scale.
  apply (is_derive_ext (fun t => dfdy * sf * f (line xs vs t))); [intros t; apply Rmult_assoc|].
  replace (sf * dfdy * rdot g vs) with (dfdy * sf * rdot g vs) by ring. exact Hd.
Qed.

(* ------------------------------------------------------------------ complex norm (one entry) *)
(* d/dt |z + t v| at 0 along v = va + i vb equals Re(g v) with g = dA conj(z)/A, for dA = 1:
   Re((a - i b)(va + i vb))/A = (a va + b vb)/A *)
Theorem cnorm_derive a b va vb dA : a * a + b * b <> 0 ->
  is_derive (fun t => dA * cnorm (a + t * va) (b + t * vb)) 0
            (cnorm_sens_re dA a b * va - cnorm_sens_im dA a b * vb).
Proof.
  intros Hz. unfold cnorm, cnorm_sens_re, cnorm_sens_im, cnorm.
  assert (Hp : 0 < a * a + b * b) by nra.
  auto_derive.
  - replace ((a + 0 * va) * (a + 0 * va) + (b + 0 * vb) * (b + 0 * vb)) with (a * a + b * b) by ring. exact Hp.
  - replace ((a + 0 * va) * (a + 0 * va) + (b + 0 * vb) * (b + 0 * vb)) with (a * a + b * b) by ring.
    assert (Hs : sqrt (a * a + b * b) <> 0) by (apply Rgt_not_eq, sqrt_lt_R0; exact Hp).
    field. exact Hs.
Qed.

(* ------------------------------------------------------------------ Scaling with frozen factor *)
Theorem scaling_derive mode sf lim x v dy : lim <> 0 ->
  is_derive (fun t => dy * scaling_resp mode sf lim (x + t * v)) 0 (scaling_sens mode sf lim dy * v).
Proof.
  intros Hl. destruct mode as [|[|m]]; unfold scaling_resp, scaling_sens; auto_derive; try exact I; try (field; exact Hl).
  all: try (repeat split; auto).
Qed.
