(* Lemmas about Model/ElemHist.v: a module instance has no memory beyond the documented cache. *)
From Coq Require Import ZArith List Bool Lia.
From Pymoto Require Import Base.Num Base.Qsqrt3 Base.SparseLin Base.FEMat Model.Grid Model.Shape Model.ElemMat Model.Assembly Model.ElemOps Model.ElemHist.
Import ListNotations.

Section ElemHistP.
  Context {K : Type} `{Num K}.

  (* ---- NodalOperation / ThermoMechanical: the state never changes, every call is the call of a fresh module ---- *)
  Lemma no_hstep_state (s : @no_st K) o : fst (no_hstep s o) = s.
  Proof. destruct o; reflexivity. Qed.

  Lemma no_hstate_const (s : @no_st K) ops : hstate no_hstep s ops = s.
  Proof. induction ops as [|o t IH]; cbn; [reflexivity|]. now rewrite no_hstep_state. Qed.

  Lemma no_hstep_obs g (em : @opmat K) o : snd (no_hstep (no_prepare g em) o) = no_fresh g em o.
  Proof. destruct o; reflexivity. Qed.

  Lemma no_history g (em : @opmat K) ops : hrun no_hstep (no_prepare g em) ops = map (no_fresh g em) ops.
  Proof.
    induction ops as [|o t IH]; cbn [hrun map]; [reflexivity|].
    rewrite no_hstep_state, no_hstep_obs, IH. reflexivity.
  Qed.

  (* ---- ElementOperation / Strain / Stress / ElementAverage ---- *)
  Lemma eo_effective_idem g (em : @opmat K) ndof :
    eo_effective g (eo_effective g em ndof) ndof = eo_effective g em ndof.
  Proof.
    unfold eo_effective at 2 3. destruct (Z.eqb (om_kd em) (elemnodes g * ndof)) eqn:E.
    - unfold eo_effective. now rewrite E.
    - unfold eo_effective. cbn [om_kd]. now rewrite (Z.mul_comm ndof), Z.eqb_refl.
  Qed.

  (* the state after the first response on a nodal vector of n entries *)
  Definition eo_warm (g : grid) (em : @opmat K) (n : Z) : eo_st :=
    {| es_em := eo_effective g em (eo_ndof g n); es_dc := Some (dofconn_all g (eo_ndof g n)); es_n := n |}.

  Lemma eo_first g (em : @opmat K) n v : resp_size n (MResp v) ->
    eo_hstep g (eo_prepare em) (MResp v) = (eo_warm g em n, eo_fresh g em n (MResp v)).
  Proof.
    cbn [resp_size]. intros Hn. cbn [eo_hstep eo_prepare es_em es_dc eo_fresh]. unfold eo_response. rewrite Hn. reflexivity.
  Qed.

  Lemma eo_warm_step g (em : @opmat K) n o : resp_size n o ->
    eo_hstep g (eo_warm g em n) o = (eo_warm g em n, eo_fresh g em n o).
  Proof.
    destruct o as [v|dy]; cbn [resp_size]; intros Hn.
    - cbn [eo_hstep eo_warm es_em es_dc eo_fresh]. unfold eo_response. rewrite Hn, eo_effective_idem. reflexivity.
    - reflexivity.
  Qed.

  Lemma eo_warm_run g (em : @opmat K) n ops : Forall (resp_size n) ops ->
    hrun (eo_hstep g) (eo_warm g em n) ops = map (eo_fresh g em n) ops /\
    hstate (eo_hstep g) (eo_warm g em n) ops = eo_warm g em n.
  Proof.
    induction 1 as [|o t Ho Ht IH]; cbn [hrun hstate map]; [split; reflexivity|].
    rewrite (eo_warm_step g em n o Ho). cbn [fst snd]. destruct IH as [IH1 IH2]. now rewrite IH1, IH2.
  Qed.

  Lemma eo_history g (em : @opmat K) n v ops : resp_size n (MResp v) -> Forall (resp_size n) ops ->
    hrun (eo_hstep g) (eo_prepare em) (MResp v :: ops) = map (eo_fresh g em n) (MResp v :: ops).
  Proof.
    intros Hv Hops. cbn [hrun map]. rewrite (eo_first g em n v Hv). cbn [fst snd].
    now rewrite (proj1 (eo_warm_run g em n ops Hops)).
  Qed.

  Lemma eo_history_state g (em : @opmat K) n v ops : resp_size n (MResp v) -> Forall (resp_size n) ops ->
    hstate (eo_hstep g) (eo_prepare em) (MResp v :: ops) = eo_warm g em n.
  Proof.
    intros Hv Hops. cbn [hstate]. rewrite (eo_first g em n v Hv). cbn [fst].
    exact (proj2 (eo_warm_run g em n ops Hops)).
  Qed.
End ElemHistP.
