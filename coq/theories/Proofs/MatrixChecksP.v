(* Facts about the matrix predicates of pymoto/solvers/matrix_checks.py (Model/MatrixChecks.v) and what they
   mean for the solver choice:
   - the DIA fast path of matrix_is_diagonal never calls a non-diagonal matrix diagonal (for every size, every
     offsets array in every order, every data block); it may miss a diagonal matrix that stores explicit zero
     diagonals;
   - every other container reports exactly "all off-diagonal entries vanish";
   - symmetric / Hermitian / complex do not depend on the container;
   - auto_determine_solver stays inside the documented class of the solver it returns when the diagonal test
     is only one-sided (may miss, never invents). *)
From Coq Require Import ZArith QArith List Bool Lia.
From Pymoto Require Import Base.CQMat Model.AutoSolver Model.MatrixChecks Proofs.AutoSolverP.
Import ListNotations.

(* ---- the offsets test as the source writes it *)
Lemma offs_tests_main_only offs :
  offs_len_is offs 1 && offs_nth_is offs 0 0 = offs_main_only offs.
Proof.
  destruct offs as [|o [|o2 rest]]; [reflexivity|reflexivity|].
  unfold offs_len_is, offs_main_only.
  replace (Z.of_nat (length (o :: o2 :: rest)) =? 1)%Z with false; [reflexivity|].
  symmetry. apply Z.eqb_neq. cbn [length]. lia.
Qed.

(* ---- DIA semantics: only the main diagonal stored => nothing off the diagonal *)
Lemma cadd_c0_c0 : cadd c0 c0 = c0.
Proof. reflexivity. Qed.

Theorem dia_main_only_entry offs data i j :
  offs_main_only offs = true -> i <> j -> dia_entry offs data i j = c0.
Proof.
  destruct offs as [|o [|o2 rest]]; cbn [offs_main_only]; try discriminate.
  intros Ho Hij. apply Z.eqb_eq in Ho. subst o.
  unfold dia_entry. destruct data as [|row rest]; [reflexivity|].
  cbn [combine map fold_right fst snd].
  replace (0 =? Z.of_nat j - Z.of_nat i)%Z with false; [reflexivity|].
  symmetry. apply Z.eqb_neq. lia.
Qed.

Lemma mget_dia_dense n m offs data i j :
  (i < n)%nat -> (j < m)%nat -> mget (dia_dense n m offs data) i j = dia_entry offs data i j.
Proof.
  intros Hi Hj. unfold mget, dia_dense.
  rewrite (nth_indep _ [] (map (fun j0 => dia_entry offs data 0 j0) (seq 0 m))) by (rewrite map_length, seq_length; exact Hi).
  change (map (fun j0 => dia_entry offs data 0 j0) (seq 0 m))
    with ((fun i0 => map (fun j0 => dia_entry offs data i0 j0) (seq 0 m)) 0%nat).
  rewrite map_nth. rewrite seq_nth by exact Hi. cbn [plus].
  rewrite (nth_indep _ c0 (dia_entry offs data i 0)) by (rewrite map_length, seq_length; exact Hj).
  change (dia_entry offs data i 0) with ((fun j0 => dia_entry offs data i j0) 0%nat).
  rewrite map_nth. rewrite seq_nth by exact Hj. reflexivity.
Qed.

Lemma ncols_dia_dense n m offs data : (0 < n)%nat -> ncols (dia_dense n m offs data) = m.
Proof.
  intros Hn. destruct n as [|n]; [lia|]. unfold dia_dense. cbn [seq map ncols].
  now rewrite map_length, seq_length.
Qed.

Lemma length_dia_dense n m offs data : length (dia_dense n m offs data) = n.
Proof. unfold dia_dense. now rewrite map_length, seq_length. Qed.

Lemma offdiag_zero_spec A :
  offdiag_zero A = true <->
  forall i j, (i < length A)%nat -> (j < ncols A)%nat -> i <> j -> ceqb (mget A i j) c0 = true.
Proof.
  unfold offdiag_zero. rewrite forallb_forall. split.
  - intros H i j Hi Hj Hij.
    assert (Hin : In i (seq 0 (length A))) by (apply in_seq; lia).
    specialize (H i Hin). rewrite forallb_forall in H.
    assert (Hjn : In j (seq 0 (ncols A))) by (apply in_seq; lia).
    specialize (H j Hjn). apply orb_true_iff in H. destruct H as [H|H]; [|exact H].
    apply Nat.eqb_eq in H. contradiction.
  - intros H i Hi. apply in_seq in Hi. rewrite forallb_forall. intros j Hj. apply in_seq in Hj.
    destruct (Nat.eqb i j) eqn:E; [reflexivity|]. cbn. apply Nat.eqb_neq in E. apply H; lia.
Qed.

(* a dia_matrix that passes the fast path is diagonal, whatever it stores *)
Theorem dia_fast_path_sound n m offs data :
  offs_main_only offs = true -> offdiag_zero (dia_dense n m offs data) = true.
Proof.
  intros Ho. apply offdiag_zero_spec. intros i j Hi Hj Hij.
  rewrite length_dia_dense in Hi.
  rewrite ncols_dia_dense in Hj by lia.
  rewrite mget_dia_dense by assumption.
  rewrite (dia_main_only_entry offs data i j Ho Hij). reflexivity.
Qed.

(* the fast path is only one-sided: a diagonal matrix stored with an explicit zero diagonal is missed *)
Theorem dia_fast_path_incomplete :
  exists offs data,
    offdiag_zero (dia_dense 2 2 offs data) = true /\
    matrix_is_diagonal (atoms_of (SDiaMatrix offs) false (dia_dense 2 2 offs data)) = false.
Proof.
  exists [0%Z; 1%Z], [[cre 2; cre 3]; [c0; c0]]. split; reflexivity.
Qed.

(* ---- what each predicate reports for a stored matrix *)
Theorem diagonal_nondia s cplx A :
  st_isdia s = false -> matrix_is_diagonal (atoms_of s cplx A) = offdiag_zero A.
Proof. destruct s; cbn; try discriminate; reflexivity. Qed.

Theorem diagonal_sound s cplx A :
  (forall offs, s = SDiaMatrix offs -> exists data, A = dia_dense (length A) (ncols A) offs data) ->
  matrix_is_diagonal (atoms_of s cplx A) = true -> offdiag_zero A = true.
Proof.
  intros Hd. destruct s as [|offs|]; cbn; try (intros H; exact H).
  intros Ho. destruct (Hd offs eq_refl) as [data ->]. now apply dia_fast_path_sound.
Qed.

Theorem symmetric_any_storage s cplx A : matrix_is_symmetric (atoms_of s cplx A) = m_symmetric A.
Proof. destruct s; reflexivity. Qed.

Theorem hermitian_any_storage s cplx A :
  matrix_is_hermitian (atoms_of s cplx A) = if cplx then m_hermitian A else m_symmetric A.
Proof. destruct s, cplx; reflexivity. Qed.

Theorem complex_any_storage s cplx A : matrix_is_complex (atoms_of s cplx A) = cplx.
Proof. reflexivity. Qed.

Theorem sparse_any_storage s cplx A : matrix_is_sparse (atoms_of s cplx A) = st_sparse s.
Proof. reflexivity. Qed.

(* ---- the solver choice with a one-sided diagonal test *)
Theorem auto_class_sound_detected (m : mclass) (fd dpos dneg hp hs hc : bool) (o_diag o_herm o_sym o_pd : option bool) :
  m_square m = true -> mclass_consistent m = true ->
  implb fd (m_diag m) = true ->
  truthful o_diag (m_diag m) = true -> truthful o_herm (m_herm m) = true -> truthful o_sym (m_sym m) = true ->
  pd_truthful o_pd m = true ->
  (hs || hc) && negb (pd_heuristic_right m dpos dneg) = false ->
  admissible (auto_solver (m_sparse m) (m_square m) fd (m_complex m) (m_herm m) (m_sym m) dpos dneg
                          hp hs hc o_diag o_herm o_sym o_pd) m = true.
Proof.
  destruct m as [sp sq dg cx he sy df]; unfold mclass_consistent, pd_truthful, pd_heuristic_right; cbn.
  intros -> Hc Hfd Hd Hh Hs Hp Hheur.
  unfold auto_solver, resolve_herm_sym.
  destruct cx, he, sy; cbn in Hc; try discriminate;
  destruct dg; cbn in Hc; try discriminate;
  destruct fd; cbn in Hfd; try discriminate;
  destruct o_diag as [[|]|]; cbn in Hd; try discriminate; cbn; try reflexivity;
  destruct o_herm as [[|]|]; cbn in Hh; try discriminate;
  destruct o_sym as [[|]|]; cbn in Hs; try discriminate; cbn;
  destruct sp; cbn; try reflexivity;
  destruct hp; cbn; try reflexivity;
  destruct dpos, dneg; cbn; try reflexivity;
  destruct o_pd as [[|]|]; cbn in *; try reflexivity;
  destruct df; cbn in *; try discriminate; try reflexivity;
  destruct hs; cbn in *; try discriminate; try reflexivity;
  destruct hc; cbn in *; try discriminate; reflexivity.
Qed.

(* the true class of a stored exact matrix (definiteness is not decidable from the entries here: any value) *)
Definition mclass_of (s : storage) (cplx : bool) (A : cmat) (def : bool) : mclass :=
  {| m_sparse := st_sparse s; m_square := m_square_shape A; m_diag := offdiag_zero A; m_complex := cplx;
     m_herm := if cplx then m_hermitian A else m_symmetric A; m_sym := m_symmetric A; m_def := def |}.

(* auto_determine_solver on a stored matrix, any container, exact detection by the predicates as written *)
Theorem auto_on_class_sound (s : storage) (cplx : bool) (A : cmat) (def hp hs hc : bool)
        (o_diag o_herm o_sym o_pd : option bool) :
  let m := mclass_of s cplx A def in
  m_square_shape A = true -> mclass_consistent m = true ->
  (forall offs, s = SDiaMatrix offs -> exists data, A = dia_dense (length A) (ncols A) offs data) ->
  truthful o_diag (m_diag m) = true -> truthful o_herm (m_herm m) = true -> truthful o_sym (m_sym m) = true ->
  pd_truthful o_pd m = true ->
  (hs || hc) && negb (pd_heuristic_right m (diag_pos A) (diag_neg A)) = false ->
  admissible (auto_on s cplx A hp hs hc o_diag o_herm o_sym o_pd) m = true.
Proof.
  intros m Hsq Hc Hdia Hd Hh Hs Hp Hheur.
  unfold auto_on.
  rewrite sparse_any_storage, symmetric_any_storage, hermitian_any_storage.
  apply (auto_class_sound_detected m (matrix_is_diagonal (atoms_of s cplx A)) (diag_pos A) (diag_neg A) hp hs hc
           o_diag o_herm o_sym o_pd); try assumption.
  destruct (matrix_is_diagonal (atoms_of s cplx A)) eqn:E; [|reflexivity].
  cbn. now apply (diagonal_sound s cplx A Hdia).
Qed.

(* ------------------------------------------------------------------ the tolerance of np.allclose made explicit *)
From Coq Require Import Lqa.

Lemma offdiag_within_spec tol A :
  offdiag_within tol A = true <->
  forall i j, (i < length A)%nat -> (j < ncols A)%nat -> i <> j -> c_within tol (mget A i j) = true.
Proof.
  unfold offdiag_within. rewrite forallb_forall. split.
  - intros H i j Hi Hj Hij.
    assert (Hin : In i (seq 0 (length A))) by (apply in_seq; lia).
    specialize (H i Hin). rewrite forallb_forall in H.
    assert (Hjn : In j (seq 0 (ncols A))) by (apply in_seq; lia).
    specialize (H j Hjn). apply orb_true_iff in H. destruct H as [H|H]; [|exact H].
    apply Nat.eqb_eq in H. contradiction.
  - intros H i Hi. apply in_seq in Hi. rewrite forallb_forall. intros j Hj. apply in_seq in Hj.
    destruct (Nat.eqb i j) eqn:E; [reflexivity|]. cbn. apply Nat.eqb_neq in E. apply H; lia.
Qed.

(* sound direction: one off-diagonal entry above the tolerance and the matrix is not called diagonal (any
   container but the dia_matrix fast path, which does not look at the entries at all) *)
Theorem diagonal_tol_sound tol s cplx A i j :
  st_isdia s = false -> (i < length A)%nat -> (j < ncols A)%nat -> i <> j ->
  c_within tol (mget A i j) = false ->
  matrix_is_diagonal (atoms_of_tol tol s cplx A) = false.
Proof.
  intros Hs Hi Hj Hij Hbig.
  assert (E : matrix_is_diagonal (atoms_of_tol tol s cplx A) = offdiag_within tol A)
    by (destruct s; cbn in *; try discriminate; reflexivity).
  rewrite E. destruct (offdiag_within tol A) eqn:W; [|reflexivity].
  rewrite (proj1 (offdiag_within_spec tol A) W i j Hi Hj Hij) in Hbig. discriminate.
Qed.

Lemma zero_within tol z : (0 <= tol)%Q -> ceqb z c0 = true -> c_within tol z = true.
Proof.
  intros Ht H. unfold ceqb in H. apply andb_true_iff in H. destruct H as [H1 H2].
  apply Qeq_bool_iff in H1, H2. cbn in H1, H2.
  unfold c_within, cabs2. apply Qle_bool_iff. rewrite H1, H2. nra.
Qed.

(* an exactly diagonal matrix is recognised at every non-negative tolerance *)
Theorem offdiag_zero_within tol A : (0 <= tol)%Q -> offdiag_zero A = true -> offdiag_within tol A = true.
Proof.
  intros Ht H. apply offdiag_within_spec. intros i j Hi Hj Hij.
  apply zero_within; [exact Ht|]. exact (proj1 (offdiag_zero_spec A) H i j Hi Hj Hij).
Qed.

(* on (Gaussian) integer entries a tolerance below 1 is the exact test: why np.allclose(x, 0) is read as x = 0 in
   the correspondence on integer-valued matrices *)
Lemma integer_within tol z :
  (0 <= tol)%Q -> (tol < 1)%Q -> c_integer z = true -> c_within tol z = ceqb z c0.
Proof.
  intros Ht Ht1 Hz. destruct z as [[n dn] [m dm]]. unfold c_integer, q_integer in Hz. cbn [fst snd Qden] in Hz.
  apply andb_true_iff in Hz. destruct Hz as [Hn Hm]. apply Pos.eqb_eq in Hn, Hm. subst dn dm.
  assert (Ecabs : (cabs2 (n # 1, m # 1) == inject_Z (n * n + m * m))%Q).
  { unfold cabs2, Qeq, inject_Z. cbn. ring. }
  assert (Ht2 : (tol * tol < 1)%Q) by nra.
  unfold c_within, ceqb, c0. cbn [fst snd].
  destruct (Z.eq_dec n 0) as [En|En]; [destruct (Z.eq_dec m 0) as [Em|Em]|].
  - subst. cbn. apply Qle_bool_iff. unfold cabs2. cbn. nra.
  - replace (Qeq_bool (m # 1) 0) with false by (symmetry; apply not_true_iff_false; intro H; apply Qeq_bool_iff in H; unfold Qeq in H; cbn in H; lia).
    rewrite andb_false_r. apply not_true_iff_false. intro H. apply Qle_bool_iff in H. rewrite Ecabs in H.
    assert (1 <= n * n + m * m)%Z by nia.
    assert (1 <= inject_Z (n * n + m * m))%Q by (rewrite Zle_Qle in H0; exact H0). lra.
  - replace (Qeq_bool (n # 1) 0) with false by (symmetry; apply not_true_iff_false; intro H; apply Qeq_bool_iff in H; unfold Qeq in H; cbn in H; lia).
    cbn. apply not_true_iff_false. intro H. apply Qle_bool_iff in H. rewrite Ecabs in H.
    assert (1 <= n * n + m * m)%Z by nia.
    assert (1 <= inject_Z (n * n + m * m))%Q by (rewrite Zle_Qle in H0; exact H0). lra.
Qed.

(* K06: the absolute tolerance misclassifies a well-conditioned matrix of tiny magnitude, and the decision table then
   returns a solver whose documented class does not contain the matrix *)
Definition k06_witness : cmat :=
  rmat [[4 # 1000000000; 1 # 1000000000; 0]; [2 # 1000000000; 5 # 1000000000; 2 # 1000000000];
        [0; 3 # 1000000000; 6 # 1000000000]]%Q.

Theorem tolerance_misclassifies :
  offdiag_zero k06_witness = false /\ m_symmetric k06_witness = false /\
  matrix_is_diagonal (atoms_of_tol atol8 SDense false k06_witness) = true /\
  matrix_is_diagonal (atoms_of_tol atol8 SSparse false k06_witness) = true /\
  matrix_is_symmetric (atoms_of_tol atol8 SSparse false k06_witness) = true /\
  auto_on_tol atol8 SDense false k06_witness false false false None None None None = KDiagonal /\
  auto_on_tol atol8 SSparse false k06_witness false false false None None None None = KDiagonal /\
  admissible KDiagonal (mclass_of SDense false k06_witness false) = false /\
  admissible KDiagonal (mclass_of SSparse false k06_witness false) = false.
Proof. vm_compute. repeat split. Qed.

Lemma mget_integer A i j : m_integer A = true -> c_integer (mget A i j) = true.
Proof.
  intros H. unfold mget. unfold m_integer in H. rewrite forallb_forall in H.
  destruct (nth_in_or_default i A []) as [Hin|Hd].
  - specialize (H _ Hin). rewrite forallb_forall in H.
    destruct (nth_in_or_default j (nth i A []) c0) as [Hin2|Hd2]; [apply H; exact Hin2 | rewrite Hd2; reflexivity].
  - rewrite Hd. destruct j; reflexivity.
Qed.

Theorem integer_matrix_exact_reading tol A :
  (0 <= tol)%Q -> (tol < 1)%Q -> m_integer A = true -> offdiag_within tol A = offdiag_zero A.
Proof.
  intros Ht Ht1 Hint. apply eq_true_iff_eq.
  rewrite offdiag_within_spec, offdiag_zero_spec.
  split; intros H i j Hi Hj Hij; specialize (H i j Hi Hj Hij).
  - rewrite <- (integer_within tol _ Ht Ht1 (mget_integer A i j Hint)). exact H.
  - rewrite (integer_within tol _ Ht Ht1 (mget_integer A i j Hint)). exact H.
Qed.
