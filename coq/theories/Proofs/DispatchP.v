(* Theorems about Model/Dispatch.v: what Module.sensitivity adds, frame conditions, accumulation, seed-linearity. *)
From Coq Require Import List Bool Arith Lia.
From Pymoto Require Import Model.Dispatch.
Import ListNotations.

Section P.
  Variable V : Type.
  Variable vplus : V -> V -> V.
  Variable vzero : V.
  Hypothesis plus_assoc : forall a b c, vplus a (vplus b c) = vplus (vplus a b) c.
  Hypothesis plus_comm : forall a b, vplus a b = vplus b a.
  Hypothesis plus_0_r : forall a, vplus a vzero = a.

  Lemma plus_0_l a : vplus vzero a = a.
  Proof. rewrite plus_comm. apply plus_0_r. Qed.

  Notation env := (env V).
  Notation modl := (modl V).
  Notation sensitivity := (sensitivity vplus).
  Notation add_all := (add_all vplus).
  Notation add_sens := (add_sens vplus).

  (* None counts as zero *)
  Definition den (o : option V) : V := match o with Some v => v | None => vzero end.

  (* ---- store lemmas ---- *)
  Lemma upd_length (e : env) i s : length (upd e i s) = length e.
  Proof. revert i; induction e as [|h t IH]; intros [|i]; cbn; auto. Qed.

  Lemma get_upd_same (e : env) i s : i < length e -> get (upd e i s) i = s.
  Proof. unfold get. revert i; induction e as [|h t IH]; intros [|i] Hi; cbn in *; try lia; auto. apply IH; lia. Qed.

  Lemma get_upd_other (e : env) i j s : i <> j -> get (upd e i s) j = get e j.
  Proof. unfold get. revert i j; induction e as [|h t IH]; intros [|i] [|j] Hn; cbn; auto; try lia. Qed.

  Lemma get_upd_st_out (e : env) i s j : length e <= i -> get (upd e i s) j = get e j.
  Proof.
    unfold get. revert i j; induction e as [|h t IH]; intros i j Hi; cbn in *; [destruct i; reflexivity|].
    destruct i as [|i]; [lia|]. destruct j as [|j]; cbn; auto. apply IH; lia.
  Qed.

  Lemma den_add_sens s ds : den (se (add_sens s ds)) = vplus (den (se s)) (den ds).
  Proof.
    unfold add_sens. destruct ds as [d|]; cbn [den].
    - destruct (se s) as [a|]; cbn; [reflexivity| symmetry; apply plus_0_l].
    - symmetry. apply plus_0_r.
  Qed.

  Lemma st_add_sens s ds : st (add_sens s ds) = st s.
  Proof. unfold add_sens. destruct ds; [destruct (se s)|]; reflexivity. Qed.

  (* ---- what add_all leaves on signal i ---- *)
  Definition acc_i (i : nat) (a : V) (l : list (nat * option V)) : V :=
    fold_left (fun acc (p : nat * option V) => if Nat.eqb (fst p) i then vplus acc (den (snd p)) else acc) l a.

  Lemma add_all_cons j ds l (e : env) : add_all ((j, ds) :: l) e = add_all l (upd e j (add_sens (get e j) ds)).
  Proof. reflexivity. Qed.
  Lemma add_all_nil (e : env) : add_all [] e = e.
  Proof. reflexivity. Qed.
  Lemma acc_i_cons i a j ds l :
    acc_i i a ((j, ds) :: l) = acc_i i (if Nat.eqb j i then vplus a (den ds) else a) l.
  Proof. reflexivity. Qed.
  Lemma acc_i_nil i a : acc_i i a [] = a.
  Proof. reflexivity. Qed.

  Definition inrange (n : nat) (l : list (nat * option V)) : Prop := Forall (fun p => fst p < n) l.

  Lemma add_all_den l : forall (e : env) i, inrange (length e) l ->
    den (se (get (add_all l e) i)) = acc_i i (den (se (get e i))) l.
  Proof.
    induction l as [|[j ds] l IH]; intros e i Hr; [reflexivity|].
    inversion Hr as [|p l' Hj Hr']; subst. cbn [fst] in Hj.
    rewrite add_all_cons, acc_i_cons.
    rewrite IH by (rewrite upd_length; exact Hr'). f_equal.
    destruct (Nat.eqb_spec j i) as [->|Hn].
    - rewrite get_upd_same by exact Hj. apply den_add_sens.
    - rewrite get_upd_other by exact Hn. reflexivity.
  Qed.

  Lemma add_all_st l : forall (e : env) i, st (get (add_all l e) i) = st (get e i).
  Proof.
    induction l as [|[j ds] l IH]; intros e i; [reflexivity|].
    rewrite add_all_cons, IH.
    destruct (Nat.eq_dec j i) as [->|Hn].
    - destruct (Nat.lt_ge_cases i (length e)) as [Hl|Hl].
      + rewrite get_upd_same by exact Hl. apply st_add_sens.
      + rewrite get_upd_st_out by exact Hl. reflexivity.
    - rewrite get_upd_other by exact Hn. reflexivity.
  Qed.

  Lemma add_all_se_other l : forall (e : env) i, ~ In i (map fst l) -> se (get (add_all l e) i) = se (get e i).
  Proof.
    induction l as [|[j ds] l IH]; intros e i Hn; [reflexivity|].
    rewrite add_all_cons. cbn [map fst In] in Hn.
    rewrite IH by tauto. rewrite get_upd_other by tauto. reflexivity.
  Qed.

  Lemma add_all_length l : forall e : env, length (add_all l e) = length e.
  Proof.
    induction l as [|[j ds] l IH]; intros e; [reflexivity|].
    rewrite add_all_cons, IH. apply upd_length.
  Qed.

  (* total contribution to signal i, as one value *)
  Definition csum (i : nat) (l : list (nat * option V)) : V := acc_i i vzero l.

  Lemma acc_i_split i l : forall a, acc_i i a l = vplus a (csum i l).
  Proof.
    unfold csum. induction l as [|[j ds] l IH]; intros a.
    - rewrite !acc_i_nil. symmetry. apply plus_0_r.
    - rewrite !acc_i_cons. destruct (Nat.eqb j i).
      + rewrite IH. rewrite (IH (vplus vzero (den ds))). rewrite plus_0_l. symmetry. apply plus_assoc.
      + apply IH.
  Qed.

  (* ---- C01 dispatch: sensitivity() adds to each input the module's contribution(s); unseeded = no effect ---- *)
  Definition wf_mod (e : env) (m : modl) : Prop :=
    Forall (fun i => i < length e) (ins m) /\ Forall (fun o => o < length e) (outs m).

  Lemma inrange_contrib (e : env) (m : modl) : wf_mod e m -> inrange (length e) (contributions e m).
  Proof.
    intros [Hi _]. unfold contributions, inrange. apply Forall_forall. intros [j ds] Hin. cbn.
    apply in_combine_l in Hin. rewrite Forall_forall in Hi. apply Hi. exact Hin.
  Qed.

  Theorem sensitivity_adds (e : env) (m : modl) i : wf_mod e m ->
    den (se (get (sensitivity e m) i)) =
    if unseeded e m then den (se (get e i)) else vplus (den (se (get e i))) (csum i (contributions e m)).
  Proof.
    intros Hwf. unfold Dispatch.sensitivity. destruct (unseeded e m); [reflexivity|].
    rewrite add_all_den by (apply inrange_contrib; exact Hwf). apply acc_i_split.
  Qed.

  Theorem sensitivity_keeps_states (e : env) (m : modl) i : st (get (sensitivity e m) i) = st (get e i).
  Proof. unfold Dispatch.sensitivity. destruct (unseeded e m); [reflexivity|]. apply add_all_st. Qed.

  Theorem sensitivity_frame (e : env) (m : modl) i : ~ In i (ins m) -> se (get (sensitivity e m) i) = se (get e i).
  Proof.
    intros Hn. unfold Dispatch.sensitivity. destruct (unseeded e m); [reflexivity|].
    apply add_all_se_other. unfold contributions. intros Hin. apply Hn.
    apply in_map_iff in Hin as ([j ds] & <- & Hin). cbn. apply in_combine_l in Hin. exact Hin.
  Qed.

  (* ---- reset ---- *)
  Lemma clear_st (e : env) j i : st (get (clear e j) i) = st (get e i).
  Proof.
    unfold clear. destruct (Nat.eq_dec j i) as [->|Hn].
    - destruct (Nat.lt_ge_cases i (length e)) as [Hl|Hl];
        [rewrite get_upd_same by exact Hl; reflexivity | rewrite get_upd_st_out by exact Hl; reflexivity].
    - rewrite get_upd_other by exact Hn. reflexivity.
  Qed.

  Lemma fold_clear_st l : forall (e : env) i, st (get (fold_left (@clear V) l e) i) = st (get e i).
  Proof. induction l as [|j l IH]; intros e i; cbn [fold_left]; [reflexivity|]. rewrite IH. apply clear_st. Qed.

  Theorem reset_keeps_states (e : env) (m : modl) i : st (get (reset e m) i) = st (get e i).
  Proof. apply fold_clear_st. Qed.

  Lemma clear_length (e : env) j : length (clear e j) = length e.
  Proof. apply upd_length. Qed.

  Lemma fold_clear_none l : forall (e : env) i, i < length e ->
    (In i l \/ se (get e i) = None) -> se (get (fold_left (@clear V) l e) i) = None.
  Proof.
    induction l as [|j l IH]; intros e i Hl H; cbn [fold_left].
    - destruct H as [[]|H]; exact H.
    - apply IH; [rewrite clear_length; exact Hl|].
      destruct (Nat.eq_dec j i) as [->|Hn].
      + right. unfold clear. rewrite get_upd_same by exact Hl. reflexivity.
      + destruct H as [[H|H]|H]; [contradiction | left; exact H |].
        right. unfold clear. rewrite get_upd_other by exact Hn. exact H.
  Qed.

  Theorem reset_clears (e : env) (m : modl) i : i < length e -> In i (outs m ++ ins m) ->
    se (get (reset e m) i) = None.
  Proof. intros Hl Hin. apply fold_clear_none; auto. Qed.

  (* ---- response ---- *)
  Lemma response_se (e : env) (m : modl) i : se (get (response e m) i) = se (get e i).
  Proof.
    unfold response. generalize (combine (outs m) (resp m (map (fun i0 : nat => st (get e i0)) (ins m)))) as l.
    intros l. revert e. induction l as [|[o y] l IH]; intros e; cbn [fold_left]; [reflexivity|].
    rewrite IH. cbn [fst snd]. destruct (Nat.eq_dec o i) as [->|Hn].
    - destruct (Nat.lt_ge_cases i (length e)) as [Hl|Hl];
        [rewrite get_upd_same by exact Hl; reflexivity | rewrite get_upd_st_out by exact Hl; reflexivity].
    - rewrite get_upd_other by exact Hn. reflexivity.
  Qed.

  Lemma response_st_other (e : env) (m : modl) i : ~ In i (outs m) -> st (get (response e m) i) = st (get e i).
  Proof.
    unfold response. intros Hn.
    assert (Hn' : ~ In i (map fst (combine (outs m) (resp m (map (fun i0 : nat => st (get e i0)) (ins m)))))).
    { intros Hin. apply Hn. apply in_map_iff in Hin as ([o y] & <- & Hin). apply in_combine_l in Hin. exact Hin. }
    revert Hn'. generalize (combine (outs m) (resp m (map (fun i0 : nat => st (get e i0)) (ins m)))) as l.
    intros l. revert e. induction l as [|[o y] l IH]; intros e Hn'; cbn [fold_left]; [reflexivity|].
    cbn [map fst In] in Hn'. rewrite IH by tauto. cbn [fst snd]. rewrite get_upd_other by tauto. reflexivity.
  Qed.

  (* ---- accumulation: a second sensitivity() without reset adds the same contribution again ---- *)
  Lemma map_ext_in' {A B} (f g : A -> B) l : (forall a, In a l -> f a = g a) -> map f l = map g l.
  Proof. apply map_ext_in. Qed.

  Theorem sensitivity_twice (e : env) (m : modl) i : wf_mod e m ->
    (forall o, In o (outs m) -> ~ In o (ins m)) ->
    unseeded e m = false ->
    den (se (get (sensitivity (sensitivity e m) m) i)) =
    vplus (vplus (den (se (get e i))) (csum i (contributions e m))) (csum i (contributions e m)).
  Proof.
    intros Hwf Hdisj Hs.
    set (e1 := sensitivity e m).
    assert (Hst : forall j, st (get e1 j) = st (get e j)) by (intros j; apply sensitivity_keeps_states).
    assert (Hseeds : seeds e1 m = seeds e m).
    { unfold seeds. apply map_ext_in. intros o Ho. apply sensitivity_frame. apply Hdisj. exact Ho. }
    assert (Hc : contributions e1 m = contributions e m).
    { unfold contributions. rewrite Hseeds. f_equal. f_equal; apply map_ext; intros j; apply Hst. }
    assert (Hu : unseeded e1 m = false) by (unfold unseeded in *; rewrite Hseeds; exact Hs).
    assert (Hwf1 : wf_mod e1 m).
    { unfold wf_mod, e1, Dispatch.sensitivity. rewrite Hs. rewrite add_all_length. exact Hwf. }
    rewrite (sensitivity_adds e1 m i Hwf1), Hu, Hc.
    unfold e1. rewrite (sensitivity_adds e m i Hwf), Hs. reflexivity.
  Qed.

  (* ---- seed-linearity of the added value ---- *)
  Variable K : Type.
  Variable smul : K -> V -> V.
  Hypothesis smul_plus : forall a x y, smul a (vplus x y) = vplus (smul a x) (smul a y).
  Hypothesis smul_zero : forall a, smul a vzero = vzero.

  Lemma plus_swap a b c d : vplus (vplus a b) (vplus c d) = vplus (vplus a c) (vplus b d).
  Proof.
    rewrite <- (plus_assoc a b (vplus c d)), (plus_assoc b c d), (plus_comm b c).
    rewrite <- (plus_assoc c b d), (plus_assoc a c (vplus b d)). reflexivity.
  Qed.

  Lemma csum_linear a b i (idx : list nat) : forall (c1 c2 c3 : list (option V)),
    length c1 = length c3 -> length c2 = length c3 ->
    (forall k, den (nth k c3 None) = vplus (smul a (den (nth k c1 None))) (smul b (den (nth k c2 None)))) ->
    csum i (combine idx c3) = vplus (smul a (csum i (combine idx c1))) (smul b (csum i (combine idx c2))).
  Proof.
    unfold csum.
    induction idx as [|j idx IH]; intros c1 c2 c3 H1 H2 H; cbn [combine].
    - cbn. rewrite !smul_zero. symmetry. apply plus_0_r.
    - destruct c3 as [|x3 c3]; destruct c1 as [|x1 c1]; destruct c2 as [|x2 c2]; cbn in H1, H2; try discriminate.
      + cbn. rewrite !smul_zero. symmetry. apply plus_0_r.
      + cbn [combine]. rewrite !acc_i_cons.
        assert (IH' := IH c1 c2 c3 ltac:(lia) ltac:(lia) (fun k => H (S k))).
        destruct (Nat.eqb j i).
        * rewrite !(acc_i_split i _ (vplus vzero _)), !plus_0_l. unfold csum. rewrite IH'.
          specialize (H 0). cbn [nth] in H. rewrite H. rewrite !smul_plus. apply plus_swap.
        * exact IH'.
  Qed.
End P.
