From Coq Require Import ZArith List Bool Lia.
From Pymoto Require Import Base.Cmp Model.Signal.
Import ListNotations.
