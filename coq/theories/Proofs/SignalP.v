(* C18 — lemmas about Model/Signal.v *)
From Coq Require Import ZArith List Bool Lia Arith.
From Pymoto Require Import Base.Cmp Model.Signal.
Import ListNotations.
Local Open Scope nat_scope.
Arguments getbuf : simpl never.
Arguments rd : simpl never.
Arguments hwrite : simpl never.

(* ------------------------------------------------------------------ lists *)
Lemma upd_length {A} (l : list A) i x : length (upd l i x) = length l.
Proof. revert i; induction l as [|h t IH]; intros [|i]; cbn; auto. Qed.

Lemma nth_upd_eq {A} (l : list A) i x d : i < length l -> nth i (upd l i x) d = x.
Proof. revert i; induction l as [|h t IH]; intros [|i] Hi; cbn in *; try lia; auto. apply IH; lia. Qed.

Lemma nth_upd_neq {A} (l : list A) i j x d : i <> j -> nth j (upd l i x) d = nth j l d.
Proof.
  revert i j; induction l as [|h t IH]; intros [|i] [|j] Hij; cbn; auto; try congruence.
  all: try (apply IH; congruence).
Qed.

Lemma upd_oob {A} (l : list A) i x : length l <= i -> upd l i x = l.
Proof. revert i; induction l as [|h t IH]; intros [|i] Hi; cbn in *; auto; try lia. f_equal. apply IH; lia. Qed.

Lemma wr_list_length d ix vs : length (wr_list d ix vs) = length d.
Proof.
  revert d vs; induction ix as [|i ix IH]; intros d [|v vs]; cbn; auto.
  rewrite IH. apply upd_length.
Qed.

Lemma wr_list_frame d ix vs k : ~ In k ix -> nth k (wr_list d ix vs) c0 = nth k d c0.
Proof.
  revert d vs; induction ix as [|i ix IH]; intros d [|v vs] Hk; cbn; auto.
  rewrite IH by (intro; apply Hk; right; auto).
  apply nth_upd_neq. intro; apply Hk; left; auto.
Qed.

Lemma wr_list_read d ix vs :
  NoDup ix -> Forall (fun i => i < length d) ix -> length vs = length ix ->
  map (fun i => nth i (wr_list d ix vs) c0) ix = vs.
Proof.
  revert d vs; induction ix as [|i ix IH]; intros d [|v vs] Hnd Hin Hlen; cbn in *; try discriminate; auto.
  inversion Hnd as [|? ? Hni Hnd']; subst. inversion Hin as [|? ? Hi Hin']; subst.
  f_equal.
  - rewrite wr_list_frame by assumption. apply nth_upd_eq; assumption.
  - apply IH; auto.
    + eapply Forall_impl; [|exact Hin']. intros a Ha; cbn in Ha. rewrite upd_length; exact Ha.
Qed.

Lemma map2_length {A B D} (f : A -> B -> D) a b : length b = length a -> length (map2 f a b) = length a.
Proof. revert b; induction a as [|x a IH]; intros [|y b] H; cbn in *; try discriminate; auto. Qed.

Lemma nth_seq0 n j : j < n -> nth j (seq 0 n) 0 = j.
Proof. intros H. rewrite seq_nth; lia. Qed.

(* ------------------------------------------------------------------ heap *)
Lemma getbuf_app_old h b r : r < length h -> getbuf (h ++ [b]) r = getbuf h r.
Proof. intros H. unfold getbuf. apply app_nth1; exact H. Qed.

Lemma getbuf_app_new h b : getbuf (h ++ [b]) (length h) = b.
Proof. unfold getbuf. rewrite app_nth2 by lia. rewrite Nat.sub_diag. reflexivity. Qed.

Lemma hwrite_length h r ix vs : length (hwrite h r ix vs) = length h.
Proof. apply upd_length. Qed.

Lemma getbuf_hwrite_other h r ix vs r' : r' <> r -> getbuf (hwrite h r ix vs) r' = getbuf h r'.
Proof. intros H. unfold getbuf, hwrite. apply nth_upd_neq. congruence. Qed.

Lemma getbuf_hwrite_same h r ix vs : r < length h ->
  getbuf (hwrite h r ix vs) r = {| bdata := wr_list (bdata (getbuf h r)) ix vs; bcplx := bcplx (getbuf h r) |}.
Proof. intros H. unfold getbuf at 1, hwrite. apply nth_upd_eq. exact H. Qed.

Lemma hwrite_oob h r ix vs : length h <= r -> hwrite h r ix vs = h.
Proof. intros H. apply upd_oob; exact H. Qed.

Lemma hwrite_meta h r ix vs r' :
  length (bdata (getbuf (hwrite h r ix vs) r')) = length (bdata (getbuf h r')) /\
  bcplx (getbuf (hwrite h r ix vs) r') = bcplx (getbuf h r').
Proof.
  destruct (Nat.eq_dec r' r) as [->|Hne].
  - destruct (Nat.lt_ge_cases r (length h)) as [Hlt|Hge].
    + rewrite getbuf_hwrite_same by exact Hlt. cbn. rewrite wr_list_length. auto.
    + rewrite hwrite_oob by exact Hge. auto.
  - rewrite getbuf_hwrite_other by exact Hne. auto.
Qed.

Lemma rd_hwrite_other h r ix vs r' jx : r' <> r -> rd (hwrite h r ix vs) r' jx = rd h r' jx.
Proof. intros H. unfold rd. rewrite getbuf_hwrite_other by exact H. reflexivity. Qed.

Lemma rd_hwrite_same h r ix vs :
  r < length h -> NoDup ix -> Forall (fun i => i < length (bdata (getbuf h r))) ix -> length vs = length ix ->
  rd (hwrite h r ix vs) r ix = vs.
Proof.
  intros Hr Hnd Hin Hlen. unfold rd. rewrite getbuf_hwrite_same by exact Hr. cbn.
  apply wr_list_read; assumption.
Qed.

Lemma nth_hwrite_frame h r ix vs k : ~ In k ix ->
  nth k (bdata (getbuf (hwrite h r ix vs) r)) c0 = nth k (bdata (getbuf h r)) c0.
Proof.
  intros Hk. destruct (Nat.lt_ge_cases r (length h)) as [Hlt|Hge].
  - rewrite getbuf_hwrite_same by exact Hlt. cbn. apply wr_list_frame; exact Hk.
  - rewrite hwrite_oob by exact Hge. reflexivity.
Qed.

Lemma rd_hwrite_disjoint h r ix vs jx : (forall k, In k jx -> ~ In k ix) ->
  rd (hwrite h r ix vs) r jx = rd h r jx.
Proof.
  intros H. unfold rd. apply map_ext_in. intros k Hk. apply nth_hwrite_frame. apply H; exact Hk.
Qed.

Lemma rd_app_old h b r ix : r < length h -> rd (h ++ [b]) r ix = rd h r ix.
Proof. intros H. unfold rd. rewrite getbuf_app_old by exact H. reflexivity. Qed.

Lemma rd_whole_new h d cx : rd (h ++ [{| bdata := d; bcplx := cx |}]) (length h) (whole (length d)) = d.
Proof.
  unfold rd. rewrite getbuf_app_new. cbn. unfold whole.
  apply nth_ext with (d := c0) (d' := c0).
  - rewrite map_length, seq_length. reflexivity.
  - intros n Hn. rewrite map_length, seq_length in Hn.
    rewrite (nth_indep _ c0 (nth 0 d c0)) by (rewrite map_length, seq_length; exact Hn).
    rewrite (map_nth (fun i => nth i d c0) (seq 0 (length d)) 0 n).
    rewrite nth_seq0 by exact Hn. reflexivity.
Qed.

(* ------------------------------------------------------------------ references *)
Definition vref (v : val) : option nat := match v with VWin r _ _ => Some r | _ => None end.
Definition root (w : world) (i : nat) : rootsig := nth i (roots w) root0.

Definition heap_ext (h h' : list buf) : Prop := exists t, h' = h ++ t.
Lemma heap_ext_refl h : heap_ext h h. Proof. exists []. symmetry; apply app_nil_r. Qed.
Lemma heap_ext_trans a b c : heap_ext a b -> heap_ext b c -> heap_ext a c.
Proof. intros [t ->] [u ->]. exists (t ++ u). symmetry; apply app_assoc. Qed.
Lemma heap_ext_len h h' : heap_ext h h' -> length h <= length h'.
Proof. intros [t ->]. rewrite app_length. lia. Qed.
Lemma heap_ext_getbuf h h' r : heap_ext h h' -> r < length h -> getbuf h' r = getbuf h r.
Proof. intros [t ->] H. unfold getbuf. apply app_nth1; exact H. Qed.

(* ------------------------------------------------------------------ monad plumbing *)
Lemma bind_inv {A B} (m : M A) (f : A -> M B) w w' r :
  bind m f w = (w', r) ->
  (exists w1 a, m w = (w1, Ok a) /\ f a w1 = (w', r)) \/ (exists e, m w = (w', Er e) /\ r = Er e).
Proof.
  unfold bind. destruct (m w) as [w1 [a|e]] eqn:E; intros H.
  - left. exists w1, a. auto.
  - right. exists e. inversion H; subst. auto.
Qed.

(* ------------------------------------------------------------------ getters only allocate *)
Definition derived (n n' : nat) (v0 v : val) : Prop :=
  forall r, vref v = Some r -> vref v0 = Some r \/ (n <= r /\ r < n').

Lemma getitem_alloc v s w w' r :
  getitem v s w = (w', r) ->
  roots w' = roots w /\ vars w' = vars w /\ heap_ext (heap w) (heap w') /\
  (forall a, r = Ok a -> derived (length (heap w)) (length (heap w')) v a).
Proof.
  unfold getitem.
  assert (Hf : forall e, fail e w = (w', r) ->
    roots w' = roots w /\ vars w' = vars w /\ heap_ext (heap w) (heap w') /\
    (forall a, r = Ok a -> derived (length (heap w)) (length (heap w')) v a)).
  { unfold fail; intros e H; inversion H; subst. split; [reflexivity|split; [reflexivity|split; [apply heap_ext_refl|]]].
    intros a Ha; discriminate. }
  destruct v as [|c cx np|r0 ix shp]; try (apply Hf).
  destruct (lookup_slc s shp) as [si|]; [|apply Hf].
  destruct (si_kind si).
  - unfold ret. intros H; inversion H; subst. split; [reflexivity|split; [reflexivity|split; [apply heap_ext_refl|]]].
    intros a Ha; inversion Ha; subst. intros r Hr; cbn in Hr. left. exact Hr.
  - unfold bind, mread, mcplx, new_array, bind, halloc, ret. cbn. intros H; inversion H; subst. cbn.
    split; [reflexivity|split; [reflexivity|split; [eexists; reflexivity|]]].
    intros a Ha; inversion Ha; subst. intros r Hr; cbn in Hr. inversion Hr; subst. right.
    rewrite app_length; cbn; lia.
  - unfold bind, mread, mcplx, ret. cbn. intros H; inversion H; subst.
    split; [reflexivity|split; [reflexivity|split; [apply heap_ext_refl|]]].
    intros a Ha; inversion Ha; subst. intros r Hr; discriminate.
  - apply Hf.
Qed.

Lemma get_fld_alloc f i p : forall w w' r,
  get_fld f i p w = (w', r) ->
  roots w' = roots w /\ vars w' = vars w /\ heap_ext (heap w) (heap w') /\
  (forall a, r = Ok a -> derived (length (heap w)) (length (heap w')) (f (root w i)) a).
Proof.
  induction p as [|s p IH]; intros w w' r H.
  - cbn in H. unfold bind, get_root, ret in H. inversion H; subst.
    split; [reflexivity|split; [reflexivity|split; [apply heap_ext_refl|]]].
    intros a Ha; inversion Ha; subst. intros r Hr. left. exact Hr.
  - cbn in H. apply bind_inv in H as [(w1 & b & H1 & H2)|(e & H1 & ->)].
    + apply IH in H1 as (Hr1 & Hv1 & He1 & Hd1). specialize (Hd1 b eq_refl).
      assert (Hg : forall b', b' = b -> getitem b' s w1 = (w', r) ->
        roots w' = roots w /\ vars w' = vars w /\ heap_ext (heap w) (heap w') /\
        (forall a, r = Ok a -> derived (length (heap w)) (length (heap w')) (f (root w i)) a)).
      { intros b' -> Hg. apply getitem_alloc in Hg as (Hr2 & Hv2 & He2 & Hd2).
        split; [congruence|split; [congruence|split; [eapply heap_ext_trans; eauto|]]].
        intros a Ha r1 Hr1'. apply heap_ext_len in He1. pose proof (heap_ext_len _ _ He2) as L2.
        destruct (Hd2 a Ha r1 Hr1') as [Hx|Hx].
        - destruct (Hd1 r1 Hx) as [Hy|Hy]; [left; exact Hy|right; lia].
        - right. lia. }
      destruct b as [|c cx np|r0 ix shp]; [|apply (Hg _ eq_refl H2)|apply (Hg _ eq_refl H2)].
      unfold ret in H2; inversion H2; subst. split; [exact Hr1|split; [exact Hv1|split; [exact He1|]]].
      intros a Ha; inversion Ha; subst. intros r Hr; discriminate.
    + apply IH in H1 as (Hr1 & Hv1 & He1 & Hd1). split; [exact Hr1|split; [exact Hv1|split; [exact He1|]]].
      intros a Ha; discriminate.
Qed.

(* ------------------------------------------------------------------ footprint logic for the sensitivity operations
   n0 : heap size of the reference world; W : the old buffers that may be written; i : the root operated on.
   A value is `vokn n` when its buffer (if any) is in W or was allocated after the reference world, and is below n. *)
Section Foot.
  Variable n0 : nat.
  Variable W : nat -> Prop.
  Variable i : nat.

  Definition vokn (n : nat) (v : val) : Prop := forall r, vref v = Some r -> (W r \/ n0 <= r) /\ r < n.
  Definition Iw (w : world) : Prop := n0 <= length (heap w) /\ vokn (length (heap w)) (r_se (root w i)).

  Lemma vokn_mono n n' v : n <= n' -> vokn n v -> vokn n' v.
  Proof. intros Hn Hv r Hr. destruct (Hv r Hr). split; [assumption|lia]. Qed.

  Record Rw (w w' : world) : Prop := {
    rw_vars : vars w' = vars w;
    rw_len : length (roots w') = length (roots w);
    rw_other : forall j, j <> i -> root w' j = root w j;
    rw_st : r_st (root w' i) = r_st (root w i);
    rw_keep : r_keep (root w' i) = r_keep (root w i);
    rw_heap : length (heap w) <= length (heap w');
    rw_meta : forall r, r < length (heap w) ->
       length (bdata (getbuf (heap w') r)) = length (bdata (getbuf (heap w) r)) /\
       bcplx (getbuf (heap w') r) = bcplx (getbuf (heap w) r);
    rw_frame : forall r, r < n0 -> ~ W r -> getbuf (heap w') r = getbuf (heap w) r
  }.

  Lemma Rw_refl w : Rw w w.
  Proof. constructor; auto. Qed.

  Lemma Rw_trans a b c : Rw a b -> Rw b c -> Rw a c.
  Proof.
    intros [v1 l1 o1 s1 k1 h1 m1 f1] [v2 l2 o2 s2 k2 h2 m2 f2]. constructor; try congruence; try lia.
    - intros j Hj. rewrite o2, o1; auto.
    - intros r Hr. destruct (m1 r Hr) as [A1 B1]. destruct (m2 r ltac:(lia)) as [A2 B2]. split; congruence.
    - intros r Hr HW. rewrite f2, f1; auto.
  Qed.

  (* from every start world whose heap has at least n buffers *)
  Definition hoare {A} (n : nat) (m : M A) (Q : A -> nat -> Prop) : Prop :=
    forall w, Iw w -> n <= length (heap w) -> forall w' r, m w = (w', r) ->
      Iw w' /\ Rw w w' /\ (forall a, r = Ok a -> Q a (length (heap w'))).

  Lemma hoare_ret {A} n (a : A) (Q : A -> nat -> Prop) : (forall n', n <= n' -> Q a n') -> hoare n (ret a) Q.
  Proof.
    intros HQ w HI Hn w' r H. unfold ret in H; inversion H; subst. split; [exact HI|split; [apply Rw_refl|]].
    intros b Hb; inversion Hb; subst. apply HQ; exact Hn.
  Qed.

  Lemma hoare_fail {A} n e (Q : A -> nat -> Prop) : hoare n (fail e) Q.
  Proof.
    intros w HI Hn w' r H. unfold fail in H; inversion H; subst. split; [exact HI|split; [apply Rw_refl|]].
    intros b Hb; discriminate.
  Qed.

  Lemma hoare_bind {A B} n (m : M A) (f : A -> M B) (Q : A -> nat -> Prop) (Q' : B -> nat -> Prop) :
    hoare n m Q -> (forall a n1, n <= n1 -> Q a n1 -> hoare n1 (f a) Q') -> hoare n (bind m f) Q'.
  Proof.
    intros Hm Hf w HI Hn w' r H. apply bind_inv in H as [(w1 & a & H1 & H2)|(e & H1 & ->)].
    - destruct (Hm w HI Hn _ _ H1) as (HI1 & HR1 & HQ1).
      assert (Hn1 : n <= length (heap w1)) by (pose proof (rw_heap _ _ HR1); lia).
      destruct (Hf a _ Hn1 (HQ1 a eq_refl) w1 HI1 (le_n _) _ _ H2) as (HI2 & HR2 & HQ2).
      split; [exact HI2|split; [eapply Rw_trans; eauto|exact HQ2]].
    - destruct (Hm w HI Hn _ _ H1) as (HI1 & HR1 & HQ1). split; [exact HI1|split; [exact HR1|]]. intros b Hb; discriminate.
  Qed.

  Lemma hoare_weaken {A} n (m : M A) (Q Q' : A -> nat -> Prop) :
    hoare n m Q -> (forall a n', Q a n' -> Q' a n') -> hoare n m Q'.
  Proof.
    intros Hm HQ w HI Hn w' r H. destruct (Hm w HI Hn _ _ H) as (A1 & A2 & A3). split; [exact A1|split; [exact A2|]].
    intros a Ha. apply HQ, A3, Ha.
  Qed.

  Lemma hoare_le {A} n n' (m : M A) Q : n <= n' -> hoare n m Q -> hoare n' m Q.
  Proof. intros Hn Hm w HI Hw. apply Hm; [exact HI|lia]. Qed.

  Definition T {A} : A -> nat -> Prop := fun _ _ => True.

  Lemma hoare_pure {A} n (g : world -> A) : hoare n (fun w => (w, Ok (g w))) T.
  Proof. intros w HI Hn w' r H. inversion H; subst. split; [exact HI|split; [apply Rw_refl|]]. intros; exact I. Qed.

  Lemma hoare_mread n r ix : hoare n (mread r ix) T.
  Proof. apply hoare_pure. Qed.
  Lemma hoare_mcplx n r : hoare n (mcplx r) T.
  Proof. apply hoare_pure. Qed.

  Lemma hoare_get_root n : hoare n (get_root i) (fun rs n' => vokn n' (r_se rs)).
  Proof.
    intros w HI Hn w' r H. unfold get_root in H. inversion H; subst. split; [exact HI|split; [apply Rw_refl|]].
    intros a Ha; inversion Ha; subst. apply HI.
  Qed.

  Lemma hoare_halloc n d cx : hoare n (halloc d cx) (fun r n' => n0 <= r /\ r < n').
  Proof.
    intros w [HI1 HI2] Hn w' r H. unfold halloc in H. inversion H; subst; clear H. cbn.
    split; [|split].
    - split; cbn. { rewrite app_length; cbn; lia. } eapply vokn_mono; [|exact HI2]. rewrite app_length; lia.
    - constructor; cbn; auto.
      + rewrite app_length; lia.
      + intros r Hr. rewrite getbuf_app_old by exact Hr. auto.
      + intros r Hr _. apply getbuf_app_old. lia.
    - intros a Ha; inversion Ha; subst. split; [exact HI1|]. rewrite app_length; cbn; lia.
  Qed.

  Lemma hoare_mwrite n r ix vs : (W r \/ n0 <= r) -> hoare n (mwrite r ix vs) T.
  Proof.
    intros Hr w [HI1 HI2] Hn w' res H. unfold mwrite in H. inversion H; subst; clear H.
    split; [|split]; [| |intros; exact I].
    - split; cbn; rewrite hwrite_length; assumption.
    - constructor; cbn; auto.
      + rewrite hwrite_length; lia.
      + intros r' _. apply hwrite_meta.
      + intros r' Hr' HW. apply getbuf_hwrite_other. intros ->. destruct Hr; [contradiction|lia].
  Qed.

  Lemma hoare_new_array n d cx shp : hoare n (new_array d cx shp) (fun v n' => vokn n' v).
  Proof.
    unfold new_array. eapply hoare_bind; [apply hoare_halloc|]. intros r n1 Hn1 [Hr1 Hr2]. apply hoare_ret.
    intros n' Hn' r' E; cbn in E; inversion E; subst. split; [right; exact Hr1|lia].
  Qed.

  Lemma vokn_none n : vokn n VNone. Proof. intros r E; discriminate. Qed.
  Lemma vokn_scal n c cx np : vokn n (VScal c cx np). Proof. intros r E; discriminate. Qed.
  Hint Resolve vokn_none vokn_scal : core.

  Lemma hoare_getitem n v s : hoare n (getitem v s) (fun a n' => vokn n v -> vokn n' a).
  Proof.
    unfold getitem. destruct v as [|c cx np|r ix shp]; try apply hoare_fail.
    destruct (lookup_slc s shp) as [si|]; [|apply hoare_fail].
    destruct (si_kind si).
    - apply hoare_ret. intros n' Hn' Hv r' E; cbn in E; inversion E; subst.
      destruct (Hv r' eq_refl). split; [assumption|lia].
    - eapply hoare_bind; [apply hoare_mread|]; intros d n1 Hn1 _.
      eapply hoare_bind; [apply hoare_mcplx|]; intros cx n2 Hn2 _.
      eapply hoare_weaken; [apply hoare_new_array|]. auto.
    - eapply hoare_bind; [apply hoare_mread|]; intros d n1 Hn1 _.
      eapply hoare_bind; [apply hoare_mcplx|]; intros cx n2 Hn2 _.
      apply hoare_ret. auto.
    - apply hoare_fail.
  Qed.

  Lemma hoare_assign n r tix isscal shp x : (W r \/ n0 <= r) -> hoare n (assign r tix isscal shp x) T.
  Proof.
    intros Hr. unfold assign. destruct x as [|c cx np|r' ix' shp'].
    - eapply hoare_bind; [apply hoare_mcplx|]; intros tcx n1 _ _. apply hoare_fail.
    - eapply hoare_bind; [apply hoare_mcplx|]; intros tcx n1 _ _.
      destruct (cx && negb tcx); [apply hoare_fail|apply hoare_mwrite; exact Hr].
    - eapply hoare_bind; [apply hoare_mread|]; intros d n1 _ _.
      eapply hoare_bind; [apply hoare_mcplx|]; intros cx n2 _ _.
      eapply hoare_bind; [apply hoare_mcplx|]; intros tcx n3 _ _.
      destruct shp'.
      + destruct (cx && negb tcx); [apply hoare_fail|apply hoare_mwrite; exact Hr].
      + destruct isscal; [apply hoare_fail|].
        destruct (negb (Zl_eqb (z :: shp') shp)); [apply hoare_fail|].
        destruct (cx && negb tcx); [apply hoare_fail|apply hoare_mwrite; exact Hr].
  Qed.

  Lemma hoare_setitem n v s x : vokn n v -> hoare n (setitem v s x) T.
  Proof.
    intros Hv. unfold setitem. destruct v as [|c cx np|r ix shp]; try apply hoare_fail.
    destruct (lookup_slc s shp) as [si|]; [|apply hoare_fail].
    assert (Hr : W r \/ n0 <= r) by (apply (Hv r); reflexivity).
    destruct (si_kind si); try apply hoare_fail; apply hoare_assign; exact Hr.
  Qed.

  Lemma hoare_mul0 n v : hoare n (mul0 v) (fun a n' => vokn n' a).
  Proof.
    unfold mul0. destruct v as [|c cx np|r ix shp]; [apply hoare_fail|apply hoare_ret; auto|].
    eapply hoare_bind; [apply hoare_mcplx|]; intros cx n1 _ _.
    destruct shp; [apply hoare_ret; auto|apply hoare_new_array].
  Qed.

  Lemma hoare_deepcopy n v : hoare n (deepcopy v) (fun a n' => vokn n' a).
  Proof.
    unfold deepcopy. destruct v as [|c cx np|r ix shp]; try (apply hoare_ret; auto).
    eapply hoare_bind; [apply hoare_mread|]; intros d n1 _ _.
    eapply hoare_bind; [apply hoare_mcplx|]; intros cx n2 _ _.
    apply hoare_new_array.
  Qed.

  Lemma hoare_iadd n t x : vokn n t -> hoare n (iadd t x) (fun a n' => vokn n' a).
  Proof.
    intros Ht. unfold iadd. destruct t as [|c cx np|r ix shp]; [apply hoare_fail| |].
    - destruct x as [|c' cx' np'|r' ix' shp']; [apply hoare_fail|apply hoare_ret; auto|].
      eapply hoare_bind; [apply hoare_mread|]; intros d n1 _ _.
      eapply hoare_bind; [apply hoare_mcplx|]; intros cx0 n2 _ _.
      destruct shp'; [apply hoare_ret; auto|apply hoare_new_array].
    - assert (Hr : W r \/ n0 <= r) by (apply (Ht r); reflexivity).
      assert (Hret : forall n1, n <= n1 -> hoare n1 (ret (VWin r ix shp)) (fun a n' => vokn n' a)).
      { intros n1 Hn1. apply hoare_ret. intros n' Hn'. eapply vokn_mono; [|exact Ht]. lia. }
      eapply hoare_bind; [apply hoare_mcplx|]; intros tcx n1 Hn1 _.
      eapply hoare_bind; [apply hoare_mread|]; intros cur n2 Hn2 _.
      destruct x as [|c' cx' np'|r' ix' shp']; [apply hoare_fail| |].
      + destruct (cx' && negb tcx); [apply hoare_fail|].
        eapply hoare_bind; [apply hoare_mwrite; exact Hr|]; intros _ n3 Hn3 _. apply Hret; lia.
      + eapply hoare_bind; [apply hoare_mread|]; intros d n3 Hn3 _.
        eapply hoare_bind; [apply hoare_mcplx|]; intros cx0 n4 Hn4 _.
        destruct (cx0 && negb tcx); [apply hoare_fail|].
        destruct shp'.
        * eapply hoare_bind; [apply hoare_mwrite; exact Hr|]; intros _ n5 Hn5 _. apply Hret; lia.
        * destruct (negb (Zl_eqb (z :: shp') shp)); [apply hoare_fail|].
          eapply hoare_bind; [apply hoare_mwrite; exact Hr|]; intros _ n5 Hn5 _. apply Hret; lia.
  Qed.

  (* t + x out of place: reads only, at most one fresh buffer *)
  Lemma hoare_oadd n t x : hoare n (oadd t x) (fun a n' => vokn n' a).
  Proof.
    unfold oadd. destruct t as [|c cx np|r ix shp]; try apply hoare_fail.
    eapply hoare_bind; [apply hoare_mcplx|]; intros tcx n1 _ _.
    eapply hoare_bind; [apply hoare_mread|]; intros cur n2 _ _.
    destruct x as [|c' cx' np'|r' ix' shp']; [apply hoare_fail| |].
    - destruct shp; [apply hoare_ret; auto|apply hoare_new_array].
    - eapply hoare_bind; [apply hoare_mread|]; intros d n3 _ _.
      eapply hoare_bind; [apply hoare_mcplx|]; intros cx0 n4 _ _.
      destruct shp' as [|z' shp'], shp as [|z shp]; try apply hoare_new_array; [apply hoare_ret; auto|].
      destruct (negb (Zl_eqb (z' :: shp') (z :: shp))); [apply hoare_fail|apply hoare_new_array].
  Qed.

  (* try / except TypeError *)
  Lemma hoare_catch_type {A} n (m h : M A) (Q : A -> nat -> Prop) :
    hoare n m Q -> (forall n1, n <= n1 -> hoare n1 h Q) -> hoare n (catch_type m h) Q.
  Proof.
    intros Hm Hh w HI Hn w' r H. unfold catch_type in H.
    destruct (m w) as [w1 r1] eqn:E. destruct (Hm w HI Hn _ _ E) as (HI1 & HR1 & HQ1).
    assert (Hn1 : n <= length (heap w1)) by (pose proof (rw_heap _ _ HR1); lia).
    destruct r1 as [a|e].
    - inversion H; subst. split; [exact HI1|split; [exact HR1|exact HQ1]].
    - destruct e; try (inversion H; subst; split; [exact HI1|split; [exact HR1|intros b Hb; discriminate]]).
      destruct (Hh _ Hn1 w1 HI1 (le_n _) _ _ H) as (HI2 & HR2 & HQ2).
      split; [exact HI2|split; [eapply Rw_trans; eauto|exact HQ2]].
  Qed.

  Lemma hoare_iadd_promote n t x : vokn n t -> hoare n (iadd_promote t x) (fun a n' => vokn n' a).
  Proof.
    intros Ht. unfold iadd_promote. apply hoare_catch_type; [apply hoare_iadd; exact Ht|].
    intros n1 _. apply hoare_oadd.
  Qed.

  Lemma hoare_get_se n p : hoare n (get_se i p) (fun a n' => vokn n' a).
  Proof.
    unfold get_se. revert n. induction p as [|s p IH]; intros n; cbn.
    - eapply hoare_bind; [apply hoare_get_root|]. intros rs n1 Hn1 Hrs. apply hoare_ret.
      intros n' Hn'. eapply vokn_mono; eauto.
    - eapply hoare_bind; [apply IH|]. intros b n1 Hn1 Hb.
      destruct b; [apply hoare_ret; auto| |]; (eapply hoare_weaken; [apply hoare_getitem|]; auto).
  Qed.

  Lemma hoare_get_st n p : hoare n (get_st i p) T.
  Proof.
    unfold get_st. revert n. induction p as [|s p IH]; intros n; cbn.
    - eapply hoare_bind; [apply hoare_get_root|]. intros rs n1 _ _. apply hoare_ret; intros; exact I.
    - eapply hoare_bind; [apply IH|]. intros b n1 _ _.
      destruct b; [apply hoare_ret; intros; exact I| |]; (eapply hoare_weaken; [apply hoare_getitem|]; intros; exact I).
  Qed.

  Lemma hoare_put_se n x : vokn n x ->
    hoare n (bind (get_root i) (fun rs => put_root i {| r_st := r_st rs; r_se := x; r_keep := r_keep rs |})) T.
  Proof.
    intros Hx w [HI1 HI2] Hn w' r H. unfold bind, get_root, put_root in H. inversion H; subst; clear H.
    fold (root w i). unfold Iw, root at 1. cbn.
    destruct (Nat.lt_ge_cases i (length (roots w))) as [Hlt|Hge].
    - split; [|split]; [| |intros; exact I].
      + split; [exact HI1|]. rewrite nth_upd_eq by exact Hlt. cbn. eapply vokn_mono; eauto.
      + constructor; unfold root; cbn; auto.
        * apply upd_length.
        * intros j Hj. apply nth_upd_neq. congruence.
        * rewrite nth_upd_eq by exact Hlt. reflexivity.
        * rewrite nth_upd_eq by exact Hlt. reflexivity.
    - rewrite upd_oob by exact Hge.
      replace (set_roots w (roots w)) with w by (destruct w; reflexivity).
      split; [split; [exact HI1|exact HI2]|split; [apply Rw_refl|intros; exact I]].
  Qed.

  Lemma hoare_set_se p : forall n x, vokn n x -> hoare n (set_se i p x) T.
  Proof.
    induction p as [|s p IH]; intros n x Hx.
    - cbn. apply hoare_put_se; exact Hx.
    - cbn. eapply hoare_bind; [apply hoare_get_se|]. intros bs n1 Hn1 Hbs.
      eapply hoare_bind with (Q := T).
      + destruct (is_none bs); [|apply hoare_ret; intros; exact I].
        destruct (is_none x); [apply hoare_ret; intros; exact I|].
        eapply hoare_bind; [apply hoare_get_st|]; intros b n2 Hn2 _.
        eapply hoare_bind; [apply hoare_mul0|]; intros z n3 Hn3 Hz.
        eapply hoare_bind; [apply IH; exact Hz|]; intros _ n4 Hn4 _. apply hoare_ret; intros; exact I.
      + intros cont n2 Hn2 _. destruct cont; [|apply hoare_ret; intros; exact I].
        eapply hoare_bind; [apply hoare_get_se|]. intros bs' n3 Hn3 Hbs'.
        apply hoare_setitem; exact Hbs'.
  Qed.

  Lemma hoare_add_se n p ds : hoare n (add_se i p ds) T.
  Proof.
    unfold add_se. destruct (is_none ds); [apply hoare_ret; intros; exact I|].
    destruct p as [|s p'].
    - eapply hoare_bind; [apply hoare_get_se|]. intros cur n1 Hn1 Hcur.
      destruct (is_none cur).
      + eapply hoare_bind; [apply hoare_deepcopy|]. intros c n2 Hn2 Hc. apply hoare_set_se; exact Hc.
      + eapply hoare_bind; [apply hoare_iadd_promote; exact Hcur|]. intros t n2 Hn2 Ht. apply hoare_set_se; exact Ht.
    - eapply hoare_bind; [apply hoare_get_se|]. intros bs n1 Hn1 Hbs.
      eapply hoare_bind with (Q := T).
      + destruct (is_none bs); [|apply hoare_ret; intros; exact I].
        eapply hoare_bind; [apply hoare_get_st|]; intros b n2 Hn2 _.
        eapply hoare_bind; [apply hoare_mul0|]; intros z n3 Hn3 Hz. apply hoare_set_se; exact Hz.
      + intros _ n2 Hn2 _. eapply hoare_bind; [apply hoare_get_se|]. intros _ n3 Hn3 _.
        eapply hoare_bind; [apply hoare_get_se|]. intros cur n4 Hn4 Hcur.
        eapply hoare_bind; [apply hoare_iadd; exact Hcur|]. intros t n5 Hn5 Ht. apply hoare_set_se; exact Ht.
  Qed.

  Lemma hoare_reset n p k : hoare n (reset i p k) T.
  Proof.
    unfold reset. destruct p as [|s p'].
    - intros w HI Hn w' r H.
      unfold bind at 1 in H. unfold get_root in H. fold (root w i) in H.
      destruct (r_se (root w i)) as [|c cx np|r0 ix shp] eqn:Ese.
      + unfold ret in H; inversion H; subst. split; [exact HI|split; [apply Rw_refl|intros; exact I]].
      + destruct (match k with Some b => b | None => r_keep (root w i) end).
        * apply (hoare_put_se n (VScal c0 cx np) (vokn_scal _ _ _ _) w HI Hn w' r). unfold bind, get_root. exact H.
        * apply (hoare_put_se n VNone (vokn_none _) w HI Hn w' r). unfold bind, get_root. exact H.
      + destruct (match k with Some b => b | None => r_keep (root w i) end).
        * assert (Hr : W r0 \/ n0 <= r0) by (destruct HI as [_ HI2]; apply (HI2 r0); rewrite Ese; reflexivity).
          exact (hoare_mwrite n r0 ix _ Hr w HI Hn w' r H).
        * apply (hoare_put_se n VNone (vokn_none _) w HI Hn w' r). unfold bind, get_root. exact H.
    - eapply hoare_bind; [apply hoare_get_se|]. intros cur n1 Hn1 _.
      destruct (is_none cur); [apply hoare_ret; intros; exact I|]. apply hoare_set_se. apply vokn_none.
  Qed.
End Foot.

(* ------------------------------------------------------------------ footprints in closed form *)
Definition sens_is (w : world) (i r : nat) : Prop := vref (r_se (root w i)) = Some r.
Definition state_is (w : world) (i r : nat) : Prop := vref (r_st (root w i)) = Some r.

(* what an operation on the sensitivity of root i may change: nothing but root i's sensitivity field and the buffer it
   referred to before the call (and freshly allocated buffers); afterwards root i's sensitivity refers to the same
   buffer or to a fresh one *)
Definition sens_footprint (i : nat) (w w' : world) : Prop :=
  Rw (length (heap w)) (sens_is w i) i w w' /\
  (forall r, sens_is w' i r -> (sens_is w i r \/ length (heap w) <= r) /\ r < length (heap w')).

Lemma Iw_start w i : (forall r, sens_is w i r -> r < length (heap w)) ->
  Iw (length (heap w)) (sens_is w i) i w.
Proof. intros Hv. split; [lia|]. intros r Hr. split; [left; exact Hr|apply Hv; exact Hr]. Qed.

Lemma footprint_of_hoare {A} i (m : M A) Q w w' r :
  (forall r, sens_is w i r -> r < length (heap w)) ->
  hoare (length (heap w)) (sens_is w i) i (length (heap w)) m Q -> m w = (w', r) -> sens_footprint i w w'.
Proof.
  intros Hv Hm H. destruct (Hm w (Iw_start w i Hv) (le_n _) _ _ H) as ([HI1 HI2] & HR & _).
  split; [exact HR|]. intros r0 Hr0. apply HI2. exact Hr0.
Qed.

Theorem add_se_footprint i p ds w w' r :
  (forall r, sens_is w i r -> r < length (heap w)) -> add_se i p ds w = (w', r) -> sens_footprint i w w'.
Proof. intros Hv. eapply footprint_of_hoare; [exact Hv|apply hoare_add_se]. Qed.

Theorem reset_footprint i p k w w' r :
  (forall r, sens_is w i r -> r < length (heap w)) -> reset i p k w = (w', r) -> sens_footprint i w w'.
Proof. intros Hv. eapply footprint_of_hoare; [exact Hv|apply hoare_reset]. Qed.

(* through a slice the assigned value is only read, so no condition on it is needed *)
Lemma hoare_set_se_slice n0 W i n s p x : hoare n0 W i n (set_se i (s :: p) x) T.
Proof.
  cbn [set_se]. eapply hoare_bind; [apply hoare_get_se|]. intros bs n1 Hn1 Hbs.
  eapply hoare_bind with (Q := T).
  - destruct (is_none bs); [|apply hoare_ret; intros; exact I].
    destruct (is_none x); [apply hoare_ret; intros; exact I|].
    eapply hoare_bind; [apply hoare_get_st|]; intros b n2 Hn2 _.
    eapply hoare_bind; [apply hoare_mul0|]; intros z n3 Hn3 Hz.
    eapply hoare_bind; [apply hoare_set_se; exact Hz|]; intros _ n4 Hn4 _. apply hoare_ret; intros; exact I.
  - intros cont n2 Hn2 _. destruct cont; [|apply hoare_ret; intros; exact I].
    eapply hoare_bind; [apply hoare_get_se|]. intros bs' n3 Hn3 Hbs'.
    apply hoare_setitem; exact Hbs'.
Qed.

Theorem set_se_footprint i p x w w' r :
  (forall r, sens_is w i r -> r < length (heap w)) ->
  (forall r, vref x = Some r -> False) \/ p <> [] ->
  set_se i p x w = (w', r) -> sens_footprint i w w'.
Proof.
  intros Hv Hx H.
  destruct p as [|s p'].
  - destruct Hx as [Hx|Hx]; [|congruence].
    eapply footprint_of_hoare; [exact Hv| |exact H]. apply hoare_set_se. intros r0 Hr0. destruct (Hx r0 Hr0).
  - eapply footprint_of_hoare; [exact Hv| |exact H]. apply hoare_set_se_slice.
Qed.

(* ---- assignments through a slice of the state write only the buffer of the root's state *)
Record heap_frame (P : nat -> Prop) (h h' : list buf) : Prop := {
  hf_len : length h <= length h';
  hf_meta : forall r, r < length h ->
     length (bdata (getbuf h' r)) = length (bdata (getbuf h r)) /\ bcplx (getbuf h' r) = bcplx (getbuf h r);
  hf_frame : forall r, r < length h -> ~ P r -> getbuf h' r = getbuf h r
}.

Lemma heap_frame_refl P h : heap_frame P h h.
Proof. constructor; auto. Qed.

Lemma heap_frame_ext P h h' : heap_ext h h' -> heap_frame P h h'.
Proof.
  intros He. constructor.
  - apply heap_ext_len; exact He.
  - intros r Hr. rewrite (heap_ext_getbuf _ _ _ He Hr). auto.
  - intros r Hr _. apply heap_ext_getbuf; assumption.
Qed.

Lemma heap_frame_write P h r ix vs : (P r \/ length h <= r) -> heap_frame P h (hwrite h r ix vs).
Proof.
  intros Hr. constructor.
  - rewrite hwrite_length; lia.
  - intros r' _. apply hwrite_meta.
  - intros r' Hr' HP. apply getbuf_hwrite_other. intros ->. destruct Hr; [contradiction|lia].
Qed.

Lemma assign_frame (P : nat -> Prop) r tix isscal shp x w w' res :
  assign r tix isscal shp x w = (w', res) ->
  roots w' = roots w /\ vars w' = vars w /\ (P r -> heap_frame P (heap w) (heap w')) /\ length (heap w') = length (heap w).
Proof.
  unfold assign. intros H.
  assert (Hw : forall d, mwrite r tix d w = (w', res) ->
     roots w' = roots w /\ vars w' = vars w /\ (P r -> heap_frame P (heap w) (heap w')) /\ length (heap w') = length (heap w)).
  { intros d Hd. unfold mwrite in Hd. inversion Hd; subst. cbn. split; [reflexivity|split; [reflexivity|split]].
    - intros HP. apply heap_frame_write. left; exact HP.
    - apply hwrite_length. }
  assert (Hf : forall e, fail e w = (w', res) ->
     roots w' = roots w /\ vars w' = vars w /\ (P r -> heap_frame P (heap w) (heap w')) /\ length (heap w') = length (heap w)).
  { intros e He. unfold fail in He. inversion He; subst. split; [reflexivity|split; [reflexivity|split; [|reflexivity]]].
    intros _. apply heap_frame_refl. }
  destruct x as [|c cx np|r' ix' shp']; unfold bind, mcplx, mread in H.
  - eapply Hf; exact H.
  - destruct (cx && negb (bcplx (getbuf (heap w) r))); [eapply Hf|eapply Hw]; exact H.
  - destruct shp'.
    + destruct (bcplx (getbuf (heap w) r') && negb (bcplx (getbuf (heap w) r))); [eapply Hf|eapply Hw]; exact H.
    + destruct isscal; [eapply Hf; exact H|].
      destruct (negb (Zl_eqb (z :: shp') shp)); [eapply Hf; exact H|].
      destruct (bcplx (getbuf (heap w) r') && negb (bcplx (getbuf (heap w) r))); [eapply Hf|eapply Hw]; exact H.
Qed.

Lemma setitem_frame (P : nat -> Prop) v s x w w' res :
  setitem v s x w = (w', res) -> (forall r, vref v = Some r -> P r) ->
  roots w' = roots w /\ vars w' = vars w /\ heap_frame P (heap w) (heap w') /\ length (heap w') = length (heap w).
Proof.
  unfold setitem. intros H Hv.
  assert (Hf : forall e, fail e w = (w', res) ->
     roots w' = roots w /\ vars w' = vars w /\ heap_frame P (heap w) (heap w') /\ length (heap w') = length (heap w)).
  { intros e He. unfold fail in He. inversion He; subst. split; [reflexivity|split; [reflexivity|split; [|reflexivity]]].
    apply heap_frame_refl. }
  destruct v as [|c cx np|r ix shp]; try (eapply Hf; exact H).
  destruct (lookup_slc s shp) as [si|]; [|eapply Hf; exact H].
  assert (HP : P r) by (apply Hv; reflexivity).
  destruct (si_kind si); try (eapply Hf; exact H);
    (apply (assign_frame P) in H as (A1 & A2 & A3 & A4); split; [exact A1|split; [exact A2|split; [exact (A3 HP)|exact A4]]]).
Qed.

(* sig.state = x through a slice: roots and variables untouched; only the buffer of the root's state (or a fresh copy
   made by an inner copying slice) is written *)
Theorem set_st_slice_footprint i s p x w w' res :
  (forall r, state_is w i r -> r < length (heap w)) ->
  set_st i (s :: p) x w = (w', res) ->
  roots w' = roots w /\ vars w' = vars w /\ heap_frame (state_is w i) (heap w) (heap w').
Proof.
  intros Hv H. cbn in H. apply bind_inv in H as [(w1 & b & H1 & H2)|(e & H1 & ->)].
  - apply get_fld_alloc in H1 as (Hr1 & Hv1 & He1 & Hd1). specialize (Hd1 b eq_refl).
    apply (setitem_frame (fun r => state_is w i r \/ length (heap w) <= r)) in H2 as (Hr2 & Hv2 & Hf2 & Hl2).
    + split; [congruence|split; [congruence|]].
      destruct Hf2 as [L M F]. pose proof (heap_ext_len _ _ He1) as Hlen. constructor.
      * lia.
      * intros r Hr. destruct (M r ltac:(lia)) as [M1 M2]. rewrite (heap_ext_getbuf _ _ _ He1 Hr) in M1, M2. auto.
      * intros r Hr HP. rewrite F; [apply heap_ext_getbuf; assumption|lia|]. intros [HA|HB]; [contradiction|lia].
    + intros r Hr. destruct (Hd1 r Hr) as [Hx|Hx]; [left; exact Hx|right; lia].
  - apply get_fld_alloc in H1 as (Hr1 & Hv1 & He1 & _). split; [exact Hr1|split; [exact Hv1|]].
    apply heap_frame_ext; exact He1.
Qed.

(* ------------------------------------------------------------------ the no-alias invariant *)
Definition refs_lt (w : world) : Prop :=
  (forall v r, In v (vars w) -> vref v = Some r -> r < length (heap w)) /\
  (forall j r, state_is w j r -> r < length (heap w)) /\
  (forall j r, sens_is w j r -> r < length (heap w)).

(* the buffer held as sensitivity of a signal is referenced by nothing else *)
Definition private (w : world) : Prop :=
  forall i r, sens_is w i r ->
    (forall v, In v (vars w) -> vref v <> Some r) /\
    (forall j, ~ state_is w j r) /\
    (forall j, j <> i -> ~ sens_is w j r).

Definition Inv (w : world) : Prop := refs_lt w /\ private w.

(* what a signal holds as sensitivity, as a plain value *)
Inductive aval := ANone | AScal (c : C) (cx np : bool) | AArr (d : list C) (shp : list Z) (cx : bool).
Definition val_abs (h : list buf) (v : val) : aval :=
  match v with
  | VNone => ANone
  | VScal c cx np => AScal c cx np
  | VWin r ix shp => AArr (rd h r ix) shp (bcplx (getbuf h r))
  end.
Definition sens_abs (w : world) (i : nat) : aval := val_abs (heap w) (r_se (root w i)).
Definition state_abs (w : world) (i : nat) : aval := val_abs (heap w) (r_st (root w i)).

(* operations of the protocol: the sensitivity of a Signal is written through add_sensitivity / reset (and through
   slice assignment, which only copies data); it is not assigned an array object directly and its object is not
   handed out *)
Definition protocol (w : world) (o : op) : Prop :=
  match o with
  | OSetSens _ p v => p <> [] \/ vref (nth v (vars w) VNone) = None
  | OGetSens _ _ _ => False
  | ONewSig _ vse => vref (nth vse (vars w) VNone) = None
  | _ => True
  end.
Definition targets (o : op) (i : nat) : Prop :=
  match o with OAddSens j _ _ | OReset j _ _ | OSetSens j _ _ => j = i | _ => False end.

Definition pubval (w : world) (x : val) : Prop :=
  forall r, vref x = Some r -> r < length (heap w) /\ forall i, ~ sens_is w i r.

Lemma In_upd {A} (l : list A) k x v : In v (upd l k x) -> v = x \/ In v l.
Proof.
  revert k; induction l as [|h t IH]; intros [|k] H; cbn in *; auto.
  - destruct H; auto.
  - destruct H as [H|H]; auto. destruct (IH _ H); auto.
Qed.

Lemma val_abs_frame h h' v : (forall r, vref v = Some r -> getbuf h' r = getbuf h r) -> val_abs h' v = val_abs h v.
Proof.
  intros H. destruct v as [|c cx np|r ix shp]; cbn; auto.
  unfold rd. rewrite (H r eq_refl). reflexivity.
Qed.

Lemma pubval_var w v : Inv w -> pubval w (nth v (vars w) VNone).
Proof.
  intros [[Hl _] Hp] r Hr.
  destruct (nth_in_or_default v (vars w) VNone) as [Hin|Hd]; [|rewrite Hd in Hr; discriminate].
  split; [eapply Hl; eauto|]. intros i Hi. destruct (Hp i r Hi) as (A & _ & _). eapply A; eauto.
Qed.

Lemma pubval_state w i : Inv w -> pubval w (r_st (root w i)).
Proof.
  intros [[_ [Hl _]] Hp] r Hr. split; [eapply Hl; exact Hr|].
  intros j Hj. destruct (Hp j r Hj) as (_ & B & _). eapply B; exact Hr.
Qed.

Lemma pubval_none w : pubval w VNone. Proof. intros r Hr; discriminate. Qed.
Lemma pubval_scal w c cx np : pubval w (VScal c cx np). Proof. intros r Hr; discriminate. Qed.

(* Inv does not look at contents: same references, heap not shorter *)
Lemma Inv_same_refs w w1 : Inv w -> roots w1 = roots w -> vars w1 = vars w -> length (heap w) <= length (heap w1) -> Inv w1.
Proof.
  intros [[A [B D]] Hp] Hr Hv Hl. unfold Inv, refs_lt, private, sens_is, state_is, root in *. rewrite Hr, Hv.
  split; [split; [|split]|].
  - intros v r Hin Hx. specialize (A v r Hin Hx). lia.
  - intros j r Hx. specialize (B j r Hx). lia.
  - intros j r Hx. specialize (D j r Hx). lia.
  - exact Hp.
Qed.

Lemma pubval_same_refs w w1 x : roots w1 = roots w -> length (heap w) <= length (heap w1) -> pubval w x -> pubval w1 x.
Proof.
  intros Hr Hl Hx r E. destruct (Hx r E) as [A B]. split; [lia|]. unfold sens_is, root in *. rewrite Hr. exact B.
Qed.

Lemma pubval_fresh w w1 x : Inv w -> roots w1 = roots w -> 
  (forall r, vref x = Some r -> length (heap w) <= r /\ r < length (heap w1)) -> pubval w1 x.
Proof.
  intros [[_ [_ D]] _] Hr Hx r E. destruct (Hx r E) as [A B]. split; [exact B|].
  intros i Hi. unfold sens_is, root in Hi. rewrite Hr in Hi. specialize (D i r Hi). lia.
Qed.

Lemma Inv_put_var w k x : Inv w -> pubval w x -> Inv (set_vars w (upd (vars w) k x)).
Proof.
  intros [[A [B D]] Hp] Hx. split; [split; [|split]|]; cbn.
  - intros v r Hin E. apply In_upd in Hin as [->|Hin]; [apply Hx; exact E|eapply A; eauto].
  - exact B.
  - exact D.
  - intros i r Hi. destruct (Hp i r Hi) as (P1 & P2 & P3). split; [|split; assumption].
    intros v Hin E. cbn in Hin. apply In_upd in Hin as [->|Hin]; [|eapply P1; eauto].
    destruct (Hx r E) as [_ Hn]. apply (Hn i). exact Hi.
Qed.

Lemma sens_abs_put_var w k x i : sens_abs (set_vars w (upd (vars w) k x)) i = sens_abs w i.
Proof. reflexivity. Qed.

Lemma root_upd_eq w i rs : i < length (roots w) -> root (set_roots w (upd (roots w) i rs)) i = rs.
Proof. intros H. unfold root; cbn. apply nth_upd_eq; exact H. Qed.
Lemma root_upd_neq w i j rs : i <> j -> root (set_roots w (upd (roots w) i rs)) j = root w j.
Proof. intros H. unfold root; cbn. apply nth_upd_neq; exact H. Qed.

Lemma Inv_put_state w i x : Inv w -> pubval w x ->
  Inv (set_roots w (upd (roots w) i {| r_st := x; r_se := r_se (root w i); r_keep := r_keep (root w i) |})).
Proof.
  intros HI Hx.
  destruct (Nat.lt_ge_cases i (length (roots w))) as [Hlt|Hge].
  2:{ rewrite upd_oob by exact Hge. replace (set_roots w (roots w)) with w by (destruct w; reflexivity). exact HI. }
  set (w1 := set_roots w _).
  assert (Hse : forall j, r_se (root w1 j) = r_se (root w j)).
  { intros j. destruct (Nat.eq_dec i j) as [<-|Hne]; unfold w1; [rewrite root_upd_eq by exact Hlt; reflexivity|rewrite root_upd_neq by exact Hne; reflexivity]. }
  assert (Hst : forall j r, state_is w1 j r -> state_is w j r \/ vref x = Some r).
  { intros j r. unfold state_is. destruct (Nat.eq_dec i j) as [<-|Hne]; unfold w1; [rewrite root_upd_eq by exact Hlt; cbn; auto|rewrite root_upd_neq by exact Hne; auto]. }
  destruct HI as [[A [B D]] Hp]. split; [split; [|split]|].
  - exact A.
  - intros j r Hj. destruct (Hst j r Hj) as [H|H]; [eapply B; exact H|apply Hx; exact H].
  - intros j r Hj. unfold sens_is in Hj. rewrite Hse in Hj. eapply D; exact Hj.
  - intros j r Hj. unfold sens_is in Hj. rewrite Hse in Hj. destruct (Hp j r Hj) as (P1 & P2 & P3).
    split; [exact P1|split].
    + intros j' Hj'. destruct (Hst j' r Hj') as [H|H]; [eapply P2; exact H|]. destruct (Hx r H) as [_ Hn]. apply (Hn j). exact Hj.
    + intros j' Hne Hj'. unfold sens_is in Hj'. rewrite Hse in Hj'. eapply P3; eauto.
Qed.

(* an operation with the sensitivity footprint on root i keeps the invariant and every other signal's sensitivity *)
Lemma Inv_sens_footprint w w' i : Inv w -> sens_footprint i w w' -> Inv w'.
Proof.
  intros [[A [B D]] Hp] [HR Hnew]. destruct HR as [Rv Rl Ro Rs Rk Rh Rm Rf].
  assert (Hse : forall j r, sens_is w' j r -> j <> i -> sens_is w j r).
  { intros j r Hj Hne. unfold sens_is in *. rewrite Ro in Hj by exact Hne. exact Hj. }
  assert (Hst : forall j r, state_is w' j r -> state_is w j r).
  { intros j r Hj. unfold state_is in *. destruct (Nat.eq_dec j i) as [->|Hne]; [rewrite Rs in Hj|rewrite Ro in Hj by exact Hne]; exact Hj. }
  split; [split; [|split]|].
  - rewrite Rv. intros v r Hin E. specialize (A v r Hin E). lia.
  - intros j r Hj. specialize (B j r (Hst j r Hj)). lia.
  - intros j r Hj. destruct (Nat.eq_dec j i) as [->|Hne]; [apply Hnew; exact Hj|]. specialize (D j r (Hse j r Hj Hne)). lia.
  - intros j r Hj. rewrite Rv. destruct (Nat.eq_dec j i) as [->|Hne].
    + destruct (Hnew r Hj) as [[Hold|Hfresh] Hlt].
      * destruct (Hp i r Hold) as (P1 & P2 & P3). split; [exact P1|split].
        -- intros j' Hj'. apply (P2 j'). apply Hst; exact Hj'.
        -- intros j' Hne' Hj'. apply (P3 j' Hne'). apply Hse; assumption.
      * split; [|split].
        -- intros v Hin E. specialize (A v r Hin E). lia.
        -- intros j' Hj'. specialize (B j' r (Hst j' r Hj')). lia.
        -- intros j' Hne' Hj'. specialize (D j' r (Hse j' r Hj' Hne')). lia.
    + pose proof (Hse j r Hj Hne) as Hj0. destruct (Hp j r Hj0) as (P1 & P2 & P3). split; [exact P1|split].
      * intros j' Hj'. apply (P2 j'). apply Hst; exact Hj'.
      * intros j' Hne' Hj'. destruct (Nat.eq_dec j' i) as [->|Hne2]; [|apply (P3 j' Hne'); apply Hse; assumption].
        destruct (Hnew r Hj') as [[Hold|Hfresh] _].
        -- apply (P3 i); [congruence|exact Hold].
        -- specialize (D j r Hj0). lia.
Qed.

Lemma sens_abs_sens_footprint w w' i j : Inv w -> sens_footprint i w w' -> j <> i -> sens_abs w' j = sens_abs w j.
Proof.
  intros [[A [B D]] Hp] [HR _] Hne. destruct HR as [Rv Rl Ro Rs Rk Rh Rm Rf].
  unfold sens_abs. rewrite Ro by exact Hne. apply val_abs_frame. intros r Hr.
  apply Rf; [eapply D; exact Hr|]. intros Hi. destruct (Hp j r Hr) as (_ & _ & P3). eapply (P3 i); [congruence|exact Hi].
Qed.

(* ... and every signal's state, every variable *)
Lemma state_abs_sens_footprint w w' i j : Inv w -> sens_footprint i w w' -> state_abs w' j = state_abs w j.
Proof.
  intros [[A [B D]] Hp] [HR _]. destruct HR as [Rv Rl Ro Rs Rk Rh Rm Rf].
  unfold state_abs.
  assert (E : r_st (root w' j) = r_st (root w j)) by (destruct (Nat.eq_dec j i) as [->|Hne]; [exact Rs|rewrite Ro by exact Hne; reflexivity]).
  rewrite E. apply val_abs_frame. intros r Hr.
  apply Rf; [eapply B; exact Hr|]. intros Hi. destruct (Hp i r Hi) as (_ & P2 & _). eapply P2; exact Hr.
Qed.

(* ------------------------------------------------------------------ every protocol operation keeps the invariant and
   leaves the sensitivity of every signal it does not target unchanged *)
Lemma world_heap_ext w w1 : Inv w -> roots w1 = roots w -> vars w1 = vars w -> heap_ext (heap w) (heap w1) ->
  Inv w1 /\ forall i, sens_abs w1 i = sens_abs w i.
Proof.
  intros HI Hr Hv He. split.
  - eapply Inv_same_refs; eauto. apply heap_ext_len; exact He.
  - intros i. unfold sens_abs, root. rewrite Hr. apply val_abs_frame. intros r E.
    apply heap_ext_getbuf; [exact He|]. destruct HI as [[_ [_ D]] _]. eapply D. exact E.
Qed.

Lemma pubval_derived w w1 x0 a : Inv w -> roots w1 = roots w -> length (heap w) <= length (heap w1) ->
  derived (length (heap w)) (length (heap w1)) x0 a -> pubval w x0 -> pubval w1 a.
Proof.
  intros HI Hr Hl Hd Hx r E. destruct (Hd r E) as [H|H].
  - eapply pubval_same_refs; eauto.
  - eapply pubval_fresh; eauto. intros r' E'. rewrite E in E'; inversion E'; subst. exact H.
Qed.

Lemma step_put_var w w1 k x : Inv w -> roots w1 = roots w -> vars w1 = vars w -> heap_ext (heap w) (heap w1) ->
  pubval w1 x ->
  Inv (set_vars w1 (upd (vars w1) k x)) /\ forall i, sens_abs (set_vars w1 (upd (vars w1) k x)) i = sens_abs w i.
Proof.
  intros HI Hr Hv He Hx. destruct (world_heap_ext w w1 HI Hr Hv He) as [HI1 Hs1]. split.
  - apply Inv_put_var; assumption.
  - intros i. rewrite sens_abs_put_var. apply Hs1.
Qed.

Lemma Inv_new_sig w st se : Inv w -> pubval w st -> vref se = None ->
  let w' := set_roots w (roots w ++ [{| r_st := st; r_se := se; r_keep := negb (is_none se) |}]) in
  Inv w' /\ forall i, i < length (roots w) -> sens_abs w' i = sens_abs w i.
Proof.
  intros HI Hst Hse w'.
  assert (Hroot : forall j, (j < length (roots w) /\ root w' j = root w j) \/
                            (j = length (roots w) /\ root w j = root0 /\ r_st (root w' j) = st /\ r_se (root w' j) = se) \/
                            (root w' j = root0 /\ root w j = root0)).
  { intros j. unfold root, w'; cbn. destruct (lt_eq_lt_dec j (length (roots w))) as [[H|H]|H].
    - left. split; [exact H|]. apply app_nth1; exact H.
    - right; left. subst j. rewrite app_nth2 by lia. rewrite Nat.sub_diag. cbn. rewrite nth_overflow by lia. auto.
    - right; right. rewrite !nth_overflow; auto; try lia. rewrite app_length; cbn; lia. }
  assert (Hsens : forall j r, sens_is w' j r -> sens_is w j r).
  { intros j r Hj. unfold sens_is in *. destruct (Hroot j) as [[_ E]|[(_ & _ & _ & E)|[E _]]]; rewrite E in Hj; auto; try discriminate.
    rewrite Hse in Hj; discriminate. }
  assert (Hstate : forall j r, state_is w' j r -> state_is w j r \/ vref st = Some r).
  { intros j r Hj. unfold state_is in *. destruct (Hroot j) as [[_ E]|[(_ & _ & E & _)|[E _]]]; rewrite E in Hj; auto; try discriminate. }
  destruct HI as [[A [B D]] Hp]. split.
  - split; [split; [|split]|].
    + exact A.
    + intros j r Hj. destruct (Hstate j r Hj) as [H|H]; [eapply B; exact H|apply Hst; exact H].
    + intros j r Hj. eapply D. apply Hsens; exact Hj.
    + intros j r Hj. pose proof (Hsens j r Hj) as Hj0. destruct (Hp j r Hj0) as (P1 & P2 & P3). split; [exact P1|split].
      * intros j' Hj'. destruct (Hstate j' r Hj') as [H|H]; [eapply P2; exact H|]. destruct (Hst r H) as [_ Hn]. apply (Hn j); exact Hj0.
      * intros j' Hne Hj'. apply (P3 j' Hne). apply Hsens; exact Hj'.
  - intros i Hi. unfold sens_abs.
    replace (root w' i) with (root w i) by (unfold root, w'; cbn; symmetry; apply app_nth1; exact Hi). reflexivity.
Qed.

Lemma sens_valid w i : Inv w -> forall r, sens_is w i r -> r < length (heap w).
Proof. intros [[_ [_ D]] _] r Hr. eapply D; exact Hr. Qed.
Lemma state_valid w i : Inv w -> forall r, state_is w i r -> r < length (heap w).
Proof. intros [[_ [B _]] _] r Hr. eapply B; exact Hr. Qed.

Lemma sens_abs_put_state w i x j :
  sens_abs (set_roots w (upd (roots w) i {| r_st := x; r_se := r_se (root w i); r_keep := r_keep (root w i) |})) j = sens_abs w j.
Proof.
  unfold sens_abs. change (heap (set_roots w _)) with (heap w).
  destruct (Nat.lt_ge_cases i (length (roots w))) as [Hlt|Hge].
  - destruct (Nat.eq_dec i j) as [<-|Hne]; [rewrite root_upd_eq by exact Hlt|rewrite root_upd_neq by exact Hne]; reflexivity.
  - rewrite upd_oob by exact Hge. reflexivity.
Qed.

Theorem isolation_step w o : Inv w -> protocol w o ->
  Inv (exec o w) /\
  (forall i, ~ targets o i -> i < length (roots w) -> sens_abs (exec o w) i = sens_abs w i) /\
  length (roots w) <= length (roots (exec o w)).
Proof.
  intros HI Hp. unfold exec. destruct (step o w) as [w' res] eqn:E. cbn [fst].
  destruct o as [k d cx shp|k c cx np|k|k v s|v d|vst vse|i p v|i p v|k i p|k i p|i p v|i p kk]; cbn [step] in E.
  - (* ONewArr *)
    unfold bind, new_array, bind, halloc, ret, put_var in E. inversion E; subst; clear E.
    set (w1 := set_heap w (heap w ++ [{| bdata := d; bcplx := cx |}])).
    assert (He : heap_ext (heap w) (heap w1)) by (eexists; reflexivity).
    destruct (step_put_var w w1 k (VWin (length (heap w)) (whole (length d)) shp) HI eq_refl eq_refl He) as [A B].
    + eapply pubval_fresh; [exact HI|reflexivity|]. intros r E; cbn in E; inversion E; subst.
      unfold w1; cbn. rewrite app_length; cbn; lia.
    + split; [exact A|split; [intros i _ _; apply B|cbn; lia]].
  - (* ONewScal *)
    unfold put_var in E. inversion E; subst; clear E.
    destruct (step_put_var w w k (VScal c cx np) HI eq_refl eq_refl (heap_ext_refl _) (pubval_scal _ _ _ _)) as [A B].
    split; [exact A|split; [intros i _ _; apply B|cbn; lia]].
  - (* ONewNone *)
    unfold put_var in E. inversion E; subst; clear E.
    destruct (step_put_var w w k VNone HI eq_refl eq_refl (heap_ext_refl _) (pubval_none _)) as [A B].
    split; [exact A|split; [intros i _ _; apply B|cbn; lia]].
  - (* OSliceVar *)
    unfold bind, get_var in E.
    destruct (getitem (nth v (vars w) VNone) s w) as [w1 [a|e]] eqn:E1.
    + apply getitem_alloc in E1 as (Hr & Hv & He & Hd). specialize (Hd a eq_refl).
      unfold put_var in E. inversion E; subst; clear E.
      destruct (step_put_var w w1 k a HI Hr Hv He) as [A B].
      * eapply pubval_derived; eauto using pubval_var. apply heap_ext_len; exact He.
      * split; [exact A|split; [intros i _ _; apply B|cbn; rewrite Hr; lia]].
    + apply getitem_alloc in E1 as (Hr & Hv & He & _). inversion E; subst; clear E.
      destruct (world_heap_ext w w' HI Hr Hv He) as [A B]. split; [exact A|split; [intros i _ _; apply B|rewrite Hr; lia]].
  - (* OMut *)
    unfold bind, get_var in E.
    pose proof (pubval_var w v HI) as Hx.
    destruct (nth v (vars w) VNone) as [|c cx np|r ix shp] eqn:Ev;
      try (unfold fail in E; inversion E; subst; split; [exact HI|split; [reflexivity|lia]]).
    destruct (Nat.eqb (length d) (length ix)); [|unfold fail in E; inversion E; subst; split; [exact HI|split; [reflexivity|lia]]].
    unfold mwrite in E. inversion E; subst; clear E. split; [|split; [|cbn; lia]].
    + eapply Inv_same_refs; [exact HI|reflexivity|reflexivity|]. cbn. rewrite hwrite_length; lia.
    + intros i _ _. unfold sens_abs. cbn [heap set_heap]. change (root (set_heap w _) i) with (root w i).
      apply val_abs_frame. intros r' Hr'.
      apply getbuf_hwrite_other. intros ->. destruct (Hx r eq_refl) as [_ Hn]. apply (Hn i). exact Hr'.
  - (* ONewSig *)
    unfold bind, get_var in E. inversion E; subst; clear E.
    destruct (Inv_new_sig w (nth vst (vars w) VNone) (nth vse (vars w) VNone) HI (pubval_var _ _ HI) Hp) as [A B].
    split; [exact A|split; [intros i _ Hi; apply B; exact Hi|cbn; rewrite app_length; lia]].
  - (* OSetState *)
    unfold bind at 1 in E. unfold get_var at 1 in E.
    destruct p as [|s p'].
    + cbn in E. unfold bind, get_root, put_root in E. inversion E; subst; clear E. fold (root w i). split; [|split].
      * apply Inv_put_state; [exact HI|apply pubval_var; exact HI].
      * intros j _ _. apply sens_abs_put_state.
      * cbn. rewrite upd_length; lia.
    + apply set_st_slice_footprint in E as (Hr & Hv & Hf); [|apply state_valid; exact HI].
      destruct Hf as [L M F]. split; [|split; [|rewrite Hr; lia]].
      * eapply Inv_same_refs; eauto.
      * intros j _ _. unfold sens_abs.
        assert (Er : root w' j = root w j) by (unfold root; rewrite Hr; reflexivity).
        rewrite Er. apply val_abs_frame. intros r Hr'.
        apply F; [eapply sens_valid; eauto|]. intros Hs. destruct HI as [_ Hpr]. destruct (Hpr j r Hr') as (_ & P2 & _). eapply P2; exact Hs.
  - (* OSetSens *)
    unfold bind at 1 in E. unfold get_var at 1 in E.
    apply set_se_footprint in E; [|apply sens_valid; exact HI|].
    + split; [eapply Inv_sens_footprint; eauto|split; [|destruct E as [[] _]; lia]].
      intros j Hj _. cbn in Hj. eapply sens_abs_sens_footprint; eauto.
    + cbn in Hp. destruct Hp as [Hp|Hp]; [right; exact Hp|left]. intros r Hr. rewrite Hp in Hr; discriminate.
  - (* OGetState *)
    unfold bind in E. destruct (get_st i p w) as [w1 [a|e]] eqn:E1; unfold get_st in E1.
    + apply get_fld_alloc in E1 as (Hr & Hv & He & Hd). specialize (Hd a eq_refl).
      unfold put_var in E. inversion E; subst; clear E.
      destruct (step_put_var w w1 k a HI Hr Hv He) as [A B].
      * eapply pubval_derived; eauto using pubval_state. apply heap_ext_len; exact He.
      * split; [exact A|split; [intros j _ _; apply B|cbn; rewrite Hr; lia]].
    + apply get_fld_alloc in E1 as (Hr & Hv & He & _). inversion E; subst; clear E.
      destruct (world_heap_ext w w' HI Hr Hv He) as [A B]. split; [exact A|split; [intros j _ _; apply B|rewrite Hr; lia]].
  - (* OGetSens *) destruct Hp.
  - (* OAddSens *)
    unfold bind at 1 in E. unfold get_var at 1 in E.
    apply add_se_footprint in E; [|apply sens_valid; exact HI].
    split; [eapply Inv_sens_footprint; eauto|split; [|destruct E as [[] _]; lia]].
    intros j Hj _. cbn in Hj. eapply sens_abs_sens_footprint; eauto.
  - (* OReset *)
    apply reset_footprint in E; [|apply sens_valid; exact HI].
    split; [eapply Inv_sens_footprint; eauto|split; [|destruct E as [[] _]; lia]].
    intros j Hj _. cbn in Hj. eapply sens_abs_sens_footprint; eauto.
Qed.

(* ------------------------------------------------------------------ arbitrary operation sequences *)
Fixpoint protocol_run (w : world) (os : list op) : Prop :=
  match os with
  | [] => True
  | o :: t => protocol w o /\ protocol_run (exec o w) t
  end.

Lemma Inv_world0 n : Inv (world0 n).
Proof.
  split; [split; [|split]|].
  - intros v r Hin E. cbn in Hin. apply repeat_spec in Hin. subst; discriminate.
  - intros j r E. unfold state_is, root in E. cbn in E. destruct j; discriminate.
  - intros j r E. unfold sens_is, root in E. cbn in E. destruct j; discriminate.
  - intros j r E. unfold sens_is, root in E. cbn in E. destruct j; discriminate.
Qed.

Theorem no_alias_run : forall os w, Inv w -> protocol_run w os -> Inv (run os w).
Proof.
  induction os as [|o os IH]; intros w HI Hp; [exact HI|].
  destruct Hp as [Hp1 Hp2]. unfold run; cbn. apply IH; [|exact Hp2]. apply isolation_step; assumption.
Qed.

Theorem isolation_run : forall os w i, Inv w -> protocol_run w os -> i < length (roots w) ->
  Forall (fun o => ~ targets o i) os -> sens_abs (run os w) i = sens_abs w i.
Proof.
  induction os as [|o os IH]; intros w i HI Hp Hi Hf; [reflexivity|].
  destruct Hp as [Hp1 Hp2]. inversion Hf as [|? ? Hf1 Hf2]; subst.
  destruct (isolation_step w o HI Hp1) as (A & B & L).
  unfold run; cbn. fold (run os (exec o w)). rewrite IH; auto. lia.
Qed.

(* ================================================================== functional correctness of slices
   resolve: the positions (in the root buffer) and shape selected by a path of VIEW slices (nested basic slices),
   innermost slice last; 0-d results are excluded *)
Fixpoint resolve (ix : list nat) (shp : list Z) (p : list slc) : option (list nat * list Z) :=
  match p with
  | [] => Some (ix, shp)
  | s :: p' =>
      match resolve ix shp p' with
      | Some (ix', shp') =>
          match lookup_slc s shp' with
          | Some si =>
              match si_kind si, si_shape si with
              | KView, _ :: _ => Some (sub_ix ix' (si_idx si), si_shape si)
              | _, _ => None
              end
          | None => None
          end
      | None => None
      end
  end.

Lemma resolve_cons ix shp s p jx shp1 :
  resolve ix shp (s :: p) = Some (jx, shp1) ->
  exists jx' shp' si, resolve ix shp p = Some (jx', shp') /\ lookup_slc s shp' = Some si /\ si_kind si = KView /\
                      shp1 = si_shape si /\ shp1 <> [] /\ jx = sub_ix jx' (si_idx si).
Proof.
  cbn. destruct (resolve ix shp p) as [[jx' shp']|]; [|discriminate].
  destruct (lookup_slc s shp') as [si|] eqn:El; [|discriminate].
  destruct (si_kind si) eqn:Ek; try discriminate. destruct (si_shape si) eqn:Es; [discriminate|].
  intros H; inversion H; subst. exists jx', shp', si. repeat split; auto. congruence.
Qed.

Lemma resolve_shape ix ix' shp p : forall a s1 b s2,
  resolve ix shp p = Some (a, s1) -> resolve ix' shp p = Some (b, s2) -> s1 = s2.
Proof.
  induction p as [|s p IH]; intros a s1 b s2 H1 H2.
  - cbn in *. inversion H1; inversion H2; subst; reflexivity.
  - apply resolve_cons in H1 as (j1 & t1 & si1 & R1 & L1 & K1 & E1 & N1 & X1).
    apply resolve_cons in H2 as (j2 & t2 & si2 & R2 & L2 & K2 & E2 & N2 & X2).
    pose proof (IH _ _ _ _ R1 R2) as Et. subst t2. rewrite L1 in L2. inversion L2; subst. reflexivity.
Qed.

Lemma bind_ok {A B} (m : M A) (f : A -> M B) w w1 a : m w = (w1, Ok a) -> bind m f w = f a w1.
Proof. intros H. unfold bind. rewrite H. reflexivity. Qed.

Lemma bind_assoc {A B D} (m : M A) (f : A -> M B) (g : B -> M D) w :
  bind (bind m f) g w = bind m (fun a => bind (f a) g) w.
Proof. unfold bind. destruct (m w) as [w1 [a|e]]; reflexivity. Qed.

Lemma getitem_view r ix shp s si w :
  lookup_slc s shp = Some si -> si_kind si = KView ->
  getitem (VWin r ix shp) s w = (w, Ok (VWin r (sub_ix ix (si_idx si)) (si_shape si))).
Proof. intros L K. cbn. rewrite L, K. reflexivity. Qed.

Definition copy_buf (h : list buf) (r : nat) (tix : list nat) : buf :=
  {| bdata := rd h r tix; bcplx := bcplx (getbuf h r) |}.

Lemma rd_length h r ix : length (rd h r ix) = length ix.
Proof. apply map_length. Qed.

Lemma getitem_copy r ix shp s si w :
  lookup_slc s shp = Some si -> si_kind si = KCopy ->
  getitem (VWin r ix shp) s w =
    (set_heap w (heap w ++ [copy_buf (heap w) r (sub_ix ix (si_idx si))]),
     Ok (VWin (length (heap w)) (whole (length (si_idx si))) (si_shape si))).
Proof.
  intros L K. cbn. rewrite L, K. unfold bind, mread, mcplx, new_array, bind, halloc, ret. cbn.
  rewrite rd_length. unfold sub_ix. rewrite map_length. reflexivity.
Qed.

(* a getter through a path of views returns the window, without touching the world *)
Lemma get_fld_view f i p : forall w r ix shp jx shp1,
  f (root w i) = VWin r ix shp -> resolve ix shp p = Some (jx, shp1) ->
  get_fld f i p w = (w, Ok (VWin r jx shp1)).
Proof.
  induction p as [|s p IH]; intros w r ix shp jx shp1 Hf Hr.
  - cbn in Hr; inversion Hr; subst. cbn. unfold bind, get_root, ret. fold (root w i). rewrite Hf. reflexivity.
  - apply resolve_cons in Hr as (jx' & shp' & si & R & L & K & E & N & X). subst.
    cbn [get_fld]. rewrite (bind_ok _ _ _ _ _ (IH w r ix shp jx' shp' Hf R)).
    apply getitem_view; assumption.
Qed.

Lemma get_fld_none f i p : forall w, f (root w i) = VNone -> get_fld f i p w = (w, Ok VNone).
Proof.
  induction p as [|s p IH]; intros w Hf.
  - cbn. unfold bind, get_root, ret. fold (root w i). rewrite Hf. reflexivity.
  - cbn [get_fld]. rewrite (bind_ok _ _ _ _ _ (IH w Hf)). reflexivity.
Qed.

(* ---- values that can be assigned to / added onto a target of shape shp with n entries *)
Definition vdata (h : list buf) (x : val) (n : nat) : list C :=
  match x with
  | VNone => []
  | VScal c _ _ => repeat c n
  | VWin r ix _ => rd h r ix
  end.
Definition vcplx (h : list buf) (x : val) : bool :=
  match x with VNone => false | VScal _ cx _ => cx | VWin r _ _ => bcplx (getbuf h r) end.
(* scalar, or array of exactly the target's (non 0-d) shape; complex only onto complex *)
Definition fits (h : list buf) (x : val) (shp : list Z) (n : nat) (tcx : bool) : Prop :=
  (vcplx h x = true -> tcx = true) /\
  match x with
  | VNone => False
  | VScal _ _ _ => True
  | VWin r ix shp' => shp' = shp /\ shp <> [] /\ length ix = n
  end.

Lemma Zl_eqb_refl l : Zl_eqb l l = true.
Proof. apply (list_eqb_spec Z.eqb Z.eqb_eq). reflexivity. Qed.

Lemma guard_false (a b : bool) : (a = true -> b = true) -> a && negb b = false.
Proof. destruct a, b; cbn; intros H; auto. discriminate (H eq_refl). Qed.

Lemma assign_fits r tix shp x w :
  fits (heap w) x shp (length tix) (bcplx (getbuf (heap w) r)) ->
  assign r tix false shp x w = (set_heap w (hwrite (heap w) r tix (vdata (heap w) x (length tix))), Ok tt).
Proof.
  intros [Hc Hx]. destruct x as [|c cx np|r' ix' shp']; [destruct Hx| |].
  - cbn in *. unfold bind, mcplx. rewrite (guard_false _ _ Hc). reflexivity.
  - destruct Hx as (-> & Hne & Hl). cbn in Hc. cbn [assign vdata]. unfold bind, mread, mcplx.
    destruct shp as [|z shp]; [congruence|]. rewrite Zl_eqb_refl. cbn [negb]. rewrite (guard_false _ _ Hc). reflexivity.
Qed.

Lemma map_cadd_repeat c cur : map (fun a => cadd a c) cur = map2 cadd cur (repeat c (length cur)).
Proof. induction cur as [|x t IH]; cbn; [reflexivity|]. rewrite IH. reflexivity. Qed.

Lemma iadd_fits r ix shp x w :
  fits (heap w) x shp (length ix) (bcplx (getbuf (heap w) r)) ->
  iadd (VWin r ix shp) x w =
    (set_heap w (hwrite (heap w) r ix (map2 cadd (rd (heap w) r ix) (vdata (heap w) x (length ix)))), Ok (VWin r ix shp)).
Proof.
  intros [Hc Hx]. destruct x as [|c cx np|r' ix' shp']; [destruct Hx| |].
  - cbn in *. unfold bind, mcplx, mread. rewrite (guard_false _ _ Hc). unfold mwrite, ret.
    rewrite map_cadd_repeat, rd_length. reflexivity.
  - destruct Hx as (-> & Hne & Hl). cbn in Hc. cbn [iadd vdata]. unfold bind, mread, mcplx.
    rewrite (guard_false _ _ Hc). destruct shp as [|z shp]; [congruence|]. rewrite Zl_eqb_refl. cbn [negb].
    unfold mwrite, ret. reflexivity.
Qed.

(* ---- post-condition vocabulary *)
(* allocation and writes to fresh buffers only *)
Definition same_old (h h' : list buf) : Prop :=
  length h <= length h' /\ forall r, r < length h -> getbuf h' r = getbuf h r.
(* entries tix of buffer r now hold d; every other entry of r and every other old buffer is unchanged *)
Definition wrote (h h' : list buf) (r : nat) (tix : list nat) (d : list C) : Prop :=
  length h <= length h' /\ rd h' r tix = d /\
  (forall k, ~ In k tix -> nth k (bdata (getbuf h' r)) c0 = nth k (bdata (getbuf h r)) c0) /\
  length (bdata (getbuf h' r)) = length (bdata (getbuf h r)) /\ bcplx (getbuf h' r) = bcplx (getbuf h r) /\
  (forall r', r' < length h -> r' <> r -> getbuf h' r' = getbuf h r').

Definition win_ok (h : list buf) (r : nat) (ix : list nat) : Prop :=
  r < length h /\ NoDup ix /\ Forall (fun k => k < length (bdata (getbuf h r))) ix.

Lemma same_old_refl h : same_old h h. Proof. split; auto. Qed.
Lemma same_old_trans a b c : same_old a b -> same_old b c -> same_old a c.
Proof. intros [L1 F1] [L2 F2]. split; [lia|]. intros r Hr. rewrite F2 by lia. apply F1; exact Hr. Qed.
Lemma same_old_alloc h b : same_old h (h ++ [b]).
Proof. split; [rewrite app_length; lia|]. intros r Hr. apply getbuf_app_old; exact Hr. Qed.
Lemma same_old_write_fresh h h1 rc ix d : same_old h h1 -> length h <= rc -> same_old h (hwrite h1 rc ix d).
Proof.
  intros [L F] Hrc. split; [rewrite hwrite_length; exact L|].
  intros r Hr. rewrite getbuf_hwrite_other by lia. apply F; exact Hr.
Qed.
Lemma same_old_rd h h' r ix : same_old h h' -> r < length h -> rd h' r ix = rd h r ix.
Proof. intros [_ F] Hr. unfold rd. rewrite F by exact Hr. reflexivity. Qed.
Lemma same_old_win_ok h h' r ix : same_old h h' -> win_ok h r ix -> win_ok h' r ix.
Proof. intros [L F] (A & B & D). split; [lia|split; [exact B|]]. rewrite F by exact A. exact D. Qed.

Lemma wrote_hwrite h r tix d : win_ok h r tix -> length d = length tix -> wrote h (hwrite h r tix d) r tix d.
Proof.
  intros (A & B & D) Hl. split; [rewrite hwrite_length; lia|]. split; [apply rd_hwrite_same; assumption|].
  split; [intros k Hk; apply nth_hwrite_frame; exact Hk|].
  destruct (hwrite_meta h r tix d r) as [M1 M2]. split; [exact M1|split; [exact M2|]].
  intros r' _ Hne. apply getbuf_hwrite_other; exact Hne.
Qed.

Lemma wrote_after_same_old h h1 h2 r tix d : same_old h h1 -> r < length h -> wrote h1 h2 r tix d -> wrote h h2 r tix d.
Proof.
  intros [L F] Hr (W1 & W2 & W3 & W4 & W5 & W6). split; [lia|split; [exact W2|]].
  rewrite <- (F r Hr). split; [exact W3|split; [exact W4|split; [exact W5|]]].
  intros r' Hr' Hne. rewrite W6 by (try lia; exact Hne). apply F; exact Hr'.
Qed.

Lemma wrote_twice h h1 h2 r tix d : wrote h h1 r tix d -> wrote h1 h2 r tix d -> wrote h h2 r tix d.
Proof.
  intros (A1 & A2 & A3 & A4 & A5 & A6) (B1 & B2 & B3 & B4 & B5 & B6).
  split; [lia|split; [exact B2|]]. split; [intros k Hk; rewrite B3, A3; auto|].
  split; [congruence|split; [congruence|]]. intros r' Hr' Hne. rewrite B6 by (try lia; exact Hne). apply A6; assumption.
Qed.

Lemma wrote_win_ok h h' r tix d ix : wrote h h' r tix d -> win_ok h r ix -> win_ok h' r ix.
Proof. intros (A1 & A2 & A3 & A4 & A5 & A6) (B & D & E). split; [lia|split; [exact D|]]. rewrite A4. exact E. Qed.

Lemma whole_NoDup n : NoDup (whole n). Proof. apply seq_NoDup. Qed.
Lemma whole_length n : length (whole n) = n. Proof. apply seq_length. Qed.
Lemma whole_range n : Forall (fun k => k < n) (whole n).
Proof. apply Forall_forall. intros k Hk. apply in_seq in Hk. lia. Qed.
Lemma sub_ix_length ix js : length (sub_ix ix js) = length js. Proof. apply map_length. Qed.

(* ================================================================== assignment through a slice *)
Theorem set_st_slice_spec i s p x w r ix shp jx shp1 si :
  r_st (root w i) = VWin r ix shp -> resolve ix shp p = Some (jx, shp1) ->
  lookup_slc s shp1 = Some si -> (si_kind si = KView \/ si_kind si = KCopy) ->
  fits (heap w) x (si_shape si) (length (si_idx si)) (bcplx (getbuf (heap w) r)) ->
  set_st i (s :: p) x w =
    (set_heap w (hwrite (heap w) r (sub_ix jx (si_idx si)) (vdata (heap w) x (length (si_idx si)))), Ok tt).
Proof.
  intros Hst Hr L K Hf. cbn [set_st]. unfold get_st.
  rewrite (bind_ok _ _ _ _ _ (get_fld_view r_st i p w r ix shp jx shp1 Hst Hr)).
  cbn [setitem]. rewrite L. rewrite <- (sub_ix_length jx (si_idx si)) in *.
  destruct K as [K|K]; rewrite K; apply assign_fits; exact Hf.
Qed.

Lemma vdata_length h x n : (match x with VWin _ ix _ => length ix = n | VNone => False | _ => True end) ->
  length (vdata h x n) = n.
Proof. destruct x as [|c cx np|r ix shp]; cbn; intros H; [destruct H|apply repeat_length|rewrite rd_length; exact H]. Qed.

Lemma fits_length h x shp n tcx : fits h x shp n tcx -> length (vdata h x n) = n.
Proof. intros [_ H]. apply vdata_length. destruct x; auto. destruct H as (_ & _ & H); exact H. Qed.

(* ================================================================== add_sensitivity through a slice *)
Definition add_tail (i : nat) (s : slc) (p : list slc) (ds : val) : M unit :=
  bind (get_se i (s :: p)) (fun _ => bind (get_se i (s :: p)) (fun cur =>
  bind (iadd cur ds) (fun t => set_se i (s :: p) t))).

Lemma resolve_step ix shp s p jx shp1 si :
  resolve ix shp p = Some (jx, shp1) -> lookup_slc s shp1 = Some si -> si_kind si = KView -> si_shape si <> [] ->
  resolve ix shp (s :: p) = Some (sub_ix jx (si_idx si), si_shape si).
Proof. intros R L K N. cbn. rewrite R, L, K. destruct (si_shape si); [congruence|reflexivity]. Qed.

Lemma vdata_same_old h h' x n : same_old h h' -> (forall r, vref x = Some r -> r < length h) ->
  vdata h' x n = vdata h x n /\ vcplx h' x = vcplx h x.
Proof.
  intros [L F] Hv. destruct x as [|c cx np|r ix shp]; cbn; auto.
  specialize (Hv r eq_refl). unfold rd. rewrite F by exact Hv. auto.
Qed.

Lemma fits_same_old h h' x shp n tcx : same_old h h' -> (forall r, vref x = Some r -> r < length h) ->
  fits h x shp n tcx -> fits h' x shp n tcx.
Proof.
  intros Hs Hv [A B]. destruct (vdata_same_old h h' x n Hs Hv) as [_ E]. split; [rewrite E; exact A|exact B].
Qed.

(* the common part of set_se through a slice when the base sensitivity exists *)
Lemma set_se_slice_exists i s p x w rs ixs shp jx shp1 si :
  r_se (root w i) = VWin rs ixs shp -> resolve ixs shp p = Some (jx, shp1) ->
  lookup_slc s shp1 = Some si -> (si_kind si = KView \/ si_kind si = KCopy) ->
  fits (heap w) x (si_shape si) (length (si_idx si)) (bcplx (getbuf (heap w) rs)) ->
  set_se i (s :: p) x w =
    (set_heap w (hwrite (heap w) rs (sub_ix jx (si_idx si)) (vdata (heap w) x (length (si_idx si)))), Ok tt).
Proof.
  intros Hse Hr L K Hf. cbn [set_se]. unfold get_se.
  pose proof (get_fld_view r_se i p w rs ixs shp jx shp1 Hse Hr) as G.
  rewrite (bind_ok _ _ _ _ _ G). cbn [is_none]. unfold ret at 1. unfold bind at 1.
  rewrite (bind_ok _ _ _ _ _ G).
  assert (Hx : (if is_none x then VScal c0 false false else x) = x).
  { destruct x; cbn; auto. destruct Hf as [_ []]. }
  rewrite Hx. cbn [setitem]. rewrite L. rewrite <- (sub_ix_length jx (si_idx si)) in *.
  destruct K as [K|K]; rewrite K; apply assign_fits; exact Hf.
Qed.

Lemma add_tail_spec i s p ds w rs ixs shp jx shp1 si :
  r_se (root w i) = VWin rs ixs shp -> resolve ixs shp p = Some (jx, shp1) ->
  lookup_slc s shp1 = Some si -> (si_kind si = KView \/ si_kind si = KCopy) -> si_shape si <> [] ->
  win_ok (heap w) rs (sub_ix jx (si_idx si)) ->
  fits (heap w) ds (si_shape si) (length (si_idx si)) (bcplx (getbuf (heap w) rs)) ->
  (forall r', vref ds = Some r' -> r' < length (heap w)) ->
  exists w', add_tail i s p ds w = (w', Ok tt) /\ roots w' = roots w /\ vars w' = vars w /\
    wrote (heap w) (heap w') rs (sub_ix jx (si_idx si))
          (map2 cadd (rd (heap w) rs (sub_ix jx (si_idx si))) (vdata (heap w) ds (length (si_idx si)))).
Proof.
  intros Hse Hr L K N Hok Hf Hv.
  set (tix := sub_ix jx (si_idx si)) in *. set (n := length (si_idx si)) in *.
  assert (Hn : length tix = n) by apply sub_ix_length.
  set (sum := map2 cadd (rd (heap w) rs tix) (vdata (heap w) ds n)).
  assert (Hsum : length sum = length tix).
  { unfold sum. rewrite map2_length; rewrite rd_length; [reflexivity|]. rewrite (fits_length _ _ _ _ _ Hf). auto. }
  unfold add_tail. destruct K as [K|K].
  - (* last slice is a view *)
    pose proof (get_fld_view r_se i (s :: p) w rs ixs shp tix (si_shape si) Hse (resolve_step _ _ _ _ _ _ _ Hr L K N)) as G.
    fold (get_se i (s :: p)) in G.
    rewrite (bind_ok _ _ _ _ _ G). rewrite (bind_ok _ _ _ _ _ G).
    assert (Hf1 : fits (heap w) ds (si_shape si) (length tix) (bcplx (getbuf (heap w) rs))) by (rewrite Hn; exact Hf).
    rewrite (bind_ok _ _ _ _ _ (iadd_fits rs tix (si_shape si) ds w Hf1)). rewrite Hn. fold sum.
    set (w5 := set_heap w (hwrite (heap w) rs tix sum)).
    assert (W1 : wrote (heap w) (heap w5) rs tix sum) by (apply wrote_hwrite; assumption).
    assert (Hf2 : fits (heap w5) (VWin rs tix (si_shape si)) (si_shape si) (length (si_idx si)) (bcplx (getbuf (heap w5) rs))).
    { split; [cbn; auto|]. repeat split; auto. }
    rewrite (set_se_slice_exists i s p _ w5 rs ixs shp jx shp1 si Hse Hr L (or_introl K) Hf2).
    eexists. split; [reflexivity|]. split; [reflexivity|]. split; [reflexivity|].
    cbn [heap set_heap vdata]. fold tix.
    destruct W1 as (A1 & A2 & A3). rewrite A2.
    eapply wrote_twice; [split; [exact A1|split; [exact A2|exact A3]]|].
    apply wrote_hwrite; [|exact Hsum]. eapply wrote_win_ok; [split; [exact A1|split; [exact A2|exact A3]]|exact Hok].
  - (* last slice copies (integer-array index) *)
    pose proof (get_fld_view r_se i p w rs ixs shp jx shp1 Hse Hr) as G0.
    set (hA := heap w ++ [copy_buf (heap w) rs tix]). set (wA := set_heap w hA).
    assert (GA : get_se i (s :: p) w = (wA, Ok (VWin (length (heap w)) (whole n) (si_shape si)))).
    { unfold get_se. cbn [get_fld]. rewrite (bind_ok _ _ _ _ _ G0). apply getitem_copy; assumption. }
    set (hB := hA ++ [copy_buf hA rs tix]). set (wB := set_heap wA hB).
    assert (GB : get_se i (s :: p) wA = (wB, Ok (VWin (length hA) (whole n) (si_shape si)))).
    { unfold get_se. cbn [get_fld].
      rewrite (bind_ok _ _ _ _ _ (get_fld_view r_se i p wA rs ixs shp jx shp1 Hse Hr)). apply getitem_copy; assumption. }
    rewrite (bind_ok _ _ _ _ _ GA). rewrite (bind_ok _ _ _ _ _ GB).
    set (rc := length hA).
    assert (SA : same_old (heap w) hA) by apply same_old_alloc.
    assert (SB : same_old (heap w) hB) by (eapply same_old_trans; [exact SA|apply same_old_alloc]).
    assert (Hrs : rs < length (heap w)) by apply Hok.
    assert (HrdA : rd hA rs tix = rd (heap w) rs tix) by (apply same_old_rd; assumption).
    assert (Hgc : getbuf hB rc = copy_buf hA rs tix) by apply getbuf_app_new.
    assert (Hcc : bcplx (getbuf hB rc) = bcplx (getbuf (heap w) rs)).
    { rewrite Hgc. cbn. destruct SA as [_ F]. rewrite F by exact Hrs. reflexivity. }
    assert (Hf1 : fits (heap wB) ds (si_shape si) (length (whole n)) (bcplx (getbuf (heap wB) rc))).
    { cbn [heap wB set_heap]. rewrite whole_length, Hcc. eapply fits_same_old; eauto. }
    rewrite (bind_ok _ _ _ _ _ (iadd_fits rc (whole n) (si_shape si) ds wB Hf1)).
    cbn [heap wB set_heap]. rewrite whole_length.
    assert (Hrdc : rd hB rc (whole n) = rd (heap w) rs tix).
    { unfold hB, rc. rewrite <- HrdA. replace n with (length (rd hA rs tix)) by (rewrite rd_length; exact Hn).
      apply rd_whole_new. }
    rewrite Hrdc. destruct (vdata_same_old (heap w) hB ds n SB Hv) as [Evd _]. rewrite Evd. fold sum.
    set (hC := hwrite hB rc (whole n) sum). set (wC := set_heap wB hC).
    assert (Hrc : rc < length hB) by (unfold hB, rc; rewrite app_length; cbn; lia).
    assert (Hrcl : length (heap w) <= rc) by (unfold rc, hA; rewrite app_length; lia).
    assert (SC : same_old (heap w) hC) by (apply same_old_write_fresh; assumption).
    assert (Hlenc : length (bdata (getbuf hB rc)) = n).
    { rewrite Hgc. cbn. rewrite rd_length. exact Hn. }
    assert (HrdC : rd hC rc (whole n) = sum).
    { apply rd_hwrite_same; [exact Hrc|apply whole_NoDup|rewrite Hlenc; apply whole_range|rewrite whole_length; lia]. }
    assert (Hf2 : fits (heap wC) (VWin rc (whole n) (si_shape si)) (si_shape si) (length (si_idx si)) (bcplx (getbuf (heap wC) rs))).
    { cbn [heap wC set_heap]. split.
      - cbn [vcplx]. destruct (hwrite_meta hB rc (whole n) sum rc) as [_ M2]. fold hC in M2. rewrite M2, Hcc.
        destruct SC as [_ F]. rewrite F by exact Hrs. auto.
      - repeat split; auto. apply whole_length. }
    assert (HseC : r_se (root wC i) = VWin rs ixs shp) by exact Hse.
    rewrite (set_se_slice_exists i s p _ wC rs ixs shp jx shp1 si HseC Hr L (or_intror K) Hf2).
    eexists. split; [reflexivity|]. split; [reflexivity|]. split; [reflexivity|].
    cbn [heap wC set_heap vdata]. fold tix. fold n. rewrite HrdC.
    eapply wrote_after_same_old; [exact SC|exact Hrs|].
    apply wrote_hwrite; [|exact Hsum]. eapply same_old_win_ok; eauto.
Qed.

Lemma fits_not_none h x shp n tcx : fits h x shp n tcx -> is_none x = false.
Proof. intros [_ H]. destruct x; auto. destruct H. Qed.

Theorem add_se_slice_exists i s p ds w rs ixs shp jx shp1 si :
  r_se (root w i) = VWin rs ixs shp -> resolve ixs shp p = Some (jx, shp1) ->
  lookup_slc s shp1 = Some si -> (si_kind si = KView \/ si_kind si = KCopy) -> si_shape si <> [] ->
  win_ok (heap w) rs (sub_ix jx (si_idx si)) ->
  fits (heap w) ds (si_shape si) (length (si_idx si)) (bcplx (getbuf (heap w) rs)) ->
  (forall r', vref ds = Some r' -> r' < length (heap w)) ->
  exists w', add_se i (s :: p) ds w = (w', Ok tt) /\ roots w' = roots w /\ vars w' = vars w /\
    wrote (heap w) (heap w') rs (sub_ix jx (si_idx si))
          (map2 cadd (rd (heap w) rs (sub_ix jx (si_idx si))) (vdata (heap w) ds (length (si_idx si)))).
Proof.
  intros Hse Hr L K N Hok Hf Hv.
  destruct (add_tail_spec i s p ds w rs ixs shp jx shp1 si Hse Hr L K N Hok Hf Hv) as (w' & E & R).
  exists w'. split; [|exact R].
  unfold add_se. rewrite (fits_not_none _ _ _ _ _ Hf).
  pose proof (get_fld_view r_se i p w rs ixs shp jx shp1 Hse Hr) as G0. fold (get_se i p) in G0.
  rewrite (bind_ok _ _ _ _ _ G0). cbn [is_none]. unfold ret at 1. unfold bind at 1. exact E.
Qed.

(* ---- no base sensitivity yet: a zero array of the base state's shape is created first *)
Lemma resolve_shape_ne ix shp p jx shp1 : shp <> [] -> resolve ix shp p = Some (jx, shp1) -> shp1 <> [].
Proof.
  intros Hs. destruct p as [|s p]; intros H.
  - cbn in H; inversion H; subst; exact Hs.
  - apply resolve_cons in H as (? & ? & ? & _ & _ & _ & _ & N & _). exact N.
Qed.

Lemma resolve_length ix shp p jx shp1 ix' jx' shp1' :
  resolve ix shp p = Some (jx, shp1) -> resolve ix' shp p = Some (jx', shp1') -> p <> [] -> length jx = length jx'.
Proof.
  destruct p as [|s p]; [congruence|]. intros H1 H2 _.
  pose proof (resolve_shape _ _ _ _ _ _ _ _ H1 H2) as Es.
  apply resolve_cons in H1 as (j1 & t1 & si1 & R1 & L1 & K1 & E1 & N1 & X1).
  apply resolve_cons in H2 as (j2 & t2 & si2 & R2 & L2 & K2 & E2 & N2 & X2).
  pose proof (resolve_shape _ _ _ _ _ _ _ _ R1 R2) as Et. subst t2. rewrite L1 in L2; inversion L2; subst.
  rewrite !sub_ix_length. reflexivity.
Qed.

Lemma upd_c0_repeat n k : upd (repeat c0 n) k c0 = repeat c0 n.
Proof. revert k; induction n as [|n IH]; intros [|k]; cbn; auto. rewrite IH. reflexivity. Qed.

Lemma wr_list_zeros n ix m : wr_list (repeat c0 n) ix (repeat c0 m) = repeat c0 n.
Proof.
  revert m; induction ix as [|k ix IH]; intros [|m]; cbn; auto. rewrite upd_c0_repeat. apply IH.
Qed.

Lemma rd_zeros h r n ix : bdata (getbuf h r) = repeat c0 n -> rd h r ix = repeat c0 (length ix).
Proof.
  intros H. unfold rd. rewrite H. induction ix as [|k ix IH]; cbn; [reflexivity|]. rewrite IH. f_equal.
  destruct (Nat.lt_ge_cases k n) as [Hk|Hk]; [apply nth_repeat|apply nth_overflow; rewrite repeat_length; exact Hk].
Qed.

Definition zero_buf (n : nat) (cx : bool) : buf := {| bdata := repeat c0 n; bcplx := cx |}.

(* the relation between the world before and after the zero sensitivity of root i has been created *)
Record zeroed (i : nat) (N : nat) (shp : list Z) (cx : bool) (w w2 : world) (rs : nat) : Prop := {
  z_vars : vars w2 = vars w;
  z_len : length (roots w2) = length (roots w);
  z_other : forall j, j <> i -> root w2 j = root w j;
  z_st : r_st (root w2 i) = r_st (root w i);
  z_keep : r_keep (root w2 i) = r_keep (root w i);
  z_se : r_se (root w2 i) = VWin rs (whole N) shp;
  z_rs : rs < length (heap w2);
  z_buf : getbuf (heap w2) rs = zero_buf N cx;
  z_old : same_old (heap w) (heap w2)
}.

Lemma zero_init i p : forall w r0 ix0 shp jx0 kx shp1 rz cx,
  i < length (roots w) ->
  r_se (root w i) = VNone -> r_st (root w i) = VWin r0 ix0 shp -> shp <> [] ->
  resolve ix0 shp p = Some (jx0, shp1) -> resolve (whole (length ix0)) shp p = Some (kx, shp1) ->
  rz < length (heap w) -> getbuf (heap w) rz = zero_buf (length jx0) cx -> bcplx (getbuf (heap w) r0) = cx ->
  r0 < length (heap w) ->
  exists w2 rs, set_se i p (VWin rz (whole (length jx0)) shp1) w = (w2, Ok tt) /\
    zeroed i (length ix0) shp cx w w2 rs /\ (rs = rz \/ length (heap w) <= rs).
Proof.
  induction p as [|s p IH]; intros w r0 ix0 shp jx0 kx shp1 rz cx Hi Hse Hst Hne R1 R2 Hrz Hbz Hcx Hr0.
  - cbn in R1, R2. inversion R1; subst jx0 shp1. clear R1 R2.
    cbn [set_se]. unfold bind, get_root, put_root. fold (root w i).
    eexists. exists rz. split; [reflexivity|]. split; [|left; reflexivity].
    constructor; cbn [vars roots heap set_roots]; auto.
    + apply upd_length.
    + intros j Hj. apply root_upd_neq. congruence.
    + rewrite root_upd_eq by exact Hi. reflexivity.
    + rewrite root_upd_eq by exact Hi. reflexivity.
    + rewrite root_upd_eq by exact Hi. reflexivity.
    + apply same_old_refl.
  - pose proof (resolve_shape_ne _ _ _ _ _ Hne R1) as Hne1.
    pose proof (resolve_length _ _ _ _ _ _ _ _ R1 R2 ltac:(discriminate)) as Hlen.
    apply resolve_cons in R1 as (jx' & shp' & si & R1' & L & K & E & N & X).
    apply resolve_cons in R2 as (kx' & shp'2 & si2 & R2' & L2 & K2 & E2 & N2 & X2).
    pose proof (resolve_shape _ _ _ _ _ _ _ _ R1' R2') as Et. subst shp'2. rewrite L in L2; inversion L2; subst si2. clear L2 K2 E2 N2.
    pose proof (resolve_shape_ne _ _ _ _ _ Hne R1') as Hne'.
    cbn [set_se].
    pose proof (get_fld_none r_se i p w Hse) as G1. fold (get_se i p) in G1.
    rewrite (bind_ok _ _ _ _ _ G1). cbn [is_none].
    pose proof (get_fld_view r_st i p w r0 ix0 shp jx' shp' Hst R1') as G2. fold (get_st i p) in G2.
    rewrite bind_assoc. rewrite (bind_ok _ _ _ _ _ G2).
    (* mul0 allocates the zero array for the inner base *)
    set (w1 := set_heap w (heap w ++ [zero_buf (length jx') cx])).
    assert (Gm : mul0 (VWin r0 jx' shp') w = (w1, Ok (VWin (length (heap w)) (whole (length jx')) shp'))).
    { cbn [mul0]. unfold bind, mcplx. rewrite Hcx. destruct shp' as [|z shp']; [congruence|].
      unfold new_array, bind, halloc, ret. rewrite repeat_length. reflexivity. }
    rewrite bind_assoc. rewrite (bind_ok _ _ _ _ _ Gm).
    assert (S1 : same_old (heap w) (heap w1)) by apply same_old_alloc.
    destruct (IH w1 r0 ix0 shp jx' kx' shp' (length (heap w)) cx) as (w2 & rs & Es & Z & Hrs); auto.
    { unfold w1; cbn. rewrite app_length; cbn; lia. }
    { unfold w1; cbn. apply getbuf_app_new. }
    { destruct S1 as [_ F]. rewrite F by exact Hr0. exact Hcx. }
    { unfold w1; cbn. rewrite app_length; lia. }
    rewrite bind_assoc. rewrite (bind_ok _ _ _ _ _ Es). unfold ret at 1. unfold bind at 1.
    destruct Z as [Zv Zl Zo Zs Zk Zse Zrs Zb Zold].
    pose proof (get_fld_view r_se i p w2 rs (whole (length ix0)) shp kx' shp' Zse R2') as G3. fold (get_se i p) in G3.
    rewrite (bind_ok _ _ _ _ _ G3). cbn [is_none setitem]. rewrite L, K.
    assert (S2 : same_old (heap w) (heap w2)) by (eapply same_old_trans; eauto).
    assert (Hrs' : length (heap w) <= rs).
    { destruct Hrs as [->|H]; [lia|]. unfold w1 in H; cbn in H. rewrite app_length in H. lia. }
    assert (Hbz2 : getbuf (heap w2) rz = zero_buf (length jx0) cx).
    { destruct S2 as [_ F]. rewrite F by exact Hrz. exact Hbz. }
    assert (Hf : fits (heap w2) (VWin rz (whole (length jx0)) shp1) (si_shape si)
                      (length (sub_ix kx' (si_idx si))) (bcplx (getbuf (heap w2) rs))).
    { split; [cbn; rewrite Hbz2, Zb; auto|]. split; [exact E|]. split; [congruence|].
      rewrite whole_length, sub_ix_length. subst jx0. apply sub_ix_length. }
    rewrite (assign_fits rs (sub_ix kx' (si_idx si)) (si_shape si) _ w2 Hf).
    eexists. exists rs. split; [reflexivity|]. split; [|right; exact Hrs'].
    assert (Hz : hwrite (heap w2) rs (sub_ix kx' (si_idx si))
                   (vdata (heap w2) (VWin rz (whole (length jx0)) shp1) (length (sub_ix kx' (si_idx si)))) = heap w2).
    { cbn [vdata]. rewrite (rd_zeros (heap w2) rz (length jx0)) by (rewrite Hbz2; reflexivity).
      unfold hwrite. rewrite Zb. cbn [bdata bcplx zero_buf]. rewrite wr_list_zeros.
      fold (zero_buf (length ix0) cx). rewrite <- Zb. unfold getbuf.
      clear - Zrs. revert Zrs. generalize (heap w2) as h. intros h. revert rs.
      induction h as [|b h IHh]; intros [|rs] H; cbn in *; try lia; auto. f_equal. apply IHh. lia. }
    rewrite Hz. replace (set_heap w2 (heap w2)) with w2 by (destruct w2; reflexivity).
    constructor; auto.
Qed.

Lemma mul0_win r ix shp w : shp <> [] ->
  mul0 (VWin r ix shp) w =
    (set_heap w (heap w ++ [zero_buf (length ix) (bcplx (getbuf (heap w) r))]),
     Ok (VWin (length (heap w)) (whole (length ix)) shp)).
Proof.
  intros Hne. cbn [mul0]. unfold bind, mcplx. destruct shp as [|z shp]; [congruence|].
  unfold new_array, bind, halloc, ret. rewrite repeat_length. reflexivity.
Qed.

Lemma map2_cadd_zeros d : map2 cadd (repeat c0 (length d)) d = d.
Proof.
  induction d as [|[a b] d IH]; cbn; [reflexivity|]. rewrite IH. unfold cadd; cbn. reflexivity.
Qed.

Lemma nth_zeros n k : nth k (repeat c0 n) c0 = c0.
Proof.
  destruct (Nat.lt_ge_cases k n) as [H|H]; [apply nth_repeat|apply nth_overflow; rewrite repeat_length; exact H].
Qed.

Theorem add_se_slice_none i s p ds w r0 ix0 shp jx0 kx shp1 si :
  i < length (roots w) -> r_se (root w i) = VNone -> r_st (root w i) = VWin r0 ix0 shp -> shp <> [] ->
  r0 < length (heap w) ->
  resolve ix0 shp p = Some (jx0, shp1) -> resolve (whole (length ix0)) shp p = Some (kx, shp1) ->
  lookup_slc s shp1 = Some si -> (si_kind si = KView \/ si_kind si = KCopy) -> si_shape si <> [] ->
  NoDup (sub_ix kx (si_idx si)) -> Forall (fun k => k < length ix0) (sub_ix kx (si_idx si)) ->
  fits (heap w) ds (si_shape si) (length (si_idx si)) (bcplx (getbuf (heap w) r0)) ->
  (forall r', vref ds = Some r' -> r' < length (heap w)) ->
  exists w' rs, add_se i (s :: p) ds w = (w', Ok tt) /\
    vars w' = vars w /\ (forall j, j <> i -> root w' j = root w j) /\ r_st (root w' i) = r_st (root w i) /\
    r_se (root w' i) = VWin rs (whole (length ix0)) shp /\ length (heap w) <= rs /\
    bcplx (getbuf (heap w') rs) = bcplx (getbuf (heap w) r0) /\
    length (bdata (getbuf (heap w') rs)) = length ix0 /\
    rd (heap w') rs (sub_ix kx (si_idx si)) = vdata (heap w) ds (length (si_idx si)) /\
    (forall k, ~ In k (sub_ix kx (si_idx si)) -> nth k (bdata (getbuf (heap w') rs)) c0 = c0) /\
    same_old (heap w) (heap w').
Proof.
  intros Hi Hse Hst Hne Hr0 R1 R2 L K N Hnd Hrg Hf Hv.
  set (cx := bcplx (getbuf (heap w) r0)) in *.
  pose proof (resolve_shape_ne _ _ _ _ _ Hne R1) as Hne1.
  unfold add_se. rewrite (fits_not_none _ _ _ _ _ Hf).
  pose proof (get_fld_none r_se i p w Hse) as G1. fold (get_se i p) in G1.
  rewrite (bind_ok _ _ _ _ _ G1). cbn [is_none].
  pose proof (get_fld_view r_st i p w r0 ix0 shp jx0 shp1 Hst R1) as G2. fold (get_st i p) in G2.
  rewrite bind_assoc. rewrite (bind_ok _ _ _ _ _ G2).
  rewrite bind_assoc. rewrite (bind_ok _ _ _ _ _ (mul0_win r0 jx0 shp1 w Hne1)). fold cx.
  set (w1 := set_heap w (heap w ++ [zero_buf (length jx0) cx])).
  assert (S1 : same_old (heap w) (heap w1)) by apply same_old_alloc.
  destruct (zero_init i p w1 r0 ix0 shp jx0 kx shp1 (length (heap w)) cx) as (w2 & rs & Es & Z & Hrs); auto.
  { unfold w1; cbn. rewrite app_length; cbn; lia. }
  { unfold w1; cbn. apply getbuf_app_new. }
  { destruct S1 as [_ F]. rewrite F by exact Hr0. reflexivity. }
  { unfold w1; cbn. rewrite app_length; lia. }
  rewrite (bind_ok _ _ _ _ _ Es).
  destruct Z as [Zv Zl Zo Zs Zk Zse Zrs Zb Zold].
  assert (S2 : same_old (heap w) (heap w2)) by (eapply same_old_trans; eauto).
  assert (Hrs' : length (heap w) <= rs).
  { destruct Hrs as [->|H]; [lia|]. unfold w1 in H; cbn in H. rewrite app_length in H. lia. }
  assert (Hok : win_ok (heap w2) rs (sub_ix kx (si_idx si))).
  { split; [exact Zrs|split; [exact Hnd|]]. rewrite Zb. cbn. rewrite repeat_length. exact Hrg. }
  assert (Hf2 : fits (heap w2) ds (si_shape si) (length (si_idx si)) (bcplx (getbuf (heap w2) rs))).
  { rewrite Zb. cbn [bcplx zero_buf]. eapply fits_same_old; eauto. }
  assert (Hv2 : forall r', vref ds = Some r' -> r' < length (heap w2)).
  { intros r' E. specialize (Hv r' E). destruct S2 as [Ls _]. lia. }
  destruct (add_tail_spec i s p ds w2 rs (whole (length ix0)) shp kx shp1 si Zse R2 L K N Hok Hf2 Hv2)
    as (w' & Et & Rr & Rv & W).
  unfold add_tail in Et. rewrite Et.
  exists w', rs. split; [reflexivity|].
  destruct W as (W1 & W2 & W3 & W4 & W5 & W6).
  assert (Er : forall j, root w' j = root w2 j) by (intros j; unfold root; rewrite Rr; reflexivity).
  split; [rewrite Rv, Zv; reflexivity|]. split; [intros j Hj; rewrite Er; apply Zo; exact Hj|].
  split; [rewrite Er; exact Zs|]. split; [rewrite Er; exact Zse|]. split; [exact Hrs'|].
  split; [rewrite W5, Zb; reflexivity|]. split; [rewrite W4, Zb; cbn; apply repeat_length|].
  split.
  - rewrite W2. rewrite (rd_zeros (heap w2) rs (length ix0)) by (rewrite Zb; reflexivity).
    destruct (vdata_same_old (heap w) (heap w2) ds (length (si_idx si)) S2 Hv) as [Evd _]. rewrite Evd.
    rewrite sub_ix_length. rewrite <- (fits_length _ _ _ _ _ Hf) at 1. apply map2_cadd_zeros.
  - split.
    + intros k Hk. rewrite W3 by exact Hk. rewrite Zb. cbn. apply nth_zeros.
    + split; [destruct S2; lia|]. intros r' Hr'. rewrite W6 by lia. apply S2; exact Hr'.
Qed.

(* ================================================================== reset *)
Lemma set_se_slice_exists_none i s p w rs ixs shp jx shp1 si :
  r_se (root w i) = VWin rs ixs shp -> resolve ixs shp p = Some (jx, shp1) ->
  lookup_slc s shp1 = Some si -> (si_kind si = KView \/ si_kind si = KCopy) ->
  set_se i (s :: p) VNone w =
    (set_heap w (hwrite (heap w) rs (sub_ix jx (si_idx si)) (repeat c0 (length (si_idx si)))), Ok tt).
Proof.
  intros Hse Hr L K. cbn [set_se]. unfold get_se.
  pose proof (get_fld_view r_se i p w rs ixs shp jx shp1 Hse Hr) as G.
  rewrite (bind_ok _ _ _ _ _ G). cbn [is_none]. unfold ret at 1. unfold bind at 1.
  rewrite (bind_ok _ _ _ _ _ G). cbn [setitem]. rewrite L.
  assert (Hf : fits (heap w) (VScal c0 false false) (si_shape si) (length (sub_ix jx (si_idx si))) (bcplx (getbuf (heap w) rs))).
  { split; cbn; auto. discriminate. }
  destruct K as [K|K]; rewrite K; rewrite (assign_fits _ _ _ _ _ Hf); cbn [vdata]; rewrite sub_ix_length; reflexivity.
Qed.

Theorem reset_slice_exists i s p k w rs ixs shp jx shp1 si :
  r_se (root w i) = VWin rs ixs shp -> resolve ixs shp p = Some (jx, shp1) ->
  lookup_slc s shp1 = Some si -> (si_kind si = KView \/ si_kind si = KCopy) -> si_shape si <> [] ->
  win_ok (heap w) rs (sub_ix jx (si_idx si)) ->
  exists w', reset i (s :: p) k w = (w', Ok tt) /\ roots w' = roots w /\ vars w' = vars w /\
    wrote (heap w) (heap w') rs (sub_ix jx (si_idx si)) (repeat c0 (length (si_idx si))).
Proof.
  intros Hse Hr L K N Hok. cbn [reset].
  assert (Hl : length (repeat c0 (length (si_idx si))) = length (sub_ix jx (si_idx si)))
    by (rewrite repeat_length, sub_ix_length; reflexivity).
  destruct K as [K|K].
  - pose proof (get_fld_view r_se i (s :: p) w rs ixs shp _ _ Hse (resolve_step _ _ _ _ _ _ _ Hr L K N)) as G.
    fold (get_se i (s :: p)) in G. rewrite (bind_ok _ _ _ _ _ G). cbn [is_none].
    rewrite (set_se_slice_exists_none i s p w rs ixs shp jx shp1 si Hse Hr L (or_introl K)).
    eexists. split; [reflexivity|]. split; [reflexivity|]. split; [reflexivity|].
    cbn [heap set_heap]. apply wrote_hwrite; assumption.
  - pose proof (get_fld_view r_se i p w rs ixs shp jx shp1 Hse Hr) as G0.
    set (hA := heap w ++ [copy_buf (heap w) rs (sub_ix jx (si_idx si))]). set (wA := set_heap w hA).
    assert (GA : get_se i (s :: p) w = (wA, Ok (VWin (length (heap w)) (whole (length (si_idx si))) (si_shape si)))).
    { unfold get_se. cbn [get_fld]. rewrite (bind_ok _ _ _ _ _ G0). apply getitem_copy; assumption. }
    rewrite (bind_ok _ _ _ _ _ GA). cbn [is_none].
    assert (HseA : r_se (root wA i) = VWin rs ixs shp) by exact Hse.
    rewrite (set_se_slice_exists_none i s p wA rs ixs shp jx shp1 si HseA Hr L (or_intror K)).
    eexists. split; [reflexivity|]. split; [reflexivity|]. split; [reflexivity|].
    cbn [heap wA set_heap].
    assert (SA : same_old (heap w) hA) by apply same_old_alloc.
    eapply wrote_after_same_old; [exact SA|apply Hok|].
    apply wrote_hwrite; [eapply same_old_win_ok; eauto|exact Hl].
Qed.

(* resetting a slice of a signal without sensitivity does nothing at all *)
Theorem reset_slice_none i s p k w : r_se (root w i) = VNone -> reset i (s :: p) k w = (w, Ok tt).
Proof.
  intros Hse. cbn [reset]. pose proof (get_fld_none r_se i (s :: p) w Hse) as G. fold (get_se i (s :: p)) in G.
  rewrite (bind_ok _ _ _ _ _ G). reflexivity.
Qed.

Definition keep_flag (w : world) (i : nat) (k : option bool) : bool :=
  match k with Some b => b | None => r_keep (root w i) end.

Theorem reset_root_none i k w : r_se (root w i) = VNone -> reset i [] k w = (w, Ok tt).
Proof. intros H. cbn [reset]. unfold bind, get_root. fold (root w i). rewrite H. reflexivity. Qed.

Theorem reset_root_clear i k w : r_se (root w i) <> VNone -> keep_flag w i k = false ->
  reset i [] k w = (set_roots w (upd (roots w) i {| r_st := r_st (root w i); r_se := VNone; r_keep := r_keep (root w i) |}), Ok tt).
Proof.
  intros H Hk. cbn [reset]. unfold bind, get_root. fold (root w i). unfold keep_flag in Hk.
  destruct (r_se (root w i)); [congruence| |]; rewrite Hk; reflexivity.
Qed.

(* allocation kept: the SAME object, all entries zero *)
Theorem reset_root_keep_array i k w rs ixs shp : r_se (root w i) = VWin rs ixs shp -> keep_flag w i k = true ->
  reset i [] k w = (set_heap w (hwrite (heap w) rs ixs (repeat c0 (length ixs))), Ok tt).
Proof.
  intros H Hk. cbn [reset]. unfold bind, get_root. fold (root w i). unfold keep_flag in Hk. rewrite H, Hk. reflexivity.
Qed.

Theorem reset_root_keep_scalar i k w c cx np : r_se (root w i) = VScal c cx np -> keep_flag w i k = true ->
  reset i [] k w = (set_roots w (upd (roots w) i {| r_st := r_st (root w i); r_se := VScal c0 cx np; r_keep := r_keep (root w i) |}), Ok tt).
Proof.
  intros H Hk. cbn [reset]. unfold bind, get_root. fold (root w i). unfold keep_flag in Hk. rewrite H, Hk. reflexivity.
Qed.

(* ================================================================== add_sensitivity on a Signal *)
(* first contribution: a deep copy — a fresh buffer holding the current data of ds *)
Theorem add_se_root_first_array i w r' ix' shp' : r_se (root w i) = VNone ->
  add_se i [] (VWin r' ix' shp') w =
    (set_roots (set_heap w (heap w ++ [copy_buf (heap w) r' ix']))
       (upd (roots w) i {| r_st := r_st (root w i);
                           r_se := VWin (length (heap w)) (whole (length ix')) shp';
                           r_keep := r_keep (root w i) |}), Ok tt).
Proof.
  intros H. unfold add_se. cbn [is_none]. unfold get_se. cbn [get_fld].
  unfold bind, get_root, ret. fold (root w i). rewrite H. cbn [is_none deepcopy].
  unfold bind, mread, mcplx, new_array, bind, halloc, ret. cbn [set_se]. unfold bind, get_root, put_root.
  cbn. rewrite rd_length. reflexivity.
Qed.

Theorem add_se_root_first_scalar i w c cx np : r_se (root w i) = VNone ->
  add_se i [] (VScal c cx np) w =
    (set_roots w (upd (roots w) i {| r_st := r_st (root w i); r_se := VScal c cx np; r_keep := r_keep (root w i) |}), Ok tt).
Proof.
  intros H. unfold add_se. cbn [is_none]. unfold get_se. cbn [get_fld].
  unfold bind, get_root, ret. fold (root w i). rewrite H. cbn [is_none deepcopy]. unfold ret.
  cbn [set_se]. unfold bind, get_root, put_root. reflexivity.
Qed.

Lemma upd_same {A} (l : list A) i d : upd l i (nth i l d) = l.
Proof.
  revert i; induction l as [|h t IH]; intros [|i]; cbn; auto. f_equal. apply IH.
Qed.

(* when the in-place addition is admissible (fits: complex only onto complex) nothing is caught *)
Lemma iadd_promote_fits r ix shp x w :
  fits (heap w) x shp (length ix) (bcplx (getbuf (heap w) r)) ->
  iadd_promote (VWin r ix shp) x w =
    (set_heap w (hwrite (heap w) r ix (map2 cadd (rd (heap w) r ix) (vdata (heap w) x (length ix)))), Ok (VWin r ix shp)).
Proof. intros Hf. unfold iadd_promote, catch_type. rewrite (iadd_fits r ix shp x w Hf). reflexivity. Qed.

(* a complex contribution (scalar, or array of the target's non 0-d shape) onto a NON-complex array *)
Definition promotes (h : list buf) (x : val) (shp : list Z) (n : nat) (tcx : bool) : Prop :=
  tcx = false /\ vcplx h x = true /\ shp <> [] /\
  match x with
  | VNone => False
  | VScal _ _ _ => True
  | VWin r ix shp' => shp' = shp /\ length ix = n
  end.

Lemma promotes_not_none h x shp n tcx : promotes h x shp n tcx -> is_none x = false.
Proof. intros (_ & _ & _ & Hx). destruct x; [destruct Hx|reflexivity|reflexivity]. Qed.

(* the in-place addition is refused and the sum is built out of place: the world is only extended by ONE fresh buffer
   (complex) holding old + ds; nothing that existed is written *)
Lemma iadd_promote_promotes r ix shp x w :
  promotes (heap w) x shp (length ix) (bcplx (getbuf (heap w) r)) ->
  iadd_promote (VWin r ix shp) x w =
    (set_heap w (heap w ++ [{| bdata := map2 cadd (rd (heap w) r ix) (vdata (heap w) x (length ix)); bcplx := true |}]),
     Ok (VWin (length (heap w)) (whole (length ix)) shp)).
Proof.
  intros (Ht & Hc & Hne & Hx). unfold iadd_promote, catch_type.
  destruct x as [|c cx np|r' ix' shp']; [destruct Hx| |].
  - cbn in Hc. subst cx. cbn [iadd oadd]. unfold bind, mcplx, mread. rewrite Ht. cbn [andb negb fail].
    unfold bind, mcplx, mread. rewrite Ht. destruct shp as [|z shp]; [congruence|].
    unfold new_array, bind, halloc, ret. cbn [orb vdata]. rewrite map_cadd_repeat, rd_length.
    rewrite map2_length by (rewrite repeat_length, rd_length; reflexivity). rewrite rd_length. reflexivity.
  - destruct Hx as (-> & Hl). cbn in Hc. cbn [iadd oadd]. unfold bind, mcplx, mread. rewrite Ht, Hc. cbn [andb negb fail].
    unfold bind, mcplx, mread. rewrite Ht, Hc. destruct shp as [|z shp]; [congruence|].
    rewrite Zl_eqb_refl. cbn [negb orb vdata]. unfold new_array, bind, halloc, ret.
    rewrite map2_length by (rewrite !rd_length; exact Hl). rewrite rd_length. reflexivity.
Qed.

(* later contributions are added in place: same object, entries increased by the current data of ds *)
Theorem add_se_root_accumulate i w rs ixs shp ds :
  i < length (roots w) -> r_se (root w i) = VWin rs ixs shp ->
  fits (heap w) ds shp (length ixs) (bcplx (getbuf (heap w) rs)) ->
  add_se i [] ds w =
    (set_heap w (hwrite (heap w) rs ixs (map2 cadd (rd (heap w) rs ixs) (vdata (heap w) ds (length ixs)))), Ok tt).
Proof.
  intros Hi H Hf. unfold add_se. rewrite (fits_not_none _ _ _ _ _ Hf). unfold get_se. cbn [get_fld].
  unfold bind at 1. unfold bind at 1. unfold get_root at 1. unfold ret at 1. fold (root w i). rewrite H. cbn [is_none].
  rewrite (bind_ok _ _ _ _ _ (iadd_promote_fits rs ixs shp ds w Hf)).
  cbn [set_se]. unfold bind, get_root, put_root. cbn [roots set_heap heap vars].
  replace {| r_st := r_st (nth i (roots w) root0); r_se := VWin rs ixs shp; r_keep := r_keep (nth i (roots w) root0) |}
    with (nth i (roots w) root0).
  - rewrite upd_same. unfold set_roots, set_heap. cbn. reflexivity.
  - unfold root in H. destruct (nth i (roots w) root0) as [a b c]. cbn in *. subst b. reflexivity.
Qed.

(* a contribution the held array cannot take in place (complex onto non-complex, F37): the sensitivity field is
   re-bound to a FRESH complex array of the same shape holding old + ds.  The fresh buffer has the first unused
   index, so it is referenced by nothing else (not by ds, not by the old sensitivity, no variable, no state); the
   old buffer and every other buffer keep their contents (the heap is only extended); state and keep_alloc of the
   signal and all other signals are unchanged. *)
Theorem add_se_root_promote i w rs ixs shp ds :
  i < length (roots w) -> r_se (root w i) = VWin rs ixs shp ->
  promotes (heap w) ds shp (length ixs) (bcplx (getbuf (heap w) rs)) ->
  add_se i [] ds w =
    (set_roots (set_heap w (heap w ++ [{| bdata := map2 cadd (rd (heap w) rs ixs) (vdata (heap w) ds (length ixs));
                                          bcplx := true |}]))
       (upd (roots w) i {| r_st := r_st (root w i);
                           r_se := VWin (length (heap w)) (whole (length ixs)) shp;
                           r_keep := r_keep (root w i) |}), Ok tt).
Proof.
  intros Hi H Hp. unfold add_se. rewrite (promotes_not_none _ _ _ _ _ Hp). unfold get_se. cbn [get_fld].
  unfold bind at 1. unfold bind at 1. unfold get_root at 1. unfold ret at 1. fold (root w i). rewrite H. cbn [is_none].
  rewrite (bind_ok _ _ _ _ _ (iadd_promote_promotes rs ixs shp ds w Hp)).
  cbn [set_se]. unfold bind, get_root, put_root. cbn [roots set_heap heap vars]. reflexivity.
Qed.

(* what the promoted sensitivity reads: old + ds, entry by entry; and the old buffer still reads the old values *)
Corollary add_se_root_promote_reads i w rs ixs shp ds w' :
  i < length (roots w) -> r_se (root w i) = VWin rs ixs shp -> rs < length (heap w) ->
  promotes (heap w) ds shp (length ixs) (bcplx (getbuf (heap w) rs)) ->
  add_se i [] ds w = (w', Ok tt) ->
  exists rn, r_se (root w' i) = VWin rn (whole (length ixs)) shp /\ rn = length (heap w) /\
    bcplx (getbuf (heap w') rn) = true /\
    rd (heap w') rn (whole (length ixs)) = map2 cadd (rd (heap w) rs ixs) (vdata (heap w) ds (length ixs)) /\
    same_old (heap w) (heap w') /\ vars w' = vars w /\
    r_st (root w' i) = r_st (root w i) /\ r_keep (root w' i) = r_keep (root w i) /\
    (forall j, j <> i -> root w' j = root w j).
Proof.
  intros Hi H Hrs Hp E. rewrite (add_se_root_promote i w rs ixs shp ds Hi H Hp) in E. inversion E; subst; clear E.
  exists (length (heap w)). unfold root. cbn [roots set_roots set_heap heap vars].
  rewrite nth_upd_eq by exact Hi. cbn [r_se r_st r_keep].
  assert (Hlen : length (map2 cadd (rd (heap w) rs ixs) (vdata (heap w) ds (length ixs))) = length ixs).
  { destruct Hp as (_ & _ & _ & Hx). rewrite map2_length; [apply rd_length|]. rewrite rd_length.
    destruct ds as [|c cx np|r' ix' shp']; [destruct Hx| |]; cbn [vdata].
    - apply repeat_length.
    - destruct Hx as [_ Hl]. rewrite rd_length. exact Hl. }
  repeat split; try reflexivity.
  - unfold getbuf. rewrite app_nth2 by lia. rewrite Nat.sub_diag. reflexivity.
  - pose proof (rd_whole_new (heap w) (map2 cadd (rd (heap w) rs ixs) (vdata (heap w) ds (length ixs))) true) as R.
    rewrite Hlen in R. exact R.
  - rewrite app_length; cbn; lia.
  - intros r Hr. apply getbuf_app_old. exact Hr.
  - intros j Hj. apply nth_upd_neq. congruence.
Qed.

Theorem add_se_none i p w : add_se i p VNone w = (w, Ok tt).
Proof. reflexivity. Qed.

(* ================================================================== reading through a final copying / scalar index *)
Theorem get_fld_copy f i s p w r ix shp jx shp1 si :
  f (root w i) = VWin r ix shp -> resolve ix shp p = Some (jx, shp1) ->
  lookup_slc s shp1 = Some si -> si_kind si = KCopy ->
  get_fld f i (s :: p) w =
    (set_heap w (heap w ++ [copy_buf (heap w) r (sub_ix jx (si_idx si))]),
     Ok (VWin (length (heap w)) (whole (length (si_idx si))) (si_shape si))).
Proof.
  intros Hf Hr L K. cbn [get_fld]. rewrite (bind_ok _ _ _ _ _ (get_fld_view f i p w r ix shp jx shp1 Hf Hr)).
  apply getitem_copy; assumption.
Qed.

Theorem get_fld_scalar f i s p w r ix shp jx shp1 si :
  f (root w i) = VWin r ix shp -> resolve ix shp p = Some (jx, shp1) ->
  lookup_slc s shp1 = Some si -> si_kind si = KScalar ->
  get_fld f i (s :: p) w =
    (w, Ok (VScal (hd c0 (rd (heap w) r (sub_ix jx (si_idx si)))) (bcplx (getbuf (heap w) r)) true)).
Proof.
  intros Hf Hr L K. cbn [get_fld]. rewrite (bind_ok _ _ _ _ _ (get_fld_view f i p w r ix shp jx shp1 Hf Hr)).
  cbn [getitem]. rewrite L, K. reflexivity.
Qed.

Lemma copy_reads h r tix :
  rd (h ++ [copy_buf h r tix]) (length h) (whole (length tix)) = rd h r tix.
Proof.
  unfold copy_buf. pose proof (rd_whole_new h (rd h r tix) (bcplx (getbuf h r))) as H.
  rewrite rd_length in H. exact H.
Qed.

(* assignment through a slice, as a post-condition *)
Theorem set_st_slice_wrote i s p x w r ix shp jx shp1 si :
  r_st (root w i) = VWin r ix shp -> resolve ix shp p = Some (jx, shp1) ->
  lookup_slc s shp1 = Some si -> (si_kind si = KView \/ si_kind si = KCopy) ->
  win_ok (heap w) r (sub_ix jx (si_idx si)) ->
  fits (heap w) x (si_shape si) (length (si_idx si)) (bcplx (getbuf (heap w) r)) ->
  exists w', set_st i (s :: p) x w = (w', Ok tt) /\ roots w' = roots w /\ vars w' = vars w /\
    wrote (heap w) (heap w') r (sub_ix jx (si_idx si)) (vdata (heap w) x (length (si_idx si))).
Proof.
  intros Hst Hr L K Hok Hf. rewrite (set_st_slice_spec i s p x w r ix shp jx shp1 si Hst Hr L K Hf).
  eexists. split; [reflexivity|]. split; [reflexivity|]. split; [reflexivity|].
  cbn [heap set_heap]. apply wrote_hwrite; [exact Hok|]. rewrite sub_ix_length. eapply fits_length; exact Hf.
Qed.

(* ================================================================== decidable side conditions (for examples) *)
Fixpoint nodupb (l : list nat) : bool :=
  match l with [] => true | x :: t => negb (existsb (Nat.eqb x) t) && nodupb t end.
Lemma nodupb_sound l : nodupb l = true -> NoDup l.
Proof.
  induction l as [|x t IH]; cbn; intros H; [constructor|].
  apply andb_true_iff in H as [H1 H2]. constructor; [|apply IH; exact H2].
  intros Hin. apply negb_true_iff in H1. assert (existsb (Nat.eqb x) t = true); [|congruence].
  apply existsb_exists. exists x. split; [exact Hin|apply Nat.eqb_refl].
Qed.
Definition win_okb (h : list buf) (r : nat) (ix : list nat) : bool :=
  Nat.ltb r (length h) && nodupb ix && forallb (fun k => Nat.ltb k (length (bdata (getbuf h r)))) ix.
Lemma win_okb_sound h r ix : win_okb h r ix = true -> win_ok h r ix.
Proof.
  unfold win_okb. intros H. apply andb_true_iff in H as [H H3]. apply andb_true_iff in H as [H1 H2].
  split; [apply Nat.ltb_lt; exact H1|split; [apply nodupb_sound; exact H2|]].
  apply Forall_forall. intros k Hk. rewrite forallb_forall in H3. apply Nat.ltb_lt. apply H3; exact Hk.
Qed.

(* ---- the two sentences of the property about aliasing, as instances of the invariant *)
Corollary mutate_after_add w i p v d : Inv w -> i < length (roots w) ->
  sens_abs (exec (OMut v d) (exec (OAddSens i p v) w)) i = sens_abs (exec (OAddSens i p v) w) i.
Proof.
  intros HI Hi. destruct (isolation_step w (OAddSens i p v) HI I) as (A & _ & L).
  destruct (isolation_step _ (OMut v d) A I) as (_ & B & _). apply B; [intros []|lia].
Qed.

Corollary same_object_two_signals w i j p q v : Inv w -> i < length (roots w) -> i <> j ->
  let w1 := exec (OAddSens i p v) w in let w2 := exec (OAddSens j q v) w1 in
  Inv w2 /\ sens_abs w2 i = sens_abs w1 i /\
  forall os, protocol_run w2 os -> Forall (fun o => ~ targets o i) os -> sens_abs (run os w2) i = sens_abs w1 i.
Proof.
  intros HI Hi Hne w1 w2. destruct (isolation_step w (OAddSens i p v) HI I) as (A & _ & L).
  destruct (isolation_step w1 (OAddSens j q v) A I) as (A2 & B2 & L2).
  assert (E : sens_abs w2 i = sens_abs w1 i) by (apply B2; [cbn; congruence|fold w1 in L; lia]).
  split; [exact A2|split; [exact E|]].
  intros os Hp Hf. rewrite <- E. apply isolation_run; auto. fold w1 in L. fold w2 in L2. lia.
Qed.
