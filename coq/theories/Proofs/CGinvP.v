(* Residual invariant and exit soundness of the block-CG loop, for arbitrary preconditioner, orthogonalisation,
   "inverse" and exit predicate. *)
From mathcomp Require Import all_ssreflect all_algebra.
From Pymoto Require Import Base.StarRing Model.CGinv.
Set Implicit Arguments.
Unset Strict Implicit.
Unset Printing Implicit Defensive.
Import GRing.Theory.
Local Open Scope ring_scope.

Section CGP.
Variable M : ringType.
Variables tr cj : M -> M.
Variables precond orth1 orth2 inv : M -> M.
Variable small : M -> bool.
Variables A b : M.
Variable restart : nat.

Local Notation step_x := (cg_step_x tr cj inv A).
Local Notation step_r := (cg_step_r tr cj inv A b).
Local Notation step_p := (cg_step_p tr cj precond orth2 inv A b).
Local Notation loop := (cg_loop tr cj precond orth2 inv small A b restart).
Local Notation trace := (cg_trace tr cj precond orth2 inv small A b restart).
Local Notation solve := (cg_solve tr cj precond orth1 orth2 inv small A b restart).

(* one step preserves  r = b - A x,  in the recurrence branch and in the explicit-restart branch *)
Lemma step_invariant rn x r p : r = b - A * x -> step_r rn x r p = b - A * step_x x r p.
Proof.
  move=> Er; rewrite /cg_step_r; case: rn => //.
  by rewrite /cg_step_x mulrDr opprD addrA -Er -!mulrA.
Qed.

Lemma traceS f i x r p : trace f.+1 i x r p =
  (step_x x r p, step_r (restart_now restart i) x r p) ::
  (if small (step_r (restart_now restart i) x r p) then [::]
   else trace f i.+1 (step_x x r p) (step_r (restart_now restart i) x r p) (step_p (restart_now restart i) x r p)).
Proof. by []. Qed.

Lemma loopS f i x r p : loop f.+1 i x r p =
  if small (step_r (restart_now restart i) x r p) then (step_x x r p, step_r (restart_now restart i) x r p)
  else loop f i.+1 (step_x x r p) (step_r (restart_now restart i) x r p) (step_p (restart_now restart i) x r p).
Proof. by []. Qed.

Lemma trace_invariant fuel : forall i x r p, r = b - A * x ->
  all (fun xr => xr.2 == b - A * xr.1) (trace fuel i x r p).
Proof.
  elim: fuel => [|f IH] i x r p Er //.
  rewrite traceS [all _ _]/= (step_invariant _ _ Er) eqxx /=.
  case: (small _) => //.
  exact: IH.
Qed.

Lemma loop_invariant fuel : forall i x r p, r = b - A * x ->
  (loop fuel i x r p).2 = b - A * (loop fuel i x r p).1.
Proof.
  elim: fuel => [|f IH] i x r p Er //.
  rewrite loopS; case: (small _); first by rewrite /= (step_invariant _ _ Er).
  by apply: IH; rewrite (step_invariant _ _ Er).
Qed.

Lemma solve_invariant maxit x0 : (solve maxit x0).2 = b - A * (solve maxit x0).1.
Proof.
  rewrite /cg_solve; case: (small _) => //=.
  exact: loop_invariant.
Qed.

(* exit soundness: without the max-iteration warning the TRUE residual of the returned x passes the test *)
Lemma exit_sound maxit x0 :
  ~~ cg_warns tr cj precond orth1 orth2 inv small A b restart maxit x0 ->
  small (b - A * (solve maxit x0).1).
Proof. by rewrite /cg_warns negbK -solve_invariant. Qed.

(* the loop exits only through the test or by exhausting maxit: when it stops early the test holds *)
Lemma loop_exit fuel : forall i x r p,
  small (loop fuel i x r p).2 \/ exists x' r' p' i', loop fuel i x r p = loop 0 i' x' r' p'.
Proof.
  elim: fuel => [|f IH] i x r p; first by right; exists x, r, p, i.
  rewrite loopS; case E: (small (step_r _ _ _ _)); first by left; rewrite /= E.
  exact: IH.
Qed.

(* the step does not depend on the scaling / mixing of the search directions:
   p |-> p * S  (S invertible) leaves  p * alpha  unchanged whenever `inv` returns inverses *)
Lemma scaled_inverse (pq S Si X Y hS hSi : M) :
  hSi * hS = 1 -> Y * pq = 1 -> hS * pq * S * X = 1 -> S * X = Y * hSi.
Proof.
  move=> H1 H2 H3.
  have E : pq * (S * X) = hSi by rewrite -[LHS]mul1r -H1 -[RHS]mulr1 -H3 -!mulrA.
  by rewrite -[LHS]mul1r -H2 -mulrA E.
Qed.

Hypothesis SL : star_laws tr cj.
Lemma step_scaling_invariant x r p S Si :
  S * Si = 1 ->
  inv (tr (cj p) * (A * p)) * (tr (cj p) * (A * p)) = 1 ->
  (tr (cj (p * S)) * (A * (p * S))) * inv (tr (cj (p * S)) * (A * (p * S))) = 1 ->
  step_x x r (p * S) = step_x x r p.
Proof.
  move=> HS Hl Hr; rewrite /cg_step_x; congr (_ + _).
  have hS : hm tr cj Si * hm tr cj S = 1 by exact: (hm_inv SL HS).
  set pq := tr (cj p) * (A * p) in Hl *.
  set pq' := tr (cj (p * S)) * (A * (p * S)) in Hr *.
  have Epq' : pq' = hm tr cj S * pq * S.
    by rewrite /pq' /pq -/(hm tr cj (p * S)) (hmM SL) /hm -!mulrA.
  have EX : S * inv pq' = inv pq * hm tr cj Si.
    by apply: (@scaled_inverse pq S Si (inv pq') (inv pq) (hm tr cj S) (hm tr cj Si) hS Hl); rewrite -Epq'.
  rewrite -/(hm tr cj (p * S)) (hmM SL) -[p * S * _]mulrA [S * _]mulrA EX -!mulrA.
  by rewrite [hm tr cj Si * _]mulrA hS mul1r.
Qed.

End CGP.
