(* Dtype facts of the linear-system modules (Model/LinDtype.v): the output buffers of SystemOfEquations have the numpy
   result type of ALL operands and float, and every value stored into them is stored without loss. *)
From Coq Require Import List Bool Arith Lia.
From Pymoto Require Import Model.LinDtype.
Import ListNotations.

Lemma dle_refl a : dle a a = true.
Proof. destruct a; reflexivity. Qed.

Lemma dle_trans a b c : dle a b = true -> dle b c = true -> dle a c = true.
Proof. destruct a, b, c; simpl; intros H1 H2; try reflexivity; discriminate. Qed.

Lemma dle_antisym a b : dle a b = true -> dle b a = true -> a = b.
Proof. destruct a, b; simpl; intros H1 H2; try reflexivity; discriminate. Qed.

Lemma rt_comm a b : rt a b = rt b a.
Proof. destruct a, b; reflexivity. Qed.

Lemma rt_assoc a b c : rt a (rt b c) = rt (rt a b) c.
Proof. destruct a, b, c; reflexivity. Qed.

Lemma rt_idem a : rt a a = a.
Proof. destruct a; reflexivity. Qed.

Lemma rt_ub_l a b : dle a (rt a b) = true.
Proof. destruct a, b; reflexivity. Qed.

Lemma rt_ub_r a b : dle b (rt a b) = true.
Proof. destruct a, b; reflexivity. Qed.

Lemma rt_lub a b c : dle a c = true -> dle b c = true -> dle (rt a b) c = true.
Proof. destruct a, b, c; simpl; intros H1 H2; try reflexivity; discriminate. Qed.

Lemma rt_complex a b : rt a b = DComplex <-> a = DComplex \/ b = DComplex.
Proof.
  split.
  - destruct a, b; simpl; intros H; try discriminate; auto.
  - destruct a, b; intros [H | H]; try discriminate H; reflexivity.
Qed.

(* np.result_type of a list is an upper bound of its members and the least one *)
Lemma rtl_fold_ge l : forall acc, dle acc (fold_left rt l acc) = true.
Proof.
  induction l as [|d l IH]; intros acc; simpl.
  - apply dle_refl.
  - apply dle_trans with (rt acc d); [apply rt_ub_l | apply IH].
Qed.

Lemma rtl_fold_ub l : forall acc d, In d l -> dle d (fold_left rt l acc) = true.
Proof.
  induction l as [|e l IH]; intros acc d Hin; simpl in *.
  - contradiction.
  - destruct Hin as [He | Hin].
    + subst e. apply dle_trans with (rt acc d); [apply rt_ub_r | apply rtl_fold_ge].
    + apply IH; exact Hin.
Qed.

Lemma rtl_fold_lub l : forall acc c, dle acc c = true -> (forall d, In d l -> dle d c = true) ->
  dle (fold_left rt l acc) c = true.
Proof.
  induction l as [|e l IH]; intros acc c Hacc Hall; simpl.
  - exact Hacc.
  - apply IH.
    + apply rt_lub; [exact Hacc | apply Hall; left; reflexivity].
    + intros d Hd; apply Hall; right; exact Hd.
Qed.

Lemma rtl_ub l d : In d l -> dle d (rtl l) = true.
Proof. apply rtl_fold_ub. Qed.

Lemma rtl_lub l c : (forall d, In d l -> dle d c = true) -> dle (rtl l) c = true.
Proof. intros H; apply rtl_fold_lub; [destruct c; reflexivity | exact H]. Qed.

(* ---------------------------------------------------------------- SystemOfEquations *)
Definition sol_ok (sol : dtype -> dtype -> dtype) : Prop := forall dM dr, sol dM dr = linsolve_dtype dM dr.

(* the output dtype of x and b is np.result_type(A.dtype, bf.dtype, xp.dtype, float) of ALL operands *)
Lemma soe_out_dtype dA dBf dXp :
  soe_x_buf dA dBf dXp = rtl [dA; dBf; dXp; DFloat] /\ soe_b_buf dA dBf dXp = rtl [dA; dBf; dXp; DFloat].
Proof. destruct dA, dBf, dXp; split; reflexivity. Qed.

Lemma soe_out_dtype_lub dA dBf dXp :
  let buf := soe_x_buf dA dBf dXp in
  dle dA buf = true /\ dle dBf buf = true /\ dle dXp buf = true /\ dle DFloat buf = true /\
  forall d, dle dA d = true -> dle dBf d = true -> dle dXp d = true -> dle DFloat d = true -> dle buf d = true.
Proof.
  destruct dA, dBf, dXp; simpl; repeat split; intros d; destruct d; simpl; intros; try reflexivity; discriminate.
Qed.

Lemma soe_out_complex_iff dA dBf dXp :
  soe_x_buf dA dBf dXp = DComplex <-> dA = DComplex \/ dBf = DComplex \/ dXp = DComplex.
Proof.
  split.
  - destruct dA, dBf, dXp; simpl; intros H; try discriminate; auto.
  - destruct dA, dBf, dXp; intros [H | [H | H]]; try discriminate H; reflexivity.
Qed.

Lemma soe_out_float_otherwise dA dBf dXp :
  dA <> DComplex -> dBf <> DComplex -> dXp <> DComplex -> soe_x_buf dA dBf dXp = DFloat.
Proof. destruct dA, dBf, dXp; simpl; intros H1 H2 H3; try reflexivity; contradiction. Qed.

(* every store into x and b keeps its value: x[p] = xp, x[f] = xf, b[f] = bf, b[p] = Apf xf + App xp *)
Lemma soe_stores_lossless sol dA dBf dXp : sol_ok sol ->
  stores_lossless (soe_x_buf dA dBf dXp) (soe_x_stores sol dA dBf dXp) = true /\
  stores_lossless (soe_b_buf dA dBf dXp) (soe_b_stores sol dA dBf dXp) = true.
Proof.
  intros H. unfold soe_x_stores, soe_b_stores, soe_bp_dtype, soe_xf_dtype, soe_b_buf.
  rewrite !H. destruct dA, dBf, dXp; split; reflexivity.
Qed.

(* ... and the computed free state / reactions have exactly the dtype of the buffers: nothing is widened either *)
Lemma soe_computed_dtypes sol dA dBf dXp : sol_ok sol ->
  soe_xf_dtype sol dA dBf dXp = soe_x_buf dA dBf dXp /\ soe_bp_dtype sol dA dBf dXp = soe_b_buf dA dBf dXp.
Proof.
  intros H. unfold soe_bp_dtype, soe_xf_dtype, soe_b_buf. rewrite !H. destruct dA, dBf, dXp; split; reflexivity.
Qed.

(* why the matrix dtype must take part: a buffer sized from the loads and the prescribed values alone loses the
   imaginary part of the free state for a complex matrix with real data *)
Lemma soe_buffer_needs_matrix_dtype :
  exists dA dBf dXp, dle (soe_xf_dtype linsolve_dtype dA dBf dXp) (rt (rt dBf dXp) DFloat) = false.
Proof. exists DComplex, DFloat, DFloat. reflexivity. Qed.

(* likewise the loads and the prescribed values (fix 92bff31), and float (integer data) *)
Lemma soe_buffer_needs_operand_dtypes :
  (exists dA dBf dXp, stores_lossless (rt dA DFloat) (soe_b_stores linsolve_dtype dA dBf dXp) = false) /\
  (exists dA dBf dXp, stores_lossless (rt dA DFloat) (soe_x_stores linsolve_dtype dA dBf dXp) = false) /\
  (exists dA dBf dXp, stores_lossless (rt (rt dA dBf) dXp) (soe_x_stores linsolve_dtype dA dBf dXp) = false).
Proof.
  split; [|split].
  - exists DFloat, DComplex, DFloat. reflexivity.
  - exists DFloat, DFloat, DComplex. reflexivity.
  - exists DInt, DInt, DInt. reflexivity.
Qed.

(* ---------------------------------------------------------------- StaticCondensation / LinSolve / Inverse *)
Lemma sc_out_dtype_eq sol dA : sol_ok sol -> sc_out_dtype sol dA = rt dA DFloat.
Proof. intros H. unfold sc_out_dtype, sc_inner_mat, sc_inner_rhs. rewrite H. destruct dA; reflexivity. Qed.

Lemma linsolve_dtype_is_result_type dM dr : linsolve_dtype dM dr = rtl [dM; dr; DFloat].
Proof. destruct dM, dr; reflexivity. Qed.

Lemma linsolve_dtype_complex_iff dM dr : linsolve_dtype dM dr = DComplex <-> dM = DComplex \/ dr = DComplex.
Proof.
  split.
  - destruct dM, dr; simpl; intros H; try discriminate; auto.
  - destruct dM, dr; intros [H | H]; try discriminate H; reflexivity.
Qed.
