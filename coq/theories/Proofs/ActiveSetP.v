(* Theorems about Model/ActiveSet.v.
   Part 1: structural theorems for EVERY instance of the float-like signature (so also for the executed
           binary64 instance): band characterisation, zero counts, shortcut, slices, removed entries
           are extremes under any sorting permutation.
   Part 2: the real-number instance: clean statements (lower_rel <= xrel_i <= upper_rel, counts are
           floor(n * fraction), the all-equal shortcut). *)
From Coq Require Import ZArith List Bool Lia Permutation Arith.
From Pymoto Require Import Model.ActiveSet.
Import ListNotations.

(* ------------------------------------------------------------------ list helpers *)
Lemma mem_nat_In i l : mem_nat i l = true <-> In i l.
Proof.
  unfold mem_nat. rewrite existsb_exists. split.
  - intros [y [Hy E]]. apply Nat.eqb_eq in E. subst. exact Hy.
  - intros H. exists i. split; [exact H | apply Nat.eqb_refl].
Qed.

Lemma mem_nat_false i l : mem_nat i l = false <-> ~ In i l.
Proof.
  rewrite <- mem_nat_In. destruct (mem_nat i l); split; intros H; try congruence; try discriminate;
    try (exfalso; apply H; reflexivity).
Qed.

Lemma nth_map_in {A B} (f : A -> B) l i d e : i < length l -> nth i (map f l) e = f (nth i l d).
Proof. intros H. rewrite nth_indep with (d' := f d) by (rewrite map_length; exact H). apply map_nth. Qed.

Lemma combine_seq_nth {A} (l : list A) (s i : nat) d e : i < length l ->
  nth i (combine (seq s (length l)) l) (d, e) = (s + i, nth i l e).
Proof.
  revert s i. induction l as [|a l IH]; intros s i Hi; cbn in *; [lia|].
  destruct i as [|i]; [f_equal; lia|]. rewrite IH by lia. f_equal. lia.
Qed.

Lemma clear_idx_length idx sel : length (clear_idx idx sel) = length sel.
Proof. unfold clear_idx. rewrite map_length, combine_length, seq_length. lia. Qed.

Lemma clear_idx_nth idx sel i : i < length sel ->
  nth i (clear_idx idx sel) false = negb (mem_nat i idx) && nth i sel false.
Proof.
  intros Hi. unfold clear_idx.
  rewrite nth_map_in with (d := (0, false)) by (rewrite combine_length, seq_length; lia).
  rewrite combine_seq_nth by exact Hi. cbn. destruct (mem_nat i idx); reflexivity.
Qed.

Lemma clear_idx_nil sel : clear_idx [] sel = sel.
Proof.
  unfold clear_idx. cbn. generalize 0. induction sel as [|b sel IH]; intros s; cbn; [reflexivity|].
  f_equal. apply IH.
Qed.

Lemma and_mask_length a b : length a = length b -> length (and_mask a b) = length a.
Proof. intros H. unfold and_mask. rewrite map_length, combine_length. lia. Qed.

Lemma and_mask_nth a b i : length a = length b -> i < length a ->
  nth i (and_mask a b) false = nth i a false && nth i b false.
Proof.
  intros Hl Hi. unfold and_mask.
  rewrite nth_map_in with (d := (false, false)) by (rewrite combine_length; lia).
  rewrite combine_nth by exact Hl. reflexivity.
Qed.

(* ------------------------------------------------------------------ Python slices *)
Lemma slice_to_nonneg {A} (l : list A) k : (0 <= k)%Z ->
  slice_to l k = firstn (Nat.min (Z.to_nat k) (length l)) l.
Proof.
  intros Hk. unfold slice_to, py_norm. destruct (Z.ltb_spec k 0); [lia|]. f_equal. lia.
Qed.

Lemma slice_from_neg {A} (l : list A) k : (0 < k)%Z ->
  slice_from l (- k) = skipn (length l - Nat.min (Z.to_nat k) (length l)) l.
Proof.
  intros Hk. unfold slice_from, py_norm. destruct (Z.ltb_spec (- k) 0); [|lia]. f_equal. lia.
Qed.

(* l[-0:] is the whole list: the source of finding F01 *)
Lemma slice_from_minus_zero {A} (l : list A) : slice_from l (- 0) = l.
Proof. unfold slice_from, py_norm. cbn. replace (Z.to_nat (Z.min 0 (Z.of_nat (length l)))) with 0 by lia. reflexivity. Qed.

Lemma slice_to_zero {A} (l : list A) : slice_to l 0 = [].
Proof. unfold slice_to, py_norm. cbn. replace (Z.to_nat (Z.min 0 (Z.of_nat (length l)))) with 0 by lia. reflexivity. Qed.

Lemma slice_to_length {A} (l : list A) k : (0 <= k)%Z -> length (slice_to l k) = Nat.min (Z.to_nat k) (length l).
Proof. intros Hk. rewrite slice_to_nonneg by exact Hk. rewrite firstn_length. lia. Qed.

Lemma slice_from_length {A} (l : list A) k : (0 < k)%Z -> length (slice_from l (- k)) = Nat.min (Z.to_nat k) (length l).
Proof. intros Hk. rewrite slice_from_neg by exact Hk. rewrite skipn_length. lia. Qed.

Lemma In_firstn_nth {A} (l : list A) k x d : In x (firstn k l) -> exists a, a < k /\ a < length l /\ nth a l d = x.
Proof.
  revert k. induction l as [|y l IH]; intros k H; destruct k; cbn in H; try contradiction.
  destruct H as [-> | H].
  - exists 0. cbn. repeat split; lia.
  - destruct (IH k H) as [a [Ha [Hl E]]]. exists (S a). cbn. repeat split; try lia. exact E.
Qed.

Lemma nth_In_firstn {A} (l : list A) k a d : a < k -> a < length l -> In (nth a l d) (firstn k l).
Proof.
  revert k a. induction l as [|y l IH]; intros k a Hk Hl; cbn in Hl; [lia|].
  destruct k; [lia|]. destruct a; cbn; [left; reflexivity | right; apply IH; lia].
Qed.

Lemma In_skipn_nth {A} (l : list A) k x d : In x (skipn k l) -> exists a, k <= a /\ a < length l /\ nth a l d = x.
Proof.
  revert k. induction l as [|y l IH]; intros k H; destruct k; try (cbn in H; contradiction).
  - rewrite skipn_O in H. destruct (In_nth _ _ d H) as [a [Ha E]]. exists a. repeat split; try lia; assumption.
  - cbn in H. destruct (IH k H) as [a [Ha [Hl E]]]. exists (S a). cbn. repeat split; try lia. exact E.
Qed.

Lemma nth_In_skipn {A} (l : list A) k a d : k <= a -> a < length l -> In (nth a l d) (skipn k l).
Proof.
  revert k a. induction l as [|y l IH]; intros k a Hk Hl; cbn in Hl; [lia|].
  destruct k; [apply nth_In; cbn; lia|]. destruct a; [lia|]. cbn. apply IH; lia.
Qed.

(* ------------------------------------------------------------------ Part 1: every instance *)
Section Generic.
  Context {K : Type} (O : FOps K).
  Local Notation F0 := (f0 O).
  Local Notation F1 := (f1 O).

  Definition xmin_of (x : list K) : K := match x with [] => F0 | h :: t => vmin O h t end.
  Definition xmax_of (x : list K) : K := match x with [] => F0 | h :: t => vmax O h t end.
  (* normalised value of entry i, as the code computes it *)
  Definition xrel_i (x : list K) (i : nat) : K := xrel_of O (xmin_of x) (xmax_of x) (nthK O x i).

  Definition value_ok (c : as_cfg) (x : list K) (i : nat) : Prop :=
    (fltb O F0 (lower_rel c) = true -> fleb O (lower_rel c) (xrel_i x i) = true) /\
    (fltb O (upper_rel c) F1 = true -> fleb O (xrel_i x i) (upper_rel c) = true).

  Lemma value_mask_length c a b x : length (value_mask O c a b x) = length x.
  Proof.
    unfold value_mask.
    assert (L0 : length (map (fun _ : K => true) x) = length x) by apply map_length.
    assert (La : forall f : K -> bool, length (map f (map (xrel_of O a b) x)) = length x) by (intros f; rewrite !map_length; reflexivity).
    destruct (fltb O (upper_rel c) F1), (fltb O F0 (lower_rel c)).
    - rewrite and_mask_length; rewrite and_mask_length; rewrite ?L0, ?La; reflexivity.
    - rewrite and_mask_length; rewrite ?L0, ?La; reflexivity.
    - rewrite and_mask_length; rewrite ?L0, ?La; reflexivity.
    - exact L0.
  Qed.

  Lemma value_mask_nth c x i : i < length x ->
    (nth i (value_mask O c (xmin_of x) (xmax_of x) x) false = true <-> value_ok c x i).
  Proof.
    intros Hi. unfold value_mask, value_ok, xrel_i, nthK.
    set (xr := map (xrel_of O (xmin_of x) (xmax_of x)) x).
    assert (Hxr : forall f : K -> bool, nth i (map f xr) false = f (xrel_of O (xmin_of x) (xmax_of x) (nth i x F0))).
    { intros f. unfold xr. rewrite map_map. apply nth_map_in with (f := fun v => f (xrel_of O (xmin_of x) (xmax_of x) v)). exact Hi. }
    assert (H1 : nth i (map (fun _ : K => true) x) false = true).
    { rewrite nth_map_in with (d := F0) by exact Hi. reflexivity. }
    assert (Lxr : length xr = length x) by (unfold xr; apply map_length).
    assert (L0 : length (map (fun _ : K => true) x) = length x) by apply map_length.
    assert (La : forall f : K -> bool, length (map f xr) = length x) by (intros f; rewrite map_length; exact Lxr).
    destruct (fltb O F0 (lower_rel c)) eqn:E1, (fltb O (upper_rel c) F1) eqn:E2.
    - assert (L1 : length (and_mask (map (fun _ : K => true) x) (map (fun r : K => fleb O (lower_rel c) r) xr)) = length x).
      { rewrite and_mask_length; rewrite ?L0, ?La; reflexivity. }
      rewrite and_mask_nth; [| rewrite L1, La; reflexivity | rewrite L1; exact Hi].
      rewrite and_mask_nth; [| rewrite L0, La; reflexivity | rewrite L0; exact Hi].
      rewrite H1, !Hxr. cbn. rewrite andb_true_iff. tauto.
    - rewrite and_mask_nth; [| rewrite L0, La; reflexivity | rewrite L0; exact Hi].
      rewrite H1, !Hxr. cbn. split; [intros H; split; [auto | discriminate] | intros [H _]; auto].
    - rewrite and_mask_nth; [| rewrite L0, La; reflexivity | rewrite L0; exact Hi].
      rewrite H1, !Hxr. cbn. split; [intros H; split; [discriminate | auto] | intros [_ H]; auto].
    - rewrite H1. split; [intros _; split; discriminate | reflexivity].
  Qed.

  (* -- the band theorem: what AggActiveSet.__call__ returns when it returns a mask *)
  Theorem band_gen rem c isort x m : active_set_gen O rem c isort x = AS_Mask m ->
    length m = length x /\
    forall i, i < length x ->
      (nth i m false = true <->
       value_ok c x i /\ ~ In i (removed_lo O c isort (Z.of_nat (length x)))
                      /\ ~ In i (rem c isort (Z.of_nat (length x)))).
  Proof.
    unfold active_set_gen. destruct x as [|h t]; [discriminate|].
    destruct (feqb O (fsub O (vmax O h t) (vmin O h t)) F0); [discriminate|].
    intros E. injection E as <-. set (x := h :: t).
    split.
    - rewrite !clear_idx_length. apply value_mask_length.
    - intros i Hi.
      rewrite clear_idx_nth by (rewrite clear_idx_length, value_mask_length; exact Hi).
      rewrite clear_idx_nth by (rewrite value_mask_length; exact Hi).
      rewrite !andb_true_iff, !negb_true_iff, !mem_nat_false.
      change (vmin O h t) with (xmin_of x). change (vmax O h t) with (xmax_of x).
      rewrite (value_mask_nth c x i Hi). tauto.
  Qed.

  Theorem band c isort x m : active_set O c isort x = AS_Mask m ->
    length m = length x /\
    forall i, i < length x ->
      (nth i m false = true <->
       value_ok c x i /\ ~ In i (removed_lo O c isort (Z.of_nat (length x)))
                      /\ ~ In i (removed_hi O c isort (Z.of_nat (length x)))).
  Proof. apply band_gen. Qed.

  (* -- which result is returned *)
  Theorem result_cases c isort x :
    (x = [] /\ active_set O c isort x = AS_ValueError) \/
    (x <> [] /\ feqb O (fsub O (xmax_of x) (xmin_of x)) F0 = true /\ active_set O c isort x = AS_All) \/
    (x <> [] /\ feqb O (fsub O (xmax_of x) (xmin_of x)) F0 = false /\ exists m, active_set O c isort x = AS_Mask m).
  Proof.
    destruct x as [|h t]; [left; split; reflexivity|]. right.
    unfold active_set, active_set_gen. cbn [xmax_of xmin_of].
    destruct (feqb O (fsub O (vmax O h t) (vmin O h t)) F0).
    - left. repeat split; congruence.
    - right. repeat split; try congruence. eexists. reflexivity.
  Qed.

  (* -- the index sets removed by count *)
  Theorem removed_lo_spec c isort n : (0 <= n_lower O c n)%Z ->
    removed_lo O c isort n =
      if fltb O F0 (lower_amt c) then firstn (Nat.min (Z.to_nat (n_lower O c n)) (length isort)) isort else [].
  Proof. intros H. unfold removed_lo. destruct (fltb O F0 (lower_amt c)); [apply slice_to_nonneg; exact H | reflexivity]. Qed.

  Theorem removed_hi_spec c isort n :
    removed_hi O c isort n =
      if fltb O (upper_amt c) F1 && (0 <? n_upper O c n)%Z
      then skipn (length isort - Nat.min (Z.to_nat (n_upper O c n)) (length isort)) isort else [].
  Proof.
    unfold removed_hi. destruct (fltb O (upper_amt c) F1); cbn; [|reflexivity].
    destruct (Z.ltb_spec 0 (n_upper O c n)); [apply slice_from_neg; assumption | reflexivity].
  Qed.

  (* a count that is zero removes nothing *)
  Theorem zero_lower_removes_nothing c isort n : n_lower O c n = 0%Z -> removed_lo O c isort n = [].
  Proof. intros H. unfold removed_lo. rewrite H. destruct (fltb O F0 (lower_amt c)); [apply slice_to_zero | reflexivity]. Qed.

  Theorem zero_upper_removes_nothing c isort n : (n_upper O c n <= 0)%Z -> removed_hi O c isort n = [].
  Proof.
    intros H. unfold removed_hi. destruct (fltb O (upper_amt c) F1); [|reflexivity].
    destruct (Z.ltb_spec 0 (n_upper O c n)); [lia | reflexivity].
  Qed.

  Theorem zero_counts_keep_band c isort x m : active_set O c isort x = AS_Mask m ->
    n_lower O c (Z.of_nat (length x)) = 0%Z -> n_upper O c (Z.of_nat (length x)) = 0%Z ->
    forall i, i < length x -> (nth i m false = true <-> value_ok c x i).
  Proof.
    intros E Hl Hu i Hi. destruct (band c isort x m E) as [_ B]. rewrite (B i Hi).
    rewrite zero_lower_removes_nothing by exact Hl. rewrite zero_upper_removes_nothing by lia.
    cbn. tauto.
  Qed.

  (* whole-number counts: exactly min(k, n) entries are removed by each clause *)
  Theorem removed_lo_count c isort n : (0 <= n_lower O c n)%Z -> fltb O F0 (lower_amt c) = true ->
    length (removed_lo O c isort n) = Nat.min (Z.to_nat (n_lower O c n)) (length isort).
  Proof. intros H E. unfold removed_lo. rewrite E. apply slice_to_length. exact H. Qed.

  Theorem removed_hi_count c isort n : (0 < n_upper O c n)%Z -> fltb O (upper_amt c) F1 = true ->
    length (removed_hi O c isort n) = Nat.min (Z.to_nat (n_upper O c n)) (length isort).
  Proof.
    intros H E. unfold removed_hi. rewrite E. destruct (Z.ltb_spec 0 (n_upper O c n)); [|lia].
    apply slice_from_length. exact H.
  Qed.

  (* the unguarded slice (code before the fix of F01) removes EVERY index when the count is zero *)
  Theorem unguarded_zero_removes_all c isort n : fltb O (upper_amt c) F1 = true -> n_upper O c n = 0%Z ->
    removed_hi_unguarded O c isort n = isort.
  Proof. intros E H. unfold removed_hi_unguarded. rewrite E, H. apply slice_from_minus_zero. Qed.

  (* -- sorting permutations *)
  Definition sorting_perm (x : list K) (p : list nat) : Prop :=
    Permutation p (seq 0 (length x)) /\
    forall a b, a < b -> b < length x -> fleb O (nthK O x (nth a p 0)) (nthK O x (nth b p 0)) = true.

  Hypothesis leb_trans : forall a b c, fleb O a b = true -> fleb O b c = true -> fleb O a c = true.

  Lemma sorted_b_adjacent x p : sorted_b O x p = true ->
    forall a, S a < length p -> fleb O (nthK O x (nth a p 0)) (nthK O x (nth (S a) p 0)) = true.
  Proof.
    induction p as [|u p IH]; intros H a Ha; cbn in Ha; [lia|].
    destruct p as [|v p]; cbn in Ha; [lia|].
    cbn [sorted_b] in H. apply andb_true_iff in H as [H1 H2].
    destruct a as [|a]; [exact H1|]. apply (IH H2 a). cbn. lia.
  Qed.

  Lemma sorted_b_all x p : sorted_b O x p = true ->
    forall a b, a < b -> b < length p -> fleb O (nthK O x (nth a p 0)) (nthK O x (nth b p 0)) = true.
  Proof.
    intros H a b Hab Hb. induction b as [|b IH]; [lia|].
    destruct (Nat.eq_dec a b) as [-> | Hne].
    - apply sorted_b_adjacent; assumption.
    - apply leb_trans with (b := nthK O x (nth b p 0)).
      + apply IH; lia.
      + apply sorted_b_adjacent; assumption.
  Qed.

  Lemma perm_b_sound n p : perm_b n p = true -> Permutation p (seq 0 n).
  Proof.
    unfold perm_b. intros H. apply andb_true_iff in H as [Hl Hall]. apply Nat.eqb_eq in Hl.
    rewrite forallb_forall in Hall.
    assert (Hincl : incl (seq 0 n) p) by (intros i Hi; apply mem_nat_In, Hall, Hi).
    assert (Hnd : NoDup p).
    { apply NoDup_incl_NoDup with (l := seq 0 n); [apply seq_NoDup | rewrite seq_length; lia | exact Hincl]. }
    apply Permutation_sym. apply NoDup_Permutation_bis; [apply seq_NoDup | rewrite seq_length; lia | exact Hincl].
  Qed.

  (* the check performed inside Coq on numpy's argsort result is sound *)
  Theorem sorting_perm_b_sound x p : sorting_perm_b O x p = true -> sorting_perm x p.
  Proof.
    unfold sorting_perm_b. intros H. apply andb_true_iff in H as [Hp Hs].
    split; [apply perm_b_sound; exact Hp|].
    intros a b Hab Hb. apply sorted_b_all; try assumption.
    unfold perm_b in Hp. apply andb_true_iff in Hp as [Hl _]. apply Nat.eqb_eq in Hl. lia.
  Qed.

  Lemma perm_index x p i : sorting_perm x p -> i < length x -> exists b, b < length x /\ nth b p 0 = i.
  Proof.
    intros [Hp _] Hi.
    assert (Hin : In i p) by (apply Permutation_in with (l := seq 0 (length x)); [apply Permutation_sym; exact Hp | apply in_seq; lia]).
    destruct (In_nth _ _ 0 Hin) as [b [Hb E]]. exists b. split; [|exact E].
    apply Permutation_length in Hp. rewrite seq_length in Hp. lia.
  Qed.

  (* every entry removed by the lower count is <= every entry not removed by it; mirrored for the upper
     count -- whatever permutation (tie-breaking) argsort returned *)
  Theorem removed_lo_are_lowest c x p j i : sorting_perm x p ->
    In j (removed_lo O c p (Z.of_nat (length x))) -> i < length x ->
    ~ In i (removed_lo O c p (Z.of_nat (length x))) ->
    fleb O (nthK O x j) (nthK O x i) = true.
  Proof.
    intros SP Hj Hi Hni. unfold removed_lo in *.
    destruct (fltb O F0 (lower_amt c)); [|contradiction].
    unfold slice_to in *. set (k := Z.to_nat _) in *.
    destruct (In_firstn_nth _ _ _ 0 Hj) as [a [Hak [Hal Ea]]].
    destruct (perm_index x p i SP Hi) as [b [Hb Eb]].
    assert (Hlen : length p = length x).
    { destruct SP as [Hp _]. apply Permutation_length in Hp. rewrite seq_length in Hp. exact Hp. }
    assert (Hkb : k <= b).
    { destruct (le_lt_dec k b) as [|Hlt]; [assumption|]. exfalso. apply Hni. rewrite <- Eb.
      apply nth_In_firstn; lia. }
    rewrite <- Ea, <- Eb. destruct SP as [_ Hs]. apply Hs; lia.
  Qed.

  Theorem removed_hi_are_highest c x p j i : sorting_perm x p ->
    In j (removed_hi O c p (Z.of_nat (length x))) -> i < length x ->
    ~ In i (removed_hi O c p (Z.of_nat (length x))) ->
    fleb O (nthK O x i) (nthK O x j) = true.
  Proof.
    intros SP Hj Hi Hni. unfold removed_hi in *.
    destruct (fltb O (upper_amt c) F1); [|contradiction].
    destruct (0 <? n_upper O c (Z.of_nat (length x)))%Z; [|contradiction].
    unfold slice_from in *. set (k := Z.to_nat _) in *.
    destruct (In_skipn_nth _ _ _ 0 Hj) as [a [Hak [Hal Ea]]].
    destruct (perm_index x p i SP Hi) as [b [Hb Eb]].
    assert (Hlen : length p = length x).
    { destruct SP as [Hp _]. apply Permutation_length in Hp. rewrite seq_length in Hp. exact Hp. }
    assert (Hkb : b < k).
    { destruct (le_lt_dec k b) as [Hle|]; [|assumption]. exfalso. apply Hni. rewrite <- Eb.
      apply nth_In_skipn; lia. }
    rewrite <- Ea, <- Eb. destruct SP as [_ Hs]. apply Hs; lia.
  Qed.
End Generic.

(* ------------------------------------------------------------------ Part 2: the real-number instance *)
From Coq Require Import Reals Lra.
Open Scope R_scope.

Definition Rleb (a b : R) : bool := if Rle_dec a b then true else false.
Definition Rltb (a b : R) : bool := if Rlt_dec a b then true else false.
Definition Reqb (a b : R) : bool := if Req_EM_T a b then true else false.
(* int(r): truncation towards zero *)
Definition Rtrunc (r : R) : Z := if Rle_dec 0 r then Int_part r else (- Int_part (- r))%Z.

Definition ROps : FOps R :=
  {| f0 := 0; f1 := 1; fsub := Rminus; fmul := Rmult; fdiv := Rdiv;
     fleb := Rleb; fltb := Rltb; feqb := Reqb; fofZ := IZR; ftrunc := Rtrunc |}.

Lemma Rleb_true a b : Rleb a b = true <-> a <= b.
Proof. unfold Rleb. destruct (Rle_dec a b); split; intros; try assumption; try reflexivity; try discriminate; contradiction. Qed.
Lemma Rltb_true a b : Rltb a b = true <-> a < b.
Proof. unfold Rltb. destruct (Rlt_dec a b); split; intros; try assumption; try reflexivity; try discriminate; contradiction. Qed.
Lemma Reqb_true a b : Reqb a b = true <-> a = b.
Proof. unfold Reqb. destruct (Req_EM_T a b); split; intros; try assumption; try reflexivity; try discriminate; contradiction. Qed.
Lemma Rltb_false a b : Rltb a b = false <-> b <= a.
Proof. unfold Rltb. destruct (Rlt_dec a b); split; intros; try reflexivity; try discriminate; lra. Qed.
Lemma Reqb_false a b : Reqb a b = false <-> a <> b.
Proof. unfold Reqb. destruct (Req_EM_T a b); split; intros; try assumption; try reflexivity; try discriminate; contradiction. Qed.

Lemma Rleb_trans a b c : Rleb a b = true -> Rleb b c = true -> Rleb a c = true.
Proof. rewrite !Rleb_true. lra. Qed.

(* np.min / np.max over R *)
Lemma vmin_R_spec h t : In (vmin ROps h t) (h :: t) /\ forall v, In v (h :: t) -> vmin ROps h t <= v.
Proof.
  unfold vmin. revert h. induction t as [|a t IH]; intros h.
  - cbn. split; [left; reflexivity | intros v [<- | []]; lra].
  - cbn [fold_left]. change (fltb ROps a h) with (Rltb a h).
    destruct (Rltb a h) eqn:Elt; [apply Rltb_true in Elt | apply Rltb_false in Elt].
    + destruct (IH a) as [Hin Hle]. split.
      * destruct Hin as [E | Hin]; [right; left; exact E | right; right; exact Hin].
      * intros v [<- | [<- | Hv]].
        -- apply Rle_trans with a; [apply Hle; left; reflexivity | lra].
        -- apply Hle. left. reflexivity.
        -- apply Hle. right. exact Hv.
    + destruct (IH h) as [Hin Hle]. split.
      * destruct Hin as [E | Hin]; [left; exact E | right; right; exact Hin].
      * intros v [<- | [<- | Hv]].
        -- apply Hle. left. reflexivity.
        -- apply Rle_trans with h; [apply Hle; left; reflexivity | lra].
        -- apply Hle. right. exact Hv.
Qed.

Lemma vmax_R_spec h t : In (vmax ROps h t) (h :: t) /\ forall v, In v (h :: t) -> v <= vmax ROps h t.
Proof.
  unfold vmax. revert h. induction t as [|a t IH]; intros h.
  - cbn. split; [left; reflexivity | intros v [<- | []]; lra].
  - cbn [fold_left]. change (fltb ROps h a) with (Rltb h a).
    destruct (Rltb h a) eqn:Elt; [apply Rltb_true in Elt | apply Rltb_false in Elt].
    + destruct (IH a) as [Hin Hle]. split.
      * destruct Hin as [E | Hin]; [right; left; exact E | right; right; exact Hin].
      * intros v [<- | [<- | Hv]].
        -- apply Rle_trans with a; [lra | apply Hle; left; reflexivity].
        -- apply Hle. left. reflexivity.
        -- apply Hle. right. exact Hv.
    + destruct (IH h) as [Hin Hle]. split.
      * destruct Hin as [E | Hin]; [left; exact E | right; right; exact Hin].
      * intros v [<- | [<- | Hv]].
        -- apply Hle. left. reflexivity.
        -- apply Rle_trans with h; [lra | apply Hle; left; reflexivity].
        -- apply Hle. right. exact Hv.
Qed.

Definition Rmin_list (x : list R) : R := xmin_of ROps x.
Definition Rmax_list (x : list R) : R := xmax_of ROps x.

Lemma Rmin_list_spec x : x <> [] -> In (Rmin_list x) x /\ forall v, In v x -> Rmin_list x <= v.
Proof. destruct x as [|h t]; [congruence|]. intros _. apply vmin_R_spec. Qed.
Lemma Rmax_list_spec x : x <> [] -> In (Rmax_list x) x /\ forall v, In v x -> v <= Rmax_list x.
Proof. destruct x as [|h t]; [congruence|]. intros _. apply vmax_R_spec. Qed.

(* normalised value over R *)
Definition xrel_R (x : list R) (i : nat) : R := (nth i x 0 - Rmin_list x) / (Rmax_list x - Rmin_list x).

Lemma xrel_R_eq x i : xrel_i ROps x i = xrel_R x i.
Proof. reflexivity. Qed.

Lemma xrel_R_range x i : (i < length x)%nat -> Rmin_list x <> Rmax_list x -> 0 <= xrel_R x i <= 1.
Proof.
  intros Hi Hne. assert (Hx : x <> []) by (destruct x; [cbn in Hi; lia | congruence]).
  destruct (Rmin_list_spec x Hx) as [Hmi Hmin]. destruct (Rmax_list_spec x Hx) as [Hma Hmax].
  assert (Hlt : Rmin_list x < Rmax_list x) by (specialize (Hmax _ Hmi); lra).
  assert (Hv := nth_In x 0 Hi). specialize (Hmin _ Hv). specialize (Hmax _ Hv).
  unfold xrel_R. split.
  - apply Rmult_le_pos; [lra | left; apply Rinv_0_lt_compat; lra].
  - apply Rmult_le_reg_r with (Rmax_list x - Rmin_list x); [lra|]. unfold Rdiv.
    rewrite Rmult_assoc, Rinv_l by lra. lra.
Qed.

(* the shortcut: Ellipsis is returned exactly when all entries are equal *)
Theorem shortcut_R c isort x : active_set ROps c isort x = AS_All <-> (x <> [] /\ forall v w, In v x -> In w x -> v = w).
Proof.
  destruct (result_cases ROps c isort x) as [[-> E] | [[Hx [Hz E]] | [Hx [Hz [m E]]]]].
  - rewrite E. split; [discriminate | intros [H _]; congruence].
  - rewrite E. split; [|reflexivity]. intros _. split; [exact Hx|].
    cbn [feqb fsub f0 ROps] in Hz. apply Reqb_true in Hz.
    destruct (Rmin_list_spec x Hx) as [_ Hmin]. destruct (Rmax_list_spec x Hx) as [_ Hmax].
    unfold Rmin_list, Rmax_list in *. intros v w Hv Hw.
    pose proof (Hmin v Hv). pose proof (Hmin w Hw). pose proof (Hmax v Hv). pose proof (Hmax w Hw). lra.
  - rewrite E. split; [discriminate|]. intros [_ Hall]. exfalso.
    cbn [feqb fsub f0 ROps] in Hz. apply Reqb_false in Hz. apply Hz.
    destruct (Rmin_list_spec x Hx) as [Hmi _]. destruct (Rmax_list_spec x Hx) as [Hma _].
    unfold Rmin_list, Rmax_list in *. rewrite (Hall _ _ Hma Hmi). lra.
Qed.

(* the band theorem over R: kept  <->  lower_rel <= xrel_i <= upper_rel  and not removed by a count *)
Theorem band_R c isort x : x <> [] -> ~ (forall v w, In v x -> In w x -> v = w) ->
  exists m, active_set ROps c isort x = AS_Mask m /\ length m = length x /\
    forall i, (i < length x)%nat ->
      (nth i m false = true <->
       lower_rel c <= xrel_R x i <= upper_rel c
       /\ ~ In i (removed_lo ROps c isort (Z.of_nat (length x)))
       /\ ~ In i (removed_hi ROps c isort (Z.of_nat (length x)))).
Proof.
  intros Hx Hneq.
  destruct (result_cases ROps c isort x) as [[-> E] | [[_ [Hz E]] | [_ [Hz [m E]]]]]; [congruence | |].
  - exfalso. apply Hneq. apply (proj1 (shortcut_R c isort x) E).
  - exists m. split; [exact E|]. destruct (band ROps c isort x m E) as [Hl B]. split; [exact Hl|].
    intros i Hi. rewrite (B i Hi). unfold value_ok. rewrite xrel_R_eq.
    cbn [feqb fsub f0 ROps] in Hz. apply Reqb_false in Hz.
    assert (Hr : 0 <= xrel_R x i <= 1).
    { apply xrel_R_range; [exact Hi|]. unfold Rmin_list, Rmax_list. lra. }
    cbn [fltb fleb f0 f1 ROps]. rewrite !Rltb_true, !Rleb_true.
    split.
    + intros [[H1 H2] H3]. split; [|exact H3]. split.
      * destruct (Rlt_dec 0 (lower_rel c)); [auto | lra].
      * destruct (Rlt_dec (upper_rel c) 1); [auto | lra].
    + intros [[H1 H2] H3]. split; [|exact H3]. split; intros _; assumption.
Qed.

(* the counts are the fractions rounded down to whole entries *)
Lemma Rtrunc_nonneg r : 0 <= r -> (0 <= Rtrunc r)%Z /\ IZR (Rtrunc r) <= r < IZR (Rtrunc r) + 1.
Proof.
  intros H. unfold Rtrunc. destruct (Rle_dec 0 r); [|contradiction].
  destruct (base_Int_part r) as [H1 H2]. split.
  - apply le_IZR. apply Rnot_lt_le. intros Hlt.
    assert (IZR (Int_part r) <= -1) by (apply IZR_le; apply lt_IZR in Hlt; lia). lra.
  - lra.
Qed.

Theorem n_lower_floor c n : 0 <= lower_amt c -> (0 <= n)%Z ->
  (0 <= n_lower ROps c n)%Z /\
  IZR (n_lower ROps c n) <= IZR n * lower_amt c < IZR (n_lower ROps c n) + 1.
Proof.
  intros Ha Hn. unfold n_lower. cbn [ftrunc fmul fofZ ROps]. apply Rtrunc_nonneg.
  apply Rmult_le_pos; [apply IZR_le; exact Hn | exact Ha].
Qed.

Theorem n_upper_floor c n : upper_amt c <= 1 -> (0 <= n)%Z ->
  (0 <= n_upper ROps c n)%Z /\
  IZR (n_upper ROps c n) <= IZR n * (1 - upper_amt c) < IZR (n_upper ROps c n) + 1.
Proof.
  intros Ha Hn. unfold n_upper. cbn [ftrunc fmul fsub f1 fofZ ROps]. apply Rtrunc_nonneg.
  apply Rmult_le_pos; [apply IZR_le; exact Hn | lra].
Qed.

(* a fraction that rounds down to zero entries removes nothing *)
Theorem small_fraction_removes_nothing_lo c isort n : (0 <= n)%Z -> 0 <= lower_amt c -> IZR n * lower_amt c < 1 ->
  removed_lo ROps c isort n = [].
Proof.
  intros Hn Ha Hlt. apply zero_lower_removes_nothing.
  destruct (n_lower_floor c n Ha Hn) as [H0 [H1 H2]].
  assert (n_lower ROps c n < 1)%Z by (apply lt_IZR; lra). lia.
Qed.

Theorem small_fraction_removes_nothing_hi c isort n : (0 <= n)%Z -> upper_amt c <= 1 -> IZR n * (1 - upper_amt c) < 1 ->
  removed_hi ROps c isort n = [].
Proof.
  intros Hn Ha Hlt. apply zero_upper_removes_nothing.
  destruct (n_upper_floor c n Ha Hn) as [H0 [H1 H2]].
  assert (n_upper ROps c n < 1)%Z by (apply lt_IZR; lra). lia.
Qed.

(* removed entries are extremes, over R, for any sorting permutation *)
Definition sorting_perm_R (x : list R) (p : list nat) : Prop :=
  Permutation p (seq 0 (length x)) /\
  forall a b, (a < b)%nat -> (b < length x)%nat -> nth (nth a p 0%nat) x 0 <= nth (nth b p 0%nat) x 0.

Lemma sorting_perm_R_iff x p : sorting_perm_R x p <-> sorting_perm ROps x p.
Proof.
  unfold sorting_perm_R, sorting_perm, nthK. cbn [fleb f0 ROps].
  split; intros [Hp Hs]; (split; [exact Hp|]); intros a b Hab Hb; specialize (Hs a b Hab Hb);
    [apply Rleb_true; exact Hs | apply Rleb_true in Hs; exact Hs].
Qed.

Theorem removed_are_extremes_R c x p : sorting_perm_R x p ->
  (forall j i, In j (removed_lo ROps c p (Z.of_nat (length x))) -> (i < length x)%nat ->
               ~ In i (removed_lo ROps c p (Z.of_nat (length x))) -> nth j x 0 <= nth i x 0) /\
  (forall j i, In j (removed_hi ROps c p (Z.of_nat (length x))) -> (i < length x)%nat ->
               ~ In i (removed_hi ROps c p (Z.of_nat (length x))) -> nth i x 0 <= nth j x 0).
Proof.
  intros SP. apply sorting_perm_R_iff in SP. split; intros j i Hj Hi Hni.
  - apply Rleb_true. exact (removed_lo_are_lowest ROps c x p j i SP Hj Hi Hni).
  - apply Rleb_true. exact (removed_hi_are_highest ROps c x p j i SP Hj Hi Hni).
Qed.
