(* Lemmas about Model/Overhang.v (OverhangFilter).  Everything except `default_params` lives in
   Proofs/OverhangCoreP.v and is re-exported here unchanged (same names, same statements), so importers of
   Proofs.OverhangP see what they always saw.  `default_params` (the default parameters p = 40, xi_0 = 0.5,
   eps = 1e-4, float64 satisfy every premise of the bounds) is proved with the Interval tactic; it is the only part of
   property C14 that depends on the Interval library, and Props/C14.v imports Proofs.OverhangCoreP only. *)
From Coq Require Import ZArith List Reals Psatz.
From Interval Require Import Tactic.
From Pymoto Require Import Model.Grid Model.Overhang.
From Pymoto Require Export Proofs.OverhangCoreP.
Open Scope R_scope.

Lemma default_params n : n = 3 \/ n = 5 \/ n = 9 ->
  let q := q_of 40 n (1 / 2) in
  let s := shift_of 40 dbl_tiny in
  let b := backshift_of n 40 q s in
  0 < q <= 40 /\ 0 < s /\ 0 <= b < s /\ b <= Rpower (1 + s) (40 / q) - 1 /\
  Rpower n (1 / q) * Rpower (sqrt (1 / 10000) / 2 + s) (40 / q) - b + sqrt (1 / 10000) / 2 <= 1 / 100.
Proof.
  intros Hn. cbv zeta.
  assert (Hq : 0 < q_of 40 n (1 / 2) <= 40).
  { unfold q_of. destruct Hn as [-> | [-> | ->]]; split; interval with (i_prec 80). }
  assert (Hs : 0 < shift_of 40 dbl_tiny).
  { unfold shift_of, dbl_tiny. interval with (i_prec 80). }
  assert (Hb : 0 <= backshift_of n 40 (q_of 40 n (1 / 2)) (shift_of 40 dbl_tiny) < shift_of 40 dbl_tiny).
  { unfold backshift_of, q_of, shift_of, dbl_tiny. destruct Hn as [-> | [-> | ->]]; split; interval with (i_prec 80). }
  repeat split; try tauto.
  - apply solid_premise; auto; lra.
  - unfold backshift_of, q_of, shift_of, dbl_tiny. destruct Hn as [-> | [-> | ->]]; interval with (i_prec 80).
Qed.

