(* C17 / C10 -- the typed model of pymoto.utils._concatenate_to_array (Model/MMAvars.v, the one the source is regenerated
   against) and the untyped hand model used by the minimize_oc model (Model/Concat.v) agree: forgetting the dtype tags, same
   values in the same order, same cumulative indices, ValueError for the same inputs. *)
From Coq Require Import ZArith Arith List Bool Lia.
From Pymoto Require Import Model.Concat Proofs.ConcatP Model.MMAvars Proofs.MMAvarsP.
Import ListNotations.

Section ToConcat.
  Context {K : Type}.
  (* conversions keep the value (the untyped model has no conversions) *)
  Definition idc : dtype -> dtype -> K -> K := fun _ _ x => x.
  Definition to_pstate (s : tstate K) : pstate K :=
    match s with TNone => PNone | TVal _ (Scal a) => PScalar a | TVal _ (Arr l) => PArray l end.

  Lemma flat_untag_pflat (s : tstate K) : flat (untag idc s) = pflat (to_pstate s).
  Proof. destruct s as [|dt [a|l]]; cbn; [reflexivity | reflexivity | apply map_id]. Qed.

  Lemma none_agree (vs : list (tstate K)) : existsb is_tnone vs = negb (no_none (map to_pstate vs)).
  Proof.
    induction vs as [|s vs IH]; [reflexivity|]. cbn [existsb map no_none forallb]. fold (no_none (map to_pstate vs)).
    rewrite IH. destruct s as [|dt [a|l]]; cbn; destruct (no_none (map to_pstate vs)); reflexivity.
  Qed.

  Lemma values_agree (vs : list (tstate K)) : flat_map flat (map (untag idc) vs) = concat (map pflat (map to_pstate vs)).
  Proof. induction vs as [|s vs IH]; cbn; [reflexivity | rewrite IH, flat_untag_pflat; reflexivity]. Qed.

  Lemma cum_agree (vs : list (tstate K)) : forall base,
    map Z.of_nat (cumfrom base (lens (map (untag idc) vs))) = ConcatP.cumlens base (map pflat (map to_pstate vs)).
  Proof.
    induction vs as [|s vs IH]; intros base; cbn; [reflexivity|].
    rewrite flat_untag_pflat, IH. reflexivity.
  Qed.

  Theorem typed_concat_is_Concat (vs : list (tstate K)) :
    option_map (fun r => (snd (fst r), map Z.of_nat (snd r))) (concat_to_array_t idc vs)
    = Concat.concatenate_to_array (map to_pstate vs).
  Proof.
    rewrite concatenate_spec. destruct (no_none (map to_pstate vs)) eqn:Hn.
    - assert (Hn' : existsb is_tnone vs = false) by (rewrite none_agree, Hn; reflexivity).
      rewrite (concat_t_spec idc (fun a => eq_refl) vs Hn'). rewrite MMAvarsP.concat_spec. cbn [option_map fst snd].
      unfold MMAvarsP.cumlens. cbn [map]. rewrite values_agree, cum_agree. reflexivity.
    - assert (Hn' : existsb is_tnone vs = true) by (rewrite none_agree, Hn; reflexivity).
      apply (concat_t_none idc) in Hn'. rewrite Hn'. reflexivity.
  Qed.
End ToConcat.
