(* The block-CG state machine (Model/CGinv.v) with the convergence test as written (Model/CGExit.v):
   small r := exit_test tol (norms r) (norms b), norms = the column norms (an arbitrary function here). *)
From mathcomp Require Import all_ssreflect all_algebra.
From Pymoto Require Import Base.StarRing Model.CGinv Proofs.CGinvP Model.CGExit Proofs.CGExitP.
Set Implicit Arguments.
Unset Strict Implicit.
Import GRing.Theory.
Local Open Scope ring_scope.

Section CGExitRing.
Variable M : ringType.
Variables tr cj : M -> M.
Variables precond orth1 orth2 inv : M -> M.
Variable norms : M -> list QArith_base.Q.
Variable tol : QArith_base.Q.

Definition cg_small (b r : M) : bool := exit_test tol (norms r) (norms b).

(* no max-iteration warning => every column of the TRUE residual of the returned x meets its bound: relative to |b_j|,
   absolute (|r_j| <= tol) for a zero column of b *)
Lemma exit_sound_columns (A b : M) (restart maxit : nat) (x0 : M) :
  all_nonneg (norms b) ->
  ~~ cg_warns tr cj precond orth1 orth2 inv (cg_small b) A b restart maxit x0 ->
  columns_bound tol (norms (b - A * (cg_solve tr cj precond orth1 orth2 inv (cg_small b) A b restart maxit x0).1)) (norms b).
Proof.
  move=> Hnn Hw. apply: exit_test_sound => //.
  exact: (exit_sound Hw).
Qed.

(* zero right-hand side, start from zero (x0 = None): x = 0 is returned before the loop is entered, no warning *)
Lemma solve_zero_rhs (A : M) (restart maxit k : nat) :
  qnonneg tol -> norms 0 = zeros k ->
  cg_solve tr cj precond orth1 orth2 inv (cg_small 0) A 0 restart maxit 0 = (0, 0) /\
  ~~ cg_warns tr cj precond orth1 orth2 inv (cg_small 0) A 0 restart maxit 0.
Proof.
  move=> Ht Hn.
  have Hs : cg_small 0 0 by rewrite /cg_small Hn; exact: exit_test_zero_residual.
  have E : cg_solve tr cj precond orth1 orth2 inv (cg_small 0) A 0 restart maxit 0 = (0, 0)
    by rewrite /cg_solve /cg_r0 mulr0 subr0 Hs.
  by split; [exact: E | rewrite /cg_warns E /= negbK].
Qed.

End CGExitRing.
