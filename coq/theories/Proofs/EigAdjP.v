(* C01 (part d): the sensitivities of EigenSolve (Model/EigAdj.v) are the exact adjoint of the LINEARISED
   eigenproblem: for every tangent (dA, dB, dw, dq) that satisfies the linearised defining equations, the seeds
   (wq, ww) and the matrices gA, gB the code computes satisfy   wq . dq + ww dw = <gA, dA> + <gB, dB>.
   Matrices of any size over any field (mathcomp); linear solves are hypotheses, never inverses. *)
From mathcomp Require Import all_ssreflect all_algebra.
From mathcomp Require Import ring.
From Pymoto Require Import Model.EigAdj.
Set Implicit Arguments.
Unset Strict Implicit.
Unset Printing Implicit Defensive.
Import GRing.Theory.
Local Open Scope ring_scope.

Section Pairing.
  Variable F : fieldType.

  Lemma scD (X Y : 'M[F]_1) : sc (X + Y) = sc X + sc Y.
  Proof. by rewrite /sc mxE. Qed.
  Lemma scN (X : 'M[F]_1) : sc (- X) = - sc X.
  Proof. by rewrite /sc mxE. Qed.
  Lemma scB (X Y : 'M[F]_1) : sc (X - Y) = sc X - sc Y.
  Proof. by rewrite scD scN. Qed.
  Lemma scZ a (X : 'M[F]_1) : sc (a *: X) = a * sc X.
  Proof. by rewrite /sc mxE. Qed.
  Lemma sc0 : sc (0 : 'M[F]_1) = 0.
  Proof. by rewrite /sc mxE. Qed.
  Lemma sc_tr (X : 'M[F]_1) : sc X^T = sc X.
  Proof. by rewrite /sc mxE. Qed.
  Lemma sc_scalar a : sc (a%:M : 'M[F]_1) = a.
  Proof. by rewrite /sc mxE eqxx mulr1n. Qed.
  Lemma sc_trace (X : 'M[F]_1) : sc X = \tr X.
  Proof. by rewrite trace_mx11. Qed.
  Lemma sc_inj (X Y : 'M[F]_1) : sc X = sc Y -> X = Y.
  Proof. by move=> E; rewrite (mx11_scalar X) (mx11_scalar Y) -/(sc X) -/(sc Y) E. Qed.

  Lemma trD m k (X Y : 'M[F]_(m, k)) : (X + Y)^T = X^T + Y^T.
  Proof. by rewrite linearD. Qed.
  Lemma trB m k (X Y : 'M[F]_(m, k)) : (X - Y)^T = X^T - Y^T.
  Proof. by rewrite linearB. Qed.
  Lemma trN m k (X : 'M[F]_(m, k)) : (- X)^T = - X^T.
  Proof. by rewrite linearN. Qed.
  Lemma trZ m k a (X : 'M[F]_(m, k)) : (a *: X)^T = a *: X^T.
  Proof. by rewrite linearZ. Qed.
  Lemma trK m k (X : 'M[F]_(m, k)) : X^T^T = X.
  Proof. exact: trmxK. Qed.
  Lemma trM m k l (X : 'M[F]_(m, k)) (Y : 'M[F]_(k, l)) : (X *m Y)^T = Y^T *m X^T.
  Proof. exact: trmx_mul. Qed.
  Definition trE := (trD, trB, trN, trZ, trM, trK).
  Definition mulE := (mulmxDl, mulmxDr, mulmxBl, mulmxBr, mulNmx, mulmxN).
  Definition scE := (scD, scB, scN, scZ, sc0).

  (* the entrywise pairing is the trace pairing *)
  Lemma frobE m k (G D : 'M[F]_(m, k)) : frob G D = \tr (G^T *m D).
  Proof.
    rewrite /frob /mxtrace exchange_big /=. apply: eq_bigr => j _.
    rewrite mxE. by apply: eq_bigr => i _; rewrite mxE.
  Qed.

  Lemma frobDl m k (G1 G2 D : 'M[F]_(m, k)) : frob (G1 + G2) D = frob G1 D + frob G2 D.
  Proof. by rewrite !frobE linearD /= mulmxDl linearD. Qed.
  Lemma frob0l m k (D : 'M[F]_(m, k)) : frob 0 D = 0.
  Proof. by rewrite frobE trmx0 mul0mx mxtrace0. Qed.
  Lemma frob_suml m k (I : Type) (r : seq I) (P : pred I) (G : I -> 'M[F]_(m, k)) D :
    frob (\sum_(i <- r | P i) G i) D = \sum_(i <- r | P i) frob (G i) D.
  Proof.
    rewrite frobE raddf_sum mulmx_suml raddf_sum. by apply: eq_bigr => i _; rewrite frobE.
  Qed.

  (* <u v^T, D> = u^T D v *)
  Lemma frob_outer n (u v : 'cV[F]_n) (D : 'M[F]_n) : frob (u *m v^T) D = sc (u^T *m D *m v).
  Proof. by rewrite frobE trmx_mul trmxK sc_trace -(mulmxA v) mxtrace_mulC. Qed.
  (* <u, v> = u^T v for column vectors *)
  Lemma frob_cV n (u v : 'cV[F]_n) : frob u v = sc (u^T *m v).
  Proof. by rewrite frobE sc_trace. Qed.
End Pairing.

(* normal form of scalar-valued matrix expressions: sums of scalars times sc (left-nested products of atoms) *)
Ltac mxn := repeat (progress rewrite ?trE ?mulE -?scalemxAr -?scalemxAl ?scE ?mulmxA).
(* ring on such normal forms, the 1 x 1 products abstracted into atoms first *)
Ltac scring :=
  repeat (match goal with |- context [@sc ?K ?X] => let x := fresh "x" in set x := (@sc K X); clearbody x end); ring.

Section Dense.
  Variable F : fieldType.
  Variable n : nat.
  Implicit Types (A B dA dB : 'M[F]_n) (q nu dq wq : 'cV[F]_n) (w alpha dw ww : F).

  (* the two block rows of the bordered system *)
  Lemma dense_sys_rows A B w q wq ww nu alpha :
    dense_sys A B w q wq ww nu alpha ->
    (A - w *: B)^T *m nu - alpha *: (symhalf B *m q) = wq /\ - sc ((B *m q)^T *m nu) = ww.
  Proof.
    rewrite /dense_sys /denseP mul_block_col => /eq_col_mx [H1 H2]. split.
    - by rewrite -H1 mulNmx mul_mx_scalar.
    - move: H2. rewrite mul0mx addr0 mulNmx => H2.
      by rewrite -scN H2 sc_scalar.
  Qed.

  Lemma symhalf_sym B : (symhalf B)^T = symhalf B.
  Proof. by rewrite /symhalf linearZ /= linearD /= trmxK addrC. Qed.

  (* _dense_sens, one mode, with RESIDUALS e1, e2 of the linearised equations (e1 = 0, e2 = 0: a tangent; the exact
     difference of two eigenpairs has second-order residuals, see dense_secant). *)
  Lemma dense_adjoint_res A B w q wq ww nu alpha dA dB dw dq (e1 : 'cV[F]_n) (e2 : F) :
    dense_sys A B w q wq ww nu alpha ->
    (A - w *: B) *m dq + (dA - dw *: B - w *: dB) *m q = e1 ->
    sc (q^T *m (B + B^T) *m dq) + sc (q^T *m dB *m q) = e2 ->
    frob wq dq + ww * dw
    = frob (dense_gA nu q) dA + frob (dense_gB w nu alpha q) dB + sc (nu^T *m e1) - alpha / 2%:R * e2.
  Proof.
    move=> /dense_sys_rows [H1 H2] L1 L2.
    (* the linearised eigen-equation, paired with nu *)
    have E1 : sc (nu^T *m (A - w *: B) *m dq)
              = - sc (nu^T *m dA *m q) + dw * sc (nu^T *m B *m q) + w * sc (nu^T *m dB *m q) + sc (nu^T *m e1).
    { rewrite -L1. mxn. scring. }
    (* the linearised normalisation *)
    have E2 : sc (q^T *m (B + B^T) *m dq) = e2 - sc (q^T *m dB *m q).
    { by rewrite -L2 addrK. }
    rewrite frob_cV -H1 -H2 /dense_gA /dense_gB !frob_outer.
    have -> : sc (((A - w *: B)^T *m nu - alpha *: (symhalf B *m q))^T *m dq)
              = sc (nu^T *m (A - w *: B) *m dq) - alpha * 2%:R^-1 * sc (q^T *m (B + B^T) *m dq).
    { rewrite /symhalf !trE [B^T + B]addrC. mxn. scring. }
    have -> : sc ((B *m q)^T *m nu) = sc (nu^T *m B *m q).
    { by rewrite -sc_tr; mxn. }
    have -> : sc ((- nu)^T *m dA *m q) = - sc (nu^T *m dA *m q).
    { by mxn. }
    have -> : sc ((w *: nu + (alpha / 2%:R) *: q)^T *m dB *m q)
              = w * sc (nu^T *m dB *m q) + alpha * 2%:R^-1 * sc (q^T *m dB *m q).
    { mxn. scring. }
    rewrite E1 E2. scring.
  Qed.

  (* _dense_sens, one mode: adjoint identity of the linearised eigenproblem.  A and B are arbitrary (not necessarily
     symmetric); neither the eigenpair equation nor the normalisation is needed here. *)
  Theorem dense_adjoint A B w q wq ww nu alpha dA dB dw dq :
    dense_sys A B w q wq ww nu alpha ->
    lin_eig A B w q dA dB dw dq -> lin_norm B q dB dq ->
    frob wq dq + ww * dw = frob (dense_gA nu q) dA + frob (dense_gB w nu alpha q) dB.
  Proof.
    move=> S L1 L2. by rewrite (dense_adjoint_res S L1 L2) mulmx0 sc0 mulr0 subr0 addr0.
  Qed.

  Lemma sc_symsplit B q dq : sc (q^T *m (B + B^T) *m dq) = sc (q^T *m B *m dq) + sc (dq^T *m B *m q).
  Proof. mxn. congr (_ + _). by rewrite -sc_tr; mxn. Qed.

  (* ---- exact difference equations of two eigenpairs (A, B, w, q) and (A', B', w', q'): the linearised equations are
     their first-order part (divide by the path parameter and pass to the limit) ---- *)
  Theorem secant_eig A B w q A' B' w' q' :
    eigpair A B w q -> eigpair A' B' w' q' ->
    (A - w *: B) *m (q' - q) + ((A' - A) - (w' - w) *: B' - w *: (B' - B)) *m q' = 0.
  Proof.
    rewrite /eigpair => E E'. rewrite !mulE -?scalemxAl ?mulE E E' ?scalerBl ?scalerBr.
    apply/matrixP => i j. rewrite !mxE. ring.
  Qed.

  Theorem secant_norm B q B' q' :
    normalised B q -> normalised B' q' ->
    sc ((q' - q)^T *m B' *m q') + sc (q^T *m (B' - B) *m q') + sc (q^T *m B *m (q' - q)) = 0.
  Proof. rewrite /normalised => N N'. mxn. rewrite N N'. scring. Qed.

  (* exact finite-difference form of the adjoint identity: the increments of an eigenpair between two pencils satisfy
     it up to a remainder in which EVERY term is a product of two increments *)
  Theorem dense_secant A B w q A' B' w' q' wq ww nu alpha :
    dense_sys A B w q wq ww nu alpha ->
    eigpair A B w q -> eigpair A' B' w' q' -> normalised B q -> normalised B' q' ->
    let dA := A' - A in let dB := B' - B in let dq := q' - q in let dw := w' - w in
    frob wq dq + ww * dw
    = frob (dense_gA nu q) dA + frob (dense_gB w nu alpha q) dB
      + (- sc (nu^T *m dA *m dq) + sc ((w *: nu + (alpha / 2%:R) *: q)^T *m dB *m dq)
         + sc ((dw *: nu + (alpha / 2%:R) *: dq)^T *m (B' *m q' - B *m q))).
  Proof.
    move=> S E E' N N' dA dB dq dw.
    have R1 : (A - w *: B) *m dq + (dA - dw *: B - w *: dB) *m q
              = - ((dA - w *: dB) *m dq) + dw *: (B' *m q' - B *m q).
    { move: (secant_eig E E'). rewrite -/dA -/dB -/dq -/dw => /eqP. rewrite addr_eq0 => /eqP ->.
      rewrite /dq !mulE -?scalemxAl ?mulE ?scalerBr. apply/matrixP => i j. rewrite !mxE. ring. }
    have R2 : sc (q^T *m (B + B^T) *m dq) + sc (q^T *m dB *m q)
              = - sc (dq^T *m (B' *m q' - B *m q)) - sc (q^T *m dB *m dq).
    { move: (secant_norm N N'). rewrite -/dB -/dq => /eqP. rewrite addr_eq0 => /eqP H.
      rewrite sc_symsplit.
      have -> : sc (q^T *m B *m dq) = - (sc (dq^T *m B' *m q') + sc (q^T *m dB *m q')) by rewrite H opprK.
      rewrite /dq /dB. mxn. scring. }
    rewrite (dense_adjoint_res S R1 R2). mxn. scring.
  Qed.
End Dense.

Section DenseRows.
  Variable F : fieldType.
  Variable n : nat.
  Implicit Types (A B : 'M[F]_n) (q nu wq : 'cV[F]_n) (w alpha ww : F).

  (* converse of dense_sys_rows: the two block rows give the bordered system *)
  Lemma dense_sys_of_rows A B w q wq ww nu alpha :
    (A - w *: B)^T *m nu - alpha *: (symhalf B *m q) = wq -> - sc ((B *m q)^T *m nu) = ww ->
    dense_sys A B w q wq ww nu alpha.
  Proof.
    move=> H1 H2. rewrite /dense_sys /denseP mul_block_col. congr col_mx.
    - by rewrite -H1 mulNmx mul_mx_scalar.
    - rewrite mul0mx addr0 mulNmx. apply: sc_inj. by rewrite scN H2 sc_scalar.
  Qed.
End DenseRows.

Section Sparse.
  Variable F : fieldType.
  Variable n : nat.
  Implicit Types (A B dA dB : 'M[F]_n) (q nu dq wq phi dphi vp : 'cV[F]_n) (w alpha dw ww lam : F).

  (* for a symmetric pencil the eigenvector is also the left eigenvector *)
  Lemma left_eig A B lam phi : A^T = A -> B^T = B -> eigpair A B lam phi -> (A - lam *: B)^T *m phi = 0.
  Proof. move=> hA hB E. by rewrite trB trZ hA hB mulmxBl -scalemxAl E subrr. Qed.

  (* (B + B^T)/2 = B for symmetric B: the only place where 2 * 2^-1 = 1 is needed *)
  Lemma symhalf_id B : (2%:R : F) != 0 -> B^T = B -> symhalf B = B.
  Proof.
    move=> h2 hB. rewrite /symhalf hB -[B + B]mulr2n -scaler_nat scalerA mulVf //. by rewrite scale1r.
  Qed.

  (* what the sparse eigenvector routine computes IS a solution of the bordered system of _dense_sens, with the
     eigenvalue seed 0:  nu = v,  alpha = - phi . dphi  *)
  Theorem sparse_is_bordered A B lam phi dphi vp :
    A^T = A -> B^T = B -> (2%:R : F) != 0 ->
    eigpair A B lam phi -> normalised B phi -> sp_solve A B lam phi dphi vp ->
    dense_sys A B lam phi dphi 0 (sp_v B phi vp) (sp_alpha phi dphi).
  Proof.
    move=> hA hB h2 E N S. apply: dense_sys_of_rows.
    - rewrite symhalf_id // /sp_v mulmxDr -scalemxAr (left_eig hA hB E) scaler0 addr0 S /sp_r hB.
      by rewrite addrK.
    - rewrite /sp_v. mxn. rewrite hB.
      have -> : sc (phi^T *m B *m vp) = sc (vp^T *m B *m phi).
      { by rewrite -sc_tr; mxn; rewrite hB. }
      rewrite N /sp_c. scring.
  Qed.

  Lemma sp_gA_dense B phi vp : sp_gA B phi vp = dense_gA (sp_v B phi vp) phi.
  Proof. by rewrite /sp_gA /dense_gA mulNmx. Qed.
  Lemma sp_gB_dense B lam phi dphi vp :
    sp_gB B lam phi dphi vp = dense_gB lam (sp_v B phi vp) (sp_alpha phi dphi) phi.
  Proof. by rewrite /sp_gB /dense_gB addrC. Qed.

  (* _sparse_eigvec_sens, one mode, symmetric A and B *)
  Theorem sparse_eigvec_adjoint A B lam phi dphi vp dA dB dw dq :
    A^T = A -> B^T = B -> (2%:R : F) != 0 ->
    eigpair A B lam phi -> normalised B phi -> sp_solve A B lam phi dphi vp ->
    lin_eig A B lam phi dA dB dw dq -> lin_norm B phi dB dq ->
    frob dphi dq = frob (sp_gA B phi vp) dA + frob (sp_gB B lam phi dphi vp) dB.
  Proof.
    move=> hA hB h2 E N S L1 L2.
    rewrite sp_gA_dense sp_gB_dense -(dense_adjoint (sparse_is_bordered hA hB h2 E N S) L1 L2).
    by rewrite mul0r addr0.
  Qed.

  (* the value alpha = - phi . dphi is forced by the solvability of the singular system (A - lam B)^T vp = r *)
  Theorem sp_alpha_forced A B lam phi dphi vp a :
    eigpair A B lam phi -> normalised B phi ->
    (A - lam *: B)^T *m vp = dphi + a *: (B^T *m phi) -> a = sp_alpha phi dphi.
  Proof.
    move=> E N S.
    have Z0 : (A - lam *: B) *m phi = 0 by rewrite mulmxBl -scalemxAl E subrr.
    move/(congr1 (fun X => sc (phi^T *m X))): S.
    rewrite mulmxA -trM Z0 trmx0 mul0mx sc0. mxn.
    have -> : sc (phi^T *m B^T *m phi) = 1 by rewrite -sc_tr; mxn.
    rewrite mulr1 /sp_alpha => /eqP. by rewrite eq_sym addrC addr_eq0 => /eqP ->.
  Qed.

  (* _sparse_eigval_sens, one mode: a solution of the bordered system with the eigenvector seed 0 *)
  Theorem ev_is_bordered A B w q ww :
    A^T = A -> B^T = B -> eigpair A B w q -> qmq B q != 0 ->
    dense_sys A B w q 0 ww ((- (ww / qmq B q)) *: q) 0.
  Proof.
    move=> hA hB E Q0. apply: dense_sys_of_rows.
    - by rewrite -scalemxAr (left_eig hA hB E) scaler0 scale0r subr0.
    - mxn. rewrite hB.
      have -> : sc (q^T *m B *m q) = qmq B q by rewrite /qmq mulmxA.
      by rewrite mulNr opprK -mulrA mulVf // mulr1.
  Qed.

  Lemma ev_gA_dense B q ww : ev_gA B q ww = dense_gA ((- (ww / qmq B q)) *: q) q.
  Proof. by rewrite /ev_gA /dense_gA scaleNr opprK. Qed.
  Lemma ev_gB_dense B w q ww : ev_gB B w q ww = dense_gB w ((- (ww / qmq B q)) *: q) 0 q.
  Proof.
    rewrite /ev_gB /dense_gB mul0r scale0r addr0 scalerA -mulNmx -scaleNr.
    congr (_ *: _ *m _). ring.
  Qed.

  Theorem sparse_eigval_adjoint A B w q ww dA dB dw dq :
    A^T = A -> B^T = B -> eigpair A B w q -> qmq B q != 0 ->
    lin_eig A B w q dA dB dw dq -> lin_norm B q dB dq ->
    ww * dw = frob (ev_gA B q ww) dA + frob (ev_gB B w q ww) dB.
  Proof.
    move=> hA hB E Q0 L1 L2.
    rewrite ev_gA_dense ev_gB_dense -(dense_adjoint (ev_is_bordered ww hA hB E Q0) L1 L2).
    by rewrite frob0l add0r.
  Qed.
End Sparse.

Section Totals.
  Variable F : fieldType.
  Variables n k : nat.
  Implicit Types (A B dA dB : 'M[F]_n) (Q WQ NU DQ VP : 'I_k -> 'cV[F]_n) (W WW AL DW : 'I_k -> F).

  Lemma frob0r m l (G : 'M[F]_(m, l)) : frob G 0 = 0.
  Proof. by rewrite frobE mulmx0 mxtrace0. Qed.

  (* _dense_sens, all modes (the skipped modes have zero seeds and contribute nothing on either side) *)
  Theorem dense_total_adjoint A B W Q WQ WW NU AL dA dB DW DQ :
    (forall i, ~~ dense_skip WQ WW i -> dense_sys A B (W i) (Q i) (WQ i) (WW i) (NU i) (AL i)) ->
    (forall i, lin_eig A B (W i) (Q i) dA dB (DW i) (DQ i)) -> (forall i, lin_norm B (Q i) dB (DQ i)) ->
    \sum_i (frob (WQ i) (DQ i) + WW i * DW i)
    = frob (dense_total_gA WQ WW NU Q) dA + frob (dense_total_gB WQ WW W NU AL Q) dB.
  Proof.
    move=> HS L1 L2. rewrite /dense_total_gA /dense_total_gB !frob_suml -big_split /=.
    rewrite (bigID (dense_skip WQ WW)) /= big1 ?add0r.
    - apply: eq_bigr => i Hi. exact: (dense_adjoint (HS i Hi) (L1 i) (L2 i)).
    - move=> i /andP [/eqP -> /eqP ->]. by rewrite frob0l mul0r addr0.
  Qed.

  Lemma normalised_qmq B q : normalised B q -> qmq B q != 0.
  Proof. rewrite /normalised /qmq mulmxA => ->. exact: oner_neq0. Qed.

  (* _sparse_eigvec_sens (which first calls _sparse_eigval_sens), all modes, symmetric A and B *)
  Theorem sparse_total_adjoint A B W Q WQ WW VP dA dB DW DQ :
    A^T = A -> B^T = B -> (2%:R : F) != 0 ->
    (forall i, eigpair A B (W i) (Q i)) -> (forall i, normalised B (Q i)) ->
    (forall i, WQ i != 0 -> sp_solve A B (W i) (Q i) (WQ i) (VP i)) ->
    (forall i, lin_eig A B (W i) (Q i) dA dB (DW i) (DQ i)) -> (forall i, lin_norm B (Q i) dB (DQ i)) ->
    \sum_i (frob (WQ i) (DQ i) + WW i * DW i)
    = frob (sparse_total_gA B WQ WW VP Q) dA + frob (sparse_total_gB B WQ WW W VP Q) dB.
  Proof.
    move=> hA hB h2 E N S L1 L2. rewrite /sparse_total_gA /sparse_total_gB !frobDl !frob_suml big_split /=.
    have -> : \sum_i frob (WQ i) (DQ i)
              = \sum_(i | WQ i != 0) (frob (sp_gA B (Q i) (VP i)) dA + frob (sp_gB B (W i) (Q i) (WQ i) (VP i)) dB).
    { rewrite [RHS]big_mkcond /=. apply: eq_bigr => i _. case: ifPn => [Hi|/negPn /eqP ->]; last by rewrite frob0l.
      exact: (sparse_eigvec_adjoint hA hB h2 (E i) (N i) (S i Hi) (L1 i) (L2 i)). }
    have -> : \sum_i WW i * DW i
              = \sum_(i | WW i != 0) (frob (ev_gA B (Q i) (WW i)) dA + frob (ev_gB B (W i) (Q i) (WW i)) dB).
    { rewrite [RHS]big_mkcond /=. apply: eq_bigr => i _. case: ifPn => [Hi|/negPn /eqP ->]; last by rewrite mul0r.
      exact: (sparse_eigval_adjoint (WW i) hA hB (E i) (normalised_qmq (N i)) (L1 i) (L2 i)). }
    rewrite !big_split /=. ring.
  Qed.
End Totals.

(* no second input ("B = None"): _sensitivity passes B = I and returns only dA; the tangent has dB = 0 *)
Section NoB.
  Variable F : fieldType.
  Variable n : nat.
  Implicit Types (A dA : 'M[F]_n) (q nu dq wq phi dphi vp : 'cV[F]_n) (w alpha dw ww lam : F).

  Theorem dense_adjoint_noB A w q wq ww nu alpha dA dw dq :
    dense_sys A 1%:M w q wq ww nu alpha ->
    lin_eig A 1%:M w q dA 0 dw dq -> lin_norm 1%:M q 0 dq ->
    frob wq dq + ww * dw = frob (dense_gA nu q) dA.
  Proof. move=> S L1 L2. by rewrite (dense_adjoint S L1 L2) frob0r addr0. Qed.

  Theorem sparse_eigvec_adjoint_noB A lam phi dphi vp dA dw dq :
    A^T = A -> (2%:R : F) != 0 ->
    eigpair A 1%:M lam phi -> normalised 1%:M phi -> sp_solve A 1%:M lam phi dphi vp ->
    lin_eig A 1%:M lam phi dA 0 dw dq -> lin_norm 1%:M phi 0 dq ->
    frob dphi dq = frob (sp_gA 1%:M phi vp) dA.
  Proof.
    move=> hA h2 E N S L1 L2.
    by rewrite (sparse_eigvec_adjoint hA (trmx1 _ _) h2 E N S L1 L2) frob0r addr0.
  Qed.

  Theorem sparse_eigval_adjoint_noB A w q ww dA dw dq :
    A^T = A -> eigpair A 1%:M w q -> qmq 1%:M q != 0 ->
    lin_eig A 1%:M w q dA 0 dw dq -> lin_norm 1%:M q 0 dq ->
    ww * dw = frob (ev_gA 1%:M q ww) dA.
  Proof.
    move=> hA E Q0 L1 L2.
    by rewrite (sparse_eigval_adjoint ww hA (trmx1 _ _) E Q0 L1 L2) frob0r addr0.
  Qed.
End NoB.

(* ------------------------------------------------------------------------------------------------------------------ *)
(* The sparse routines are NOT the adjoint for a non-symmetric pencil: 2 x 2 witness over every field.               *)
(*   A = [[1, 1], [0, 0]],  B = I,  eigenpair w = 1, q = (1, 0);  left eigenvector (1, 1) <> q.                       *)
(*   tangent: dA = [[0, 0], [1, 0]], dB = 0  =>  dq = (0, 1), dw = 1.                                                 *)
Section Refuted.
  Variable F : fieldType.
  Local Notation v2 a b := (col_mx (a%:M : 'M[F]_1) (b%:M : 'M[F]_1)).
  Local Notation m2 a b c d := (block_mx (a%:M : 'M[F]_1) (b%:M : 'M[F]_1) (c%:M : 'M[F]_1) (d%:M : 'M[F]_1)).

  Lemma m2v2 a b c d x y : m2 a b c d *m v2 x y = v2 (a * x + b * y) (c * x + d * y).
  Proof. by rewrite mul_block_col -!scalar_mxM -!raddfD. Qed.
  Lemma v2D a b c d : v2 a b + v2 c d = v2 (a + c) (b + d).
  Proof. by rewrite add_col_mx -!raddfD. Qed.
  Lemma v2_00 : v2 0 0 = 0.
  Proof. by rewrite !raddf0 col_mx0. Qed.
  Lemma v2N a b : - v2 a b = v2 (- a) (- b).
  Proof. by rewrite opp_col_mx -!raddfN. Qed.
  Lemma v2Z c a b : c *: v2 a b = v2 (c * a) (c * b).
  Proof. by rewrite scale_col_mx !scale_scalar_mx. Qed.
  Lemma m2D a b c d a' b' c' d' : m2 a b c d + m2 a' b' c' d' = m2 (a + a') (b + b') (c + c') (d + d').
  Proof. by rewrite add_block_mx -!raddfD. Qed.
  Lemma m2N a b c d : - m2 a b c d = m2 (- a) (- b) (- c) (- d).
  Proof. by rewrite opp_block_mx -!raddfN. Qed.
  Lemma m2Z k a b c d : k *: m2 a b c d = m2 (k * a) (k * b) (k * c) (k * d).
  Proof. by rewrite scale_block_mx !scale_scalar_mx. Qed.
  Lemma m2T a b c d : (m2 a b c d)^T = m2 a c b d.
  Proof. by rewrite tr_block_mx !tr_scalar_mx. Qed.
  Lemma m2_1 : (1%:M : 'M[F]_(1 + 1)) = m2 1 0 0 1.
  Proof. by rewrite [LHS]scalar_mx_block !raddf0. Qed.
  Lemma m2_0 : (0 : 'M[F]_(1 + 1)) = m2 0 0 0 0.
  Proof. by rewrite !raddf0 block_mx0. Qed.
  Lemma v2dot a b x y : sc ((v2 a b)^T *m v2 x y) = a * x + b * y.
  Proof. by rewrite tr_col_mx !tr_scalar_mx mul_row_col -!scalar_mxM -raddfD sc_scalar. Qed.
  Lemma v2outer a b x y : v2 a b *m (v2 x y)^T = m2 (a * x) (a * y) (b * x) (b * y).
  Proof. by rewrite tr_col_mx !tr_scalar_mx mul_col_row -!scalar_mxM. Qed.
  Lemma frob_m2 a b c d a' b' c' d' : frob (m2 a b c d) (m2 a' b' c' d') = a * a' + b * b' + c * c' + d * d'.
  Proof.
    rewrite frobE m2T mulmx_block -!scalar_mxM -!raddfD mxtrace_block !mxtrace_scalar !mulr1n. ring.
  Qed.

  Definition rA : 'M[F]_(1 + 1) := m2 1 1 0 0.
  Definition rq : 'cV[F]_(1 + 1) := v2 1 0.
  Definition rdA : 'M[F]_(1 + 1) := m2 0 0 1 0.
  Definition rdq : 'cV[F]_(1 + 1) := v2 0 1.

  Lemma r_eigpair : eigpair rA 1%:M 1 rq.
  Proof. by rewrite /eigpair mul1mx scale1r /rA /rq m2v2 !mulr1 !mulr0 !addr0. Qed.
  Lemma r_normalised : normalised 1%:M rq.
  Proof. by rewrite /normalised mulmx1 /rq v2dot !mulr1 mulr0 addr0. Qed.
  Lemma r_lin_eig : lin_eig rA 1%:M 1 rq rdA 0 1 rdq.
  Proof.
    rewrite /lin_eig !scale1r subr0 /rA /rdA /rq /rdq m2_1 !m2N !m2D !m2v2 v2D -[RHS]v2_00.
    by congr (col_mx _%:M _%:M); ring.
  Qed.
  Lemma r_lin_norm : lin_norm 1%:M rq 0 rdq.
  Proof.
    rewrite /lin_norm mulmx0 mul0mx sc0 addr0 trmx1 -mulmxA mulmxDl mul1mx /rq /rdq v2D v2dot.
    ring.
  Qed.
  Lemma rA_nonsym : rA^T != rA.
  Proof.
    apply/eqP => /(congr1 (fun X => frob X rdA)). rewrite /rA m2T /rdA !frob_m2.
    rewrite !mulr0 !mul0r !mulr1 !addr0 !add0r => /eqP. by rewrite oner_eq0.
  Qed.

  (* the hypotheses of dense_adjoint are met by this NON-symmetric instance (non-vacuity) *)
  Lemma r_dense_sys : dense_sys rA 1%:M 1 rq (v2 0 1) 1 (v2 (- 1) (- (1 + 1))) 0.
  Proof.
    apply: dense_sys_of_rows.
    - rewrite scale0r subr0 scale1r /rA m2_1 m2N m2D m2T m2v2. by congr (col_mx _%:M _%:M); ring.
    - rewrite mul1mx /rq v2dot. ring.
  Qed.
  Theorem dense_nonvacuous :
    exists (A dA : 'M[F]_(1 + 1)) (q wq nu dq : 'cV[F]_(1 + 1)) (w ww alpha dw : F),
      [/\ dense_sys A 1%:M w q wq ww nu alpha, eigpair A 1%:M w q, normalised 1%:M q,
          lin_eig A 1%:M w q dA 0 dw dq & lin_norm 1%:M q 0 dq] /\ A^T != A.
  Proof.
    exists rA, rdA, rq, (v2 0 1), (v2 (- 1) (- (1 + 1))), rdq, 1, 1, 0, 1.
    split; last exact: rA_nonsym.
    split; [exact: r_dense_sys | exact: r_eigpair | exact: r_normalised | exact: r_lin_eig | exact: r_lin_norm].
  Qed.

  (* the hypotheses of sparse_eigvec_adjoint are met by a symmetric instance in which the singular solve returns a
     solution with a component along the eigenvector (so that the correction c * phi matters):
     A = diag(1, 0), B = I, w = 1, q = (1, 0), dphi = (0, 1), vp = (1, -1), dA = [[0, 1], [1, 0]] => dq = (0, 1), dw = 0 *)
  Theorem sparse_nonvacuous :
    exists (A dA : 'M[F]_(1 + 1)) (q dphi vp dq : 'cV[F]_(1 + 1)) (w dw : F),
      [/\ A^T = A, eigpair A 1%:M w q, normalised 1%:M q, sp_solve A 1%:M w q dphi vp &
          lin_eig A 1%:M w q dA 0 dw dq /\ lin_norm 1%:M q 0 dq] /\ sp_c 1%:M q vp != 0.
  Proof.
    exists (m2 1 0 0 0), (m2 0 1 1 0), rq, (v2 0 1), (v2 1 (- 1)), rdq, 1, 0.
    have Al : sp_alpha rq (v2 0 1) = 0 by rewrite /sp_alpha /rq v2dot mulr0 mul0r addr0 oppr0.
    split; first split.
    - by rewrite m2T.
    - by rewrite /eigpair mul1mx scale1r /rq m2v2; congr (col_mx _%:M _%:M); ring.
    - exact: r_normalised.
    - rewrite /sp_solve /sp_r Al scale0r addr0 scale1r m2_1 m2N m2D m2T m2v2.
      by congr (col_mx _%:M _%:M); ring.
    - split; last exact: r_lin_norm.
      rewrite /lin_eig !scale1r scale0r !subr0 /rq /rdq m2_1 !m2N !m2D !m2v2 v2D -[RHS]v2_00.
      by congr (col_mx _%:M _%:M); ring.
    - rewrite /sp_c mulmx1 /rq v2dot mulr1 mulr0 addr0 oppr_eq0. exact: oner_neq0.
  Qed.

  (* _sparse_eigval_sens is not the adjoint when A is not symmetric *)
  Theorem sparse_eigval_nonsym_refuted :
    exists (A dA : 'M[F]_(1 + 1)) (q dq : 'cV[F]_(1 + 1)) (w ww dw : F),
      [/\ eigpair A 1%:M w q, normalised 1%:M q, lin_eig A 1%:M w q dA 0 dw dq & lin_norm 1%:M q 0 dq]
      /\ ww * dw != frob (ev_gA 1%:M q ww) dA + frob (ev_gB 1%:M w q ww) 0.
  Proof.
    exists rA, rdA, rq, rdq, 1, 1, 1. split; first by split; [exact: r_eigpair | exact: r_normalised | exact: r_lin_eig | exact: r_lin_norm].
    rewrite frob0r addr0 /ev_gA.
    have -> : qmq 1%:M rq = 1 by rewrite /qmq mul1mx /rq v2dot !mulr1 mulr0 addr0.
    rewrite divr1 scale1r /rq v2outer /rdA frob_m2 !mulr0 !mul0r !addr0 mulr1. exact: oner_neq0.
  Qed.

  (* _sparse_eigvec_sens: a solution vp of the singular system for which the result is not the adjoint
     (the solution set is vp0 + t (1, 1); only t = 0 gives the adjoint, the code's correction along q = (1, 0)
     cannot remove the component along the left eigenvector) *)
  Theorem sparse_eigvec_nonsym_refuted :
    exists (A dA : 'M[F]_(1 + 1)) (q dphi vp dq : 'cV[F]_(1 + 1)) (w dw : F),
      [/\ eigpair A 1%:M w q, normalised 1%:M q, lin_eig A 1%:M w q dA 0 dw dq & lin_norm 1%:M q 0 dq]
      /\ sp_solve A 1%:M w q dphi vp
      /\ frob dphi dq != frob (sp_gA 1%:M q vp) dA + frob (sp_gB 1%:M w q dphi vp) 0.
  Proof.
    exists rA, rdA, rq, (v2 0 1), (v2 1 0), rdq, 1, 1.
    split; first by split; [exact: r_eigpair | exact: r_normalised | exact: r_lin_eig | exact: r_lin_norm].
    have Al : sp_alpha rq (v2 0 1) = 0 by rewrite /sp_alpha /rq v2dot mulr0 mul0r addr0 oppr0.
    split.
    - rewrite /sp_solve /sp_r Al scale0r addr0 scale1r /rA m2_1 m2N m2D m2T m2v2.
      by congr (col_mx _%:M _%:M); ring.
    - rewrite frob0r addr0 /sp_gA /sp_v /sp_c mulmx1 /rq v2dot v2Z v2D v2outer m2N /rdA frob_m2 frob_cV /rdq v2dot.
      rewrite -subr_eq0. apply/negP => /eqP H.
      have : (1 : F) = 0 by rewrite -H; ring.
      by move/eqP; rewrite oner_eq0.
  Qed.
End Refuted.
