(* Proofs about Model/Net.v : the reverse sweep of Network.sensitivity is the exact adjoint of the
   forward sweep of Network.response, for every well-formed module list (C02). *)
From Coq Require Import List Arith Bool Lia Ring ZArith.
From Pymoto Require Import Base.Num Model.Net.
Import ListNotations.

Section NetProofs.
  Context {K : Type} `{NK : Num K}.
  Hypothesis Kring : ring_theory nzero none_ nadd nmul nsub nopp (@eq K).
  Add Ring Kr : Kring.

  Notation "a +' b" := (nadd a b) (at level 50, left associativity).
  Notation "a *' b" := (nmul a b) (at level 40, left associativity).
  Notation "a -' b" := (nsub a b) (at level 50, left associativity).
  Notation "0'" := nzero.

  (* ------------------------------------------------------------------ vectors *)
  Lemma dot_nil_l (t : vec K) : dot [] t = 0'.
  Proof. reflexivity. Qed.
  Lemma dot_nil_r (a : vec K) : dot a [] = 0'.
  Proof. destruct a; reflexivity. Qed.
  Lemma dot_cons (x y : K) (a b : vec K) : dot (x :: a) (y :: b) = x *' y +' dot a b.
  Proof. reflexivity. Qed.

  Lemma dot_comm (a b : vec K) : dot a b = dot b a.
  Proof.
    revert b. induction a as [|x a IH]; intros [|y b]; try reflexivity.
    rewrite !dot_cons, IH. ring.
  Qed.

  Lemma length_vadd (a b : vec K) : length a = length b -> length (vadd a b) = length a.
  Proof. intros E. unfold vadd. rewrite map_length, combine_length. lia. Qed.
  Lemma length_vzero n : length (vzero n : vec K) = n.
  Proof. apply repeat_length. Qed.
  Lemma length_vscale c (a : vec K) : length (vscale c a) = length a.
  Proof. apply map_length. Qed.

  Lemma vadd_cons (x y : K) a b : vadd (x :: a) (y :: b) = (x +' y) :: vadd a b.
  Proof. reflexivity. Qed.

  Lemma dot_vadd (a b t : vec K) : length a = length b -> dot (vadd a b) t = dot a t +' dot b t.
  Proof.
    revert b t. induction a as [|x a IH]; intros [|y b] t E; try discriminate.
    - rewrite !dot_nil_l. ring.
    - destruct t as [|z t].
      + rewrite !dot_nil_r. ring.
      + rewrite vadd_cons, !dot_cons, IH by (simpl in E; lia). ring.
  Qed.

  Lemma dot_vzero n (t : vec K) : dot (vzero n) t = 0'.
  Proof.
    revert t. induction n as [|n IH]; intros t; [reflexivity|].
    destruct t as [|z t]; [apply dot_nil_r|].
    change (vzero (S n) : vec K) with (0' :: vzero n). rewrite dot_cons, IH. ring.
  Qed.

  Lemma dot_vscale c (a t : vec K) : dot (vscale c a) t = c *' dot a t.
  Proof.
    revert t. induction a as [|x a IH]; intros t.
    - rewrite !dot_nil_l. ring.
    - destruct t as [|z t]; [rewrite !dot_nil_r; ring|].
      change (vscale c (x :: a)) with ((c *' x) :: vscale c a). rewrite !dot_cons, IH. ring.
  Qed.

  Lemma vsub_vadd_cancel (g d : vec K) : length g = length d -> vsub (vadd g d) g = d.
  Proof.
    revert d. induction g as [|x g IH]; intros [|y d] E; try discriminate; [reflexivity|].
    change (vsub (vadd (x :: g) (y :: d)) (x :: g)) with ((x +' y -' x) :: vsub (vadd g d) g).
    rewrite IH by (simpl in E; lia). f_equal. ring.
  Qed.

  (* ------------------------------------------------------------------ positions *)
  Lemma length_set_at i (a : K) v : length (set_at i a v) = length v.
  Proof. revert i. induction v as [|x v IH]; intros [|i]; simpl; auto. Qed.

  Lemma nth_set_at_neq i j (a d : K) v : i <> j -> nth j (set_at i a v) d = nth j v d.
  Proof.
    revert i j. induction v as [|x v IH]; intros [|i] [|j] Hn; simpl; auto; try congruence.
  Qed.

  Lemma dot_set_at i (a : K) v t : i < length v ->
    dot (set_at i a v) t = dot v t +' (a -' nth i v 0') *' nth i t 0'.
  Proof.
    revert i t. induction v as [|x v IH]; intros i t Hi; [simpl in Hi; lia|].
    destruct t as [|z t].
    - rewrite !dot_nil_r. destruct i; simpl; ring.
    - destruct i as [|i]; simpl set_at; rewrite !dot_cons.
      + simpl. ring.
      + rewrite IH by (simpl in Hi; lia). simpl. ring.
  Qed.

  Lemma length_scatter_set idx vals (base : vec K) : length (scatter_set idx vals base) = length base.
  Proof.
    unfold scatter_set. revert base. induction (combine idx vals) as [|p l IH]; intros base; simpl; auto.
    rewrite IH. apply length_set_at.
  Qed.

  Lemma gather_set_at_notin i (a : K) idx v : ~ In i idx -> gather idx (set_at i a v) = gather idx v.
  Proof.
    intros Hn. unfold gather. apply map_ext_in. intros j Hj. apply nth_set_at_neq. intros ->; auto.
  Qed.

  Lemma dot_scatter_set idx : forall vals (base t : vec K),
    NoDup idx -> (forall i, In i idx -> i < length base) -> length vals = length idx ->
    dot (scatter_set idx vals base) t
    = dot base t +' dot (vsub vals (gather idx base)) (gather idx t).
  Proof.
    induction idx as [|i idx IH]; intros vals base t Hnd Hin Hlen.
    - destruct vals; [|discriminate]. unfold scatter_set. simpl. rewrite dot_nil_l. ring.
    - destruct vals as [|a vals]; [discriminate|].
      inversion Hnd as [|? ? Hni Hnd']; subst.
      change (scatter_set (i :: idx) (a :: vals) base) with (scatter_set idx vals (set_at i a base)).
      assert (Hin' : forall j, In j idx -> j < length (set_at i a base)).
      { intros j Hj. rewrite length_set_at. apply Hin. right. exact Hj. }
      assert (Hlen' : length vals = length idx) by (simpl in Hlen; lia).
      rewrite (IH vals (set_at i a base) t Hnd' Hin' Hlen').
      rewrite gather_set_at_notin by assumption.
      rewrite dot_set_at by (apply Hin; left; reflexivity).
      change (gather (i :: idx) base) with (nth i base 0' :: gather idx base).
      change (gather (i :: idx) t) with (nth i t 0' :: gather idx t).
      change (vsub (a :: vals) (nth i base 0' :: gather idx base))
        with ((a -' nth i base 0') :: vsub vals (gather idx base)).
      rewrite dot_cons. ring.
  Qed.

  Lemma length_gather idx (v : vec K) : length (gather idx v) = length idx.
  Proof. apply map_length. Qed.

  Lemma length_slice_add idx ds (base : vec K) : length (slice_add idx ds base) = length base.
  Proof. apply length_scatter_set. Qed.

  (* adding through a slice with pairwise different positions is the adjoint of reading through it *)
  Lemma dot_slice_add idx (ds base t : vec K) :
    NoDup idx -> (forall i, In i idx -> i < length base) -> length ds = length idx ->
    dot (slice_add idx ds base) t = dot base t +' dot ds (gather idx t).
  Proof.
    intros Hnd Hin Hlen. unfold slice_add.
    rewrite dot_scatter_set; auto.
    - rewrite vsub_vadd_cancel; [reflexivity|]. rewrite length_gather. lia.
    - rewrite length_vadd; rewrite length_gather; lia.
  Qed.

  (* ------------------------------------------------------------------ boolean list predicates *)
  Lemma mem_In s l : mem s l = true <-> In s l.
  Proof.
    unfold mem. rewrite existsb_exists. split.
    - intros [x [Hx E]]. apply Nat.eqb_eq in E. subst. exact Hx.
    - intros Hs. exists s. split; [exact Hs | apply Nat.eqb_refl].
  Qed.
  Lemma mem_false s l : mem s l = false <-> ~ In s l.
  Proof. rewrite <- mem_In. destruct (mem s l); split; intros; congruence. Qed.

  Lemma nodupb_NoDup l : nodupb l = true -> NoDup l.
  Proof.
    induction l as [|x l IH]; simpl; intros Hb; [constructor|].
    apply andb_true_iff in Hb as [H1 H2]. constructor; [|auto].
    apply negb_true_iff in H1. apply mem_false in H1. exact H1.
  Qed.

  Lemma disjointb_spec a b : disjointb a b = true -> forall x, In x a -> ~ In x b.
  Proof.
    unfold disjointb. rewrite forallb_forall. intros Hf x Hx.
    specialize (Hf x Hx). apply negb_true_iff in Hf. apply mem_false in Hf. exact Hf.
  Qed.

  (* ------------------------------------------------------------------ sums over signal lists *)
  Lemma nsum_app (a b : list K) : nsum (a ++ b) = nsum a +' nsum b.
  Proof. induction a as [|x a IH]; simpl; [ring | rewrite IH; ring]. Qed.

  Lemma nsum_map_ext_in {A} (f g : A -> K) l : (forall x, In x l -> f x = g x) -> nsum (map f l) = nsum (map g l).
  Proof. intros E. f_equal. apply map_ext_in. exact E. Qed.

  (* two summands that differ in one place only *)
  Lemma nsum_map_upd (f g : nat -> K) (s : nat) l :
    NoDup l -> In s l -> (forall x, x <> s -> g x = f x) ->
    nsum (map g l) = nsum (map f l) +' (g s -' f s).
  Proof.
    induction l as [|x l IH]; intros Hnd Hin E; [contradiction|].
    inversion Hnd as [|? ? Hx Hnd']; subst. simpl.
    destruct (Nat.eq_dec x s) as [->|Hne].
    - rewrite (nsum_map_ext_in g f l).
      + ring.
      + intros y Hy. apply E. intros ->. contradiction.
    - destruct Hin as [->|Hin]; [congruence|].
      rewrite IH by assumption. rewrite (E x Hne). ring.
  Qed.

  Lemma nsum_map_zero {A} (f : A -> K) l : (forall x, In x l -> f x = 0') -> nsum (map f l) = 0'.
  Proof. induction l as [|x l IH]; intros E; simpl; [reflexivity|]. rewrite E by (left; reflexivity). rewrite IH by (intros; apply E; right; assumption). ring. Qed.

  Lemma upd_same {A} (e : nat -> A) s v : upd e s v s = v.
  Proof. unfold upd. rewrite Nat.eqb_refl. reflexivity. Qed.
  Lemma upd_other {A} (e : nat -> A) s v x : x <> s -> upd e s v x = e x.
  Proof. unfold upd. intros Hn. apply Nat.eqb_neq in Hn. rewrite Hn. reflexivity. Qed.

  Lemma odot_len_none (t : vec K) : odot None t = 0'.
  Proof. reflexivity. Qed.

  (* ------------------------------------------------------------------ add_sensitivity *)
  Variable dims : nat -> nat.

  Lemma wt_ref_slice s idx : wt_ref dims (RSlice s idx) = true ->
    NoDup idx /\ (forall i, In i idx -> i < dims s).
  Proof.
    simpl. intros Hb. apply andb_true_iff in Hb as [H1 H2]. split; [apply nodupb_NoDup; exact H1|].
    rewrite forallb_forall in H2. intros i Hi. apply Nat.ltb_lt. apply H2. exact Hi.
  Qed.

  Lemma add_sens_other c r d x : x <> ref_sig r -> add_sens dims c r d x = c x.
  Proof.
    intros Hn. destruct d as [d|]; [|reflexivity].
    destruct r as [s|s idx|s idx]; simpl in *.
    - destruct (c s); apply upd_other; exact Hn.
    - apply upd_other; exact Hn.
    - apply upd_other; exact Hn.
  Qed.

  Lemma add_sens_pointwise c1 c2 r d x : c1 x = c2 x -> add_sens dims c1 r d x = add_sens dims c2 r d x.
  Proof.
    intros E. destruct (Nat.eq_dec x (ref_sig r)) as [->|Hn].
    - destruct d as [d|]; [|exact E].
      destruct r as [s|s idx|s idx]; simpl in *.
      + rewrite E. destruct (c2 s); rewrite !upd_same; reflexivity.
      + rewrite E. rewrite !upd_same. reflexivity.
      + rewrite E. rewrite !upd_same. reflexivity.
    - rewrite !add_sens_other by exact Hn. exact E.
  Qed.

  Definition dshape (d : option (vec K)) (n : nat) : Prop := forall g, d = Some g -> length g = n.

  Lemma add_sens_wt c r d :
    wt_cot dims c -> wt_ref dims r = true -> dshape d (ref_dim dims r) -> wt_cot dims (add_sens dims c r d).
  Proof.
    intros Hc Hr Hd. destruct d as [d|]; [|exact Hc].
    specialize (Hd d eq_refl).
    intros x g. destruct (Nat.eq_dec x (ref_sig r)) as [->|Hn].
    - destruct r as [s|s idx|s idx]; simpl in *; [| |discriminate].
      + destruct (c s) as [g0|] eqn:E; rewrite upd_same; intros [= <-].
        * rewrite length_vadd; [apply (Hc s); exact E|]. rewrite (Hc s g0 E). symmetry. exact Hd.
        * exact Hd.
      + rewrite upd_same. intros [= <-]. rewrite length_slice_add.
        destruct (c s) as [g0|] eqn:E; [apply (Hc s); exact E | apply length_vzero].
    - rewrite add_sens_other by exact Hn. apply Hc.
  Qed.

  Lemma add_sens_at c r d t :
    wt_cot dims c -> wt_ref dims r = true -> dshape d (ref_dim dims r) ->
    odot (add_sens dims c r d (ref_sig r)) (t (ref_sig r))
    = odot (c (ref_sig r)) (t (ref_sig r)) +' odot d (read_t t r).
  Proof.
    intros Hc Hr Hd. destruct d as [d|]; [|simpl; ring].
    specialize (Hd d eq_refl).
    destruct r as [s|s idx|s idx]; simpl in *; [| |discriminate].
    - destruct (c s) as [g0|] eqn:E; rewrite upd_same; simpl.
      + apply dot_vadd. rewrite (Hc s g0 E). symmetry. exact Hd.
      + ring.
    - rewrite upd_same. simpl.
      apply andb_true_iff in Hr as [H1 H2]. apply nodupb_NoDup in H1.
      rewrite forallb_forall in H2.
      destruct (c s) as [g0|] eqn:E.
      + apply dot_slice_add; auto.
        intros i Hi. rewrite (Hc s g0 E). apply Nat.ltb_lt. apply H2. exact Hi.
      + rewrite dot_slice_add; auto.
        * rewrite dot_vzero. reflexivity.
        * intros i Hi. rewrite length_vzero. apply Nat.ltb_lt. apply H2. exact Hi.
  Qed.

  Lemma add_sens_pair l c r d t :
    NoDup l -> In (ref_sig r) l -> wt_cot dims c -> wt_ref dims r = true -> dshape d (ref_dim dims r) ->
    pairing_on l (add_sens dims c r d) t = pairing_on l c t +' odot d (read_t t r).
  Proof.
    intros Hnd Hin Hc Hr Hd. unfold pairing_on.
    rewrite (nsum_map_upd (fun s => odot (c s) (t s)) (fun s => odot (add_sens dims c r d s) (t s)) (ref_sig r) l Hnd Hin).
    - rewrite add_sens_at by assumption. ring.
    - intros x Hx. rewrite add_sens_other by exact Hx. reflexivity.
  Qed.

  Definition add_all (rds : list (ref * option (vec K))) (c : cenv K) : cenv K :=
    fold_left (fun c rd => add_sens dims c (fst rd) (snd rd)) rds c.

  Lemma add_all_pair l t : NoDup l -> forall ins ds c,
    oshapes ds (map (ref_dim dims) ins) -> forallb (wt_ref dims) ins = true ->
    (forall r, In r ins -> In (ref_sig r) l) -> wt_cot dims c ->
    pairing_on l (add_all (combine ins ds) c) t = pairing_on l c t +' sumodot ds (map (read_t t) ins)
    /\ wt_cot dims (add_all (combine ins ds) c).
  Proof.
    intros Hnd. induction ins as [|r ins IH]; intros ds c Hs Hw Hl Hc.
    - inversion Hs; subst. unfold add_all, sumodot. simpl. split; [ring | exact Hc].
    - inversion Hs as [|d n ds' ns Hd Hs']; subst.
      simpl in Hw. apply andb_true_iff in Hw as [Hr Hw].
      change (add_all (combine (r :: ins) (d :: ds')) c) with (add_all (combine ins ds') (add_sens dims c r d)).
      assert (Hc' : wt_cot dims (add_sens dims c r d)) by (apply add_sens_wt; assumption).
      destruct (IH ds' (add_sens dims c r d) Hs' Hw (fun r0 H0 => Hl r0 (or_intror H0)) Hc') as [E W].
      split; [|exact W]. rewrite E. rewrite add_sens_pair; auto.
      + unfold sumodot. simpl. ring.
      + apply Hl. left. reflexivity.
  Qed.

  Lemma add_all_pointwise rds : forall c1 c2 x, c1 x = c2 x -> add_all rds c1 x = add_all rds c2 x.
  Proof.
    induction rds as [|rd rds IH]; intros c1 c2 x E; [exact E|].
    simpl. apply IH. apply add_sens_pointwise. exact E.
  Qed.

  Lemma add_all_untouched rds : forall c x, (forall rd, In rd rds -> x <> ref_sig (fst rd)) -> add_all rds c x = c x.
  Proof.
    induction rds as [|rd rds IH]; intros c x Hn; [reflexivity|].
    simpl. rewrite IH by (intros; apply Hn; right; assumption).
    apply add_sens_other. apply Hn. left. reflexivity.
  Qed.

  (* ------------------------------------------------------------------ response of one module *)
  Lemma length_read_t t r : wt_tan dims t -> length (read_t t r) = ref_dim dims r.
  Proof. intros Ht. destruct r as [s|s idx|s idx]; simpl; [apply Ht | apply length_gather | apply length_gather]. Qed.

  Lemma shapes_read t ins : wt_tan dims t -> shapes (map (read_t t) ins) (map (ref_dim dims) ins).
  Proof.
    intros Ht. unfold shapes. rewrite map_map. apply map_ext. intros r. apply length_read_t. exact Ht.
  Qed.

  Lemma write_outs_wt outs : forall ys (t : tenv K), wt_tan dims t -> shapes ys (map dims outs) -> wt_tan dims (write_outs outs ys t).
  Proof.
    induction outs as [|o outs IH]; intros ys t Ht Hs; [exact Ht|].
    destruct ys as [|y ys]; [exact Ht|]. simpl. unfold shapes in Hs. simpl in Hs. inversion Hs as [[E1 E2]].
    apply IH; [|exact E2].
    intros s. unfold upd. destruct (Nat.eqb s o) eqn:E; [apply Nat.eqb_eq in E; subst; exact E1 | apply Ht].
  Qed.

  Lemma clear_in outs (c : cenv K) x : In x outs -> clear outs c x = None.
  Proof. intros Hx. unfold clear. apply mem_In in Hx. unfold mem in Hx. rewrite Hx. reflexivity. Qed.
  Lemma clear_notin outs (c : cenv K) x : ~ In x outs -> clear outs c x = c x.
  Proof. intros Hx. unfold clear. apply mem_false in Hx. unfold mem in Hx. rewrite Hx. reflexivity. Qed.
  Lemma clear_wt outs (c : cenv K) : wt_cot dims c -> wt_cot dims (clear outs c).
  Proof. intros Hc x g. unfold clear. destruct (existsb _ _); [discriminate | apply Hc]. Qed.

  Definition outpair (c : cenv K) (outs : list nat) (ys : list (vec K)) : K :=
    nsum (map (fun oy => odot (c (fst oy)) (snd oy)) (combine outs ys)).

  Lemma In_firstn {A} (x : A) n l : In x (firstn n l) -> In x l.
  Proof.
    revert l. induction n as [|n IH]; intros [|y l] Hx; simpl in *; try contradiction.
    destruct Hx as [->|Hx]; [left; reflexivity | right; apply IH; exact Hx].
  Qed.

  Lemma pairing_clear_nil l (c : cenv K) t : pairing_on l (clear [] c) t = pairing_on l c t.
  Proof. unfold pairing_on. apply nsum_map_ext_in. intros; reflexivity. Qed.

  Lemma write_outs_pair l (c : cenv K) : NoDup l -> forall outs ys t,
    NoDup outs -> (forall o, In o outs -> In o l) ->
    pairing_on l c (write_outs outs ys t) = pairing_on l (clear (firstn (length ys) outs) c) t +' outpair c outs ys.
  Proof.
    intros Hnd. induction outs as [|o outs IH]; intros ys t Hno Hl.
    - rewrite firstn_nil, pairing_clear_nil. unfold outpair. simpl. ring.
    - destruct ys as [|y ys].
      + simpl firstn. rewrite pairing_clear_nil. unfold outpair. simpl. ring.
      + inversion Hno as [|? ? Ho Hno']; subst.
        simpl write_outs. rewrite IH by (auto; intros; apply Hl; right; assumption).
        simpl length. simpl firstn.
        unfold pairing_on.
        rewrite (nsum_map_upd (fun s => odot (clear (o :: firstn (length ys) outs) c s) (t s))
                              (fun s => odot (clear (firstn (length ys) outs) c s) (upd t o y s)) o l Hnd).
        * rewrite upd_same. rewrite (clear_in (o :: _)) by (left; reflexivity).
          rewrite clear_notin.
          -- unfold outpair. simpl. ring.
          -- intros Hin. apply Ho. eapply In_firstn. exact Hin.
        * apply Hl. left. reflexivity.
        * intros x Hx. rewrite upd_other by exact Hx. unfold clear. simpl.
          apply Nat.eqb_neq in Hx. rewrite Hx. reflexivity.
  Qed.

  (* ------------------------------------------------------------------ one module: response vs sensitivity *)
  Lemma outpair_fill (c : cenv K) outs : forall ys, outpair c outs ys = sumdot (fill dims outs (map c outs)) ys.
  Proof.
    unfold outpair, sumdot, fill.
    induction outs as [|o outs IH]; intros ys; [reflexivity|].
    destruct ys as [|y ys]; [reflexivity|].
    simpl. rewrite IH. destruct (c o) as [g|]; simpl; [reflexivity|]. rewrite dot_vzero. reflexivity.
  Qed.

  Lemma fill_shapes (c : cenv K) outs : wt_cot dims c -> shapes (fill dims outs (map c outs)) (map dims outs).
  Proof.
    intros Hc. unfold shapes, fill. induction outs as [|o outs IH]; [reflexivity|].
    simpl. rewrite IH. f_equal. destruct (c o) as [g|] eqn:E; [apply (Hc o g E) | apply length_vzero].
  Qed.

  Lemma outpair_all_none (c : cenv K) outs ys : forallb is_none (map c outs) = true -> outpair c outs ys = 0'.
  Proof.
    unfold outpair. revert ys. induction outs as [|o outs IH]; intros ys Hb; [reflexivity|].
    destruct ys as [|y ys]; [reflexivity|].
    simpl in Hb. apply andb_true_iff in Hb as [H1 H2]. simpl. rewrite IH by exact H2.
    destruct (c o); [discriminate|]. simpl. ring.
  Qed.

  Definition sigs_in (l : list nat) (m : module K) : Prop :=
    (forall o, In o (m_outs m) -> In o l) /\ (forall r, In r (m_ins m) -> In (ref_sig r) l).

  Lemma shapes_length (xs : list (vec K)) ds : shapes xs ds -> length xs = length ds.
  Proof. unfold shapes. intros <-. symmetry. apply map_length. Qed.

  Lemma fwd_mod_wt m (t : tenv K) : wt_mod dims m -> wt_tan dims t -> wt_tan dims (fwd_mod m t).
  Proof.
    intros [_ [Hf _]] Ht. unfold fwd_mod. apply write_outs_wt; [exact Ht|].
    apply Hf. apply shapes_read. exact Ht.
  Qed.

  Lemma bwd_mod'_adjoint l m (c : cenv K) (t : tenv K) :
    NoDup l -> sigs_in l m -> NoDup (m_outs m) -> wt_mod dims m -> wt_cot dims c -> wt_tan dims t ->
    pairing_on l c (fwd_mod m t) = pairing_on l (bwd_mod' dims m c) t /\ wt_cot dims (bwd_mod' dims m c).
  Proof.
    intros Hnd [Hso Hsi] Hno [Hwr [Hf [Ha Hadj]]] Hc Ht.
    pose proof (shapes_read t (m_ins m) Ht) as Hxs.
    pose proof (Hf _ Hxs) as Hys.
    unfold fwd_mod. rewrite write_outs_pair by assumption.
    rewrite (shapes_length _ _ Hys), map_length, firstn_all.
    unfold bwd_mod'. destruct (skip m (map c (m_outs m))) eqn:Hsk.
    - unfold skip in Hsk. apply andb_true_iff in Hsk as [_ Hall].
      rewrite outpair_all_none by exact Hall. split; [ring | apply clear_wt; exact Hc].
    - unfold apply_adj.
      pose proof (fill_shapes c (m_outs m) Hc) as Hws.
      destruct (add_all_pair l t Hnd (m_ins m) (m_adj m (fill dims (m_outs m) (map c (m_outs m))))
                             (clear (m_outs m) c) (Ha _ Hws) Hwr Hsi (clear_wt _ _ Hc)) as [E W].
      split; [|exact W].
      unfold add_all in E. rewrite E. rewrite outpair_fill. rewrite (Hadj _ _ Hxs Hws). reflexivity.
  Qed.

  (* ------------------------------------------------------------------ module lists *)
  Lemma bwd_cons m ms (c : cenv K) : bwd dims (m :: ms) c = bwd_mod dims m (bwd dims ms c).
  Proof. unfold bwd. simpl. rewrite fold_left_app. reflexivity. Qed.
  Lemma bwd'_cons m ms (c : cenv K) : bwd' dims (m :: ms) c = bwd_mod' dims m (bwd' dims ms c).
  Proof. unfold bwd'. simpl. rewrite fold_left_app. reflexivity. Qed.
  Lemma fwd_cons m ms (t : tenv K) : fwd (m :: ms) t = fwd ms (fwd_mod m t).
  Proof. reflexivity. Qed.

  Lemma fwd_wt mods : wt_net dims mods -> forall t : tenv K, wt_tan dims t -> wt_tan dims (fwd mods t).
  Proof.
    induction 1 as [|m ms Hm _ IH]; intros t Ht; [exact Ht|].
    rewrite fwd_cons. apply IH. apply fwd_mod_wt; assumption.
  Qed.

  (* the clearing sweep is the exact adjoint of the forward sweep: no wiring discipline is needed for this *)
  Theorem bwd'_adjoint l mods :
    NoDup l -> Forall (sigs_in l) mods -> Forall (fun m => NoDup (m_outs m)) mods -> wt_net dims mods ->
    forall (c : cenv K), wt_cot dims c -> forall t : tenv K, wt_tan dims t ->
    pairing_on l c (fwd mods t) = pairing_on l (bwd' dims mods c) t /\ wt_cot dims (bwd' dims mods c).
  Proof.
    intros Hnd Hs Hn Hw c Hc. revert Hs Hn Hw.
    induction mods as [|m ms IH]; intros Hs Hn Hw t Ht.
    - split; [reflexivity | exact Hc].
    - inversion Hs as [|? ? Hs1 Hs2]; inversion Hn as [|? ? Hn1 Hn2]; inversion Hw as [|? ? Hw1 Hw2]; subst.
      rewrite fwd_cons, bwd'_cons.
      destruct (IH Hs2 Hn2 Hw2 (fwd_mod m t) (fwd_mod_wt m t Hw1 Ht)) as [E W].
      rewrite E. apply bwd_mod'_adjoint; assumption.
  Qed.

  (* ------------------------------------------------------------------ simulation: bwd vs bwd' *)
  Lemma apply_adj_pointwise m ws (c1 c2 : cenv K) x : c1 x = c2 x -> apply_adj dims m ws c1 x = apply_adj dims m ws c2 x.
  Proof. apply add_all_pointwise. Qed.

  Lemma apply_adj_untouched m ws (c : cenv K) x : ~ In x (ins_sigs m) -> apply_adj dims m ws c x = c x.
  Proof.
    intros Hn. apply add_all_untouched. intros [r d] Hin. simpl. intros ->.
    apply Hn. unfold ins_sigs. apply in_map. eapply in_combine_l. exact Hin.
  Qed.

  Lemma bwd_mod_sim m (c1 c2 : cenv K) x :
    (forall o, In o (m_outs m) -> c1 o = c2 o) -> c1 x = c2 x -> ~ In x (m_outs m) ->
    bwd_mod dims m c1 x = bwd_mod' dims m c2 x.
  Proof.
    intros Ho Ex Hx. unfold bwd_mod, bwd_mod'.
    rewrite (map_ext_in c1 c2 (m_outs m) Ho).
    destruct (skip m (map c2 (m_outs m))).
    - rewrite clear_notin by exact Hx. exact Ex.
    - apply apply_adj_pointwise. rewrite clear_notin by exact Hx. exact Ex.
  Qed.

  Lemma bwd_mod'_cleared m (c : cenv K) x : In x (m_outs m) -> ~ In x (ins_sigs m) -> bwd_mod' dims m c x = None.
  Proof.
    intros Hx Hn. unfold bwd_mod'. destruct (skip m _).
    - apply clear_in. exact Hx.
    - rewrite apply_adj_untouched by exact Hn. apply clear_in. exact Hx.
  Qed.

  Lemma bwd_mod'_untouched m (c : cenv K) x : ~ In x (m_outs m) -> ~ In x (ins_sigs m) -> bwd_mod' dims m c x = c x.
  Proof.
    intros Hx Hn. unfold bwd_mod'. destruct (skip m _).
    - apply clear_notin. exact Hx.
    - rewrite apply_adj_untouched by exact Hn. apply clear_notin. exact Hx.
  Qed.

  Lemma bwd_mod_untouched m (c : cenv K) x : ~ In x (ins_sigs m) -> bwd_mod dims m c x = c x.
  Proof.
    intros Hn. unfold bwd_mod. destruct (skip m _); [reflexivity|]. apply apply_adj_untouched. exact Hn.
  Qed.

  Lemma wf_net_cons (m : module K) ms : wf_net (m :: ms) = true ->
    NoDup (m_outs m) /\ (forall x, In x (m_outs m) -> ~ In x (written ms)) /\
    (forall x, In x (ins_sigs m) -> ~ In x (m_outs m) /\ ~ In x (written ms)) /\ wf_net ms = true.
  Proof.
    simpl. intros Hb.
    apply andb_true_iff in Hb as [Hb H4]. apply andb_true_iff in Hb as [Hb H3]. apply andb_true_iff in Hb as [H1 H2].
    split; [apply nodupb_NoDup; exact H1|]. split; [apply disjointb_spec; exact H2|]. split; [|exact H4].
    intros x Hx. pose proof (disjointb_spec _ _ H3 x Hx) as Hn. rewrite in_app_iff in Hn. tauto.
  Qed.

  Lemma bwd_sim (mods : list (module K)) : wf_net mods = true -> forall c : cenv K,
    (forall x, ~ In x (written mods) -> bwd dims mods c x = bwd' dims mods c x) /\
    (forall x, In x (written mods) -> bwd' dims mods c x = None).
  Proof.
    induction mods as [|m ms IH]; intros Hwf c.
    - split; [reflexivity | intros x []].
    - apply wf_net_cons in Hwf as [Hnd [Hdis [Hins Hwf]]].
      destruct (IH Hwf c) as [IH1 IH2].
      change (written (m :: ms)) with (m_outs m ++ written ms).
      split; intros x Hx; rewrite ?bwd_cons, bwd'_cons.
      + rewrite in_app_iff in Hx. apply bwd_mod_sim.
        * intros o Ho. apply IH1. apply Hdis. exact Ho.
        * apply IH1. tauto.
        * tauto.
      + rewrite in_app_iff in Hx. destruct Hx as [Hx|Hx].
        * apply bwd_mod'_cleared; [exact Hx|]. intros Hi. destruct (Hins x Hi) as [A _]. apply A. exact Hx.
        * rewrite bwd_mod'_untouched.
          -- apply IH2. exact Hx.
          -- intros Ho. apply (Hdis x Ho). exact Hx.
          -- intros Hi. destruct (Hins x Hi) as [_ B]. apply B. exact Hx.
  Qed.

  (* ------------------------------------------------------------------ main theorem *)
  Lemma wf_net_nodup mods : wf_net mods = true -> Forall (fun m : module K => NoDup (m_outs m)) mods.
  Proof.
    induction mods as [|m ms IH]; intros Hwf; [constructor|].
    apply wf_net_cons in Hwf as [Hnd [_ [_ Hwf]]]. constructor; auto.
  Qed.

  Lemma below_sigs_in N (mods : list (module K)) : below N mods = true -> Forall (sigs_in (seq 0 N)) mods.
  Proof.
    unfold below. rewrite forallb_forall. intros Hb. apply Forall_forall. intros m Hm.
    specialize (Hb m Hm). rewrite forallb_forall in Hb.
    split.
    - intros o Ho. apply in_seq. assert (H0 : In o (m_outs m ++ ins_sigs m)) by (apply in_or_app; left; exact Ho).
      apply Hb in H0. apply Nat.ltb_lt in H0. lia.
    - intros r Hr. apply in_seq.
      assert (H0 : In (ref_sig r) (m_outs m ++ ins_sigs m)).
      { apply in_or_app; right. unfold ins_sigs. apply in_map. exact Hr. }
      apply Hb in H0. apply Nat.ltb_lt in H0. lia.
  Qed.

  Lemma nsum_filter (f : nat -> K) (p : nat -> bool) l :
    (forall x, In x l -> p x = false -> f x = 0') -> nsum (map f l) = nsum (map f (filter p l)).
  Proof.
    induction l as [|x l IH]; intros Hz; [reflexivity|].
    simpl. rewrite IH by (intros; apply Hz; [right|]; assumption).
    destruct (p x) eqn:E; simpl; [reflexivity|]. rewrite (Hz x) by (auto; left; reflexivity). ring.
  Qed.

  (* For every well-formed module list: the seeds paired with the forward-propagated tangents equal the
     source sensitivities left by Network.sensitivity paired with the source tangents. *)
  Theorem backprop_adjoint N mods (c : cenv K) (t : tenv K) :
    wf_net mods = true -> below N mods = true -> wt_net dims mods -> wt_cot dims c -> wt_tan dims t ->
    pairing_on (seq 0 N) c (fwd mods t) = pairing_on (sources N mods) (bwd dims mods c) t.
  Proof.
    intros Hwf Hb Hw Hc Ht.
    destruct (bwd'_adjoint (seq 0 N) mods (seq_NoDup N 0) (below_sigs_in N mods Hb) (wf_net_nodup mods Hwf) Hw c Hc t Ht)
      as [E _].
    rewrite E. destruct (bwd_sim mods Hwf c) as [S1 S2].
    unfold pairing_on, sources.
    rewrite (nsum_filter _ (fun s => negb (mem s (written mods)))).
    - apply nsum_map_ext_in. intros x Hx. apply filter_In in Hx as [_ Hx].
      apply negb_true_iff in Hx. apply mem_false in Hx. rewrite S1 by exact Hx. reflexivity.
    - intros x _ Hx. apply negb_false_iff in Hx. apply mem_In in Hx. rewrite S2 by exact Hx. reflexivity.
  Qed.

  (* ------------------------------------------------------------------ components of the source sensitivities *)
  Lemma nth_vzero k n : nth k (vzero n : vec K) 0' = 0'.
  Proof. unfold vzero. apply nth_repeat. Qed.

  Lemma dot_unit (g : vec K) k n : k < n -> length g = n -> dot g (set_at k none_ (vzero n)) = nth k g 0'.
  Proof.
    intros Hk Hl. rewrite dot_comm, dot_set_at by (rewrite length_vzero; exact Hk).
    rewrite dot_vzero, nth_vzero. ring.
  Qed.

  Lemma unit_tan_wt s k : wt_tan dims (unit_tan dims s k).
  Proof.
    intros x. unfold unit_tan. destruct (Nat.eqb x s) eqn:E.
    - apply Nat.eqb_eq in E. subst. rewrite length_set_at. apply length_vzero.
    - apply length_vzero.
  Qed.

  Lemma pairing_unit l (c : cenv K) s k :
    NoDup l -> In s l -> k < dims s -> wt_cot dims c -> pairing_on l c (unit_tan dims s k) = onth k (c s).
  Proof.
    intros Hnd Hin Hk Hc. unfold pairing_on.
    rewrite (nsum_map_upd (fun _ => 0') (fun x => odot (c x) (unit_tan dims s k x)) s l Hnd Hin).
    - rewrite nsum_map_zero by reflexivity. unfold unit_tan. rewrite Nat.eqb_refl.
      destruct (c s) as [g|] eqn:E; simpl; [|ring].
      rewrite dot_unit by (auto; apply (Hc s g E)). ring.
    - intros x Hx. unfold unit_tan. apply Nat.eqb_neq in Hx. rewrite Hx.
      destruct (c x) as [g|]; simpl; [|reflexivity]. rewrite dot_comm. apply dot_vzero.
  Qed.

  Lemma add_all_wt : forall ins ds (c : cenv K),
    oshapes ds (map (ref_dim dims) ins) -> forallb (wt_ref dims) ins = true -> wt_cot dims c ->
    wt_cot dims (add_all (combine ins ds) c).
  Proof.
    induction ins as [|r ins IH]; intros ds c Hs Hw Hc.
    - exact Hc.
    - inversion Hs as [|d n ds' ns Hd Hs']; subst.
      simpl in Hw. apply andb_true_iff in Hw as [Hr Hw].
      change (add_all (combine (r :: ins) (d :: ds')) c) with (add_all (combine ins ds') (add_sens dims c r d)).
      apply IH; auto. apply add_sens_wt; assumption.
  Qed.

  Lemma bwd_wt mods (c : cenv K) : wt_net dims mods -> wt_cot dims c -> wt_cot dims (bwd dims mods c).
  Proof.
    intros Hw Hc. induction Hw as [|m ms Hm _ IH]; [exact Hc|].
    rewrite bwd_cons. unfold bwd_mod. destruct (skip m _); [exact IH|].
    destruct Hm as [Hwr [_ [Ha _]]].
    unfold apply_adj. apply add_all_wt; auto. apply Ha. apply fill_shapes. exact IH.
  Qed.

  (* entry k of the sensitivity of source s = the seeds paired with the forward image of the unit tangent *)
  Theorem source_sensitivity_component N mods (c : cenv K) s k :
    wf_net mods = true -> below N mods = true -> wt_net dims mods -> wt_cot dims c ->
    In s (sources N mods) -> k < dims s ->
    onth k (bwd dims mods c s) = pairing_on (seq 0 N) c (fwd mods (unit_tan dims s k)).
  Proof.
    intros Hwf Hb Hw Hc Hs Hk.
    rewrite (backprop_adjoint N mods c (unit_tan dims s k) Hwf Hb Hw Hc (unit_tan_wt s k)).
    symmetry. apply pairing_unit; auto.
    - unfold sources. apply NoDup_filter. apply seq_NoDup.
    - apply bwd_wt; assumption.
  Qed.

  (* ------------------------------------------------------------------ unseeded branches *)
  Theorem unseeded_module_noop m (c : cenv K) :
    m_outs m <> [] -> (forall o, In o (m_outs m) -> c o = None) -> bwd_mod dims m c = c.
  Proof.
    intros Hne Hall. unfold bwd_mod, skip.
    assert (Hf : forallb is_none (map c (m_outs m)) = true).
    { rewrite forallb_forall. intros o Ho. apply in_map_iff in Ho as [x [<- Hx]]. rewrite (Hall x Hx). reflexivity. }
    rewrite Hf. destruct (m_outs m); [congruence | reflexivity].
  Qed.

  (* ... and this agrees (None = zero) with calling the adjoint on zero seeds: it adds something whose pairing
     with every tangent vanishes *)
  Theorem unseeded_module_zero_seed l m (c : cenv K) (t : tenv K) :
    NoDup l -> sigs_in l m -> wt_mod dims m -> wt_cot dims c -> wt_tan dims t ->
    (forall o, In o (m_outs m) -> c o = None) ->
    pairing_on l (apply_adj dims m (map c (m_outs m)) c) t = pairing_on l c t.
  Proof.
    intros Hnd [Hso Hsi] [Hwr [Hf [Ha Hadj]]] Hc Ht Hall.
    pose proof (shapes_read t (m_ins m) Ht) as Hxs.
    pose proof (fill_shapes c (m_outs m) Hc) as Hws.
    unfold apply_adj.
    destruct (add_all_pair l t Hnd (m_ins m) (m_adj m (fill dims (m_outs m) (map c (m_outs m)))) c
                           (Ha _ Hws) Hwr Hsi Hc) as [E _].
    unfold add_all in E. rewrite E. rewrite <- (Hadj _ _ Hxs Hws). rewrite <- outpair_fill.
    rewrite outpair_all_none; [ring|].
    rewrite forallb_forall. intros o Ho. apply in_map_iff in Ho as [x [<- Hx]]. rewrite (Hall x Hx). reflexivity.
  Qed.

  (* ------------------------------------------------------------------ outputs depend on source tangents only *)
  Lemma read_t_agree (t1 t2 : tenv K) r : t1 (ref_sig r) = t2 (ref_sig r) -> read_t t1 r = read_t t2 r.
  Proof. destruct r; simpl; intros ->; reflexivity. Qed.

  Lemma write_outs_agree outs : forall ys (t1 t2 : tenv K) x,
    (t1 x = t2 x \/ In x (firstn (length ys) outs)) -> write_outs outs ys t1 x = write_outs outs ys t2 x.
  Proof.
    induction outs as [|o outs IH]; intros ys t1 t2 x Hx.
    - rewrite firstn_nil in Hx. destruct Hx as [Hx|[]]. exact Hx.
    - destruct ys as [|y ys]; simpl in *; [destruct Hx as [Hx|[]]; exact Hx|].
      apply IH. destruct (Nat.eq_dec x o) as [->|Hn].
      + left. rewrite !upd_same. reflexivity.
      + destruct Hx as [Hx|[Hx|Hx]]; [left; rewrite !upd_other by exact Hn; exact Hx | congruence | right; exact Hx].
  Qed.

  Theorem fwd_sources_only (mods : list (module K)) : wf_net mods = true -> wt_net dims mods ->
    forall t1 t2 : tenv K, wt_tan dims t1 -> wt_tan dims t2 ->
    (forall x, ~ In x (written mods) -> t1 x = t2 x) -> forall x, fwd mods t1 x = fwd mods t2 x.
  Proof.
    induction mods as [|m ms IH]; intros Hwf Hw t1 t2 H1 H2 Hag x.
    - apply Hag. intros [].
    - apply wf_net_cons in Hwf as [Hnd [Hdis [Hins Hwf]]].
      inversion Hw as [|? ? Hm Hw']; subst.
      rewrite !fwd_cons. apply IH; auto using fwd_mod_wt.
      intros y Hy. unfold fwd_mod.
      assert (Hxs : map (read_t t1) (m_ins m) = map (read_t t2) (m_ins m)).
      { apply map_ext_in. intros r Hr. apply read_t_agree. apply Hag.
        change (written (m :: ms)) with (m_outs m ++ written ms). rewrite in_app_iff.
        assert (Hi : In (ref_sig r) (ins_sigs m)) by (unfold ins_sigs; apply in_map; exact Hr).
        destruct (Hins _ Hi). tauto. }
      rewrite Hxs. apply write_outs_agree.
      destruct Hm as [_ [Hf _]]. pose proof (Hf _ (shapes_read t2 (m_ins m) H2)) as Hys.
      rewrite (shapes_length _ _ Hys), map_length, firstn_all.
      destruct (in_dec Nat.eq_dec y (m_outs m)) as [Hi|Hi]; [right; exact Hi|].
      left. apply Hag. change (written (m :: ms)) with (m_outs m ++ written ms). rewrite in_app_iff. tauto.
  Qed.

  (* ------------------------------------------------------------------ nested networks *)
  Section NodeInd.
    Variable P : node K -> Prop.
    Hypothesis HM : forall m, P (NMod m).
    Hypothesis HN : forall tm l, Forall P l -> P (NNet tm l).
    Fixpoint node_induction (n : node K) : P n :=
      match n with
      | NMod m => HM m
      | NNet tm l => HN tm l ((fix go (l : list (node K)) : Forall P l :=
                           match l with
                           | [] => Forall_nil P
                           | x :: r => Forall_cons x (node_induction x) (go r)
                           end) l)
      end.
  End NodeInd.

  Lemma fwd_app a b (t : tenv K) : fwd (a ++ b) t = fwd b (fwd a t).
  Proof. unfold fwd. apply fold_left_app. Qed.
  Lemma bwd_app a b (c : cenv K) : bwd dims (a ++ b) c = bwd dims a (bwd dims b c).
  Proof. unfold bwd. rewrite rev_app_distr. apply fold_left_app. Qed.

  Theorem fwd_node_flatten n : forall t : tenv K, fwd_node n t = fwd (flatten n) t.
  Proof.
    induction n as [m|tm l IH] using node_induction; intros t; [reflexivity|].
    simpl. destruct (timed tm); unfold timefn;
      (revert t; induction IH as [|x r Hx _ IHr]; intros t; [reflexivity|]; rewrite fwd_app, <- Hx; apply IHr).
  Qed.

  Theorem bwd_node_flatten n : forall c : cenv K, bwd_node dims n c = bwd dims (flatten n) c.
  Proof.
    induction n as [m|tm l IH] using node_induction; intros c; [reflexivity|].
    simpl. destruct (timed tm); unfold timefn;
      (revert c; induction IH as [|x r Hx _ IHr]; intros c; [reflexivity|]; rewrite bwd_app, <- IHr; apply Hx).
  Qed.

  (* the print_timing options of a network tree do not influence what it computes *)
  Lemma flatten_retime f (n : node K) : flatten (retime f n) = flatten n.
  Proof.
    induction n as [m|tm l IH] using node_induction; [reflexivity|].
    simpl. induction IH as [|x r Hx _ IHr]; [reflexivity|]. rewrite Hx, IHr. reflexivity.
  Qed.

  Theorem retime_response f (n : node K) (t : tenv K) : fwd_node (retime f n) t = fwd_node n t.
  Proof. rewrite !fwd_node_flatten, flatten_retime. reflexivity. Qed.

  Theorem retime_sensitivity f (n : node K) (c : cenv K) : bwd_node dims (retime f n) c = bwd_node dims n c.
  Proof. rewrite !bwd_node_flatten, flatten_retime. reflexivity. Qed.

  (* ------------------------------------------------------------------ block-matrix modules are adjoint pairs *)
  Lemma length_mv (M : mat K) x : length (mv M x) = length M.
  Proof. apply map_length. Qed.

  Definition rows_len (n : nat) (M : mat K) : Prop := Forall (fun row => length row = n) M.

  Lemma length_mtv n (M : mat K) : rows_len n M -> forall w, length (mtv n M w) = n.
  Proof.
    induction 1 as [|row M Hr _ IH]; intros w; [apply length_vzero|].
    destruct w as [|wr w]; [apply length_vzero|].
    change (mtv n (row :: M) (wr :: w)) with (vadd (vscale wr row) (mtv n M w)).
    rewrite length_vadd; rewrite length_vscale; [exact Hr|]. rewrite Hr. symmetry. apply IH.
  Qed.

  Lemma dot_mv_mtv n (M : mat K) x : rows_len n M -> forall w, dot w (mv M x) = dot (mtv n M w) x.
  Proof.
    induction 1 as [|row M Hr HM IH]; intros w.
    - simpl. rewrite dot_nil_r. unfold mtv. simpl. rewrite dot_vzero. reflexivity.
    - destruct w as [|wr w].
      + rewrite dot_nil_l. unfold mtv. simpl. rewrite dot_vzero. reflexivity.
      + change (mv (row :: M) x) with (dot row x :: mv M x).
        change (mtv n (row :: M) (wr :: w)) with (vadd (vscale wr row) (mtv n M w)).
        rewrite dot_cons, dot_vadd, dot_vscale, IH; [reflexivity|].
        rewrite length_vscale, Hr. symmetry. apply length_mtv. exact HM.
  Qed.

  Lemma shapes_nth (ys : list (vec K)) ds k : shapes ys ds -> length (nth k ys []) = nth k ds 0.
  Proof. unfold shapes. intros <-. symmetry. apply (map_nth (@length K) ys [] k). Qed.

  Lemma add_nth_shapes k v : forall (ys : list (vec K)) ds,
    shapes ys ds -> length v = nth k ds 0 -> shapes (add_nth k v ys) ds.
  Proof.
    unfold shapes. induction k as [|k IH]; intros [|y ys] ds Hs Hv; try exact Hs.
    - destruct ds as [|d ds]; [discriminate|]. cbn [add_nth map]. cbn [map] in Hs. cbn [nth] in Hv.
      injection Hs as E1 E2. rewrite length_vadd; [rewrite E1, E2; reflexivity | rewrite E1, Hv; reflexivity].
    - destruct ds as [|d ds]; [discriminate|]. cbn [add_nth map]. cbn [map] in Hs. cbn [nth] in Hv.
      injection Hs as E1 E2. rewrite E1. f_equal. apply IH; [exact E2 | exact Hv].
  Qed.

  Lemma sumdot_nil_l (ys : list (vec K)) : sumdot [] ys = 0'.
  Proof. reflexivity. Qed.
  Lemma sumdot_cons (w y : vec K) ws ys : sumdot (w :: ws) (y :: ys) = dot w y +' sumdot ws ys.
  Proof. reflexivity. Qed.

  Lemma sumdot_comm (a b : list (vec K)) : sumdot a b = sumdot b a.
  Proof.
    revert b. induction a as [|x a IH]; intros [|y b]; try reflexivity.
    rewrite !sumdot_cons, IH, dot_comm. reflexivity.
  Qed.

  Lemma sumdot_add_nth k v : forall (ws ys : list (vec K)),
    k < length ys -> length (nth k ys []) = length v ->
    sumdot ws (add_nth k v ys) = sumdot ws ys +' dot (nth k ws []) v.
  Proof.
    induction k as [|k IH]; intros ws [|y ys] Hk Hl; simpl in Hk; try lia.
    - destruct ws as [|w ws]; simpl add_nth.
      + rewrite !sumdot_nil_l. simpl. rewrite dot_nil_l. ring.
      + rewrite !sumdot_cons. simpl nth. simpl in Hl. rewrite (dot_comm w (vadd y v)), dot_vadd by exact Hl.
        rewrite (dot_comm y w), (dot_comm v w). ring.
    - destruct ws as [|w ws]; simpl add_nth.
      + rewrite !sumdot_nil_l. simpl. rewrite dot_nil_l. ring.
      + rewrite !sumdot_cons. simpl nth. rewrite IH by (simpl in Hl; auto; lia). ring.
  Qed.

  Lemma sumdot_zeros (ws : list (vec K)) ds : sumdot ws (map vzero ds) = 0'.
  Proof.
    revert ws. induction ds as [|d ds IH]; intros [|w ws]; try reflexivity.
    simpl map. rewrite sumdot_cons, IH, dot_comm, dot_vzero. ring.
  Qed.

  Lemma shapes_zeros ds : shapes (map vzero ds : list (vec K)) ds.
  Proof. unfold shapes. rewrite map_map. rewrite <- (map_id ds) at 2. apply map_ext. intros; apply length_vzero. Qed.

  Definition blk_ok (L : lin K) (b : nat * nat * mat K) : Prop :=
    blk_o b < length (l_odims L) /\ blk_i b < length (l_idims L) /\
    length (blk_m b) = nth (blk_o b) (l_odims L) 0 /\ rows_len (nth (blk_i b) (l_idims L) 0) (blk_m b).

  Lemma lin_ok_blocks L : lin_ok L = true ->
    length (l_none L) = length (l_idims L) /\ Forall (blk_ok L) (eff_blocks L).
  Proof.
    unfold lin_ok. intros Hb. apply andb_true_iff in Hb as [H1 H2]. apply Nat.eqb_eq in H1. split; [exact H1|].
    apply Forall_forall. intros b Hb. unfold eff_blocks in Hb. apply filter_In in Hb as [Hb _].
    rewrite forallb_forall in H2. specialize (H2 b Hb).
    apply andb_true_iff in H2 as [H2 H5]. apply andb_true_iff in H2 as [H3 H4].
    apply Nat.ltb_lt in H3, H4. unfold mat_ok in H5. apply andb_true_iff in H5 as [H5 H6].
    apply Nat.eqb_eq in H5. repeat split; auto.
    apply Forall_forall. intros row Hr. rewrite forallb_forall in H6. apply Nat.eqb_eq. apply H6. exact Hr.
  Qed.

  Definition fold_fwd (xs : list (vec K)) (bl : list (nat * nat * mat K)) (ys : list (vec K)) :=
    fold_left (fun ys b => add_nth (blk_o b) (mv (blk_m b) (nth (blk_i b) xs [])) ys) bl ys.
  Definition fold_adj (L : lin K) (ws : list (vec K)) (bl : list (nat * nat * mat K)) (gs : list (vec K)) :=
    fold_left (fun gs b => add_nth (blk_i b) (mtv (nth (blk_i b) (l_idims L) 0) (blk_m b) (nth (blk_o b) ws [])) gs) bl gs.

  Lemma fold_fwd_shapes L xs bl : Forall (blk_ok L) bl -> forall ys,
    shapes ys (l_odims L) -> shapes (fold_fwd xs bl ys) (l_odims L).
  Proof.
    induction 1 as [|b bl Hb _ IH]; intros ys Hs; [exact Hs|].
    simpl. apply IH. apply add_nth_shapes; [exact Hs|].
    rewrite length_mv. destruct Hb as [_ [_ [H3 _]]]. exact H3.
  Qed.

  Lemma fold_adj_shapes L ws bl : Forall (blk_ok L) bl -> forall gs,
    shapes gs (l_idims L) -> shapes (fold_adj L ws bl gs) (l_idims L).
  Proof.
    induction 1 as [|b bl Hb _ IH]; intros gs Hs; [exact Hs|].
    simpl. apply IH. apply add_nth_shapes; [exact Hs|].
    destruct Hb as [_ [_ [_ H4]]]. apply length_mtv. exact H4.
  Qed.

  Lemma fold_adjoint L xs ws bl : Forall (blk_ok L) bl -> forall ys gs,
    shapes ys (l_odims L) -> shapes gs (l_idims L) ->
    sumdot ws (fold_fwd xs bl ys) +' sumdot gs xs = sumdot ws ys +' sumdot (fold_adj L ws bl gs) xs.
  Proof.
    induction 1 as [|b bl Hb Hbl IH]; intros ys gs Hy Hg; [simpl; ring|].
    destruct Hb as [H1 [H2 [H3 H4]]].
    set (v := mv (blk_m b) (nth (blk_i b) xs [])).
    set (g := mtv (nth (blk_i b) (l_idims L) 0) (blk_m b) (nth (blk_o b) ws [])).
    change (fold_fwd xs (b :: bl) ys) with (fold_fwd xs bl (add_nth (blk_o b) v ys)).
    change (fold_adj L ws (b :: bl) gs) with (fold_adj L ws bl (add_nth (blk_i b) g gs)).
    assert (Hy' : shapes (add_nth (blk_o b) v ys) (l_odims L)).
    { apply add_nth_shapes; [exact Hy|]. unfold v. rewrite length_mv. exact H3. }
    assert (Hg' : shapes (add_nth (blk_i b) g gs) (l_idims L)).
    { apply add_nth_shapes; [exact Hg|]. unfold g. apply length_mtv. exact H4. }
    pose proof (IH _ _ Hy' Hg') as E.
    assert (EY : sumdot ws (add_nth (blk_o b) v ys) = sumdot ws ys +' dot (nth (blk_o b) ws []) v).
    { apply sumdot_add_nth.
      - rewrite (shapes_length _ _ Hy). exact H1.
      - rewrite (shapes_nth _ _ _ Hy). unfold v. rewrite length_mv. symmetry. exact H3. }
    assert (EG : sumdot (add_nth (blk_i b) g gs) xs = sumdot gs xs +' dot (nth (blk_o b) ws []) v).
    { rewrite (sumdot_comm _ xs), sumdot_add_nth.
      - rewrite (sumdot_comm xs gs). unfold v. rewrite (dot_mv_mtv _ _ _ H4). fold g.
        rewrite (dot_comm (nth (blk_i b) xs [])). reflexivity.
      - rewrite (shapes_length _ _ Hg). exact H2.
      - rewrite (shapes_nth _ _ _ Hg). unfold g. symmetry. apply length_mtv. exact H4. }
    rewrite EY, EG in E.
    transitivity ((sumdot ws (fold_fwd xs bl (add_nth (blk_o b) v ys)) +' (sumdot gs xs +' dot (nth (blk_o b) ws []) v))
                  -' dot (nth (blk_o b) ws []) v); [ring|].
    rewrite E. ring.
  Qed.

  (* inputs for which the module returns None keep an all-zero dense sensitivity *)
  Definition flag_zero (flags : list bool) (gs : list (vec K)) : Prop :=
    Forall2 (fun (f : bool) (g : vec K) => f = true -> exists n, g = vzero n) flags gs.

  Lemma flag_zero_init flags : forall ds, length flags = length ds -> flag_zero flags (map vzero ds).
  Proof.
    induction flags as [|f flags IH]; intros [|d ds] Hl; try discriminate; [constructor|].
    simpl. constructor; [intros _; exists d; reflexivity | apply IH; simpl in Hl; lia].
  Qed.

  Lemma flag_zero_add flags gs : flag_zero flags gs -> forall k v, nth k flags false = false ->
    flag_zero flags (add_nth k v gs).
  Proof.
    induction 1 as [|f g flags gs Hfg Hrest IH]; intros k v Hk; [destruct k; constructor|].
    destruct k as [|k]; simpl in *.
    - constructor; [intros Hf; congruence | exact Hrest].
    - constructor; [exact Hfg | apply IH; exact Hk].
  Qed.

  Lemma fold_adj_flag_zero L ws bl : Forall (fun b => nth (blk_i b) (l_none L) false = false) bl ->
    forall gs, flag_zero (l_none L) gs -> flag_zero (l_none L) (fold_adj L ws bl gs).
  Proof.
    induction 1 as [|b bl Hb _ IH]; intros gs Hg; [exact Hg|].
    simpl. apply IH. apply flag_zero_add; assumption.
  Qed.

  Definition mask (flags : list bool) (gs : list (vec K)) : list (option (vec K)) :=
    map (fun fg : bool * vec K => if fst fg then None else Some (snd fg)) (combine flags gs).

  Lemma sumodot_mask flags gs : flag_zero flags gs -> forall xs, sumodot (mask flags gs) xs = sumdot gs xs.
  Proof.
    induction 1 as [|f g flags gs Hfg _ IH]; intros xs; [reflexivity|].
    destruct xs as [|x xs]; [reflexivity|].
    unfold mask, sumodot, sumdot in *. simpl. rewrite IH.
    destruct f; simpl; [|reflexivity]. destruct (Hfg eq_refl) as [n ->]. rewrite dot_vzero. reflexivity.
  Qed.

  Lemma oshapes_mask flags : forall gs ds, length flags = length ds -> shapes gs ds -> oshapes (mask flags gs) ds.
  Proof.
    unfold oshapes, shapes, mask.
    induction flags as [|f flags IH]; intros gs ds Hl Hs.
    - destruct ds; [|discriminate]. constructor.
    - destruct ds as [|d ds]; [discriminate|]. destruct gs as [|g gs]; [discriminate|].
      simpl in *. inversion Hs; subst. constructor.
      + intros g0. destruct f; [discriminate|]. intros [= <-]. reflexivity.
      + apply IH; [lia | reflexivity].
  Qed.

  Lemma eff_blocks_unflagged (L : lin K) : Forall (fun b => nth (blk_i b) (l_none L) false = false) (eff_blocks L).
  Proof.
    apply Forall_forall. intros b Hb. unfold eff_blocks in Hb. apply filter_In in Hb as [_ Hb].
    apply negb_true_iff in Hb. exact Hb.
  Qed.

  Lemma list_eqb_nat_eq a : forall b, list_eqb_nat a b = true -> a = b.
  Proof.
    induction a as [|x a IH]; intros [|y b] Hb; simpl in Hb; try discriminate; [reflexivity|].
    apply andb_true_iff in Hb as [H1 H2]. apply Nat.eqb_eq in H1. subst. f_equal. apply IH. exact H2.
  Qed.

  Theorem linmod_wt ins outs L : linmod_ok dims ins outs L = true -> wt_mod dims (linmod ins outs L).
  Proof.
    unfold linmod_ok. intros Hb.
    apply andb_true_iff in Hb as [Hb Ho]. apply andb_true_iff in Hb as [Hb Hi]. apply andb_true_iff in Hb as [Hok Hr].
    apply list_eqb_nat_eq in Hi, Ho. destruct (lin_ok_blocks L Hok) as [Hlen Hbl].
    unfold wt_mod. simpl. rewrite <- Hi, <- Ho.
    split; [exact Hr|]. split; [|split].
    - intros xs _. apply fold_fwd_shapes; [exact Hbl | apply shapes_zeros].
    - intros ws _. apply oshapes_mask; [exact Hlen|].
      apply fold_adj_shapes; [exact Hbl | apply shapes_zeros].
    - intros xs ws _ _. unfold lin_adj.
      fold (mask (l_none L) (lin_adj_dense L ws)).
      rewrite sumodot_mask.
      + pose proof (fold_adjoint L xs ws (eff_blocks L) Hbl (map vzero (l_odims L)) (map vzero (l_idims L))
                                 (shapes_zeros _) (shapes_zeros _)) as E.
        rewrite sumdot_zeros in E. rewrite (sumdot_comm (map vzero (l_idims L)) xs), sumdot_zeros in E.
        unfold lin_fwd, lin_adj_dense. unfold fold_fwd, fold_adj in E.
        transitivity (sumdot ws (fold_left (fun ys b => add_nth (blk_o b) (mv (blk_m b) (nth (blk_i b) xs [])) ys)
                                           (eff_blocks L) (map vzero (l_odims L))) +' 0'); [ring|].
        rewrite E. ring.
      + apply fold_adj_flag_zero; [apply eff_blocks_unflagged | apply flag_zero_init; exact Hlen].
  Qed.

  (* ------------------------------------------------------------------ networks described by data *)
  Section StreeInd.
    Variable P : stree K -> Prop.
    Hypothesis HM : forall ins outs L, P (SMod ins outs L).
    Hypothesis HN : forall tm l, Forall P l -> P (SNet tm l).
    Fixpoint stree_induction (s : stree K) : P s :=
      match s with
      | SMod ins outs L => HM ins outs L
      | SNet tm l => HN tm l ((fix go (l : list (stree K)) : Forall P l :=
                           match l with
                           | [] => Forall_nil P
                           | x :: r => Forall_cons x (stree_induction x) (go r)
                           end) l)
      end.
  End StreeInd.

  Lemma specs_ok_wt s : specs_ok dims s = true -> wt_net dims (flatten (to_node s)).
  Proof.
    induction s as [ins outs L|tm l IH] using stree_induction; intros Hok.
    - simpl. constructor; [apply linmod_wt; exact Hok | constructor].
    - simpl in *. induction IH as [|x r Hx _ IHr]; [constructor|].
      apply andb_true_iff in Hok as [H1 H2].
      apply Forall_app. split; [apply Hx; exact H1 | apply IHr; exact H2].
  Qed.

  Theorem described_network_adjoint N s (c : cenv K) (t : tenv K) :
    net_ok N dims s = true -> wt_cot dims c -> wt_tan dims t ->
    pairing_on (seq 0 N) c (fwd_node (to_node s) t)
    = pairing_on (sources N (flatten (to_node s))) (bwd_node dims (to_node s) c) t.
  Proof.
    unfold net_ok. intros Hok Hc Ht.
    apply andb_true_iff in Hok as [Hok H3]. apply andb_true_iff in Hok as [H1 H2].
    rewrite fwd_node_flatten, bwd_node_flatten.
    apply backprop_adjoint; auto. apply specs_ok_wt. exact H3.
  Qed.
End NetProofs.

(* the integers are an instance *)
Lemma Zring_theory : ring_theory (@nzero Z NumZ) none_ nadd nmul nsub nopp (@eq Z).
Proof. exact Zth. Qed.

Lemma repeated_position_counterexample :
  exists (mods : list (module Z)) (c : cenv Z) (t : tenv Z),
    wf_net mods = true /\ below 2 mods = true /\
    pairing_on (seq 0 2) c (fwd mods t) <> pairing_on (sources 2 mods) (bwd (dims_of [1; 2]) mods c) t.
Proof.
  exists bad_repeat, (cenv_of [None; Some [1; 1]%Z]), (env_of [[1]%Z; []]).
  split; [reflexivity|]. split; [reflexivity|]. vm_compute. discriminate.
Qed.

Lemma copying_slice_counterexample :
  exists (mods : list (module Z)) (c : cenv Z) (t : tenv Z),
    wf_net mods = true /\ below 2 mods = true /\
    pairing_on (seq 0 2) c (fwd mods t) <> pairing_on (sources 2 mods) (bwd (dims_of [4; 2]) mods c) t.
Proof.
  exists bad_lost, (cenv_of [None; Some [1; 1]%Z]), (env_of [[1; 1; 1; 1]%Z; []]).
  split; [reflexivity|]. split; [reflexivity|]. vm_compute. discriminate.
Qed.

Lemma cenv_of_wt dims (l : list (option (list Z))) :
  forallb (fun p => match snd p with None => true | Some g => Nat.eqb (length g) (dims (fst p)) end)
          (combine (seq 0 (length l)) l) = true ->
  wt_cot dims (cenv_of l).
Proof.
  intros Hb s g Hs. unfold cenv_of in Hs.
  destruct (Nat.lt_ge_cases s (length l)) as [Hlt|Hge].
  - rewrite forallb_forall in Hb.
    assert (Hin : In (s, nth s l None) (combine (seq 0 (length l)) l)).
    { replace (s, nth s l None) with (nth s (combine (seq 0 (length l)) l) (0, None)).
      - apply nth_In. rewrite combine_length, seq_length. lia.
      - rewrite combine_nth by apply seq_length. rewrite seq_nth by exact Hlt. reflexivity. }
    specialize (Hb _ Hin). simpl in Hb. rewrite Hs in Hb. apply Nat.eqb_eq. exact Hb.
  - rewrite nth_overflow in Hs by exact Hge. discriminate.
Qed.

Lemma diamond_facts :
  net_ok 8 (dims_of diamond_dims) diamond = true /\
  wt_cot (dims_of diamond_dims) (cenv_of diamond_seeds) /\
  show_c 8 (bwd_node (dims_of diamond_dims) (to_node diamond) (cenv_of diamond_seeds)) = diamond_expected /\
  sources 8 (flatten (to_node diamond)) = [0; 1].
Proof.
  split; [vm_compute; reflexivity|]. split; [apply cenv_of_wt; vm_compute; reflexivity|].
  split; vm_compute; reflexivity.
Qed.
