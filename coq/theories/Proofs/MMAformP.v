(* C10 -- theorems about Model/MMAform.v over the reals. *)
From Coq Require Import ZArith String List Bool Reals Lra Lia.
From Coquelicot Require Import Coquelicot.
From Pymoto Require Import Base.Num Base.MMANum Model.MMAform.
Import ListNotations.
Open Scope R_scope.

Ltac ops := unfold nadd, nmul, nsub, ndiv, nopp, nofZ, nzero, none_, nmax, nmin, nabs, nltb, nleb; cbn [NumR NumOrdR].
Ltac unf :=
  unfold alfa_of, beta_of, low_of, upp_of, P_of, Q_of, alfa_c, beta_c, low_c, upp_c, shift_c, dx_c, dx2_c, dg_plus_c,
    dg_min_c, P87_c, Q87_c, P07_c, Q07_c, offset_adapt_c, offset_init_c, clip, sq, dec in *; ops.
Ltac mm := unfold Rmax, Rmin in *;
  repeat (match goal with |- context [Rle_dec ?a ?b] =>
            lazymatch a with context [Rle_dec] => fail | _ =>
            lazymatch b with context [Rle_dec] => fail | _ => destruct (Rle_dec a b) end end end).

(* ------------------------------------------------------------------ box, move limit, asymptotes *)
Section Comp.
  Variables albefa move xval xmin xmax offset : R.
  Hypothesis Hx : xmin <= xval <= xmax.
  Hypothesis Hd : xmin < xmax.
  Hypothesis Hm : 0 < move.
  Hypothesis Ha : 0 < albefa < 1.
  Hypothesis Ho : 0 < offset.

  Let alfa := alfa_of albefa move xval xmin xmax offset.
  Let beta := beta_of albefa move xval xmin xmax offset.
  Let low := low_of xval xmin xmax offset.
  Let upp := upp_of xval xmin xmax offset.

  Lemma pos_shift : 0 < offset * (xmax - xmin).
  Proof. apply Rmult_lt_0_compat; lra. Qed.
  Lemma pos_move : 0 < move * (xmax - xmin).
  Proof. apply Rmult_lt_0_compat; lra. Qed.
  Lemma pos_ashift : 0 < albefa * (offset * (xmax - xmin)) < offset * (xmax - xmin).
  Proof. pose proof pos_shift as S. split; [apply Rmult_lt_0_compat; lra | nra]. Qed.

  Lemma box : xmin <= alfa <= xval /\ xval <= beta <= xmax.
  Proof.
    pose proof pos_shift as S. pose proof pos_move as M. pose proof pos_ashift as AS.
    subst alfa beta. unf. mm; lra.
  Qed.

  Lemma move_limit : xval - move * (xmax - xmin) <= alfa /\ beta <= xval + move * (xmax - xmin).
  Proof.
    pose proof pos_shift as S. pose proof pos_move as M. pose proof pos_ashift as AS.
    subst alfa beta. unf. mm; lra.
  Qed.

  Lemma asymptotes_enclose : low < alfa /\ beta < upp.
  Proof.
    pose proof pos_shift as S. pose proof pos_move as M. pose proof pos_ashift as AS.
    subst alfa beta low upp. unf. mm; lra.
  Qed.

  (* the asymptotes are placed symmetrically at distance offset*(xmax-xmin) *)
  Lemma asymptote_distance : xval - low = offset * (xmax - xmin) /\ upp - xval = offset * (xmax - xmin).
  Proof. subst low upp. unf. lra. Qed.

  Lemma alfa_lt_beta : alfa < beta.
  Proof.
    pose proof pos_shift as S. pose proof pos_move as M. pose proof pos_ashift as AS.
    subst alfa beta. unf. mm; lra.
  Qed.

  (* alfa = xval only at the lower bound; beta = xval only at the upper bound *)
  Lemma alfa_strict : xmin < xval -> alfa < xval.
  Proof.
    pose proof pos_shift as S. pose proof pos_move as M. pose proof pos_ashift as AS.
    intros. subst alfa. unf. mm; lra.
  Qed.
  Lemma beta_strict : xval < xmax -> xval < beta.
  Proof.
    pose proof pos_shift as S. pose proof pos_move as M. pose proof pos_ashift as AS.
    intros. subst beta. unf. mm; lra.
  Qed.

  (* any point of [alfa, beta] -- in particular the subproblem solution -- respects box and move limit *)
  Lemma iterate_ok x : alfa <= x <= beta -> xmin <= x <= xmax /\ Rabs (x - xval) <= move * (xmax - xmin).
  Proof.
    intros Hxx. pose proof box as B. pose proof move_limit as ML.
    split; [lra|]. apply Rabs_le. lra.
  Qed.
End Comp.

(* ------------------------------------------------------------------ asymptote adaptation *)
Lemma clip_bounds x lo hi : Rmin lo hi <= clip x lo hi <= hi.
Proof. unfold clip; ops. mm; lra. Qed.
Lemma clip_bounds' x lo hi : lo <= hi -> lo <= clip x lo hi <= hi.
Proof. intros. unfold clip; ops. mm; lra. Qed.

Lemma inv_sq_pos a : 0 < a -> 0 < 1 / (a * a).
Proof. intros. apply Rdiv_lt_0_compat; [lra | apply Rmult_lt_0_compat; lra]. Qed.

Lemma offset_adapt_clamped incr decr bound xval x1 x2 o : 0 < bound ->
  let o' := offset_adapt_c incr decr bound xval x1 x2 o in
  0 < o' /\ o' <= bound /\ Rmin (1 / (bound * bound)) bound <= o' /\ (1 <= bound -> 1 / (bound * bound) <= o').
Proof.
  intros Hb o'. subst o'. unfold offset_adapt_c. cbv zeta.
  match goal with |- context [clip ?x ?lo ?hi] => pose proof (clip_bounds x lo hi) as C; pose proof (clip_bounds' x lo hi) as C' end.
  revert C C'. unfold sq; ops. intros C C'.
  pose proof (inv_sq_pos bound Hb) as P.
  assert (0 < Rmin (1 / (bound * bound)) bound) by (unfold Rmin; destruct Rle_dec; lra).
  repeat split; try lra.
  intros H1. apply C'.
  assert (1 <= bound * bound) by nra.
  apply Rle_trans with 1; [|lra].
  unfold Rdiv. rewrite Rmult_1_l. rewrite <- Rinv_1. apply Rinv_le_contravar; lra.
Qed.

(* the factor applied before clamping: asyincr when the variable keeps its direction, asydecr when it oscillates *)
Lemma offset_adapt_cases incr decr bound xval x1 x2 o :
  let z := (xval - x1) * (x1 - x2) in
  offset_adapt_c incr decr bound xval x1 x2 o =
  clip (if Rlt_dec 0 z then o * incr else if Rlt_dec z 0 then o * decr else o) (1 / (bound * bound)) bound.
Proof.
  cbv zeta. unfold offset_adapt_c, sq; ops. unfold Rltb.
  destruct (Rlt_dec 0 _) as [a|a]; destruct (Rlt_dec _ 0) as [b|b]; try reflexivity; lra.
Qed.

Lemma offset_step_pos (p : asypar R) xval x1 x2 o :
  0 < asyinit p -> 0 < asybound p -> (forall v, o = Some v -> 0 < v) ->
  0 < offset_step p xval x1 x2 o.
Proof.
  intros Hi Hb Ho. unfold offset_step.
  assert (0 < match o with Some o0 => o0 | None => offset_init_c (asyinit p) end) as Hpos.
  { destruct o as [v|]; [apply Ho; reflexivity | unfold offset_init_c; ops; lra]. }
  destruct x1 as [a|]; [destruct x2 as [b|]|]; try exact Hpos.
  apply (offset_adapt_clamped (asyincr p) (asydecr p) (asybound p) xval a b _ Hb).
Qed.

(* ------------------------------------------------------------------ approximation: coefficients *)
Section Coef.
  Variables xmin xmax offset dg : R.
  Hypothesis Hd : xmin < xmax.
  Hypothesis Ho : 0 < offset.
  Let sh := offset * (xmax - xmin).

  Lemma sh_pos : 0 < sh.
  Proof. subst sh. apply Rmult_lt_0_compat; lra. Qed.

  Lemma coef_nonneg v : 0 <= P_of v xmin xmax offset dg /\ 0 <= Q_of v xmin xmax offset dg.
  Proof.
    pose proof sh_pos as S. fold sh.
    assert (0 < sh * sh) by (apply Rmult_lt_0_compat; lra).
    assert (0 <= Rmax dg 0) by apply Rmax_r. assert (0 <= Rmax (- dg) 0) by apply Rmax_r.
    assert (0 < 1 / 100000 / (xmax - xmin)) by (apply Rdiv_lt_0_compat; lra).
    destruct v; unf; fold sh; split; apply Rmult_le_pos; lra.
  Qed.

  (* Svanberg2007 makes both coefficients strictly positive (strict convexity of every term) *)
  Lemma coef_pos_2007 : 0 < P_of V2007 xmin xmax offset dg /\ 0 < Q_of V2007 xmin xmax offset dg.
  Proof.
    pose proof sh_pos as S. fold sh.
    assert (0 < sh * sh) by (apply Rmult_lt_0_compat; lra).
    assert (0 <= Rmax dg 0) by apply Rmax_r. assert (0 <= Rmax (- dg) 0) by apply Rmax_r.
    assert (0 < 1 / 100000 / (xmax - xmin)) by (apply Rdiv_lt_0_compat; lra).
    unf; fold sh; split; apply Rmult_lt_0_compat; lra.
  Qed.

  (* p - q = shift^2 * dg : the exact algebraic form of "the gradient is reproduced" *)
  Lemma coef_difference v : P_of v xmin xmax offset dg - Q_of v xmin xmax offset dg = sh * sh * dg.
  Proof.
    assert (Rmax dg 0 - Rmax (- dg) 0 = dg) as E by (unfold Rmax; repeat destruct Rle_dec; lra).
    destruct v; unf; fold sh.
    - rewrite <- E at 3. ring.
    - rewrite <- E at 5. field. lra.
  Qed.
End Coef.

(* derivative of one term p/(u-x) + q/(x-l) *)
Lemma approx_term_derive p q u l x : l < x < u ->
  is_derive (fun t => approx_term p q u l t) x (p / ((u - x) * (u - x)) - q / ((x - l) * (x - l))).
Proof.
  intros Hx. unfold approx_term; ops.
  auto_derive; [split; [lra | split; [lra | exact I]] | field; lra].
Qed.

(* second derivative, non-negative between the asymptotes when p, q >= 0 : every term is convex *)
Lemma approx_term_derive2 p q u l x : l < x < u ->
  is_derive (fun t => p / ((u - t) * (u - t)) - q / ((t - l) * (t - l))) x
            (2 * p / ((u - x) * (u - x) * (u - x)) + 2 * q / ((x - l) * (x - l) * (x - l))).
Proof.
  intros Hx. auto_derive; [repeat split; try lra; nra | field; lra].
Qed.

Lemma approx_term_convex p q u l x : l < x < u -> 0 <= p -> 0 <= q ->
  0 <= 2 * p / ((u - x) * (u - x) * (u - x)) + 2 * q / ((x - l) * (x - l) * (x - l)).
Proof.
  intros Hx Hp Hq.
  assert (0 < (u - x) * (u - x) * (u - x)) by (repeat apply Rmult_lt_0_compat; lra).
  assert (0 < (x - l) * (x - l) * (x - l)) by (repeat apply Rmult_lt_0_compat; lra).
  assert (0 <= 2 * p / ((u - x) * (u - x) * (u - x))) by (apply Rmult_le_pos; [lra | left; apply Rinv_0_lt_compat; lra]).
  assert (0 <= 2 * q / ((x - l) * (x - l) * (x - l))) by (apply Rmult_le_pos; [lra | left; apply Rinv_0_lt_compat; lra]).
  lra.
Qed.

(* the gradient of the approximation at xval is dg (both versions) *)
Lemma approx_gradient v xval xmin xmax offset dg : xmin < xmax -> 0 < offset ->
  is_derive (fun t => approx_term (P_of v xmin xmax offset dg) (Q_of v xmin xmax offset dg)
                                  (upp_of xval xmin xmax offset) (low_of xval xmin xmax offset) t) xval dg.
Proof.
  intros Hd Ho.
  pose proof (sh_pos xmin xmax offset Hd Ho) as S.
  pose proof (coef_difference xmin xmax offset dg Hd v) as E.
  set (p := P_of v xmin xmax offset dg) in *. set (q := Q_of v xmin xmax offset dg) in *.
  assert (low_of xval xmin xmax offset < xval < upp_of xval xmin xmax offset) as Hx by (unf; lra).
  pose proof (approx_term_derive p q _ _ xval Hx) as Dv.
  replace dg with (p / ((upp_of xval xmin xmax offset - xval) * (upp_of xval xmin xmax offset - xval)) -
                   q / ((xval - low_of xval xmin xmax offset) * (xval - low_of xval xmin xmax offset))); [exact Dv|].
  replace (upp_of xval xmin xmax offset - xval) with (offset * (xmax - xmin)) by (unf; lra).
  replace (xval - low_of xval xmin xmax offset) with (offset * (xmax - xmin)) by (unf; lra).
  replace (p / _ - q / _) with ((p - q) / (offset * (xmax - xmin) * (offset * (xmax - xmin)))) by (field; lra).
  rewrite E. field. lra.
Qed.

(* ------------------------------------------------------------------ approximation: value *)
Lemma dot_cons (a b : R) (A B : list R) : dot (a :: A) (b :: B) = a * b + dot A B.
Proof. reflexivity. Qed.

(* sum_j p_j/(upp_j - xval_j) + q_j/(xval_j - low_j) - b_i = g_i  with  b_i = rhs_i  (any coefficients p, q) *)
Lemma approx_value_gen : forall (sh Prow Qrow xval : list R) (g : R),
  length sh = length xval -> length Prow = length xval -> length Qrow = length xval ->
  List.Forall (fun s => s <> 0) sh ->
  approx Prow Qrow (vmap2 Rplus xval sh) (vmap2 Rminus xval sh) xval - rhs_row sh Prow Qrow g = g.
Proof.
  intros sh Prow Qrow xval g H1 H2 H3 Hs.
  enough (approx Prow Qrow (vmap2 Rplus xval sh) (vmap2 Rminus xval sh) xval =
          dot Prow (map (fun s => 1 / s) sh) + dot Qrow (map (fun s => 1 / s) sh)) as E.
  { unfold rhs_row; ops. change (IZR 1) with 1. rewrite E. ring. }
  revert Prow Qrow xval H1 H2 H3. induction Hs as [|s sh Hs0 Hs IH]; intros Prow Qrow xval H1 H2 H3.
  - destruct xval; [|discriminate]. destruct Prow; [|discriminate]. destruct Qrow; [|discriminate]. cbn. unfold dot; cbn. lra.
  - destruct xval as [|x xval]; [discriminate|]. destruct Prow as [|p Prow]; [discriminate|].
    destruct Qrow as [|q Qrow]; [discriminate|].
    cbn [map]. rewrite !dot_cons. unfold vmap2 in *. cbn [combine map fst snd approx].
    rewrite IH by (cbn in *; lia). unfold approx_term; ops. field. exact Hs0.
Qed.

(* ------------------------------------------------------------------ list helpers *)
Lemma length_vmap2 (f : R -> R -> R) a b : length a = length b -> length (vmap2 f a b) = length a.
Proof. intros E. unfold vmap2. rewrite map_length, combine_length, E. apply Nat.min_id. Qed.

Lemma nthK_vmap2 (f : R -> R -> R) a b j : (j < length a)%nat -> length a = length b ->
  nthK (vmap2 f a b) j = f (nthK a j) (nthK b j).
Proof.
  intros Hj E. unfold nthK, vmap2.
  rewrite (nth_indep _ nzero (f nzero nzero)) by (rewrite map_length, combine_length, <- E, Nat.min_id; exact Hj).
  change (f nzero nzero) with ((fun p : R * R => f (fst p) (snd p)) (nzero, nzero)).
  rewrite map_nth, combine_nth by exact E. reflexivity.
Qed.

Lemma nthK_map (f : R -> R) a j : (j < length a)%nat -> nthK (map f a) j = f (nthK a j).
Proof.
  intros Hj. unfold nthK. rewrite (nth_indep _ nzero (f nzero)) by (rewrite map_length; exact Hj).
  apply map_nth.
Qed.

Lemma nthK_map_seq (f : nat -> R) n j : (j < n)%nat -> nthK (map f (seq 0 n)) j = f j.
Proof.
  intros Hj. unfold nthK. rewrite (nth_indep _ nzero (f 0%nat)) by (rewrite map_length, seq_length; exact Hj).
  rewrite map_nth, seq_nth by exact Hj. reflexivity.
Qed.

Lemma map_seq_vmap2 (f : R -> R -> R) a b : length a = length b ->
  map (fun j => f (nthK a j) (nthK b j)) (seq 0 (length a)) = vmap2 f a b.
Proof.
  intros E. apply (nth_ext _ _ nzero nzero).
  - rewrite map_length, seq_length, length_vmap2; auto.
  - intros j Hj. rewrite map_length, seq_length in Hj.
    fold (nthK (map (fun j0 : nat => f (nthK a j0) (nthK b j0)) (seq 0 (length a))) j). fold (nthK (vmap2 f a b) j).
    rewrite nthK_map_seq, nthK_vmap2; auto.
Qed.

Lemma fold_min_le t : forall a, fold_left Rmin t a <= a /\ (forall x, In x t -> fold_left Rmin t a <= x).
Proof.
  induction t as [|y t IH]; intros a; cbn.
  - split; [lra | intros x []].
  - destruct (IH (Rmin a y)) as [I1 I2]. pose proof (Rmin_l a y). pose proof (Rmin_r a y).
    split; [lra|]. intros x [-> | Hx]; [lra | apply I2, Hx].
Qed.
Lemma lmin_le (l : list R) x : In x l -> lmin l <= x.
Proof.
  destruct l as [|a t]; [intros []|]. unfold lmin. change (@nmin R NumOrdR) with Rmin.
  destruct (fold_min_le t a) as [I1 I2]. intros [<- | Hx]; [exact I1 | apply I2, Hx].
Qed.
Lemma fold_max_ge t : forall a, a <= fold_left Rmax t a /\ (forall x, In x t -> x <= fold_left Rmax t a).
Proof.
  induction t as [|y t IH]; intros a; cbn.
  - split; [lra | intros x []].
  - destruct (IH (Rmax a y)) as [I1 I2]. pose proof (Rmax_l a y). pose proof (Rmax_r a y).
    split; [lra|]. intros x [-> | Hx]; [lra | apply I2, Hx].
Qed.
Lemma lmax_ge (l : list R) x : In x l -> x <= lmax l.
Proof.
  destruct l as [|a t]; [intros []|]. unfold lmax. change (@nmax R NumOrdR) with Rmax.
  destruct (fold_max_ge t a) as [I1 I2]. intros [<- | Hx]; [exact I1 | apply I2, Hx].
Qed.

Lemma nthK_In (l : list R) j : (j < length l)%nat -> In (nthK l j) l.
Proof. intros. unfold nthK. apply nth_In. assumption. Qed.

Lemma nthL_map (f : list R -> list R) (l : list (list R)) i : (i < length l)%nat -> nthL (map f l) i = f (nthL l i).
Proof.
  intros Hi. unfold nthL. rewrite (nth_indep _ [] (f [])) by (rewrite map_length; exact Hi). apply map_nth.
Qed.

Lemma nth_skipn_R (k : nat) : forall (l : list R) i d, nth i (skipn k l) d = nth (k + i) l d.
Proof.
  induction k as [|k IH]; intros l i d0; [reflexivity|].
  destruct l as [|a l]; [destruct i; reflexivity|]. cbn. apply IH.
Qed.

(* ------------------------------------------------------------------ vector form of the mmasub theorems *)
Section Vec.
  Variable p : asypar R.
  Variable v : version.
  Variables xval xmin xmax move : list R.
  Variables xold1 xold2 offset : option (list R).
  Variable g : list R.
  Variable dg : list (list R).
  Local Notation n := (length xval).
  Local Notation out := (mmasub_vec p v xval xmin xmax move xold1 xold2 offset g dg).

  Hypothesis Hbox : forall j, (j < n)%nat -> nthK xmin j <= nthK xval j <= nthK xmax j /\ nthK xmin j < nthK xmax j.
  Hypothesis Hmove : forall j, (j < n)%nat -> 0 < nthK move j.
  Hypothesis Halbefa : 0 < albefa p < 1.
  Hypothesis Hinit : 0 < asyinit p.
  Hypothesis Hbound : 0 < asybound p.
  Hypothesis Hoff : forall o j, offset = Some o -> (j < n)%nat -> 0 < nthK o j.

  Lemma out_offset j : (j < n)%nat ->
    nthK (o_offset out) j = offset_step p (nthK xval j) (optnth xold1 j) (optnth xold2 j) (optnth offset j).
  Proof. intros Hj. unfold mmasub_vec. cbn [o_offset]. rewrite nthK_map_seq by exact Hj. reflexivity. Qed.

  Lemma out_offset_pos j : (j < n)%nat -> 0 < nthK (o_offset out) j.
  Proof.
    intros Hj. rewrite out_offset by exact Hj. apply offset_step_pos; auto.
    intros w Hw. destruct offset as [o|]; [|discriminate]. cbn in Hw. injection Hw as <-. apply (Hoff o j eq_refl Hj).
  Qed.

  Lemma out_alfa j : (j < n)%nat ->
    nthK (o_alfa out) j = alfa_of (albefa p) (nthK move j) (nthK xval j) (nthK xmin j) (nthK xmax j) (nthK (o_offset out) j).
  Proof. intros Hj. unfold mmasub_vec. cbn [o_alfa o_offset]. rewrite nthK_map_seq by exact Hj. reflexivity. Qed.
  Lemma out_beta j : (j < n)%nat ->
    nthK (o_beta out) j = beta_of (albefa p) (nthK move j) (nthK xval j) (nthK xmin j) (nthK xmax j) (nthK (o_offset out) j).
  Proof. intros Hj. unfold mmasub_vec. cbn [o_beta o_offset]. rewrite nthK_map_seq by exact Hj. reflexivity. Qed.
  Lemma out_low j : (j < n)%nat ->
    nthK (o_low out) j = low_of (nthK xval j) (nthK xmin j) (nthK xmax j) (nthK (o_offset out) j).
  Proof. intros Hj. unfold mmasub_vec. cbn [o_low o_offset]. rewrite nthK_map_seq by exact Hj. reflexivity. Qed.
  Lemma out_upp j : (j < n)%nat ->
    nthK (o_upp out) j = upp_of (nthK xval j) (nthK xmin j) (nthK xmax j) (nthK (o_offset out) j).
  Proof. intros Hj. unfold mmasub_vec. cbn [o_upp o_offset]. rewrite nthK_map_seq by exact Hj. reflexivity. Qed.

  Lemma out_lengths : length (o_offset out) = n /\ length (o_low out) = n /\ length (o_upp out) = n /\
                      length (o_alfa out) = n /\ length (o_beta out) = n /\
                      length (o_P out) = length dg /\ length (o_Q out) = length dg /\ length (o_b out) = (length dg - 1)%nat.
  Proof.
    unfold mmasub_vec, b_of_rhs. cbn [o_offset o_low o_upp o_alfa o_beta o_P o_Q o_b].
    rewrite skipn_length. repeat rewrite map_length. repeat rewrite seq_length. repeat split; reflexivity.
  Qed.

  (* C10_box / C10_move / C10_asymptotes_enclose for every component of the vectors handed to subsolv *)
  Theorem vec_box_move_asymptotes j : (j < n)%nat ->
    let a := nthK (o_alfa out) j in let b := nthK (o_beta out) j in
    let l := nthK (o_low out) j in let u := nthK (o_upp out) j in
    (nthK xmin j <= a <= nthK xval j /\ nthK xval j <= b <= nthK xmax j) /\
    (nthK xval j - nthK move j * (nthK xmax j - nthK xmin j) <= a /\
     b <= nthK xval j + nthK move j * (nthK xmax j - nthK xmin j)) /\
    (l < a /\ b < u) /\ a < b.
  Proof.
    intros Hj. cbv zeta. rewrite out_alfa, out_beta, out_low, out_upp by exact Hj.
    destruct (Hbox j Hj) as [B1 B2]. pose proof (Hmove j Hj) as M. pose proof (out_offset_pos j Hj) as O.
    repeat split;
      first [ apply box | apply move_limit | apply asymptotes_enclose | apply alfa_lt_beta ]; auto.
  Qed.

  (* the shifts offset_j * (xmax_j - xmin_j) used by this call *)
  Definition vshift := map (fun j => shift_c (nthK (o_offset out) j) (dx_c (nthK xmin j) (nthK xmax j))) (seq 0 n).
  Notation sh := vshift.

  Lemma sh_nth j : (j < n)%nat -> nthK sh j = nthK (o_offset out) j * (nthK xmax j - nthK xmin j).
  Proof. intros Hj. unfold vshift. rewrite nthK_map_seq by exact Hj. reflexivity. Qed.
  Lemma sh_length : length sh = n.
  Proof. unfold vshift. rewrite map_length, seq_length. reflexivity. Qed.
  Lemma sh_nonzero : List.Forall (fun s => s <> 0) sh.
  Proof.
    apply Forall_forall. intros s Hs. apply (In_nth _ _ nzero) in Hs as [j [Hj <-]]. rewrite sh_length in Hj.
    fold (nthK sh j). rewrite sh_nth by exact Hj.
    destruct (Hbox j Hj) as [_ B]. pose proof (out_offset_pos j Hj) as O.
    assert (0 < nthK (o_offset out) j * (nthK xmax j - nthK xmin j)) by (apply Rmult_lt_0_compat; lra). lra.
  Qed.

  Lemma out_upp_vec : o_upp out = vmap2 Rplus xval sh.
  Proof.
    rewrite <- map_seq_vmap2 by (rewrite sh_length; reflexivity).
    unfold mmasub_vec at 1. cbn [o_upp]. apply map_ext_in. intros j Hj. apply in_seq in Hj.
    rewrite sh_nth by lia. unfold upp_of, upp_c, shift_c, dx_c; ops.
    unfold mmasub_vec. cbn [o_offset]. reflexivity.
  Qed.
  Lemma out_low_vec : o_low out = vmap2 Rminus xval sh.
  Proof.
    rewrite <- map_seq_vmap2 by (rewrite sh_length; reflexivity).
    unfold mmasub_vec at 1. cbn [o_low]. apply map_ext_in. intros j Hj. apply in_seq in Hj.
    rewrite sh_nth by lia. unfold low_of, low_c, shift_c, dx_c; ops.
    unfold mmasub_vec. cbn [o_offset]. reflexivity.
  Qed.

  Lemma out_P_row i : (i < length dg)%nat ->
    nthL (o_P out) i = map (fun j => P_of v (nthK xmin j) (nthK xmax j) (nthK (o_offset out) j) (nthK (nthL dg i) j)) (seq 0 n).
  Proof.
    intros Hi. unfold mmasub_vec. cbn [o_P o_offset]. rewrite nthL_map by exact Hi. reflexivity.
  Qed.
  Lemma out_Q_row i : (i < length dg)%nat ->
    nthL (o_Q out) i = map (fun j => Q_of v (nthK xmin j) (nthK xmax j) (nthK (o_offset out) j) (nthK (nthL dg i) j)) (seq 0 n).
  Proof.
    intros Hi. unfold mmasub_vec. cbn [o_Q o_offset]. rewrite nthL_map by exact Hi. reflexivity.
  Qed.

  Lemma out_b i : (S i < length dg)%nat ->
    nthK (o_b out) i = rhs_row sh (nthL (o_P out) (S i)) (nthL (o_Q out) (S i)) (nthK g (S i)).
  Proof.
    intros Hi. unfold vshift. unfold mmasub_vec, b_of_rhs. cbn [o_b o_P o_Q o_offset].
    unfold nthK at 1. rewrite nth_skipn_R.
    match goal with |- nth ?k ?l _ = _ => change (nth k l nzero) with (nthK l k) end.
    rewrite nthK_map_seq by lia. reflexivity.
  Qed.

  (* C10_approx_value: constraint i (row i+1 of P, Q, g) -- the approximation handed to subsolv takes the value
     g_(i+1) at xval *)
  Theorem vec_approx_value i : (S i < length dg)%nat ->
    approx (nthL (o_P out) (S i)) (nthL (o_Q out) (S i)) (o_upp out) (o_low out) xval - nthK (o_b out) i = nthK g (S i).
  Proof.
    intros Hi. rewrite out_b by exact Hi. rewrite out_upp_vec, out_low_vec.
    apply approx_value_gen.
    - apply sh_length.
    - rewrite out_P_row by lia. rewrite map_length, seq_length. reflexivity.
    - rewrite out_Q_row by lia. rewrite map_length, seq_length. reflexivity.
    - apply sh_nonzero.
  Qed.

  (* C10_approx_gradient / C10_approx_convex for every entry (response i, variable j) of the matrices handed to subsolv *)
  Theorem vec_approx_gradient i j : (i < length dg)%nat -> (j < n)%nat ->
    let pij := nthK (nthL (o_P out) i) j in let qij := nthK (nthL (o_Q out) i) j in
    is_derive (fun t => approx_term pij qij (nthK (o_upp out) j) (nthK (o_low out) j) t) (nthK xval j) (nthK (nthL dg i) j)
    /\ 0 <= pij /\ 0 <= qij /\ (v = V2007 -> 0 < pij /\ 0 < qij).
  Proof.
    intros Hi Hj. cbv zeta. rewrite out_P_row, out_Q_row by exact Hi. rewrite !nthK_map_seq by exact Hj.
    rewrite out_upp, out_low by exact Hj.
    destruct (Hbox j Hj) as [_ B]. pose proof (out_offset_pos j Hj) as O.
    split; [apply approx_gradient; assumption|].
    pose proof (coef_nonneg (nthK xmin j) (nthK xmax j) (nthK (o_offset out) j) (nthK (nthL dg i) j) B O v) as [C1 C2].
    split; [assumption | split; [assumption | intros ->; apply coef_pos_2007; assumption]].
  Qed.
End Vec.

(* ------------------------------------------------------------------ subsolv: the iterates stay strictly interior *)
Definition pos_list (l : list R) : Prop := List.Forall (fun v => 0 < v) l.
Definition x_inside (alfa beta x : list R) : Prop :=
  length x = length alfa /\ length x = length beta /\
  forall j, (j < length x)%nat -> nthK alfa j < nthK x j < nthK beta j.
(* alfa < x < beta and y, z, lam, xsi, eta, mu, zet, s > 0 *)
Definition interior (D : sdata R) (st : sstate R) : Prop :=
  x_inside (d_alfa D) (d_beta D) (sx st) /\ pos_list (sy st) /\ 0 < sz st /\ pos_list (slam st) /\
  pos_list (sxsi st) /\ pos_list (seta st) /\ pos_list (smu st) /\ 0 < szet st /\ pos_list (ss st).

Lemma step_core a b t m : 0 < a -> 0 < t -> m <= b / a -> t * (- (101 / 100) * m) <= 1 -> 0 < a + t * b.
Proof.
  intros Ha Ht Hm Hs. remember (b / a) as r eqn:Er.
  assert (b = r * a) as Eb by (subst r; field; lra). rewrite Eb.
  assert (t * m <= t * r) by (apply Rmult_le_compat_l; lra).
  assert (0 < a * (1 + t * r)) by (apply Rmult_lt_0_compat; lra). lra.
Qed.
Lemma step_core_up a b t M : 0 < a -> 0 < t -> b / a <= M -> t * (101 / 100 * M) <= 1 -> 0 < a - t * b.
Proof.
  intros Ha Ht Hm Hs. remember (b / a) as r eqn:Er.
  assert (b = r * a) as Eb by (subst r; field; lra). rewrite Eb.
  assert (t * r <= t * M) by (apply Rmult_le_compat_l; lra).
  assert (0 < a * (1 - t * r)) by (apply Rmult_lt_0_compat; lra). lra.
Qed.

Lemma adv_vec_cons a v b dv t : adv_vec (a :: v) (b :: dv) t = (a + t * b) :: adv_vec v dv t.
Proof. reflexivity. Qed.

Lemma adv_vec_pos v : forall dv t, (forall a b, In (a, b) (combine v dv) -> 0 < a + t * b) -> pos_list (adv_vec v dv t).
Proof.
  induction v as [|a v IH]; intros dv t Hc; [constructor|].
  destruct dv as [|b dv]; [constructor|]. rewrite adv_vec_cons. constructor.
  - apply Hc. left. reflexivity.
  - apply IH. intros a' b' Hin. apply Hc. right. exact Hin.
Qed.

Lemma In_ratio v : forall dv a b, In (a, b) (combine v dv) -> In (b / a) (vmap2 Rdiv dv v).
Proof.
  induction v as [|a0 v IH]; intros dv a b Hin; [destruct Hin|].
  destruct dv as [|b0 dv]; [destruct Hin|]. unfold vmap2. cbn [combine map fst snd].
  destruct Hin as [E | Hin]; [injection E as -> ->; left; reflexivity | right; apply (IH dv a b Hin)].
Qed.

Lemma pos_step_vec v dv t : pos_list v -> 0 < t -> t * stm_vec v dv <= 1 -> pos_list (adv_vec v dv t).
Proof.
  intros Hp Ht Hs. apply adv_vec_pos. intros a b Hin.
  assert (0 < a) as Ha by (apply (proj1 (Forall_forall _ _) Hp); eapply in_combine_l; exact Hin).
  apply (step_core a b t (lmin (vmap2 Rdiv dv v)) Ha Ht).
  - apply lmin_le, In_ratio, Hin.
  - revert Hs. unfold stm_vec, dec; ops. intros Hs. exact Hs.
Qed.

Lemma pos_step_sc v dv t : 0 < v -> 0 < t -> t * stm_sc v dv <= 1 -> 0 < adv_sc v dv t.
Proof.
  intros Hv Ht Hs. unfold adv_sc; ops. apply (step_core v dv t (dv / v) Hv Ht); [lra|].
  revert Hs. unfold stm_sc, dec; ops. intros Hs.
  replace (- (101 / 100) * (dv / v)) with (- (101 / 100) * dv / v) by (field; lra). exact Hs.
Qed.

Lemma length_adv_vec v dv t : length dv = length v -> length (adv_vec v dv t) = length v.
Proof. intros E. unfold adv_vec. rewrite length_vmap2; [reflexivity | rewrite map_length; auto]. Qed.

Lemma nthK_adv_vec v dv t j : (j < length v)%nat -> length dv = length v ->
  nthK (adv_vec v dv t) j = nthK v j + t * nthK dv j.
Proof.
  intros Hj E. unfold adv_vec. rewrite nthK_vmap2 by (rewrite ?map_length; auto).
  rewrite nthK_map by lia. reflexivity.
Qed.

Lemma x_step alfa beta x dx t : x_inside alfa beta x -> length dx = length x -> 0 < t ->
  t * stmalfa_of alfa x dx <= 1 -> t * stmbeta_of beta x dx <= 1 -> x_inside alfa beta (adv_vec x dx t).
Proof.
  intros [L1 [L2 Hin]] Ld Ht Ha Hb. unfold x_inside. rewrite length_adv_vec by exact Ld.
  split; [exact L1 | split; [exact L2|]]. intros j Hj. rewrite nthK_adv_vec by auto.
  destruct (Hin j Hj) as [I1 I2].
  assert (length (vmap2 Rminus x alfa) = length x) as La by (apply length_vmap2; exact L1).
  assert (length (vmap2 Rminus beta x) = length x) as Lb by (rewrite length_vmap2; auto).
  split.
  - enough (0 < (nthK x j - nthK alfa j) + t * nthK dx j) by lra.
    apply (step_core _ _ t (lmin (vmap2 Rdiv dx (vmap2 Rminus x alfa)))); [lra | exact Ht | |].
    + apply lmin_le.
      replace (nthK dx j / (nthK x j - nthK alfa j)) with (nthK (vmap2 Rdiv dx (vmap2 Rminus x alfa)) j).
      * apply nthK_In. rewrite length_vmap2; lia.
      * rewrite nthK_vmap2 by lia. rewrite nthK_vmap2 by lia. reflexivity.
    + revert Ha. unfold stmalfa_of, dec; ops. intros Ha. exact Ha.
  - enough (0 < (nthK beta j - nthK x j) - t * nthK dx j) by lra.
    apply (step_core_up _ _ t (lmax (vmap2 Rdiv dx (vmap2 Rminus beta x)))); [lra | exact Ht | |].
    + apply lmax_ge.
      replace (nthK dx j / (nthK beta j - nthK x j)) with (nthK (vmap2 Rdiv dx (vmap2 Rminus beta x)) j).
      * apply nthK_In. rewrite length_vmap2; lia.
      * rewrite nthK_vmap2 by lia. rewrite nthK_vmap2 by lia. reflexivity.
    + revert Hb. unfold stmbeta_of, dec; ops. intros Hb. exact Hb.
Qed.

(* every bound stm* is below the denominator of steg, which is at least 1 *)
Lemma steg_bounds stmxx stmalfa stmbeta t : 0 < t <= steg_of stmxx stmalfa stmbeta ->
  t * stmxx <= 1 /\ t * stmalfa <= 1 /\ t * stmbeta <= 1 /\ t <= 1.
Proof.
  unfold steg_of; ops. set (M := Rmax (Rmax (Rmax stmalfa stmbeta) stmxx) 1). intros [Ht Hs].
  assert (1 <= M) by apply Rmax_r.
  assert (stmxx <= M) by (subst M; eapply Rle_trans; [apply Rmax_r | apply Rmax_l]).
  assert (stmalfa <= M) by (subst M; eapply Rle_trans; [|apply Rmax_l]; eapply Rle_trans; [|apply Rmax_l]; apply Rmax_l).
  assert (stmbeta <= M) by (subst M; eapply Rle_trans; [|apply Rmax_l]; eapply Rle_trans; [|apply Rmax_l]; apply Rmax_r).
  assert (t * M <= 1).
  { apply Rmult_le_reg_r with (/ M); [apply Rinv_0_lt_compat; lra|].
    rewrite Rmult_assoc, Rinv_r by lra. unfold Rdiv in Hs. lra. }
  repeat split; try (apply Rle_trans with (t * M); [apply Rmult_le_compat_l; lra | assumption]).
  apply Rle_trans with (t * M); [|assumption]. rewrite <- (Rmult_1_r t) at 1. apply Rmult_le_compat_l; lra.
Qed.

Lemma stmxx_bounds a b c d e f g h : let M := stmxx_of a b c d e f g h in
  a <= M /\ b <= M /\ c <= M /\ d <= M /\ e <= M /\ f <= M /\ g <= M /\ h <= M.
Proof. cbv zeta. unfold stmxx_of; ops. mm; lra. Qed.

(* C10_subsolv_interior: one trial point of the line search.  The direction d is arbitrary. *)
Theorem step_interior D st d t : interior D st -> length (sx d) = length (sx st) ->
  0 < t <= step_length D st d -> interior D (advance st d t).
Proof.
  intros [Ix [Iy [Iz [Il [Ixs [Ie [Im [Izt Is]]]]]]]] Ld Ht.
  assert (0 < t) as Ht0 by lra.
  unfold step_length in Ht. apply steg_bounds in Ht as [Hxx [Ha [Hb _]]].
  match type of Hxx with _ * stmxx_of ?a ?b ?c ?d0 ?e ?f ?g ?h <= 1 => pose proof (stmxx_bounds a b c d0 e f g h) as SB end.
  cbv zeta in SB. destruct SB as [B1 [B2 [B3 [B4 [B5 [B6 [B7 B8]]]]]]].
  assert (forall s, s <= stmxx_of (stm_vec (sy st) (sy d)) (stm_sc (sz st) (sz d)) (stm_vec (slam st) (slam d))
                         (stm_vec (sxsi st) (sxsi d)) (stm_vec (seta st) (seta d)) (stm_vec (smu st) (smu d))
                         (stm_sc (szet st) (szet d)) (stm_vec (ss st) (ss d)) -> t * s <= 1) as Hle.
  { intros s Hs. eapply Rle_trans; [apply Rmult_le_compat_l; [lra | exact Hs] | exact Hxx]. }
  unfold interior, advance; cbn [sx sy sz slam sxsi seta smu szet ss].
  split; [apply x_step; auto|].
  split; [apply pos_step_vec; auto|].
  split; [apply pos_step_sc; auto|].
  split; [apply pos_step_vec; auto|].
  split; [apply pos_step_vec; auto|].
  split; [apply pos_step_vec; auto|].
  split; [apply pos_step_vec; auto|].
  split; [apply pos_step_sc; auto|].
  apply pos_step_vec; auto.
Qed.

Lemma step_length_pos D st d : 0 < step_length D st d.
Proof.
  unfold step_length, steg_of; ops.
  match goal with |- 0 < _ / ?M => assert (1 <= M) by apply Rmax_r end.
  apply Rdiv_lt_0_compat; lra.
Qed.

(* ---- initial point *)
Lemma length_vmap3 (f : R -> R -> R -> R) a : forall b c, length b = length a -> length c = length a ->
  length (vmap3 f a b c) = length a.
Proof.
  induction a as [|x a IH]; intros b c Lb Lc; [reflexivity|].
  destruct b as [|y b]; [discriminate|]. destruct c as [|z c]; [discriminate|]. cbn. f_equal. apply IH; cbn in *; lia.
Qed.
Lemma nthK_vmap3 (f : R -> R -> R -> R) a : forall b c j, length b = length a -> length c = length a -> (j < length a)%nat ->
  nthK (vmap3 f a b c) j = f (nthK a j) (nthK b j) (nthK c j).
Proof.
  induction a as [|x a IH]; intros b c j Lb Lc Hj; [cbn in Hj; lia|].
  destruct b as [|y b]; [discriminate|]. destruct c as [|z c]; [discriminate|].
  destruct j as [|j]; [reflexivity|]. unfold nthK in *. cbn [vmap3 nth]. apply IH; cbn in *; lia.
Qed.

Lemma pos_ones m : pos_list (ones m).
Proof. unfold pos_list, ones. apply Forall_forall. intros x Hx. apply repeat_spec in Hx. subst. ops. lra. Qed.
Lemma pos_max1_l (l : list R) : pos_list (map (fun v => nmax v (nofZ 1)) l).
Proof.
  apply Forall_forall. intros x Hx. apply in_map_iff in Hx as [y [<- _]]. ops.
  pose proof (Rmax_r y 1). lra.
Qed.
Lemma pos_max1_r (l : list R) : pos_list (map (fun v => nmax (nofZ 1) v) l).
Proof.
  apply Forall_forall. intros x Hx. apply in_map_iff in Hx as [y [<- _]]. ops.
  pose proof (Rmax_l 1 y). lra.
Qed.

(* the hard-coded margin of the initial point *)
Definition margin : R := 1 / 10000000000.

Theorem init_interior D x0 :
  length (d_alfa D) = length (d_beta D) ->
  match x0 with
  | Some v => length v = length (d_alfa D) /\
              forall j, (j < length v)%nat -> nthK (d_alfa D) j + 2 * margin <= nthK (d_beta D) j
  | None => forall j, (j < length (d_alfa D))%nat -> nthK (d_alfa D) j < nthK (d_beta D) j
  end ->
  interior D (init_state D x0).
Proof.
  intros Lab Hx. unfold interior, init_state. cbn [sx sy sz slam sxsi seta smu szet ss].
  split.
  - destruct x0 as [v|].
    + destruct Hx as [Lv Hw]. unfold x_init_x0, x_inside.
      rewrite length_vmap3 by (rewrite map_length; lia).
      split; [exact Lv | split; [lia|]]. intros j Hj.
      rewrite nthK_vmap3 by (rewrite ?map_length; lia). rewrite !nthK_map by lia.
      specialize (Hw j Hj). revert Hw. unfold margin, clip, dec; ops. intros Hw. mm; lra.
    + unfold x_init_mid, x_inside. rewrite map_length, length_vmap2 by exact Lab.
      split; [reflexivity | split; [exact Lab|]]. intros j Hj.
      rewrite nthK_map by (rewrite length_vmap2; auto). rewrite nthK_vmap2 by auto.
      specialize (Hx j Hj). unfold dec; ops. lra.
  - repeat split; try apply pos_ones; try (ops; lra).
    + unfold xsi_init. apply pos_max1_l.
    + unfold eta_init. apply pos_max1_l.
    + unfold mu_init. apply pos_max1_r.
Qed.

(* ---- the loops *)
Section LoopP.
  Variable newton : sdata R -> R -> sstate R -> sstate R.
  Variable norm : list R -> R.
  Variable D : sdata R.
  (* numpy shapes: the direction has the shape of the state (dx = -delx/diagx - ... is an n-vector) *)
  Hypothesis newton_shape : forall e st, length (sx (newton D e st)) = length (sx st).

  Lemma linesearch_interior fuel : forall epsi rn steg old d cur,
    interior D old -> interior D cur -> length (sx d) = length (sx old) -> 0 < steg <= step_length D old d ->
    interior D (linesearch norm D fuel epsi rn steg old d cur).
  Proof.
    induction fuel as [|f IH]; intros epsi rn steg old d cur Io Ic Ld Hs; cbn [linesearch]; [exact Ic|].
    pose proof (step_interior D old d steg Io Ld Hs) as In.
    destruct (ls_accept _ _); [exact In|].
    apply IH; auto. unfold steg_next; ops. lra.
  Qed.

  Lemma newton_step_interior epsi st : interior D st -> interior D (newton_step newton norm D epsi st).
  Proof.
    intros I. unfold newton_step. apply linesearch_interior; auto.
    pose proof (step_length_pos D st (newton D epsi st)). lra.
  Qed.

  Lemma inner_interior left : forall ittt epsi st, interior D st -> interior D (fst (inner newton norm D left ittt epsi st)).
  Proof.
    induction left as [|l IH]; intros ittt epsi st I; cbn [inner]; cbv zeta; destruct (inner_test _ _ _ _); cbn [fst]; auto.
    apply IH, newton_step_interior, I.
  Qed.

  Lemma outer_interior fuel : forall epsimin epsi st last ok r,
    interior D st -> outer newton norm D fuel epsimin epsi st last ok = Some r -> interior D (fst (fst r)).
  Proof.
    induction fuel as [|f IH]; intros epsimin epsi st last ok r I E; cbn [outer] in E; destruct (outer_test _ _).
    - discriminate.
    - injection E as <-. exact I.
    - eapply IH; [|exact E]. apply inner_interior, I.
    - injection E as <-. exact I.
  Qed.

  (* C10_subsolv_interior: whatever the Newton directions and the acceptance decisions are, the point returned by
     subsolv is strictly inside (alfa, beta) with positive multipliers and slacks *)
  Theorem subsolv_interior fuel epsimin x0 r :
    interior D (init_state D x0) -> subsolv newton norm D fuel epsimin x0 = Some r -> interior D (fst (fst r)).
  Proof. intros I E. unfold subsolv in E. eapply outer_interior; eauto. Qed.

  (* ---- exit condition *)
  Lemma inner_exit left : forall ittt epsi st st', inner newton norm D left ittt epsi st = (st', true) ->
    residumax (residual_st D epsi st') <= 9 / 10 * epsi.
  Proof.
    induction left as [|l IH]; intros ittt epsi st st' E; cbn [inner] in E; cbv zeta in E;
      destruct (inner_test epsi (residumax (residual_st D epsi st)) ittt maxittt).
    - discriminate.
    - injection E as <- T. apply negb_true_iff in T. revert T. unfold dec; ops. unfold Rltb.
      destruct Rlt_dec; [discriminate | intros _; lra].
    - eapply IH; exact E.
    - injection E as <- T. apply negb_true_iff in T. revert T. unfold dec; ops. unfold Rltb.
      destruct Rlt_dec; [discriminate | intros _; lra].
  Qed.

  Lemma outer_exit fuel : forall epsimin epsi st last ok st' e,
    outer newton norm D fuel epsimin epsi st last ok = Some (st', e, true) ->
    (ok = true -> residumax (residual_st D last st) <= 9 / 10 * last /\ epsimin < last /\ epsi = last / 10) ->
    residumax (residual_st D e st') <= 9 / 10 * e /\ epsimin < e <= 10 * epsimin.
  Proof.
    induction fuel as [|f IH]; intros epsimin epsi st last ok st' e E Inv; cbn [outer] in E;
      destruct (outer_test epsimin epsi) eqn:T.
    - discriminate.
    - injection E as <- <- ->. destruct (Inv eq_refl) as [I1 [I2 I3]].
      revert T. unfold outer_test; ops. unfold Rltb. destruct Rlt_dec; [discriminate | intros _]. lra.
    - eapply IH; [exact E|]. intros Ok.
      destruct (inner newton norm D maxittt 0 epsi st) as [s1 b1] eqn:Ei. cbn [fst snd] in *. subst b1.
      split; [eapply inner_exit; exact Ei|].
      revert T. unfold outer_test, epsi_next; ops. unfold Rltb. destruct Rlt_dec; [intros _ | discriminate]. lra.
    - injection E as <- <- ->. destruct (Inv eq_refl) as [I1 [I2 I3]].
      revert T. unfold outer_test; ops. unfold Rltb. destruct Rlt_dec; [discriminate | intros _]. lra.
  Qed.

  (* C10_subsolv_exit: if the inner loop of the last epsi ended because its residual test failed (not because ittt
     reached maxittt), every component of the residual at the returned point is at most 0.9*epsi_last in magnitude,
     and epsimin < epsi_last <= 10*epsimin *)
  Theorem subsolv_exit fuel epsimin x0 st e :
    subsolv newton norm D fuel epsimin x0 = Some (st, e, true) ->
    residumax (residual_st D e st) <= 9 / 10 * e /\ epsimin < e <= 10 * epsimin.
  Proof. intros E. unfold subsolv in E. eapply outer_exit; [exact E | discriminate]. Qed.

  Lemma residumax_bounds (r : list R) x : In x r -> Rabs x <= residumax r.
  Proof. intros Hx. unfold residumax. apply lmax_ge. change (@nabs R NumOrdR) with Rabs. apply in_map, Hx. Qed.
End LoopP.

(* ------------------------------------------------------------------ one MMA iteration, end to end *)
(* mmasub builds alfa/beta from the current design; subsolv (any Newton directions, any acceptance decisions) is run on
   them starting from x0 = xval; the design it returns has the right length, lies strictly inside (alfa, beta), hence in
   [xmin, xmax], and differs from xval by at most move*(xmax - xmin) in every component. *)
Theorem iteration_within_bounds
  (p : asypar R) (v : version) (xval xmin xmax move : list R) (xold1 xold2 offset : option (list R))
  (g : list R) (dg : list (list R))
  (newton : sdata R -> R -> sstate R -> sstate R) (norm : list R -> R) (D : sdata R) :
  let n := length xval in
  let out := mmasub_vec p v xval xmin xmax move xold1 xold2 offset g dg in
  (forall j, (j < n)%nat -> nthK xmin j <= nthK xval j <= nthK xmax j /\ nthK xmin j < nthK xmax j) ->
  (forall j, (j < n)%nat -> 0 < nthK move j) ->
  0 < albefa p < 1 -> 0 < asyinit p -> 0 < asybound p ->
  (forall o j, offset = Some o -> (j < n)%nat -> 0 < nthK o j) ->
  d_alfa D = o_alfa out -> d_beta D = o_beta out ->
  (forall j, (j < n)%nat -> nthK (o_alfa out) j + 2 * margin <= nthK (o_beta out) j) ->
  (forall e st, length (sx (newton D e st)) = length (sx st)) ->
  forall fuel epsimin r, subsolv newton norm D fuel epsimin (Some xval) = Some r ->
  let x := sx (fst (fst r)) in
  length x = n /\
  forall j, (j < n)%nat ->
    nthK (o_alfa out) j < nthK x j < nthK (o_beta out) j /\
    nthK xmin j <= nthK x j <= nthK xmax j /\
    Rabs (nthK x j - nthK xval j) <= nthK move j * (nthK xmax j - nthK xmin j).
Proof.
  intros n out Hbox Hmove Hal Hin Hbd Hoff Ea Eb Hmargin Hshape fuel epsimin r E x.
  destruct (out_lengths p v xval xmin xmax move xold1 xold2 offset g dg) as [_ [_ [_ [La [Lb _]]]]].
  fold out in La, Lb. fold n in La, Lb.
  assert (interior D (init_state D (Some xval))) as I0.
  { apply init_interior; [rewrite Ea, Eb; lia|]. rewrite Ea, Eb. split; [lia | exact Hmargin]. }
  pose proof (subsolv_interior newton norm D Hshape fuel epsimin (Some xval) r I0 E) as [[L1 [L2 Hx]] _].
  fold x in L1, L2, Hx. rewrite Ea in L1, Hx. rewrite Eb in Hx.
  split; [lia|]. intros j Hj. specialize (Hx j ltac:(lia)).
  pose proof (vec_box_move_asymptotes p v xval xmin xmax move xold1 xold2 offset g dg Hbox Hmove Hal Hin Hbd Hoff j Hj)
    as [[B1 B2] [[M1 M2] _]]. fold out in B1, B2, M1, M2.
  split; [exact Hx|]. split; [lra|]. apply Rabs_le. lra.
Qed.

(* the hypotheses of the component theorems are met by a concrete design at its lower bound *)
Lemma nonvacuous_component :
  (0 <= 0 <= 1 /\ 0 < 1 /\ 0 < 1 / 10 /\ 0 < 1 / 10 < 1 /\ 0 < 1 / 2) /\
  alfa_of (1 / 10) (1 / 10) 0 0 1 (1 / 2) = 0 /\ beta_of (1 / 10) (1 / 10) 0 0 1 (1 / 2) = 1 / 10.
Proof.
  split; [lra|]. unf. split; mm; lra.
Qed.
