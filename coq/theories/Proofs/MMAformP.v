(* C10 -- theorems about Model/MMAform.v over the reals. *)
From Coq Require Import ZArith String List Bool Reals Lra Lia.
From Coquelicot Require Import Coquelicot.
From Pymoto Require Import Base.Num Base.MMANum Model.MMAform.
Import ListNotations.
Open Scope R_scope.

Ltac ops := unfold nadd, nmul, nsub, ndiv, nopp, nofZ, nzero, none_, nmax, nmin, nabs, nltb, nleb; cbn [NumR NumOrdR].
Ltac unf :=
  unfold alfa_of, beta_of, low_of, upp_of, P_of, Q_of, alfa_c, beta_c, low_c, upp_c, shift_c, dx_c, dx2_c, dg_plus_c,
    dg_min_c, P87_c, Q87_c, P07_c, Q07_c, offset_adapt_c, offset_init_c, clip, sq, dec in *; ops.
Ltac mm := unfold Rmax, Rmin in *;
  repeat (match goal with |- context [Rle_dec ?a ?b] =>
            lazymatch a with context [Rle_dec] => fail | _ =>
            lazymatch b with context [Rle_dec] => fail | _ => destruct (Rle_dec a b) end end end).

(* ------------------------------------------------------------------ box, move limit, asymptotes *)
Section Comp.
  Variables albefa move xval xmin xmax offset : R.
  Hypothesis Hx : xmin <= xval <= xmax.
  Hypothesis Hd : xmin < xmax.
  Hypothesis Hm : 0 < move.
  Hypothesis Ha : 0 < albefa < 1.
  Hypothesis Ho : 0 < offset.

  Let alfa := alfa_of albefa move xval xmin xmax offset.
  Let beta := beta_of albefa move xval xmin xmax offset.
  Let low := low_of xval xmin xmax offset.
  Let upp := upp_of xval xmin xmax offset.

  Lemma pos_shift : 0 < offset * (xmax - xmin).
  Proof. apply Rmult_lt_0_compat; lra. Qed.
  Lemma pos_move : 0 < move * (xmax - xmin).
  Proof. apply Rmult_lt_0_compat; lra. Qed.
  Lemma pos_ashift : 0 < albefa * (offset * (xmax - xmin)) < offset * (xmax - xmin).
  Proof. pose proof pos_shift as S. split; [apply Rmult_lt_0_compat; lra | nra]. Qed.

  Lemma box : xmin <= alfa <= xval /\ xval <= beta <= xmax.
  Proof.
    pose proof pos_shift as S. pose proof pos_move as M. pose proof pos_ashift as AS.
    subst alfa beta. unf. mm; lra.
  Qed.

  Lemma move_limit : xval - move * (xmax - xmin) <= alfa /\ beta <= xval + move * (xmax - xmin).
  Proof.
    pose proof pos_shift as S. pose proof pos_move as M. pose proof pos_ashift as AS.
    subst alfa beta. unf. mm; lra.
  Qed.

  Lemma asymptotes_enclose : low < alfa /\ beta < upp.
  Proof.
    pose proof pos_shift as S. pose proof pos_move as M. pose proof pos_ashift as AS.
    subst alfa beta low upp. unf. mm; lra.
  Qed.

  (* the asymptotes are placed symmetrically at distance offset*(xmax-xmin) *)
  Lemma asymptote_distance : xval - low = offset * (xmax - xmin) /\ upp - xval = offset * (xmax - xmin).
  Proof. subst low upp. unf. lra. Qed.

  Lemma alfa_lt_beta : alfa < beta.
  Proof.
    pose proof pos_shift as S. pose proof pos_move as M. pose proof pos_ashift as AS.
    subst alfa beta. unf. mm; lra.
  Qed.

  (* alfa = xval only at the lower bound; beta = xval only at the upper bound *)
  Lemma alfa_strict : xmin < xval -> alfa < xval.
  Proof.
    pose proof pos_shift as S. pose proof pos_move as M. pose proof pos_ashift as AS.
    intros. subst alfa. unf. mm; lra.
  Qed.
  Lemma beta_strict : xval < xmax -> xval < beta.
  Proof.
    pose proof pos_shift as S. pose proof pos_move as M. pose proof pos_ashift as AS.
    intros. subst beta. unf. mm; lra.
  Qed.

  (* any point of [alfa, beta] -- in particular the subproblem solution -- respects box and move limit *)
  Lemma iterate_ok x : alfa <= x <= beta -> xmin <= x <= xmax /\ Rabs (x - xval) <= move * (xmax - xmin).
  Proof.
    intros Hxx. pose proof box as B. pose proof move_limit as ML.
    split; [lra|]. apply Rabs_le. lra.
  Qed.
End Comp.

(* ------------------------------------------------------------------ asymptote adaptation *)
Lemma clip_bounds x lo hi : Rmin lo hi <= clip x lo hi <= hi.
Proof. unfold clip; ops. mm; lra. Qed.
Lemma clip_bounds' x lo hi : lo <= hi -> lo <= clip x lo hi <= hi.
Proof. intros. unfold clip; ops. mm; lra. Qed.

Lemma inv_sq_pos a : 0 < a -> 0 < 1 / (a * a).
Proof. intros. apply Rdiv_lt_0_compat; [lra | apply Rmult_lt_0_compat; lra]. Qed.

Lemma offset_adapt_clamped incr decr bound xval x1 x2 o : 0 < bound ->
  let o' := offset_adapt_c incr decr bound xval x1 x2 o in
  0 < o' /\ o' <= bound /\ Rmin (1 / (bound * bound)) bound <= o' /\ (1 <= bound -> 1 / (bound * bound) <= o').
Proof.
  intros Hb o'. subst o'. unfold offset_adapt_c. cbv zeta.
  match goal with |- context [clip ?x ?lo ?hi] => pose proof (clip_bounds x lo hi) as C; pose proof (clip_bounds' x lo hi) as C' end.
  revert C C'. unfold sq; ops. intros C C'.
  pose proof (inv_sq_pos bound Hb) as P.
  assert (0 < Rmin (1 / (bound * bound)) bound) by (unfold Rmin; destruct Rle_dec; lra).
  repeat split; try lra.
  intros H1. apply C'.
  assert (1 <= bound * bound) by nra.
  apply Rle_trans with 1; [|lra].
  unfold Rdiv. rewrite Rmult_1_l. rewrite <- Rinv_1. apply Rinv_le_contravar; lra.
Qed.

(* the factor applied before clamping: asyincr when the variable keeps its direction, asydecr when it oscillates *)
Lemma offset_adapt_cases incr decr bound xval x1 x2 o :
  let z := (xval - x1) * (x1 - x2) in
  offset_adapt_c incr decr bound xval x1 x2 o =
  clip (if Rlt_dec 0 z then o * incr else if Rlt_dec z 0 then o * decr else o) (1 / (bound * bound)) bound.
Proof.
  cbv zeta. unfold offset_adapt_c, sq; ops. unfold Rltb.
  destruct (Rlt_dec 0 _) as [a|a]; destruct (Rlt_dec _ 0) as [b|b]; try reflexivity; lra.
Qed.

Lemma offset_step_pos (p : asypar R) xval x1 x2 o :
  0 < asyinit p -> 0 < asybound p -> (forall v, o = Some v -> 0 < v) ->
  0 < offset_step p xval x1 x2 o.
Proof.
  intros Hi Hb Ho. unfold offset_step.
  assert (0 < match o with Some o0 => o0 | None => offset_init_c (asyinit p) end) as Hpos.
  { destruct o as [v|]; [apply Ho; reflexivity | unfold offset_init_c; ops; lra]. }
  destruct x1 as [a|]; [destruct x2 as [b|]|]; try exact Hpos.
  apply (offset_adapt_clamped (asyincr p) (asydecr p) (asybound p) xval a b _ Hb).
Qed.

(* ------------------------------------------------------------------ approximation: coefficients *)
Section Coef.
  Variables xmin xmax offset dg : R.
  Hypothesis Hd : xmin < xmax.
  Hypothesis Ho : 0 < offset.
  Let sh := offset * (xmax - xmin).

  Lemma sh_pos : 0 < sh.
  Proof. subst sh. apply Rmult_lt_0_compat; lra. Qed.

  Lemma coef_nonneg v : 0 <= P_of v xmin xmax offset dg /\ 0 <= Q_of v xmin xmax offset dg.
  Proof.
    pose proof sh_pos as S. fold sh.
    assert (0 < sh * sh) by (apply Rmult_lt_0_compat; lra).
    assert (0 <= Rmax dg 0) by apply Rmax_r. assert (0 <= Rmax (- dg) 0) by apply Rmax_r.
    assert (0 < 1 / 100000 / (xmax - xmin)) by (apply Rdiv_lt_0_compat; lra).
    destruct v; unf; fold sh; split; apply Rmult_le_pos; lra.
  Qed.

  (* Svanberg2007 makes both coefficients strictly positive (strict convexity of every term) *)
  Lemma coef_pos_2007 : 0 < P_of V2007 xmin xmax offset dg /\ 0 < Q_of V2007 xmin xmax offset dg.
  Proof.
    pose proof sh_pos as S. fold sh.
    assert (0 < sh * sh) by (apply Rmult_lt_0_compat; lra).
    assert (0 <= Rmax dg 0) by apply Rmax_r. assert (0 <= Rmax (- dg) 0) by apply Rmax_r.
    assert (0 < 1 / 100000 / (xmax - xmin)) by (apply Rdiv_lt_0_compat; lra).
    unf; fold sh; split; apply Rmult_lt_0_compat; lra.
  Qed.

  (* p - q = shift^2 * dg : the exact algebraic form of "the gradient is reproduced" *)
  Lemma coef_difference v : P_of v xmin xmax offset dg - Q_of v xmin xmax offset dg = sh * sh * dg.
  Proof.
    assert (Rmax dg 0 - Rmax (- dg) 0 = dg) as E by (unfold Rmax; repeat destruct Rle_dec; lra).
    destruct v; unf; fold sh.
    - rewrite <- E at 3. ring.
    - rewrite <- E at 5. field. lra.
  Qed.
End Coef.

(* derivative of one term p/(u-x) + q/(x-l) *)
Lemma approx_term_derive p q u l x : l < x < u ->
  is_derive (fun t => approx_term p q u l t) x (p / ((u - x) * (u - x)) - q / ((x - l) * (x - l))).
Proof.
  intros Hx. unfold approx_term; ops.
  auto_derive; [split; [lra | split; [lra | exact I]] | field; lra].
Qed.

(* second derivative, non-negative between the asymptotes when p, q >= 0 : every term is convex *)
Lemma approx_term_derive2 p q u l x : l < x < u ->
  is_derive (fun t => p / ((u - t) * (u - t)) - q / ((t - l) * (t - l))) x
            (2 * p / ((u - x) * (u - x) * (u - x)) + 2 * q / ((x - l) * (x - l) * (x - l))).
Proof.
  intros Hx. auto_derive; [repeat split; try lra; nra | field; lra].
Qed.

Lemma approx_term_convex p q u l x : l < x < u -> 0 <= p -> 0 <= q ->
  0 <= 2 * p / ((u - x) * (u - x) * (u - x)) + 2 * q / ((x - l) * (x - l) * (x - l)).
Proof.
  intros Hx Hp Hq.
  assert (0 < (u - x) * (u - x) * (u - x)) by (repeat apply Rmult_lt_0_compat; lra).
  assert (0 < (x - l) * (x - l) * (x - l)) by (repeat apply Rmult_lt_0_compat; lra).
  assert (0 <= 2 * p / ((u - x) * (u - x) * (u - x))) by (apply Rmult_le_pos; [lra | left; apply Rinv_0_lt_compat; lra]).
  assert (0 <= 2 * q / ((x - l) * (x - l) * (x - l))) by (apply Rmult_le_pos; [lra | left; apply Rinv_0_lt_compat; lra]).
  lra.
Qed.

(* the gradient of the approximation at xval is dg (both versions) *)
Lemma approx_gradient v xval xmin xmax offset dg : xmin < xmax -> 0 < offset ->
  is_derive (fun t => approx_term (P_of v xmin xmax offset dg) (Q_of v xmin xmax offset dg)
                                  (upp_of xval xmin xmax offset) (low_of xval xmin xmax offset) t) xval dg.
Proof.
  intros Hd Ho.
  pose proof (sh_pos xmin xmax offset Hd Ho) as S.
  pose proof (coef_difference xmin xmax offset dg Hd v) as E.
  set (p := P_of v xmin xmax offset dg) in *. set (q := Q_of v xmin xmax offset dg) in *.
  assert (low_of xval xmin xmax offset < xval < upp_of xval xmin xmax offset) as Hx by (unf; lra).
  pose proof (approx_term_derive p q _ _ xval Hx) as Dv.
  replace dg with (p / ((upp_of xval xmin xmax offset - xval) * (upp_of xval xmin xmax offset - xval)) -
                   q / ((xval - low_of xval xmin xmax offset) * (xval - low_of xval xmin xmax offset))); [exact Dv|].
  replace (upp_of xval xmin xmax offset - xval) with (offset * (xmax - xmin)) by (unf; lra).
  replace (xval - low_of xval xmin xmax offset) with (offset * (xmax - xmin)) by (unf; lra).
  replace (p / _ - q / _) with ((p - q) / (offset * (xmax - xmin) * (offset * (xmax - xmin)))) by (field; lra).
  rewrite E. field. lra.
Qed.

(* ------------------------------------------------------------------ approximation: value *)
Lemma dot_cons (a b : R) (A B : list R) : dot (a :: A) (b :: B) = a * b + dot A B.
Proof. reflexivity. Qed.

(* sum_j p_j/(upp_j - xval_j) + q_j/(xval_j - low_j) - b_i = g_i  with  b_i = rhs_i  (any coefficients p, q) *)
Lemma approx_value_gen : forall (sh Prow Qrow xval : list R) (g : R),
  length sh = length xval -> length Prow = length xval -> length Qrow = length xval ->
  List.Forall (fun s => s <> 0) sh ->
  approx Prow Qrow (vmap2 Rplus xval sh) (vmap2 Rminus xval sh) xval - rhs_row sh Prow Qrow g = g.
Proof.
  intros sh Prow Qrow xval g H1 H2 H3 Hs.
  enough (approx Prow Qrow (vmap2 Rplus xval sh) (vmap2 Rminus xval sh) xval =
          dot Prow (map (fun s => 1 / s) sh) + dot Qrow (map (fun s => 1 / s) sh)) as E.
  { unfold rhs_row; ops. change (IZR 1) with 1. rewrite E. ring. }
  revert Prow Qrow xval H1 H2 H3. induction Hs as [|s sh Hs0 Hs IH]; intros Prow Qrow xval H1 H2 H3.
  - destruct xval; [|discriminate]. destruct Prow; [|discriminate]. destruct Qrow; [|discriminate]. cbn. unfold dot; cbn. lra.
  - destruct xval as [|x xval]; [discriminate|]. destruct Prow as [|p Prow]; [discriminate|].
    destruct Qrow as [|q Qrow]; [discriminate|].
    cbn [map]. rewrite !dot_cons. unfold vmap2 in *. cbn [combine map fst snd approx].
    rewrite IH by (cbn in *; lia). unfold approx_term; ops. field. exact Hs0.
Qed.

(* ------------------------------------------------------------------ list helpers *)
Lemma length_vmap2 (f : R -> R -> R) a b : length a = length b -> length (vmap2 f a b) = length a.
Proof. intros E. unfold vmap2. rewrite map_length, combine_length, E. apply Nat.min_id. Qed.

Lemma nthK_vmap2 (f : R -> R -> R) a b j : (j < length a)%nat -> length a = length b ->
  nthK (vmap2 f a b) j = f (nthK a j) (nthK b j).
Proof.
  intros Hj E. unfold nthK, vmap2.
  rewrite (nth_indep _ nzero (f nzero nzero)) by (rewrite map_length, combine_length, <- E, Nat.min_id; exact Hj).
  change (f nzero nzero) with ((fun p : R * R => f (fst p) (snd p)) (nzero, nzero)).
  rewrite map_nth, combine_nth by exact E. reflexivity.
Qed.

Lemma nthK_map (f : R -> R) a j : (j < length a)%nat -> nthK (map f a) j = f (nthK a j).
Proof.
  intros Hj. unfold nthK. rewrite (nth_indep _ nzero (f nzero)) by (rewrite map_length; exact Hj).
  apply map_nth.
Qed.

Lemma nthK_map_seq (f : nat -> R) n j : (j < n)%nat -> nthK (map f (seq 0 n)) j = f j.
Proof.
  intros Hj. unfold nthK. rewrite (nth_indep _ nzero (f 0%nat)) by (rewrite map_length, seq_length; exact Hj).
  rewrite map_nth, seq_nth by exact Hj. reflexivity.
Qed.

Lemma map_seq_vmap2 (f : R -> R -> R) a b : length a = length b ->
  map (fun j => f (nthK a j) (nthK b j)) (seq 0 (length a)) = vmap2 f a b.
Proof.
  intros E. apply (nth_ext _ _ nzero nzero).
  - rewrite map_length, seq_length, length_vmap2; auto.
  - intros j Hj. rewrite map_length, seq_length in Hj.
    fold (nthK (map (fun j0 : nat => f (nthK a j0) (nthK b j0)) (seq 0 (length a))) j). fold (nthK (vmap2 f a b) j).
    rewrite nthK_map_seq, nthK_vmap2; auto.
Qed.

Lemma fold_min_le t : forall a, fold_left Rmin t a <= a /\ (forall x, In x t -> fold_left Rmin t a <= x).
Proof.
  induction t as [|y t IH]; intros a; cbn.
  - split; [lra | intros x []].
  - destruct (IH (Rmin a y)) as [I1 I2]. pose proof (Rmin_l a y). pose proof (Rmin_r a y).
    split; [lra|]. intros x [-> | Hx]; [lra | apply I2, Hx].
Qed.
Lemma lmin_le (l : list R) x : In x l -> lmin l <= x.
Proof.
  destruct l as [|a t]; [intros []|]. unfold lmin. change (@nmin R NumOrdR) with Rmin.
  destruct (fold_min_le t a) as [I1 I2]. intros [<- | Hx]; [exact I1 | apply I2, Hx].
Qed.
Lemma fold_max_ge t : forall a, a <= fold_left Rmax t a /\ (forall x, In x t -> x <= fold_left Rmax t a).
Proof.
  induction t as [|y t IH]; intros a; cbn.
  - split; [lra | intros x []].
  - destruct (IH (Rmax a y)) as [I1 I2]. pose proof (Rmax_l a y). pose proof (Rmax_r a y).
    split; [lra|]. intros x [-> | Hx]; [lra | apply I2, Hx].
Qed.
Lemma lmax_ge (l : list R) x : In x l -> x <= lmax l.
Proof.
  destruct l as [|a t]; [intros []|]. unfold lmax. change (@nmax R NumOrdR) with Rmax.
  destruct (fold_max_ge t a) as [I1 I2]. intros [<- | Hx]; [exact I1 | apply I2, Hx].
Qed.

Lemma nthK_In (l : list R) j : (j < length l)%nat -> In (nthK l j) l.
Proof. intros. unfold nthK. apply nth_In. assumption. Qed.

(* ------------------------------------------------------------------ vector form of the mmasub theorems *)
Section Vec.
  Variable p : asypar R.
  Variable v : version.
  Variables xval xmin xmax move : list R.
  Variables xold1 xold2 offset : option (list R).
  Variable g : list R.
  Variable dg : list (list R).
  Let n := length xval.
  Let out := mmasub_vec p v xval xmin xmax move xold1 xold2 offset g dg.

  Hypothesis Hbox : forall j, (j < n)%nat -> nthK xmin j <= nthK xval j <= nthK xmax j /\ nthK xmin j < nthK xmax j.
  Hypothesis Hmove : forall j, (j < n)%nat -> 0 < nthK move j.
  Hypothesis Halbefa : 0 < albefa p < 1.
  Hypothesis Hinit : 0 < asyinit p.
  Hypothesis Hbound : 0 < asybound p.
  Hypothesis Hoff : forall o j, offset = Some o -> (j < n)%nat -> 0 < nthK o j.

  Lemma out_offset j : (j < n)%nat ->
    nthK (o_offset out) j = offset_step p (nthK xval j) (optnth xold1 j) (optnth xold2 j) (optnth offset j).
  Proof. intros Hj. subst out. unfold mmasub_vec. cbn [o_offset]. rewrite nthK_map_seq by exact Hj. reflexivity. Qed.

  Lemma out_offset_pos j : (j < n)%nat -> 0 < nthK (o_offset out) j.
  Proof.
    intros Hj. rewrite out_offset by exact Hj. apply offset_step_pos; auto.
    intros w Hw. destruct offset as [o|]; [|discriminate]. cbn in Hw. injection Hw as <-. apply (Hoff o j eq_refl Hj).
  Qed.

  Lemma out_alfa j : (j < n)%nat ->
    nthK (o_alfa out) j = alfa_of (albefa p) (nthK move j) (nthK xval j) (nthK xmin j) (nthK xmax j) (nthK (o_offset out) j).
  Proof. intros Hj. subst out. unfold mmasub_vec. cbn [o_alfa o_offset]. rewrite nthK_map_seq by exact Hj. reflexivity. Qed.
  Lemma out_beta j : (j < n)%nat ->
    nthK (o_beta out) j = beta_of (albefa p) (nthK move j) (nthK xval j) (nthK xmin j) (nthK xmax j) (nthK (o_offset out) j).
  Proof. intros Hj. subst out. unfold mmasub_vec. cbn [o_beta o_offset]. rewrite nthK_map_seq by exact Hj. reflexivity. Qed.
  Lemma out_low j : (j < n)%nat ->
    nthK (o_low out) j = low_of (nthK xval j) (nthK xmin j) (nthK xmax j) (nthK (o_offset out) j).
  Proof. intros Hj. subst out. unfold mmasub_vec. cbn [o_low o_offset]. rewrite nthK_map_seq by exact Hj. reflexivity. Qed.
  Lemma out_upp j : (j < n)%nat ->
    nthK (o_upp out) j = upp_of (nthK xval j) (nthK xmin j) (nthK xmax j) (nthK (o_offset out) j).
  Proof. intros Hj. subst out. unfold mmasub_vec. cbn [o_upp o_offset]. rewrite nthK_map_seq by exact Hj. reflexivity. Qed.

  Lemma out_lengths : length (o_offset out) = n /\ length (o_low out) = n /\ length (o_upp out) = n /\
                      length (o_alfa out) = n /\ length (o_beta out) = n /\
                      length (o_P out) = length dg /\ length (o_Q out) = length dg /\ length (o_b out) = (length dg - 1)%nat.
  Proof.
    subst out. unfold mmasub_vec, b_of_rhs. cbn [o_offset o_low o_upp o_alfa o_beta o_P o_Q o_b].
    rewrite skipn_length. repeat rewrite map_length. repeat rewrite seq_length. repeat split; reflexivity.
  Qed.

  (* C10_box / C10_move / C10_asymptotes_enclose for every component of the vectors handed to subsolv *)
  Theorem vec_box_move_asymptotes j : (j < n)%nat ->
    let a := nthK (o_alfa out) j in let b := nthK (o_beta out) j in
    let l := nthK (o_low out) j in let u := nthK (o_upp out) j in
    (nthK xmin j <= a <= nthK xval j /\ nthK xval j <= b <= nthK xmax j) /\
    (nthK xval j - nthK move j * (nthK xmax j - nthK xmin j) <= a /\
     b <= nthK xval j + nthK move j * (nthK xmax j - nthK xmin j)) /\
    (l < a /\ b < u) /\ a < b.
  Proof.
    intros Hj. cbv zeta. rewrite out_alfa, out_beta, out_low, out_upp by exact Hj.
    destruct (Hbox j Hj) as [B1 B2]. pose proof (Hmove j Hj) as M. pose proof (out_offset_pos j Hj) as O.
    repeat split;
      first [ apply box | apply move_limit | apply asymptotes_enclose | apply alfa_lt_beta ]; auto.
  Qed.
End Vec.
