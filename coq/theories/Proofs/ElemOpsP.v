(* Lemmas about Model/ElemOps.v *)
From Coq Require Import ZArith List Lia Ring Bool Reals Lra.
From Pymoto Require Import Base.Num Base.Qsqrt3 Base.SparseLin Base.FEMat Model.Grid Model.Shape Model.ElemMat Model.Assembly.
From Pymoto Require Import Proofs.GridP Proofs.ShapeP Proofs.ElemMatP Proofs.AssemblyP Model.ElemOps.
Import ListNotations.

(* ================================================================== the two einsum primitives are adjoint *)
Section Adjoint.
  Context {K : Type} `{Num K}.
  Hypothesis Rth : ring_theory (@nzero K _) none_ nadd nmul nsub nopp (@eq K).
  Add Ring KringO : Rth.
  Local Open Scope num_scope.

  (* <W, Y> for arrays given by their rows *)
  Definition mdot (W Y : list (list K)) : K := nsum (map (fun p => dot (fst p) (snd p)) (combine W Y)).

  Lemma dot_seq (a b : list K) n : length a = n -> length b = n ->
    dot a b = nsum (map (fun i => nth i a nzero * nth i b nzero) (seq 0 n)).
  Proof.
    intros Ha Hb. unfold dot. rewrite (combine_seq a b nzero nzero n Ha Hb), map_map. reflexivity.
  Qed.

  (* inner scatter loop *)
  Lemma dot_scatter_row (dce : list Z) (ell : list K) acc u :
    length acc = length u -> Forall (fun d => (Z.to_nat d < length u)%nat) dce ->
    dot (fold_left (fun acc2 q => vaddat acc2 (Z.to_nat (fst q)) (snd q)) (combine dce ell) acc) u =
    dot acc u + dot ell (gatherZ u dce).
  Proof.
    intros Hl Hd. revert ell acc Hl. induction Hd as [|d dce Hd0 Hd IH]; intros ell acc Hl.
    - cbn [combine fold_left gatherZ map]. rewrite dot_nil_r. ring.
    - destruct ell as [|v ell]; [cbn [combine fold_left]; rewrite dot_nil_l; ring|].
      cbn [combine fold_left fst snd gatherZ map]. fold (gatherZ u dce).
      rewrite IH by (rewrite vaddat_length; exact Hl).
      rewrite (dot_vaddat_l Rth) by (try exact Hl; rewrite Hl; exact Hd0). rewrite dot_cons. ring.
  Qed.

  Lemma inner_scatter_length (l : list (Z * K)) acc :
    length (fold_left (fun acc2 q => vaddat acc2 (Z.to_nat (fst q)) (snd q)) l acc) = length acc.
  Proof. revert acc; induction l as [|q l IHl]; intros acc; cbn [fold_left]; [reflexivity|]. rewrite IHl. apply vaddat_length. Qed.

  Lemma fold_scatter_length (dcs : list (list Z)) (el : list (list K)) acc :
    length (fold_left (fun acc p => fold_left (fun acc2 q => vaddat acc2 (Z.to_nat (fst q)) (snd q))
                                              (combine (fst p) (snd p)) acc) (combine dcs el) acc) = length acc.
  Proof.
    revert el acc. induction dcs as [|dce dcs IH]; intros [|ell el] acc; cbn [combine fold_left]; try reflexivity.
    rewrite IH. cbn [fst snd]. apply inner_scatter_length.
  Qed.

  Lemma dot_scatter_add n (dcs : list (list Z)) (el : list (list K)) u :
    length u = n -> Forall (fun dce => Forall (fun d => (Z.to_nat d < n)%nat) dce) dcs ->
    dot (scatter_add n dcs el) u = nsum (map (fun p => dot (snd p) (gatherZ u (fst p))) (combine dcs el)).
  Proof.
    intros Hu Hd. unfold scatter_add.
    assert (Hgen : forall el acc, length acc = length u ->
      dot (fold_left (fun acc p => fold_left (fun acc2 q => vaddat acc2 (Z.to_nat (fst q)) (snd q))
                                             (combine (fst p) (snd p)) acc) (combine dcs el) acc) u
      = dot acc u + nsum (map (fun p => dot (snd p) (gatherZ u (fst p))) (combine dcs el))).
    { induction Hd as [|dce dcs Hd0 Hd IH]; intros el0 acc Hl.
      - cbn [combine fold_left map]. cbn. ring.
      - destruct el0 as [|ell el0]; [cbn [combine fold_left map]; cbn; ring|].
        cbn [combine fold_left map fst snd]. rewrite IH.
        + rewrite dot_scatter_row by (try exact Hl; rewrite Hu; exact Hd0). rewrite nsum_cons. ring.
        + rewrite inner_scatter_length. exact Hl. }
    rewrite Hgen by (unfold vzero; rewrite repeat_length; symmetry; exact Hu).
    rewrite (dot_vzero_l Rth). ring.
  Qed.

  Lemma mcol_length (M : list (list K)) j : length (mcol M j) = length M.
  Proof. unfold mcol. apply map_length. Qed.

  (* <W, fwd(u)> = <bwd(W), u> *)
  Theorem op_adjoint kd (rows : list (list K)) (dcs : list (list Z)) n (W : list (list K)) u :
    Forall (fun r => length r = kd) rows ->
    length W = length rows -> Forall (fun w => length w = length dcs) W ->
    length u = n -> Forall (fun dce => Forall (fun d => (Z.to_nat d < n)%nat) dce) dcs ->
    mdot W (op_fwd rows dcs u) = dot (op_bwd kd rows dcs n W) u.
  Proof.
    intros Hrows HW HWl Hu Hd. unfold op_bwd. rewrite (dot_scatter_add n) by assumption.
    unfold op_el, mdot, op_fwd.
    set (nel := length dcs).
    (* right-hand side: sum over l of  col_l(W) . (rows @ gu_l) *)
    rewrite (combine_seq dcs (map _ (seq 0 nel)) [] [] nel eq_refl) by (rewrite map_length, seq_length; reflexivity).
    rewrite map_map. cbn [fst snd].
    rewrite (nsum_map_ext _ (fun l => nsum (map (fun p => nth l (fst p) nzero * dot (snd p) (gatherZ u (nth l dcs []))) (combine W rows)))).
    2:{ intros l Hl. apply in_seq in Hl.
        rewrite (nth_map_lt _ (seq 0 nel) l [] 0%nat) by (rewrite seq_length; lia). rewrite seq_nth by lia. cbn [Nat.add].
        rewrite (map_ext _ (fun k => dot (mcol W l) (mcol rows k))) by (intros; apply (dot_comm Rth)).
        rewrite (dot_mmul_row Rth kd) by exact Hrows.
        unfold mcol, mvmul, dot at 1. rewrite combine_map_l, combine_map_r, !map_map. cbn [fst snd]. reflexivity. }
    rewrite (nsum_swap Rth).
    (* left-hand side *)
    rewrite combine_map_r, map_map. cbn [fst snd].
    apply nsum_map_ext. intros [w r] Hin. cbn [fst snd].
    assert (Hw : length w = nel).
    { rewrite Forall_forall in HWl. apply HWl. eapply in_combine_l; exact Hin. }
    rewrite (dot_seq w _ nel Hw) by (rewrite map_length; reflexivity).
    apply nsum_map_ext. intros l Hl. apply in_seq in Hl.
    rewrite (nth_map_lt _ dcs l nzero []) by (fold nel; lia). reflexivity.
  Qed.
End Adjoint.

(* ================================================================== Strain / Stress over the reals *)
Open Scope R_scope.

#[global] Instance ZT_R : ZeroTest R := {| is0 := fun r => if Req_EM_T r 0 then true else false |}.

Lemma is0_zero : is0 (0 : R) = true.
Proof. unfold is0, ZT_R. destruct (Req_EM_T 0 0) as [_|N]; [reflexivity | exfalso; apply N; reflexivity]. Qed.

Lemma is0_nz (v : R) : v <> 0 -> is0 v = false.
Proof. intros Hv. unfold is0, ZT_R. destruct (Req_EM_T v 0) as [E|_]; [contradiction | reflexivity]. Qed.

Ltac ops_unfold :=
  unfold strain_B, strain_Bavg, voigt_scale, B_at, getB, gauss_pos, madd, mscale, vadd, vscale, mvmul, dot, ilv2, ilv3,
         zeros_like, nodepos;
  shape_unfold.

(* closed form of the averaged B matrix, 2-D:  a = 1/(2 hx), b = 1/(2 hy) *)
Definition Bavg2_closed (a b : R) : list (list R) :=
  [[-a; 0; a; 0; -a; 0; a; 0];
   [0; -b; 0; -b; 0; b; 0; b];
   [-b; -a; -b; a; b; -a; b; a]].

Lemma strain_Bavg2 (s3 hx hy hz : R) : s3 <> 0 -> hx <> 0 -> hy <> 0 ->
  strain_Bavg s3 2 [hx; hy; hz] = Bavg2_closed (1 / (2 * hx)) (1 / (2 * hy)).
Proof.
  intros Hs Hx Hy. unfold Bavg2_closed. ops_unfold.
  repeat (apply (f_equal2 (@cons (list R))); [list_eq ltac:(field; auto)|]). reflexivity.
Qed.

Ltac is0_simpl a b :=
  let Ha := fresh in let Hb := fresh in
  assert (Ha : - a <> 0) by (apply Ropp_neq_0_compat; assumption);
  assert (Hb : - b <> 0) by (apply Ropp_neq_0_compat; assumption);
  unfold voigt_scale, count_nonzero; cbn [map filter];
  rewrite ?is0_zero, ?(is0_nz a), ?(is0_nz (- a)), ?(is0_nz b), ?(is0_nz (- b)) by assumption;
  cbn [negb length Nat.eqb Nat.mul Nat.pow Nat.add].

Lemma voigt_scale2_closed (a b : R) : a <> 0 -> b <> 0 ->
  voigt_scale 2 (Bavg2_closed a b) =
  [[-a; 0; a; 0; -a; 0; a; 0]; [0; -b; 0; -b; 0; b; 0; b];
   map (fun v => v * (1 + 1)) [-b; -a; -b; a; b; -a; b; a]].
Proof. intros Ha Hb. unfold Bavg2_closed. is0_simpl a b. reflexivity. Qed.

(* affine displacement field on one element: u(x) = G x + c at the nodes (local coordinates; any offset c) *)
Definition aff2 (h : list R) (g11 g12 g21 g22 c1 c2 : R) : list R :=
  flat_map (fun n => match nodepos h n with
                     | [x; y; _] => [c1 + g11 * x + g12 * y; c2 + g21 * x + g22 * y]
                     | _ => [] end) (node_numbering 2).

(* at EVERY point: B(p) u = (G11, G22, G12 + G21) — the symmetric gradient with engineering shear *)
Lemma B_affine2 hx hy hz px py pz g11 g12 g21 g22 c1 c2 : hx <> 0 -> hy <> 0 ->
  mvmul (B_at 2 [hx; hy; hz] [px; py; pz]) (aff2 [hx; hy; hz] g11 g12 g21 g22 c1 c2) = [g11; g22; g12 + g21].
Proof. intros. unfold aff2. elem_unfold. list_eq ltac:(field; auto). Qed.

(* what Strain returns on an affine field, 2-D: normal components exact, shear = 2 x engineering shear (voigt=True) *)
Lemma strain2_affine_voigt s3 hx hy hz g11 g12 g21 g22 c1 c2 : s3 <> 0 -> hx <> 0 -> hy <> 0 ->
  mvmul (strain_B s3 2 [hx; hy; hz] true) (aff2 [hx; hy; hz] g11 g12 g21 g22 c1 c2) = [g11; g22; 2 * (g12 + g21)].
Proof.
  intros Hs Hx Hy. unfold strain_B. rewrite strain_Bavg2 by assumption.
  rewrite voigt_scale2_closed by (unfold Rdiv; apply Rmult_integral_contrapositive_currified; [lra | apply Rinv_neq_0_compat; lra]).
  unfold aff2, mvmul, dot, nodepos. shape_unfold. list_eq ltac:(field; auto).
Qed.

(* voigt=False: the engineering shear itself (not the tensor component eps_xy) *)
Lemma strain2_affine_novoigt s3 hx hy hz g11 g12 g21 g22 c1 c2 : s3 <> 0 -> hx <> 0 -> hy <> 0 ->
  mvmul (strain_B s3 2 [hx; hy; hz] false) (aff2 [hx; hy; hz] g11 g12 g21 g22 c1 c2) = [g11; g22; g12 + g21].
Proof.
  intros Hs Hx Hy. unfold strain_B. rewrite strain_Bavg2 by assumption.
  unfold Bavg2_closed, aff2, mvmul, dot, nodepos. shape_unfold. list_eq ltac:(field; auto).
Qed.

Lemma count_nonzero_nil : count_nonzero (@nil R) = 0%nat.
Proof. reflexivity. Qed.
Lemma count_nonzero_z (l : list R) : count_nonzero (0 :: l) = count_nonzero l.
Proof. unfold count_nonzero. cbn [filter]. rewrite is0_zero. reflexivity. Qed.
Lemma count_nonzero_nz (v : R) (l : list R) : v <> 0 -> count_nonzero (v :: l) = S (count_nonzero l).
Proof. intros Hv. unfold count_nonzero. cbn [filter]. rewrite (is0_nz v Hv). reflexivity. Qed.

(* closed form of the averaged B matrix, 3-D (Voigt order yz, zx, xy):  a = 1/(4 hx), b = 1/(4 hy), c = 1/(4 hz) *)
Definition Bavg3_closed (a b c : R) : list (list R) :=
  [[-a; 0; 0; a; 0; 0; -a; 0; 0; a; 0; 0; -a; 0; 0; a; 0; 0; -a; 0; 0; a; 0; 0];
   [0; -b; 0; 0; -b; 0; 0; b; 0; 0; b; 0; 0; -b; 0; 0; -b; 0; 0; b; 0; 0; b; 0];
   [0; 0; -c; 0; 0; -c; 0; 0; -c; 0; 0; -c; 0; 0; c; 0; 0; c; 0; 0; c; 0; 0; c];
   [0; -c; -b; 0; -c; -b; 0; -c; b; 0; -c; b; 0; c; -b; 0; c; -b; 0; c; b; 0; c; b];
   [-c; 0; -a; -c; 0; a; -c; 0; -a; -c; 0; a; c; 0; -a; c; 0; a; c; 0; -a; c; 0; a];
   [-b; -a; 0; -b; a; 0; b; -a; 0; b; a; 0; -b; -a; 0; -b; a; 0; b; -a; 0; b; a; 0]].

Lemma strain_Bavg3 (s3 hx hy hz : R) : s3 <> 0 -> hx <> 0 -> hy <> 0 -> hz <> 0 ->
  strain_Bavg s3 3 [hx; hy; hz] = Bavg3_closed (1 / (4 * hx)) (1 / (4 * hy)) (1 / (4 * hz)).
Proof.
  intros Hs Hx Hy Hz. unfold Bavg3_closed. ops_unfold.
  repeat (apply (f_equal2 (@cons (list R))); [list_eq ltac:(field; auto)|]). reflexivity.
Qed.

Lemma voigt_scale3_closed (a b c : R) : a <> 0 -> b <> 0 -> c <> 0 ->
  voigt_scale 3 (Bavg3_closed a b c) =
  [[-a; 0; 0; a; 0; 0; -a; 0; 0; a; 0; 0; -a; 0; 0; a; 0; 0; -a; 0; 0; a; 0; 0];
   [0; -b; 0; 0; -b; 0; 0; b; 0; 0; b; 0; 0; -b; 0; 0; -b; 0; 0; b; 0; 0; b; 0];
   [0; 0; -c; 0; 0; -c; 0; 0; -c; 0; 0; -c; 0; 0; c; 0; 0; c; 0; 0; c; 0; 0; c];
   map (fun v => v * (1 + 1)) [0; -c; -b; 0; -c; -b; 0; -c; b; 0; -c; b; 0; c; -b; 0; c; -b; 0; c; b; 0; c; b];
   map (fun v => v * (1 + 1)) [-c; 0; -a; -c; 0; a; -c; 0; -a; -c; 0; a; c; 0; -a; c; 0; a; c; 0; -a; c; 0; a];
   map (fun v => v * (1 + 1)) [-b; -a; 0; -b; a; 0; b; -a; 0; b; a; 0; -b; -a; 0; -b; a; 0; b; -a; 0; b; a; 0]].
Proof.
  intros Ha Hb Hc. unfold Bavg3_closed.
  assert (Ha' : - a <> 0) by (apply Ropp_neq_0_compat; assumption).
  assert (Hb' : - b <> 0) by (apply Ropp_neq_0_compat; assumption).
  assert (Hc' : - c <> 0) by (apply Ropp_neq_0_compat; assumption).
  unfold voigt_scale; cbn [map].
  repeat (rewrite count_nonzero_z || rewrite count_nonzero_nz by assumption). rewrite !count_nonzero_nil.
  cbn [Nat.eqb Nat.mul Nat.pow Nat.add]. unfold two, nadd, nmul, none_; cbn [NumR]. reflexivity.
Qed.

(* u(x) = G x + c0 on one 3-D element *)
Definition aff3 (h : list R) (g11 g12 g13 g21 g22 g23 g31 g32 g33 c1 c2 c3 : R) : list R :=
  flat_map (fun n => match nodepos h n with
                     | [x; y; z] => [c1 + g11 * x + g12 * y + g13 * z; c2 + g21 * x + g22 * y + g23 * z;
                                     c3 + g31 * x + g32 * y + g33 * z]
                     | _ => [] end) (node_numbering 3).

Lemma B_affine3 hx hy hz px py pz g11 g12 g13 g21 g22 g23 g31 g32 g33 c1 c2 c3 : hx <> 0 -> hy <> 0 -> hz <> 0 ->
  mvmul (B_at 3 [hx; hy; hz] [px; py; pz]) (aff3 [hx; hy; hz] g11 g12 g13 g21 g22 g23 g31 g32 g33 c1 c2 c3)
  = [g11; g22; g33; g23 + g32; g13 + g31; g12 + g21].
Proof. intros. unfold aff3. elem_unfold. list_eq ltac:(field; auto). Qed.

Lemma nz4 (x : R) : x <> 0 -> 1 / (4 * x) <> 0.
Proof. intros. unfold Rdiv. apply Rmult_integral_contrapositive_currified; [lra | apply Rinv_neq_0_compat; lra]. Qed.

Lemma strain3_affine_voigt s3 hx hy hz g11 g12 g13 g21 g22 g23 g31 g32 g33 c1 c2 c3 :
  s3 <> 0 -> hx <> 0 -> hy <> 0 -> hz <> 0 ->
  mvmul (strain_B s3 3 [hx; hy; hz] true) (aff3 [hx; hy; hz] g11 g12 g13 g21 g22 g23 g31 g32 g33 c1 c2 c3)
  = [g11; g22; g33; 2 * (g23 + g32); 2 * (g13 + g31); 2 * (g12 + g21)].
Proof.
  intros Hs Hx Hy Hz. unfold strain_B. rewrite strain_Bavg3 by assumption.
  rewrite voigt_scale3_closed by (apply nz4; assumption).
  unfold aff3, mvmul, dot, nodepos. shape_unfold. list_eq ltac:(field; auto).
Qed.

Lemma strain3_affine_novoigt s3 hx hy hz g11 g12 g13 g21 g22 g23 g31 g32 g33 c1 c2 c3 :
  s3 <> 0 -> hx <> 0 -> hy <> 0 -> hz <> 0 ->
  mvmul (strain_B s3 3 [hx; hy; hz] false) (aff3 [hx; hy; hz] g11 g12 g13 g21 g22 g23 g31 g32 g33 c1 c2 c3)
  = [g11; g22; g33; g23 + g32; g13 + g31; g12 + g21].
Proof.
  intros Hs Hx Hy Hz. unfold strain_B. rewrite strain_Bavg3 by assumption.
  unfold Bavg3_closed, aff3, mvmul, dot, nodepos. shape_unfold. list_eq ltac:(field; auto).
Qed.

(* ================================================================== module level (any grid) *)
Lemma map_const_repeat {A B} (c : B) (l : list A) : map (fun _ => c) l = repeat c (length l).
Proof. induction l as [|a l IH]; cbn; [reflexivity|]. f_equal. exact IH. Qed.

(* if every element sees the same value vector v, the output rows are constant *)
Lemma op_fwd_const (rows : list (list R)) (dcs : list (list Z)) (u v : list R) : dcs <> [] ->
  (forall dce, In dce dcs -> mvmul rows (gatherZ u dce) = v) ->
  op_fwd rows dcs u = map (fun vi => repeat vi (length dcs)) v.
Proof.
  intros Hne. revert v. induction rows as [|r rows IH]; intros v Hv.
  - destruct dcs as [|dce0 dcs']; [contradiction|]. specialize (Hv dce0 (or_introl eq_refl)). cbn in Hv. subst v. reflexivity.
  - destruct v as [|v0 v].
    + destruct dcs as [|dce0 dcs']; [contradiction|]. specialize (Hv dce0 (or_introl eq_refl)). discriminate.
    + unfold op_fwd in *. cbn [map]. f_equal.
      * rewrite <- map_const_repeat. apply map_ext_in. intros dce Hin. specialize (Hv dce Hin). cbn [mvmul map] in Hv.
        inversion Hv. reflexivity.
      * apply IH. intros dce Hin. specialize (Hv dce Hin). cbn [mvmul map] in Hv. inversion Hv. reflexivity.
Qed.

Lemma dofconn_all_nonempty g ndof : wf g -> dofconn_all g ndof <> [].
Proof.
  intros Hwf E. apply (f_equal (@length _)) in E. rewrite dofconn_all_length in E. cbn in E.
  destruct Hwf as (Hx & Hy & Hz). unfold nel, nz1 in E. assert (0 < nelx g * nely g * Z.max (nelz g) 1)%Z by nia. lia.
Qed.

Lemma nnodes_pos g : wf g -> (0 < nnodes g)%Z.
Proof. intros (Hx & Hy & Hz). unfold nnodes. nia. Qed.

Lemma eo_ndof_field {K} `{Num K} g ndof (f : Z -> Z -> K) : wf g -> (0 <= ndof)%Z ->
  eo_ndof g (Z.of_nat (length (nodal_field g ndof f))) = ndof.
Proof.
  intros Hwf Hn. pose proof (nnodes_pos g Hwf) as Hp.
  rewrite nodal_field_length by lia. unfold eo_ndof, asm_n. rewrite Z2Nat.id by nia. apply Z.div_mul. lia.
Qed.

(* ---- Strain on a globally affine displacement field ---- *)
Section StrainGlobal2.
  Variables (g : grid) (s3 hx hy hz : R).
  Hypothesis Hwf : wf g.
  Hypothesis H2d : nelz g = 0%Z.
  Hypothesis Hs : s3 <> 0.
  Hypothesis Hx : hx <> 0.
  Hypothesis Hy : hy <> 0.
  Let h := [hx; hy; hz].
  Let cx (e : Z) := hx * (IZR (elem_i g e) + 1 / 2).
  Let cy (e : Z) := hy * (IZR (elem_j g e) + 1 / 2).

  (* u(n) = G pos(n) + c *)
  Definition affine_field2 (g11 g12 g21 g22 c1 c2 : R) (n d : Z) : R :=
    let x := hx * IZR (node_i g n) in let y := hy * IZR (node_j g n) in
    if Z.eqb d 0 then c1 + g11 * x + g12 * y else c2 + g21 * x + g22 * y.

  Lemma gather_affine2 g11 g12 g21 g22 c1 c2 e : (0 <= e < nel g)%Z ->
    gatherZ (nodal_field g 2 (affine_field2 g11 g12 g21 g22 c1 c2)) (dofconn g 2 e)
    = aff2 h g11 g12 g21 g22 (c1 + g11 * cx e + g12 * cy e) (c2 + g21 * cx e + g22 * cy e).
  Proof.
    intros He. rewrite gather_nodal_field by (auto; lia).
    rewrite flat_map_concat_map. unfold affine_field2. change (zrange 2) with [0%Z; 1%Z].
    rewrite (conn_map_ijk g e (fun i j k => map (fun d => if Z.eqb d 0 then c1 + g11 * (hx * IZR i) + g12 * (hy * IZR j)
                                                        else c2 + g21 * (hx * IZR i) + g22 * (hy * IZR j)) [0%Z; 1%Z]) Hwf He).
    rewrite H2d. unfold aff2, h, nodepos, cx, cy.
    cbn -[Rmult Rplus Rdiv Rminus IZR Rinv Ropp elem_i elem_j elem_k Z.add].
    rewrite !plus_IZR. repeat (apply (f_equal2 (@cons R)); [field|]). reflexivity.
  Qed.

  Lemma eo_response_strain2 voigt u : eo_ndof g (Z.of_nat (length u)) = 2%Z ->
    eo_response g (strain_opmat s3 2 h voigt) u = op_fwd (strain_B s3 2 h voigt) (dofconn_all g 2) u.
  Proof.
    intros Hn. unfold eo_response. rewrite Hn. unfold eo_effective, strain_opmat. cbn [om_kd om_rows].
    rewrite (elemnodes_2d g Hwf H2d). reflexivity.
  Qed.

  (* voigt=True: normal components exact, shear component = 2 x engineering shear, in every element of every grid *)
  Theorem strain2_global_voigt g11 g12 g21 g22 c1 c2 :
    eo_response g (strain_opmat s3 2 h true) (nodal_field g 2 (affine_field2 g11 g12 g21 g22 c1 c2))
    = map (fun v => repeat v (Z.to_nat (nel g))) [g11; g22; 2 * (g12 + g21)].
  Proof.
    rewrite eo_response_strain2 by (apply eo_ndof_field; [exact Hwf | lia]).
    rewrite <- (dofconn_all_length g 2). apply op_fwd_const; [apply dofconn_all_nonempty; exact Hwf|].
    intros dce Hin. unfold dofconn_all in Hin. apply in_map_iff in Hin as (e & <- & He). apply in_zrange in He.
    rewrite gather_affine2 by exact He. apply strain2_affine_voigt; assumption.
  Qed.

  Theorem strain2_global_novoigt g11 g12 g21 g22 c1 c2 :
    eo_response g (strain_opmat s3 2 h false) (nodal_field g 2 (affine_field2 g11 g12 g21 g22 c1 c2))
    = map (fun v => repeat v (Z.to_nat (nel g))) [g11; g22; g12 + g21].
  Proof.
    rewrite eo_response_strain2 by (apply eo_ndof_field; [exact Hwf | lia]).
    rewrite <- (dofconn_all_length g 2). apply op_fwd_const; [apply dofconn_all_nonempty; exact Hwf|].
    intros dce Hin. unfold dofconn_all in Hin. apply in_map_iff in Hin as (e & <- & He). apply in_zrange in He.
    rewrite gather_affine2 by exact He. apply strain2_affine_novoigt; assumption.
  Qed.
End StrainGlobal2.

Section StrainGlobal3.
  Variables (g : grid) (s3 hx hy hz : R).
  Hypothesis Hwf : wf g.
  Hypothesis H3d : nelz g <> 0%Z.
  Hypothesis Hs : s3 <> 0.
  Hypothesis Hx : hx <> 0.
  Hypothesis Hy : hy <> 0.
  Hypothesis Hz : hz <> 0.
  Let h := [hx; hy; hz].
  Let cx (e : Z) := hx * (IZR (elem_i g e) + 1 / 2).
  Let cy (e : Z) := hy * (IZR (elem_j g e) + 1 / 2).
  Let cz (e : Z) := hz * (IZR (elem_k g e) + 1 / 2).

  Definition affine_field3 (g11 g12 g13 g21 g22 g23 g31 g32 g33 c1 c2 c3 : R) (n d : Z) : R :=
    let x := hx * IZR (node_i g n) in let y := hy * IZR (node_j g n) in let z := hz * IZR (node_k g n) in
    if Z.eqb d 0 then c1 + g11 * x + g12 * y + g13 * z
    else if Z.eqb d 1 then c2 + g21 * x + g22 * y + g23 * z else c3 + g31 * x + g32 * y + g33 * z.

  Lemma gather_affine3 g11 g12 g13 g21 g22 g23 g31 g32 g33 c1 c2 c3 e : (0 <= e < nel g)%Z ->
    gatherZ (nodal_field g 3 (affine_field3 g11 g12 g13 g21 g22 g23 g31 g32 g33 c1 c2 c3)) (dofconn g 3 e)
    = aff3 h g11 g12 g13 g21 g22 g23 g31 g32 g33
           (c1 + g11 * cx e + g12 * cy e + g13 * cz e) (c2 + g21 * cx e + g22 * cy e + g23 * cz e)
           (c3 + g31 * cx e + g32 * cy e + g33 * cz e).
  Proof.
    intros He. rewrite gather_nodal_field by (auto; lia).
    rewrite flat_map_concat_map. unfold affine_field3. change (zrange 3) with [0%Z; 1%Z; 2%Z].
    rewrite (conn_map_ijk g e (fun i j k => map (fun d =>
       if Z.eqb d 0 then c1 + g11 * (hx * IZR i) + g12 * (hy * IZR j) + g13 * (hz * IZR k)
       else if Z.eqb d 1 then c2 + g21 * (hx * IZR i) + g22 * (hy * IZR j) + g23 * (hz * IZR k)
       else c3 + g31 * (hx * IZR i) + g32 * (hy * IZR j) + g33 * (hz * IZR k)) [0%Z; 1%Z; 2%Z]) Hwf He).
    assert (Hzb : Z.eqb (nelz g) 0 = false) by (apply Z.eqb_neq; exact H3d).
    rewrite Hzb. unfold aff3, h, nodepos, cx, cy, cz.
    cbn -[Rmult Rplus Rdiv Rminus IZR Rinv Ropp elem_i elem_j elem_k Z.add].
    rewrite !plus_IZR. repeat (apply (f_equal2 (@cons R)); [field|]). reflexivity.
  Qed.

  Lemma eo_response_strain3 voigt u : eo_ndof g (Z.of_nat (length u)) = 3%Z ->
    eo_response g (strain_opmat s3 3 h voigt) u = op_fwd (strain_B s3 3 h voigt) (dofconn_all g 3) u.
  Proof.
    intros Hn. unfold eo_response. rewrite Hn. unfold eo_effective, strain_opmat. cbn [om_kd om_rows].
    rewrite (elemnodes_3d g Hwf H3d). reflexivity.
  Qed.

  (* Voigt order xx, yy, zz, yz, zx, xy *)
  Theorem strain3_global_voigt g11 g12 g13 g21 g22 g23 g31 g32 g33 c1 c2 c3 :
    eo_response g (strain_opmat s3 3 h true)
                (nodal_field g 3 (affine_field3 g11 g12 g13 g21 g22 g23 g31 g32 g33 c1 c2 c3))
    = map (fun v => repeat v (Z.to_nat (nel g))) [g11; g22; g33; 2 * (g23 + g32); 2 * (g13 + g31); 2 * (g12 + g21)].
  Proof.
    rewrite eo_response_strain3 by (apply eo_ndof_field; [exact Hwf | lia]).
    rewrite <- (dofconn_all_length g 3). apply op_fwd_const; [apply dofconn_all_nonempty; exact Hwf|].
    intros dce Hin. unfold dofconn_all in Hin. apply in_map_iff in Hin as (e & <- & He). apply in_zrange in He.
    rewrite gather_affine3 by exact He. apply strain3_affine_voigt; assumption.
  Qed.

  Theorem strain3_global_novoigt g11 g12 g13 g21 g22 g23 g31 g32 g33 c1 c2 c3 :
    eo_response g (strain_opmat s3 3 h false)
                (nodal_field g 3 (affine_field3 g11 g12 g13 g21 g22 g23 g31 g32 g33 c1 c2 c3))
    = map (fun v => repeat v (Z.to_nat (nel g))) [g11; g22; g33; g23 + g32; g13 + g31; g12 + g21].
  Proof.
    rewrite eo_response_strain3 by (apply eo_ndof_field; [exact Hwf | lia]).
    rewrite <- (dofconn_all_length g 3). apply op_fwd_const; [apply dofconn_all_nonempty; exact Hwf|].
    intros dce Hin. unfold dofconn_all in Hin. apply in_map_iff in Hin as (e & <- & He). apply in_zrange in He.
    rewrite gather_affine3 by exact He. apply strain3_affine_novoigt; assumption.
  Qed.
End StrainGlobal3.

(* ================================================================== shapes of the operator arrays *)
Lemma voigt_scale_rows n d (B : list (list R)) :
  Forall (fun r => length r = n) B -> Forall (fun r => length r = n) (voigt_scale d B).
Proof.
  intros HB. unfold voigt_scale. apply Forall_forall. intros r Hr. apply in_map_iff in Hr as (row & <- & Hin).
  rewrite Forall_forall in HB. destruct (Nat.eqb _ _); [rewrite map_length|]; apply HB; exact Hin.
Qed.

Lemma strain_Bavg_shape2 (s3 hx hy hz : R) : mshape 3 8 (strain_Bavg s3 2 [hx; hy; hz]).
Proof.
  unfold strain_Bavg. cbn [node_numbering Z.of_nat Pos.of_succ_nat Pos.succ Z.eqb Pos.eqb].
  apply (fold_madd_shape 3 8 (fun n => mscale _ (B_at 2 [hx; hy; hz] (gauss_pos s3 [hx; hy; hz] n)))).
  - apply mscale_shape. destruct (B_shape2 hx hy hz (gauss_pos s3 [hx; hy; hz] (-1, -1, -1)%Z)) as [A B]. split; assumption.
  - intros n _. apply mscale_shape. destruct (B_shape2 hx hy hz (gauss_pos s3 [hx; hy; hz] n)) as [A B]. split; assumption.
Qed.

Lemma strain_Bavg_shape3 (s3 hx hy hz : R) : mshape 6 24 (strain_Bavg s3 3 [hx; hy; hz]).
Proof.
  unfold strain_Bavg. cbn [node_numbering Z.of_nat Pos.of_succ_nat Pos.succ Z.eqb Pos.eqb].
  apply (fold_madd_shape 6 24 (fun n => mscale _ (B_at 3 [hx; hy; hz] (gauss_pos s3 [hx; hy; hz] n)))).
  - apply mscale_shape. destruct (B_shape3 hx hy hz (gauss_pos s3 [hx; hy; hz] (-1, -1, -1)%Z)) as [A B]. split; assumption.
  - intros n _. apply mscale_shape. destruct (B_shape3 hx hy hz (gauss_pos s3 [hx; hy; hz] n)) as [A B]. split; assumption.
Qed.

Lemma strain_B_rows2 (s3 hx hy hz : R) v : Forall (fun r => length r = 8%nat) (strain_B s3 2 [hx; hy; hz] v).
Proof.
  unfold strain_B. destruct v; [apply voigt_scale_rows|]; apply (strain_Bavg_shape2 s3 hx hy hz).
Qed.

Lemma strain_B_rows3 (s3 hx hy hz : R) v : Forall (fun r => length r = 24%nat) (strain_B s3 3 [hx; hy; hz] v).
Proof.
  unfold strain_B. destruct v; [apply voigt_scale_rows|]; apply (strain_Bavg_shape3 s3 hx hy hz).
Qed.

(* ---- Stress = D @ Strain(voigt=True), for ANY nodal vector of the element ---- *)
Lemma stress2_is_D_strain (s3 hx hy hz E nu : R) mode v :
  mvmul (stress_B s3 2 [hx; hy; hz] E nu mode) v
  = mvmul (material_D 2 [hx; hy; hz] E nu mode) (mvmul (strain_B s3 2 [hx; hy; hz] true) v).
Proof. unfold stress_B. apply (mvmul_mmul RthR 8). apply strain_B_rows2. Qed.

Lemma stress3_is_D_strain (s3 hx hy hz E nu : R) mode v :
  mvmul (stress_B s3 3 [hx; hy; hz] E nu mode) v
  = mvmul (material_D 3 [hx; hy; hz] E nu mode) (mvmul (strain_B s3 3 [hx; hy; hz] true) v).
Proof. unfold stress_B. apply (mvmul_mmul RthR 24). apply strain_B_rows3. Qed.

(* on affine fields: sigma = D . (G11, G22, 2(G12+G21)) — the doubled shear is inherited *)
Theorem stress2_global g (s3 hx hy hz E nu : R) mode g11 g12 g21 g22 c1 c2 :
  wf g -> nelz g = 0%Z -> s3 <> 0 -> hx <> 0 -> hy <> 0 ->
  eo_response g (stress_opmat s3 2 [hx; hy; hz] E nu mode) (nodal_field g 2 (affine_field2 g hx hy g11 g12 g21 g22 c1 c2))
  = map (fun v => repeat v (Z.to_nat (nel g)))
        (mvmul (material_D 2 [hx; hy; hz] E nu mode) [g11; g22; 2 * (g12 + g21)]).
Proof.
  intros Hwf H2d Hs Hx Hy. unfold eo_response. rewrite eo_ndof_field by (auto; lia).
  replace (eo_effective g (stress_opmat s3 2 [hx; hy; hz] E nu mode) 2) with (stress_opmat s3 2 [hx; hy; hz] E nu mode)
    by (unfold eo_effective, stress_opmat; cbn [om_kd]; rewrite (elemnodes_2d g Hwf H2d); reflexivity).
  cbn [om_rows stress_opmat].
  rewrite <- (dofconn_all_length g 2). apply op_fwd_const; [apply dofconn_all_nonempty; exact Hwf|].
  intros dce Hin. unfold dofconn_all in Hin. apply in_map_iff in Hin as (e & <- & He). apply in_zrange in He.
  rewrite stress2_is_D_strain, (gather_affine2 g hx hy hz Hwf H2d) by exact He.
  rewrite strain2_affine_voigt by assumption. reflexivity.
Qed.

Theorem stress3_global g (s3 hx hy hz E nu : R) mode g11 g12 g13 g21 g22 g23 g31 g32 g33 c1 c2 c3 :
  wf g -> nelz g <> 0%Z -> s3 <> 0 -> hx <> 0 -> hy <> 0 -> hz <> 0 ->
  eo_response g (stress_opmat s3 3 [hx; hy; hz] E nu mode)
              (nodal_field g 3 (affine_field3 g hx hy hz g11 g12 g13 g21 g22 g23 g31 g32 g33 c1 c2 c3))
  = map (fun v => repeat v (Z.to_nat (nel g)))
        (mvmul (material_D 3 [hx; hy; hz] E nu mode) [g11; g22; g33; 2 * (g23 + g32); 2 * (g13 + g31); 2 * (g12 + g21)]).
Proof.
  intros Hwf H3d Hs Hx Hy Hz. unfold eo_response. rewrite eo_ndof_field by (auto; lia).
  replace (eo_effective g (stress_opmat s3 3 [hx; hy; hz] E nu mode) 3) with (stress_opmat s3 3 [hx; hy; hz] E nu mode)
    by (unfold eo_effective, stress_opmat; cbn [om_kd]; rewrite (elemnodes_3d g Hwf H3d); reflexivity).
  cbn [om_rows stress_opmat].
  rewrite <- (dofconn_all_length g 3). apply op_fwd_const; [apply dofconn_all_nonempty; exact Hwf|].
  intros dce Hin. unfold dofconn_all in Hin. apply in_map_iff in Hin as (e & <- & He). apply in_zrange in He.
  rewrite stress3_is_D_strain, (gather_affine3 g hx hy hz Hwf H3d) by exact He.
  rewrite strain3_affine_voigt by assumption. reflexivity.
Qed.

(* ---- ElementAverage ---- *)
Lemma average2_centroid (hx hy hz c0 gx gy : R) : hx <> 0 -> hy <> 0 ->
  dot (shape_fun 2 [hx; hy; hz] [0; 0; 0]) (linfield2 [hx; hy; hz] c0 gx gy) = c0.
Proof. intros. unfold linfield2, dot, nodepos. shape_unfold. field; auto. Qed.

Lemma average3_centroid (hx hy hz c0 gx gy gz : R) : hx <> 0 -> hy <> 0 -> hz <> 0 ->
  dot (shape_fun 3 [hx; hy; hz] [0; 0; 0]) (linfield3 [hx; hy; hz] c0 gx gy gz) = c0.
Proof. intros. unfold linfield3, dot, nodepos. shape_unfold. field; auto. Qed.

(* the output in element e is the value of the linear field at the centroid of e *)
Theorem average2_global g (hx hy hz c0 gx gy : R) : wf g -> nelz g = 0%Z -> hx <> 0 -> hy <> 0 ->
  eo_response g (average_opmat 2 [hx; hy; hz]) (nodal_field g 1 (lin_field2 g hx hy c0 gx gy))
  = [map (fun e => c0 + gx * (hx * (IZR (elem_i g e) + 1 / 2)) + gy * (hy * (IZR (elem_j g e) + 1 / 2))) (zrange (nel g))].
Proof.
  intros Hwf H2d Hx Hy. unfold eo_response. rewrite eo_ndof_field by (auto; lia).
  replace (eo_effective g (average_opmat 2 [hx; hy; hz]) 1) with (average_opmat 2 [hx; hy; hz])
    by (unfold eo_effective, average_opmat; cbn [om_kd]; rewrite (elemnodes_2d g Hwf H2d); reflexivity).
  cbn [om_rows average_opmat].
  unfold op_fwd, dofconn_all. cbn [map]. f_equal. rewrite map_map. apply map_ext_in. intros e He. apply in_zrange in He.
  rewrite (gather_lin2 g hx hy hz Hwf H2d) by exact He. apply average2_centroid; assumption.
Qed.

Theorem average3_global g (hx hy hz c0 gx gy gz : R) : wf g -> nelz g <> 0%Z -> hx <> 0 -> hy <> 0 -> hz <> 0 ->
  eo_response g (average_opmat 3 [hx; hy; hz]) (nodal_field g 1 (lin_field3 g hx hy hz c0 gx gy gz))
  = [map (fun e => c0 + gx * (hx * (IZR (elem_i g e) + 1 / 2)) + gy * (hy * (IZR (elem_j g e) + 1 / 2))
                      + gz * (hz * (IZR (elem_k g e) + 1 / 2))) (zrange (nel g))].
Proof.
  intros Hwf H3d Hx Hy Hz. unfold eo_response. rewrite eo_ndof_field by (auto; lia).
  replace (eo_effective g (average_opmat 3 [hx; hy; hz]) 1) with (average_opmat 3 [hx; hy; hz])
    by (unfold eo_effective, average_opmat; cbn [om_kd]; rewrite (elemnodes_3d g Hwf H3d); reflexivity).
  cbn [om_rows average_opmat].
  unfold op_fwd, dofconn_all. cbn [map]. f_equal. rewrite map_map. apply map_ext_in. intros e He. apply in_zrange in He.
  rewrite (gather_lin3 g hx hy hz Hwf H3d) by exact He. apply average3_centroid; assumption.
Qed.

(* ================================================================== NodalOperation is the transpose of ElementOperation *)
Theorem eo_no_adjoint g (em : @opmat R) ndof (X : list (list R)) (u : list R) :
  wf g -> (1 <= ndof)%Z -> om_kd em = (elemnodes g * ndof)%Z ->
  Forall (fun r => length r = Z.to_nat (om_kd em)) (om_rows em) ->
  length u = Z.to_nat (ndof * nnodes g) ->
  length X = length (om_rows em) -> Forall (fun w => length w = Z.to_nat (nel g)) X ->
  mdot X (eo_response g em u) = dot (no_response g em X) u.
Proof.
  intros Hwf Hn Hkd Hrows Hu HX HXl.
  pose proof (nnodes_pos g Hwf) as Hp.
  assert (Hen : (0 < elemnodes g)%Z) by (unfold elemnodes; apply Z.pow_pos_nonneg; [lia | rewrite (dim_wf g Hwf); destruct (Z.eqb (nelz g) 0); lia]).
  unfold eo_response, no_response.
  assert (E1 : eo_ndof g (Z.of_nat (length u)) = ndof).
  { unfold eo_ndof. rewrite Hu, Z2Nat.id by nia. apply Z.div_mul. lia. }
  assert (E2 : no_ndof g em = ndof).
  { unfold no_ndof. rewrite Hkd, Z.mul_comm. apply Z.div_mul. lia. }
  rewrite E1, E2. unfold eo_effective. rewrite Hkd, Z.eqb_refl. rewrite <- Hkd.
  apply (op_adjoint RthR); try assumption.
  - rewrite dofconn_all_length. exact HXl.
  - pose proof (dofconn_all_range g ndof Hwf ltac:(lia)) as Hr. unfold asm_n in Hr.
    eapply Forall_impl; [|exact Hr]. intros row Hrow. eapply Forall_impl; [|exact Hrow]. intros v Hv. cbn beta in Hv. lia.
Qed.

(* ================================================================== ThermoMechanical *)
Lemma dot_allz_l (a v : list R) : allz a -> dot a v = 0.
Proof. intros Ha. rewrite (dot_comm RthR). apply (dot_allz_r RthR). exact Ha. Qed.

Lemma dot_fold_vadd {A} m (t : A -> list R) l v0 r :
  (forall a, length (t a) = m) -> length v0 = m ->
  dot (fold_left (fun acc a => vadd acc (t a)) l v0) r = dot v0 r + nsum (map (fun a => dot (t a) r) l).
Proof.
  intros Ht. revert v0. induction l as [|a l IH]; intros v0 H0; cbn [fold_left map].
  - cbn. lra.
  - rewrite IH by (rewrite vadd_length; rewrite ?Ht; auto). rewrite (dot_vadd_l RthR) by (rewrite Ht; exact H0).
    rewrite nsum_cons. rnum. lra.
Qed.

Lemma mvmul_vscale_r (M : list (list R)) c v : mvmul M (vscale c v) = vscale c (mvmul M v).
Proof.
  unfold mvmul, vscale at 2. rewrite map_map. apply map_ext. intros r. apply (dot_vscale_r RthR).
Qed.

Lemma vscale_vadd c (a b : list R) : vscale c (vadd a b) = vadd (vscale c a) (vscale c b).
Proof.
  revert b; induction a as [|x a IH]; intros [|y b]; try reflexivity.
  unfold vscale, vadd in *. cbn [combine map fst snd]. f_equal; [rnum; lra | apply IH].
Qed.

Lemma fold_vadd_vscale {A} c (t : A -> list R) l v0 :
  vscale c (fold_left (fun acc a => vadd acc (t a)) l v0) = fold_left (fun acc a => vadd acc (vscale c (t a))) l (vscale c v0).
Proof.
  revert v0. induction l as [|a l IH]; intros v0; cbn [fold_left]; [reflexivity|]. rewrite IH, vscale_vadd. reflexivity.
Qed.

Lemma fold_madd_mvmul {A} m n (f : A -> list (list R)) l M0 u :
  mshape m n M0 -> (forall a, In a l -> mshape m n (f a)) ->
  mvmul (fold_left (fun M a => madd M (f a)) l M0) u = fold_left (fun v a => vadd v (mvmul (f a) u)) l (mvmul M0 u).
Proof.
  revert M0. induction l as [|a l IH]; intros M0 H0 Hf; cbn [fold_left]; [reflexivity|].
  assert (Ha : mshape m n (f a)) by (apply Hf; left; reflexivity).
  rewrite IH; [| apply madd_shape; assumption | intros; apply Hf; right; assumption].
  rewrite (mvmul_madd RthR) by (eapply mshape_Forall2; eassumption). reflexivity.
Qed.

Lemma fold_left_ext_in {A B} (f g : B -> A -> B) l b0 : (forall b a, In a l -> f b a = g b a) -> fold_left f l b0 = fold_left g l b0.
Proof.
  revert b0. induction l as [|a l IH]; intros b0 E; cbn [fold_left]; [reflexivity|].
  rewrite E by (left; reflexivity). apply IH. intros; apply E; right; assumption.
Qed.

Section Thermo.
  Variables (s3 : R) (d : nat) (h : list R) (E nu : R) (mode : Z).
  Let nd := eldofs d.
  Let ns := nstrain d.
  Let D := material_D d h E nu mode.
  Let Bn (n : Z * Z * Z) := B_at d h (gauss_pos s3 h n).
  Let tn (n : Z * Z * Z) := mvmul (mmul ns (mscale (gauss_w d h) (mtrans nd (Bn n))) D) (thermo_phi d).
  Hypothesis HB : forall n, In n (node_numbering (Z.of_nat d)) -> Forall (fun r => length r = nd) (Bn n) /\ length (Bn n) = ns.
  Hypothesis HD : Forall (fun r => length r = ns) D.

  Lemma tn_length n : length (tn n) = nd.
  Proof. unfold tn, mmul, mscale, mtrans. rewrite mvmul_length, !map_length, seq_length. reflexivity. Qed.

  Lemma BDPhi_length : length (thermo_BDPhi s3 d h E nu mode) = nd.
  Proof.
    unfold thermo_BDPhi. fold nd ns D. generalize (node_numbering (Z.of_nat d)). intros l.
    assert (Hgen : forall v0, length v0 = nd -> length (fold_left (fun acc n => vadd acc (tn n)) l v0) = nd).
    { induction l as [|n l IH]; intros v0 H0; cbn [fold_left]; [exact H0|].
      apply IH. rewrite vadd_length; rewrite ?tn_length; auto. }
    apply Hgen. apply vzero_length.
  Qed.

  (* a field annihilated by B at every Gauss point does no work against the thermal load *)
  Lemma BDPhi_dot_null r :
    (forall n, In n (node_numbering (Z.of_nat d)) -> allz (mvmul (Bn n) r)) ->
    dot (thermo_BDPhi s3 d h E nu mode) r = 0.
  Proof.
    intros Hr. unfold thermo_BDPhi. fold nd ns D.
    rewrite (dot_fold_vadd nd tn) by (try apply tn_length; apply vzero_length).
    rewrite (dot_vzero_l RthR). rnum. rewrite Rplus_0_l.
    rewrite (nsum_map_ext _ (fun _ => 0)); [apply (nsum_map_zero RthR)|].
    intros n Hn. unfold tn. rewrite (mvmul_mmul RthR ns) by exact HD.
    rewrite (mvmul_mscale RthR), (dot_comm RthR), (dot_vscale_r RthR), (dot_mtrans RthR nd) by (apply HB; exact Hn).
    rewrite dot_allz_l by (apply Hr; exact Hn). rnum. lra.
  Qed.

  (* K_e u = alpha * BDPhi whenever B u = alpha * Phi at every Gauss point *)
  Lemma K_expansion u alpha :
    (forall n, In n (node_numbering (Z.of_nat d)) -> mvmul (Bn n) u = vscale alpha (thermo_phi d)) ->
    mvmul (stiffness_element s3 d h E nu mode) u = vscale alpha (thermo_BDPhi s3 d h E nu mode).
  Proof.
    intros Hu. unfold stiffness_element, thermo_BDPhi. fold nd ns D.
    rewrite (fold_madd_mvmul nd nd (fun n => BtDB d (gauss_w d h) (Bn n) D)).
    - rewrite (mvmul_mzero RthR), fold_vadd_vscale, (vscale_vzero RthR).
      apply fold_left_ext_in. intros v n Hn. f_equal. unfold BtDB. fold nd ns.
      rewrite (mvmul_mmul RthR nd) by (apply HB; exact Hn). rewrite (Hu n Hn). apply mvmul_vscale_r.
    - apply mzero_shape.
    - intros n _. apply (BtDB_shape d h E nu mode).
  Qed.
End Thermo.

Lemma B_dirvec2 (hx hy hz px py pz : R) k : hx <> 0 -> hy <> 0 -> (k < 2)%nat ->
  mvmul (B_at 2 [hx; hy; hz] [px; py; pz]) (dirvec 2 4 k) = [0; 0; 0].
Proof.
  intros Hx Hy Hk. do 2 (destruct k as [|k]; [unfold dirvec, unitv; elem_unfold; list_eq ltac:(field; auto)|]). lia.
Qed.

Lemma B_dirvec3 (hx hy hz px py pz : R) k : hx <> 0 -> hy <> 0 -> hz <> 0 -> (k < 3)%nat ->
  mvmul (B_at 3 [hx; hy; hz] [px; py; pz]) (dirvec 3 8 k) = [0; 0; 0; 0; 0; 0].
Proof.
  intros Hx Hy Hz Hk. do 3 (destruct k as [|k]; [unfold dirvec, unitv; elem_unfold; list_eq ltac:(field; auto)|]). lia.
Qed.

(* the free thermal expansion field alpha * x restricted to an element is aff with G = alpha * I *)
Lemma thermo2_is_K_expansion (s3 hx hy hz E nu alpha c1 c2 : R) mode : (mode = 0 \/ mode = 1)%Z -> hx <> 0 -> hy <> 0 ->
  mvmul (stiffness_element s3 2 [hx; hy; hz] E nu mode) (aff2 [hx; hy; hz] alpha 0 0 alpha c1 c2)
  = vscale alpha (thermo_BDPhi s3 2 [hx; hy; hz] E nu mode).
Proof.
  intros Hm Hx Hy. apply (K_expansion s3 2 [hx; hy; hz] E nu mode (HB2 s3 hx hy hz)).
  intros n _. unfold gauss_pos; cbn [map seq]. rewrite B_affine2 by assumption.
  unfold thermo_phi, vscale. cbn. rnum. repeat (apply (f_equal2 (@cons R)); [lra|]). reflexivity.
Qed.

Lemma thermo3_is_K_expansion (s3 hx hy hz E nu alpha c1 c2 c3 : R) mode : hx <> 0 -> hy <> 0 -> hz <> 0 ->
  mvmul (stiffness_element s3 3 [hx; hy; hz] E nu mode) (aff3 [hx; hy; hz] alpha 0 0 0 alpha 0 0 0 alpha c1 c2 c3)
  = vscale alpha (thermo_BDPhi s3 3 [hx; hy; hz] E nu mode).
Proof.
  intros Hx Hy Hz. apply (K_expansion s3 3 [hx; hy; hz] E nu mode (HB3 s3 hx hy hz)).
  intros n _. unfold gauss_pos; cbn [map seq]. rewrite B_affine3 by assumption.
  unfold thermo_phi, vscale. cbn. rnum. repeat (apply (f_equal2 (@cons R)); [lra|]). reflexivity.
Qed.

(* the nodal forces sum to zero in every direction, on every grid, for every elementwise input *)
Theorem thermal2_self_equilibrated g (s3 hx hy hz E nu alpha : R) mode (x : list R) k :
  wf g -> nelz g = 0%Z -> (mode = 0 \/ mode = 1)%Z -> hx <> 0 -> hy <> 0 -> length x = Z.to_nat (nel g) -> (k < 2)%nat ->
  dot (no_response g (thermo_opmat s3 2 [hx; hy; hz] E nu alpha mode) [x]) (nodal_field g 2 (dir_field (Z.of_nat k))) = 0.
Proof.
  intros Hwf H2d Hmode Hx Hy Hxl Hk.
  assert (Hnn : (0 <= nnodes g)%Z) by (pose proof (nnodes_pos g Hwf); lia).
  set (em := thermo_opmat s3 2 [hx; hy; hz] E nu alpha mode). set (u := nodal_field g 2 (dir_field (Z.of_nat k))).
  assert (Hkd : om_kd em = (elemnodes g * 2)%Z) by (unfold em, thermo_opmat; cbn [om_kd]; rewrite (elemnodes_2d g Hwf H2d); reflexivity).
  assert (Hrows : Forall (fun r => length r = Z.to_nat (om_kd em)) (om_rows em)).
  { unfold em, thermo_opmat; cbn [om_kd om_rows]. constructor; [|constructor].
    rewrite vscale_length, (BDPhi_length s3 2). reflexivity. }
  assert (Hu : length u = Z.to_nat (2 * nnodes g)) by (unfold u; rewrite nodal_field_length by lia; reflexivity).
  assert (HXl : Forall (fun w => length w = Z.to_nat (nel g)) [x]) by (constructor; [exact Hxl | constructor]).
  rewrite <- (eo_no_adjoint g em 2 [x] u Hwf ltac:(lia) Hkd Hrows Hu eq_refl HXl).
  unfold eo_response, u. rewrite eo_ndof_field by (auto; lia). unfold eo_effective. rewrite Hkd, Z.eqb_refl.
  unfold em at 1. cbn [om_rows thermo_opmat]. unfold op_fwd, mdot. cbn [map combine fst snd]. rewrite nsum_cons. cbn [nsum fold_right].
  rewrite (dot_allz_r RthR); [rnum; lra|].
  apply Forall_forall. intros v Hv. apply in_map_iff in Hv as (dce & <- & Hin).
  unfold dofconn_all in Hin. apply in_map_iff in Hin as (e & <- & He). apply in_zrange in He.
  change 2%Z with (Z.of_nat 2). rewrite (gather_dir g Hwf H2d 2) by (auto; lia). rewrite Nat2Z.id.
  rewrite (dot_vscale_l RthR).
  rewrite (BDPhi_dot_null s3 2 [hx; hy; hz] E nu mode (HB2 s3 hx hy hz)); [rnum; lra | apply D_shape2; exact Hmode |].
  intros n _. unfold gauss_pos; cbn [map seq]. rewrite B_dirvec2 by assumption. repeat constructor.
Qed.

Theorem thermal3_self_equilibrated g (s3 hx hy hz E nu alpha : R) mode (x : list R) k :
  wf g -> nelz g <> 0%Z -> hx <> 0 -> hy <> 0 -> hz <> 0 -> length x = Z.to_nat (nel g) -> (k < 3)%nat ->
  dot (no_response g (thermo_opmat s3 3 [hx; hy; hz] E nu alpha mode) [x]) (nodal_field g 3 (dir_field (Z.of_nat k))) = 0.
Proof.
  intros Hwf H3d Hx Hy Hz Hxl Hk.
  assert (Hnn : (0 <= nnodes g)%Z) by (pose proof (nnodes_pos g Hwf); lia).
  set (em := thermo_opmat s3 3 [hx; hy; hz] E nu alpha mode). set (u := nodal_field g 3 (dir_field (Z.of_nat k))).
  assert (Hkd : om_kd em = (elemnodes g * 3)%Z) by (unfold em, thermo_opmat; cbn [om_kd]; rewrite (elemnodes_3d g Hwf H3d); reflexivity).
  assert (Hrows : Forall (fun r => length r = Z.to_nat (om_kd em)) (om_rows em)).
  { unfold em, thermo_opmat; cbn [om_kd om_rows]. constructor; [|constructor].
    rewrite vscale_length, (BDPhi_length s3 3). reflexivity. }
  assert (Hu : length u = Z.to_nat (3 * nnodes g)) by (unfold u; rewrite nodal_field_length by lia; reflexivity).
  assert (HXl : Forall (fun w => length w = Z.to_nat (nel g)) [x]) by (constructor; [exact Hxl | constructor]).
  rewrite <- (eo_no_adjoint g em 3 [x] u Hwf ltac:(lia) Hkd Hrows Hu eq_refl HXl).
  unfold eo_response, u. rewrite eo_ndof_field by (auto; lia). unfold eo_effective. rewrite Hkd, Z.eqb_refl.
  unfold em at 1. cbn [om_rows thermo_opmat]. unfold op_fwd, mdot. cbn [map combine fst snd]. rewrite nsum_cons. cbn [nsum fold_right].
  rewrite (dot_allz_r RthR); [rnum; lra|].
  apply Forall_forall. intros v Hv. apply in_map_iff in Hv as (dce & <- & Hin).
  unfold dofconn_all in Hin. apply in_map_iff in Hin as (e & <- & He). apply in_zrange in He.
  change 3%Z with (Z.of_nat 3). rewrite (gather_dir3 g Hwf H3d 3) by (auto; lia). rewrite Nat2Z.id.
  rewrite (dot_vscale_l RthR).
  rewrite (BDPhi_dot_null s3 3 [hx; hy; hz] E nu mode (HB3 s3 hx hy hz)); [rnum; lra | apply D_shape3 |].
  intros n _. unfold gauss_pos; cbn [map seq]. rewrite B_dirvec3 by assumption. repeat constructor.
Qed.

(* ================================================================== energy *)
(* sum_e x_e * V * sigma_e . eps_e  for element arrays given by their rows (components x elements) *)
Definition col_dot (T S : list (list R)) (e : nat) : R :=
  nsum (map (fun p => nth e (fst p) 0 * nth e (snd p) 0) (combine T S)).
Definition energy_sum (x : list R) (V : R) (T S : list (list R)) : R :=
  nsum (map (fun e => nth e x 0 * V * col_dot T S e) (seq 0 (length x))).

Lemma nth_repeat_lt (v : R) n e : (e < n)%nat -> nth e (repeat v n) 0 = v.
Proof. revert e; induction n as [|n IH]; intros [|e] He; cbn; try lia; auto. apply IH. lia. Qed.

Lemma col_dot_const (sg ep : list R) n e : (e < n)%nat ->
  col_dot (map (fun v => repeat v n) sg) (map (fun v => repeat v n) ep) e = dot sg ep.
Proof.
  intros He. unfold col_dot, dot. revert ep. induction sg as [|s sg IH]; intros [|p ep]; cbn [map combine]; try reflexivity.
  rewrite !nsum_cons. cbn [fst snd]. rewrite IH. rewrite !nth_repeat_lt by exact He. reflexivity.
Qed.

Lemma energy_sum_const x V (sg ep : list R) :
  energy_sum x V (map (fun v => repeat v (length x)) sg) (map (fun v => repeat v (length x)) ep) = V * dot sg ep * nsum x.
Proof.
  unfold energy_sum.
  rewrite (nsum_map_ext _ (fun e => nth e x 0 * (V * dot sg ep))).
  - induction x as [|a x IH]; [cbn; lra|].
    cbn [length seq map nth]. rewrite <- seq_shift, map_map. rewrite !nsum_cons. cbn [nth] in *. rewrite IH. rnum. lra.
  - intros e He. apply in_seq in He. rewrite col_dot_const by lia. lra.
Qed.

(* element level: u_e^T K_e u_e = V * eps^T D eps  with the TRUE strain eps = (G11, G22, G12+G21) *)
Lemma energy2_elem (s3 hx hy hz E nu g11 g12 g21 g22 c1 c2 : R) mode : (mode = 0 \/ mode = 1)%Z -> hx <> 0 -> hy <> 0 ->
  quad (stiffness_element s3 2 [hx; hy; hz] E nu mode) (aff2 [hx; hy; hz] g11 g12 g21 g22 c1 c2)
  = hx * hy * quad (material_D 2 [hx; hy; hz] E nu mode) [g11; g22; g12 + g21].
Proof.
  intros Hm Hx Hy. unfold quad at 1. rewrite (stiffness2_bil s3 hx hy hz E nu mode Hm).
  rewrite (nsum_map_ext _ (fun _ => hx / 2 * (hy / 2) * quad (material_D 2 [hx; hy; hz] E nu mode) [g11; g22; g12 + g21])).
  - change (node_numbering 2) with [(-1, -1, -1); (1, -1, -1); (-1, 1, -1); (1, 1, -1)]%Z.
    cbn [map]. rewrite !nsum_cons. cbn [nsum fold_right]. rnum. field.
  - intros n _. unfold gauss_pos; cbn [map seq]. rewrite B_affine2 by assumption.
    unfold quad. match goal with |- context [bil ?DD ?a ?b] => generalize (bil DD a b); intros q end.
    unfold gauss_w, nprod, two. cbn. rnum. field.
Qed.

Lemma energy3_elem (s3 hx hy hz E nu g11 g12 g13 g21 g22 g23 g31 g32 g33 c1 c2 c3 : R) mode : hx <> 0 -> hy <> 0 -> hz <> 0 ->
  quad (stiffness_element s3 3 [hx; hy; hz] E nu mode) (aff3 [hx; hy; hz] g11 g12 g13 g21 g22 g23 g31 g32 g33 c1 c2 c3)
  = hx * hy * hz * quad (material_D 3 [hx; hy; hz] E nu mode) [g11; g22; g33; g23 + g32; g13 + g31; g12 + g21].
Proof.
  intros Hx Hy Hz. unfold quad at 1. rewrite (stiffness3_bil s3 hx hy hz E nu mode).
  rewrite (nsum_map_ext _ (fun _ => hx / 2 * (hy / 2) * (hz / 2) *
             quad (material_D 3 [hx; hy; hz] E nu mode) [g11; g22; g33; g23 + g32; g13 + g31; g12 + g21])).
  - change (node_numbering 3) with [(-1, -1, -1); (1, -1, -1); (-1, 1, -1); (1, 1, -1); (-1, -1, 1); (1, -1, 1); (-1, 1, 1); (1, 1, 1)]%Z.
    cbn [map]. rewrite !nsum_cons. cbn [nsum fold_right]. rnum. field.
  - intros n _. unfold gauss_pos; cbn [map seq]. rewrite B_affine3 by assumption.
    unfold quad. match goal with |- context [bil ?DD ?a ?b] => generalize (bil DD a b); intros q end.
    unfold gauss_w, nprod, two. cbn. rnum. field.
Qed.

(* doubled-shear bookkeeping of the module outputs: sigma_m . eps_m = eps^T D eps + 3 * (shear part of the energy) *)
Lemma energy2_bookkeeping (hx hy hz E nu a b gm : R) mode : (mode = 0 \/ mode = 1)%Z ->
  let D := material_D 2 [hx; hy; hz] E nu mode in
  dot (mvmul D [a; b; 2 * gm]) [a; b; 2 * gm] = quad D [a; b; gm] + 3 * quad D [0; 0; gm].
Proof. intros [-> | ->] D; unfold D; D_unfold; ring. Qed.

Lemma energy3_bookkeeping (hx hy hz E nu a b c g1 g2 g3 : R) mode :
  let D := material_D 3 [hx; hy; hz] E nu mode in
  dot (mvmul D [a; b; c; 2 * g1; 2 * g2; 2 * g3]) [a; b; c; 2 * g1; 2 * g2; 2 * g3]
  = quad D [a; b; c; g1; g2; g3] + 3 * quad D [0; 0; 0; g1; g2; g3].
Proof. intros D; unfold D; D_unfold; ring. Qed.

(* global: the energy computed from the Stress/Strain outputs equals u^T K u plus three times the shear energy;
   in particular it equals u^T K u exactly when the gradient is shear-free *)
Theorem energy2_global g (s3 hx hy hz E nu : R) mode (bcd : R) (x : list R) g11 g12 g21 g22 c1 c2 :
  wf g -> nelz g = 0%Z -> (mode = 0 \/ mode = 1)%Z -> s3 <> 0 -> hx <> 0 -> hy <> 0 -> length x = Z.to_nat (nel g) ->
  let h := [hx; hy; hz] in
  let u := nodal_field g 2 (affine_field2 g hx hy g11 g12 g21 g22 c1 c2) in
  let D := material_D 2 h E nu mode in
  energy_sum x (hx * hy) (eo_response g (stress_opmat s3 2 h E nu mode) u) (eo_response g (strain_opmat s3 2 h true) u)
  = dot u (apply (to_triples (asm_ztriples g (stiffness_element s3 2 h E nu mode) None bcd x)) (Z.to_nat (asm_n g 2)) u)
    + 3 * (hx * hy) * quad D [0; 0; g12 + g21] * nsum x.
Proof.
  intros Hwf H2d Hm Hs Hx Hy Hxl h u D.
  unfold u, h. rewrite stress2_global, strain2_global_voigt by assumption. rewrite <- Hxl.
  rewrite energy_sum_const. rewrite (energy2_bookkeeping hx hy hz E nu g11 g22 (g12 + g21) mode Hm).
  destruct (stiffness2_asm_wf g s3 hx hy hz E nu mode None [] x Hwf H2d Hm Hxl I (Forall_nil _)) as [(_ & Hn & Hsh & _) Hndof].
  assert (Hnn : (0 <= nnodes g)%Z) by (pose proof (nnodes_pos g Hwf); lia).
  pose proof (asm_bilinear RthR g (stiffness_element s3 2 [hx; hy; hz] E nu mode) bcd x
                (nodal_field g 2 (affine_field2 g hx hy g11 g12 g21 g22 c1 c2))
                (nodal_field g 2 (affine_field2 g hx hy g11 g12 g21 g22 c1 c2))) as Hbil.
  rewrite Hndof in Hbil. rewrite Hbil; auto; try lia; try (apply nodal_field_length; lia); try (rewrite Hndof in Hsh; exact Hsh).
  rewrite (nsum_map_ext _ (fun p => snd p * (hx * hy * quad (material_D 2 [hx; hy; hz] E nu mode) [g11; g22; g12 + g21]))).
  - rewrite nsum_combine_const by (rewrite dofconn_all_length; symmetry; exact Hxl). unfold D, h. ring.
  - intros [row xe] Hin. cbn [fst snd]. apply in_combine_l in Hin. unfold dofconn_all in Hin.
    apply in_map_iff in Hin as (e & <- & He). apply in_zrange in He.
    rewrite (gather_affine2 g hx hy hz Hwf H2d) by exact He.
    match goal with |- context [bil ?K ?a ?a] => change (bil K a a) with (quad K a) end.
    rewrite energy2_elem by assumption. reflexivity.
Qed.

Theorem energy3_global g (s3 hx hy hz E nu : R) mode (bcd : R) (x : list R) g11 g12 g13 g21 g22 g23 g31 g32 g33 c1 c2 c3 :
  wf g -> nelz g <> 0%Z -> s3 <> 0 -> hx <> 0 -> hy <> 0 -> hz <> 0 -> length x = Z.to_nat (nel g) ->
  let h := [hx; hy; hz] in
  let u := nodal_field g 3 (affine_field3 g hx hy hz g11 g12 g13 g21 g22 g23 g31 g32 g33 c1 c2 c3) in
  let D := material_D 3 h E nu mode in
  energy_sum x (hx * hy * hz) (eo_response g (stress_opmat s3 3 h E nu mode) u) (eo_response g (strain_opmat s3 3 h true) u)
  = dot u (apply (to_triples (asm_ztriples g (stiffness_element s3 3 h E nu mode) None bcd x)) (Z.to_nat (asm_n g 3)) u)
    + 3 * (hx * hy * hz) * quad D [0; 0; 0; g23 + g32; g13 + g31; g12 + g21] * nsum x.
Proof.
  intros Hwf H3d Hs Hx Hy Hz Hxl h u D.
  unfold u, h. rewrite stress3_global, strain3_global_voigt by assumption. rewrite <- Hxl.
  rewrite energy_sum_const. rewrite (energy3_bookkeeping hx hy hz E nu g11 g22 g33 (g23 + g32) (g13 + g31) (g12 + g21) mode).
  destruct (stiffness3_asm_wf g s3 hx hy hz E nu mode None [] x Hwf H3d Hxl I (Forall_nil _)) as [(_ & Hn & Hsh & _) Hndof].
  assert (Hnn : (0 <= nnodes g)%Z) by (pose proof (nnodes_pos g Hwf); lia).
  pose proof (asm_bilinear RthR g (stiffness_element s3 3 [hx; hy; hz] E nu mode) bcd x
                (nodal_field g 3 (affine_field3 g hx hy hz g11 g12 g13 g21 g22 g23 g31 g32 g33 c1 c2 c3))
                (nodal_field g 3 (affine_field3 g hx hy hz g11 g12 g13 g21 g22 g23 g31 g32 g33 c1 c2 c3))) as Hbil.
  rewrite Hndof in Hbil. rewrite Hbil; auto; try lia; try (apply nodal_field_length; lia); try (rewrite Hndof in Hsh; exact Hsh).
  rewrite (nsum_map_ext _ (fun p => snd p * (hx * hy * hz * quad (material_D 3 [hx; hy; hz] E nu mode)
                                                        [g11; g22; g33; g23 + g32; g13 + g31; g12 + g21]))).
  - rewrite nsum_combine_const by (rewrite dofconn_all_length; symmetry; exact Hxl). unfold D, h. ring.
  - intros [row xe] Hin. cbn [fst snd]. apply in_combine_l in Hin. unfold dofconn_all in Hin.
    apply in_map_iff in Hin as (e & <- & He). apply in_zrange in He.
    rewrite (gather_affine3 g hx hy hz Hwf H3d) by exact He.
    match goal with |- context [bil ?K ?a ?a] => change (bil K a a) with (quad K a) end.
    rewrite energy3_elem by assumption. reflexivity.
Qed.

(* ================================================================== corollaries: shear-free energy identity, refutations *)
Theorem energy2_shear_free g (s3 hx hy hz E nu : R) mode (bcd : R) (x : list R) g11 g12 g21 g22 c1 c2 :
  wf g -> nelz g = 0%Z -> (mode = 0 \/ mode = 1)%Z -> s3 <> 0 -> hx <> 0 -> hy <> 0 -> length x = Z.to_nat (nel g) ->
  g12 + g21 = 0 ->
  let h := [hx; hy; hz] in
  let u := nodal_field g 2 (affine_field2 g hx hy g11 g12 g21 g22 c1 c2) in
  energy_sum x (hx * hy) (eo_response g (stress_opmat s3 2 h E nu mode) u) (eo_response g (strain_opmat s3 2 h true) u)
  = dot u (apply (to_triples (asm_ztriples g (stiffness_element s3 2 h E nu mode) None bcd x)) (Z.to_nat (asm_n g 2)) u).
Proof.
  intros Hwf H2d Hm Hs Hx Hy Hxl Hg h u. unfold u, h.
  rewrite (energy2_global g s3 hx hy hz E nu mode bcd x g11 g12 g21 g22 c1 c2) by assumption. rewrite Hg.
  replace (quad (material_D 2 [hx; hy; hz] E nu mode) [0; 0; 0]) with 0 by (destruct Hm as [-> | ->]; D_unfold; ring).
  ring.
Qed.

Theorem energy3_shear_free g (s3 hx hy hz E nu : R) mode (bcd : R) (x : list R) g11 g12 g13 g21 g22 g23 g31 g32 g33 c1 c2 c3 :
  wf g -> nelz g <> 0%Z -> s3 <> 0 -> hx <> 0 -> hy <> 0 -> hz <> 0 -> length x = Z.to_nat (nel g) ->
  g23 + g32 = 0 -> g13 + g31 = 0 -> g12 + g21 = 0 ->
  let h := [hx; hy; hz] in
  let u := nodal_field g 3 (affine_field3 g hx hy hz g11 g12 g13 g21 g22 g23 g31 g32 g33 c1 c2 c3) in
  energy_sum x (hx * hy * hz) (eo_response g (stress_opmat s3 3 h E nu mode) u) (eo_response g (strain_opmat s3 3 h true) u)
  = dot u (apply (to_triples (asm_ztriples g (stiffness_element s3 3 h E nu mode) None bcd x)) (Z.to_nat (asm_n g 3)) u).
Proof.
  intros Hwf H3d Hs Hx Hy Hz Hxl G1 G2 G3 h u. unfold u, h.
  rewrite (energy3_global g s3 hx hy hz E nu mode bcd x g11 g12 g13 g21 g22 g23 g31 g32 g33 c1 c2 c3) by assumption.
  rewrite G1, G2, G3.
  replace (quad (material_D 3 [hx; hy; hz] E nu mode) [0; 0; 0; 0; 0; 0]) with 0 by (D_unfold; ring).
  ring.
Qed.

Lemma sqrt3_nz : sqrt 3 <> 0.
Proof. assert (0 < sqrt 3) by (apply sqrt_lt_R0; lra). lra. Qed.

(* u = (y, 0) on the unit square: engineering shear 1, Strain(voigt=True) returns 2 *)
Theorem strain2_shear_refuted :
  exists g (s3 hx hy hz g11 g12 g21 g22 c1 c2 : R),
    wf g /\ nelz g = 0%Z /\ s3 <> 0 /\ hx <> 0 /\ hy <> 0 /\
    nth 2 (eo_response g (strain_opmat s3 2 [hx; hy; hz] true) (nodal_field g 2 (affine_field2 g hx hy g11 g12 g21 g22 c1 c2))) []
    <> repeat (g12 + g21) (Z.to_nat (nel g)).
Proof.
  exists {| nelx := 1; nely := 1; nelz := 0 |}, (sqrt 3), 1, 1, 1, 0, 1, 0, 0, 0, 0.
  assert (Hwf : wf {| nelx := 1; nely := 1; nelz := 0 |}) by (unfold wf; cbn; lia).
  refine (conj Hwf (conj eq_refl (conj sqrt3_nz (conj _ (conj _ _))))); try lra.
  rewrite strain2_global_voigt by (try exact Hwf; try exact sqrt3_nz; try reflexivity; lra).
  cbn. intros H. inversion H. lra.
Qed.

Theorem strain3_shear_refuted :
  exists g (s3 hx hy hz g11 g12 g13 g21 g22 g23 g31 g32 g33 c1 c2 c3 : R),
    wf g /\ nelz g <> 0%Z /\ s3 <> 0 /\ hx <> 0 /\ hy <> 0 /\ hz <> 0 /\
    nth 5 (eo_response g (strain_opmat s3 3 [hx; hy; hz] true)
                       (nodal_field g 3 (affine_field3 g hx hy hz g11 g12 g13 g21 g22 g23 g31 g32 g33 c1 c2 c3))) []
    <> repeat (g12 + g21) (Z.to_nat (nel g)).
Proof.
  exists {| nelx := 1; nely := 1; nelz := 1 |}, (sqrt 3), 1, 1, 1, 0, 1, 0, 0, 0, 0, 0, 0, 0, 0, 0, 0.
  assert (Hwf : wf {| nelx := 1; nely := 1; nelz := 1 |}) by (unfold wf; cbn; lia).
  assert (H3 : nelz {| nelx := 1; nely := 1; nelz := 1 |} <> 0%Z) by (cbn; lia).
  refine (conj Hwf (conj H3 (conj sqrt3_nz (conj _ (conj _ (conj _ _)))))); try lra.
  rewrite strain3_global_voigt by (try exact Hwf; try exact sqrt3_nz; try exact H3; lra).
  cbn. intros H. inversion H. lra.
Qed.
