(* Lemmas about Model/ElemOps.v *)
From Coq Require Import ZArith List Lia Ring Bool Reals Lra.
From Pymoto Require Import Base.Num Base.Qsqrt3 Base.SparseLin Base.FEMat Model.Grid Model.Shape Model.ElemMat Model.Assembly.
From Pymoto Require Import Proofs.GridP Proofs.ShapeP Proofs.ElemMatP Proofs.AssemblyP Model.ElemOps.
Import ListNotations.

(* ================================================================== the two einsum primitives are adjoint *)
Section Adjoint.
  Context {K : Type} `{Num K}.
  Hypothesis Rth : ring_theory (@nzero K _) none_ nadd nmul nsub nopp (@eq K).
  Add Ring KringO : Rth.
  Local Open Scope num_scope.

  (* <W, Y> for arrays given by their rows *)
  Definition mdot (W Y : list (list K)) : K := nsum (map (fun p => dot (fst p) (snd p)) (combine W Y)).

  Lemma dot_seq (a b : list K) n : length a = n -> length b = n ->
    dot a b = nsum (map (fun i => nth i a nzero * nth i b nzero) (seq 0 n)).
  Proof.
    intros Ha Hb. unfold dot. rewrite (combine_seq a b nzero nzero n Ha Hb), map_map. reflexivity.
  Qed.

  (* inner scatter loop *)
  Lemma dot_scatter_row (dce : list Z) (ell : list K) acc u :
    length acc = length u -> Forall (fun d => (Z.to_nat d < length u)%nat) dce ->
    dot (fold_left (fun acc2 q => vaddat acc2 (Z.to_nat (fst q)) (snd q)) (combine dce ell) acc) u =
    dot acc u + dot ell (gatherZ u dce).
  Proof.
    intros Hl Hd. revert ell acc Hl. induction Hd as [|d dce Hd0 Hd IH]; intros ell acc Hl.
    - cbn [combine fold_left gatherZ map]. rewrite dot_nil_r. ring.
    - destruct ell as [|v ell]; [cbn [combine fold_left]; rewrite dot_nil_l; ring|].
      cbn [combine fold_left fst snd gatherZ map]. fold (gatherZ u dce).
      rewrite IH by (rewrite vaddat_length; exact Hl).
      rewrite (dot_vaddat_l Rth) by (try exact Hl; rewrite Hl; exact Hd0). rewrite dot_cons. ring.
  Qed.

  Lemma inner_scatter_length (l : list (Z * K)) acc :
    length (fold_left (fun acc2 q => vaddat acc2 (Z.to_nat (fst q)) (snd q)) l acc) = length acc.
  Proof. revert acc; induction l as [|q l IHl]; intros acc; cbn [fold_left]; [reflexivity|]. rewrite IHl. apply vaddat_length. Qed.

  Lemma fold_scatter_length (dcs : list (list Z)) (el : list (list K)) acc :
    length (fold_left (fun acc p => fold_left (fun acc2 q => vaddat acc2 (Z.to_nat (fst q)) (snd q))
                                              (combine (fst p) (snd p)) acc) (combine dcs el) acc) = length acc.
  Proof.
    revert el acc. induction dcs as [|dce dcs IH]; intros [|ell el] acc; cbn [combine fold_left]; try reflexivity.
    rewrite IH. cbn [fst snd]. apply inner_scatter_length.
  Qed.

  Lemma dot_scatter_add n (dcs : list (list Z)) (el : list (list K)) u :
    length u = n -> Forall (fun dce => Forall (fun d => (Z.to_nat d < n)%nat) dce) dcs ->
    dot (scatter_add n dcs el) u = nsum (map (fun p => dot (snd p) (gatherZ u (fst p))) (combine dcs el)).
  Proof.
    intros Hu Hd. unfold scatter_add.
    assert (Hgen : forall el acc, length acc = length u ->
      dot (fold_left (fun acc p => fold_left (fun acc2 q => vaddat acc2 (Z.to_nat (fst q)) (snd q))
                                             (combine (fst p) (snd p)) acc) (combine dcs el) acc) u
      = dot acc u + nsum (map (fun p => dot (snd p) (gatherZ u (fst p))) (combine dcs el))).
    { induction Hd as [|dce dcs Hd0 Hd IH]; intros el0 acc Hl.
      - cbn [combine fold_left map]. cbn. ring.
      - destruct el0 as [|ell el0]; [cbn [combine fold_left map]; cbn; ring|].
        cbn [combine fold_left map fst snd]. rewrite IH.
        + rewrite dot_scatter_row by (try exact Hl; rewrite Hu; exact Hd0). rewrite nsum_cons. ring.
        + rewrite inner_scatter_length. exact Hl. }
    rewrite Hgen by (unfold vzero; rewrite repeat_length; symmetry; exact Hu).
    rewrite (dot_vzero_l Rth). ring.
  Qed.

  Lemma mcol_length (M : list (list K)) j : length (mcol M j) = length M.
  Proof. unfold mcol. apply map_length. Qed.

  (* <W, fwd(u)> = <bwd(W), u> *)
  Theorem op_adjoint kd (rows : list (list K)) (dcs : list (list Z)) n (W : list (list K)) u :
    Forall (fun r => length r = kd) rows ->
    length W = length rows -> Forall (fun w => length w = length dcs) W ->
    length u = n -> Forall (fun dce => Forall (fun d => (Z.to_nat d < n)%nat) dce) dcs ->
    mdot W (op_fwd rows dcs u) = dot (op_bwd kd rows dcs n W) u.
  Proof.
    intros Hrows HW HWl Hu Hd. unfold op_bwd. rewrite (dot_scatter_add n) by assumption.
    unfold op_el, mdot, op_fwd.
    set (nel := length dcs).
    (* right-hand side: sum over l of  col_l(W) . (rows @ gu_l) *)
    rewrite (combine_seq dcs (map _ (seq 0 nel)) [] [] nel eq_refl) by (rewrite map_length, seq_length; reflexivity).
    rewrite map_map. cbn [fst snd].
    rewrite (nsum_map_ext _ (fun l => nsum (map (fun p => nth l (fst p) nzero * dot (snd p) (gatherZ u (nth l dcs []))) (combine W rows)))).
    2:{ intros l Hl. apply in_seq in Hl.
        rewrite (nth_map_lt _ (seq 0 nel) l [] 0%nat) by (rewrite seq_length; lia). rewrite seq_nth by lia. cbn [Nat.add].
        rewrite (map_ext _ (fun k => dot (mcol W l) (mcol rows k))) by (intros; apply (dot_comm Rth)).
        rewrite (dot_mmul_row Rth kd) by exact Hrows.
        unfold mcol, mvmul, dot at 1. rewrite combine_map_l, combine_map_r, !map_map. cbn [fst snd]. reflexivity. }
    rewrite (nsum_swap Rth).
    (* left-hand side *)
    rewrite combine_map_r, map_map. cbn [fst snd].
    apply nsum_map_ext. intros [w r] Hin. cbn [fst snd].
    assert (Hw : length w = nel).
    { rewrite Forall_forall in HWl. apply HWl. eapply in_combine_l; exact Hin. }
    rewrite (dot_seq w _ nel Hw) by (rewrite map_length; reflexivity).
    apply nsum_map_ext. intros l Hl. apply in_seq in Hl.
    rewrite (nth_map_lt _ dcs l nzero []) by (fold nel; lia). reflexivity.
  Qed.
End Adjoint.

(* ================================================================== Strain / Stress over the reals *)
Open Scope R_scope.

#[global] Instance ZT_R : ZeroTest R := {| is0 := fun r => if Req_EM_T r 0 then true else false |}.

Lemma is0_zero : is0 (0 : R) = true.
Proof. unfold is0, ZT_R. destruct (Req_EM_T 0 0) as [_|N]; [reflexivity | exfalso; apply N; reflexivity]. Qed.

Lemma is0_nz (v : R) : v <> 0 -> is0 v = false.
Proof. intros Hv. unfold is0, ZT_R. destruct (Req_EM_T v 0) as [E|_]; [contradiction | reflexivity]. Qed.

Ltac ops_unfold :=
  unfold strain_B, strain_Bavg, voigt_scale, B_at, getB, gauss_pos, madd, mscale, vadd, vscale, mvmul, dot, ilv2, ilv3,
         zeros_like, nodepos;
  shape_unfold.

(* closed form of the averaged B matrix, 2-D:  a = 1/(2 hx), b = 1/(2 hy) *)
Definition Bavg2_closed (a b : R) : list (list R) :=
  [[-a; 0; a; 0; -a; 0; a; 0];
   [0; -b; 0; -b; 0; b; 0; b];
   [-b; -a; -b; a; b; -a; b; a]].

Lemma strain_Bavg2 (s3 hx hy hz : R) : s3 <> 0 -> hx <> 0 -> hy <> 0 ->
  strain_Bavg s3 2 [hx; hy; hz] = Bavg2_closed (1 / (2 * hx)) (1 / (2 * hy)).
Proof.
  intros Hs Hx Hy. unfold Bavg2_closed. ops_unfold.
  repeat (apply (f_equal2 (@cons (list R))); [list_eq ltac:(field; auto)|]). reflexivity.
Qed.

Ltac is0_simpl a b :=
  let Ha := fresh in let Hb := fresh in
  assert (Ha : - a <> 0) by (apply Ropp_neq_0_compat; assumption);
  assert (Hb : - b <> 0) by (apply Ropp_neq_0_compat; assumption);
  unfold voigt_scale, count_nonzero; cbn [map filter];
  rewrite ?is0_zero, ?(is0_nz a), ?(is0_nz (- a)), ?(is0_nz b), ?(is0_nz (- b)) by assumption;
  cbn [negb length Nat.eqb Nat.mul Nat.pow Nat.add].

Lemma voigt_scale2_closed (a b : R) : a <> 0 -> b <> 0 ->
  voigt_scale 2 (Bavg2_closed a b) =
  [[-a; 0; a; 0; -a; 0; a; 0]; [0; -b; 0; -b; 0; b; 0; b];
   map (fun v => v * (1 + 1)) [-b; -a; -b; a; b; -a; b; a]].
Proof. intros Ha Hb. unfold Bavg2_closed. is0_simpl a b. reflexivity. Qed.

(* affine displacement field on one element: u(x) = G x + c at the nodes (local coordinates; any offset c) *)
Definition aff2 (h : list R) (g11 g12 g21 g22 c1 c2 : R) : list R :=
  flat_map (fun n => match nodepos h n with
                     | [x; y; _] => [c1 + g11 * x + g12 * y; c2 + g21 * x + g22 * y]
                     | _ => [] end) (node_numbering 2).

(* at EVERY point: B(p) u = (G11, G22, G12 + G21) — the symmetric gradient with engineering shear *)
Lemma B_affine2 hx hy hz px py pz g11 g12 g21 g22 c1 c2 : hx <> 0 -> hy <> 0 ->
  mvmul (B_at 2 [hx; hy; hz] [px; py; pz]) (aff2 [hx; hy; hz] g11 g12 g21 g22 c1 c2) = [g11; g22; g12 + g21].
Proof. intros. unfold aff2. elem_unfold. list_eq ltac:(field; auto). Qed.

(* what Strain returns on an affine field, 2-D: normal components exact, shear = 2 x engineering shear (voigt=True) *)
Lemma strain2_affine_voigt s3 hx hy hz g11 g12 g21 g22 c1 c2 : s3 <> 0 -> hx <> 0 -> hy <> 0 ->
  mvmul (strain_B s3 2 [hx; hy; hz] true) (aff2 [hx; hy; hz] g11 g12 g21 g22 c1 c2) = [g11; g22; 2 * (g12 + g21)].
Proof.
  intros Hs Hx Hy. unfold strain_B. rewrite strain_Bavg2 by assumption.
  rewrite voigt_scale2_closed by (unfold Rdiv; apply Rmult_integral_contrapositive_currified; [lra | apply Rinv_neq_0_compat; lra]).
  unfold aff2, mvmul, dot, nodepos. shape_unfold. list_eq ltac:(field; auto).
Qed.

(* voigt=False: the engineering shear itself (not the tensor component eps_xy) *)
Lemma strain2_affine_novoigt s3 hx hy hz g11 g12 g21 g22 c1 c2 : s3 <> 0 -> hx <> 0 -> hy <> 0 ->
  mvmul (strain_B s3 2 [hx; hy; hz] false) (aff2 [hx; hy; hz] g11 g12 g21 g22 c1 c2) = [g11; g22; g12 + g21].
Proof.
  intros Hs Hx Hy. unfold strain_B. rewrite strain_Bavg2 by assumption.
  unfold Bavg2_closed, aff2, mvmul, dot, nodepos. shape_unfold. list_eq ltac:(field; auto).
Qed.

Lemma count_nonzero_nil : count_nonzero (@nil R) = 0%nat.
Proof. reflexivity. Qed.
Lemma count_nonzero_z (l : list R) : count_nonzero (0 :: l) = count_nonzero l.
Proof. unfold count_nonzero. cbn [filter]. rewrite is0_zero. reflexivity. Qed.
Lemma count_nonzero_nz (v : R) (l : list R) : v <> 0 -> count_nonzero (v :: l) = S (count_nonzero l).
Proof. intros Hv. unfold count_nonzero. cbn [filter]. rewrite (is0_nz v Hv). reflexivity. Qed.

(* closed form of the averaged B matrix, 3-D (Voigt order yz, zx, xy):  a = 1/(4 hx), b = 1/(4 hy), c = 1/(4 hz) *)
Definition Bavg3_closed (a b c : R) : list (list R) :=
  [[-a; 0; 0; a; 0; 0; -a; 0; 0; a; 0; 0; -a; 0; 0; a; 0; 0; -a; 0; 0; a; 0; 0];
   [0; -b; 0; 0; -b; 0; 0; b; 0; 0; b; 0; 0; -b; 0; 0; -b; 0; 0; b; 0; 0; b; 0];
   [0; 0; -c; 0; 0; -c; 0; 0; -c; 0; 0; -c; 0; 0; c; 0; 0; c; 0; 0; c; 0; 0; c];
   [0; -c; -b; 0; -c; -b; 0; -c; b; 0; -c; b; 0; c; -b; 0; c; -b; 0; c; b; 0; c; b];
   [-c; 0; -a; -c; 0; a; -c; 0; -a; -c; 0; a; c; 0; -a; c; 0; a; c; 0; -a; c; 0; a];
   [-b; -a; 0; -b; a; 0; b; -a; 0; b; a; 0; -b; -a; 0; -b; a; 0; b; -a; 0; b; a; 0]].

Lemma strain_Bavg3 (s3 hx hy hz : R) : s3 <> 0 -> hx <> 0 -> hy <> 0 -> hz <> 0 ->
  strain_Bavg s3 3 [hx; hy; hz] = Bavg3_closed (1 / (4 * hx)) (1 / (4 * hy)) (1 / (4 * hz)).
Proof.
  intros Hs Hx Hy Hz. unfold Bavg3_closed. ops_unfold.
  repeat (apply (f_equal2 (@cons (list R))); [list_eq ltac:(field; auto)|]). reflexivity.
Qed.

Lemma voigt_scale3_closed (a b c : R) : a <> 0 -> b <> 0 -> c <> 0 ->
  voigt_scale 3 (Bavg3_closed a b c) =
  [[-a; 0; 0; a; 0; 0; -a; 0; 0; a; 0; 0; -a; 0; 0; a; 0; 0; -a; 0; 0; a; 0; 0];
   [0; -b; 0; 0; -b; 0; 0; b; 0; 0; b; 0; 0; -b; 0; 0; -b; 0; 0; b; 0; 0; b; 0];
   [0; 0; -c; 0; 0; -c; 0; 0; -c; 0; 0; -c; 0; 0; c; 0; 0; c; 0; 0; c; 0; 0; c];
   map (fun v => v * (1 + 1)) [0; -c; -b; 0; -c; -b; 0; -c; b; 0; -c; b; 0; c; -b; 0; c; -b; 0; c; b; 0; c; b];
   map (fun v => v * (1 + 1)) [-c; 0; -a; -c; 0; a; -c; 0; -a; -c; 0; a; c; 0; -a; c; 0; a; c; 0; -a; c; 0; a];
   map (fun v => v * (1 + 1)) [-b; -a; 0; -b; a; 0; b; -a; 0; b; a; 0; -b; -a; 0; -b; a; 0; b; -a; 0; b; a; 0]].
Proof.
  intros Ha Hb Hc. unfold Bavg3_closed.
  assert (Ha' : - a <> 0) by (apply Ropp_neq_0_compat; assumption).
  assert (Hb' : - b <> 0) by (apply Ropp_neq_0_compat; assumption).
  assert (Hc' : - c <> 0) by (apply Ropp_neq_0_compat; assumption).
  unfold voigt_scale; cbn [map].
  repeat (rewrite count_nonzero_z || rewrite count_nonzero_nz by assumption). rewrite !count_nonzero_nil.
  cbn [Nat.eqb Nat.mul Nat.pow Nat.add]. unfold two, nadd, nmul, none_; cbn [NumR]. reflexivity.
Qed.

(* u(x) = G x + c0 on one 3-D element *)
Definition aff3 (h : list R) (g11 g12 g13 g21 g22 g23 g31 g32 g33 c1 c2 c3 : R) : list R :=
  flat_map (fun n => match nodepos h n with
                     | [x; y; z] => [c1 + g11 * x + g12 * y + g13 * z; c2 + g21 * x + g22 * y + g23 * z;
                                     c3 + g31 * x + g32 * y + g33 * z]
                     | _ => [] end) (node_numbering 3).

Lemma B_affine3 hx hy hz px py pz g11 g12 g13 g21 g22 g23 g31 g32 g33 c1 c2 c3 : hx <> 0 -> hy <> 0 -> hz <> 0 ->
  mvmul (B_at 3 [hx; hy; hz] [px; py; pz]) (aff3 [hx; hy; hz] g11 g12 g13 g21 g22 g23 g31 g32 g33 c1 c2 c3)
  = [g11; g22; g33; g23 + g32; g13 + g31; g12 + g21].
Proof. intros. unfold aff3. elem_unfold. list_eq ltac:(field; auto). Qed.

Lemma nz4 (x : R) : x <> 0 -> 1 / (4 * x) <> 0.
Proof. intros. unfold Rdiv. apply Rmult_integral_contrapositive_currified; [lra | apply Rinv_neq_0_compat; lra]. Qed.

Lemma strain3_affine_voigt s3 hx hy hz g11 g12 g13 g21 g22 g23 g31 g32 g33 c1 c2 c3 :
  s3 <> 0 -> hx <> 0 -> hy <> 0 -> hz <> 0 ->
  mvmul (strain_B s3 3 [hx; hy; hz] true) (aff3 [hx; hy; hz] g11 g12 g13 g21 g22 g23 g31 g32 g33 c1 c2 c3)
  = [g11; g22; g33; 2 * (g23 + g32); 2 * (g13 + g31); 2 * (g12 + g21)].
Proof.
  intros Hs Hx Hy Hz. unfold strain_B. rewrite strain_Bavg3 by assumption.
  rewrite voigt_scale3_closed by (apply nz4; assumption).
  unfold aff3, mvmul, dot, nodepos. shape_unfold. list_eq ltac:(field; auto).
Qed.

Lemma strain3_affine_novoigt s3 hx hy hz g11 g12 g13 g21 g22 g23 g31 g32 g33 c1 c2 c3 :
  s3 <> 0 -> hx <> 0 -> hy <> 0 -> hz <> 0 ->
  mvmul (strain_B s3 3 [hx; hy; hz] false) (aff3 [hx; hy; hz] g11 g12 g13 g21 g22 g23 g31 g32 g33 c1 c2 c3)
  = [g11; g22; g33; g23 + g32; g13 + g31; g12 + g21].
Proof.
  intros Hs Hx Hy Hz. unfold strain_B. rewrite strain_Bavg3 by assumption.
  unfold Bavg3_closed, aff3, mvmul, dot, nodepos. shape_unfold. list_eq ltac:(field; auto).
Qed.

(* ================================================================== module level (any grid) *)
Lemma map_const_repeat {A B} (c : B) (l : list A) : map (fun _ => c) l = repeat c (length l).
Proof. induction l as [|a l IH]; cbn; [reflexivity|]. f_equal. exact IH. Qed.

(* if every element sees the same value vector v, the output rows are constant *)
Lemma op_fwd_const (rows : list (list R)) (dcs : list (list Z)) (u v : list R) : dcs <> [] ->
  (forall dce, In dce dcs -> mvmul rows (gatherZ u dce) = v) ->
  op_fwd rows dcs u = map (fun vi => repeat vi (length dcs)) v.
Proof.
  intros Hne. revert v. induction rows as [|r rows IH]; intros v Hv.
  - destruct dcs as [|dce0 dcs']; [contradiction|]. specialize (Hv dce0 (or_introl eq_refl)). cbn in Hv. subst v. reflexivity.
  - destruct v as [|v0 v].
    + destruct dcs as [|dce0 dcs']; [contradiction|]. specialize (Hv dce0 (or_introl eq_refl)). discriminate.
    + unfold op_fwd in *. cbn [map]. f_equal.
      * rewrite <- map_const_repeat. apply map_ext_in. intros dce Hin. specialize (Hv dce Hin). cbn [mvmul map] in Hv.
        inversion Hv. reflexivity.
      * apply IH. intros dce Hin. specialize (Hv dce Hin). cbn [mvmul map] in Hv. inversion Hv. reflexivity.
Qed.

Lemma dofconn_all_nonempty g ndof : wf g -> dofconn_all g ndof <> [].
Proof.
  intros Hwf E. apply (f_equal (@length _)) in E. rewrite dofconn_all_length in E. cbn in E.
  destruct Hwf as (Hx & Hy & Hz). unfold nel, nz1 in E. assert (0 < nelx g * nely g * Z.max (nelz g) 1)%Z by nia. lia.
Qed.

Lemma nnodes_pos g : wf g -> (0 < nnodes g)%Z.
Proof. intros (Hx & Hy & Hz). unfold nnodes. nia. Qed.

Lemma eo_ndof_field {K} `{Num K} g ndof (f : Z -> Z -> K) : wf g -> (0 <= ndof)%Z ->
  eo_ndof g (Z.of_nat (length (nodal_field g ndof f))) = ndof.
Proof.
  intros Hwf Hn. pose proof (nnodes_pos g Hwf) as Hp.
  rewrite nodal_field_length by lia. unfold eo_ndof, asm_n. rewrite Z2Nat.id by nia. apply Z.div_mul. lia.
Qed.

(* ---- Strain on a globally affine displacement field ---- *)
Section StrainGlobal2.
  Variables (g : grid) (s3 hx hy hz : R).
  Hypothesis Hwf : wf g.
  Hypothesis H2d : nelz g = 0%Z.
  Hypothesis Hs : s3 <> 0.
  Hypothesis Hx : hx <> 0.
  Hypothesis Hy : hy <> 0.
  Let h := [hx; hy; hz].
  Let cx (e : Z) := hx * (IZR (elem_i g e) + 1 / 2).
  Let cy (e : Z) := hy * (IZR (elem_j g e) + 1 / 2).

  (* u(n) = G pos(n) + c *)
  Definition affine_field2 (g11 g12 g21 g22 c1 c2 : R) (n d : Z) : R :=
    let x := hx * IZR (node_i g n) in let y := hy * IZR (node_j g n) in
    if Z.eqb d 0 then c1 + g11 * x + g12 * y else c2 + g21 * x + g22 * y.

  Lemma gather_affine2 g11 g12 g21 g22 c1 c2 e : (0 <= e < nel g)%Z ->
    gatherZ (nodal_field g 2 (affine_field2 g11 g12 g21 g22 c1 c2)) (dofconn g 2 e)
    = aff2 h g11 g12 g21 g22 (c1 + g11 * cx e + g12 * cy e) (c2 + g21 * cx e + g22 * cy e).
  Proof.
    intros He. rewrite gather_nodal_field by (auto; lia).
    rewrite flat_map_concat_map. unfold affine_field2. change (zrange 2) with [0%Z; 1%Z].
    rewrite (conn_map_ijk g e (fun i j k => map (fun d => if Z.eqb d 0 then c1 + g11 * (hx * IZR i) + g12 * (hy * IZR j)
                                                        else c2 + g21 * (hx * IZR i) + g22 * (hy * IZR j)) [0%Z; 1%Z]) Hwf He).
    rewrite H2d. unfold aff2, h, nodepos, cx, cy.
    cbn -[Rmult Rplus Rdiv Rminus IZR Rinv Ropp elem_i elem_j elem_k Z.add].
    rewrite !plus_IZR. repeat (apply (f_equal2 (@cons R)); [field|]). reflexivity.
  Qed.

  Lemma eo_response_strain2 voigt u : eo_ndof g (Z.of_nat (length u)) = 2%Z ->
    eo_response g (strain_opmat s3 2 h voigt) u = op_fwd (strain_B s3 2 h voigt) (dofconn_all g 2) u.
  Proof.
    intros Hn. unfold eo_response. rewrite Hn. unfold eo_effective, strain_opmat. cbn [om_kd om_rows].
    rewrite (elemnodes_2d g Hwf H2d). reflexivity.
  Qed.

  (* voigt=True: normal components exact, shear component = 2 x engineering shear, in every element of every grid *)
  Theorem strain2_global_voigt g11 g12 g21 g22 c1 c2 :
    eo_response g (strain_opmat s3 2 h true) (nodal_field g 2 (affine_field2 g11 g12 g21 g22 c1 c2))
    = map (fun v => repeat v (Z.to_nat (nel g))) [g11; g22; 2 * (g12 + g21)].
  Proof.
    rewrite eo_response_strain2 by (apply eo_ndof_field; [exact Hwf | lia]).
    rewrite <- (dofconn_all_length g 2). apply op_fwd_const; [apply dofconn_all_nonempty; exact Hwf|].
    intros dce Hin. unfold dofconn_all in Hin. apply in_map_iff in Hin as (e & <- & He). apply in_zrange in He.
    rewrite gather_affine2 by exact He. apply strain2_affine_voigt; assumption.
  Qed.

  Theorem strain2_global_novoigt g11 g12 g21 g22 c1 c2 :
    eo_response g (strain_opmat s3 2 h false) (nodal_field g 2 (affine_field2 g11 g12 g21 g22 c1 c2))
    = map (fun v => repeat v (Z.to_nat (nel g))) [g11; g22; g12 + g21].
  Proof.
    rewrite eo_response_strain2 by (apply eo_ndof_field; [exact Hwf | lia]).
    rewrite <- (dofconn_all_length g 2). apply op_fwd_const; [apply dofconn_all_nonempty; exact Hwf|].
    intros dce Hin. unfold dofconn_all in Hin. apply in_map_iff in Hin as (e & <- & He). apply in_zrange in He.
    rewrite gather_affine2 by exact He. apply strain2_affine_novoigt; assumption.
  Qed.
End StrainGlobal2.

Section StrainGlobal3.
  Variables (g : grid) (s3 hx hy hz : R).
  Hypothesis Hwf : wf g.
  Hypothesis H3d : nelz g <> 0%Z.
  Hypothesis Hs : s3 <> 0.
  Hypothesis Hx : hx <> 0.
  Hypothesis Hy : hy <> 0.
  Hypothesis Hz : hz <> 0.
  Let h := [hx; hy; hz].
  Let cx (e : Z) := hx * (IZR (elem_i g e) + 1 / 2).
  Let cy (e : Z) := hy * (IZR (elem_j g e) + 1 / 2).
  Let cz (e : Z) := hz * (IZR (elem_k g e) + 1 / 2).

  Definition affine_field3 (g11 g12 g13 g21 g22 g23 g31 g32 g33 c1 c2 c3 : R) (n d : Z) : R :=
    let x := hx * IZR (node_i g n) in let y := hy * IZR (node_j g n) in let z := hz * IZR (node_k g n) in
    if Z.eqb d 0 then c1 + g11 * x + g12 * y + g13 * z
    else if Z.eqb d 1 then c2 + g21 * x + g22 * y + g23 * z else c3 + g31 * x + g32 * y + g33 * z.

  Lemma gather_affine3 g11 g12 g13 g21 g22 g23 g31 g32 g33 c1 c2 c3 e : (0 <= e < nel g)%Z ->
    gatherZ (nodal_field g 3 (affine_field3 g11 g12 g13 g21 g22 g23 g31 g32 g33 c1 c2 c3)) (dofconn g 3 e)
    = aff3 h g11 g12 g13 g21 g22 g23 g31 g32 g33
           (c1 + g11 * cx e + g12 * cy e + g13 * cz e) (c2 + g21 * cx e + g22 * cy e + g23 * cz e)
           (c3 + g31 * cx e + g32 * cy e + g33 * cz e).
  Proof.
    intros He. rewrite gather_nodal_field by (auto; lia).
    rewrite flat_map_concat_map. unfold affine_field3. change (zrange 3) with [0%Z; 1%Z; 2%Z].
    rewrite (conn_map_ijk g e (fun i j k => map (fun d =>
       if Z.eqb d 0 then c1 + g11 * (hx * IZR i) + g12 * (hy * IZR j) + g13 * (hz * IZR k)
       else if Z.eqb d 1 then c2 + g21 * (hx * IZR i) + g22 * (hy * IZR j) + g23 * (hz * IZR k)
       else c3 + g31 * (hx * IZR i) + g32 * (hy * IZR j) + g33 * (hz * IZR k)) [0%Z; 1%Z; 2%Z]) Hwf He).
    assert (Hzb : Z.eqb (nelz g) 0 = false) by (apply Z.eqb_neq; exact H3d).
    rewrite Hzb. unfold aff3, h, nodepos, cx, cy, cz.
    cbn -[Rmult Rplus Rdiv Rminus IZR Rinv Ropp elem_i elem_j elem_k Z.add].
    rewrite !plus_IZR. repeat (apply (f_equal2 (@cons R)); [field|]). reflexivity.
  Qed.

  Lemma eo_response_strain3 voigt u : eo_ndof g (Z.of_nat (length u)) = 3%Z ->
    eo_response g (strain_opmat s3 3 h voigt) u = op_fwd (strain_B s3 3 h voigt) (dofconn_all g 3) u.
  Proof.
    intros Hn. unfold eo_response. rewrite Hn. unfold eo_effective, strain_opmat. cbn [om_kd om_rows].
    rewrite (elemnodes_3d g Hwf H3d). reflexivity.
  Qed.

  (* Voigt order xx, yy, zz, yz, zx, xy *)
  Theorem strain3_global_voigt g11 g12 g13 g21 g22 g23 g31 g32 g33 c1 c2 c3 :
    eo_response g (strain_opmat s3 3 h true)
                (nodal_field g 3 (affine_field3 g11 g12 g13 g21 g22 g23 g31 g32 g33 c1 c2 c3))
    = map (fun v => repeat v (Z.to_nat (nel g))) [g11; g22; g33; 2 * (g23 + g32); 2 * (g13 + g31); 2 * (g12 + g21)].
  Proof.
    rewrite eo_response_strain3 by (apply eo_ndof_field; [exact Hwf | lia]).
    rewrite <- (dofconn_all_length g 3). apply op_fwd_const; [apply dofconn_all_nonempty; exact Hwf|].
    intros dce Hin. unfold dofconn_all in Hin. apply in_map_iff in Hin as (e & <- & He). apply in_zrange in He.
    rewrite gather_affine3 by exact He. apply strain3_affine_voigt; assumption.
  Qed.

  Theorem strain3_global_novoigt g11 g12 g13 g21 g22 g23 g31 g32 g33 c1 c2 c3 :
    eo_response g (strain_opmat s3 3 h false)
                (nodal_field g 3 (affine_field3 g11 g12 g13 g21 g22 g23 g31 g32 g33 c1 c2 c3))
    = map (fun v => repeat v (Z.to_nat (nel g))) [g11; g22; g33; g23 + g32; g13 + g31; g12 + g21].
  Proof.
    rewrite eo_response_strain3 by (apply eo_ndof_field; [exact Hwf | lia]).
    rewrite <- (dofconn_all_length g 3). apply op_fwd_const; [apply dofconn_all_nonempty; exact Hwf|].
    intros dce Hin. unfold dofconn_all in Hin. apply in_map_iff in Hin as (e & <- & He). apply in_zrange in He.
    rewrite gather_affine3 by exact He. apply strain3_affine_novoigt; assumption.
  Qed.
End StrainGlobal3.
