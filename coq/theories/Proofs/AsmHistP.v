(* Proofs about Model/AsmHist.v: the two-phase (_prepare / _response) state machine over several modules on one
   domain refines the pure assembly function of Model/Assembly.v, for every history. *)
From Coq Require Import ZArith List Bool Arith Lia Reals.
From Pymoto Require Import Base.Num Base.CplxNum Base.SparseLin Model.Grid Model.Assembly Model.AsmHist.
From Pymoto Require Import Proofs.ElemMatP Proofs.AssemblyP.
Import ListNotations.

Section HistP.
  Context {K : Type} `{Num K}.

  Lemma asm_respond_prepare g (elmat : list (list K)) bc bcd cst x :
    asm_respond (asm_prepare g elmat bc bcd cst) x = asm_matrix g elmat bc bcd cst x.
  Proof. destruct bc; reflexivity. Qed.

  (* the state reached by a history *)
  Definition afinal (g : grid) (st : astate K) (ops : list (aop K)) : astate K :=
    fold_left (fun s op => fst (astep g s op)) ops st.

  Lemma arun_app g st ops1 ops2 :
    arun g st (ops1 ++ ops2) = arun g st ops1 ++ arun g (afinal g st ops1) ops2.
  Proof.
    revert st. induction ops1 as [|op t IH]; intros st; [reflexivity|].
    cbn [app arun afinal fold_left]. destruct (snd (astep g st op)); cbn [app]; rewrite IH; reflexivity.
  Qed.

  (* module state = prepared options, input state = current x *)
  Definition arel (g : grid) (st : astate K) (v : hview K) : Prop :=
    as_mods st = map (fun o => asm_prepare g (ao_elmat o) (ao_bc o) (ao_bcd o) (ao_cst o)) (hv_opts v) /\
    as_x st = hv_x v.

  Lemma arel_step g st v op : arel g st v -> arel g (fst (astep g st op)) (hstep v op).
  Proof.
    intros [Hm Hx]. destruct op as [o|x|i]; cbn [astep fst hstep]; split; cbn [as_mods as_x hv_opts hv_x]; auto.
    rewrite map_app, Hm. reflexivity.
  Qed.

  Lemma arel_final g st v ops : arel g st v -> arel g (afinal g st ops) (fold_left hstep ops v).
  Proof.
    revert st v. induction ops as [|op t IH]; intros st v R; [exact R|].
    cbn [afinal fold_left]. apply IH. apply arel_step. exact R.
  Qed.

  Lemma arel_resp g st v i : arel g st v ->
    option_map (fun p => asm_respond p (as_x st)) (nth_error (as_mods st) i) =
    option_map (fun o => aspec g o (hv_x v)) (nth_error (hv_opts v) i).
  Proof.
    intros [Hm Hx]. rewrite Hm, Hx, nth_error_map.
    destruct (nth_error (hv_opts v) i) as [o|]; [|reflexivity].
    cbn [option_map]. rewrite asm_respond_prepare. reflexivity.
  Qed.

  (* every response in every history: the assembled matrix of the module's own options and the current x *)
  Theorem asm_history_response g (ops : list (aop K)) i :
    arun g astate0 (ops ++ [AResp i]) =
    arun g astate0 ops ++
      [option_map (fun o => aspec g o (hv_x (hview_of ops))) (nth_error (hv_opts (hview_of ops)) i)].
  Proof.
    rewrite arun_app. f_equal. cbn [arun astep snd fst]. f_equal.
    apply arel_resp. unfold hview_of. apply arel_final. split; reflexivity.
  Qed.

  (* the options a response depends on are those given at construction: later operations never change them *)
  Lemma hview_opts_app (ops1 ops2 : list (aop K)) v :
    exists more, hv_opts (fold_left hstep ops2 (fold_left hstep ops1 v)) = hv_opts (fold_left hstep ops1 v) ++ more.
  Proof.
    generalize (fold_left hstep ops1 v) as w. induction ops2 as [|op t IH]; intros w.
    - exists []. cbn [fold_left]. rewrite app_nil_r. reflexivity.
    - cbn [fold_left]. destruct (IH (hstep w op)) as [more Hm]. rewrite Hm.
      destruct op as [o|x|j]; cbn [hstep hv_opts].
      + exists (o :: more). rewrite <- app_assoc. reflexivity.
      + exists more. reflexivity.
      + exists more. reflexivity.
  Qed.

  Theorem asm_history_options_stable (ops1 ops2 : list (aop K)) i o :
    nth_error (hv_opts (hview_of ops1)) i = Some o ->
    nth_error (hv_opts (hview_of (ops1 ++ ops2))) i = Some o.
  Proof.
    intros Hi. unfold hview_of in *. rewrite fold_left_app.
    destruct (hview_opts_app ops1 ops2 {| hv_opts := []; hv_x := [] |}) as [more Hm]. rewrite Hm.
    rewrite nth_error_app1; [exact Hi|]. apply nth_error_Some. rewrite Hi. discriminate.
  Qed.

  (* evaluating a response changes nothing: a second evaluation returns the same matrix, whatever was built or
     evaluated in between, as long as x was not re-assigned *)
  Lemma hview_x_noset (ops : list (aop K)) v :
    Forall (fun op => match op with ASetX _ => False | _ => True end) ops -> hv_x (fold_left hstep ops v) = hv_x v.
  Proof.
    revert v. induction ops as [|op t IH]; intros v Hf; [reflexivity|].
    inversion Hf as [|? ? Hop Ht]; subst. cbn [fold_left]. rewrite IH by exact Ht.
    destruct op; cbn [hstep hv_x]; [reflexivity | contradiction | reflexivity].
  Qed.

  Theorem asm_history_repeatable g (ops1 ops2 : list (aop K)) i o :
    nth_error (hv_opts (hview_of ops1)) i = Some o ->
    Forall (fun op => match op with ASetX _ => False | _ => True end) ops2 ->
    last (arun g astate0 (ops1 ++ [AResp i] ++ ops2 ++ [AResp i])) None =
    last (arun g astate0 (ops1 ++ [AResp i])) None.
  Proof.
    intros Hi Hns.
    replace (ops1 ++ [AResp i] ++ ops2 ++ [AResp i]) with ((ops1 ++ [AResp i] ++ ops2) ++ [AResp i])
      by (rewrite <- !app_assoc; reflexivity).
    rewrite !asm_history_response, !last_last.
    rewrite (asm_history_options_stable ops1 ([AResp i] ++ ops2) i o Hi), Hi. cbn [option_map]. f_equal. f_equal.
    unfold hview_of. rewrite fold_left_app. apply hview_x_noset.
    constructor; [exact I | exact Hns].
  Qed.
End HistP.

(* ---- dtype kinds: nothing is cast down ---- *)
Lemma kle_refl a : kle a a = true.
Proof. destruct a; reflexivity. Qed.
Lemma kle_krt_l a b : kle a (krt a b) = true.
Proof. destruct a, b; reflexivity. Qed.
Lemma kle_krt_r a b : kle b (krt a b) = true.
Proof. destruct a, b; reflexivity. Qed.
Lemma kle_trans a b c : kle a b = true -> kle b c = true -> kle a c = true.
Proof. destruct a, b, c; cbn; intros; congruence. Qed.

Theorem asm_out_kind_lossless ke kx bck kc :
  let out := asm_out_kind ke kx bck kc in
  kle ke out = true /\ kle kx out = true /\
  (forall kb, bck = Some kb -> kle kb out = true /\ kle KFloat out = true) /\
  (forall k, kc = Some k -> kle k out = true).
Proof.
  destruct ke, kx, bck as [[]|], kc as [[]|]; cbn; repeat split; intros; try reflexivity;
    match goal with E : Some _ = Some _ |- _ => inversion E; subst; reflexivity | E : None = Some _ |- _ => discriminate end.
Qed.

(* ---- the entry formula over complex data (complex x for damping, complex Young's modulus) ---- *)
Definition RthC : ring_theory (@nzero (cplx R) _) none_ nadd nmul nsub nopp (@eq (cplx R)) := cplx_ring RthR.

Theorem asm_dense_entry_complex g (elmat : list (list (cplx R))) bc bcdiagval cst x i j :
  let ndof := asm_ndof g elmat in
  let N := Z.to_nat (asm_n g ndof) in
  asm_wf g elmat bc cst x -> (0 <= i < asm_n g ndof)%Z -> (0 <= j < asm_n g ndof)%Z ->
  nth (Z.to_nat j) (nth (Z.to_nat i) (dense (to_triples (asm_matrix g elmat bc bcdiagval cst x)) N N) []) nzero
  = asm_spec g elmat bc bcdiagval cst x i j.
Proof. exact (asm_dense_entry RthC g elmat bc bcdiagval cst x i j). Qed.
