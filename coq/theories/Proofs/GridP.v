(* Lemmas about Model/Grid.v : bijections, corners, dof connectivity. *)
From Coq Require Import ZArith List Lia Bool.
From Pymoto Require Import Model.Grid.
Import ListNotations.
Open Scope Z_scope.

Definition wf (g : grid) : Prop := 1 <= nelx g /\ 1 <= nely g /\ 0 <= nelz g.

Lemma nz1_pos g : wf g -> 1 <= nz1 g.
Proof. unfold nz1; lia. Qed.

(* ---- generic mixed-radix facts ---- *)
Lemma mr_mod a b n : 0 < n -> 0 <= b < n -> (a * n + b) mod n = b.
Proof. intros Hn Hb. rewrite Z.add_comm, Z.mod_add by lia. apply Z.mod_small; lia. Qed.

Lemma mr_div a b n : 0 < n -> 0 <= b < n -> (a * n + b) / n = a.
Proof. intros Hn Hb. rewrite Z.add_comm, Z.div_add by lia. rewrite Z.div_small by lia. lia. Qed.

Lemma mr_range a b n m : 0 < n -> 0 <= b < n -> 0 <= a < m -> 0 <= a * n + b < m * n.
Proof. intros. nia. Qed.

(* ---- element numbering ---- *)
Section Elem.
  Variable g : grid.
  Hypothesis Hwf : wf g.
  Let nx := nelx g. Let ny := nely g. Let nz := nz1 g.

  Lemma elem_range i j k :
    0 <= i < nelx g -> 0 <= j < nely g -> 0 <= k < nz1 g -> 0 <= elemnumber g i j k < nel g.
  Proof.
    intros Hi Hj Hk. unfold elemnumber, nel.
    assert (H1 : 0 <= k * nely g + j < nz1 g * nely g) by (apply mr_range; lia).
    assert (H2 : 0 <= (k * nely g + j) * nelx g + i < (nz1 g * nely g) * nelx g) by (apply mr_range; lia).
    lia.
  Qed.

  Lemma elem_i_num i j k :
    0 <= i < nelx g -> elem_i g (elemnumber g i j k) = i.
  Proof. intros Hi. unfold elem_i, elemnumber. apply mr_mod; lia. Qed.

  Lemma elem_j_num i j k :
    0 <= i < nelx g -> 0 <= j < nely g -> elem_j g (elemnumber g i j k) = j.
  Proof.
    intros Hi Hj. unfold elem_j, elemnumber. rewrite mr_div by lia. apply mr_mod; lia.
  Qed.

  Lemma elem_k_num i j k :
    0 <= i < nelx g -> 0 <= j < nely g -> elem_k g (elemnumber g i j k) = k.
  Proof.
    intros Hi Hj. unfold elem_k, elemnumber.
    rewrite <- Z.div_div by (destruct Hwf as (?&?&?); lia).
    rewrite mr_div by lia. apply mr_div; lia.
  Qed.

  Lemma elem_num_inv e :
    0 <= e < nel g ->
    0 <= elem_i g e < nelx g /\ 0 <= elem_j g e < nely g /\ 0 <= elem_k g e < nz1 g /\
    elemnumber g (elem_i g e) (elem_j g e) (elem_k g e) = e.
  Proof.
    destruct Hwf as (Hx & Hy & Hz). intros He. unfold elem_i, elem_j, elem_k, elemnumber, nel in *.
    assert (Hnz := nz1_pos g Hwf).
    pose proof (Z.mod_pos_bound e (nelx g) ltac:(lia)) as B1.
    pose proof (Z.mod_pos_bound (e / nelx g) (nely g) ltac:(lia)) as B2.
    rewrite <- Z.div_div by lia.
    pose proof (Z.div_mod e (nelx g) ltac:(lia)) as D1.
    pose proof (Z.div_mod (e / nelx g) (nely g) ltac:(lia)) as D2.
    assert (Q1 : 0 <= e / nelx g) by (apply Z.div_pos; lia).
    assert (Q2 : 0 <= e / nelx g / nely g) by (apply Z.div_pos; lia).
    assert (Q3 : e / nelx g / nely g < nz1 g).
    { apply Z.div_lt_upper_bound; [lia|]. apply Z.div_lt_upper_bound; [lia|]. lia. }
    repeat split; try lia.
    all: nia.
  Qed.
End Elem.

(* ---- node numbering ---- *)
Section Node.
  Variable g : grid.
  Hypothesis Hwf : wf g.

  Lemma node_range i j k :
    0 <= i <= nelx g -> 0 <= j <= nely g -> 0 <= k <= nelz g -> 0 <= nodenumber g i j k < nnodes g.
  Proof.
    intros Hi Hj Hk. unfold nodenumber, nnodes.
    assert (H1 : 0 <= k * (nely g + 1) + j < (nelz g + 1) * (nely g + 1)) by (apply mr_range; lia).
    assert (H2 : 0 <= (k * (nely g + 1) + j) * (nelx g + 1) + i < ((nelz g + 1) * (nely g + 1)) * (nelx g + 1))
      by (apply mr_range; lia).
    lia.
  Qed.

  Lemma node_i_num i j k : 0 <= i <= nelx g -> node_i g (nodenumber g i j k) = i.
  Proof. intros. unfold node_i, nodenumber. apply mr_mod; lia. Qed.

  Lemma node_j_num i j k :
    0 <= i <= nelx g -> 0 <= j <= nely g -> node_j g (nodenumber g i j k) = j.
  Proof. intros. unfold node_j, nodenumber. rewrite mr_div by lia. apply mr_mod; lia. Qed.

  Lemma node_k_num i j k :
    0 <= i <= nelx g -> 0 <= j <= nely g -> node_k g (nodenumber g i j k) = k.
  Proof.
    destruct Hwf as (Hx & Hy & Hz). intros. unfold node_k, nodenumber.
    rewrite <- Z.div_div by lia. rewrite mr_div by lia. apply mr_div; lia.
  Qed.

  Lemma node_num_inv n :
    0 <= n < nnodes g ->
    0 <= node_i g n <= nelx g /\ 0 <= node_j g n <= nely g /\ 0 <= node_k g n <= nelz g /\
    nodenumber g (node_i g n) (node_j g n) (node_k g n) = n.
  Proof.
    destruct Hwf as (Hx & Hy & Hz). intros Hn. unfold node_i, node_j, node_k, nodenumber, nnodes in *.
    pose proof (Z.mod_pos_bound n (nelx g + 1) ltac:(lia)) as B1.
    pose proof (Z.mod_pos_bound (n / (nelx g + 1)) (nely g + 1) ltac:(lia)) as B2.
    rewrite <- Z.div_div by lia.
    pose proof (Z.div_mod n (nelx g + 1) ltac:(lia)) as D1.
    pose proof (Z.div_mod (n / (nelx g + 1)) (nely g + 1) ltac:(lia)) as D2.
    assert (Q1 : 0 <= n / (nelx g + 1)) by (apply Z.div_pos; lia).
    assert (Q2 : 0 <= n / (nelx g + 1) / (nely g + 1)) by (apply Z.div_pos; lia).
    assert (Q3 : n / (nelx g + 1) / (nely g + 1) < nelz g + 1).
    { apply Z.div_lt_upper_bound; [lia|]. apply Z.div_lt_upper_bound; [lia|]. lia. }
    repeat split; try lia.
    all: nia.
  Qed.

  (* injectivity on the index box, as a corollary *)
  Lemma node_inj i j k i' j' k' :
    0 <= i <= nelx g -> 0 <= j <= nely g -> 0 <= i' <= nelx g -> 0 <= j' <= nely g ->
    nodenumber g i j k = nodenumber g i' j' k' -> i = i' /\ j = j' /\ k = k'.
  Proof.
    intros Hi Hj Hi' Hj' E.
    pose proof (node_i_num i j k Hi) as A1. pose proof (node_i_num i' j' k' Hi') as A2.
    pose proof (node_j_num i j k Hi Hj) as B1. pose proof (node_j_num i' j' k' Hi' Hj') as B2.
    pose proof (node_k_num i j k Hi Hj) as C1. pose proof (node_k_num i' j' k' Hi' Hj') as C2.
    rewrite E in A1, B1, C1. lia.
  Qed.
End Node.

Lemma elem_inj g i j k i' j' k' : wf g ->
  0 <= i < nelx g -> 0 <= j < nely g -> 0 <= i' < nelx g -> 0 <= j' < nely g ->
  elemnumber g i j k = elemnumber g i' j' k' -> i = i' /\ j = j' /\ k = k'.
Proof.
  intros Hwf Hi Hj Hi' Hj' E.
  pose proof (elem_i_num g i j k Hi) as A1. pose proof (elem_i_num g i' j' k' Hi') as A2.
  pose proof (elem_j_num g i j k Hi Hj) as B1. pose proof (elem_j_num g i' j' k' Hi' Hj') as B2.
  pose proof (elem_k_num g Hwf i j k Hi Hj) as C1. pose proof (elem_k_num g Hwf i' j' k' Hi' Hj') as C2.
  rewrite E in A1, B1, C1. lia.
Qed.

(* ---- node_indices is the inverse of get_nodenumber, 2 entries in 2-D, 3 in 3-D ---- *)
Lemma node_indices_inverse g i j k : wf g ->
  0 <= i <= nelx g -> 0 <= j <= nely g -> 0 <= k <= nelz g ->
  node_indices g (nodenumber g i j k) = if nelz g =? 0 then [i; j] else [i; j; k].
Proof.
  intros Hwf Hi Hj Hk. unfold node_indices, dim.
  rewrite node_i_num, node_j_num, node_k_num by (auto; lia).
  destruct (nelz g =? 0) eqn:Ez.
  - destruct (nely g =? 0) eqn:Ey; [destruct Hwf as (?&?&?); lia|]. reflexivity.
  - reflexivity.
Qed.

(* ---- connectivity: corner offsets (n+1)/2, documented local order ---- *)
Definition corner (n : Z) : Z := (n + 1) / 2.
Lemma corner_max n : (n = -1 \/ n = 1) -> Z.max n 0 = corner n.
Proof. intros [->| ->]; reflexivity. Qed.

Definition corners2 : list (Z*Z*Z) := [(0,0,0); (1,0,0); (0,1,0); (1,1,0)].
Definition corners3 : list (Z*Z*Z) := corners2 ++ [(0,0,1); (1,0,1); (0,1,1); (1,1,1)].

Lemma elemconn_corners g i j k : wf g ->
  elemconn g i j k =
  map (fun c => match c with (a, b, c) => nodenumber g (i + a) (j + b) (k + c) end)
      (if nelz g =? 0 then corners2 else corners3).
Proof.
  intros (Hx & Hy & Hz). unfold elemconn, dim.
  destruct (nelz g =? 0) eqn:Ez.
  - destruct (nely g =? 0) eqn:Ey; [lia|]. reflexivity.
  - reflexivity.
Qed.

Lemma conn_corners g i j k : wf g ->
  0 <= i < nelx g -> 0 <= j < nely g -> 0 <= k < nz1 g ->
  conn g (elemnumber g i j k) =
  map (fun c => match c with (a, b, c) => nodenumber g (i + a) (j + b) (k + c) end)
      (if nelz g =? 0 then corners2 else corners3).
Proof.
  intros Hwf Hi Hj Hk. unfold conn.
  rewrite elem_i_num, elem_j_num, elem_k_num by auto. apply elemconn_corners; auto.
Qed.

(* the corners of an element are pairwise distinct nodes *)
Lemma corners_distinct g i j k : wf g ->
  0 <= i < nelx g -> 0 <= j < nely g -> 0 <= k < nz1 g ->
  NoDup (conn g (elemnumber g i j k)).
Proof.
  intros Hwf Hi Hj Hk. rewrite conn_corners by auto.
  assert (Hinj : forall a b c a' b' c', (a = 0 \/ a = 1) -> (b = 0 \/ b = 1) -> (a' = 0 \/ a' = 1) -> (b' = 0 \/ b' = 1) ->
     nodenumber g (i + a) (j + b) (k + c) = nodenumber g (i + a') (j + b') (k + c') -> a = a' /\ b = b' /\ c = c').
  { intros a b c a' b' c' Ha Hb Ha' Hb' E.
    apply (node_inj g Hwf) in E; lia. }
  assert (Hne : forall a b c a' b' c', (a = 0 \/ a = 1) -> (b = 0 \/ b = 1) -> (a' = 0 \/ a' = 1) -> (b' = 0 \/ b' = 1) ->
     (a, b, c) <> (a', b', c') ->
     nodenumber g (i + a) (j + b) (k + c) <> nodenumber g (i + a') (j + b') (k + c')).
  { intros a b c a' b' c' Ha Hb Ha' Hb' N E. apply N. apply Hinj in E; auto. destruct E as (-> & -> & ->). reflexivity. }
  destruct (nelz g =? 0); cbn [corners2 corners3 app map];
  repeat (constructor; [cbn [In]; intros HIn;
     repeat (destruct HIn as [HIn|HIn]; [revert HIn; apply Hne; (lia || congruence)|]); exact HIn|]);
  constructor.
Qed.

(* ---- the scatter in the constructor builds exactly the table e |-> conn e ---- *)
Lemma upd_length {A} (l : list A) n x : length (upd l n x) = length l.
Proof. revert n; induction l as [|h t IH]; intros [|n]; cbn; auto. Qed.

Lemma nth_upd_same {A} (l : list A) n x d : (n < length l)%nat -> nth n (upd l n x) d = x.
Proof. revert n; induction l as [|h t IH]; intros [|n] Hn; cbn in *; try lia; auto. apply IH; lia. Qed.

Lemma nth_upd_other {A} (l : list A) n m x d : n <> m -> nth m (upd l n x) d = nth m l d.
Proof. revert n m; induction l as [|h t IH]; intros [|n] [|m] Hn; cbn; auto; try lia. Qed.

Lemma in_zrange n x : In x (zrange n) <-> 0 <= x < n.
Proof.
  unfold zrange. rewrite in_map_iff. split.
  - intros (k & <- & Hk). apply in_seq in Hk. lia.
  - intros Hx. exists (Z.to_nat x). split; [lia|]. apply in_seq. lia.
Qed.

Lemma in_ijk_list g i j k :
  In (i, j, k) (ijk_list g) <-> (0 <= i < nelx g /\ 0 <= j < nely g /\ 0 <= k < nz1 g).
Proof.
  unfold ijk_list. rewrite in_flat_map. split.
  - intros (i' & Hi & H). rewrite in_flat_map in H. destruct H as (j' & Hj & H).
    rewrite in_map_iff in H. destruct H as (k' & E & Hk). inversion E; subst.
    rewrite in_zrange in *. auto.
  - intros (Hi & Hj & Hk). exists i. rewrite in_zrange. split; auto.
    rewrite in_flat_map. exists j. rewrite in_zrange. split; auto.
    rewrite in_map_iff. exists k. rewrite in_zrange. auto.
Qed.

Lemma scatter_nth g (l : list (Z*Z*Z)) (tab : list (list Z)) e d :
  wf g ->
  (forall i j k, In (i, j, k) l -> 0 <= i < nelx g /\ 0 <= j < nely g /\ 0 <= k < nz1 g) ->
  length tab = Z.to_nat (nel g) -> 0 <= e < nel g ->
  nth (Z.to_nat e)
      (fold_left (fun tab ijk => match ijk with (i, j, k) =>
               upd tab (Z.to_nat (elemnumber g i j k)) (elemconn g i j k) end) l tab) d =
  if existsb (fun ijk => match ijk with (i, j, k) => elemnumber g i j k =? e end) l
  then conn g e else nth (Z.to_nat e) tab d.
Proof.
  intros Hwf. revert tab. induction l as [|[[i j] k] l IH]; intros tab Hl Hlen He; cbn [fold_left existsb].
  - reflexivity.
  - destruct (Hl i j k (or_introl eq_refl)) as (Hi & Hj & Hk).
    pose proof (elem_range g i j k Hi Hj Hk) as Hr.
    rewrite IH; [| intros; apply Hl; right; auto | rewrite upd_length; auto | auto].
    destruct (existsb _ l) eqn:Ex.
    + rewrite orb_true_r. reflexivity.
    + rewrite orb_false_r. destruct (elemnumber g i j k =? e) eqn:Ee.
      * apply Z.eqb_eq in Ee. subst e. rewrite nth_upd_same by lia.
        unfold conn. rewrite elem_i_num, elem_j_num, elem_k_num by auto. reflexivity.
      * apply Z.eqb_neq in Ee. rewrite nth_upd_other by lia. reflexivity.
Qed.

Lemma conn_table_nth g e d : wf g -> 0 <= e < nel g ->
  nth (Z.to_nat e) (conn_table g) d = conn g e.
Proof.
  intros Hwf He. unfold conn_table.
  rewrite scatter_nth; auto.
  - replace (existsb _ (ijk_list g)) with true; [reflexivity|].
    symmetry. apply existsb_exists.
    destruct (elem_num_inv g Hwf e He) as (Hi & Hj & Hk & E).
    exists (elem_i g e, elem_j g e, elem_k g e). split.
    + apply in_ijk_list; auto.
    + apply Z.eqb_eq; exact E.
  - intros i j k H. apply in_ijk_list; auto.
  - rewrite repeat_length. reflexivity.
Qed.

(* ---- dof connectivity ---- *)
Lemma zrange_length n : length (zrange n) = Z.to_nat n.
Proof. unfold zrange. rewrite map_length, seq_length. reflexivity. Qed.

Lemma combine_app_eq {A B} (a1 a2 : list A) (b1 b2 : list B) :
  length a1 = length b1 -> combine (a1 ++ a2) (b1 ++ b2) = combine a1 b1 ++ combine a2 b2.
Proof.
  revert b1; induction a1 as [|x a1 IH]; intros [|y b1] Hl; cbn in *; try discriminate; auto.
  f_equal. apply IH. lia.
Qed.

Lemma zip_add_repeat c (l : list Z) :
  zip_add (repeat c (length l)) l = map (fun d => c + d) l.
Proof. unfold zip_add. induction l as [|x l IH]; cbn; [reflexivity|]. f_equal. exact IH. Qed.

Lemma dofconn_row_cons ndof n row :
  dofconn_row ndof (n :: row) = map (fun d => n * ndof + d) (zrange ndof) ++ dofconn_row ndof row.
Proof.
  unfold dofconn_row, rep_each. cbn [map flat_map length tile].
  unfold zip_add. rewrite combine_app_eq by (rewrite repeat_length, zrange_length; reflexivity).
  rewrite map_app. f_equal.
  rewrite <- (zrange_length ndof). apply zip_add_repeat.
Qed.

(* dofconn(e)[a*ndof + d] = conn(e)[a]*ndof + d *)
Lemma dofconn_row_flat ndof row :
  dofconn_row ndof row = flat_map (fun n => map (fun d => n * ndof + d) (zrange ndof)) row.
Proof.
  induction row as [|n row IH]; [reflexivity|].
  rewrite dofconn_row_cons. cbn [flat_map]. f_equal. exact IH.
Qed.

Lemma nth_zrange n d : 0 <= d < n -> nth (Z.to_nat d) (zrange n) 0 = d.
Proof.
  intros Hd. unfold zrange.
  rewrite (nth_indep _ 0 (Z.of_nat 0)) by (rewrite map_length, seq_length; lia).
  rewrite map_nth, seq_nth by lia. lia.
Qed.

Lemma dofconn_row_nth ndof row a d : 0 <= d < ndof -> (a < length row)%nat ->
  nth (a * Z.to_nat ndof + Z.to_nat d) (dofconn_row ndof row) 0 = nth a row 0 * ndof + d.
Proof.
  intros Hd. rewrite dofconn_row_flat. revert a.
  induction row as [|n row IH]; intros a Ha; cbn [length] in Ha; [lia|].
  cbn [flat_map]. destruct a as [|a].
  - cbn [Nat.mul Nat.add nth]. rewrite app_nth1 by (rewrite map_length, zrange_length; lia).
    rewrite (nth_indep _ 0 ((fun d0 => n * ndof + d0) 0)) by (rewrite map_length, zrange_length; lia).
    rewrite map_nth, nth_zrange by lia. reflexivity.
  - rewrite app_nth2 by (rewrite map_length, zrange_length; lia).
    rewrite map_length, zrange_length.
    replace (S a * Z.to_nat ndof + Z.to_nat d - Z.to_nat ndof)%nat with (a * Z.to_nat ndof + Z.to_nat d)%nat by lia.
    cbn [nth]. apply IH. lia.
Qed.

Lemma dofconn_row_length ndof row : 0 <= ndof ->
  length (dofconn_row ndof row) = (length row * Z.to_nat ndof)%nat.
Proof.
  intros Hn. rewrite dofconn_row_flat. induction row as [|n row IH]; cbn; [reflexivity|].
  rewrite app_length, map_length, zrange_length, IH. lia.
Qed.
