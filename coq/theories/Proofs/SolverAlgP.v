(* Every solve() expression of dense.py / SolverSparseLU solves the requested system, for every mode and every
   right-hand side, given the documented contract of the factorisation it is built on. *)
From mathcomp Require Import all_ssreflect all_algebra.
From Pymoto Require Import Base.StarRing Model.SolverAlg.
Set Implicit Arguments.
Unset Strict Implicit.
Unset Printing Implicit Defensive.
Import GRing.Theory.
Local Open Scope ring_scope.

Section Proofs.
Variable M : ringType.
Variables tr cj : M -> M.
Hypothesis SL : star_laws tr cj.
Variable tsolve : bool -> bool -> M -> trans -> M -> M.
Variable ddiv : M -> M -> M.
Variable splu : trans -> M -> M.

Local Notation hm := (hm tr cj).
Local Notation op := (op tr cj).
Local Notation tri_ok := (tri_ok tr cj tsolve).
Local Notation solves := (solves tr cj).

Let trM := trM SL.
Let cjM := cjM SL.
Let trK := trK SL.
Let cjK := cjK SL.
Let cjtr := cjtr SL.

(* specialisations of the triangular-solve contract *)
Lemma triN lo un F x : tri_ok lo un F -> F * tsolve lo un F tN x = x.
Proof. by move=> H; exact: (H tN x). Qed.
Lemma triT lo un F x : tri_ok lo un F -> tr F * tsolve lo un F tT x = x.
Proof. by move=> H; exact: (H tT x). Qed.
Lemma triH lo un F x : tri_ok lo un F -> tr (cj F) * tsolve lo un F tH x = x.
Proof. by move=> H; exact: (H tH x). Qed.
Lemma triC lo un F x : tri_ok lo un F -> cj F * cj (tsolve lo un F tN x) = cj x.
Proof. by move=> H; rewrite -cjM (triN _ H). Qed.

(* ---------------------------------------------------------------- SolverDiagonal *)
Lemma diagonal_solves A diag :
  A = diag -> tr diag = diag -> ddiv_ok ddiv diag -> ddiv_ok ddiv (cj diag) ->
  forall t b, solves A t (sol_Diagonal cj ddiv diag t b) b.
Proof.
  move=> -> Ed H1 H2 [] b; rewrite /solves /sol_Diagonal /=.
  - exact: H1.
  - by rewrite Ed; exact: H1.
  - by rewrite /StarRing.hm -cjtr Ed; exact: H2.
Qed.

(* ---------------------------------------------------------------- SolverDenseQR *)
Lemma qr_solves A q r :
  A = q * r -> hm q * q = 1 -> q * hm q = 1 -> tri_ok false false r ->
  forall t b, solves A t (sol_QR tr cj tsolve q r t b) b.
Proof.
  move=> -> Hl Hr Tr [] b; rewrite /solves /sol_QR /=.
  - by rewrite -mulrA (triN _ Tr) cjtr mulrA Hr mul1r.
  - rewrite trM -mulrA [tr q * _]mulrA.
    have -> : tr q * cj q = 1 by rewrite -[tr q]cjK -cjM cjtr Hl (cj1 SL).
    by rewrite mul1r (triT _ Tr).
  - rewrite /StarRing.hm cjM trM -mulrA [tr (cj q) * _]mulrA Hl mul1r.
    exact: (triH _ Tr).
Qed.

(* ---------------------------------------------------------------- SolverDenseLU *)
Lemma lu_solves A p l u :
  A = p * l * u -> tr p * p = 1 -> p * tr p = 1 -> cj p = p ->
  tri_ok true false l -> tri_ok false false u ->
  forall t b, solves A t (sol_LU tr tsolve p l u t b) b.
Proof.
  move=> -> Hl Hr Hc Tl Tu [] b; rewrite /solves /sol_LU /=.
  - by rewrite -!mulrA (triN _ Tu) (triN _ Tl) mulrA Hr mul1r.
  - by rewrite !trM -!mulrA [tr p * _]mulrA Hl mul1r (triT _ Tl) (triT _ Tu).
  - rewrite /StarRing.hm !cjM !trM Hc -!mulrA [tr p * _]mulrA Hl mul1r.
    by rewrite (triH _ Tl) (triH _ Tu).
Qed.

(* ---------------------------------------------------------------- SolverDenseCholesky (factorisation succeeded) *)
Lemma chol_herm U : hm (hm U * U) = hm U * U.
Proof. by rewrite (hmM SL) (hmK SL). Qed.

Lemma cholesky_solves A U hb l d1 Pm :
  A = hm U * U -> tri_ok false false U ->
  forall t b, solves A t (sol_Cholesky tr cj tsolve true U hb l d1 Pm t b) b.
Proof.
  move=> -> TU [] b; rewrite /solves /sol_Cholesky /=.
  - by rewrite -mulrA (triN _ TU) (triH _ TU).
  - rewrite trM (tr_hm SL) -mulrA (triC _ TU) cjK.
    exact: (triT _ TU).
  - by rewrite -/(StarRing.hm tr cj _) chol_herm -mulrA (triN _ TU) (triH _ TU).
Qed.

(* ---------------------------------------------------------------- SolverDenseLDL *)
Section LDL.
Variables (A l d d1 Pm : M) (h : bool).
Hypothesis EA : A = l * d * (if h then hm l else tr l).
Hypothesis Pl : tr Pm * Pm = 1.
Hypothesis Pr : Pm * tr Pm = 1.
Hypothesis Pc : cj Pm = Pm.
Hypothesis Dl : d1 * d = 1.
Hypothesis Dr : d * d1 = 1.
Hypothesis TL : tri_ok true true (Pm * l).

Let lp := Pm * l.
Lemma l_eq : l = tr Pm * lp.
Proof. by rewrite /lp mulrA Pl mul1r. Qed.
Lemma trl_eq : tr l = tr lp * Pm.
Proof. by rewrite l_eq trM trK. Qed.
Lemma hml_eq : hm l = hm lp * Pm.
Proof. by rewrite l_eq (hmM SL) /StarRing.hm cjtr Pc trK. Qed.
Lemma cjl_eq : cj l = tr Pm * cj lp.
Proof. by rewrite l_eq cjM cjtr Pc. Qed.

Lemma cancelP x : Pm * (tr Pm * x) = x.
Proof. by rewrite mulrA Pr mul1r. Qed.
Lemma cancelP' x : tr Pm * (Pm * x) = x.
Proof. by rewrite mulrA Pl mul1r. Qed.

Lemma ldl_solves t b : solves A t (sol_LDL tr cj tsolve h l d1 Pm t b) b.
Proof.
  rewrite /solves /sol_LDL -/lp EA.
  case: t => /=.
  - (* N *)
    rewrite -[l * d * _ * _]mulrA.
    have -> : (if h then hm l else tr l) * (tr Pm * tsolve true true lp (if h then tH else tT) (d1 * tsolve true true lp tN (Pm * b)))
              = d1 * tsolve true true lp tN (Pm * b).
      case: h; rewrite ?hml_eq ?trl_eq -mulrA cancelP.
      + exact: (triH _ TL).
      + exact: (triT _ TL).
    by rewrite -!mulrA [d * _]mulrA Dr mul1r {1}l_eq -mulrA (triN _ TL) cancelP'.
  - (* T *)
    rewrite !trM.
    have -> : tr (if h then hm l else tr l) = (if h then cj l else l).
      by case: h; rewrite ?(tr_hm SL) ?trK.
    rewrite -!mulrA trl_eq -[tr lp * Pm * _]mulrA cancelP (triT _ TL).
    rewrite cjM cjtr !cjK [tr d * _]mulrA -trM Dl (tr1 SL) mul1r.
    case: h.
    + by rewrite cjl_eq -mulrA (triC _ TL) cjK cancelP'.
    + by rewrite {1}l_eq -mulrA (triN _ TL) cancelP'.
  - (* H *)
    rewrite !(hmM SL).
    have -> : hm (if h then hm l else tr l) = (if h then l else cj l).
      by case: h; rewrite ?(hmK SL) ?(hm_tr SL).
    rewrite -!mulrA hml_eq -[hm lp * Pm * _]mulrA cancelP (triH _ TL).
    rewrite [hm d * _]mulrA -[tr (cj d1)]/(hm d1) -(hmM SL) Dl (hm1 SL) mul1r.
    case: h => /=.
    + by rewrite {1}l_eq -mulrA (triN _ TL) cancelP'.
    + by rewrite cjl_eq -mulrA (triC _ TL) cjK cancelP'.
Qed.
End LDL.

(* ---------------------------------------------------------------- SolverDenseCholesky, fallback branch *)
Lemma cholesky_fallback_solves A U hb l d d1 Pm :
  A = l * d * (if hb then hm l else tr l) -> tr Pm * Pm = 1 -> Pm * tr Pm = 1 -> cj Pm = Pm ->
  d1 * d = 1 -> d * d1 = 1 -> tri_ok true true (Pm * l) ->
  forall t b, solves A t (sol_Cholesky tr cj tsolve false U hb l d1 Pm t b) b.
Proof. move=> EA Pl Pr Pc Dl Dr TL t b; rewrite /sol_Cholesky; exact: (ldl_solves EA). Qed.

(* ---------------------------------------------------------------- SolverSparseLU *)
Lemma sparselu_solves A : splu_ok tr cj splu A -> forall t b, solves A t (sol_SparseLU splu t b) b.
Proof. by move=> H t b; exact: H. Qed.

(* uniqueness: when op_t(A) has a left inverse the solution is THE solution (what the harness compares with) *)
Lemma solves_unique A Ai t x y b : Ai * op t A = 1 -> solves A t x b -> solves A t y b -> x = y.
Proof.
  rewrite /solves => Hi Hx Hy.
  by rewrite -[x]mul1r -[y]mul1r -Hi -!mulrA Hx Hy.
Qed.

End Proofs.

(* ---------------------------------------------------------------- non-vacuity: a concrete instance
   M = rat (1 x 1 matrices), tr = cj = id, triangular solve = division.  A = 6 = 1 * 2 * 3 (LU),
   = (-1) * (-6) (QR), = 2 * 3 * 2 / 2 ... ; all contracts hold and the conclusions are non-trivial. *)
Section Instance.
Local Notation Q := rat.
Definition q_tsolve (lo un : bool) (F : Q) (t : trans) (b : Q) : Q := F^-1 * b.
Definition q_ddiv (d b : Q) : Q := d^-1 * b.

Lemma q_star : star_laws (@id Q) (@id Q).
Proof. by split => // a b; rewrite mulrC. Qed.

Lemma q_tri_ok lo un (F : Q) : F != 0 -> tri_ok id id q_tsolve lo un F.
Proof. by move=> H [] b; rewrite /q_tsolve /= mulrA divff ?mul1r. Qed.

Lemma q_ddiv_ok (F : Q) : F != 0 -> ddiv_ok q_ddiv F.
Proof. by move=> H b; rewrite /q_ddiv mulrA divff ?mul1r. Qed.

Lemma instance_lu : forall t b, solves id id (6%:Q) t (sol_LU id q_tsolve 1 2%:Q 3%:Q t b) b.
Proof.
  have E : 6%:Q = 1 * 2%:Q * 3%:Q by rewrite mul1r -natrM.
  have E1 : (1 : Q) * 1 = 1 by rewrite mul1r.
  exact: (lu_solves q_star E E1 E1 (erefl _) (q_tri_ok _ _ (isT : 2%:Q != 0)) (q_tri_ok _ _ (isT : 3%:Q != 0))).
Qed.

Lemma instance_lu_value : sol_LU id q_tsolve 1 2%:Q 3%:Q tT 12%:Q = 2%:Q.
Proof. by vm_compute. Qed.

Lemma instance_ldl : forall t b,
  solves id id (12%:Q) t (sol_LDL id id q_tsolve true 2%:Q (3%:Q)^-1 1 t b) b.
Proof.
  have E : 12%:Q = 2%:Q * 3%:Q * (if true then hm id id 2%:Q else id 2%:Q) by rewrite /hm /= -!natrM.
  have E1 : (1 : Q) * 1 = 1 by rewrite mul1r.
  have D1 : (3%:Q)^-1 * 3%:Q = 1 by rewrite mulVf.
  have D2 : 3%:Q * (3%:Q)^-1 = 1 by rewrite divff.
  have T : tri_ok id id q_tsolve true true (1 * 2%:Q) by rewrite mul1r; exact: q_tri_ok.
  move=> t b; exact: (@ldl_solves _ id id q_star q_tsolve (12%:Q) 2%:Q 3%:Q (3%:Q)^-1 1 true E E1 E1 (erefl _) D1 D2 T).
Qed.
End Instance.
